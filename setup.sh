#!/bin/sh
# builds the framework offline from files on disk only
set -e
cd "$(dirname "$0")"
export CARGO_NET_OFFLINE=true
(cd tools/vx-extract && cargo build --release --offline)
mkdir -p .cache .work evidence replays
cp /repo/Cargo.lock replay/Cargo.lock 2>/dev/null || true
(cd replay && CARGO_TARGET_DIR="$PWD/../.cache/replay-target" cargo build --offline --quiet) || echo "warning: replay crate did not build"
python3 tools/gen_xcheck.py > /dev/null && cp /repo/Cargo.lock xcheck/Cargo.lock 2>/dev/null || true
(cd xcheck && XCHECK_REPO=/repo CARGO_TARGET_DIR="$PWD/../.cache/xcheck-target" cargo build --offline --quiet) || echo "warning: xcheck crate did not build"
echo "setup ok"
