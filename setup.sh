#!/bin/sh
exit 0
