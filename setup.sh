#!/bin/sh
# builds the framework offline from files on disk only
set -e
cd "$(dirname "$0")"
export CARGO_NET_OFFLINE=true
(cd tools/vx-extract && cargo build --release --offline)
mkdir -p .cache .work evidence replays
echo "setup ok"
