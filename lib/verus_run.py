"""Run Verus on an assembled unit and turn its diagnostics into named obligations."""
import json, os, subprocess, time, re, hashlib

ROOT = os.path.dirname(os.path.dirname(os.path.abspath(__file__)))
CACHE = os.path.join(ROOT, ".cache")

FAIL_KINDS = {
    "postcondition not satisfied": "postcondition",
    "precondition not satisfied": "precondition",
    "invariant not satisfied before loop": "invariant-entry",
    "invariant not satisfied at end of loop body": "invariant-preserve",
    "assertion failed": "assertion",
    "possible arithmetic underflow/overflow": "overflow",
    "possible division by zero": "divzero",
    "recommendation not met": "recommends",
    "decreases not satisfied": "decreases",
    "loop invariant not satisfied": "invariant",
    "unable to prove post-condition of closure": "postcondition",
    "unable to prove pre-condition of closure call": "precondition",
}


def run_verus(unit_path, seed=0, rlimit=None, multiple_errors=40, threads=16, extra=None, timeout=3000):
    """returns dict(rc, results, times, diags[], raw_stderr, wall_s)"""
    cmd = ["verus", os.path.basename(unit_path), "--output-json", "--time", "--error-format=json",
           "--multiple-errors", str(multiple_errors), "--num-threads", str(threads), "--no-report-long-running"]
    if rlimit:
        cmd += ["--rlimit", str(rlimit)]
    if seed:
        cmd += ["--smt-option", "smt.random_seed=%d" % (seed % 1000000)]
    if extra:
        cmd += extra
    t0 = time.time()
    try:
        p = subprocess.run(cmd, cwd=os.path.dirname(unit_path), capture_output=True, text=True, timeout=timeout)
        rc, so, se = p.returncode, p.stdout, p.stderr
    except subprocess.TimeoutExpired as e:
        rc, so, se = 124, (e.stdout or b"").decode() if isinstance(e.stdout, bytes) else (e.stdout or ""), "TIMEOUT"
    wall = time.time() - t0
    out = {"rc": rc, "cmd": " ".join(cmd), "wall_s": wall, "diags": [], "results": None, "times": None, "raw_stderr": se, "panic": False}
    try:
        j = json.loads(so)
        out["results"] = j.get("verification-results")
        out["times"] = j.get("times-ms")
        out["func_details"] = j.get("func-details")
    except Exception:
        pass
    for line in se.split("\n"):
        line = line.strip()
        if not line.startswith("{"):
            if "panicked at" in line or "thread 'rustc' panicked" in line:
                out["panic"] = True
            continue
        try:
            d = json.loads(line)
        except Exception:
            continue
        if d.get("$message_type") != "diagnostic":
            continue
        out["diags"].append(d)
    return out


def classify(run, side, unit_file):
    """-> dict(failed=[obligation...], compile_errors=[...], resource=[...], notes)
    obligation: {kind, fn, label, clause, line, message, rendered, callee_label}"""
    clauses = side["clauses"]
    fns = side["fns"]
    canaries = side["canaries"]
    raws = side.get("raws", [])
    base = os.path.basename(unit_file)

    def fn_at(line):
        for f in fns:
            if f["line_start"] <= line <= f["line_end"]:
                return f["key"]
        for c in canaries:
            if c["line_start"] <= line <= c["line_end"]:
                return "canary:" + c["name"]
        for r in raws:
            if r["line_start"] <= line <= r["line_end"]:
                return "raw:" + r["name"]
        for r in side.get("sections", []):
            if r["line_start"] <= line <= r["line_end"]:
                return "spec:" + r["name"]
        return None

    def clause_at(line):
        for c in clauses:
            if c["line_start"] <= line <= c["line_end"]:
                return c
        return None

    res = {"failed": [], "compile_errors": [], "resource": [], "canary_hits": set(), "other_errors": []}
    for d in run["diags"]:
        lvl = d.get("level")
        msg = d.get("message", "")
        if lvl != "error":
            continue
        if msg.startswith("aborting due to"):
            continue
        def resolve(s):
            # spans inside std macros (unreachable!, assert!, vec!) point into the std sources: walk to the call site
            seen = 0
            while s is not None and not s.get("file_name", "").endswith(base) and seen < 10:
                ex = s.get("expansion")
                if not ex:
                    return None
                prim = s.get("is_primary")
                s = dict(ex["span"])
                s["is_primary"] = prim
                seen += 1
            return s
        spans = [x for x in (resolve(s) for s in d.get("spans", [])) if x is not None]
        prim = [s for s in spans if s.get("is_primary")]
        sec = [s for s in spans if not s.get("is_primary")]
        low = msg.lower()
        if "resource limit" in low or "rlimit" in low or "timed out" in low or "timeout" in low:
            line = (prim or spans or [{}])[0].get("line_start")
            fnr = fn_at(line) if line else None
            if fnr and str(fnr).startswith("canary:"):
                # a canary on which the solver runs out of resources did not derive `false` from the hypotheses either: it counts as rejected
                res["canary_hits"].add(fnr[7:])
                res.setdefault("canary_resource", []).append(fnr[7:])
                continue
            res["resource"].append({"message": msg, "fn": fnr, "line": line})
            continue
        kind = FAIL_KINDS.get(msg)
        if kind is None:
            # anything else at level error is a compile / front-end error (type error, unsupported construct ...)
            line = (prim or spans or [{}])[0].get("line_start")
            res["compile_errors"].append({"message": msg, "line": line, "fn": fn_at(line) if line else None, "rendered": d.get("rendered", "")[:1500]})
            continue
        pline = prim[0]["line_start"] if prim else None
        ob = {"kind": kind, "message": msg, "line": pline, "fn": fn_at(pline) if pline else None, "label": None, "core": [], "sup": [],
              "callee": None, "rendered": d.get("rendered", "")[:3000], "site_text": (prim[0]["text"][0]["text"].strip() if prim and prim[0].get("text") else "")}
        if ob["fn"] and ob["fn"].startswith("canary:"):
            res["canary_hits"].add(ob["fn"][7:])
            continue
        if kind in ("postcondition", "invariant-entry", "invariant-preserve", "invariant"):
            # primary span = the failed clause (for postconditions of vstd-declared traits there is no clause in this file)
            c = clause_at(pline) if pline else None
            if c is None:
                # e.g. postcondition declared in vstd (operator SpecImpl): primary span is outside; use the body span
                for s in sec:
                    f = fn_at(s["line_start"])
                    if f:
                        ob["fn"] = f
                        ob["line"] = s["line_start"]
                        break
                ob["label"] = "std-trait-postcondition"
            else:
                ob["label"], ob["core"], ob["sup"] = c["label"], c["core"], c["sup"]
                ob["fn"] = c["fn"]
                ob["clause"] = c["text"]
        elif kind == "precondition":
            # primary = call site; secondary (label "failed precondition") = clause of the callee
            for s in sec:
                c = clause_at(s["line_start"])
                if c is not None:
                    ob["callee"] = c["fn"]
                    ob["label"], ob["core"], ob["sup"] = c["label"], c["core"], c["sup"]
                    ob["clause"] = c["text"]
                    break
            if ob["label"] is None:
                # precondition of a std / vstd function: index, unwrap, unreachable!(), assert!() ...
                txt = ob["site_text"]
                ob["label"] = "std-precondition"
                ob["panic_site"] = True
        elif kind == "assertion":
            c = clause_at(pline) if pline else None
            ob["label"] = "assert"
        dflt = (side.get("default_core") or {}).get(ob.get("fn"))
        if not ob.get("core") and dflt and (ob.get("label") in (None, "assert", "std-trait-postcondition") or str(ob.get("label")).startswith("~")):
            ob["core"] = list(dflt)          # declared with `@default core=` in the contract file: not demoted
        elif not ob.get("core") and (ob.get("label") in (None, "assert", "std-trait-postcondition") or str(ob.get("label")).startswith("~")) and ob.get("fn"):
            # an unlabelled invariant / proof assertion / operator postcondition inside function F: F's contract is not
            # established, so the failure counts against every property one of F's clauses is core for
            u = set()
            for c in clauses:
                if c["fn"] == ob["fn"]:
                    u.update(c.get("core") or [])
            ob["core"] = sorted(u)
            ob["core_inherited"] = True
        res["failed"].append(ob)
    res["canary_hits"] = sorted(res["canary_hits"])
    return res
