"""Assemble a Verus unit: real function text (from vx-extract) + contracts spliced at the markers.

Nothing in here edits executable tokens: markers are replaced by ghost text only (requires / ensures /
invariants / proof blocks / closure contracts / named return values / typed closure parameters).
"""
import json, os, re, subprocess, hashlib, sys

ROOT = os.path.dirname(os.path.dirname(os.path.abspath(__file__)))
VX = os.path.join(ROOT, "tools/vx-extract/target/release/vx-extract")


class LostAnchor(Exception):
    pass


# ------------------------------------------------------------------------------------------ contracts
class Clause:
    def __init__(self, kind, label, core, sup, text):
        self.kind, self.label, self.core, self.sup, self.text = kind, label, core, sup, text


class FnContract:
    def __init__(self, key):
        self.key = key
        self.ret = None
        self.requires, self.ensures = [], []
        self.decreases = None
        self.entry, self.tail = [], []
        self.loops, self.closures = {}, {}
        self.after = {}
        self.before = {}
        self.after_used = set()
        self.attrs = []
        self.external_body = False
        self.used = False
        self.no_canary = False
        self.default_core = []
        self.src = None


class LoopContract:
    def __init__(self, key):
        self.key = key
        self.iter = None
        self.invariants = []
        self.decreases = None
        self.start, self.end = [], []
        self.before, self.after = [], []
        self.used = False


class ClosureContract:
    def __init__(self, key):
        self.key = key
        self.params = None
        self.ret = None
        self.requires, self.ensures = [], []
        self.entry = []
        self.used = False


_LBL = re.compile(r"^\[(?P<label>[^\]\s]+)(?P<rest>[^\]]*)\]\s*$")


def _parse_label(arg):
    """'[C01.exp_split core=C01,C16 sup=C09]' -> (label, core, sup)"""
    arg = arg.strip()
    if not arg:
        return None, [], []
    m = _LBL.match(arg)
    if not m:
        raise ValueError("bad label spec: " + arg)
    core, sup = [], []
    for tok in m.group("rest").split():
        k, _, v = tok.partition("=")
        if k == "core":
            core = [x for x in v.split(",") if x]
        elif k == "sup":
            sup = [x for x in v.split(",") if x]
        else:
            raise ValueError("bad label attribute: " + tok)
    return m.group("label"), core, sup


def parse_contracts(paths):
    fns, items, raws = {}, {}, []
    for path in paths:
        cur_fn = cur_loop = cur_clos = None
        sink = None  # list to which body lines are appended
        mode = None
        with open(path) as fh:
            lines = fh.read().split("\n")
        for ln, line in enumerate(lines, 1):
            if line.startswith("#!"):
                continue
            if line.startswith("@@"):
                parts = line[2:].strip().split(None, 1)
                kind = parts[0]
                arg = parts[1].strip() if len(parts) > 1 else ""
                cur_fn = cur_loop = cur_clos = None
                sink = None
                if kind == "fn":
                    if arg in fns:
                        raise ValueError("%s:%d duplicate contract for %s" % (path, ln, arg))
                    cur_fn = fns[arg] = FnContract(arg)
                    cur_fn.src = "%s:%d" % (os.path.basename(path), ln)
                elif kind == "items":
                    sink = items.setdefault(arg, [])
                elif kind == "raw":
                    r = {"name": arg, "lines": [], "src": os.path.basename(path)}
                    raws.append(r)
                    sink = r["lines"]
                else:
                    raise ValueError("%s:%d unknown section %s" % (path, ln, kind))
                continue
            if line.startswith("@") and cur_fn is not None:
                parts = line[1:].split(None, 1)
                d = parts[0]
                arg = parts[1].strip() if len(parts) > 1 else ""
                if d == "ret":
                    cur_fn.ret = arg
                    sink = None
                elif d in ("requires", "ensures"):
                    label, core, sup = _parse_label(arg)
                    c = Clause(d, label, core, sup, [])
                    getattr(cur_fn, d).append(c)
                    sink = c.text
                    cur_loop = cur_clos = None
                elif d == "decreases":
                    cur_fn.decreases = []
                    sink = cur_fn.decreases
                elif d == "entry":
                    sink = cur_fn.entry
                elif d == "tail":
                    sink = cur_fn.tail
                elif d == "after":
                    sink = cur_fn.after.setdefault(arg if "#" in arg else arg + "#1", [])
                elif d == "before":
                    sink = cur_fn.before.setdefault(arg if "#" in arg else arg + "#1", [])
                elif d == "attr":
                    cur_fn.attrs.append(arg)
                    sink = None
                elif d == "external_body":
                    cur_fn.external_body = True
                    sink = None
                elif d == "no_canary":
                    cur_fn.no_canary = True
                    sink = None
                elif d == "default":
                    # @default core=C08,C16 : unlabelled clauses / proof assertions of this fn count as core for these properties
                    for tok in arg.split():
                        k, _, v = tok.partition("=")
                        if k == "core":
                            cur_fn.default_core = [x for x in v.split(",") if x]
                    sink = None
                elif d == "loop":
                    cur_loop = cur_fn.loops[arg] = LoopContract(arg)
                    sink = None
                elif d == "l.iter":
                    cur_loop.iter = arg
                elif d == "l.invariant":
                    label, core, sup = _parse_label(arg)
                    c = Clause("invariant", label, core, sup, [])
                    cur_loop.invariants.append(c)
                    sink = c.text
                elif d == "l.decreases":
                    cur_loop.decreases = []
                    sink = cur_loop.decreases
                elif d == "l.start":
                    sink = cur_loop.start
                elif d == "l.end":
                    sink = cur_loop.end
                elif d == "l.before":
                    sink = cur_loop.before
                elif d == "l.after":
                    sink = cur_loop.after
                elif d == "closure":
                    cur_clos = cur_fn.closures[arg] = ClosureContract(arg)
                    sink = None
                elif d == "c.params":
                    cur_clos.params = arg
                elif d == "c.ret":
                    cur_clos.ret = arg
                elif d == "c.entry":
                    sink = cur_clos.entry
                elif d in ("c.requires", "c.ensures"):
                    label, core, sup = _parse_label(arg)
                    c = Clause(d[2:], label, core, sup, [])
                    getattr(cur_clos, d[2:]).append(c)
                    sink = c.text
                else:
                    raise ValueError("%s:%d unknown directive @%s" % (path, ln, d))
                continue
            if sink is not None:
                sink.append(line)
            elif line.strip() and not line.strip().startswith("//"):
                raise ValueError("%s:%d stray text: %s" % (path, ln, line))
    return fns, items, raws


# ------------------------------------------------------------------------------------------ assembly
class Out:
    """line-tracking output buffer"""

    def __init__(self):
        self.parts = []
        self.line = 1

    def add(self, s):
        self.parts.append(s)
        self.line += s.count("\n")

    def text(self):
        return "".join(self.parts)


def _strip_types(params):
    # "|p0__: (&f32, &f32), x: &u32|" -> ["p0__", "x"]
    inner = params.strip().strip("|")
    names, depth, cur = [], 0, ""
    for ch in inner:
        if ch in "(<[":
            depth += 1
        elif ch in ")>]":
            depth -= 1
        if ch == "," and depth == 0:
            names.append(cur)
            cur = ""
        else:
            cur += ch
    if cur.strip():
        names.append(cur)
    return [n.split(":")[0].strip() for n in names]


MARK = re.compile(r"/\*@([A-Za-z0-9:<>]+)@\*/")


def _clause_block(out_lines, table, fnkey, clauses, indent):
    """append clause lines; record (first_line_offset, last_line_offset, clause) relative to out_lines"""
    for c in clauses:
        body = [l for l in c.text if l.strip() != ""]
        if not body:
            continue
        start = len(out_lines)
        for l in body:
            out_lines.append(indent + l.strip())
        if not out_lines[-1].rstrip().endswith(","):
            out_lines[-1] = out_lines[-1].rstrip() + ","
        table.append((start, len(out_lines) - 1, c))


def extract(unit_cfg, src="/repo/src"):
    cfg = dict(unit_cfg["extract"])
    cfg["src"] = src
    tmp = os.path.join(ROOT, ".cache")
    os.makedirs(tmp, exist_ok=True)
    import uuid
    p = os.path.join(tmp, "extract-%s-%d-%s.json" % (unit_cfg["name"], os.getpid(), uuid.uuid4().hex[:8]))
    with open(p, "w") as fh:
        json.dump(cfg, fh)
    try:
        r = subprocess.run([VX, p], capture_output=True, text=True)
    finally:
        os.unlink(p)
    if r.returncode != 0:
        raise LostAnchor("vx-extract exit %d: %s" % (r.returncode, r.stderr.strip()[-2000:]))
    return json.loads(r.stdout)


def assemble(unit_cfg, src="/repo/src"):
    """returns (unit_text, side) where side describes clause line ranges, fn line ranges, canaries, rewrites"""
    ex = extract(unit_cfg, src)
    fnc, itemsc, raws = parse_contracts([os.path.join(ROOT, p) for p in unit_cfg["contracts"]])
    out = Out()
    side = {"clauses": [], "fns": [], "canaries": [], "rewrites": {}, "assumed": [], "items": [], "typing_lemmas": 0}

    out.add("#![allow(unused_imports, non_snake_case, non_camel_case_types, dead_code, unused_variables, unused_mut, unused_parens, unused_braces, unused_assignments, non_upper_case_globals)]\n")
    for feat in unit_cfg.get("features", []):
        out.add("#![feature(%s)]\n" % feat)
    out.add("use vstd::prelude::*;\n")
    for p in unit_cfg.get("prelude_top", []):
        out.add(open(os.path.join(ROOT, p)).read() + "\n")
    out.add("verus! {\n")
    for p in unit_cfg.get("prelude", []):
        out.add("// ---- %s\n" % p)
        base = out.line
        out.add(open(os.path.join(ROOT, p)).read() + "\n")
        side.setdefault("sections", []).append({"name": p, "line_start": base, "line_end": out.line - 1})

    # typing lemmas (generated, proved): one per f32 field of every extracted struct
    f32_fields = []
    for it in ex["items"]:
        if it["kind"] == "struct":
            for f in it["fields"]:
                if f.get("ty") == "f32":
                    f32_fields.append((it["key"], f["name"]))
    if f32_fields:
        out.add("pub mod ty { use super::*;\n")
        for (s, f) in f32_fields:
            out.add("pub open spec fn t_%s_%s(x: %s) -> f32 { x.%s }\n" % (s, f, s, f))
            out.add("pub broadcast proof fn ty_%s_%s(x: %s) ensures #[trigger] x.%s == t_%s_%s(x) {}\n" % (s, f, s, f, s, f))
        out.add("pub broadcast group typing { %s }\n}\n" % ", ".join("ty_%s_%s" % sf for sf in f32_fields))
        side["typing_lemmas"] = len(f32_fields)
    else:
        out.add("pub mod ty { use super::*; pub proof fn ty_none() {} pub broadcast group typing { } }\n")
    bu = unit_cfg.get("broadcast_use", ["ty::typing", "ax::float_real"])
    out.add("broadcast use {%s};\n" % ", ".join(bu))

    for tname in unit_cfg.get("external_clone", []):
        # A2: the derived Clone returns an equal value
        out.add("pub assume_specification[ <%s as Clone>::clone ](x: &%s) -> (r: %s) ensures r == *x;\n" % (tname, tname, tname))
    for p in unit_cfg.get("spec", []):
        out.add("// ---- %s\n" % p)
        base = out.line
        out.add(open(os.path.join(ROOT, p)).read() + "\n")
        side.setdefault("sections", []).append({"name": p, "line_start": base, "line_end": out.line - 1})

    canary_specs = []
    side["default_core"] = {k: v.default_core for k, v in fnc.items() if v.default_core}
    for it in ex["items"]:
        for rw in it["rewrites"]:
            side["rewrites"][rw["rule"]] = side["rewrites"].get(rw["rule"], 0) + rw["count"]
        text = it["text"]
        fninfo = {f["idx"]: f for f in it["fns"]}
        item_first_line = out.line
        out.add("// ==== %s %s  (%s:%d)\n" % (it["kind"], it["key"], it["file"], it["line"]))
        if it["kind"] in ("struct", "enum") and it["key"] in unit_cfg.get("external_clone", []):
            # the derived Clone of this type is left outside Verus (erased attribute); its assumed specification
            # `r == *self` is emitted with the prelude and listed by the assumption scan
            out.add("#[verifier::external_derive(Clone)]\n")
        side["items"].append({"kind": it["kind"], "key": it["key"], "file": it["file"], "line": it["line"], "fns": [f["key"] for f in it["fns"]]})
        pos = 0
        fn_starts = {}
        skipping = None
        for m in MARK.finditer(text):
            if skipping is None:
                out.add(text[pos:m.start()])
            pos = m.end()
            tag = m.group(1).split(":")
            if skipping is not None:
                # inside the body of a function that is left out on this tree: nothing is copied until its closing brace
                if tag == [skipping, "BODYEND"]:
                    skipping = None
                continue
            if tag[0].startswith("I"):
                extra = itemsc.get(it["key"])
                if extra:
                    out.add("\n" + "\n".join(extra) + "\n")
                continue
            fi = fninfo[int(tag[0][1:])]
            fc = fnc.get(fi["key"])
            if fc is not None:
                fc.used = True
            assumed_fn = fc is not None and (fc.external_body or fi["key"] in unit_cfg.get("assume", {}))
            if assumed_fn:
                # assumed contract: only the signature-level contract is spliced; the body is not verified by Verus
                for lc_ in fc.loops.values():
                    lc_.used = True
                for cc_ in fc.closures.values():
                    cc_.used = True
                fc.after_used.update("AFTER" + k_ for k_ in fc.after.keys())
                fc.after_used.update("BEFORE" + k_ for k_ in fc.before.keys())
            if len(tag) == 2:
                what = tag[1]
                if what == "ATTR":
                    fn_starts[fi["idx"]] = out.line
                    if fc is None and fi["key"] in unit_cfg.get("assume", {}):
                        out.add("#[verifier::external_body]\n")
                        side["assumed"].append(fi["key"])
                        side.setdefault("assumed_why", {})[fi["key"]] = unit_cfg["assume"][fi["key"]]
                    if fc is not None:
                        for a in fc.attrs:
                            out.add("#[%s]\n" % a)
                        if fc.external_body or fi["key"] in unit_cfg.get("assume", {}):
                            out.add("#[verifier::external_body]\n")
                            side["assumed"].append(fi["key"])
                            side.setdefault("assumed_why", {})[fi["key"]] = unit_cfg.get("assume", {}).get(fi["key"], "contract assumed (function outside the Verus front end)")
                elif what == "RO":
                    if fc is not None and fc.ret:
                        out.add("(%s: " % fc.ret)
                elif what == "RC":
                    if fc is not None and fc.ret:
                        out.add(")")
                elif what == "SIG":
                    if fc is not None and (fc.requires or fc.ensures or fc.decreases):
                        lines, table = [], []
                        if fc.requires:
                            lines.append("    requires")
                            _clause_block(lines, table, fi["key"], fc.requires, "        ")
                        if fc.ensures:
                            lines.append("    ensures")
                            _clause_block(lines, table, fi["key"], fc.ensures, "        ")
                        if fc.decreases:
                            lines.append("    decreases " + " ".join(l.strip() for l in fc.decreases))
                        out.add("\n")
                        base = out.line
                        out.add("\n".join(lines) + "\n")
                        for (a, b, c) in table:
                            side["clauses"].append({"fn": fi["key"], "kind": c.kind, "label": c.label, "core": c.core, "sup": c.sup,
                                                    "line_start": base + a, "line_end": base + b, "text": " ".join(l.strip() for l in c.text if l.strip())})
                        if fc.requires and not fc.no_canary:
                            canary_specs.append((fi, fc, it))
                elif what == "BODYEND":
                    pass
                elif what == "ENTRY":
                    if str(unit_cfg.get("assume", {}).get(fi["key"], "")).startswith("NOT VERIFIED ON THIS TREE"):
                        # the body does not even pass the Rust front end of the unit (helper not extracted, construct outside the rewrite rules): left out
                        out.add(" unimplemented!() ")
                        skipping = tag[0]
                        continue
                    if fc is not None and fc.entry and not assumed_fn:
                        out.add("\n" + "\n".join(fc.entry) + "\n")
                elif what == "TAIL":
                    if fc is not None and fc.tail and not assumed_fn:
                        out.add("\n" + "\n".join(fc.tail) + "\n")
                continue
            # loop / closure / statement markers
            sub, what = tag[1], tag[2]
            if assumed_fn:
                if sub.startswith("C") and what == "RET":
                    ci_ = fi["closures"][int(sub[1:])]
                    if ci_["ret"]:
                        out.add("-> %s" % ci_["ret"])
                continue
            if sub.startswith("S"):
                si = fi["stmts"][int(sub[1:])]
                tbl = (fc.after if what == "AFTER" else fc.before) if fc is not None else {}
                if si["key"] in tbl:
                    fc.after_used.add(what + si["key"])
                    out.add("\n" + "\n".join(tbl[si["key"]]) + "\n")
            elif sub.startswith("L"):
                li = fi["loops"][int(sub[1:])]
                lc = fc.loops.get(li["key"]) if fc is not None else None
                if lc is not None:
                    lc.used = True
                if what == "IT":
                    if lc is not None and lc.iter:
                        out.add("%s: " % lc.iter)
                elif what == "INV":
                    if lc is not None and (lc.invariants or lc.decreases):
                        lines, table = [], []
                        if lc.invariants:
                            lines.append("        invariant")
                            _clause_block(lines, table, fi["key"], lc.invariants, "            ")
                        if lc.decreases:
                            lines.append("        decreases " + " ".join(l.strip() for l in lc.decreases))
                        out.add("\n")
                        base = out.line
                        out.add("\n".join(lines) + "\n")
                        for nn, (a, b, c) in enumerate(table):
                            if c.label is None:
                                c.label = "~inv[%s].%d" % (li["key"], nn + 1)
                            side["clauses"].append({"fn": fi["key"], "kind": "invariant", "loop": li["key"], "label": c.label, "core": c.core, "sup": c.sup,
                                                    "line_start": base + a, "line_end": base + b, "text": " ".join(l.strip() for l in c.text if l.strip())})
                elif what == "START":
                    if lc is not None and lc.start:
                        out.add("\n" + "\n".join(lc.start) + "\n")
                elif what == "END":
                    if lc is not None and lc.end:
                        out.add("\n" + "\n".join(lc.end) + "\n")
                elif what == "BEFORE":
                    if lc is not None and lc.before:
                        out.add("\n" + "\n".join(lc.before) + "\n")
                elif what == "AFTER":
                    if lc is not None and lc.after:
                        out.add("\n" + "\n".join(lc.after) + "\n")
            elif sub.startswith("C"):
                ci = fi["closures"][int(sub[1:])]
                cc = fc.closures.get(ci["key"]) if fc is not None else None
                if cc is not None:
                    cc.used = True
                if what == "P<":
                    if cc is not None and cc.params:
                        # replace the parameter list by the typed one given in the contract (names must agree)
                        end = text.index("/*@%s:%s:P>@*/" % (tag[0], sub), pos)
                        have = _strip_types(text[pos:end])
                        want = _strip_types(cc.params)
                        if have != want:
                            raise LostAnchor("closure %s of %s: parameter names %s differ from contract %s" % (ci["key"], fi["key"], have, want))
                        out.add(cc.params)
                        pos = end  # skip original params; the P> marker itself is consumed next
                elif what == "P>":
                    pass
                elif what == "RET":
                    if cc is not None and cc.ret:
                        name, _, ty = cc.ret.partition(":")
                        ty = ty.strip() or ci["ret"]
                        if not ty:
                            raise LostAnchor("closure %s of %s: contract names a result but no type is known" % (ci["key"], fi["key"]))
                        out.add(" -> (%s: %s)" % (name.strip(), ty))
                    elif ci["ret"]:
                        out.add("-> %s" % ci["ret"])
                elif what == "B<":
                    if cc is not None and (cc.requires or cc.ensures):
                        lines, table = [], []
                        if cc.requires:
                            lines.append("            requires")
                            _clause_block(lines, table, fi["key"], cc.requires, "                ")
                        if cc.ensures:
                            lines.append("            ensures")
                            _clause_block(lines, table, fi["key"], cc.ensures, "                ")
                        out.add("\n")
                        base = out.line
                        out.add("\n".join(lines) + "\n            {")
                        if cc.entry:
                            out.add("\n" + "\n".join(cc.entry) + "\n")
                        for nn, (a, b, c) in enumerate(table):
                            if c.label is None:
                                c.label = "~closure[%s].%s%d" % (ci["key"], c.kind, nn + 1)
                            side["clauses"].append({"fn": fi["key"], "kind": "closure-" + c.kind, "closure": ci["key"], "label": c.label, "core": c.core, "sup": c.sup,
                                                    "line_start": base + a, "line_end": base + b, "text": " ".join(l.strip() for l in c.text if l.strip())})
                    elif cc is not None and cc.ret:
                        out.add("{")
                elif what == "B>":
                    if cc is not None and (cc.requires or cc.ensures or cc.ret):
                        out.add("}")
        out.add(text[pos:])
        out.add("\n")
        item_last_line = out.line
        # fn line ranges: from ATTR marker to the next fn start / item end
        starts = sorted(fn_starts.items(), key=lambda kv: kv[1])
        for i, (idx, l0) in enumerate(starts):
            l1 = starts[i + 1][1] - 1 if i + 1 < len(starts) else item_last_line - 1
            side["fns"].append({"key": fninfo[idx]["key"], "line_start": l0, "line_end": l1, "file": it["file"], "contracted": fninfo[idx]["key"] in fnc})

    # unused contracts = lost anchors
    for k, fc in fnc.items():
        if not fc.used and k in unit_cfg.get("unused_contracts_ok", []):
            continue
        if not fc.used:
            raise LostAnchor("contract for fn %s has no extracted function (renamed or removed?)" % k)
        for lk, lc in fc.loops.items():
            if not lc.used:
                raise LostAnchor("loop contract %s of fn %s matches no loop" % (lk, k))
        for ck, cc in fc.closures.items():
            if not cc.used:
                raise LostAnchor("closure contract %s of fn %s matches no closure" % (ck, k))
        for ak in fc.after:
            if "AFTER" + ak not in fc.after_used:
                raise LostAnchor("statement anchor %s of fn %s matches no let statement" % (ak, k))
        for ak in fc.before:
            if "BEFORE" + ak not in fc.after_used:
                raise LostAnchor("statement anchor (before) %s of fn %s matches no let statement" % (ak, k))

    for r in raws:
        out.add("// ---- raw %s (%s)\n" % (r["name"], r["src"]))
        base = out.line
        out.add("\n".join(r["lines"]) + "\n")
        side.setdefault("raws", []).append({"name": r["name"], "line_start": base, "line_end": out.line - 1})

    # canaries: the precondition of every contracted fn must be satisfiable (assert(false) must FAIL).
    # They live in a second copy of the unit (same text + module `canary`) that is run with --verify-only-module canary,
    # so that the main run can succeed completely and Verus runs its final passes (lifetime / erasure checks) too.
    main_text_parts = list(out.parts)
    main_lines = out.line
    out.add("// ---- canaries (each assert(false) must be rejected by the verifier)\n")
    out.add("pub mod canary { use super::*;\n")
    for n, (fi, fc, it) in enumerate(canary_specs):
        params = []
        selfty = None
        if it["kind"] == "impl":
            selfty = it["key"].split(" for ")[-1].strip().lstrip("&").strip()
        ok = True
        for p in fi["params"]:
            ptxt = p.strip()
            if ptxt in ("self", "&self", "&mut self", "mut self"):
                if selfty is None:
                    ok = False
                params.append("self_: %s" % selfty)
            else:
                name, _, ty = ptxt.partition(":")
                name = name.replace("mut ", "").strip()
                ty = ty.strip()
                if ty.startswith("&mut "):
                    ty = ty[5:]
                params.append("%s: %s" % (name, ty))
        if not ok:
            continue
        pre = []
        for c in fc.requires:
            t = " ".join(l.strip() for l in c.text if l.strip()).rstrip(",")
            t = re.sub(r"\bold\((\w+)\)", r"\1", t)
            t = re.sub(r"\bself\b", "self_", t)
            pre.append(t)
        line0 = out.line
        name = "canary_%d" % n
        out.add("pub proof fn %s(%s)\n    requires\n%s\n{ assert(false); }\n" % (name, ", ".join(params), "\n".join("        %s," % t for t in pre)))
        side["canaries"].append({"name": name, "fn": fi["key"], "line_start": line0, "line_end": out.line - 1})
    # theorems of the spec layer named in the unit's "theorem_canaries": their hypotheses must not be contradictory either
    full_text = "".join(main_text_parts)
    for tn in unit_cfg.get("theorem_canaries", []):
        mt = re.search(r"pub proof fn %s\((.*?)\)\s*\n\s*requires(.*?)\n\s*ensures" % re.escape(tn), full_text, re.S)
        if not mt:
            raise LostAnchor("theorem %s named in theorem_canaries not found (or it has no requires / ensures)" % tn)
        line0 = out.line
        name = "canary_thm_%s" % tn
        out.add("pub proof fn %s(%s)\n    requires%s\n{ assert(false); }\n" % (name, mt.group(1), mt.group(2).rstrip().rstrip(",") + ","))
        side["canaries"].append({"name": name, "fn": "theorem " + tn, "line_start": line0, "line_end": out.line - 1})
    line0 = out.line
    out.add("pub proof fn canary_axioms() { assert(false); }\n")
    side["canaries"].append({"name": "canary_axioms", "fn": "<prelude axioms>", "line_start": line0, "line_end": out.line - 1})
    out.add("}\n")
    out.add("} // verus!\nfn main() {}\n")
    canary_text = out.text()
    main_text = "".join(main_text_parts) + "} // verus!\nfn main() {}\n"
    # mechanical scan of the verified text for everything that is assumed rather than proved
    scan = []
    cur_fn = None
    pending = []
    for ln, line in enumerate(main_text.split("\n"), 1):
        m = re.search(r"\b(?:proof\s+)?fn\s+([A-Za-z_][A-Za-z0-9_]*)", line)
        if m:
            cur_fn = m.group(1)
            for pnd in pending:          # an attribute line belongs to the next fn
                pnd["fn"] = cur_fn
            pending = []
        stripped = line.strip()
        if stripped.startswith("//"):
            continue
        for kw in ("admit()", "assume(", "external_body", "assume_specification", "#[verifier::external"):
            if kw in line:
                what = stripped[:160]
                if kw == "assume_specification":
                    mm = re.search(r"assume_specification[^\[]*\[\s*(.+?)\s*\]\s*\(", line)
                    what = "assume_specification " + (mm.group(1) if mm else stripped[:120])
                item = {"kind": kw.strip("(#[]"), "fn": cur_fn, "line": ln, "text": what}
                if kw in ("external_body", "#[verifier::external") and not m:
                    pending.append(item)
                scan.append(item)
                break
    side["assumption_scan"] = scan
    side["sha256"] = hashlib.sha256(canary_text.encode()).hexdigest()
    side["lines"] = main_lines
    return main_text, canary_text, side
