#!/bin/bash
# usage: try_seed.sh <patch.diff> <prop> [<prop>...]  : applies the patch to /repo, runs the checks, reverts
set -u
patch=$1; shift
cd /repo && git apply "$patch" || { echo "APPLY FAILED"; exit 3; }
for p in "$@"; do
  (cd /verif && ./run check $p 2>&1 | grep -E "^(VIOLATION|UNDECIDED|KNOWN|property|note)" | cut -c1-300; echo "  -> $p rc=${PIPESTATUS[0]}")
done
cd /repo && git checkout -- . && git status --short | head -3; cd /verif && git checkout -- evidence 2>/dev/null; find /verif/replays -name "*.json" -newer /verif/MANIFEST.json -delete 2>/dev/null
