#!/usr/bin/env python3
"""Builds /verif/seeded/<id>/ (patch.diff, demo.rs, notes.md, meta.json) from seeded_raw + confirm.json + matrix.tsv"""
import json, os, re, shutil, glob
ROOT = os.path.dirname(os.path.dirname(os.path.abspath(__file__)))
OUT = os.path.join(ROOT, "seeded")
os.makedirs(OUT, exist_ok=True)
n = 0
jobs = []
for rnd, rawname in ((1, "seeded_raw"), (2, "seeded_raw2"), (3, "seeded_raw3"), (4, "seeded_raw4"), (5, "seeded_raw5"), (6, "seeded_raw6"), (7, "seeded_raw7"), (8, "seeded_raw8"), (9, "seeded_raw9"), (10, "seeded_raw10"), (11, "seeded_raw11"), (12, "seeded_raw12"), (13, "seeded_raw13")):
    RAW = os.path.join(ROOT, rawname)
    matrix = {}
    mp = os.path.join(RAW, "matrix.tsv")
    if os.path.exists(mp):
        for line in open(mp):
            parts = line.rstrip("\n").split("\t")
            if len(parts) > 2:
                matrix[parts[0]] = dict(p.split("=") for p in parts[1:] if "=" in p)
    # rounds without a full matrix: the check of the seed's own property (tools/seed_diag.sh), last run wins
    for name in ("diag.tsv", "diag_final.tsv"):
        dp = os.path.join(RAW, name)
        if os.path.exists(dp) and (name == "diag_final.tsv" or not os.path.exists(mp)):
            for line in open(dp):
                parts = line.rstrip("\n").split("\t")
                if len(parts) > 1 and "=" in parts[1]:
                    matrix.setdefault(parts[0], {}).update(dict([parts[1].split("=")]))
    for d in sorted(glob.glob(os.path.join(RAW, "C*", "[12]"))):
        jobs.append((rnd, d, matrix))
for (rnd, d, matrix) in jobs:
    pid, k = d.split("/")[-2], d.split("/")[-1]
    sid = "%s-%s" % (pid, int(k) + 2 * (rnd - 1))
    rawid = "%s-%s" % (pid, k)
    cf = os.path.join(d, "confirm.json")
    if not os.path.exists(cf):
        continue
    conf = json.load(open(cf))
    if not (conf["applies"] and conf["suite_passes_with_change"] and conf["demo_with_change"] == "fail" and conf["demo_without_change"] == "pass"):
        print("skip (not confirmed):", sid, conf)
        continue
    o = os.path.join(OUT, sid)
    os.makedirs(o, exist_ok=True)
    for f in ("patch.diff", "demo.rs", "notes.md"):
        if os.path.exists(os.path.join(d, f)):
            shutil.copyfile(os.path.join(d, f), os.path.join(o, f))
    notes = open(os.path.join(d, "notes.md")).read() if os.path.exists(os.path.join(d, "notes.md")) else ""
    files = sorted(set(re.findall(r"^\+\+\+ b/(\S+)", open(os.path.join(d, "patch.diff")).read(), re.M)))
    det = matrix.get(rawid, {})
    meta = {
        "id": sid,
        "breaks_property": pid,
        "files_touched": files,
        "what_it_needs_to_manifest": (re.search(r"(?is)(needs?|manifest|trigger)[^\n]*\n(.{0,900})", notes).group(0)[:900] if re.search(r"(?is)(needs?|manifest|trigger)", notes) else notes[:600]),
        "round": rnd,
        "origin": "fresh sub-agent given only the property text and a scratch worktree (nothing from /verif)",
        "confirmed_by": "tools/confirm_seeds.sh in the scratch worktree /tmp/wt_confirm (removed afterwards)",
        "what_i_ran": {
            "git apply --check patch.diff": "ok" if conf["applies"] else "FAILED",
            "cargo test --workspace --no-fail-fast --offline (with the change)": "%s tests passed, 0 failed" % conf["suite_tests_passed"],
            "cargo test --offline --test demo_seed (with the change)": conf["demo_with_change"],
            "cargo test --offline --test demo_seed (without the change)": conf["demo_without_change"],
            "repo HEAD": conf["repo_head"],
        },
        "checks_exit_codes": det,
        "caught_by": sorted(p for p, rc in det.items() if rc == "1"),
        "undecided": sorted(p for p, rc in det.items() if rc == "2"),
        "caught_by_its_own_property": det.get(pid) == "1" if det else None,
    }
    for extra in glob.glob(os.path.join(d, "patch_before_*.diff")):
        shutil.copyfile(extra, os.path.join(o, os.path.basename(extra)))
        meta["note"] = "the sub-agent's patch was written against the tree before the repair commit named in the file name; the same change was re-applied to the repaired function (patch_before_*.diff is the original)"
    if rnd == 1 and pid == "C02" and k == "2":
        meta["note"] = "the sub-agent's patch was written before the D1 repair of compute_cgn_exp_fP_A; the same one-token change (`+=` -> `=`) was re-applied to the repaired function (patch.orig.diff is the original)"
        if os.path.exists(os.path.join(d, "patch.orig.diff")):
            shutil.copyfile(os.path.join(d, "patch.orig.diff"), os.path.join(o, "patch.orig.diff"))
    json.dump(meta, open(os.path.join(o, "meta.json"), "w"), indent=1)
    n += 1
print("packed", n, "seeds")
