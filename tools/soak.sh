#!/bin/bash
# soak: bounded stand-ins on the unchanged tree over many seeds; prints only unexpected clauses
cd "$(dirname "$0")/.."
for seed in $(seq ${1:-0} ${2:-30}); do
  for p in C01 C02 C03 C04 C05 C06 C07 C08 C09 C10 C11 C12 C13 C14 C16; do
    .cache/replay-target/debug/vreplay check $p $seed ${3:-60} 2>/dev/null | tail -1 | python3 -c "
import json,sys
known={'C05.idempotent.rounding_noise','C13.nested','C14.rer.renewable_cogeneration','C06.step_zero_output','C06.aux_of_cogeneration_only_system','C08.aux_of_cogeneration_only_system'}
try:
    d=json.loads(sys.stdin.read())
except Exception as e:
    print('seed $seed $p NO-REPORT', e); sys.exit()
if d.get('harness_panic'): print('seed $seed $p PANIC', d['harness_panic'])
seen=set()
for f in d.get('failures',[]):
    if f['clause'] in known or f['clause'] in seen: continue
    seen.add(f['clause']); print('seed $seed $p', f['clause'], f['what'][:300]); print('     ', f.get('components','')[:1200].replace('\n',' | '), f.get('k_exp'), f.get('load_matching'), f.get('loc'))
"
  done
done
echo SOAK-DONE
