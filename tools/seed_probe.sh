#!/bin/bash
# usage: seed_probe.sh <patch.diff> <prop>...   applies the patch in a scratch worktree of /repo (HEAD), runs the checks there, prints verdict lines
WT=/tmp/wt_probe
[ -d $WT ] || git -C /repo worktree add -q --detach $WT HEAD
git -C $WT reset -q --hard $(git -C /repo rev-parse HEAD)
patch=$(readlink -f $1); shift
git -C $WT apply $patch || { echo APPLY-FAILED; exit 3; }
export VERIF_REPO=$WT
cd /verif
for p in "$@"; do
  ./run check $p > /tmp/probe_run.log 2>&1; rc=$?
  grep -E "^(VIOLATION|UNDECIDED|KNOWN|note)" /tmp/probe_run.log | cut -c1-260
  echo "  -> $p rc=$rc"
done
git -C $WT reset -q --hard HEAD
git -C /verif checkout -- evidence 2>/dev/null
