//! Final pass: insert `/*@...@*/` splice markers and describe the fns / loops / closures found.

use crate::{br, nr, txt, Edit};
use serde_json::{json, Value};
use std::collections::{BTreeMap, HashMap};
use syn::visit::{self, Visit};
use syn::Expr;

fn norm(s: &str) -> String {
    s.split_whitespace().collect::<Vec<_>>().join("")
}

struct FnCtx {
    idx: usize,
    key: String,
    loops: Vec<Value>,
    closures: Vec<Value>,
    stmts: Vec<Value>,
    stmt_occ: HashMap<String, usize>,
    loop_occ: HashMap<String, usize>,
    clos_occ: HashMap<String, usize>,
    has_ret: bool,
    params: Vec<String>,
}

struct Marker<'a> {
    src: &'a str,
    edits: Vec<Edit>,
    prefix: String,
    counter: &'a mut usize,
    impl_counter: usize,
    stack: Vec<FnCtx>,
    done: Vec<Value>,
    impls: Vec<Value>,
    /// closure start byte -> context name (method it is passed to / let binding)
    clos_ctx: HashMap<usize, String>,
}

impl<'a> Marker<'a> {
    fn ins(&mut self, pos: usize, text: String) {
        self.edits.push(Edit { start: pos, end: pos, text, rule: "mark" });
    }
    fn begin_fn(&mut self, item_start: usize, sig: &syn::Signature, block: Option<&syn::Block>, semi_pos: Option<usize>) {
        let idx = *self.counter;
        *self.counter += 1;
        self.ins(item_start, format!("/*@F{}:ATTR@*/", idx));
        let key = if self.prefix.is_empty() { sig.ident.to_string() } else { format!("{}::{}", self.prefix, sig.ident) };
        let mut has_ret = false;
        if let syn::ReturnType::Type(_, ty) = &sig.output {
            let (s, e) = nr(&**ty);
            self.ins(s, format!("/*@F{}:RO@*/", idx));
            self.ins(e, format!("/*@F{}:RC@*/", idx));
            has_ret = true;
        }
        let params: Vec<String> = sig
            .inputs
            .iter()
            .map(|a| match a {
                syn::FnArg::Receiver(r) => norm_ws(txt(self.src, r)),
                syn::FnArg::Typed(t) => norm_ws(txt(self.src, t)),
            })
            .collect();
        if let Some(b) = block {
            let open = br(b.brace_token.span.open());
            let close = br(b.brace_token.span.close());
            self.ins(open.0, format!("/*@F{}:SIG@*/", idx));
            self.ins(open.1, format!("/*@F{}:ENTRY@*/", idx));
            // tail
            let tail_pos = match b.stmts.last() {
                Some(syn::Stmt::Expr(e, None)) => nr(e).0,
                _ => close.0,
            };
            self.ins(tail_pos, format!("/*@F{}:TAIL@*/", idx));
            self.ins(close.0, format!("/*@F{}:BODYEND@*/", idx));
        } else if let Some(p) = semi_pos {
            self.ins(p, format!("/*@F{}:SIG@*/", idx));
        }
        self.stack.push(FnCtx { idx, key, loops: vec![], closures: vec![], stmts: vec![], stmt_occ: HashMap::new(), loop_occ: HashMap::new(), clos_occ: HashMap::new(), has_ret, params });
    }
    fn end_fn(&mut self) {
        let f = self.stack.pop().unwrap();
        self.done.push(json!({"idx": f.idx, "key": f.key, "loops": f.loops, "closures": f.closures, "stmts": f.stmts, "has_ret": f.has_ret, "params": f.params}));
    }
}
fn norm_ws(s: &str) -> String {
    s.split_whitespace().collect::<Vec<_>>().join(" ")
}

impl<'a, 'ast> Visit<'ast> for Marker<'a> {
    fn visit_item_fn(&mut self, f: &'ast syn::ItemFn) {
        self.begin_fn(nr(f).0, &f.sig, Some(&f.block), None);
        visit::visit_block(self, &f.block);
        self.end_fn();
    }
    fn visit_impl_item_fn(&mut self, f: &'ast syn::ImplItemFn) {
        self.begin_fn(nr(f).0, &f.sig, Some(&f.block), None);
        visit::visit_block(self, &f.block);
        self.end_fn();
    }
    fn visit_trait_item_fn(&mut self, f: &'ast syn::TraitItemFn) {
        let semi = f.semi_token.map(|s| br(s.span).0);
        self.begin_fn(nr(f).0, &f.sig, f.default.as_ref(), semi);
        if let Some(b) = &f.default {
            visit::visit_block(self, b);
        }
        self.end_fn();
    }
    fn visit_item_impl(&mut self, im: &'ast syn::ItemImpl) {
        let open = br(im.brace_token.span.open()).1;
        let n = self.impl_counter;
        self.impl_counter += 1;
        self.ins(open, format!("/*@I{}:ITEMS@*/", n));
        self.impls.push(json!({"idx": n, "key": self.prefix}));
        visit::visit_item_impl(self, im);
    }
    fn visit_item_trait(&mut self, im: &'ast syn::ItemTrait) {
        let open = br(im.brace_token.span.open()).1;
        let n = self.impl_counter;
        self.impl_counter += 1;
        self.ins(open, format!("/*@I{}:ITEMS@*/", n));
        self.impls.push(json!({"idx": n, "key": self.prefix}));
        visit::visit_item_trait(self, im);
    }
    fn visit_expr_for_loop(&mut self, fl: &'ast syn::ExprForLoop) {
        if let Some(f) = self.stack.last_mut() {
            let k = f.loops.len();
            let fidx = f.idx;
            let etxt = norm(txt(self.src, &*fl.expr));
            let occ = f.loop_occ.entry(etxt.clone()).or_insert(0);
            *occ += 1;
            let key = format!("{}#{}", etxt, occ);
            f.loops.push(json!({"idx": k, "key": key, "kind": "for", "pat": norm_ws(txt(self.src, &*fl.pat))}));
            let (es, ee) = nr(&*fl.expr);
            let open = br(fl.body.brace_token.span.open());
            let close = br(fl.body.brace_token.span.close());
            let (ls, le) = nr(fl);
            self.ins(ls, format!("/*@F{}:L{}:BEFORE@*/", fidx, k));
            self.ins(le, format!("/*@F{}:L{}:AFTER@*/", fidx, k));
            self.ins(es, format!("/*@F{}:L{}:IT@*/", fidx, k));
            self.ins(ee, format!("/*@F{}:L{}:INV@*/", fidx, k));
            self.ins(open.1, format!("/*@F{}:L{}:START@*/", fidx, k));
            self.ins(close.0, format!("/*@F{}:L{}:END@*/", fidx, k));
        }
        visit::visit_expr_for_loop(self, fl);
    }
    fn visit_expr_while(&mut self, w: &'ast syn::ExprWhile) {
        if let Some(f) = self.stack.last_mut() {
            let k = f.loops.len();
            let fidx = f.idx;
            let etxt = norm(txt(self.src, &*w.cond));
            let occ = f.loop_occ.entry(etxt.clone()).or_insert(0);
            *occ += 1;
            let key = format!("while:{}#{}", etxt, occ);
            f.loops.push(json!({"idx": k, "key": key, "kind": "while"}));
            let open = br(w.body.brace_token.span.open());
            let close = br(w.body.brace_token.span.close());
            self.ins(open.0, format!("/*@F{}:L{}:INV@*/", fidx, k));
            self.ins(open.1, format!("/*@F{}:L{}:START@*/", fidx, k));
            self.ins(close.0, format!("/*@F{}:L{}:END@*/", fidx, k));
        }
        visit::visit_expr_while(self, w);
    }
    fn visit_expr_method_call(&mut self, m: &'ast syn::ExprMethodCall) {
        for a in &m.args {
            if let Expr::Closure(c) = a {
                self.clos_ctx.insert(nr(c).0, m.method.to_string());
            }
        }
        visit::visit_expr_method_call(self, m);
    }
    fn visit_local(&mut self, l: &'ast syn::Local) {
        // statement anchor: after `let <name> = ...;`
        let lname = match &l.pat {
            syn::Pat::Ident(pi) => Some(pi.ident.to_string()),
            syn::Pat::Type(pt) => match &*pt.pat {
                syn::Pat::Ident(pi) => Some(pi.ident.to_string()),
                _ => None,
            },
            syn::Pat::Tuple(t) => {
                let names: Vec<String> = t.elems.iter().filter_map(|e| if let syn::Pat::Ident(pi) = e { Some(pi.ident.to_string()) } else { None }).collect();
                if names.is_empty() { None } else { Some(names.join(",")) }
            }
            _ => None,
        };
        if let (Some(name), Some(f)) = (lname, self.stack.last_mut()) {
            let k = f.stmts.len();
            let fidx = f.idx;
            let occ = f.stmt_occ.entry(name.clone()).or_insert(0);
            *occ += 1;
            f.stmts.push(json!({"idx": k, "key": format!("let:{}#{}", name, occ)}));
            let (start, end) = nr(l);
            self.ins(start, format!("/*@F{}:S{}:BEFORE@*/", fidx, k));
            self.ins(end, format!("/*@F{}:S{}:AFTER@*/", fidx, k));
        }
        if let Some(init) = &l.init {
            if let Expr::Closure(c) = &*init.expr {
                let name = match &l.pat {
                    syn::Pat::Ident(pi) => pi.ident.to_string(),
                    syn::Pat::Type(pt) => match &*pt.pat {
                        syn::Pat::Ident(pi) => pi.ident.to_string(),
                        _ => "anon".into(),
                    },
                    _ => "anon".into(),
                };
                self.clos_ctx.insert(nr(c).0, format!("let:{}", name));
            }
        }
        visit::visit_local(self, l);
    }
    fn visit_expr_closure(&mut self, c: &'ast syn::ExprClosure) {
        let cstart = nr(c).0;
        let ctxname = self.clos_ctx.get(&cstart).cloned().unwrap_or_else(|| "anon".into());
        if let Some(f) = self.stack.last_mut() {
            let k = f.closures.len();
            let fidx = f.idx;
            let occ = f.clos_occ.entry(ctxname.clone()).or_insert(0);
            *occ += 1;
            let key = format!("{}#{}", ctxname, occ);
            let params: Vec<String> = c.inputs.iter().map(|p| norm_ws(txt(self.src, p))).collect();
            let ret = match &c.output {
                syn::ReturnType::Type(_, t) => Some(norm_ws(txt(self.src, &**t))),
                _ => None,
            };
            f.closures.push(json!({"idx": k, "key": key, "params": params, "ret": ret, "body_is_block": matches!(&*c.body, Expr::Block(_))}));
            let p0 = br(c.or1_token.span).0;
            let p1 = br(c.or2_token.span).1;
            self.ins(p0, format!("/*@F{}:C{}:P<@*/", fidx, k));
            self.ins(p1, format!("/*@F{}:C{}:P>@*/", fidx, k));
            match &c.output {
                syn::ReturnType::Type(arrow, t) => {
                    let s = br(arrow.spans[0]).0;
                    let e = nr(&**t).1;
                    self.edits.push(Edit { start: s, end: e, text: format!("/*@F{}:C{}:RET@*/", fidx, k), rule: "mark" });
                }
                _ => self.ins(p1, format!("/*@F{}:C{}:RET@*/", fidx, k)),
            }
            let (bs, be) = nr(&*c.body);
            self.ins(bs, format!("/*@F{}:C{}:B<@*/", fidx, k));
            self.ins(be, format!("/*@F{}:C{}:B>@*/", fidx, k));
        }
        visit::visit_expr_closure(self, c);
    }
}

pub fn mark(text: &str, kind: &str, key: &str, counter: &mut usize) -> (String, Vec<Value>, Vec<Value>) {
    let file: syn::File = syn::parse_str(text).unwrap_or_else(|e| {
        eprintln!("vx-extract: reparse before marking failed: {}\n{}", e, text);
        std::process::exit(3)
    });
    let prefix = if kind == "impl" || kind == "trait" { key.to_string() } else { String::new() };
    let mut m = Marker { src: text, edits: vec![], prefix, counter, impl_counter: 0, stack: vec![], done: vec![], impls: vec![], clos_ctx: HashMap::new() };
    m.visit_file(&file);
    let mut fields = vec![];
    if let Some(syn::Item::Struct(s)) = file.items.first() {
        for f in &s.fields {
            if let Some(id) = &f.ident {
                fields.push(json!({"name": id.to_string(), "ty": norm_ws(txt(text, &f.ty))}));
            }
        }
    }
    if let Some(syn::Item::Enum(s)) = file.items.first() {
        for v in &s.variants {
            fields.push(json!({"variant": v.ident.to_string(), "fields": v.fields.iter().map(|f| norm_ws(txt(text, &f.ty))).collect::<Vec<_>>()}));
        }
    }
    let mut log = BTreeMap::new();
    let edits = std::mem::take(&mut m.edits);
    let out = crate::apply_edits(text, edits, &mut log);
    let mut fns = m.done;
    fns.sort_by_key(|f| f["idx"].as_u64().unwrap_or(0));
    (out, fns, fields)
}
