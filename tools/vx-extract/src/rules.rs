//! Rewrite rules R0..R22 (DESIGN.md 2.1). Every rule is a syn visitor that emits text edits; a rule is
//! re-run on the re-parsed text until it finds nothing more, so nested occurrences are handled.

use crate::{apply_edits, br, nr, txt, Ctx, Edit};
use std::collections::{BTreeMap, HashMap};
use syn::punctuated::Punctuated;
use syn::spanned::Spanned;
use syn::visit::{self, Visit};
use syn::{BinOp, Expr, Pat, Stmt};

type Rule = fn(&str, &syn::File, &Ctx, &mut Vec<Edit>);

pub fn run_all(text: &str, ctx: &Ctx, log: &mut BTreeMap<&'static str, usize>) -> String {
    let rules: Vec<(&str, Rule)> = vec![
        ("R0", r0),
        ("R8", r8),
        ("R6", r6),
        ("R7", r7),
        ("R3", r3),
        ("R12", r12),
        ("R21", r21),
        ("R22", r22),
        ("R19", r19),
        ("R20", r20),
        ("R11", r11),
        ("R14", r14),
        ("R13", r13),
        ("R16", r16),
        ("R15", r15),
        ("R17", r17),
        ("R18", r18),
        ("R5", r5),
        ("R4", r4),
        ("R1", r1),
        ("R2", r2),
        ("R9", r9),
        ("R10", r10),
    ];
    let mut t = text.to_string();
    for (name, rule) in rules {
        for _round in 0..40 {
            let file: syn::File = match syn::parse_str(&t) {
                Ok(f) => f,
                Err(e) => {
                    eprintln!("vx-extract: reparse failed after rule before {}: {}\n{}", name, e, t);
                    std::process::exit(3);
                }
            };
            let mut edits = vec![];
            rule(&t, &file, ctx, &mut edits);
            if edits.is_empty() {
                break;
            }
            t = apply_edits(&t, edits, log);
        }
    }
    t
}

fn is_simple_ident_pat(p: &Pat) -> bool {
    match p {
        Pat::Ident(pi) => pi.by_ref.is_none() && pi.subpat.is_none(),
        Pat::Type(pt) => is_simple_ident_pat(&pt.pat),
        _ => false,
    }
}

// ---------------------------------------------------------------------------------------------- R0
struct R0<'a> {
    src: &'a str,
    edits: &'a mut Vec<Edit>,
}
const DROP_DERIVES: [&str; 4] = ["Serialize", "Deserialize", "PartialOrd", "Ord"];
impl<'a, 'ast> Visit<'ast> for R0<'a> {
    fn visit_attribute(&mut self, a: &'ast syn::Attribute) {
        let (s, e) = nr(a);
        let name = a.path().segments.last().map(|s| s.ident.to_string()).unwrap_or_default();
        match name.as_str() {
            "doc" | "serde" | "allow" | "inline" => {
                self.edits.push(Edit { start: s, end: e, text: String::new(), rule: "R0" });
            }
            "derive" => {
                if let Ok(list) = a.parse_args_with(Punctuated::<syn::Path, syn::Token![,]>::parse_terminated) {
                    let mut keep: Vec<String> = list
                        .iter()
                        .map(|p| txt(self.src, p).to_string())
                        .filter(|n| !DROP_DERIVES.contains(&n.as_str()))
                        .collect();
                    // Verus marker (erased): derived PartialEq + Eq is structural equality
                    let mut added = false;
                    if keep.iter().any(|k| k == "PartialEq") && keep.iter().any(|k| k == "Eq") && !keep.iter().any(|k| k == "Structural") {
                        keep.push("Structural".into());
                        added = true;
                    }
                    if keep.len() != list.len() || added {
                        let t = if keep.is_empty() { String::new() } else { format!("#[derive({})]", keep.join(", ")) };
                        self.edits.push(Edit { start: s, end: e, text: t, rule: "R0" });
                    }
                }
            }
            _ => {}
        }
    }
    fn visit_visibility(&mut self, v: &'ast syn::Visibility) {
        if let syn::Visibility::Restricted(r) = v {
            let (s, e) = nr(r);
            self.edits.push(Edit { start: s, end: e, text: "pub".into(), rule: "R0" });
        }
    }
    fn visit_path(&mut self, p: &'ast syn::Path) {
        let n = p.segments.len();
        if n >= 2 {
            let first = p.segments[0].ident.to_string();
            if first == "crate" || first == "super" {
                // drop the leading module segments (lower-case, not last): crate::types::Energy::Used -> Energy::Used
                let mut k = 0;
                while k + 1 < n && is_mod_like(&p.segments[k].ident.to_string()) {
                    k += 1;
                }
                let (s, _) = nr(p);
                let (ks, _) = nr(&p.segments[k]);
                if ks > s {
                    self.edits.push(Edit { start: s, end: ks, text: String::new(), rule: "R0" });
                    return;
                }
            }
        }
        visit::visit_path(self, p);
    }
    fn visit_stmt(&mut self, s: &'ast Stmt) {
        if let Stmt::Item(syn::Item::Use(u)) = s {
            let t = txt(self.src, u);
            if t.contains("crate::") || t.contains("std::collections::HashMap") {
                let (a, b) = nr(u);
                self.edits.push(Edit { start: a, end: b, text: String::new(), rule: "R0" });
                return;
            }
        }
        visit::visit_stmt(self, s);
    }
}
fn is_mod_like(s: &str) -> bool {
    s.chars().next().map(|c| c.is_lowercase()).unwrap_or(false)
}
fn r0(src: &str, f: &syn::File, _c: &Ctx, e: &mut Vec<Edit>) {
    R0 { src, edits: e }.visit_file(f);
}

// ---------------------------------------------------------------------------------------------- R8
struct R8<'a> {
    src: &'a str,
    edits: &'a mut Vec<Edit>,
    ctx: &'a Ctx,
    active: bool,
}
impl<'a, 'ast> Visit<'ast> for R8<'a> {
    fn visit_item_fn(&mut self, f: &'ast syn::ItemFn) {
        if self.ctx.mono.contains(&f.sig.ident.to_string()) && f.sig.generics.params.iter().any(|p| matches!(p, syn::GenericParam::Type(t) if t.ident == "T")) {
            let g = &f.sig.generics;
            if let (Some(lt), Some(gt)) = (g.lt_token, g.gt_token) {
                self.edits.push(Edit { start: br(lt.span).0, end: br(gt.span).1, text: String::new(), rule: "R8" });
            }
            if let Some(w) = &g.where_clause {
                let (a, b) = nr(w);
                self.edits.push(Edit { start: a, end: b, text: String::new(), rule: "R8" });
            }
            self.active = true;
            visit::visit_item_fn(self, f);
            self.active = false;
        }
    }
    fn visit_generics(&mut self, _g: &'ast syn::Generics) {}
    fn visit_type_path(&mut self, t: &'ast syn::TypePath) {
        if self.active && t.qself.is_none() && t.path.is_ident("T") {
            let (a, b) = nr(t);
            self.edits.push(Edit { start: a, end: b, text: "f32".into(), rule: "R8" });
        } else {
            visit::visit_type_path(self, t);
        }
    }
    fn visit_type_reference(&mut self, t: &'ast syn::TypeReference) {
        if self.active {
            if let Some(l) = &t.lifetime {
                let (a, b) = nr(l);
                self.edits.push(Edit { start: a, end: b, text: String::new(), rule: "R8" });
            }
        }
        visit::visit_type_reference(self, t);
    }
    fn visit_macro(&mut self, m: &'ast syn::Macro) {
        // `vec![Zero::zero()]`: the macro body is not parsed by syn, patch its text
        if self.active {
            let (a, b) = nr(m);
            let t = &self.src[a..b];
            if t.contains("Zero::zero()") {
                self.edits.push(Edit { start: a, end: b, text: t.replace("Zero::zero()", "0.0"), rule: "R8" });
            }
        }
    }
    fn visit_expr_call(&mut self, c: &'ast syn::ExprCall) {
        if self.active {
            if let Expr::Path(p) = &*c.func {
                let segs: Vec<String> = p.path.segments.iter().map(|s| s.ident.to_string()).collect();
                if segs == ["Zero", "zero"] && c.args.is_empty() {
                    let (a, b) = nr(c);
                    self.edits.push(Edit { start: a, end: b, text: "0.0".into(), rule: "R8" });
                    return;
                }
            }
        }
        visit::visit_expr_call(self, c);
    }
}
fn r8(_src: &str, f: &syn::File, c: &Ctx, e: &mut Vec<Edit>) {
    R8 { src: _src, edits: e, ctx: c, active: false }.visit_file(f);
}

// ---------------------------------------------------------------------------------------------- R6
struct R6<'a> {
    src: &'a str,
    edits: &'a mut Vec<Edit>,
}
impl<'a> R6<'a> {
    fn mac(&mut self, m: &syn::Macro, whole: (usize, usize), semi: bool) {
        if m.path.is_ident("assert_eq") {
            if let Ok(args) = m.parse_body_with(Punctuated::<Expr, syn::Token![,]>::parse_terminated) {
                if args.len() >= 2 {
                    // token spans inside a macro body point into the same source text
                    let a = txt(self.src, &args[0]);
                    let b = txt(self.src, &args[1]);
                    self.edits.push(Edit { start: whole.0, end: whole.1, text: format!("assert!(({}) == ({})){}", a, b, if semi { ";" } else { "" }), rule: "R6" });
                }
            }
        }
    }
}
impl<'a, 'ast> Visit<'ast> for R6<'a> {
    fn visit_stmt_macro(&mut self, m: &'ast syn::StmtMacro) {
        self.mac(&m.mac, nr(m), m.semi_token.is_some());
    }
    fn visit_expr_macro(&mut self, m: &'ast syn::ExprMacro) {
        self.mac(&m.mac, nr(m), false);
    }
}
fn r6(src: &str, f: &syn::File, _c: &Ctx, e: &mut Vec<Edit>) {
    R6 { src, edits: e }.visit_file(f);
}

// ---------------------------------------------------------------------------------------------- R7
struct R7<'a> {
    edits: &'a mut Vec<Edit>,
}
impl<'a, 'ast> Visit<'ast> for R7<'a> {
    fn visit_expr_call(&mut self, c: &'ast syn::ExprCall) {
        if let Expr::Path(p) = &*c.func {
            if p.path.segments.iter().any(|s| s.ident == "EpbdError") {
                for a in &c.args {
                    let is_msg = match a {
                        Expr::Macro(m) => m.mac.path.is_ident("format"),
                        Expr::MethodCall(mc) => (mc.method == "into" || mc.method == "to_string") && mc.args.is_empty(),
                        _ => false,
                    };
                    if is_msg {
                        let (s, e) = nr(a);
                        self.edits.push(Edit { start: s, end: e, text: "errmsg()".into(), rule: "R7" });
                    }
                }
                return;
            }
        }
        visit::visit_expr_call(self, c);
    }
    fn visit_stmt_macro(&mut self, m: &'ast syn::StmtMacro) {
        if m.mac.path.is_ident("println") || m.mac.path.is_ident("eprintln") {
            let (s, e) = nr(m);
            self.edits.push(Edit { start: s, end: e, text: String::new(), rule: "R7" });
        }
    }
}
fn r7(_src: &str, f: &syn::File, _c: &Ctx, e: &mut Vec<Edit>) {
    R7 { edits: e }.visit_file(f);
}

// ---------------------------------------------------------------------------------------------- R3
struct R3<'a> {
    src: &'a str,
    edits: &'a mut Vec<Edit>,
}
impl<'a, 'ast> Visit<'ast> for R3<'a> {
    fn visit_expr_method_call(&mut self, m: &'ast syn::ExprMethodCall) {
        if m.method == "or_insert_with" && m.args.len() == 1 {
            if let (Expr::Closure(c2), Expr::MethodCall(am)) = (&m.args[0], &*m.receiver) {
                if am.method == "and_modify" && am.args.len() == 1 {
                    if let (Expr::Closure(c1), Expr::MethodCall(en)) = (&am.args[0], &*am.receiver) {
                        if en.method == "entry" && en.args.len() == 1 && c2.inputs.is_empty() && c1.inputs.len() == 1 {
                            if let (Pat::Ident(pid), Expr::Assign(asg)) = (&c1.inputs[0], &*c1.body) {
                                if let Expr::Unary(u) = &*asg.left {
                                    if matches!(u.op, syn::UnOp::Deref(_)) && txt(self.src, &*u.expr) == pid.ident.to_string() {
                                        let mtxt = txt(self.src, &*en.receiver);
                                        let k = txt(self.src, &en.args[0]);
                                        let b = txt(self.src, &*asg.right);
                                        let i = txt(self.src, &*c2.body);
                                        let (s, e) = nr(m);
                                        self.edits.push(Edit {
                                            start: s,
                                            end: e,
                                            text: format!(
                                                "{{ let k_ = {k}; let nv_ = match {m}.get(&k_) {{ Some({p}) => {b}, None => {i} }}; {m}.insert(k_, nv_); }}",
                                                k = k, m = mtxt, p = pid.ident, b = b, i = i
                                            ),
                                            rule: "R3",
                                        });
                                        return;
                                    }
                                }
                            }
                        }
                    }
                }
            }
        }
        visit::visit_expr_method_call(self, m);
    }
}
struct R3b<'a> {
    src: &'a str,
    edits: &'a mut Vec<Edit>,
}
impl<'a, 'ast> Visit<'ast> for R3b<'a> {
    fn visit_stmt(&mut self, st: &'ast Stmt) {
        // statement `M.entry(K).or_insert_with(|| V);` (result unused)  ->  `{ let k_ = K; if !M.contains_key(&k_) { M.insert(k_, V); } }`
        if let Stmt::Expr(Expr::MethodCall(m), Some(_)) = st {
            if m.method == "or_insert_with" && m.args.len() == 1 {
                if let (Expr::Closure(c2), Expr::MethodCall(en)) = (&m.args[0], &*m.receiver) {
                    if en.method == "entry" && en.args.len() == 1 && c2.inputs.is_empty() {
                        let mtxt = txt(self.src, &*en.receiver);
                        let k = txt(self.src, &en.args[0]);
                        let i = txt(self.src, &*c2.body);
                        let (s, e) = nr(m);
                        self.edits.push(Edit {
                            start: s,
                            end: e,
                            text: format!("{{ let k_ = {k}; if !{m}.contains_key(&k_) {{ let nv_ = {i}; {m}.insert(k_, nv_); }} }}", k = k, m = mtxt, i = i),
                            rule: "R3",
                        });
                        return;
                    }
                }
            }
        }
        visit::visit_stmt(self, st);
    }
}
fn r3(src: &str, f: &syn::File, _c: &Ctx, e: &mut Vec<Edit>) {
    R3 { src, edits: e }.visit_file(f);
    if e.is_empty() {
        R3b { src, edits: e }.visit_file(f);
    }
}

// ---------------------------------------------------------------------------------------------- R11
struct R11<'a> {
    edits: &'a mut Vec<Edit>,
}
impl<'a, 'ast> Visit<'ast> for R11<'a> {
    fn visit_expr_method_call(&mut self, m: &'ast syn::ExprMethodCall) {
        if m.method == "cloned" && m.args.is_empty() {
            let s = br(m.method.span()).0;
            let e = nr(m).1;
            self.edits.push(Edit { start: s, end: e, text: "map(|x| x.clone())".into(), rule: "R11" });
        }
        visit::visit_expr_method_call(self, m);
    }
}
fn r11(_src: &str, f: &syn::File, _c: &Ctx, e: &mut Vec<Edit>) {
    R11 { edits: e }.visit_file(f);
}

// ---------------------------------------------------------------------------------------------- R5
struct R5<'a> {
    src: &'a str,
    edits: &'a mut Vec<Edit>,
}
impl<'a, 'ast> Visit<'ast> for R5<'a> {
    fn visit_expr_method_call(&mut self, m: &'ast syn::ExprMethodCall) {
        if m.method == "sum" && m.args.is_empty() {
            let (s, e) = nr(m);
            if let Expr::MethodCall(it) = &*m.receiver {
                if it.method == "iter" && it.args.is_empty() {
                    let x = txt(self.src, &*it.receiver);
                    self.edits.push(Edit { start: s, end: e, text: format!("iter_sum_f32(&{})", x), rule: "R5" });
                    return;
                }
            }
            let r = txt(self.src, &*m.receiver);
            self.edits.push(Edit { start: s, end: e, text: format!("iter_sum_f32(&{}.collect::<Vec<f32>>())", r), rule: "R5" });
            return;
        }
        visit::visit_expr_method_call(self, m);
    }
}
fn r5(src: &str, f: &syn::File, _c: &Ctx, e: &mut Vec<Edit>) {
    R5 { src, edits: e }.visit_file(f);
}

// ---------------------------------------------------------------------------------------------- R4
struct R4<'a> {
    src: &'a str,
    edits: &'a mut Vec<Edit>,
}
fn is_continue(e: &Expr) -> bool {
    matches!(e, Expr::Continue(c) if c.label.is_none())
}
impl<'a> R4<'a> {
    /// `b` is in tail position of a loop body: nothing of the iteration runs after it
    fn tail_block(&mut self, b: &syn::Block) -> bool {
        let stmts = &b.stmts;
        let n = stmts.len();
        for (i, st) in stmts.iter().enumerate() {
            if let Stmt::Expr(Expr::If(ifx), _) = st {
                let only_continue = ifx.else_branch.is_none()
                    && ifx.then_branch.stmts.len() == 1
                    && matches!(&ifx.then_branch.stmts[0], Stmt::Expr(e, _) if is_continue(e));
                if only_continue {
                    let (s, e) = nr(st);
                    let cond = txt(self.src, &*ifx.cond);
                    let close = br(b.brace_token.span.close()).0;
                    if i + 1 < n {
                        self.edits.push(Edit { start: s, end: e, text: format!("if !({}) {{", cond), rule: "R4" });
                        self.edits.push(Edit { start: close, end: close, text: "}".into(), rule: "R4" });
                    } else {
                        self.edits.push(Edit { start: s, end: e, text: String::new(), rule: "R4" });
                    }
                    return true;
                }
            }
        }
        // `if C { S..; continue; } REST`  ->  `if C { S.. } else { REST }`
        for (i, st) in stmts.iter().enumerate() {
            if let Stmt::Expr(Expr::If(ifx), _) = st {
                let tb = &ifx.then_branch.stmts;
                let ends_with_continue = ifx.else_branch.is_none() && tb.len() > 1 && matches!(&tb[tb.len() - 1], Stmt::Expr(e, _) if is_continue(e));
                if ends_with_continue && i + 1 < n {
                    let (cs, ce) = nr(&tb[tb.len() - 1]);
                    self.edits.push(Edit { start: cs, end: ce, text: String::new(), rule: "R4" });
                    // drop a `;` that follows the if statement, open the else block, close it at the end of the enclosing block
                    let if_end = nr(st).1;
                    let close = br(b.brace_token.span.close()).0;
                    let ife = nr(ifx).1;
                    self.edits.push(Edit { start: ife, end: if_end, text: " else {".into(), rule: "R4" });
                    self.edits.push(Edit { start: close, end: close, text: "}".into(), rule: "R4" });
                    return true;
                }
            }
        }
        if n > 0 {
            if let Stmt::Expr(Expr::If(ifx), _) = &stmts[n - 1] {
                if ifx.else_branch.is_none() {
                    return self.tail_block(&ifx.then_branch);
                }
                if let Some((_, eb)) = &ifx.else_branch {
                    if let Expr::Block(ebb) = &**eb {
                        return self.tail_block(&ebb.block);
                    }
                }
            }
        }
        false
    }
}
impl<'a, 'ast> Visit<'ast> for R4<'a> {
    fn visit_expr_for_loop(&mut self, fl: &'ast syn::ExprForLoop) {
        let stmts = &fl.body.stmts;
        let n = stmts.len();
        // (a) last statement is a match with `=> continue` arms
        if n > 0 {
            if let Stmt::Expr(Expr::Match(mt), _) = &stmts[n - 1] {
                for arm in &mt.arms {
                    if is_continue(&arm.body) {
                        let (s, e) = nr(&*arm.body);
                        self.edits.push(Edit { start: s, end: e, text: "{}".into(), rule: "R4" });
                    }
                }
            }
        }
        // (b) `if C { continue; } REST`  ->  `if !(C) { REST }`   (also inside a block that ends the loop body)
        if self.edits.is_empty() && self.tail_block(&fl.body) {
            return; // one per pass; the text is re-parsed
        }
        visit::visit_expr_for_loop(self, fl);
    }
}
fn r4(src: &str, f: &syn::File, _c: &Ctx, e: &mut Vec<Edit>) {
    R4 { src, edits: e }.visit_file(f);
}

// ---------------------------------------------------------------------------------------------- R1
struct R1<'a> {
    src: &'a str,
    edits: &'a mut Vec<Edit>,
    ctx: &'a Ctx,
    cur_fn: String,
}
impl<'a, 'ast> Visit<'ast> for R1<'a> {
    fn visit_item_fn(&mut self, f: &'ast syn::ItemFn) {
        self.cur_fn = f.sig.ident.to_string();
        visit::visit_item_fn(self, f);
    }
    fn visit_impl_item_fn(&mut self, f: &'ast syn::ImplItemFn) {
        self.cur_fn = f.sig.ident.to_string();
        visit::visit_impl_item_fn(self, f);
    }
    fn visit_expr_for_loop(&mut self, fl: &'ast syn::ExprForLoop) {
        match &*fl.expr {
            Expr::MethodCall(m) if m.method == "values" && m.args.is_empty() && is_simple_ident_pat(&fl.pat) => {
                // `for v in M.values()` is `for (_, v) in M.iter()` (std: Values is Iter mapped to the second component, same order);
                // vstd specifies the pairs of `iter()` completely but says almost nothing about `values()`
                let (ms, me) = (br(m.method.span()).0, nr(m).1);
                self.edits.push(Edit { start: ms, end: me, text: "iter()".into(), rule: "R1" });
                let (ps, pe) = nr(&*fl.pat);
                self.edits.push(Edit { start: ps, end: pe, text: format!("(k_of_{v}_, {v})", v = txt(self.src, &*fl.pat)), rule: "R1" });
                return;
            }
            Expr::Reference(r) if r.mutability.is_none() && matches!(&*r.expr, Expr::MethodCall(_) | Expr::Call(_)) => {
                // the iterated value is a temporary: bind it first (Verus' expansion of `for` does not extend its lifetime);
                // `{ let it_src_ = CALL; for P in it_src_.iter() { .. } }` drops it at the same point as the original statement
                let inner = txt(self.src, &*r.expr);
                let (fs, fe) = nr(fl);
                let (es, ee) = nr(&*fl.expr);
                self.edits.push(Edit { start: fs, end: fs, text: format!("{{ let it_src_ = {}; ", inner), rule: "R1" });
                self.edits.push(Edit { start: es, end: ee, text: "it_src_.iter()".into(), rule: "R1" });
                self.edits.push(Edit { start: fe, end: fe, text: " }".into(), rule: "R1" });
                return;
            }
            Expr::Reference(r) if r.mutability.is_some() => {
                // `for c in &mut X` is `for c in X.iter_mut()` (IntoIterator for &mut Vec / slice)
                let inner = txt(self.src, &*r.expr);
                let simple = matches!(&*r.expr, Expr::Path(_) | Expr::Field(_));
                if simple {
                    let (s, e) = nr(&*fl.expr);
                    self.edits.push(Edit { start: s, end: e, text: format!("{}.iter_mut()", inner), rule: "R1" });
                    return;
                }
            }
            Expr::Reference(r) if r.mutability.is_none() => {
                let inner = txt(self.src, &*r.expr);
                let needs_paren = !matches!(&*r.expr, Expr::Path(_) | Expr::Field(_) | Expr::MethodCall(_) | Expr::Call(_) | Expr::Paren(_) | Expr::Index(_));
                let (s, e) = nr(&*fl.expr);
                let t = if needs_paren { format!("({}).iter()", inner) } else { format!("{}.iter()", inner) };
                self.edits.push(Edit { start: s, end: e, text: t, rule: "R1" });
                return;
            }
            Expr::Path(p) => {
                if let Some(id) = p.path.get_ident() {
                    if let Some(derefs) = self.ctx.byvalue.get(&self.cur_fn).and_then(|m| m.get(&id.to_string())) {
                        let (s, e) = nr(&*fl.expr);
                        self.edits.push(Edit { start: s, end: e, text: format!("{}.iter()", id), rule: "R1" });
                        let open = br(fl.body.brace_token.span.open()).1;
                        let lets: String = derefs.iter().map(|d| format!(" let {d} = *{d};", d = d)).collect();
                        self.edits.push(Edit { start: open, end: open, text: lets, rule: "R1" });
                        return;
                    }
                }
            }
            _ => {}
        }
        visit::visit_expr_for_loop(self, fl);
    }
}
fn r1(src: &str, f: &syn::File, c: &Ctx, e: &mut Vec<Edit>) {
    R1 { src, edits: e, ctx: c, cur_fn: String::new() }.visit_file(f);
}

// ---------------------------------------------------------------------------------------------- R2
/// turn a pattern into (new binder text, let statements) ; `base` is a fresh identifier
fn destructure(src: &str, p: &Pat, base: &str) -> Option<(String, Vec<String>)> {
    match p {
        Pat::Wild(_) => Some((base.to_string(), vec![])),
        Pat::Type(pt) => {
            let (b, lets) = destructure(src, &pt.pat, base)?;
            Some((format!("{}: {}", b, txt(src, &*pt.ty)), lets))
        }
        Pat::Reference(r) => {
            if let Pat::Ident(pi) = &*r.pat {
                if pi.by_ref.is_none() && pi.subpat.is_none() {
                    let m = if pi.mutability.is_some() { "mut " } else { "" };
                    return Some((base.to_string(), vec![format!("let {}{} = *{};", m, pi.ident, base)]));
                }
            }
            Some((base.to_string(), vec![format!("let {} = {};", txt(src, p), base)]))
        }
        Pat::Tuple(t) => {
            // (a, &b, _) -> (a, b__r, _)  + let b = *b__r;
            let mut parts = vec![];
            let mut lets = vec![];
            let mut changed = false;
            for (i, el) in t.elems.iter().enumerate() {
                match el {
                    Pat::Reference(r) => {
                        if let Pat::Ident(pi) = &*r.pat {
                            let tmp = format!("{}__r", pi.ident);
                            parts.push(tmp.clone());
                            lets.push(format!("let {} = *{};", pi.ident, tmp));
                            changed = true;
                            continue;
                        }
                        return None;
                    }
                    Pat::Wild(_) => {
                        parts.push(format!("w{}__", i));
                        changed = true;
                    }
                    _ => parts.push(txt(src, el).to_string()),
                }
            }
            let _ = changed;
            let tup = format!("({})", parts.join(", "));
            let mut all = vec![format!("let {} = {};", tup, base)];
            all.extend(lets);
            Some((base.to_string(), all))
        }
        _ => Some((base.to_string(), vec![format!("let {} = {};", txt(src, p), base)])),
    }
}
struct R2<'a> {
    src: &'a str,
    edits: &'a mut Vec<Edit>,
    counter: usize,
}
impl<'a> R2<'a> {
    fn fresh(&mut self, stem: &str) -> String {
        self.counter += 1;
        format!("{}{}__", stem, self.counter)
    }
    fn fn_params(&mut self, sig: &syn::Signature, block: &syn::Block) {
        let mut lets = vec![];
        for (i, inp) in sig.inputs.iter().enumerate() {
            if let syn::FnArg::Typed(pt) = inp {
                if !is_simple_ident_pat(&pt.pat) {
                    let base = format!("a{}__", i);
                    if let Some((b, l)) = destructure(self.src, &pt.pat, &base) {
                        let (s, e) = nr(&*pt.pat);
                        self.edits.push(Edit { start: s, end: e, text: b, rule: "R2" });
                        lets.extend(l);
                    }
                }
            }
        }
        if !lets.is_empty() {
            let open = br(block.brace_token.span.open()).1;
            self.edits.push(Edit { start: open, end: open, text: format!(" {}", lets.join(" ")), rule: "R2" });
        }
    }
}
impl<'a, 'ast> Visit<'ast> for R2<'a> {
    fn visit_item_fn(&mut self, f: &'ast syn::ItemFn) {
        let n = self.edits.len();
        self.fn_params(&f.sig, &f.block);
        if self.edits.len() == n {
            visit::visit_item_fn(self, f);
        }
    }
    fn visit_impl_item_fn(&mut self, f: &'ast syn::ImplItemFn) {
        let n = self.edits.len();
        self.fn_params(&f.sig, &f.block);
        if self.edits.len() == n {
            visit::visit_impl_item_fn(self, f);
        }
    }
    fn visit_expr_closure(&mut self, c: &'ast syn::ExprClosure) {
        let mut lets = vec![];
        let mut any = false;
        for (i, p) in c.inputs.iter().enumerate() {
            if !is_simple_ident_pat(p) {
                let base = format!("p{}__", i);
                if let Some((b, l)) = destructure(self.src, p, &base) {
                    let (s, e) = nr(p);
                    self.edits.push(Edit { start: s, end: e, text: b, rule: "R2" });
                    lets.extend(l);
                    any = true;
                }
            }
        }
        if any {
            let (s, e) = nr(&*c.body);
            let body = txt(self.src, &*c.body);
            self.edits.push(Edit { start: s, end: e, text: format!("{{ {} {} }}", lets.join(" "), body), rule: "R2" });
            return; // nested closures in the body are handled by the next pass
        }
        visit::visit_expr_closure(self, c);
    }
    fn visit_expr_for_loop(&mut self, fl: &'ast syn::ExprForLoop) {
        // for (&a, &b) in E  /  for &x in E
        let has_ref = match &*fl.pat {
            Pat::Reference(_) => true,
            Pat::Tuple(t) => t.elems.iter().any(|e| matches!(e, Pat::Reference(_))),
            _ => false,
        };
        if has_ref {
            let base = self.fresh("it");
            if let Some((_b, lets)) = destructure(self.src, &fl.pat, &base) {
                // for tuples the first let re-binds the tuple; use the tuple form directly as loop pattern
                let (s, e) = nr(&*fl.pat);
                let open = br(fl.body.brace_token.span.open()).1;
                if let Pat::Tuple(_) = &*fl.pat {
                    // lets[0] = "let (a__r, b__r) = base;"
                    let tup = lets[0].trim_start_matches("let ").rsplitn(2, " = ").last().unwrap().to_string();
                    self.edits.push(Edit { start: s, end: e, text: tup, rule: "R2" });
                    self.edits.push(Edit { start: open, end: open, text: format!(" {}", lets[1..].join(" ")), rule: "R2" });
                } else {
                    self.edits.push(Edit { start: s, end: e, text: base, rule: "R2" });
                    self.edits.push(Edit { start: open, end: open, text: format!(" {}", lets.join(" ")), rule: "R2" });
                }
                return;
            }
        }
        visit::visit_expr_for_loop(self, fl);
    }
    fn visit_expr_if(&mut self, ifx: &'ast syn::ExprIf) {
        // if let Some(&v) = E { .. }
        if let Expr::Let(l) = &*ifx.cond {
            if let Pat::TupleStruct(ts) = &*l.pat {
                if ts.elems.len() == 1 {
                    if let Pat::Reference(r) = &ts.elems[0] {
                        if let Pat::Ident(pi) = &*r.pat {
                            let tmp = format!("{}__r", pi.ident);
                            let (s, e) = nr(&ts.elems[0]);
                            let open = br(ifx.then_branch.brace_token.span.open()).1;
                            self.edits.push(Edit { start: s, end: e, text: tmp.clone(), rule: "R2" });
                            self.edits.push(Edit { start: open, end: open, text: format!(" let {} = *{};", pi.ident, tmp), rule: "R2" });
                            return;
                        }
                    }
                }
            }
        }
        visit::visit_expr_if(self, ifx);
    }
}
fn r2(src: &str, f: &syn::File, _c: &Ctx, e: &mut Vec<Edit>) {
    R2 { src, edits: e, counter: 0 }.visit_file(f);
}

// ---------------------------------------------------------------------------------------------- R9
struct SelfUses<'a> {
    edits: &'a mut Vec<Edit>,
}
impl<'a, 'ast> Visit<'ast> for SelfUses<'a> {
    fn visit_expr_path(&mut self, p: &'ast syn::ExprPath) {
        if p.path.is_ident("self") {
            let (s, e) = nr(p);
            self.edits.push(Edit { start: s, end: e, text: "self_".into(), rule: "R9" });
        }
    }
}
struct R9<'a> {
    edits: &'a mut Vec<Edit>,
}
impl<'a, 'ast> Visit<'ast> for R9<'a> {
    fn visit_impl_item_fn(&mut self, f: &'ast syn::ImplItemFn) {
        if let Some(syn::FnArg::Receiver(r)) = f.sig.inputs.first() {
            if r.reference.is_none() && r.mutability.is_some() {
                let (s, e) = nr(r);
                self.edits.push(Edit { start: s, end: e, text: "self".into(), rule: "R9" });
                let open = br(f.block.brace_token.span.open()).1;
                self.edits.push(Edit { start: open, end: open, text: " let mut self_ = self;".into(), rule: "R9" });
                SelfUses { edits: self.edits }.visit_block(&f.block);
            }
        }
    }
}
fn r9(_src: &str, f: &syn::File, _c: &Ctx, e: &mut Vec<Edit>) {
    R9 { edits: e }.visit_file(f);
}

// ---------------------------------------------------------------------------------------------- R10
struct R10<'a> {
    src: &'a str,
    edits: &'a mut Vec<Edit>,
    ctx: &'a Ctx,
    self_ty: Option<String>,
    /// local / parameter name -> type text (or init expression to type lazily)
    env: Vec<HashMap<String, String>>,
    cur_fn: String,
}
fn strip_ref(t: &str) -> String {
    let mut s = t.trim();
    loop {
        if let Some(r) = s.strip_prefix('&') {
            s = r.trim_start();
            if let Some(r2) = s.strip_prefix("mut ") {
                s = r2.trim_start();
            }
            if s.starts_with('\'') {
                // lifetime
                if let Some(i) = s.find(' ') {
                    s = s[i..].trim_start();
                }
            }
        } else {
            break;
        }
    }
    s.to_string()
}
/// value type V of `HashMap<K, V>` given as text
fn map_value_type(t: &str) -> Option<String> {
    let t = strip_ref(t);
    let inner = t.strip_prefix("HashMap<")?.strip_suffix('>')?;
    // split at the first top-level comma
    let mut depth = 0i32;
    for (i, ch) in inner.char_indices() {
        match ch {
            '<' | '(' | '[' => depth += 1,
            '>' | ')' | ']' => depth -= 1,
            ',' if depth == 0 => return Some(inner[i + 1..].trim().to_string()),
            _ => {}
        }
    }
    None
}
impl<'a> R10<'a> {
    fn lookup(&self, name: &str) -> Option<String> {
        for scope in self.env.iter().rev() {
            if let Some(t) = scope.get(name) {
                return Some(t.clone());
            }
        }
        None
    }
    fn type_of(&self, e: &Expr) -> Option<String> {
        match e {
            Expr::Paren(p) => self.type_of(&p.expr),
            Expr::Reference(r) => self.type_of(&r.expr),
            Expr::Unary(u) if matches!(u.op, syn::UnOp::Deref(_)) => self.type_of(&u.expr).map(|t| strip_ref(&t)),
            Expr::Path(p) => {
                let id = p.path.get_ident()?.to_string();
                if id == "self" || id == "self_" {
                    return self.self_ty.clone();
                }
                self.lookup(&id)
            }
            Expr::Field(f) => {
                let base = strip_ref(&self.type_of(&f.base)?);
                if let syn::Member::Named(n) = &f.member {
                    return self.ctx.structs.get(&base)?.get(&n.to_string()).cloned();
                }
                None
            }
            Expr::Call(c) => {
                // R21's `take_map_(&mut X)` has the type of X
                if let Expr::Path(f) = &*c.func {
                    if f.path.is_ident("take_map_") && c.args.len() == 1 {
                        return self.type_of(&c.args[0]).map(|t| strip_ref(&t));
                    }
                }
                None
            }
            Expr::MethodCall(m) => {
                let name = m.method.to_string();
                if name == "clone" && m.args.is_empty() {
                    return self.type_of(&m.receiver).map(|t| strip_ref(&t));
                }
                if name == "or_default" {
                    if let Expr::MethodCall(en) = &*m.receiver {
                        if en.method == "entry" {
                            return map_value_type(&self.type_of(&en.receiver)?);
                        }
                    }
                }
                None
            }
            Expr::Lit(l) => match &l.lit {
                syn::Lit::Float(_) => Some("f32".into()),
                _ => None,
            },
            _ => None,
        }
    }
    fn bind_pat(&mut self, p: &Pat, ty: Option<String>) {
        match p {
            Pat::Ident(pi) => {
                if let Some(t) = ty {
                    self.env.last_mut().unwrap().insert(pi.ident.to_string(), t);
                }
            }
            Pat::Type(pt) => {
                let t = crate::txt(self.src, &*pt.ty).split_whitespace().collect::<Vec<_>>().join(" ");
                self.bind_pat(&pt.pat, Some(t));
            }
            _ => {}
        }
    }
    fn sig(&mut self, sig: &syn::Signature) {
        self.env.push(HashMap::new());
        for a in &sig.inputs {
            if let syn::FnArg::Typed(pt) = a {
                let t = crate::txt(self.src, &*pt.ty).split_whitespace().collect::<Vec<_>>().join(" ");
                self.bind_pat(&pt.pat, Some(t));
            }
        }
        if let Some(l) = self.ctx.f32_locals.get(&self.cur_fn) {
            for n in l {
                self.env.last_mut().unwrap().insert(n.clone(), "f32".into());
            }
        }
    }
}
impl<'a, 'ast> Visit<'ast> for R10<'a> {
    fn visit_item_impl(&mut self, im: &'ast syn::ItemImpl) {
        self.self_ty = Some(strip_ref(crate::txt(self.src, &*im.self_ty)));
        visit::visit_item_impl(self, im);
        self.self_ty = None;
    }
    fn visit_item_fn(&mut self, f: &'ast syn::ItemFn) {
        self.cur_fn = f.sig.ident.to_string();
        self.sig(&f.sig);
        visit::visit_item_fn(self, f);
        self.env.pop();
    }
    fn visit_impl_item_fn(&mut self, f: &'ast syn::ImplItemFn) {
        self.cur_fn = f.sig.ident.to_string();
        self.sig(&f.sig);
        visit::visit_impl_item_fn(self, f);
        self.env.pop();
    }
    fn visit_block(&mut self, b: &'ast syn::Block) {
        self.env.push(HashMap::new());
        visit::visit_block(self, b);
        self.env.pop();
    }
    fn visit_expr_for_loop(&mut self, fl: &'ast syn::ExprForLoop) {
        // `for (k, v) in M.iter()` over a map of known type: v is a (reference to a) value of the map
        let mut vt: Option<(String, String)> = None;
        if let (Pat::Tuple(t), Expr::MethodCall(it)) = (&*fl.pat, &*fl.expr) {
            if t.elems.len() == 2 && it.method == "iter" {
                if let (Pat::Ident(v), Some(mt)) = (&t.elems[1], self.type_of(&it.receiver)) {
                    if let Some(val) = map_value_type(&mt) {
                        vt = Some((v.ident.to_string(), val));
                    }
                }
            }
        }
        self.env.push(HashMap::new());
        if let Some((n, t)) = vt {
            self.env.last_mut().unwrap().insert(n, t);
        }
        visit::visit_expr_for_loop(self, fl);
        self.env.pop();
    }
    fn visit_local(&mut self, l: &'ast syn::Local) {
        visit::visit_local(self, l);
        let ty = match &l.pat {
            Pat::Type(_) => None,
            _ => l.init.as_ref().and_then(|i| self.type_of(&i.expr)),
        };
        if self.env.is_empty() {
            self.env.push(HashMap::new());
        }
        self.bind_pat(&l.pat, ty);
    }
    fn visit_expr_binary(&mut self, b: &'ast syn::ExprBinary) {
        let op = match b.op {
            BinOp::AddAssign(_) => Some("+"),
            BinOp::SubAssign(_) => Some("-"),
            BinOp::MulAssign(_) => Some("*"),
            BinOp::DivAssign(_) => Some("/"),
            _ => None,
        };
        if let Some(op) = op {
            let lt = self.type_of(&b.left);
            if lt.as_deref().map(|t| strip_ref(t)) == Some("f32".to_string()) {
                let (s, e) = nr(b);
                let rhs = crate::txt(self.src, &*b.right);
                let text = match &*b.left {
                    Expr::Unary(u) if matches!(u.op, syn::UnOp::Deref(_)) => {
                        let inner = crate::txt(self.src, &*u.expr);
                        format!("{{ let r_ = {}; *r_ = *r_ {} ({}); }}", inner, op, rhs)
                    }
                    _ => {
                        let l = crate::txt(self.src, &*b.left);
                        format!("{} = {} {} ({})", l, l, op, rhs)
                    }
                };
                self.edits.push(Edit { start: s, end: e, text, rule: "R10" });
                return;
            }
        }
        visit::visit_expr_binary(self, b);
    }
}
fn r10(src: &str, f: &syn::File, c: &Ctx, e: &mut Vec<Edit>) {
    R10 { src, edits: e, ctx: c, self_ty: None, env: vec![], cur_fn: String::new() }.visit_file(f);
}

#[allow(dead_code)]
fn unused(_: &dyn Spanned) {}

// ---------------------------------------------------------------------------------------------- R12
// `RECV.retain(|p| BODY);` (statement)  ->  the definition of Vec::retain as an explicit, order-preserving rebuild:
//   { let old_v_ = std::mem::replace(&mut RECV, Vec::new());
//     for p__ in old_v_ { let keep_ = { let p = &p__; BODY }; if keep_ { RECV.push(p__); } } }
struct R12<'a> {
    src: &'a str,
    edits: &'a mut Vec<Edit>,
}
impl<'a, 'ast> Visit<'ast> for R12<'a> {
    fn visit_stmt(&mut self, st: &'ast Stmt) {
        if let Stmt::Expr(Expr::MethodCall(m), Some(_)) = st {
            if m.method == "retain" && m.args.len() == 1 {
                if let Expr::Closure(c) = &m.args[0] {
                    if c.inputs.len() == 1 {
                        if let Pat::Ident(pi) = &c.inputs[0] {
                            let recv = txt(self.src, &*m.receiver);
                            let body = txt(self.src, &*c.body);
                            let p = pi.ident.to_string();
                            let (s, e) = nr(m);
                            self.edits.push(Edit {
                                start: s,
                                end: e,
                                text: format!(
                                    "{{ let old_v_ = std::mem::replace(&mut {recv}, Vec::new()); for {p}__ in old_v_ {{ let keep_ = {{ let {p} = &{p}__; {body} }}; if keep_ {{ {recv}.push({p}__); }} }} }}",
                                    recv = recv, p = p, body = body
                                ),
                                rule: "R12",
                            });
                            return;
                        }
                    }
                }
            }
        }
        visit::visit_stmt(self, st);
    }
}
fn r12(src: &str, f: &syn::File, _c: &Ctx, e: &mut Vec<Edit>) {
    R12 { src, edits: e }.visit_file(f);
}

// ---------------------------------------------------------------------------------------------- R14
// `X.iter().map(|PAT| BODY).sum::<f32>()`  ->  the definition of `impl Sum for f32` (core::iter: `iter.fold(-0.0, |a, b| a + b)`)
// as an explicit loop:  { let mut acc_: f32 = -0.0; for PAT in X.iter() { acc_ = acc_ + (BODY); } acc_ }
struct R14<'a> {
    src: &'a str,
    edits: &'a mut Vec<Edit>,
}
impl<'a, 'ast> Visit<'ast> for R14<'a> {
    fn visit_expr_method_call(&mut self, m: &'ast syn::ExprMethodCall) {
        if m.method == "sum" && m.args.is_empty() && m.turbofish.as_ref().map(|t| txt(self.src, t).contains("f32")).unwrap_or(false) {
            if let Expr::MethodCall(mp) = &*m.receiver {
                if mp.method == "map" && mp.args.len() == 1 {
                    if let (Expr::Closure(c), Expr::MethodCall(it)) = (&mp.args[0], &*mp.receiver) {
                        if it.method == "iter" && it.args.is_empty() && c.inputs.len() == 1 {
                            let pat = txt(self.src, &c.inputs[0]);
                            let body = txt(self.src, &*c.body);
                            let x = txt(self.src, &*it.receiver);
                            let (s, e) = nr(m);
                            self.edits.push(Edit {
                                start: s,
                                end: e,
                                text: format!("{{ let mut acc_: f32 = -0.0; for {} in {}.iter() {{ acc_ = acc_ + ({}); }} acc_ }}", pat, x, body),
                                rule: "R14",
                            });
                            return;
                        }
                    }
                }
            }
        }
        visit::visit_expr_method_call(self, m);
    }
}
fn r14(src: &str, f: &syn::File, _c: &Ctx, e: &mut Vec<Edit>) {
    R14 { src, edits: e }.visit_file(f);
}

// ---------------------------------------------------------------------------------------------- R13
// a function whose body is the single tail expression `X.iter().filter(|a| P).map(|b| F).collect()` and whose return type
// is `HashSet<T>`: the meaning of filter / map / collect as an explicit loop
//   { let mut out_ = HashSet::new(); for it_ in X.iter() { let keep_ = { let a = &it_; P }; if keep_ { let b = it_; out_.insert(F); } } out_ }
struct R13<'a> {
    src: &'a str,
    edits: &'a mut Vec<Edit>,
}
impl<'a> R13<'a> {
    fn try_fn(&mut self, sig: &syn::Signature, block: &syn::Block) {
        let ret = match &sig.output { syn::ReturnType::Type(_, t) => txt(self.src, &**t).replace(' ', ""), _ => return };
        if !ret.starts_with("HashSet<") || block.stmts.len() != 1 { return; }
        if let Stmt::Expr(Expr::MethodCall(col), None) = &block.stmts[0] {
            if col.method != "collect" || !col.args.is_empty() { return; }
            if let Expr::MethodCall(mp) = &*col.receiver {
                if mp.method != "map" || mp.args.len() != 1 { return; }
                if let (Expr::Closure(cm), Expr::MethodCall(fl)) = (&mp.args[0], &*mp.receiver) {
                    if fl.method != "filter" || fl.args.len() != 1 { return; }
                    if let (Expr::Closure(cf), Expr::MethodCall(it)) = (&fl.args[0], &*fl.receiver) {
                        if it.method != "iter" || !it.args.is_empty() || cf.inputs.len() != 1 || cm.inputs.len() != 1 { return; }
                        if let (Pat::Ident(a), Pat::Ident(b)) = (&cf.inputs[0], &cm.inputs[0]) {
                            let x = txt(self.src, &*it.receiver);
                            let p = txt(self.src, &*cf.body);
                            let f = txt(self.src, &*cm.body);
                            let (s, e) = nr(col);
                            self.edits.push(Edit {
                                start: s,
                                end: e,
                                text: format!(
                                    "{{ let mut out_ = HashSet::new(); for it_ in {x}.iter() {{ let keep_ = {{ let {a} = &it_; {p} }}; if keep_ {{ let {b} = it_; out_.insert({f}); }} }} out_ }}",
                                    x = x, a = a.ident, p = p, b = b.ident, f = f
                                ),
                                rule: "R13",
                            });
                        }
                    }
                }
            }
        }
    }
}
impl<'a, 'ast> Visit<'ast> for R13<'a> {
    fn visit_impl_item_fn(&mut self, f: &'ast syn::ImplItemFn) {
        self.try_fn(&f.sig, &f.block);
    }
    fn visit_item_fn(&mut self, f: &'ast syn::ItemFn) {
        self.try_fn(&f.sig, &f.block);
    }
}
fn r13(src: &str, f: &syn::File, _c: &Ctx, e: &mut Vec<Edit>) {
    R13 { src, edits: e }.visit_file(f);
}

// ---------------------------------------------------------------------------------------------- R16
// a lazy iterator bound to a local and only ever used as `NAME.clone()`:
//   let NAME = X.iter().filter(|c| P);  ...  NAME.clone().filter(..).collect()
// -> the binding is dropped and every `NAME.clone()` is replaced by the chain text (the chain is pure: it borrows X and
//    captures by reference, exactly what the clone of the lazy iterator does).
struct LazyUses<'a> {
    name: String,
    clones: Vec<(usize, usize)>,
    other: usize,
    _p: std::marker::PhantomData<&'a ()>,
}
impl<'a, 'ast> Visit<'ast> for LazyUses<'a> {
    fn visit_expr_method_call(&mut self, m: &'ast syn::ExprMethodCall) {
        if m.method == "clone" && m.args.is_empty() {
            if let Expr::Path(p) = &*m.receiver {
                if p.path.is_ident(&self.name) {
                    self.clones.push(nr(m));
                    return;
                }
            }
        }
        visit::visit_expr_method_call(self, m);
    }
    fn visit_expr_path(&mut self, p: &'ast syn::ExprPath) {
        if p.path.is_ident(&self.name) {
            self.other += 1;
        }
    }
}
fn lazy_chain(e: &Expr) -> bool {
    // X.iter() followed by one or more of filter / map / cloned, no terminal
    let mut cur = e;
    let mut stages = 0;
    loop {
        match cur {
            Expr::MethodCall(m) => {
                let name = m.method.to_string();
                if name == "iter" && m.args.is_empty() {
                    return stages > 0;
                }
                if name == "filter" || name == "map" || name == "cloned" || name == "filter_map" {
                    stages += 1;
                    cur = &*m.receiver;
                    continue;
                }
                return false;
            }
            _ => return false,
        }
    }
}
struct R16<'a> {
    src: &'a str,
    edits: &'a mut Vec<Edit>,
}
impl<'a, 'ast> Visit<'ast> for R16<'a> {
    fn visit_block(&mut self, b: &'ast syn::Block) {
        for (i, st) in b.stmts.iter().enumerate() {
            if let Stmt::Local(l) = st {
                if let (Pat::Ident(pi), Some(init)) = (&l.pat, &l.init) {
                    if init.diverge.is_none() && lazy_chain(&init.expr) {
                        let mut u = LazyUses { name: pi.ident.to_string(), clones: vec![], other: 0, _p: std::marker::PhantomData };
                        for later in &b.stmts[i + 1..] {
                            u.visit_stmt(later);
                        }
                        if u.other == 0 && !u.clones.is_empty() {
                            let chain = txt(self.src, &*init.expr).to_string();
                            let (s, e) = nr(l);
                            self.edits.push(Edit { start: s, end: e, text: String::new(), rule: "R16" });
                            for (cs, ce) in u.clones {
                                self.edits.push(Edit { start: cs, end: ce, text: chain.clone(), rule: "R16" });
                            }
                            return;
                        }
                    }
                }
            }
        }
        visit::visit_block(self, b);
    }
}
fn r16(src: &str, f: &syn::File, _c: &Ctx, e: &mut Vec<Edit>) {
    R16 { src, edits: e }.visit_file(f);
}

// ---------------------------------------------------------------------------------------------- R15
// iterator pipelines whose adapters Verus cannot specify (filter, filter_map, fold, max, a range source) become the loop that
// defines them.  SOURCE (`X.iter()` | `(a..b)`)  STAGE* (`cloned` | `filter(c)` | `map(c | path)` | `filter_map(c)`)
// TERMINAL (`collect` to Vec / HashSet | `sum::<f32>()` | `fold(init, c)` | `max()`):
//   { let mut out_: Vec<_> = Vec::new();
//     for it0_ in X.iter() { let it1_ = it0_.clone(); let keep2_ = { let c = &it1_; P }; if keep2_ { let it3_ = { let e = it1_; F }; out_.push(it3_); } }
//     out_ }
// every closure body and every operand is copied verbatim; closure parameters become `let` bindings.
enum Stage<'e> {
    Cloned,
    Filter(&'e syn::ExprClosure),
    Map(&'e Expr),
    FilterMap(&'e syn::ExprClosure),
}
enum Term<'e> {
    /// `all(c)` / `any(c)` whose closure itself iterates (no closure contract can carry a nested quantifier to vstd's spec of all / any)
    All(&'e syn::ExprClosure),
    Any(&'e syn::ExprClosure),
    Collect(Option<String>),
    SumF32,
    Fold(&'e Expr, &'e syn::ExprClosure),
    Max,
}
enum Source {
    Iter(String),
    /// `M.keys()` / `M.values()` of a map
    MapIter(String, String),
    Range(String, String),
}
fn strip_paren(e: &Expr) -> &Expr {
    match e {
        Expr::Paren(p) => strip_paren(&p.expr),
        _ => e,
    }
}
fn parse_chain<'e>(src: &str, m: &'e syn::ExprMethodCall) -> Option<(Source, Vec<Stage<'e>>, Term<'e>)> {
    let name = m.method.to_string();
    let term = match name.as_str() {
        "collect" if m.args.is_empty() => Term::Collect(m.turbofish.as_ref().map(|t| {
            let s = txt(src, t).replace(' ', "");
            let s = s.strip_prefix("::<").unwrap_or(&s).to_string();
            s.strip_suffix('>').unwrap_or(&s).to_string()
        })),
        "sum" if m.args.is_empty() && m.turbofish.as_ref().map(|t| txt(src, t).contains("f32")).unwrap_or(false) => Term::SumF32,
        "fold" if m.args.len() == 2 => match &m.args[1] {
            Expr::Closure(c) if c.inputs.len() == 2 => Term::Fold(&m.args[0], c),
            _ => return None,
        },
        "max" if m.args.is_empty() => Term::Max,
        "all" | "any" if m.args.len() == 1 => match &m.args[0] {
            Expr::Closure(c) if c.inputs.len() == 1 && txt(src, &*c.body).contains(".iter()") => if name == "all" { Term::All(c) } else { Term::Any(c) },
            _ => return None,
        },
        _ => return None,
    };
    let mut stages = vec![];
    let mut cur: &Expr = &m.receiver;
    let source;
    loop {
        match strip_paren(cur) {
            Expr::MethodCall(mc) => {
                let n = mc.method.to_string();
                match n.as_str() {
                    "iter" if mc.args.is_empty() => {
                        source = Source::Iter(txt(src, &*mc.receiver).to_string());
                        break;
                    }
                    "keys" | "values" if mc.args.is_empty() => {
                        source = Source::MapIter(txt(src, &*mc.receiver).to_string(), n.clone());
                        break;
                    }
                    "cloned" if mc.args.is_empty() => stages.push(Stage::Cloned),
                    "filter" if mc.args.len() == 1 => match &mc.args[0] {
                        Expr::Closure(c) if c.inputs.len() == 1 => stages.push(Stage::Filter(c)),
                        _ => return None,
                    },
                    "filter_map" if mc.args.len() == 1 => match &mc.args[0] {
                        Expr::Closure(c) if c.inputs.len() == 1 => stages.push(Stage::FilterMap(c)),
                        _ => return None,
                    },
                    "map" if mc.args.len() == 1 => match &mc.args[0] {
                        Expr::Closure(c) if c.inputs.len() != 1 => { let _ = c; return None }
                        e => stages.push(Stage::Map(e)),
                    },
                    _ => return None,
                }
                cur = &mc.receiver;
            }
            Expr::Range(r) => {
                if let (Some(a), Some(b), syn::RangeLimits::HalfOpen(_)) = (&r.start, &r.end, &r.limits) {
                    source = Source::Range(txt(src, &**a).to_string(), txt(src, &**b).to_string());
                    break;
                }
                return None;
            }
            _ => return None,
        }
    }
    stages.reverse();
    Some((source, stages, term))
}
fn bind_param(src: &str, p: &Pat, value: &str) -> String {
    if is_simple_ident_pat(p) {
        return format!("let {} = {};", txt(src, p), value);
    }
    match destructure(src, p, value) {
        Some((_b, lets)) => lets.join(" "),
        None => format!("let {} = {};", txt(src, p), value),
    }
}
struct R15<'a> {
    src: &'a str,
    edits: &'a mut Vec<Edit>,
    /// type of the enclosing `let NAME: T = <chain>` or of the fn return (for a tail chain)
    hint: Option<String>,
}
impl<'a> R15<'a> {
    fn gen(&self, source: &Source, stages: &[Stage], term: &Term, hint: Option<&str>) -> Option<String> {
        let to_set = match term {
            Term::Collect(tf) => tf.clone().or(hint.map(|h| h.replace(' ', ""))).map(|t| t.starts_with("HashSet<") || t.starts_with("HashMap<")).unwrap_or(false),
            _ => false,
        };
        let needs = stages.iter().any(|s| matches!(s, Stage::Filter(_) | Stage::FilterMap(_)))
            || matches!(term, Term::Fold(..) | Term::Max | Term::All(..) | Term::Any(..))
            || matches!(source, Source::Range(..) | Source::MapIter(..))
            || to_set; // vstd has no specification of `FromIterator for HashSet`
        if !needs {
            return None;
        }
        let src = self.src;
        // container kind for collect
        let coll = match term {
            Term::Collect(tf) => {
                // no annotation in reach: `Vec<_>` (if the context wants another container the unit does not compile: exit 2)
                let t = tf.clone().or(hint.map(|h| h.replace(' ', ""))).unwrap_or_else(|| "Vec<_>".to_string());
                if t.starts_with("Vec<") { Some(("Vec", t)) } else if t.starts_with("HashSet<") { Some(("HashSet", t)) } else if t.starts_with("HashMap<") { Some(("HashMap", t)) } else { return None }
            }
            _ => None,
        };
        let mut body = String::new();
        let mut closers = String::new();
        let mut cur = "it0_".to_string();
        let mut k = 0usize;
        for st in stages {
            k += 1;
            match st {
                Stage::Cloned => {
                    body += &format!("let it{k}_ = {cur}.clone(); ", k = k, cur = cur);
                    cur = format!("it{}_", k);
                }
                Stage::Filter(c) => {
                    let b = bind_param(src, &c.inputs[0], &format!("&{}", cur));
                    body += &format!("let keep{k}_ = {{ {b} {body_} }}; if keep{k}_ {{ ", k = k, b = b, body_ = txt(src, &*c.body));
                    closers += "} ";
                }
                Stage::Map(e) => {
                    match e {
                        Expr::Closure(c) => {
                            let b = bind_param(src, &c.inputs[0], &cur);
                            body += &format!("let it{k}_ = {{ {b} {body_} }}; ", k = k, b = b, body_ = txt(src, &*c.body));
                        }
                        other => {
                            body += &format!("let it{k}_ = {f}({cur}); ", k = k, f = txt(src, *other), cur = cur);
                        }
                    }
                    cur = format!("it{}_", k);
                }
                Stage::FilterMap(c) => {
                    let b = bind_param(src, &c.inputs[0], &cur);
                    body += &format!("let opt{k}_ = {{ {b} {body_} }}; if let Some(it{k}_) = opt{k}_ {{ ", k = k, b = b, body_ = txt(src, &*c.body));
                    closers += "} ";
                    cur = format!("it{}_", k);
                }
            }
        }
        let head = match source {
            Source::Iter(x) => format!("for it0_ in {}.iter()", x),
            Source::MapIter(x, mth) => format!("for it0_ in {}.{}()", x, mth),
            Source::Range(a, b) => format!("for it0_ in {}..{}", a, b),
        };
        let text = match term {
            Term::Collect(_) => {
                let (kind, t) = coll.unwrap();
                let add = if kind == "Vec" { "push" } else { "insert" };
                if kind == "HashMap" {
                    // FromIterator<(K, V)> for HashMap inserts the pairs in order (a later pair with the same key replaces the earlier one)
                    format!("{{ let mut out_: {t} = HashMap::new(); {head} {{ {body}let kv_ = {cur}; out_.insert(kv_.0, kv_.1); {closers}}} out_ }}", t = t, head = head, body = body, cur = cur, closers = closers)
                } else {
                format!("{{ let mut out_: {t} = {kind}::new(); {head} {{ {body}out_.{add}({cur}); {closers}}} out_ }}", t = t, kind = kind, head = head, body = body, add = add, cur = cur, closers = closers)
                }
            }
            Term::SumF32 => format!("{{ let mut acc_: f32 = -0.0; {head} {{ {body}acc_ = acc_ + {cur}; {closers}}} acc_ }}", head = head, body = body, cur = cur, closers = closers),
            Term::Fold(init, c) => {
                if !is_simple_ident_pat(&c.inputs[0]) {
                    return None;
                }
                let acc = txt(src, &c.inputs[0]);
                let b = bind_param(src, &c.inputs[1], &cur);
                format!("{{ let mut {acc} = {init}; {head} {{ {body}{b} {acc} = {fb}; {closers}}} {acc} }}", acc = acc, init = txt(src, *init), head = head, body = body, b = b, fb = txt(src, &*c.body), closers = closers)
            }
            Term::All(c) => {
                let b = bind_param(src, &c.inputs[0], &cur); // all / any hand the item itself to the closure
                // short-circuit as in core: the closure is not evaluated any more once the answer is known
                format!("{{ let mut all_ = true; {head} {{ if all_ {{ {body}let ok_ = {{ {b} {cb} }}; if !ok_ {{ all_ = false; }} {closers}}} }} all_ }}", head = head, body = body, b = b, cb = txt(src, &*c.body), closers = closers)
            }
            Term::Any(c) => {
                let b = bind_param(src, &c.inputs[0], &cur);
                format!("{{ let mut any_ = false; {head} {{ if !any_ {{ {body}let ok_ = {{ {b} {cb} }}; if ok_ {{ any_ = true; }} {closers}}} }} any_ }}", head = head, body = body, b = b, cb = txt(src, &*c.body), closers = closers)
            }
            Term::Max => format!(
                "{{ let mut max_: Option<_> = None; {head} {{ {body}max_ = match max_ {{ None => Some({cur}), Some(m_) => if {cur} >= m_ {{ Some({cur}) }} else {{ Some(m_) }} }}; {closers}}} max_ }}",
                head = head, body = body, cur = cur, closers = closers
            ),
        };
        Some(text)
    }
    fn try_call(&mut self, m: &syn::ExprMethodCall, hint: Option<&str>) -> bool {
        if let Some((source, stages, term)) = parse_chain(self.src, m) {
            if let Some(text) = self.gen(&source, &stages, &term, hint) {
                let (s, e) = nr(m);
                self.edits.push(Edit { start: s, end: e, text, rule: "R15" });
                return true;
            }
        }
        false
    }
}
impl<'a, 'ast> Visit<'ast> for R15<'a> {
    fn visit_local(&mut self, l: &'ast syn::Local) {
        if let Some(init) = &l.init {
            let ty = match &l.pat {
                Pat::Type(pt) => Some(txt(self.src, &*pt.ty).to_string()),
                _ => None,
            };
            if let Expr::MethodCall(m) = &*init.expr {
                if self.try_call(m, ty.as_deref()) {
                    return;
                }
            }
        }
        visit::visit_local(self, l);
    }
    fn visit_expr_method_call(&mut self, m: &'ast syn::ExprMethodCall) {
        let h = self.hint.clone();
        if self.try_call(m, None) {
            return;
        }
        let _ = h;
        visit::visit_expr_method_call(self, m);
    }
}
fn r15(src: &str, f: &syn::File, _c: &Ctx, e: &mut Vec<Edit>) {
    R15 { src, edits: e, hint: None }.visit_file(f);
}

// ---------------------------------------------------------------------------------------------- R17
// `let N = F(&<collect() chain or block>);`  ->  `let N = { let arg_ = <...>; F(&arg_) };`
// the temporary that is passed by reference gets a name (so that a proof can speak about it); it is dropped at the end of
// the initialiser either way, and F's result cannot borrow from it (it would not outlive the statement in the original).
struct R17<'a> {
    src: &'a str,
    edits: &'a mut Vec<Edit>,
}
impl<'a, 'ast> Visit<'ast> for R17<'a> {
    fn visit_local(&mut self, l: &'ast syn::Local) {
        if let Some(init) = &l.init {
            if let Expr::Call(call) = &*init.expr {
                for a in call.args.iter() {
                    if let Expr::Reference(r) = a {
                        if r.mutability.is_none() {
                            let is_tmp = match &*r.expr {
                                Expr::MethodCall(m) => m.method == "collect",
                                Expr::Block(_) => true,
                                _ => false,
                            };
                            if is_tmp {
                                let (cs, ce) = nr(call);
                                let (as_, ae) = nr(&*r.expr);
                                let before = &self.src[cs..as_];
                                let after = &self.src[ae..ce];
                                let text = format!("{{ let arg_ = {}; {}arg_{} }}", txt(self.src, &*r.expr), before, after);
                                self.edits.push(Edit { start: cs, end: ce, text, rule: "R17" });
                                return;
                            }
                        }
                    }
                }
            }
        }
        visit::visit_local(self, l);
    }
}
fn r17(src: &str, f: &syn::File, _c: &Ctx, e: &mut Vec<Edit>) {
    R17 { src, edits: e }.visit_file(f);
}

// ---------------------------------------------------------------------------------------------- R18
// `X.iter().next()`  ->  `{ let mut itn_ = X.iter(); itn_.next() }` : the iterator gets a name (the item borrows from X, not from it)
struct R18<'a> {
    src: &'a str,
    edits: &'a mut Vec<Edit>,
}
impl<'a, 'ast> Visit<'ast> for R18<'a> {
    fn visit_expr_method_call(&mut self, m: &'ast syn::ExprMethodCall) {
        if m.method == "next" && m.args.is_empty() {
            if let Expr::MethodCall(it) = &*m.receiver {
                if it.method == "iter" && it.args.is_empty() {
                    let (s, e) = nr(m);
                    self.edits.push(Edit { start: s, end: e, text: format!("{{ let mut itn_ = {}.iter(); itn_.next() }}", txt(self.src, &*it.receiver)), rule: "R18" });
                    return;
                }
            }
        }
        visit::visit_expr_method_call(self, m);
    }
}
fn r18(src: &str, f: &syn::File, _c: &Ctx, e: &mut Vec<Edit>) {
    R18 { src, edits: e }.visit_file(f);
}

// ---------------------------------------------------------------------------------------------- R19
// `if let Some(N) = X.iter_mut().find(|p| P) { THEN } else { ELSE }`  ->  the first element that satisfies P gets THEN, none: ELSE
//   { let mut found_ = false;
//     for el__ in X.iter_mut() { if !found_ { let hit_ = { let p = &el__; P }; if hit_ { found_ = true; let N = el__; THEN } } }
//     if !found_ ELSE }
// (THEN contains no break / return; `find` hands the closure a reference to the item, here `&&mut T`)
struct R19<'a> {
    src: &'a str,
    edits: &'a mut Vec<Edit>,
}
impl<'a, 'ast> Visit<'ast> for R19<'a> {
    fn visit_expr_if(&mut self, ifx: &'ast syn::ExprIf) {
        if let Expr::Let(l) = &*ifx.cond {
            if let (Pat::TupleStruct(ts), Expr::MethodCall(fm)) = (&*l.pat, &*l.expr) {
                let is_some = ts.path.segments.last().map(|s| s.ident == "Some").unwrap_or(false);
                if is_some && ts.elems.len() == 1 && fm.method == "find" && fm.args.len() == 1 {
                    if let (Pat::Ident(n), Expr::Closure(c), Expr::MethodCall(im)) = (&ts.elems[0], &fm.args[0], &*fm.receiver) {
                        if im.method == "iter_mut" && im.args.is_empty() && c.inputs.len() == 1 && is_simple_ident_pat(&c.inputs[0]) {
                            if let Some((_, eb)) = &ifx.else_branch {
                                let x = txt(self.src, &*im.receiver);
                                let p = txt(self.src, &c.inputs[0]);
                                let pred = txt(self.src, &*c.body);
                                let then = txt(self.src, &ifx.then_branch);
                                let els = txt(self.src, &**eb);
                                let (s, e) = nr(ifx);
                                self.edits.push(Edit {
                                    start: s,
                                    end: e,
                                    text: format!(
                                        "{{ let mut found_ = false; for el__ in {x}.iter_mut() {{ if !found_ {{ let hit_ = {{ let {p} = &el__; {pred} }}; if hit_ {{ found_ = true; let {n} = el__; {then} }} }} }} if !found_ {els} }}",
                                        x = x, p = p, pred = pred, n = n.ident, then = then, els = els
                                    ),
                                    rule: "R19",
                                });
                                return;
                            }
                        }
                    }
                }
            }
        }
        visit::visit_expr_if(self, ifx);
    }
}
fn r19(src: &str, f: &syn::File, _c: &Ctx, e: &mut Vec<Edit>) {
    R19 { src, edits: e }.visit_file(f);
}

// ---------------------------------------------------------------------------------------------- R20
// statement `X.iter().for_each(|PAT| BODY);`  ->  `for PAT in X.iter() { BODY }`   (the definition of Iterator::for_each)
struct R20<'a> {
    src: &'a str,
    edits: &'a mut Vec<Edit>,
}
impl<'a, 'ast> Visit<'ast> for R20<'a> {
    fn visit_stmt(&mut self, st: &'ast Stmt) {
        if let Stmt::Expr(Expr::MethodCall(m), Some(_)) = st {
            if m.method == "for_each" && m.args.len() == 1 {
                if let (Expr::Closure(c), Expr::MethodCall(it)) = (&m.args[0], &*m.receiver) {
                    if it.method == "iter" && it.args.is_empty() && c.inputs.len() == 1 {
                        let body = txt(self.src, &*c.body);
                        let body = if matches!(&*c.body, Expr::Block(_)) { body.to_string() } else { format!("{{ {}; }}", body) };
                        let recv = txt(self.src, &*it.receiver);
                        let (s, e) = nr(st);
                        self.edits.push(Edit { start: s, end: e, text: format!("{{ let fe_src_ = {}; for {} in fe_src_.iter() {} }}", recv, txt(self.src, &c.inputs[0]), body), rule: "R20" });
                        return;
                    }
                }
            }
        }
        visit::visit_stmt(self, st);
    }
}
fn r20(src: &str, f: &syn::File, _c: &Ctx, e: &mut Vec<Edit>) {
    R20 { src, edits: e }.visit_file(f);
}

// ---------------------------------------------------------------------------------------------- R21
// statement `M.values_mut().for_each(|P| BODY);`  ->  the map is rebuilt entry by entry with BODY applied to a copy of each value:
//   { let old_m_ = take_map_(&mut M); for (k_, v_) in old_m_.iter() { let mut v__ = v_.clone(); { let P = &mut v__; BODY; } M.insert(k_.clone(), v__); } }
// (keys are unique, so re-inserting every (key, updated value) gives the map that in-place mutation gives; `take_map_` is
//  `std::mem::replace(m, HashMap::new())`; vstd has no model of `values_mut`). Tested by xcheck like every other rule.
struct R21<'a> {
    src: &'a str,
    edits: &'a mut Vec<Edit>,
}
impl<'a> R21<'a> {
    fn try_call(&mut self, m: &syn::ExprMethodCall, whole: (usize, usize)) -> bool {
        if m.method == "for_each" && m.args.len() == 1 {
            if let (Expr::Closure(c), Expr::MethodCall(vm)) = (&m.args[0], &*m.receiver) {
                if vm.method == "values_mut" && vm.args.is_empty() && c.inputs.len() == 1 && is_simple_ident_pat(&c.inputs[0]) {
                    let recv = txt(self.src, &*vm.receiver).split_whitespace().collect::<Vec<_>>().join("");
                    let p = txt(self.src, &c.inputs[0]);
                    let body = txt(self.src, &*c.body);
                    self.edits.push(Edit {
                        start: whole.0,
                        end: whole.1,
                        text: format!(
                            "{{ let old_m_ = take_map_(&mut {recv}); for (k_, v_) in old_m_.iter() {{ let mut v__ = v_.clone(); {{ let mut {p} = &mut v__; {body}; }} {recv}.insert(k_.clone(), v__); }} }}",
                            recv = recv, p = p, body = body
                        ),
                        rule: "R21",
                    });
                    return true;
                }
            }
        }
        false
    }
}
impl<'a, 'ast> Visit<'ast> for R21<'a> {
    fn visit_stmt(&mut self, st: &'ast Stmt) {
        if let Stmt::Expr(Expr::MethodCall(m), _) = st {
            if self.try_call(m, nr(m)) {
                return;
            }
        }
        visit::visit_stmt(self, st);
    }
    fn visit_expr_closure(&mut self, c: &'ast syn::ExprClosure) {
        // closure whose whole body is such a call (the nested case `|v| v.values_mut().for_each(..)`)
        if let Expr::MethodCall(m) = &*c.body {
            if self.try_call(m, nr(m)) {
                return;
            }
        }
        visit::visit_expr_closure(self, c);
    }
}
fn r21(src: &str, f: &syn::File, _c: &Ctx, e: &mut Vec<Edit>) {
    R21 { src, edits: e }.visit_file(f);
}

// ---------------------------------------------------------------------------------------------- R22
// `E.parse::<Factors>()` / `E.parse::<Components>()`  ->  `parse_factors_(E)` / `parse_components_(E)`: the text parsers are outside
// both verifiers; the call gets a name so that it can be given an (assumed, uninterpreted) contract `r == parse_.._spec(E@)`.
struct R22<'a> {
    src: &'a str,
    edits: &'a mut Vec<Edit>,
}
impl<'a, 'ast> Visit<'ast> for R22<'a> {
    fn visit_expr_method_call(&mut self, m: &'ast syn::ExprMethodCall) {
        if m.method == "parse" && m.args.is_empty() {
            if let Some(tf) = &m.turbofish {
                let t = txt(self.src, tf).replace(' ', "");
                let name = if t == "::<Factors>" { Some("parse_factors_") } else if t == "::<Components>" { Some("parse_components_") } else { None };
                if let Some(n) = name {
                    let (s, e) = nr(m);
                    let recv = txt(self.src, &*m.receiver).split_whitespace().collect::<Vec<_>>().join("");
                    self.edits.push(Edit { start: s, end: e, text: format!("{}({})", n, recv), rule: "R22" });
                    return;
                }
            }
        }
        visit::visit_expr_method_call(self, m);
    }
    fn visit_type_path(&mut self, t: &'ast syn::TypePath) {
        self.fix_result(t);
        visit::visit_type_path(self, t);
    }
}
impl<'a> R22<'a> {
    /// `Result<T, EpbdError>` (std's Result, as written in files that do not import the crate's alias) is the alias `Result<T>`
    fn fix_result(&mut self, t: &syn::TypePath) {
        if let Some(seg) = t.path.segments.last() {
            if seg.ident == "Result" && t.path.segments.len() == 1 {
                if let syn::PathArguments::AngleBracketed(ab) = &seg.arguments {
                    if ab.args.len() == 2 && txt(self.src, &ab.args[1]).trim() == "EpbdError" {
                        let (s, _) = nr(&ab.args[0]);
                        let e0 = nr(&ab.args[0]).1;
                        let e1 = nr(&ab.args[1]).1;
                        let _ = s;
                        self.edits.push(Edit { start: e0, end: e1, text: String::new(), rule: "R22" });
                    }
                }
            }
        }
    }
}
fn r22(src: &str, f: &syn::File, _c: &Ctx, e: &mut Vec<Edit>) {
    R22 { src, edits: e }.visit_file(f);
}
