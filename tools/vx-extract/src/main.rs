//! vx-extract: copies items out of /repo/src by *path* (never by line number), applies the purely
//! syntactic rewrite rules R0..R12 documented in /verif/DESIGN.md section 2.1 as text edits located
//! through the syn AST, and marks the splice points for contracts with `/*@...@*/` placeholders.
//!
//! usage: vx-extract <unit.json>      (JSON result on stdout, diagnostics on stderr)
//! exit 0 ok; exit 3 = lost anchor (item not found / rule config does not match).

use proc_macro2::Span;
use serde_json::{json, Value};
use std::collections::{BTreeMap, HashMap};
use syn::spanned::Spanned;
use syn::visit::{self, Visit};

mod rules;
mod marks;

#[derive(Clone, Debug)]
pub struct Edit {
    pub start: usize,
    pub end: usize,
    pub text: String,
    pub rule: &'static str,
}

pub fn br(s: Span) -> (usize, usize) {
    let r = s.byte_range();
    (r.start, r.end)
}
pub fn nr<T: Spanned>(n: &T) -> (usize, usize) {
    br(n.span())
}
pub fn txt<'a, T: Spanned>(src: &'a str, n: &T) -> &'a str {
    let (a, b) = nr(n);
    &src[a..b]
}

/// keep the outermost, left-most non-overlapping edits (inner ones are found again by the next pass)
pub fn apply_edits(src: &str, mut edits: Vec<Edit>, log: &mut BTreeMap<&'static str, usize>) -> String {
    // stable: zero-width inserts at the same position keep their creation order
    edits.sort_by(|a, b| a.start.cmp(&b.start).then(b.end.cmp(&a.end)));
    let mut out = String::with_capacity(src.len() + 256);
    let mut pos = 0usize;
    for e in edits {
        if e.start < pos {
            continue;
        }
        out.push_str(&src[pos..e.start]);
        out.push_str(&e.text);
        pos = e.end;
        *log.entry(e.rule).or_insert(0) += 1;
    }
    out.push_str(&src[pos..]);
    out
}

pub struct Ctx {
    /// struct name -> field name -> type text
    pub structs: HashMap<String, HashMap<String, String>>,
    /// fn name -> local -> list of pattern idents to dereference (R1 by-value map loops)
    pub byvalue: HashMap<String, HashMap<String, Vec<String>>>,
    /// fn names to monomorphise T -> f32 (R8)
    pub mono: Vec<String>,
    /// names of fns / methods returning f32 (helps R10 resolve nothing; reserved)
    pub f32_locals: HashMap<String, Vec<String>>,
}

fn die(code: i32, msg: &str) -> ! {
    eprintln!("vx-extract: {}", msg);
    std::process::exit(code)
}

fn norm_ws(s: &str) -> String {
    s.split_whitespace().collect::<Vec<_>>().join(" ")
}

fn impl_header(src: &str, im: &syn::ItemImpl) -> String {
    let selfty = norm_ws(txt(src, &*im.self_ty));
    match &im.trait_ {
        Some((_, path, _)) => format!("{} for {}", norm_ws(txt(src, path)), selfty),
        None => selfty,
    }
}

/// full text of an item including its attributes
fn item_text<'a, T: Spanned>(src: &'a str, n: &T) -> &'a str {
    txt(src, n)
}

fn find_item(src: &str, file: &syn::File, spec: &Value) -> Option<(String, String, String)> {
    // returns (kind, key, text)
    for it in &file.items {
        match it {
            syn::Item::Fn(f) => {
                if spec.get("fn").and_then(|v| v.as_str()) == Some(&f.sig.ident.to_string()) {
                    return Some(("fn".into(), f.sig.ident.to_string(), item_text(src, f).to_string()));
                }
            }
            syn::Item::Struct(s) => {
                if spec.get("struct").and_then(|v| v.as_str()) == Some(&s.ident.to_string()) {
                    return Some(("struct".into(), s.ident.to_string(), item_text(src, s).to_string()));
                }
            }
            syn::Item::Enum(s) => {
                if spec.get("enum").and_then(|v| v.as_str()) == Some(&s.ident.to_string()) {
                    return Some(("enum".into(), s.ident.to_string(), item_text(src, s).to_string()));
                }
            }
            syn::Item::Trait(s) => {
                if spec.get("trait").and_then(|v| v.as_str()) == Some(&s.ident.to_string()) {
                    return Some(("trait".into(), s.ident.to_string(), item_text(src, s).to_string()));
                }
            }
            syn::Item::Const(s) => {
                if spec.get("const").and_then(|v| v.as_str()) == Some(&s.ident.to_string()) {
                    return Some(("const".into(), s.ident.to_string(), item_text(src, s).to_string()));
                }
            }
            syn::Item::Type(s) => {
                if spec.get("type").and_then(|v| v.as_str()) == Some(&s.ident.to_string()) {
                    return Some(("type".into(), s.ident.to_string(), item_text(src, s).to_string()));
                }
            }
            syn::Item::Impl(im) => {
                if let Some(h) = spec.get("impl").and_then(|v| v.as_str()) {
                    if impl_header(src, im) == norm_ws(h) {
                        // the same header may occur more than once (several inherent impl blocks): pick the one
                        // that has all requested fns
                        if let Some(fns) = spec.get("fns").and_then(|v| v.as_array()) {
                            let have: Vec<String> = im
                                .items
                                .iter()
                                .filter_map(|i| if let syn::ImplItem::Fn(f) = i { Some(f.sig.ident.to_string()) } else { None })
                                .collect();
                            if !fns.iter().all(|f| have.contains(&f.as_str().unwrap_or("").to_string())) {
                                continue;
                            }
                        }
                        return Some(("impl".into(), impl_header(src, im), item_text(src, im).to_string()));
                    }
                }
            }
            _ => {}
        }
    }
    None
}

/// restrict an impl block to the requested fns (+ assoc types; consts only if asked for through "consts")
fn select_impl_items(text: &str, spec: &Value, log: &mut BTreeMap<&'static str, usize>) -> String {
    let fns: Option<Vec<String>> = spec
        .get("fns")
        .and_then(|v| v.as_array())
        .map(|a| a.iter().map(|x| x.as_str().unwrap_or("").to_string()).collect());
    let consts: Vec<String> = spec
        .get("consts")
        .and_then(|v| v.as_array())
        .map(|a| a.iter().map(|x| x.as_str().unwrap_or("").to_string()).collect())
        .unwrap_or_default();
    let file: syn::File = syn::parse_str(text).unwrap_or_else(|e| die(3, &format!("reparse impl: {}", e)));
    let mut edits = vec![];
    if let syn::Item::Impl(im) = &file.items[0] {
        for ii in &im.items {
            let drop = match ii {
                syn::ImplItem::Fn(f) => match &fns {
                    Some(l) => !l.contains(&f.sig.ident.to_string()),
                    None => false,
                },
                syn::ImplItem::Const(c) => !consts.contains(&c.ident.to_string()),
                _ => false,
            };
            if drop {
                let (a, b) = nr(ii);
                edits.push(Edit { start: a, end: b, text: String::new(), rule: "select" });
            }
        }
    }
    apply_edits(text, edits, log)
}

fn collect_struct_fields(text: &str, structs: &mut HashMap<String, HashMap<String, String>>) {
    if let Ok(file) = syn::parse_str::<syn::File>(text) {
        if let Some(syn::Item::Struct(s)) = file.items.first() {
            let mut m = HashMap::new();
            for f in &s.fields {
                if let Some(id) = &f.ident {
                    m.insert(id.to_string(), norm_ws(txt(text, &f.ty)));
                }
            }
            structs.insert(s.ident.to_string(), m);
        }
    }
}

fn main() {
    let args: Vec<String> = std::env::args().collect();
    if args.len() != 2 {
        die(2, "usage: vx-extract <unit.json>");
    }
    let cfg: Value = serde_json::from_str(&std::fs::read_to_string(&args[1]).unwrap_or_else(|e| die(2, &format!("{}: {}", args[1], e))))
        .unwrap_or_else(|e| die(2, &format!("unit json: {}", e)));
    let srcdir = cfg["src"].as_str().unwrap_or("/repo/src").to_string();
    let mut files: HashMap<String, (String, syn::File)> = HashMap::new();
    let mut ctx = Ctx { structs: HashMap::new(), byvalue: HashMap::new(), mono: vec![], f32_locals: HashMap::new() };
    if let Some(m) = cfg.get("byvalue_maps").and_then(|v| v.as_object()) {
        for (f, locals) in m {
            let mut lm = HashMap::new();
            for (l, ids) in locals.as_object().unwrap() {
                lm.insert(l.clone(), ids.as_array().unwrap().iter().map(|x| x.as_str().unwrap().to_string()).collect());
            }
            ctx.byvalue.insert(f.clone(), lm);
        }
    }
    if let Some(m) = cfg.get("mono_f32").and_then(|v| v.as_array()) {
        ctx.mono = m.iter().map(|x| x.as_str().unwrap().to_string()).collect();
    }
    if let Some(m) = cfg.get("f32_locals").and_then(|v| v.as_object()) {
        for (f, ids) in m {
            ctx.f32_locals.insert(f.clone(), ids.as_array().unwrap().iter().map(|x| x.as_str().unwrap().to_string()).collect());
        }
    }

    // phase 1: locate and copy
    let mut raw: Vec<(Value, String, String, String, usize)> = vec![]; // (spec, kind, key, text, line)
    for spec in cfg["items"].as_array().unwrap_or_else(|| die(2, "no items")) {
        let fname = spec["file"].as_str().unwrap_or_else(|| die(2, "item without file")).to_string();
        if !files.contains_key(&fname) {
            let p = format!("{}/{}", srcdir, fname);
            let s = std::fs::read_to_string(&p).unwrap_or_else(|e| die(3, &format!("lost anchor: cannot read {}: {}", p, e)));
            let f: syn::File = syn::parse_str(&s).unwrap_or_else(|e| die(3, &format!("lost anchor: cannot parse {}: {}", p, e)));
            files.insert(fname.clone(), (s, f));
        }
        let (s, f) = &files[&fname];
        match find_item(s, f, spec) {
            Some((kind, key, text)) => {
                let line = s[..s.find(&text).unwrap_or(0)].matches('\n').count() + 1;
                if kind == "struct" {
                    collect_struct_fields(&text, &mut ctx.structs);
                }
                raw.push((spec.clone(), kind, key, text, line));
            }
            None => die(3, &format!("lost anchor: item {} not found in {}", spec, fname)),
        }
    }

    // phase 2: rewrite
    let mut out_items = vec![];
    let mut fn_counter = 0usize;
    for (spec, kind, key, text, line) in raw {
        let mut log: BTreeMap<&'static str, usize> = BTreeMap::new();
        let mut t = text.clone();
        if kind == "impl" {
            t = select_impl_items(&t, &spec, &mut log);
        }
        t = rules::run_all(&t, &ctx, &mut log);
        let (t2, fns, fields) = marks::mark(&t, &kind, &key, &mut fn_counter);
        out_items.push(json!({
            "kind": kind, "key": key, "file": spec["file"], "line": line,
            "orig_bytes": text.len(),
            "text": t2, "fns": fns, "fields": fields,
            "rewrites": log.iter().map(|(k,v)| json!({"rule": k, "count": v})).collect::<Vec<_>>(),
        }));
    }
    println!("{}", serde_json::to_string_pretty(&json!({"items": out_items})).unwrap());
}

// helper visitor re-exported for the rule modules
pub struct FnFinder<'a> {
    pub found: Vec<&'a syn::ItemFn>,
}
impl<'a> Visit<'a> for FnFinder<'a> {
    fn visit_item_fn(&mut self, f: &'a syn::ItemFn) {
        self.found.push(f);
        visit::visit_item_fn(self, f);
    }
}
