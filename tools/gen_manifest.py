#!/usr/bin/env python3
"""MANIFEST.json is generated from checks.json (single source of truth for what is claimed)."""
import json, os
ROOT = os.path.dirname(os.path.dirname(os.path.abspath(__file__)))
C = json.load(open(os.path.join(ROOT, "checks.json")))
ALL = ["C%02d" % i for i in range(1, 20)]
checks = []
for pid in ALL:
    p = C["properties"].get(pid)
    if not p:
        continue
    checks.append({
        "property_id": pid,
        "quick_cmd": "./run check %s --tier quick" % pid,
        "thorough_cmd": "./run check %s --tier thorough" % pid,
        "evidence_file": "/verif/evidence/%s.json" % pid,
        "replay_cmd_template": "./run replay {path}",
        "engine": "verus-contracts",
        "level_claimed": {"category": p.get("level", "proof"), "text": p["level_text"], "design_ref": p.get("design_ref", "DESIGN.md section 3/" + pid)},
        "level_note": p["level_note"],
        "technique": p.get("technique", "contract-based deductive verification (Verus) of the real functions, extracted mechanically on every run"),
    })
na = [{"property_id": k, "reason": v} for k, v in C["not_applicable"].items() if k not in C["properties"]]
m = {
    "version": 1,
    "setup_cmd": "./setup.sh",
    "hooks": C["hooks"],
    "engines": [
        {"name": "verus-contracts", "path": "/verif/run", "serves_properties": [c["property_id"] for c in checks],
         "kind_free_text": "vx-extract (syn) copies the real functions out of /repo/src on every run, contracts from /verif/contracts are spliced in, Verus discharges every obligation; Kani kernels for bit-precise float facts"},
    ],
    "checks": checks,
    "notes": C.get("notes", ""),
    "not_applicable": na,
}
json.dump(m, open(os.path.join(ROOT, "MANIFEST.json"), "w"), indent=1)
print("MANIFEST: %d checks, %d not_applicable" % (len(checks), len(na)))
