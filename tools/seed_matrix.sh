#!/bin/bash
# runs every check against every confirmed seeded change on a scratch worktree; writes /verif/seeded_raw/matrix.tsv
WT=/tmp/repo_matrix
git -C /repo worktree remove --force $WT 2>/dev/null; git -C /repo worktree prune
git -C /repo worktree add -q --detach $WT HEAD || exit 2
export VERIF_REPO=$WT
OUT=/verif/seeded_raw/matrix.tsv
: > $OUT
PROPS="C01 C02 C03 C04 C05 C06 C07 C08 C09 C10 C11 C12 C13 C14 C16"
for d in /verif/seeded_raw/C*/[12]/; do
  id=$(basename $(dirname $d))-$(basename $d)
  git -C $WT checkout -q -- .
  git -C $WT apply $d/patch.diff || { echo -e "$id\tAPPLY-FAILED" >> $OUT; continue; }
  row="$id"
  for p in $PROPS; do
    /verif/run check $p > /tmp/matrix_run.log 2>&1; rc=$?
    row="$row\t$p=$rc"
  done
  echo -e "$row" >> $OUT
  echo -e "$row"
done
git -C $WT checkout -q -- .
# the unchanged tree must be silent
row="unchanged"
for p in $PROPS; do /verif/run check $p > /tmp/matrix_run.log 2>&1; row="$row\t$p=$?"; done
echo -e "$row" >> $OUT; echo -e "$row"
git -C /repo worktree remove --force $WT
# the evidence files now describe scratch runs: restore the committed ones
git -C /verif checkout -- evidence
find /verif/replays -name '*.json' -delete
