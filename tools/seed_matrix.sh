#!/bin/bash
# Runs every check against every confirmed seeded change on a scratch worktree of /repo; writes seeded_raw/matrix.tsv
# (copied to /tmp/matrix_result.tsv at the end). Start it with `vp run -- tools/seed_matrix.sh`: that runs from a snapshot
# of the committed /verif, so editing /verif meanwhile does not disturb it. Builds its own tools first.
ROOT=$(cd "$(dirname "$0")/.." && pwd)
cd "$ROOT" || exit 2
./setup.sh > /tmp/matrix_setup.log 2>&1 || { echo "setup failed"; exit 2; }
WT=/tmp/repo_matrix
git -C /repo worktree remove --force $WT 2>/dev/null; git -C /repo worktree prune
git -C /repo worktree add -q --detach $WT HEAD || exit 2
export VERIF_REPO=$WT
OUT=$ROOT/seeded_raw/matrix.tsv
: > $OUT
PROPS="C01 C02 C03 C04 C05 C06 C07 C08 C09 C10 C11 C12 C13 C14 C16"
for d in $ROOT/seeded_raw/C*/[12]/; do
  id=$(basename $(dirname $d))-$(basename $d)
  git -C $WT checkout -q -- .
  git -C $WT apply $d/patch.diff || { echo -e "$id\tAPPLY-FAILED" >> $OUT; continue; }
  row="$id"
  for p in $PROPS; do
    ./run check $p > /tmp/matrix_run.log 2>&1; rc=$?
    row="$row\t$p=$rc"
  done
  echo -e "$row" >> $OUT
  echo -e "$row"
  cp $OUT /tmp/matrix_result.tsv
done
git -C $WT checkout -q -- .
row="unchanged"
for p in $PROPS; do ./run check $p > /tmp/matrix_run.log 2>&1; row="$row\t$p=$?"; done
echo -e "$row" >> $OUT; echo -e "$row"
git -C /repo worktree remove --force $WT
cp $OUT /tmp/matrix_result.tsv
