#!/bin/bash
# Runs every check against every patch under the given directories (default: seeded_raw seeded_raw2 benign_raw) on a scratch
# worktree of /repo; writes <dir>/matrix.tsv per directory (and a copy under /tmp/matrix_<dir>.tsv after every row).
# Start it with `vp run -- tools/seed_matrix.sh [dirs]`: that runs from a snapshot of the committed /verif, so editing
# /verif meanwhile does not disturb it. Builds its own tools first.
ROOT=$(cd "$(dirname "$0")/.." && pwd)
cd "$ROOT" || exit 2
./setup.sh > /tmp/matrix_setup.log 2>&1 || { echo "setup failed"; exit 2; }
WT=${MATRIX_WT:-/tmp/repo_matrix}
git -C /repo worktree remove --force $WT 2>/dev/null; git -C /repo worktree prune
git -C /repo worktree add -q --detach $WT HEAD || exit 2
export VERIF_REPO=$WT
PROPS="C01 C02 C03 C04 C05 C06 C07 C08 C09 C10 C11 C12 C13 C14 C16"
DIRS="${@:-seeded_raw seeded_raw2 benign_raw}"
for D in $DIRS; do
  OUT=$ROOT/$D/matrix.tsv
  : > $OUT
  for d in $(find $ROOT/$D -name patch.diff | sort); do
    dd=$(dirname $d)
    id=$(echo ${dd#$ROOT/$D/} | tr '/' '-')
    git -C $WT reset -q --hard HEAD
    git -C $WT apply $d || { echo -e "$id\tAPPLY-FAILED" >> $OUT; continue; }
    row="$id"
    for p in $PROPS; do
      ./run check $p > /tmp/matrix_run.log 2>&1; rc=$?
      row="$row\t$p=$rc"
      if [ $rc -ne 0 ]; then mkdir -p $ROOT/$D/verdicts; grep -E "^(VIOLATION|UNDECIDED|note)" /tmp/matrix_run.log | cut -c1-300 > $ROOT/$D/verdicts/$id.$p.txt; fi
    done
    echo -e "$row" >> $OUT
    echo -e "$row"
    cp $OUT /tmp/matrix_$D.tsv
  done
done
git -C $WT reset -q --hard HEAD
row="unchanged"
for p in $PROPS; do ./run check $p > /tmp/matrix_run.log 2>&1; row="$row\t$p=$?"; done
echo -e "$row" | tee /tmp/matrix_unchanged.tsv
git -C /repo worktree remove --force $WT
mkdir -p /tmp/matrix_verdicts; for D in $DIRS; do [ -d $ROOT/$D/verdicts ] && cp -r $ROOT/$D/verdicts /tmp/matrix_verdicts/$D; done
