#!/bin/bash
# quick look: every patch of the given directories against the check of its own property only (see seed_matrix.sh for the full matrix)
ROOT=$(cd "$(dirname "$0")/.." && pwd)
cd "$ROOT" || exit 2
./setup.sh > /tmp/diag_setup.log 2>&1 || { echo "setup failed"; exit 2; }
WT=${DIAG_WT:-/tmp/repo_diag}
LOG=/tmp/diag_run_$(basename $WT).log
git -C /repo worktree remove --force $WT 2>/dev/null; git -C /repo worktree prune
git -C /repo worktree add -q --detach $WT HEAD || exit 2
export VERIF_REPO=$WT
for D in "$@"; do
  OUT=$ROOT/$D/diag.tsv; : > $OUT
  for d in $(find $ROOT/$D -name patch.diff | sort); do
    dd=$(dirname $d); id=$(echo ${dd#$ROOT/$D/} | tr '/' '-'); p=${id%%-*}
    git -C $WT reset -q --hard HEAD
    git -C $WT apply $d || { echo -e "$id\tAPPLY-FAILED" >> $OUT; continue; }
    ./run check $p > $LOG 2>&1; rc=$?
    echo -e "$id\t$p=$rc\t$(grep -E '^(VIOLATION|UNDECIDED)' $LOG | head -2 | cut -c1-160 | tr '\n' '|')" | tee -a $OUT
    cp $OUT /tmp/diag_$D.tsv
  done
done
git -C /repo worktree remove --force $WT
