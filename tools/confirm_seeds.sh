#!/bin/bash
# Confirms every seeded change in a scratch worktree: (a) applies, (b) crate builds and the unedited suite passes with it,
# (c) the demonstration fails with it, (d) passes without it.  Writes /verif/seeded_raw/<id>/<n>/confirm.json
WT=/tmp/wt_confirm
export CARGO_TARGET_DIR=/tmp/wt_confirm_target CARGO_NET_OFFLINE=true
cd $WT || exit 2
for d in ${RAW:-/verif/seeded_raw}/*/*/; do
  id=$(basename $(dirname $d))_$(basename $d)
  [ -f $d/patch.diff ] || continue
  [ -f $d/confirm.json ] && [ -z "$FORCE" ] && continue
  git checkout -q -- . ; rm -f tests/demo_seed.rs
  applies=false; suite=false; demo_with=unknown; demo_without=unknown
  if git apply --check $d/patch.diff 2>/dev/null; then applies=true; fi
  if $applies; then
    cp $d/demo.rs tests/demo_seed.rs
    timeout 600 cargo test --offline --test demo_seed > /tmp/confirm_demo_without.log 2>&1 && demo_without=pass || demo_without=fail
    git apply $d/patch.diff
    rm -f tests/demo_seed.rs
    if timeout 900 cargo test --workspace --no-fail-fast --offline > /tmp/confirm_suite.log 2>&1; then suite=true; fi
    npass=$(grep -E "^test result: ok" /tmp/confirm_suite.log | sed -E 's/.*ok\. ([0-9]+) passed.*/\1/' | paste -sd+ | bc)
    cp $d/demo.rs tests/demo_seed.rs
    timeout 600 cargo test --offline --test demo_seed > /tmp/confirm_demo_with.log 2>&1 && demo_with=pass || demo_with=fail
    rm -f tests/demo_seed.rs; git checkout -q -- .
  fi
  echo "{\"id\": \"$id\", \"applies\": $applies, \"suite_passes_with_change\": $suite, \"suite_tests_passed\": \"${npass:-0}\", \"demo_with_change\": \"$demo_with\", \"demo_without_change\": \"$demo_without\", \"repo_head\": \"$(git -C /repo log --format=%h -1)\"}" > $d/confirm.json
  cat $d/confirm.json
done
