#!/usr/bin/env python3
"""developer helper: assemble a unit, run Verus, print a summary of failed obligations"""
import sys, json, os
sys.path.insert(0, os.path.join(os.path.dirname(os.path.abspath(__file__)), "lib"))
import assemble, verus_run
name = sys.argv[1]
extra = sys.argv[2:]
out = "/tmp/vx/%s.rs" % name
os.makedirs("/tmp/vx", exist_ok=True)
t, ct, side = assemble.assemble(json.load(open(os.path.join(assemble.ROOT, "units/%s.json" % name))))
open(out, "w").write(t)
cout = "/tmp/vx/%s_canary.rs" % name
open(cout, "w").write(ct)
json.dump(side, open("/tmp/vx/%s.side.json" % name, "w"), indent=1)
r = verus_run.run_verus(out, extra=extra)
c = verus_run.classify(r, side, out)
print("rc", r["rc"], "results", r["results"], "wall %.1fs" % r["wall_s"], "panic", r["panic"])
for e in c["compile_errors"]:
    print("COMPILE", e["fn"], e["line"], e["message"]); print(e["rendered"])
for e in c["resource"]:
    print("RESOURCE", e)
for o in c["failed"]:
    print("FAIL %-18s fn=%s label=%s callee=%s line=%s :: %s" % (o["kind"], o["fn"], o["label"], o["callee"], o["line"], o["site_text"][:110]))
cr = verus_run.run_verus(cout, extra=["--verify-only-module", "canary", "--triggers-mode", "silent"], threads=4)
c["canary_hits"] = verus_run.classify(cr, side, cout)["canary_hits"]
exp = {x["name"] for x in side["canaries"]}
print("canaries rejected %d/%d" % (len(set(c["canary_hits"]) & exp), len(exp)), "NOT rejected:", sorted(exp - set(c["canary_hits"])))
if r["rc"] not in (0, 1) or (not r["diags"] and r["rc"] != 0):
    print(r["raw_stderr"][-3000:])
