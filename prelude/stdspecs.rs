// A2: assumed contracts of std functions that vstd does not specify (each is an ASSUMPTION)
pub assume_specification<T: PartialEq> [ <[T]>::contains ] (s: &[T], x: &T) -> (r: bool)
    ensures r == (exists|i: int| 0 <= i < s@.len() && #[trigger] s@[i] == *x);   // for the field-less enums it is used on, == is structural

pub assume_specification<T: Clone> [<[T] as std::borrow::ToOwned>::to_owned] (s: &[T]) -> (r: Vec<T>)
    ensures r@ == s@;    // used on [f32] only (Copy)

// used by rewrite rule R12 (Vec::retain as an explicit rebuild)
pub assume_specification<T> [std::mem::replace] (dest: &mut T, src: T) -> (r: T) ensures r == *old(dest), *final(dest) == src;

// A2: sort_by_key yields a permutation of the slice (that it is sorted / stable is not needed by any claimed clause)
pub assume_specification<T, K: Ord, F: FnMut(&T) -> K>[ <[T]>::sort_by_key ](s: &mut [T], f: F)
    requires forall|x: &T| #[trigger] call_requires(f, (x,)),
    ensures final(s)@.to_multiset() == old(s)@.to_multiset();
/// R21: take a map out of its place (std::mem::replace(m, HashMap::new())) - verified against the assumed contract of mem::replace
pub fn take_map_<K: std::cmp::Eq + std::hash::Hash, V>(m: &mut HashMap<K, V>) -> (r: HashMap<K, V>)
    ensures r == *old(m), final(m)@ == Map::<K, V>::empty(),
{
    std::mem::replace(m, HashMap::new())
}
