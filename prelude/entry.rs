// A2: `entry(k).or_default()` through vstd's prophetic Entry model (EntrySpecFns): returns a reference to the stored value
// (or to a fresh Default value), and whatever is finally written through it is what the map holds for that key.
pub mod eax {
  use vstd::prelude::*; use vstd::std_specs::hash::*; use std::collections::HashMap; use std::collections::hash_map::Entry; use super::*;
  pub uninterp spec fn default_of<V>() -> V;
  pub assume_specification<'a, K, V: Default>[ Entry::<'a, K, V>::or_default ](e: Entry<'a, K, V>) -> (r: &'a mut V)
      ensures *r == (match e.value() { Some(v) => v, None => default_of::<V>() }),
              e.final_value() == Some(*final(r));
  pub broadcast proof fn ax_default_f32() ensures #[trigger] rv(default_of::<f32>()) == 0real { admit(); }
  pub broadcast proof fn ax_default_rnc() ensures rv((#[trigger] default_of::<RenNrenCo2>()).ren) == 0real,
      rv(default_of::<RenNrenCo2>().nren) == 0real, rv(default_of::<RenNrenCo2>().co2) == 0real { admit(); }
  pub broadcast proof fn ax_default_map_cf() ensures (#[trigger] default_of::<HashMap<Carrier, f32>>())@ == Map::<Carrier, f32>::empty() { admit(); }
  pub broadcast proof fn ax_default_map_sf() ensures (#[trigger] default_of::<HashMap<Service, f32>>())@ == Map::<Service, f32>::empty() { admit(); }
  pub broadcast group entry_defaults { ax_default_f32, ax_default_rnc, ax_default_map_cf, ax_default_map_sf }
}
pub use eax::default_of;
