// A1: f32 arithmetic treated as exact real arithmetic (no rounding, no NaN/inf, no overflow).
// Every `admit()` in this module is an ASSUMPTION and is listed as such in the evidence.
pub mod ax {
  use vstd::prelude::*; use vstd::std_specs::ops::*; use vstd::std_specs::cmp::*; use core::cmp::Ordering;
  pub uninterp spec fn rv(x: f32) -> real;
  pub open spec fn rmin(a: real, b: real) -> real { if a <= b { a } else { b } }
  pub open spec fn rmax(a: real, b: real) -> real { if a >= b { a } else { b } }
  pub open spec fn rabs(a: real) -> real { if a >= 0real { a } else { -a } }
  pub broadcast proof fn ax_obeys_add() ensures #[trigger] <f32 as AddSpec<f32>>::obeys_add_spec() { admit(); }
  pub broadcast proof fn ax_add_req(a: f32, b: f32) ensures #[trigger] AddSpec::add_req(a, b) { admit(); }
  pub broadcast proof fn ax_add(a: f32, b: f32) ensures rv(#[trigger] AddSpec::add_spec(a, b)) == rv(a) + rv(b) { admit(); }
  pub broadcast proof fn ax_obeys_sub() ensures #[trigger] <f32 as SubSpec<f32>>::obeys_sub_spec() { admit(); }
  pub broadcast proof fn ax_sub_req(a: f32, b: f32) ensures #[trigger] SubSpec::sub_req(a, b) { admit(); }
  pub broadcast proof fn ax_sub(a: f32, b: f32) ensures rv(#[trigger] SubSpec::sub_spec(a, b)) == rv(a) - rv(b) { admit(); }
  pub broadcast proof fn ax_obeys_mul() ensures #[trigger] <f32 as MulSpec<f32>>::obeys_mul_spec() { admit(); }
  pub broadcast proof fn ax_mul_req(a: f32, b: f32) ensures #[trigger] MulSpec::mul_req(a, b) { admit(); }
  // products are introduced through `rmul` so that commutativity (exact for IEEE multiplication as well) is available
  // to the solver, which treats non-linear real multiplication as uninterpreted outside by(nonlinear_arith)
  pub open spec fn rmul(a: real, b: real) -> real { a * b }
  pub broadcast proof fn lemma_rmul_comm(a: real, b: real) ensures #[trigger] rmul(a, b) == rmul(b, a) { assert(a * b == b * a) by(nonlinear_arith); }
  pub broadcast proof fn ax_mul(a: f32, b: f32) ensures rv(#[trigger] MulSpec::mul_spec(a, b)) == rmul(rv(a), rv(b)) { admit(); }
  pub broadcast proof fn ax_obeys_div() ensures #[trigger] <f32 as DivSpec<f32>>::obeys_div_spec() { admit(); }
  pub broadcast proof fn ax_div_req(a: f32, b: f32) ensures #[trigger] DivSpec::div_req(a, b) { admit(); }
  pub broadcast proof fn ax_div(a: f32, b: f32) ensures rv(b) != 0real ==> rv(#[trigger] DivSpec::div_spec(a, b)) == rv(a) / rv(b) { admit(); }
  pub broadcast proof fn ax_obeys_neg() ensures #[trigger] <f32 as NegSpec>::obeys_neg_spec() { admit(); }
  pub broadcast proof fn ax_neg_req(a: f32) ensures #[trigger] NegSpec::neg_req(a) { admit(); }
  pub broadcast proof fn ax_neg(a: f32) ensures rv(#[trigger] NegSpec::neg_spec(a)) == -rv(a) { admit(); }
  pub broadcast proof fn ax_lit0() ensures #[trigger] rv(0.0f32) == 0real { admit(); }
  pub broadcast proof fn ax_lit_neg0() ensures #[trigger] rv(-0.0f32) == 0real { admit(); }
  pub broadcast proof fn ax_lit1() ensures #[trigger] rv(1.0f32) == 1real { admit(); }
  pub broadcast proof fn ax_lit_milli() ensures #[trigger] rv(1e-3f32) == 1real / 1000real { admit(); }
  pub broadcast proof fn ax_obeys_pcmp() ensures #[trigger] <f32 as PartialOrdSpec<f32>>::obeys_partial_cmp_spec() { admit(); }
  pub broadcast proof fn ax_pcmp(a: f32, b: f32) ensures (#[trigger] PartialOrdSpec::partial_cmp_spec(&a, &b)) ==
      (if rv(a) < rv(b) { Some(Ordering::Less) } else if rv(a) == rv(b) { Some(Ordering::Equal) } else { Some(Ordering::Greater) }) { admit(); }
  pub broadcast proof fn ax_obeys_eq() ensures #[trigger] <f32 as PartialEqSpec<f32>>::obeys_eq_spec() { admit(); }
  pub broadcast proof fn ax_eq(a: f32, b: f32) ensures (#[trigger] PartialEqSpec::eq_spec(&a, &b)) == (rv(a) == rv(b)) { admit(); }
  pub broadcast group float_real { ax_obeys_add, ax_add_req, ax_add, ax_obeys_sub, ax_sub_req, ax_sub, ax_obeys_mul, ax_mul_req, ax_mul, lemma_rmul_comm,
      ax_obeys_div, ax_div_req, ax_div, ax_obeys_neg, ax_neg_req, ax_neg, ax_lit0, ax_lit_neg0, ax_lit1, ax_lit_milli, ax_obeys_pcmp, ax_pcmp, ax_obeys_eq, ax_eq }
}
pub use ax::*;

// A2: assumed contracts of std functions on f32
pub assume_specification [f32::min] (a: f32, b: f32) -> (r: f32) ensures rv(r) == rmin(rv(a), rv(b));
pub assume_specification [f32::abs] (a: f32) -> (r: f32) ensures rv(r) == rabs(rv(a));
pub assume_specification [f32::max] (a: f32, b: f32) -> (r: f32) ensures rv(r) == rmax(rv(a), rv(b));
// not used by the pinned tree: given an (uninterpreted) meaning so that a tree that starts to round a value is still assembled and decided
// by the obligations it breaks, instead of leaving the whole unit undecided ("unsupported function")
pub uninterp spec fn rround(a: real) -> real;
pub uninterp spec fn rfloor(a: real) -> real;
pub uninterp spec fn rceil(a: real) -> real;
pub uninterp spec fn rtrunc(a: real) -> real;
pub assume_specification [f32::round] (a: f32) -> (r: f32) ensures rv(r) == rround(rv(a));
pub assume_specification [f32::floor] (a: f32) -> (r: f32) ensures rv(r) == rfloor(rv(a));
pub assume_specification [f32::ceil] (a: f32) -> (r: f32) ensures rv(r) == rceil(rv(a));
pub assume_specification [f32::trunc] (a: f32) -> (r: f32) ensures rv(r) == rtrunc(rv(a));

// sum of a sequence of f32 in the real model
pub open spec fn sumf(s: Seq<f32>) -> real decreases s.len() {
    if s.len() == 0 { 0real } else { sumf(s.drop_last()) + rv(s.last()) }
}
// R5: `E.iter().sum()` on a slice is replaced by this function; its contract is assumed (Iterator::sum is a
// provided trait method that Verus cannot be given a specification for)
#[verifier::external_body]
pub fn iter_sum_f32(v: &[f32]) -> (r: f32)
    ensures rv(r) == sumf(v@),
{
    v.iter().sum()
}

// R7: error message text is opaque (no claimed property depends on it)
#[verifier::external_body]
pub fn errmsg() -> (r: String) { String::new() }
