use vstd::std_specs::ops::*;
use vstd::std_specs::cmp::*;
use vstd::std_specs::iter::*;
use vstd::std_specs::hash::*;
use std::collections::{HashMap, HashSet};
use std::ops::{Add, AddAssign, Mul, MulAssign, Sub, SubAssign};
