// ---- iteration over a HashMap in ARBITRARY order (proved lemmas, no assumptions).
// `rem` is vstd's prophetic sequence of the items the iterator will yield; nothing is known about its
// order, so every loop verified through these lemmas is verified for every iteration order (C10).
pub open spec fn map_iter_ok<K, V>(m: Map<K, V>, rem: Seq<(&K, &V)>) -> bool {
    &&& rem.no_duplicates()
    &&& rem.len() == m.len()
    &&& (forall|j: int| 0 <= j < rem.len() ==> m.contains_key(*(#[trigger] rem[j]).0) && m[*rem[j].0] == *rem[j].1)
    &&& (forall|k: K| m.contains_key(k) ==> exists|j: int| 0 <= j < rem.len() && *(#[trigger] rem[j]).0 == k)
}
/// key `k` is among the first `n` items
pub open spec fn visited<K, V>(rem: Seq<(&K, &V)>, n: int, k: K) -> bool {
    exists|j: int| 0 <= j < n && *(#[trigger] rem[j]).0 == k
}
pub proof fn lemma_visit_step<K, V>(m: Map<K, V>, rem: Seq<(&K, &V)>, n: int)
    requires map_iter_ok(m, rem), 0 <= n < rem.len(),
    ensures
        !visited(rem, n, *rem[n].0),
        visited(rem, n + 1, *rem[n].0),
        m.contains_key(*rem[n].0),
        m[*rem[n].0] == *rem[n].1,
        forall|x: K| x != *rem[n].0 ==> #[trigger] visited(rem, n + 1, x) == visited(rem, n, x),
{
    let k = *rem[n].0;
    if visited(rem, n, k) {
        let j = choose|j: int| 0 <= j < n && *(#[trigger] rem[j]).0 == k;
        assert(*rem[j].1 == *rem[n].1);
        assert(rem[j] == rem[n]);
    }
    assert(visited(rem, n + 1, k)) by { assert(*rem[n].0 == k); }
    assert forall|x: K| x != k implies #[trigger] visited(rem, n + 1, x) == visited(rem, n, x) by {
        if visited(rem, n + 1, x) { let j = choose|j: int| 0 <= j < n + 1 && *(#[trigger] rem[j]).0 == x; assert(j < n); }
        if visited(rem, n, x) { let j = choose|j: int| 0 <= j < n && *(#[trigger] rem[j]).0 == x; assert(0 <= j < n + 1 && *rem[j].0 == x); }
    }
}
pub proof fn lemma_visit_none<K, V>(rem: Seq<(&K, &V)>)
    ensures forall|x: K| !#[trigger] visited(rem, 0, x),
{}
pub proof fn lemma_visit_all<K, V>(m: Map<K, V>, rem: Seq<(&K, &V)>)
    requires map_iter_ok(m, rem),
    ensures forall|x: K| #[trigger] visited(rem, rem.len() as int, x) == m.contains_key(x),
{
    assert forall|x: K| #[trigger] visited(rem, rem.len() as int, x) == m.contains_key(x) by {
        if visited(rem, rem.len() as int, x) { let j = choose|j: int| 0 <= j < rem.len() && *(#[trigger] rem[j]).0 == x; assert(m.contains_key(*rem[j].0)); }
        if m.contains_key(x) { let j = choose|j: int| 0 <= j < rem.len() && *(#[trigger] rem[j]).0 == x; assert(visited(rem, rem.len() as int, x)); }
    }
}
/// the closing fact of every map loop, stated so that it can be kept as a loop invariant
pub open spec fn visit_all_is_dom<K, V>(m: Map<K, V>, rem: Seq<(&K, &V)>) -> bool {
    forall|x: K| #![trigger visited(rem, rem.len() as int, x)] #![trigger m.contains_key(x)] visited(rem, rem.len() as int, x) == m.contains_key(x)
}
