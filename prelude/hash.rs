// A2: the crate's key types obey the hash-map key model (derived Hash + Eq on field-less enums), and
// `m[&k]` (Index for HashMap) requires the key to be present and returns the stored value — vstd leaves
// both the precondition (`index_req`) and the result of `Index::index` on HashMap uninterpreted.
pub mod kax {
  use vstd::prelude::*; use vstd::std_specs::hash::*; use std::collections::HashMap; use std::hash::{Hash, BuildHasher}; use std::borrow::Borrow;
  pub broadcast proof fn ax_key_carrier() ensures #[trigger] vstd::std_specs::hash::obeys_key_model::<super::Carrier>() { admit(); }
  pub broadcast proof fn ax_key_service() ensures #[trigger] vstd::std_specs::hash::obeys_key_model::<super::Service>() { admit(); }
  pub broadcast proof fn ax_key_prodsource() ensures #[trigger] vstd::std_specs::hash::obeys_key_model::<super::ProdSource>() { admit(); }
  pub broadcast proof fn ax_hm_index_req<K: Eq + std::hash::Hash, V>(m: std::collections::HashMap<K, V>, k: &K)
      ensures #[trigger] vstd::std_specs::core::IndexSpec::index_req(&m, &k) == m@.contains_key(*k) { admit(); }
  pub assume_specification<'a, 'b, 'c, K, Q: ?Sized, V, S, A: std::alloc::Allocator>[ <HashMap<K, V, S, A> as core::ops::Index<&'a Q>>::index ](m: &'b HashMap<K, V, S, A>, k: &'c Q) -> (r: &'b V)
      where K: Eq + Hash + Borrow<Q>, Q: Eq + Hash, S: BuildHasher
      ensures obeys_key_model::<K>() && builds_valid_hashers::<S>() ==> contains_borrowed_key(m@, k) && maps_borrowed_key_to_value(m@, k, *r);
  // A2: string-slice keys (`HashMap<&'static str, V>`, the table of regulatory factor sets): they obey the key model, and a lookup
  // with a borrowed `&str` finds the entry stored under the equal string
  pub broadcast proof fn ax_key_str() ensures #[trigger] vstd::std_specs::hash::obeys_key_model::<&'static str>() { admit(); }
  pub broadcast proof fn ax_str_contains<V>(m: Map<&'static str, V>, k: &'static str)
      ensures #[trigger] contains_borrowed_key::<&'static str, V, str>(m, k) == m.contains_key(k) { admit(); }
  pub broadcast proof fn ax_str_value<V>(m: Map<&'static str, V>, k: &'static str, v: V)
      ensures #[trigger] maps_borrowed_key_to_value::<&'static str, V, str>(m, k, v) == (m.contains_key(k) && m[k] == v) { admit(); }
  pub broadcast group key_models { ax_key_carrier, ax_key_service, ax_key_prodsource, ax_hm_index_req, ax_key_str, ax_str_contains, ax_str_value }
}
