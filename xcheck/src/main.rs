//! xcheck: extraction-equivalence test (assumption A3 of DESIGN.md).
//!
//! `src/gen/x_<unit>.rs` is the text Verus verifies (the items vx-extract copies out of /repo/src after the rewrite rules
//! R0..R20, contracts and ghost code not included), compiled here as plain Rust. This program runs it side by side with
//! the real crate on the inputs of the bounded stand-ins and compares the results:
//!   components : Components::normalize (completion of EAMBIENTE / TERMOSOLAR, auxiliary assignment, sort), available_carriers
//!   factors    : Factors::set_user_wfactors / normalize / strip / add_cgn_factors
//!   agg        : energy_performance (the whole balance pipeline), both load-matching modes, several k_exp
//! A difference means a rewrite rule changed behaviour: the framework is unsound for that construct (reported as
//! `mismatches`, the driver turns it into exit 2), not that a property is violated.
#![allow(non_snake_case)]
use cteepbd::types as rt;
use serde_json::json;

#[path = "gen/x_agg.rs"]
mod x_agg;
#[path = "gen/x_components.rs"]
mod x_components;
#[path = "gen/x_factors.rs"]
mod x_factors;

macro_rules! by_name {
    ($v:expr, $t:path, [$($n:ident),*]) => {{
        let s = format!("{:?}", $v);
        $( if s == stringify!($n) { <$t>::$n } else )* { panic!("unknown variant {}", s) }
    }};
}
/// conversions real crate -> module $m (same field names, own types)
macro_rules! conv {
    ($m:ident) => {
        pub mod $m {
            use super::rt;
            use crate::$m as x;
            pub fn carrier(c: rt::Carrier) -> x::Carrier { by_name!(c, x::Carrier, [EAMBIENTE, BIOCARBURANTE, BIOMASA, BIOMASADENSIFICADA, CARBON, ELECTRICIDAD, GASNATURAL, GASOLEO, GLP, RED1, RED2, TERMOSOLAR]) }
            pub fn service(c: rt::Service) -> x::Service { by_name!(c, x::Service, [ACS, CAL, REF, VEN, ILU, NEPB, COGEN]) }
            pub fn psource(c: rt::ProdSource) -> x::ProdSource { by_name!(c, x::ProdSource, [EL_INSITU, EL_COGEN, TERMOSOLAR, EAMBIENTE]) }
            pub fn source(c: rt::Source) -> x::Source { by_name!(c, x::Source, [RED, INSITU, COGEN]) }
            pub fn dest(c: rt::Dest) -> x::Dest { by_name!(c, x::Dest, [SUMINISTRO, A_RED, A_NEPB]) }
            pub fn step(c: rt::Step) -> x::Step { by_name!(c, x::Step, [A, B]) }
            pub fn meta(m: &[rt::Meta]) -> Vec<x::Meta> { m.iter().map(|m| x::Meta { key: m.key.clone(), value: m.value.clone() }).collect() }
            pub fn energy(e: &rt::Energy) -> x::Energy {
                match e {
                    rt::Energy::Used(u) => x::Energy::Used(x::EUsed { id: u.id, carrier: carrier(u.carrier), service: service(u.service), values: u.values.clone(), comment: u.comment.clone() }),
                    rt::Energy::Prod(u) => x::Energy::Prod(x::EProd { id: u.id, source: psource(u.source), values: u.values.clone(), comment: u.comment.clone() }),
                    rt::Energy::Aux(u) => x::Energy::Aux(x::EAux { id: u.id, service: service(u.service), values: u.values.clone(), comment: u.comment.clone() }),
                    rt::Energy::Out(u) => x::Energy::Out(x::EOut { id: u.id, service: service(u.service), values: u.values.clone(), comment: u.comment.clone() }),
                }
            }
            pub fn components(c: &cteepbd::Components) -> x::Components {
                x::Components { meta: meta(&c.meta), data: c.data.iter().map(energy).collect(), needs: x::BuildingNeeds { ACS: c.needs.ACS.clone(), CAL: c.needs.CAL.clone(), REF: c.needs.REF.clone() } }
            }
            pub fn r3(r: rt::RenNrenCo2) -> x::RenNrenCo2 { x::RenNrenCo2 { ren: r.ren, nren: r.nren, co2: r.co2 } }
            pub fn factors(w: &cteepbd::Factors) -> x::Factors {
                x::Factors { wmeta: meta(&w.wmeta), wdata: w.wdata.iter().map(|f| x::Factor { carrier: carrier(f.carrier), source: source(f.source), dest: dest(f.dest), step: step(f.step), ren: f.ren, nren: f.nren, co2: f.co2, comment: f.comment.clone() }).collect() }
            }
        }
    };
}
mod cv {
    use super::*;
    conv!(x_agg);
    conv!(x_components);
    conv!(x_factors);
}

/// canonical list of the components of a list (order-free: the appended ones follow hash iteration order)
macro_rules! data_sig {
    ($data:expr) => {{
        let mut v: Vec<String> = $data.iter().map(|e| format!("{:?}", e)).map(|s| {
            // drop the free-text comment
            match s.find("comment:") { Some(i) => s[..i].to_string(), None => s }
        }).collect();
        v.sort();
        v
    }};
}
macro_rules! factors_sig {
    ($w:expr) => {{
        $w.wdata.iter().map(|f| format!("{:?},{:?},{:?},{:?},{:08x},{:08x},{:08x}", f.carrier, f.source, f.dest, f.step, f.ren.to_bits(), f.nren.to_bits(), f.co2.to_bits())).collect::<Vec<String>>()
    }};
}
macro_rules! r3_push {
    ($v:expr, $name:expr, $r:expr) => {{ $v.push((format!("{}.ren", $name), $r.ren)); $v.push((format!("{}.nren", $name), $r.nren)); $v.push((format!("{}.co2", $name), $r.co2)); }};
}
/// every number of an EnergyPerformance, keyed by its path (maps by the Debug name of the key)
macro_rules! ep_sig {
    ($ep:expr) => {{
        let ep = &$ep;
        let mut v: Vec<(String, f32)> = vec![];
        v.push(("rer".into(), ep.rer)); v.push(("rer_nrb".into(), ep.rer_nrb)); v.push(("rer_onst".into(), ep.rer_onst));
        for (tag, b) in [("balance", &ep.balance), ("balance_m2", &ep.balance_m2)] {
            v.push((format!("{}.used.epus", tag), b.used.epus)); v.push((format!("{}.used.nepus", tag), b.used.nepus)); v.push((format!("{}.used.cgnus", tag), b.used.cgnus));
            for (k, x) in &b.used.epus_by_srv { v.push((format!("{}.used.epus_by_srv.{:?}", tag, k), *x)); }
            for (k, x) in &b.used.epus_by_cr { v.push((format!("{}.used.epus_by_cr.{:?}", tag, k), *x)); }
            for (k, m) in &b.used.epus_by_cr_by_srv { for (k2, x) in m { v.push((format!("{}.used.epus_by_cr_by_srv.{:?}.{:?}", tag, k, k2), *x)); } }
            v.push((format!("{}.prod.an", tag), b.prod.an));
            for (k, x) in &b.prod.by_cr { v.push((format!("{}.prod.by_cr.{:?}", tag, k), *x)); }
            for (k, x) in &b.prod.by_src { v.push((format!("{}.prod.by_src.{:?}", tag, k), *x)); }
            for (k, x) in &b.prod.epus_by_src { v.push((format!("{}.prod.epus_by_src.{:?}", tag, k), *x)); }
            for (k, m) in &b.prod.epus_by_srv_by_src { for (k2, x) in m { v.push((format!("{}.prod.epus_by_srv_by_src.{:?}.{:?}", tag, k, k2), *x)); } }
            v.push((format!("{}.del.an", tag), b.del.an)); v.push((format!("{}.del.onst", tag), b.del.onst)); v.push((format!("{}.del.grid", tag), b.del.grid));
            for (k, x) in &b.del.grid_by_cr { v.push((format!("{}.del.grid_by_cr.{:?}", tag, k), *x)); }
            v.push((format!("{}.exp.an", tag), b.exp.an)); v.push((format!("{}.exp.grid", tag), b.exp.grid)); v.push((format!("{}.exp.nepus", tag), b.exp.nepus));
            r3_push!(v, format!("{}.we.a", tag), b.we.a); r3_push!(v, format!("{}.we.b", tag), b.we.b); r3_push!(v, format!("{}.we.del", tag), b.we.del);
            r3_push!(v, format!("{}.we.exp_a", tag), b.we.exp_a); r3_push!(v, format!("{}.we.exp", tag), b.we.exp);
            for (k, x) in &b.we.a_by_srv { r3_push!(v, format!("{}.we.a_by_srv.{:?}", tag, k), x); }
            for (k, x) in &b.we.b_by_srv { r3_push!(v, format!("{}.we.b_by_srv.{:?}", tag, k), x); }
            if let Some(x) = b.needs.ACS { v.push((format!("{}.needs.ACS", tag), x)); }
            if let Some(x) = b.needs.CAL { v.push((format!("{}.needs.CAL", tag), x)); }
            if let Some(x) = b.needs.REF { v.push((format!("{}.needs.REF", tag), x)); }
        }
        for (c, b) in &ep.balance_cr {
            let c = format!("cr.{:?}", c);
            for (i, x) in b.f_match.iter().enumerate() { v.push((format!("{}.f_match.{}", c, i), *x)); }
            v.push((format!("{}.used.epus_an", c), b.used.epus_an)); v.push((format!("{}.used.nepus_an", c), b.used.nepus_an)); v.push((format!("{}.used.cgnus_an", c), b.used.cgnus_an));
            for (i, x) in b.used.epus_t.iter().enumerate() { v.push((format!("{}.used.epus_t.{}", c, i), *x)); }
            for (k, x) in &b.used.epus_by_srv_an { v.push((format!("{}.used.epus_by_srv_an.{:?}", c, k), *x)); }
            v.push((format!("{}.prod.an", c), b.prod.an)); v.push((format!("{}.prod.epus_an", c), b.prod.epus_an));
            for (i, x) in b.prod.epus_t.iter().enumerate() { v.push((format!("{}.prod.epus_t.{}", c, i), *x)); }
            for (k, x) in &b.prod.by_src_an { v.push((format!("{}.prod.by_src_an.{:?}", c, k), *x)); }
            for (k, x) in &b.prod.epus_by_src_an { v.push((format!("{}.prod.epus_by_src_an.{:?}", c, k), *x)); }
            for (k, m) in &b.prod.epus_by_srv_by_src_an { for (k2, x) in m { v.push((format!("{}.prod.epus_by_srv_by_src_an.{:?}.{:?}", c, k, k2), *x)); } }
            v.push((format!("{}.exp.an", c), b.exp.an)); v.push((format!("{}.exp.grid_an", c), b.exp.grid_an)); v.push((format!("{}.exp.nepus_an", c), b.exp.nepus_an));
            for (i, x) in b.exp.t.iter().enumerate() { v.push((format!("{}.exp.t.{}", c, i), *x)); }
            for (k, x) in &b.exp.by_src_an { v.push((format!("{}.exp.by_src_an.{:?}", c, k), *x)); }
            v.push((format!("{}.del.an", c), b.del.an)); v.push((format!("{}.del.grid_an", c), b.del.grid_an)); v.push((format!("{}.del.onst_an", c), b.del.onst_an)); v.push((format!("{}.del.cgn_an", c), b.del.cgn_an));
            for (i, x) in b.del.grid_t.iter().enumerate() { v.push((format!("{}.del.grid_t.{}", c, i), *x)); }
            r3_push!(v, format!("{}.we.a", c), b.we.a); r3_push!(v, format!("{}.we.b", c), b.we.b); r3_push!(v, format!("{}.we.del", c), b.we.del);
            r3_push!(v, format!("{}.we.del_grid", c), b.we.del_grid); r3_push!(v, format!("{}.we.del_onst", c), b.we.del_onst); r3_push!(v, format!("{}.we.del_cgn", c), b.we.del_cgn);
            r3_push!(v, format!("{}.we.exp", c), b.we.exp); r3_push!(v, format!("{}.we.exp_a", c), b.we.exp_a); r3_push!(v, format!("{}.we.exp_nepus_a", c), b.we.exp_nepus_a);
            for (k, x) in &b.we.a_by_srv { r3_push!(v, format!("{}.we.a_by_srv.{:?}", c, k), x); }
            for (k, x) in &b.we.b_by_srv { r3_push!(v, format!("{}.we.b_by_srv.{:?}", c, k), x); }
        }
        v.sort_by(|a, b| a.0.cmp(&b.0));
        v
    }};
}
fn close(a: f32, b: f32) -> bool {
    // both sides sum over hash maps in their own random order: equal up to the rounding of reordered additions
    a.to_bits() == b.to_bits() || (a - b).abs() <= 2e-5 * a.abs().max(b.abs()).max(1.0) || (a.is_nan() && b.is_nan())
}
fn cmp_sig(a: &[(String, f32)], b: &[(String, f32)]) -> Option<String> {
    if a.len() != b.len() { return Some(format!("{} numbers in the real result, {} in the rewritten one", a.len(), b.len())); }
    for (x, y) in a.iter().zip(b) {
        if x.0 != y.0 { return Some(format!("key {} vs {}", x.0, y.0)); }
        if !close(x.1, y.1) { return Some(format!("{} = {} (real) vs {} (rewritten)", x.0, x.1, y.1)); }
    }
    None
}

/// parse without normalizing (the real FromStr normalizes at the end): the same line classification, lines the real parser rejects are skipped
fn raw_components(text: &str) -> Option<cteepbd::Components> {
    let normalized: cteepbd::Components = text.parse().ok()?; // only files the real parser accepts (equal lengths etc.)
    let mut data = vec![];
    for line in text.trim_start_matches('\u{feff}').lines().map(str::trim) {
        if line.starts_with('#') || line.starts_with("vector,") || line.is_empty() { continue; }
        let tags: Vec<&str> = line.splitn(3, ',').map(str::trim).take(2).collect();
        let has = |t: &str| tags.iter().any(|x| *x == t);
        if has("CONSUMO") { data.push(rt::Energy::Used(line.parse().ok()?)); }
        else if has("PRODUCCION") { data.push(rt::Energy::Prod(line.parse().ok()?)); }
        else if has("AUX") { data.push(rt::Energy::Aux(line.parse().ok()?)); }
        else if has("SALIDA") { data.push(rt::Energy::Out(line.parse().ok()?)); }
    }
    Some(cteepbd::Components { meta: normalized.meta.clone(), data, needs: normalized.needs.clone() })
}

fn component_texts() -> Vec<String> {
    let mut v: Vec<String> = vec![];
    if let Ok(rd) = std::fs::read_dir(concat!(env!("XCHECK_REPO"), "/test_data")) {
        let mut ps: Vec<_> = rd.filter_map(|e| e.ok()).map(|e| e.path()).filter(|p| p.extension().map(|x| x == "csv").unwrap_or(false)).collect();
        ps.sort();
        for p in ps { if let Ok(t) = std::fs::read_to_string(&p) { if !t.contains("SUMINISTRO") { v.push(t); } } }
    }
    // completion / auxiliary assignment shapes (the domains of the bounded C05 / C06 predicates, abridged) and special buildings
    let uses: [&[f32]; 3] = [&[0.0, 0.0], &[2.0, 2.0], &[3.0, 1.0]];
    let prods: [Option<&[f32]>; 4] = [None, Some(&[1.0, 1.0]), Some(&[5.0, 5.0]), Some(&[0.0, 4.0])];
    let f = |x: &[f32]| x.iter().map(|v| v.to_string()).collect::<Vec<_>>().join(",");
    for carrier in ["EAMBIENTE", "TERMOSOLAR"] {
        for u0 in uses { for p0 in prods { for u1 in uses { for p1 in prods {
            let mut l = vec![format!("1,CONSUMO,CAL,{},{}", carrier, f(u0)), format!("-1,CONSUMO,ACS,{},{}", carrier, f(u1)), "2,CONSUMO,ILU,ELECTRICIDAD,1,1".to_string(), format!("1,CONSUMO,ACS,{},{}", carrier, f(u1))];
            if let Some(p) = p0 { l.push(format!("1,PRODUCCION,{},{}", carrier, f(p))); }
            if let Some(p) = p1 { l.push(format!("-1,PRODUCCION,{},{}", carrier, f(p))); l.push(format!("0,PRODUCCION,{},{}", carrier, f(p))); }
            v.push(l.join("\n"));
        } } } }
    }
    let outs: [&[f32]; 5] = [&[30.0, 30.0], &[10.0, 0.0], &[-10.0, -10.0], &[0.0, 20.0], &[0.0, 0.0]];
    let auxs: [&[f32]; 3] = [&[4.0, 4.0], &[4.0, 2.0], &[0.0, 3.0]];
    let srv_sets: [&[&str]; 4] = [&["CAL"], &["CAL", "ACS"], &["CAL", "REF"], &["CAL", "ACS", "REF"]];
    for srvs in srv_sets { for (oi, _) in outs.iter().enumerate() { for aux in auxs { for sys2 in [false, true] {
        let mut l = vec![];
        for (si, s) in srvs.iter().enumerate() {
            l.push(format!("1,CONSUMO,{},ELECTRICIDAD,10,10", s));
            l.push(format!("1,SALIDA,{},{}", s, f(outs[(oi + si) % outs.len()])));
        }
        l.push(format!("1,AUX,{}", f(aux)));
        if sys2 { l.push("2,CONSUMO,CAL,GASNATURAL,50,50".into()); l.push("2,AUX,5,5".into()); l.push("3,CONSUMO,COGEN,GASNATURAL,9,9".into()); l.push("3,PRODUCCION,EL_COGEN,3,3".into()); l.push("3,AUX,1,1".into()); }
        v.push(l.join("\n"));
    } } } }
    for t in [
        "1,CONSUMO,CAL,ELECTRICIDAD,5\n2,PRODUCCION,EL_COGEN,20\n2,CONSUMO,COGEN,GASNATURAL,50\n3,PRODUCCION,EL_COGEN,10\n3,CONSUMO,COGEN,BIOMASA,30\n4,CONSUMO,ACS,BIOMASA,12",
        "1,CONSUMO,CAL,ELECTRICIDAD,5,40\n2,PRODUCCION,EL_COGEN,20,10\n2,CONSUMO,COGEN,GASNATURAL,50,25\n3,PRODUCCION,EL_COGEN,10,10\n3,CONSUMO,COGEN,GASNATURAL,30,30\n4,PRODUCCION,EL_INSITU,3,0\n5,CONSUMO,ACS,EAMBIENTE,6,6",
        "1,CONSUMO,ILU,ELECTRICIDAD,10,10\n1,PRODUCCION,EL_INSITU,15,40\n1,CONSUMO,NEPB,ELECTRICIDAD,20,5\n2,CONSUMO,CAL,RED1,30,30\nDEMANDA,ACS,10,10",
        "1,CONSUMO,CAL,RED1,40\n1,CONSUMO,REF,RED2,10\n2,CONSUMO,ACS,TERMOSOLAR,7\n2,PRODUCCION,TERMOSOLAR,12\n3,CONSUMO,VEN,ELECTRICIDAD,4",
        "CONSUMO,ILU,ELECTRICIDAD,10,10,2\nCONSUMO,COGEN,GASNATURAL,0,40,80\nPRODUCCION,EL_COGEN,0,10,20\nPRODUCCION,EL_INSITU,6,1,0\nCONSUMO,NEPB,ELECTRICIDAD,1,1,1",
        "1,CONSUMO,COGEN,GASNATURAL,100\n1,PRODUCCION,EL_COGEN,30\n1,AUX,5\n2,PRODUCCION,EL_INSITU,50\n3,CONSUMO,ILU,ELECTRICIDAD,10",
        "1,AUX,5,5\n1,CONSUMO,CAL,GASNATURAL,1,1",
    ] { v.push(t.to_string()); }
    v
}
fn factor_texts() -> Vec<String> {
    let mut v = vec![];
    for f in ["factores_paso_PENINSULA_20140203.csv", "factores_paso_test.csv"] {
        if let Ok(t) = std::fs::read_to_string(format!("{}/test_data/{}", env!("XCHECK_REPO"), f)) { v.push(t); }
    }
    let lines = [
        "ELECTRICIDAD, RED, SUMINISTRO, A, 0.414, 1.954, 0.331", "ELECTRICIDAD, INSITU, SUMINISTRO, A, 0.9, 0.1, 0.0", "ELECTRICIDAD, INSITU, A_RED, A, 0.8, 0.2, 0.1",
        "ELECTRICIDAD, INSITU, A_NEPB, B, 0.5, 2.0, 0.3", "ELECTRICIDAD, COGEN, A_RED, A, 0.0, 2.5, 0.3", "ELECTRICIDAD, COGEN, A_RED, B, 0.5, 2.0, 0.3", "GASNATURAL, RED, SUMINISTRO, A, 0.005, 1.190, 0.252",
        "BIOMASA, RED, SUMINISTRO, A, 1.003, 0.034, 0.018", "EAMBIENTE, INSITU, SUMINISTRO, A, 0.7, 0.3, 0.1", "EAMBIENTE, RED, SUMINISTRO, A, 1.0, 0.0, 0.0", "TERMOSOLAR, INSITU, A_RED, B, 0.0, 1.0, 0.2",
        "RED1, RED, SUMINISTRO, A, 0.2, 1.1, 0.3", "RED2, RED, SUMINISTRO, B, 0.0, 1.3, 0.3", "GASOLEO, INSITU, SUMINISTRO, A, 1.0, 0.0, 0.0", "ELECTRICIDAD, RED, SUMINISTRO, A, 0.1, 0.2, 0.3",
    ];
    for mask in 1u32..(1 << lines.len()) {
        if mask % 37 != 1 && mask.count_ones() > 2 { continue; }
        v.push(lines.iter().enumerate().filter(|(i, _)| mask & (1 << i) != 0).map(|(_, l)| *l).collect::<Vec<_>>().join("\n"));
    }
    v
}

fn main() {
    let mut runs = 0usize;
    let mut mism: Vec<serde_json::Value> = vec![];
    let mut note = |mism: &mut Vec<serde_json::Value>, what: &str, input: &str, detail: String| { if mism.len() < 8 { mism.push(json!({"function": what, "input": input, "detail": detail})); } };
    let comps = component_texts();
    let userwf = cteepbd::UserWF { red1: cteepbd::cte::CTE_USERWF.red1, red2: cteepbd::cte::CTE_USERWF.red2 };
    // ---- components: normalize, available_carriers
    let mut n_norm = 0;
    for t in &comps {
        let raw = match raw_components(t) { Some(c) => c, None => continue };
        runs += 1;
        let xr = cv::x_components::components(&raw).normalize();
        let rr = raw.clone().normalize();
        match (&rr, &xr) {
            (Ok(a), Ok(b)) => {
                n_norm += 1;
                if data_sig!(a.data) != data_sig!(b.data) { note(&mut mism, "Components::normalize", t, format!("real {:?}\nrewritten {:?}", data_sig!(a.data), data_sig!(b.data))); }
                let ids_a: Vec<i32> = a.data.iter().map(|e| e.id()).collect();
                let ids_b: Vec<i32> = b.data.iter().map(|e| e.id()).collect();
                if ids_a != ids_b { note(&mut mism, "Components::normalize (order of ids)", t, format!("{:?} vs {:?}", ids_a, ids_b)); }
                let mut ca: Vec<String> = a.available_carriers().iter().map(|c| format!("{:?}", c)).collect(); ca.sort();
                let mut cb: Vec<String> = b.available_carriers().iter().map(|c| format!("{:?}", c)).collect(); cb.sort();
                if ca != cb { note(&mut mism, "Components::available_carriers", t, format!("{:?} vs {:?}", ca, cb)); }
            }
            (Err(_), Err(_)) => {}
            _ => note(&mut mism, "Components::normalize", t, format!("real is_ok = {}, rewritten is_ok = {}", rr.is_ok(), xr.is_ok())),
        }
    }
    // ---- factors: set_user_wfactors, normalize, strip
    let mut n_fac = 0;
    let parsed: Vec<cteepbd::Components> = comps.iter().filter_map(|t| t.parse().ok()).collect();
    for (fi, ft) in factor_texts().iter().enumerate() {
        // raw factor lines (the real FromStr for Factors does not normalize)
        let w0: cteepbd::Factors = match ft.parse() { Ok(w) => w, Err(_) => continue };
        for user in [cteepbd::UserWF { red1: None, red2: None }, cteepbd::UserWF { red1: Some(rt::RenNrenCo2 { ren: 0.3, nren: 0.9, co2: 0.2 }), red2: None }] {
            runs += 1;
            let xuser = x_factors::UserWF { red1: user.red1.map(cv::x_factors::r3), red2: user.red2.map(cv::x_factors::r3) };
            let xdef = x_factors::UserWF { red1: cv::x_factors::r3(userwf.red1), red2: cv::x_factors::r3(userwf.red2) };
            let a = w0.clone().set_user_wfactors(user).normalize(&userwf);
            let b = cv::x_factors::factors(&w0).set_user_wfactors(xuser).normalize(&xdef);
            match (a, b) {
                (Ok(a), Ok(b)) => {
                    n_fac += 1;
                    if factors_sig!(a) != factors_sig!(b) { note(&mut mism, "Factors::set_user_wfactors + normalize", ft, format!("real {:?}\nrewritten {:?}", factors_sig!(a), factors_sig!(b))); continue; }
                    for c in parsed.iter().skip(fi % 7).step_by(29) {
                        runs += 1;
                        let xc = cv::x_factors::components(c);
                        let (sa, sb) = (a.clone().strip(c), b.clone().strip(&xc));
                        if factors_sig!(sa) != factors_sig!(sb) { note(&mut mism, "Factors::strip", ft, format!("real {:?}\nrewritten {:?}", factors_sig!(sa), factors_sig!(sb))); }
                    }
                }
                (Err(_), Err(_)) => {}
                (a, b) => note(&mut mism, "Factors::normalize", ft, format!("real is_ok = {}, rewritten is_ok = {}", a.is_ok(), b.is_ok())),
            }
        }
    }
    // ---- agg: the whole pipeline
    let mut n_ep = 0;
    for loc in ["PENINSULA", "CANARIAS"] {
        let w = cteepbd::cte::wfactors_from_loc(loc, &cteepbd::cte::CTE_LOCWF_RITE2014, cteepbd::UserWF { red1: None, red2: None }, cteepbd::cte::CTE_USERWF).expect("regulatory factors");
        let xw = cv::x_agg::factors(&w);
        for (ci, c) in parsed.iter().enumerate() {
            if loc == "CANARIAS" && ci % 5 != 0 { continue; }
            let xc = cv::x_agg::components(c);
            for (k, area, lm) in [(0.0f32, 1.0f32, false), (0.5, 2.5, true), (1.0, 100.0, false)] {
                runs += 1;
                let a = cteepbd::energy_performance(c, &w, k, area, lm);
                let b = x_agg::energy_performance(&xc, &xw, k, area, lm);
                match (a, b) {
                    (Ok(a), Ok(b)) => { n_ep += 1; if let Some(d) = cmp_sig(&ep_sig!(a), &ep_sig!(b)) { note(&mut mism, "energy_performance", &comps[0][..0], format!("{} k_exp={} area={} load_matching={}: {}\n{}", loc, k, area, lm, d, c.data.iter().map(|e| e.to_string()).collect::<Vec<_>>().join("\n"))); } }
                    (Err(_), Err(_)) => {}
                    (a, b) => note(&mut mism, "energy_performance", "", format!("real is_ok = {}, rewritten is_ok = {}\n{}", a.is_ok(), b.is_ok(), c.data.iter().map(|e| e.to_string()).collect::<Vec<_>>().join("\n"))),
                }
            }
        }
    }
    println!("{}", json!({"runs": runs, "normalize_compared": n_norm, "factor_sets_compared": n_fac, "evaluations_compared": n_ep, "component_files": comps.len(), "mismatches": mism}));
}
