// ---- C10 at the level of the component list handed to energy_performance: the results depend on the classified sums only, so
// reordering the components, splitting a component into components with the same tags whose values add up, or merging such components
// changes nothing (system ids are irrelevant to the balance altogether: same_tags ignores them)
pub open spec fn psum(cs: Seq<Energy>, p: spec_fn(Energy) -> bool, i: int) -> real decreases cs.len() {
    if cs.len() == 0 { 0real } else { psum(cs.drop_last(), p, i) + (if p(cs.last()) { rv(e_vals(cs.last())[i]) } else { 0real }) }
}
pub open spec fn pany(cs: Seq<Energy>, p: spec_fn(Energy) -> bool) -> bool decreases cs.len() {
    if cs.len() == 0 { false } else { pany(cs.drop_last(), p) || p(cs.last()) }
}
pub open spec fn p_sel(k: Sel) -> spec_fn(Energy) -> bool { |e: Energy| sel(k, e) }
pub open spec fn p_selc(c: Carrier, k: Sel) -> spec_fn(Energy) -> bool { |e: Energy| e_has_carrier(e, c) && sel(k, e) }
pub open spec fn p_avail(c: Carrier) -> spec_fn(Energy) -> bool { |e: Energy| !(e is Out) && e_carrier(e) == c }
pub proof fn lemma_psum_remove(s: Seq<Energy>, j: int, p: spec_fn(Energy) -> bool, i: int)
    requires 0 <= j < s.len(),
    ensures psum(s, p, i) == psum(s.remove(j), p, i) + (if p(s[j]) { rv(e_vals(s[j])[i]) } else { 0real }),
            pany(s, p) == (pany(s.remove(j), p) || p(s[j])),
    decreases s.len(),
{
    if j == s.len() - 1 { assert(s.remove(j) =~= s.drop_last()); }
    else {
        assert(s.remove(j).drop_last() =~= s.drop_last().remove(j));
        assert(s.remove(j).last() == s.last());
        assert(s.drop_last()[j] == s[j]);
        lemma_psum_remove(s.drop_last(), j, p, i);
    }
}
/// a conditional sum over a component list does not depend on the order of the components
pub proof fn lemma_psum_perm(a: Seq<Energy>, b: Seq<Energy>, p: spec_fn(Energy) -> bool, i: int)
    requires a.to_multiset() == b.to_multiset(),
    ensures psum(a, p, i) == psum(b, p, i), pany(a, p) == pany(b, p),
    decreases a.len(),
{
    broadcast use vstd::seq_lib::group_to_multiset_ensures;
    assert(a.len() == b.len()) by { assert(a.to_multiset().len() == a.len() && b.to_multiset().len() == b.len()); }
    if a.len() > 0 {
        let x = a.last();
        assert(a.to_multiset().count(x) > 0) by { assert(a.contains(x)) by { assert(a[a.len() - 1] == x); } }
        assert(b.contains(x));
        let j = choose|j: int| 0 <= j < b.len() && b[j] == x;
        lemma_psum_remove(b, j, p, i);
        assert(a.drop_last().to_multiset() == b.remove(j).to_multiset()) by {
            assert(a.drop_last() =~= a.remove(a.len() - 1));
            vstd::seq_lib::to_multiset_remove(a, a.len() - 1);
            vstd::seq_lib::to_multiset_remove(b, j);
        }
        lemma_psum_perm(a.drop_last(), b.remove(j), p, i);
    }
}
pub proof fn lemma_acc_psum(cs: Seq<Energy>, k: Sel, i: int)
    ensures acc(cs, k, i) == psum(cs, p_sel(k), i), any_sel(cs, k) == pany(cs, p_sel(k)),
    decreases cs.len(),
{
    if cs.len() > 0 { lemma_acc_psum(cs.drop_last(), k, i); }
}
pub proof fn lemma_accf_psum(cs: Seq<Energy>, c: Carrier, k: Sel, i: int)
    ensures acc(filter_carrier(cs, c), k, i) == psum(cs, p_selc(c, k), i), any_sel(filter_carrier(cs, c), k) == pany(cs, p_selc(c, k)),
    decreases cs.len(),
{
    if cs.len() > 0 {
        lemma_accf_psum(cs.drop_last(), c, k, i);
        let f0 = filter_carrier(cs.drop_last(), c);
        if e_has_carrier(cs.last(), c) { assert(f0.push(cs.last()).drop_last() =~= f0); assert(f0.push(cs.last()).last() == cs.last()); }
    }
}
pub proof fn lemma_avail_pany(cs: Seq<Energy>, c: Carrier)
    ensures in_avail(cs, c) == pany(cs, p_avail(c)),
    decreases cs.len(),
{
    if cs.len() > 0 {
        let c0 = cs.drop_last();
        lemma_avail_pany(c0, c);
        if in_avail(cs, c) {
            let j = choose|j: int| 0 <= j < cs.len() && !((#[trigger] cs[j]) is Out) && e_carrier(cs[j]) == c;
            if j < cs.len() - 1 { assert(c0[j] == cs[j]); assert(in_avail(c0, c)); }
        }
        if in_avail(c0, c) { let j = choose|j: int| 0 <= j < c0.len() && !((#[trigger] c0[j]) is Out) && e_carrier(c0[j]) == c; assert(cs[j] == c0[j]); }
        if p_avail(c)(cs.last()) { assert(!(cs[cs.len() - 1] is Out) && e_carrier(cs[cs.len() - 1]) == c); }
    }
}
/// every element of a permuted list is an element of the original
pub proof fn lemma_perm_member(a: Seq<Energy>, b: Seq<Energy>, j: int)
    requires a.to_multiset() == b.to_multiset(), 0 <= j < b.len(),
    ensures exists|jj: int| 0 <= jj < a.len() && a[jj] == b[j],
{
    broadcast use vstd::seq_lib::group_to_multiset_ensures;
    assert(b.contains(b[j]));
    assert(b.to_multiset().count(b[j]) > 0);
    assert(a.contains(b[j]));
}
/// THE REORDERING LEMMA: a permutation of a well-formed component list inside the value domain satisfies the general hypothesis of the
/// entry-point theorems with the identity layout and factor 1
pub proof fn lemma_inputs_perm(cs: Seq<Energy>, cs2: Seq<Energy>)
    requires cs.to_multiset() == cs2.to_multiset(), comps_wf(cs), vals_dom(cs),
    ensures inputs_rel(cs, cs2, idx_ident(nsteps(cs) as int), 1real),
{
    broadcast use vstd::seq_lib::group_to_multiset_ensures;
    let n = nsteps(cs);
    let idx = idx_ident(n as int);
    assert(cs.len() == cs2.len()) by { assert(cs.to_multiset().len() == cs.len() && cs2.to_multiset().len() == cs2.len()); }
    assert forall|j: int| 0 <= j < cs2.len() implies e_vals(#[trigger] cs2[j]).len() == n by {
        lemma_perm_member(cs, cs2, j);
        let jj = choose|jj: int| 0 <= jj < cs.len() && cs[jj] == cs2[j];
        assert(e_vals(cs[jj]).len() == n);
    }
    assert(nsteps(cs2) == n) by { if cs2.len() > 0 { assert(e_vals(cs2[0]).len() == n); } }
    assert(comps_wf(cs2));
    assert forall|j: int, i: int| 0 <= j < cs2.len() && 0 <= i < e_vals(cs2[j]).len() implies rv(#[trigger] e_vals(cs2[j])[i]) == 0real || rv(e_vals(cs2[j])[i]) >= 1real / 100real by {
        lemma_perm_member(cs, cs2, j);
        let jj = choose|jj: int| 0 <= jj < cs.len() && cs[jj] == cs2[j];
        assert(rv(e_vals(cs[jj])[i]) == 0real || rv(e_vals(cs[jj])[i]) >= 1real / 100real);
    }
    assert forall|k: Sel| #[trigger] any_sel(cs2, k) == any_sel(cs, k) by { lemma_acc_psum(cs, k, 0); lemma_acc_psum(cs2, k, 0); lemma_psum_perm(cs, cs2, p_sel(k), 0); }
    assert forall|i2: int| 0 <= i2 < idx.len() implies #[trigger] acc_rel(cs, cs2, idx[i2], i2, 1real) by {
        assert(idx[i2] == i2);
        assert forall|k: Sel| #[trigger] acc(cs2, k, i2) == 1real * acc(cs, k, i2) by {
            lemma_acc_psum(cs, k, i2); lemma_acc_psum(cs2, k, i2); lemma_psum_perm(cs, cs2, p_sel(k), i2);
            assert(1real * acc(cs, k, i2) == acc(cs, k, i2)) by(nonlinear_arith);
        }
    }
    assert forall|c: Carrier| #[trigger] in_avail(cs2, c) == in_avail(cs, c) by { lemma_avail_pany(cs, c); lemma_avail_pany(cs2, c); lemma_psum_perm(cs, cs2, p_avail(c), 0); }
    assert forall|c: Carrier| in_avail(cs, c) implies #[trigger] carrier_rel(cs, cs2, c, idx, 1real) by {
        let fa = filter_carrier(cs, c); let fb = filter_carrier(cs2, c);
        assert forall|k: Sel| #[trigger] any_sel(fb, k) == any_sel(fa, k) by { lemma_accf_psum(cs, c, k, 0); lemma_accf_psum(cs2, c, k, 0); lemma_psum_perm(cs, cs2, p_selc(c, k), 0); }
        assert forall|i2: int| 0 <= i2 < idx.len() implies #[trigger] acc_rel(fa, fb, idx[i2], i2, 1real) by {
            assert(idx[i2] == i2);
            assert forall|k: Sel| #[trigger] acc(fb, k, i2) == 1real * acc(fa, k, i2) by {
                lemma_accf_psum(cs, c, k, i2); lemma_accf_psum(cs2, c, k, i2); lemma_psum_perm(cs, cs2, p_selc(c, k), i2);
                assert(1real * acc(fa, k, i2) == acc(fa, k, i2)) by(nonlinear_arith);
            }
        }
    }
    assert(idx.len() == n);
}
/// C10 (reordered components): the components handed to energy_performance in any other order: the evaluation succeeds as well and every
/// per-carrier, whole-building and ratio figure is the same
pub proof fn thm_c10_reordered(comps: Components, comps2: Components, w: Seq<Factor>, k_exp: f32, area: f32, lm: bool, r: Result<EnergyPerformance>, r2: Result<EnergyPerformance>)
    requires comps.data@.to_multiset() == comps2.data@.to_multiset(), comps_wf(comps.data@), vals_dom(comps.data@),
             ep_post(comps, w, k_exp, area, lm, r), ep_post(comps2, w, k_exp, area, lm, r2), r is Ok,
    ensures r2 is Ok, ep_rel(r->Ok_0, r2->Ok_0, idx_ident(nsteps(comps.data@) as int), 1real, 1real),
{
    let n = nsteps(comps.data@) as int;
    let idx = idx_ident(n);
    lemma_lay_same(n, 1real); lemma_lay_same_r(n, 1real);
    lemma_inputs_perm(comps.data@, comps2.data@);
    thm_ok_agree(comps, comps2, w, k_exp, area, area, lm, r, r2, idx, 1real, 1real);
    thm_ep(comps, comps2, w, k_exp, area, area, lm, r, r2, idx, 1real, 1real);
}

// ------------------------------------------------------------------------------------------------ a component split into two (or two merged)
pub proof fn lemma_psum_concat(a: Seq<Energy>, b: Seq<Energy>, p: spec_fn(Energy) -> bool, i: int)
    ensures psum(a + b, p, i) == psum(a, p, i) + psum(b, p, i), pany(a + b, p) == (pany(a, p) || pany(b, p)),
    decreases b.len(),
{
    if b.len() == 0 { assert(a + b =~= a); }
    else { assert((a + b).drop_last() =~= a + b.drop_last()); assert((a + b).last() == b.last()); lemma_psum_concat(a, b.drop_last(), p, i); }
}
/// p does not tell apart components with the same tags
pub open spec fn tag_pred(p: spec_fn(Energy) -> bool) -> bool { forall|a: Energy, b: Energy| same_tags(a, b) ==> #[trigger] p(a) == #[trigger] p(b) }
pub proof fn lemma_tag_preds(c: Carrier, k: Sel)
    ensures tag_pred(p_sel(k)), tag_pred(p_selc(c, k)), tag_pred(p_avail(c)),
{
    assert forall|a: Energy, b: Energy| same_tags(a, b) implies #[trigger] p_sel(k)(a) == #[trigger] p_sel(k)(b) by { lemma_same_tags_sel(a, b, k); }
    assert forall|a: Energy, b: Energy| same_tags(a, b) implies #[trigger] p_selc(c, k)(a) == #[trigger] p_selc(c, k)(b) by { lemma_same_tags_sel(a, b, k); }
    assert forall|a: Energy, b: Energy| same_tags(a, b) implies #[trigger] p_avail(c)(a) == #[trigger] p_avail(c)(b) by { lemma_same_tags_sel(a, b, k); }
}
/// x1 and x2 carry the tags of x and their values add up to those of x
pub open spec fn splits(x: Energy, x1: Energy, x2: Energy) -> bool {
    &&& same_tags(x, x1) && same_tags(x, x2) && e_vals(x1).len() == e_vals(x).len() && e_vals(x2).len() == e_vals(x).len()
    &&& forall|i: int| 0 <= i < e_vals(x).len() ==> rv(#[trigger] e_vals(x1)[i]) + rv(e_vals(x2)[i]) == rv(e_vals(x)[i])
}
pub proof fn lemma_psum_split(pre: Seq<Energy>, post: Seq<Energy>, x: Energy, x1: Energy, x2: Energy, p: spec_fn(Energy) -> bool, i: int)
    requires splits(x, x1, x2), tag_pred(p), 0 <= i < e_vals(x).len(),
    ensures psum(pre + seq![x1, x2] + post, p, i) == psum(pre + seq![x] + post, p, i), pany(pre + seq![x1, x2] + post, p) == pany(pre + seq![x] + post, p),
{
    let m1 = seq![x]; let m2 = seq![x1, x2];
    lemma_psum_concat(pre + m1, post, p, i); lemma_psum_concat(pre, m1, p, i);
    lemma_psum_concat(pre + m2, post, p, i); lemma_psum_concat(pre, m2, p, i);
    assert(p(x1) == p(x) && p(x2) == p(x));
    assert(m1.drop_last() =~= Seq::<Energy>::empty() && m1.last() == x);
    assert(m2.drop_last() =~= seq![x1] && m2.last() == x2);
    assert(seq![x1].drop_last() =~= Seq::<Energy>::empty() && seq![x1].last() == x1);
    assert(psum(Seq::<Energy>::empty(), p, i) == 0real && !pany(Seq::<Energy>::empty(), p));
    assert(psum(m1, p, i) == (if p(x) { rv(e_vals(x)[i]) } else { 0real }));
    assert(psum(seq![x1], p, i) == (if p(x1) { rv(e_vals(x1)[i]) } else { 0real }));
    assert(psum(m2, p, i) == psum(seq![x1], p, i) + (if p(x2) { rv(e_vals(x2)[i]) } else { 0real }));
    assert(rv(e_vals(x1)[i]) + rv(e_vals(x2)[i]) == rv(e_vals(x)[i]));
    assert(pany(m1, p) == (pany(m1.drop_last(), p) || p(m1.last())));
    assert(pany(seq![x1], p) == (pany(seq![x1].drop_last(), p) || p(seq![x1].last())));
    assert(pany(m2, p) == (pany(m2.drop_last(), p) || p(m2.last())));
    assert(pany(m1, p) == p(x) && pany(seq![x1], p) == p(x1) && pany(m2, p) == (p(x1) || p(x2)));
}
/// THE SPLITTING LEMMA: one component replaced by two with the same tags whose values add up (everything still inside the value domain)
pub proof fn lemma_inputs_split(pre: Seq<Energy>, post: Seq<Energy>, x: Energy, x1: Energy, x2: Energy)
    requires splits(x, x1, x2), comps_wf(pre + seq![x] + post), vals_dom(pre + seq![x] + post), vals_dom(seq![x1, x2]), nsteps(pre + seq![x] + post) > 0,
    ensures inputs_rel(pre + seq![x] + post, pre + seq![x1, x2] + post, idx_ident(nsteps(pre + seq![x] + post) as int), 1real),
{
    let cs = pre + seq![x] + post; let cs2 = pre + seq![x1, x2] + post;
    let n = nsteps(cs);
    let idx = idx_ident(n as int);
    let np = pre.len() as int;
    assert(cs[np] == x);
    assert(e_vals(x).len() == n);
    // shape of the second list
    assert forall|j: int| 0 <= j < cs2.len() implies e_vals(#[trigger] cs2[j]).len() == n by {
        if j < np { assert(cs2[j] == pre[j] && cs[j] == pre[j]); }
        else if j == np { assert(cs2[j] == x1); } else if j == np + 1 { assert(cs2[j] == x2); }
        else { assert(cs2[j] == post[j - np - 2] && cs[j - 1] == post[j - np - 2]); }
    }
    assert(nsteps(cs2) == n) by { assert(e_vals(cs2[0]).len() == n); }
    assert forall|j: int, i: int| 0 <= j < cs2.len() && 0 <= i < e_vals(cs2[j]).len() implies rv(#[trigger] e_vals(cs2[j])[i]) == 0real || rv(e_vals(cs2[j])[i]) >= 1real / 100real by {
        if j < np { assert(cs2[j] == pre[j] && cs[j] == pre[j]); }
        else if j == np { assert(cs2[j] == seq![x1, x2][0]); } else if j == np + 1 { assert(cs2[j] == seq![x1, x2][1]); }
        else { assert(cs2[j] == post[j - np - 2] && cs[j - 1] == post[j - np - 2]); }
    }
    assert forall|k: Sel| #[trigger] any_sel(cs2, k) == any_sel(cs, k) by {
        lemma_tag_preds(Carrier::ELECTRICIDAD, k); lemma_acc_psum(cs, k, 0); lemma_acc_psum(cs2, k, 0); lemma_psum_split(pre, post, x, x1, x2, p_sel(k), 0);
    }
    assert forall|i2: int| 0 <= i2 < idx.len() implies #[trigger] acc_rel(cs, cs2, idx[i2], i2, 1real) by {
        assert(idx[i2] == i2);
        assert forall|k: Sel| #[trigger] acc(cs2, k, i2) == 1real * acc(cs, k, i2) by {
            lemma_tag_preds(Carrier::ELECTRICIDAD, k); lemma_acc_psum(cs, k, i2); lemma_acc_psum(cs2, k, i2); lemma_psum_split(pre, post, x, x1, x2, p_sel(k), i2);
            assert(1real * acc(cs, k, i2) == acc(cs, k, i2)) by(nonlinear_arith);
        }
    }
    assert forall|c: Carrier| #[trigger] in_avail(cs2, c) == in_avail(cs, c) by {
        lemma_tag_preds(c, Sel::Epus); lemma_avail_pany(cs, c); lemma_avail_pany(cs2, c); lemma_psum_split(pre, post, x, x1, x2, p_avail(c), 0);
    }
    assert forall|c: Carrier| in_avail(cs, c) implies #[trigger] carrier_rel(cs, cs2, c, idx, 1real) by {
        let fa = filter_carrier(cs, c); let fb = filter_carrier(cs2, c);
        assert forall|k: Sel| #[trigger] any_sel(fb, k) == any_sel(fa, k) by {
            lemma_tag_preds(c, k); lemma_accf_psum(cs, c, k, 0); lemma_accf_psum(cs2, c, k, 0); lemma_psum_split(pre, post, x, x1, x2, p_selc(c, k), 0);
        }
        assert forall|i2: int| 0 <= i2 < idx.len() implies #[trigger] acc_rel(fa, fb, idx[i2], i2, 1real) by {
            assert(idx[i2] == i2);
            assert forall|k: Sel| #[trigger] acc(fb, k, i2) == 1real * acc(fa, k, i2) by {
                lemma_tag_preds(c, k); lemma_accf_psum(cs, c, k, i2); lemma_accf_psum(cs2, c, k, i2); lemma_psum_split(pre, post, x, x1, x2, p_selc(c, k), i2);
                assert(1real * acc(fa, k, i2) == acc(fa, k, i2)) by(nonlinear_arith);
            }
        }
    }
    assert(idx.len() == n);
}
/// C10 (split component): one component replaced by two with the same tags whose values add up: the evaluation succeeds as well and every
/// per-carrier, whole-building and ratio figure is the same
pub proof fn thm_c10_split(comps: Components, comps2: Components, pre: Seq<Energy>, post: Seq<Energy>, x: Energy, x1: Energy, x2: Energy,
                           w: Seq<Factor>, k_exp: f32, area: f32, lm: bool, r: Result<EnergyPerformance>, r2: Result<EnergyPerformance>)
    requires comps.data@ == pre + seq![x] + post, comps2.data@ == pre + seq![x1, x2] + post, splits(x, x1, x2),
             comps_wf(comps.data@), vals_dom(comps.data@), vals_dom(seq![x1, x2]), nsteps(comps.data@) > 0,
             ep_post(comps, w, k_exp, area, lm, r), ep_post(comps2, w, k_exp, area, lm, r2), r is Ok,
    ensures r2 is Ok, ep_rel(r->Ok_0, r2->Ok_0, idx_ident(nsteps(comps.data@) as int), 1real, 1real),
{
    let n = nsteps(comps.data@) as int;
    let idx = idx_ident(n);
    lemma_lay_same(n, 1real); lemma_lay_same_r(n, 1real);
    lemma_inputs_split(pre, post, x, x1, x2);
    thm_ok_agree(comps, comps2, w, k_exp, area, area, lm, r, r2, idx, 1real, 1real);
    thm_ep(comps, comps2, w, k_exp, area, area, lm, r, r2, idx, 1real, 1real);
}
