// ---- spec layer for balance_for_carrier / energy_performance (the public entry point)
/// the components of one carrier, in declaration order
pub open spec fn filter_carrier(cs: Seq<Energy>, c: Carrier) -> Seq<Energy> decreases cs.len() {
    if cs.len() == 0 { Seq::empty() } else { let r = filter_carrier(cs.drop_last(), c); if e_has_carrier(cs.last(), c) { r.push(cs.last()) } else { r } }
}
pub proof fn lemma_filter_carrier(cs: Seq<Energy>, c: Carrier, n: nat)
    requires wf_list(cs, n),
    ensures same_carrier(filter_carrier(cs, c), c), wf_list(filter_carrier(cs, c), n),
            in_avail(cs, c) ==> filter_carrier(cs, c).len() > 0,
    decreases cs.len(),
{
    if cs.len() > 0 {
        let c0 = cs.drop_last();
        assert forall|j: int| 0 <= j < c0.len() implies e_vals(#[trigger] c0[j]).len() == n by { assert(c0[j] == cs[j]); }
        lemma_filter_carrier(c0, c, n);
        assert(e_vals(cs[cs.len() - 1]).len() == n);
        if in_avail(cs, c) && !e_has_carrier(cs.last(), c) {
            let j = choose|j: int| 0 <= j < cs.len() && !((#[trigger] cs[j]) is Out) && e_carrier(cs[j]) == c;
            assert(j < cs.len() - 1);
            assert(c0[j] == cs[j]);
            assert(in_avail(c0, c));
        }
    }
}
/// what balance_for_carrier returns for carrier c: the three per-carrier functions chained
#[verifier::opaque]
pub open spec fn bfc_post(cs: Seq<Energy>, w: Seq<Factor>, c: Carrier, k: real, lm: bool, b: BalanceCarrier) -> bool {
    &&& b.carrier == c
    &&& cup_post(filter_carrier(cs, c), lm, b.used, b.prod, b.f_match@)
    &&& ced_post(b.used, b.prod, b.exp, b.del)
    &&& cwe_post(w, c, k, b.used, b.exp, b.del, Ok(b.we))
}
/// the flows of carrier c as the two flow functions are proved to compute them
pub open spec fn flows_ok(cs: Seq<Energy>, c: Carrier, lm: bool, used: UsedEnergy, prod: ProducedEnergy, fm: Seq<f32>, exp: ExportedEnergy, del: DeliveredEnergy) -> bool {
    cup_post(filter_carrier(cs, c), lm, used, prod, fm) && ced_post(used, prod, exp, del)
}
/// the derived cogeneration factors can be computed (exactly when add_cgn_factors succeeds)
pub open spec fn cgn_ok(w: Seq<Factor>, cs: Seq<Energy>) -> bool {
    !has_cgn_prod(cs) || (any_cgn_use(cs) && cgn_factors_ok(w, cs, false) && has_fp(w, Carrier::ELECTRICIDAD, Source::RED, Dest::SUMINISTRO, Step::A))
}
pub open spec fn rer_spec(b: R3) -> real { if b.ren + b.nren == 0real { 0real } else { b.ren / (b.ren + b.nren) } }
#[verifier::opaque]
pub open spec fn bal_add_all(o: Balance, f: Balance, r: BalanceCarrier) -> bool {
    bal_add_used(o, f, r) && bal_add_prod_del_exp(o, f, r) && bal_add_we(o, f, r) && bal_add_by_srv(o, f, r) && bal_add_by_src(o, f, r) && bal_add_by_cr(o, f, r) && f.needs == o.needs
}
/// the whole-building balance is the accumulation (by the contract of `Balance += &BalanceCarrier`) of the balance of every
/// carrier exactly once: `ord` enumerates the carriers without repetition, `hist` are the partial totals
pub open spec fn bal_chain(bcr: Map<Carrier, BalanceCarrier>, ord: Seq<Carrier>, hist: Seq<Balance>) -> bool {
    &&& hist.len() == ord.len() + 1
    &&& ord.no_duplicates()
    &&& (forall|c: Carrier| #[trigger] bcr.contains_key(c) <==> ord.contains(c))
    &&& (forall|j: int| 0 <= j < ord.len() ==> bal_add_all(#[trigger] hist[j], hist[j + 1], bcr[ord[j]]))
}
pub open spec fn bal_zero(b: Balance) -> bool {
    &&& rv(b.used.epus) == 0real && rv(b.used.nepus) == 0real && rv(b.used.cgnus) == 0real && rv(b.prod.an) == 0real
    &&& rv(b.del.an) == 0real && rv(b.del.onst) == 0real && rv(b.del.grid) == 0real && rv(b.exp.an) == 0real && rv(b.exp.nepus) == 0real && rv(b.exp.grid) == 0real
    &&& r3v(b.we.a) == r3z() && r3v(b.we.b) == r3z() && r3v(b.we.del) == r3z() && r3v(b.we.exp_a) == r3z() && r3v(b.we.exp) == r3z()
    &&& b.used.epus_by_srv@ =~= Map::empty() && b.used.epus_by_cr@ =~= Map::empty() && b.used.epus_by_cr_by_srv@ =~= Map::empty()
    &&& b.prod.by_cr@ =~= Map::empty() && b.prod.by_src@ =~= Map::empty() && b.prod.epus_by_src@ =~= Map::empty() && b.prod.epus_by_srv_by_src@ =~= Map::empty()
    &&& b.del.grid_by_cr@ =~= Map::empty() && b.we.a_by_srv@ =~= Map::empty() && b.we.b_by_srv@ =~= Map::empty()
}
pub open spec fn need_sum(n: Option<Vec<f32>>, s: Option<f32>) -> bool {
    match n { Some(v) => s is Some && rv(s->Some_0) == sumf(v@), None => s is None }
}
/// the starting point of the accumulation: everything zero / empty, building needs = annual sums of the declared demands
pub open spec fn bal_initial(b: Balance, c: Components) -> bool {
    bal_zero(b) && need_sum(c.needs.ACS, b.needs.ACS) && need_sum(c.needs.CAL, b.needs.CAL) && need_sum(c.needs.REF, b.needs.REF)
}
/// the factor set used in the evaluation: the given one plus the five derived cogeneration factors when there is cogenerated electricity
pub open spec fn cgn_added(o: Seq<Factor>, f: Seq<Factor>, cs: Seq<Energy>) -> bool {
    if !has_cgn_prod(cs) { f == o } else {
        let n = o.len() as int;
        let g = cgn_factor(o, cs, nsteps(cs) as int, false);
        let grid = fp(o, Carrier::ELECTRICIDAD, Source::RED, Dest::SUMINISTRO, Step::A);
        &&& f.len() == n + 5 && f.take(n) == o
        &&& fkey(f[n], Carrier::ELECTRICIDAD, Source::COGEN, Dest::SUMINISTRO, Step::A) && r3v(fvals(f[n])) == g
        &&& fkey(f[n + 1], Carrier::ELECTRICIDAD, Source::COGEN, Dest::A_NEPB, Step::A) && r3v(fvals(f[n + 1])) == g
        &&& fkey(f[n + 2], Carrier::ELECTRICIDAD, Source::COGEN, Dest::A_RED, Step::A) && r3v(fvals(f[n + 2])) == g
        &&& fkey(f[n + 3], Carrier::ELECTRICIDAD, Source::COGEN, Dest::A_NEPB, Step::B) && r3v(fvals(f[n + 3])) == grid
        &&& fkey(f[n + 4], Carrier::ELECTRICIDAD, Source::COGEN, Dest::A_RED, Step::B) && r3v(fvals(f[n + 4])) == grid
    }
}
/// C04: the whole-building balance is the sum, by the accumulation contract, of the per-carrier balances, each exactly once
pub open spec fn ep_totals_ok(bcr: Map<Carrier, BalanceCarrier>, c: Components, b: Balance) -> bool {
    exists|ord: Seq<Carrier>, hist: Seq<Balance>| #[trigger] bal_chain(bcr, ord, hist) && bal_initial(hist[0], c) && hist.last() == b
}
// ---- the on-site / nearby renewable parts (ren_onst_nrb, C13)
pub enum Perim { Onsite, Nearby }
pub open spec fn perim_term(bcr: Map<Carrier, BalanceCarrier>, p: Perim, c: Carrier) -> real {
    if bcr.contains_key(c) && (match p { Perim::Onsite => cr_is_onsite(c), Perim::Nearby => cr_is_nearby(c) }) { rv(bcr[c].we.b.ren) } else { 0real }
}
pub open spec fn perim_sum(bcr: Map<Carrier, BalanceCarrier>, p: Perim, l: Seq<Carrier>) -> real decreases l.len() {
    if l.len() == 0 { 0real } else { perim_sum(bcr, p, l.drop_last()) + perim_term(bcr, p, l.last()) }
}
pub open spec fn pperim_term(bcr: Map<Carrier, BalanceCarrier>, p: Perim, rem: Seq<(&Carrier, &BalanceCarrier)>, m: int, c: Carrier) -> real {
    if visited(rem, m, c) { perim_term(bcr, p, c) } else { 0real }
}
pub open spec fn pperim_sum(bcr: Map<Carrier, BalanceCarrier>, p: Perim, rem: Seq<(&Carrier, &BalanceCarrier)>, m: int, l: Seq<Carrier>) -> real decreases l.len() {
    if l.len() == 0 { 0real } else { pperim_sum(bcr, p, rem, m, l.drop_last()) + pperim_term(bcr, p, rem, m, l.last()) }
}
pub proof fn lemma_pperim_step(bcr: Map<Carrier, BalanceCarrier>, p: Perim, rem: Seq<(&Carrier, &BalanceCarrier)>, m: int, l: Seq<Carrier>, k: Carrier)
    requires l.no_duplicates(), !visited(rem, m, k), visited(rem, m + 1, k),
             forall|x: Carrier| x != k ==> #[trigger] visited(rem, m + 1, x) == visited(rem, m, x),
    ensures pperim_sum(bcr, p, rem, m + 1, l) == pperim_sum(bcr, p, rem, m, l) + (if l.contains(k) { perim_term(bcr, p, k) } else { 0real }),
    decreases l.len(),
{
    if l.len() > 0 {
        let l0 = l.drop_last();
        let x = l.last();
        assert(l0.no_duplicates()) by { assert forall|i: int, j: int| 0 <= i < l0.len() && 0 <= j < l0.len() && i != j implies l0[i] != l0[j] by { assert(l0[i] == l[i] && l0[j] == l[j]); } }
        lemma_pperim_step(bcr, p, rem, m, l0, k);
        if x == k {
            assert(!l0.contains(k)) by { if l0.contains(k) { let i = choose|i: int| 0 <= i < l0.len() && l0[i] == k; assert(l[i] == k && l[l.len() - 1] == k); } }
            assert(l.contains(k)) by { assert(l[l.len() - 1] == k); }
        } else {
            assert(l.contains(k) == l0.contains(k)) by {
                if l.contains(k) { let i = choose|i: int| 0 <= i < l.len() && l[i] == k; assert(i < l.len() - 1); assert(l0[i] == k); }
                if l0.contains(k) { let i = choose|i: int| 0 <= i < l0.len() && l0[i] == k; assert(l[i] == k); }
            }
        }
    }
}
pub proof fn lemma_pperim_none(bcr: Map<Carrier, BalanceCarrier>, p: Perim, rem: Seq<(&Carrier, &BalanceCarrier)>, l: Seq<Carrier>)
    ensures pperim_sum(bcr, p, rem, 0, l) == 0real,
    decreases l.len(),
{
    if l.len() > 0 { lemma_pperim_none(bcr, p, rem, l.drop_last()); }
}
pub proof fn lemma_pperim_full(bcr: Map<Carrier, BalanceCarrier>, p: Perim, rem: Seq<(&Carrier, &BalanceCarrier)>, m: int, l: Seq<Carrier>)
    ensures (forall|x: Carrier| bcr.contains_key(x) ==> #[trigger] visited(rem, m, x)) ==> pperim_sum(bcr, p, rem, m, l) == perim_sum(bcr, p, l),
    decreases l.len(),
{
    if l.len() > 0 { lemma_pperim_full(bcr, p, rem, m, l.drop_last()); }
}
/// renewable energy of the electricity balance that belongs to the perimeters
pub open spec fn el_ren(bcr: Map<Carrier, BalanceCarrier>, which: int) -> real {
    if bcr.contains_key(Carrier::ELECTRICIDAD) {
        let w = bcr[Carrier::ELECTRICIDAD].we;
        if which == 0 { rv(w.del_onst.ren) } else if which == 1 { rv(w.del_cgn.ren) } else { rv(w.exp_a.ren) }
    } else { 0real }
}
/// (on-site part, nearby part) as ren_onst_nrb documents them
pub open spec fn ren_parts(bcr: Map<Carrier, BalanceCarrier>, k: real) -> (real, real) {
    (perim_sum(bcr, Perim::Onsite, carriers12()) + el_ren(bcr, 0),
     perim_sum(bcr, Perim::Nearby, carriers12()) + el_ren(bcr, 0) + el_ren(bcr, 1) - (1real - k) * el_ren(bcr, 2))
}
pub proof fn lemma_perim_empty(bcr: Map<Carrier, BalanceCarrier>, p: Perim, l: Seq<Carrier>)
    ensures bcr.len() == 0 ==> perim_sum(bcr, p, l) == 0real,
    decreases l.len(),
{
    if bcr.len() == 0 {
        assert(bcr.dom().len() == 0);
        bcr.dom().lemma_len0_is_empty();
        assert forall|c: Carrier| !bcr.contains_key(c) by {}
        if l.len() > 0 { lemma_perim_empty(bcr, p, l.drop_last()); }
    }
}
