// ---- building-level relational theorems: the whole-building totals as order-free sums over the twelve carriers (C04), and how two
// evaluations whose per-carrier balances are related (thm_carrier) relate at building level (C11, C09, C10)

/// sum over the carrier list l of g(c) for the carriers of the set
pub open spec fn csum(dom: Set<Carrier>, g: spec_fn(Carrier) -> real, l: Seq<Carrier>) -> real decreases l.len() {
    if l.len() == 0 { 0real } else { csum(dom, g, l.drop_last()) + (if dom.contains(l.last()) { g(l.last()) } else { 0real }) }
}
pub proof fn lemma_csum_insert(dom: Set<Carrier>, g: spec_fn(Carrier) -> real, l: Seq<Carrier>, k: Carrier)
    requires l.no_duplicates(), !dom.contains(k),
    ensures csum(dom.insert(k), g, l) == csum(dom, g, l) + (if l.contains(k) { g(k) } else { 0real }),
    decreases l.len(),
{
    if l.len() > 0 {
        let l0 = l.drop_last(); let x = l.last();
        assert(l0.no_duplicates()) by { assert forall|i: int, j: int| 0 <= i < l0.len() && 0 <= j < l0.len() && i != j implies l0[i] != l0[j] by { assert(l0[i] == l[i] && l0[j] == l[j]); } }
        lemma_csum_insert(dom, g, l0, k);
        if x == k {
            assert(!l0.contains(k)) by { if l0.contains(k) { let i = choose|i: int| 0 <= i < l0.len() && l0[i] == k; assert(l[i] == k && l[l.len() - 1] == k); } }
            assert(l.contains(k)) by { assert(l[l.len() - 1] == k); }
        } else {
            assert(l.contains(k) == l0.contains(k)) by {
                if l.contains(k) { let i = choose|i: int| 0 <= i < l.len() && l[i] == k; assert(i < l.len() - 1); assert(l0[i] == k); }
                if l0.contains(k) { let i = choose|i: int| 0 <= i < l0.len() && l0[i] == k; assert(l[i] == k); }
            }
        }
    }
}
pub proof fn lemma_csum_empty(g: spec_fn(Carrier) -> real, l: Seq<Carrier>)
    ensures csum(Set::empty(), g, l) == 0real,
    decreases l.len(),
{
    if l.len() > 0 { lemma_csum_empty(g, l.drop_last()); }
}
pub proof fn lemma_csum_scale(dom: Set<Carrier>, g: spec_fn(Carrier) -> real, g2: spec_fn(Carrier) -> real, l: Seq<Carrier>, ct: real)
    requires forall|c: Carrier| dom.contains(c) ==> #[trigger] g2(c) == ct * g(c),
    ensures csum(dom, g2, l) == ct * csum(dom, g, l),
    decreases l.len(),
{
    lemma_mul0(ct);
    if l.len() > 0 {
        lemma_csum_scale(dom, g, g2, l.drop_last(), ct);
        let x = if dom.contains(l.last()) { g(l.last()) } else { 0real };
        lemma_dist2(ct, csum(dom, g, l.drop_last()), x);
    }
}
/// a quantity that every accumulation step increases by g(carrier) ends as  initial value + sum over the twelve carriers  -
/// whatever the order in which the carriers were visited (C04 in explicit form; C10: the hash order of the carrier set is irrelevant)
pub proof fn lemma_chain_sum(ord: Seq<Carrier>, vals: Seq<real>, g: spec_fn(Carrier) -> real, m: int)
    requires vals.len() == ord.len() + 1, ord.no_duplicates(), 0 <= m <= ord.len(),
             forall|j: int| 0 <= j < ord.len() ==> #[trigger] vals[j + 1] == vals[j] + g(ord[j]),
    ensures vals[m] == vals[0] + csum(ord.take(m).to_set(), g, carriers12()),
    decreases m,
{
    lemma_carriers12();
    if m == 0 {
        assert(ord.take(0).to_set() =~= Set::empty());
        lemma_csum_empty(g, carriers12());
    } else {
        lemma_chain_sum(ord, vals, g, m - 1);
        let t0 = ord.take(m - 1); let t1 = ord.take(m);
        let s0 = t0.to_set();
        let k = ord[m - 1];
        assert(!s0.contains(k)) by {
            if s0.contains(k) { let i = choose|i: int| 0 <= i < t0.len() && #[trigger] t0[i] == k; assert(ord[i] == k && ord[m - 1] == k); }
        }
        assert(t1.to_set() =~= s0.insert(k)) by {
            assert forall|x: Carrier| t1.to_set().contains(x) == s0.insert(k).contains(x) by {
                if t1.to_set().contains(x) {
                    let i = choose|i: int| 0 <= i < t1.len() && #[trigger] t1[i] == x;
                    if i < m - 1 { assert(t0[i] == x); }
                }
                if s0.contains(x) { let i = choose|i: int| 0 <= i < t0.len() && #[trigger] t0[i] == x; assert(t1[i] == x); }
                if x == k { assert(t1[m - 1] == k); }
            }
        }
        lemma_csum_insert(s0, g, carriers12(), k);
        assert(vals[(m - 1) + 1] == vals[m - 1] + g(ord[m - 1]));
    }
}
/// two accumulations over the same carrier set (in any two orders) whose increments are related by the factor ct and that start from zero
pub proof fn lemma_chain_pair(dom: Set<Carrier>, ord: Seq<Carrier>, vals: Seq<real>, g: spec_fn(Carrier) -> real,
                              ord2: Seq<Carrier>, vals2: Seq<real>, g2: spec_fn(Carrier) -> real, ct: real)
    requires vals.len() == ord.len() + 1, ord.no_duplicates(), forall|c: Carrier| dom.contains(c) <==> ord.contains(c),
             vals2.len() == ord2.len() + 1, ord2.no_duplicates(), forall|c: Carrier| dom.contains(c) <==> ord2.contains(c),
             forall|j: int| 0 <= j < ord.len() ==> #[trigger] vals[j + 1] == vals[j] + g(ord[j]),
             forall|j: int| 0 <= j < ord2.len() ==> #[trigger] vals2[j + 1] == vals2[j] + g2(ord2[j]),
             vals[0] == 0real, vals2[0] == 0real,
             forall|c: Carrier| dom.contains(c) ==> #[trigger] g2(c) == ct * g(c),
    ensures vals2.last() == ct * vals.last(), vals.last() == csum(dom, g, carriers12()),
{
    lemma_chain_sum(ord, vals, g, ord.len() as int);
    lemma_chain_sum(ord2, vals2, g2, ord2.len() as int);
    assert(ord.take(ord.len() as int) =~= ord);
    assert(ord2.take(ord2.len() as int) =~= ord2);
    assert(ord.to_set() =~= dom);
    assert(ord2.to_set() =~= dom);
    lemma_csum_scale(dom, g, g2, carriers12(), ct);
}
