// ---- building-level relational theorems: the whole-building totals as order-free sums over the twelve carriers (C04), and how two
// evaluations whose per-carrier balances are related (thm_carrier) relate at building level (C11, C09, C10)

/// sum over the carrier list l of g(c) for the carriers of the set
pub open spec fn csum(dom: Set<Carrier>, g: spec_fn(Carrier) -> real, l: Seq<Carrier>) -> real decreases l.len() {
    if l.len() == 0 { 0real } else { csum(dom, g, l.drop_last()) + (if dom.contains(l.last()) { g(l.last()) } else { 0real }) }
}
pub proof fn lemma_csum_insert(dom: Set<Carrier>, g: spec_fn(Carrier) -> real, l: Seq<Carrier>, k: Carrier)
    requires l.no_duplicates(), !dom.contains(k),
    ensures csum(dom.insert(k), g, l) == csum(dom, g, l) + (if l.contains(k) { g(k) } else { 0real }),
    decreases l.len(),
{
    if l.len() > 0 {
        let l0 = l.drop_last(); let x = l.last();
        assert(l0.no_duplicates()) by { assert forall|i: int, j: int| 0 <= i < l0.len() && 0 <= j < l0.len() && i != j implies l0[i] != l0[j] by { assert(l0[i] == l[i] && l0[j] == l[j]); } }
        lemma_csum_insert(dom, g, l0, k);
        if x == k {
            assert(!l0.contains(k)) by { if l0.contains(k) { let i = choose|i: int| 0 <= i < l0.len() && l0[i] == k; assert(l[i] == k && l[l.len() - 1] == k); } }
            assert(l.contains(k)) by { assert(l[l.len() - 1] == k); }
        } else {
            assert(l.contains(k) == l0.contains(k)) by {
                if l.contains(k) { let i = choose|i: int| 0 <= i < l.len() && l[i] == k; assert(i < l.len() - 1); assert(l0[i] == k); }
                if l0.contains(k) { let i = choose|i: int| 0 <= i < l0.len() && l0[i] == k; assert(l[i] == k); }
            }
        }
    }
}
pub proof fn lemma_csum_empty(g: spec_fn(Carrier) -> real, l: Seq<Carrier>)
    ensures csum(Set::empty(), g, l) == 0real,
    decreases l.len(),
{
    if l.len() > 0 { lemma_csum_empty(g, l.drop_last()); }
}
pub proof fn lemma_csum_scale(dom: Set<Carrier>, g: spec_fn(Carrier) -> real, g2: spec_fn(Carrier) -> real, l: Seq<Carrier>, ct: real)
    requires forall|c: Carrier| dom.contains(c) ==> #[trigger] g2(c) == ct * g(c),
    ensures csum(dom, g2, l) == ct * csum(dom, g, l),
    decreases l.len(),
{
    lemma_mul0(ct);
    if l.len() > 0 {
        lemma_csum_scale(dom, g, g2, l.drop_last(), ct);
        let x = if dom.contains(l.last()) { g(l.last()) } else { 0real };
        lemma_dist2(ct, csum(dom, g, l.drop_last()), x);
    }
}
/// a quantity that every accumulation step increases by g(carrier) ends as  initial value + sum over the twelve carriers  -
/// whatever the order in which the carriers were visited (C04 in explicit form; C10: the hash order of the carrier set is irrelevant)
pub proof fn lemma_chain_sum(ord: Seq<Carrier>, vals: Seq<real>, g: spec_fn(Carrier) -> real, m: int)
    requires vals.len() == ord.len() + 1, ord.no_duplicates(), 0 <= m <= ord.len(),
             forall|j: int| 0 <= j < ord.len() ==> #[trigger] vals[j + 1] == vals[j] + g(ord[j]),
    ensures vals[m] == vals[0] + csum(ord.take(m).to_set(), g, carriers12()),
    decreases m,
{
    lemma_carriers12();
    if m == 0 {
        assert(ord.take(0).to_set() =~= Set::empty());
        lemma_csum_empty(g, carriers12());
    } else {
        lemma_chain_sum(ord, vals, g, m - 1);
        let t0 = ord.take(m - 1); let t1 = ord.take(m);
        let s0 = t0.to_set();
        let k = ord[m - 1];
        assert(!s0.contains(k)) by {
            if s0.contains(k) { let i = choose|i: int| 0 <= i < t0.len() && #[trigger] t0[i] == k; assert(ord[i] == k && ord[m - 1] == k); }
        }
        assert(t1.to_set() =~= s0.insert(k)) by {
            assert forall|x: Carrier| t1.to_set().contains(x) == s0.insert(k).contains(x) by {
                if t1.to_set().contains(x) {
                    let i = choose|i: int| 0 <= i < t1.len() && #[trigger] t1[i] == x;
                    if i < m - 1 { assert(t0[i] == x); }
                }
                if s0.contains(x) { let i = choose|i: int| 0 <= i < t0.len() && #[trigger] t0[i] == x; assert(t1[i] == x); }
                if x == k { assert(t1[m - 1] == k); }
            }
        }
        lemma_csum_insert(s0, g, carriers12(), k);
        assert(vals[(m - 1) + 1] == vals[m - 1] + g(ord[m - 1]));
    }
}
/// two accumulations over the same carrier set (in any two orders) whose increments are related by the factor ct and that start from zero
pub proof fn lemma_chain_pair(dom: Set<Carrier>, ord: Seq<Carrier>, vals: Seq<real>, g: spec_fn(Carrier) -> real,
                              ord2: Seq<Carrier>, vals2: Seq<real>, g2: spec_fn(Carrier) -> real, ct: real)
    requires vals.len() == ord.len() + 1, ord.no_duplicates(), forall|c: Carrier| dom.contains(c) <==> ord.contains(c),
             vals2.len() == ord2.len() + 1, ord2.no_duplicates(), forall|c: Carrier| dom.contains(c) <==> ord2.contains(c),
             forall|j: int| 0 <= j < ord.len() ==> #[trigger] vals[j + 1] == vals[j] + g(ord[j]),
             forall|j: int| 0 <= j < ord2.len() ==> #[trigger] vals2[j + 1] == vals2[j] + g2(ord2[j]),
             vals[0] == 0real, vals2[0] == 0real,
             forall|c: Carrier| dom.contains(c) ==> #[trigger] g2(c) == ct * g(c),
    ensures vals2.last() == ct * vals.last(), vals.last() == csum(dom, g, carriers12()),
{
    lemma_chain_sum(ord, vals, g, ord.len() as int);
    lemma_chain_sum(ord2, vals2, g2, ord2.len() as int);
    assert(ord.take(ord.len() as int) =~= ord);
    assert(ord2.take(ord2.len() as int) =~= ord2);
    assert(ord.to_set() =~= dom);
    assert(ord2.to_set() =~= dom);
    lemma_csum_scale(dom, g, g2, carriers12(), ct);
}

// ------------------------------------------------------------------------------------------------ two whole-building balances
pub open spec fn run_of(b: BalanceCarrier) -> Run { Run { cs: Seq::empty(), used: b.used, prod: b.prod, fm: b.f_match@, exp: b.exp, del: b.del } }
/// the per-carrier balances of two evaluations: same carriers, every annual and weighted figure of the second ct times the first
pub open spec fn bcr_rel(bcr: Map<Carrier, BalanceCarrier>, bcr2: Map<Carrier, BalanceCarrier>, ct: real) -> bool {
    &&& bcr2.dom() =~= bcr.dom()
    &&& (forall|c: Carrier| bcr.contains_key(c) ==> (#[trigger] bcr[c]).carrier == c && bcr2[c].carrier == c
            && annual_rel(run_of(bcr[c]), run_of(bcr2[c]), ct) && we_rel(bcr[c].we, bcr2[c].we, ct)
            && bcr2[c].used.epus_by_srv_an@.dom() =~= bcr[c].used.epus_by_srv_an@.dom()
            && bcr[c].we.a_by_srv@.dom() =~= bcr[c].used.epus_by_srv_an@.dom() && bcr[c].we.b_by_srv@.dom() =~= bcr[c].used.epus_by_srv_an@.dom())
}
/// every whole-building figure of the second balance is ct times that of the first (maps: absent key = 0)
pub open spec fn bal_rel(x: Balance, y: Balance, ct: real) -> bool {
    &&& rv(y.used.epus) == ct * rv(x.used.epus) && rv(y.used.nepus) == ct * rv(x.used.nepus) && rv(y.used.cgnus) == ct * rv(x.used.cgnus)
    &&& rv(y.prod.an) == ct * rv(x.prod.an)
    &&& rv(y.del.an) == ct * rv(x.del.an) && rv(y.del.onst) == ct * rv(x.del.onst) && rv(y.del.grid) == ct * rv(x.del.grid)
    &&& rv(y.exp.an) == ct * rv(x.exp.an) && rv(y.exp.nepus) == ct * rv(x.exp.nepus) && rv(y.exp.grid) == ct * rv(x.exp.grid)
    &&& r3v(y.we.a) == r3s(ct, r3v(x.we.a)) && r3v(y.we.b) == r3s(ct, r3v(x.we.b)) && r3v(y.we.del) == r3s(ct, r3v(x.we.del))
    &&& r3v(y.we.exp_a) == r3s(ct, r3v(x.we.exp_a)) && r3v(y.we.exp) == r3s(ct, r3v(x.we.exp))
    &&& (forall|s: Service| #[trigger] mval(y.used.epus_by_srv@, s) == ct * mval(x.used.epus_by_srv@, s))
    &&& (forall|s: Service| #[trigger] mval3(y.we.a_by_srv@, s) == r3s(ct, mval3(x.we.a_by_srv@, s)))
    &&& (forall|s: Service| #[trigger] mval3(y.we.b_by_srv@, s) == r3s(ct, mval3(x.we.b_by_srv@, s)))
    &&& (forall|s: ProdSource| #[trigger] mval(y.prod.by_src@, s) == ct * mval(x.prod.by_src@, s))
    &&& (forall|s: ProdSource| #[trigger] mval(y.prod.epus_by_src@, s) == ct * mval(x.prod.epus_by_src@, s))
    &&& (forall|c: Carrier| #[trigger] mval(y.prod.by_cr@, c) == ct * mval(x.prod.by_cr@, c))
    &&& (forall|c: Carrier| #[trigger] mval(y.del.grid_by_cr@, c) == ct * mval(x.del.grid_by_cr@, c))
    &&& (forall|c: Carrier| #[trigger] mval(y.used.epus_by_cr@, c) == ct * mval(x.used.epus_by_cr@, c))
}
pub open spec fn hvals(hist: Seq<Balance>, val: spec_fn(Balance) -> real) -> Seq<real> { Seq::new(hist.len(), |j: int| val(hist[j])) }
/// one figure of the two balances: increments g per carrier, related by ct
pub proof fn lemma_field(bcr: Map<Carrier, BalanceCarrier>, bcr2: Map<Carrier, BalanceCarrier>, ord: Seq<Carrier>, hist: Seq<Balance>, ord2: Seq<Carrier>, hist2: Seq<Balance>,
                         val: spec_fn(Balance) -> real, g: spec_fn(BalanceCarrier) -> real, ct: real)
    requires
        hist.len() == ord.len() + 1, ord.no_duplicates(), forall|c: Carrier| bcr.contains_key(c) <==> ord.contains(c),
        hist2.len() == ord2.len() + 1, ord2.no_duplicates(), forall|c: Carrier| bcr2.contains_key(c) <==> ord2.contains(c),
        bcr2.dom() =~= bcr.dom(),
        forall|j: int| 0 <= j < ord.len() ==> val(#[trigger] hist[j + 1]) == val(hist[j]) + g(bcr[ord[j]]),
        forall|j: int| 0 <= j < ord2.len() ==> val(#[trigger] hist2[j + 1]) == val(hist2[j]) + g(bcr2[ord2[j]]),
        val(hist[0]) == 0real, val(hist2[0]) == 0real,
        forall|c: Carrier| bcr.contains_key(c) ==> g(#[trigger] bcr2[c]) == ct * g(bcr[c]),
    ensures val(hist2.last()) == ct * val(hist.last()),
            val(hist.last()) == csum(bcr.dom(), |c: Carrier| g(bcr[c]), carriers12()),
{
    let vals = hvals(hist, val); let vals2 = hvals(hist2, val);
    let gg = |c: Carrier| g(bcr[c]); let gg2 = |c: Carrier| g(bcr2[c]);
    assert forall|j: int| 0 <= j < ord.len() implies #[trigger] vals[j + 1] == vals[j] + gg(ord[j]) by { assert(val(hist[j + 1]) == val(hist[j]) + g(bcr[ord[j]])); }
    assert forall|j: int| 0 <= j < ord2.len() implies #[trigger] vals2[j + 1] == vals2[j] + gg2(ord2[j]) by { assert(val(hist2[j + 1]) == val(hist2[j]) + g(bcr2[ord2[j]])); }
    assert forall|c: Carrier| bcr.dom().contains(c) implies #[trigger] gg2(c) == ct * gg(c) by { assert(g(bcr2[c]) == ct * g(bcr[c])); }
    assert forall|c: Carrier| bcr.dom().contains(c) <==> ord2.contains(c) by { assert(bcr2.contains_key(c) == bcr.contains_key(c)); }
    lemma_chain_pair(bcr.dom(), ord, vals, gg, ord2, vals2, gg2, ct);
}

pub open spec fn chain_of(bcr: Map<Carrier, BalanceCarrier>, ord: Seq<Carrier>, hist: Seq<Balance>) -> bool {
    bal_chain(bcr, ord, hist) && bal_zero(hist[0])
}
pub open spec fn chain_basic(bcr: Map<Carrier, BalanceCarrier>, ord: Seq<Carrier>, hist: Seq<Balance>) -> bool {
    hist.len() == ord.len() + 1 && ord.no_duplicates() && (forall|c: Carrier| bcr.contains_key(c) <==> ord.contains(c)) && bal_zero(hist[0])
}
pub proof fn lemma_chain_scalars(bcr: Map<Carrier, BalanceCarrier>, ord: Seq<Carrier>, hist: Seq<Balance>)
    requires chain_of(bcr, ord, hist),
    ensures chain_basic(bcr, ord, hist),
            forall|j: int| 0 <= j < ord.len() ==> bcr.contains_key(ord[j]) && bal_add_used(#[trigger] hist[j], hist[j + 1], bcr[ord[j]])
                && bal_add_prod_del_exp(hist[j], hist[j + 1], bcr[ord[j]]) && bal_add_we(hist[j], hist[j + 1], bcr[ord[j]]),
{
    reveal(bal_add_all);
    assert forall|j: int| 0 <= j < ord.len() implies bcr.contains_key(ord[j]) && bal_add_used(#[trigger] hist[j], hist[j + 1], bcr[ord[j]])
                && bal_add_prod_del_exp(hist[j], hist[j + 1], bcr[ord[j]]) && bal_add_we(hist[j], hist[j + 1], bcr[ord[j]]) by {
        assert(bal_add_all(hist[j], hist[j + 1], bcr[ord[j]]));
        assert(ord.contains(ord[j]));
    }
}
pub proof fn lemma_chain_maps(bcr: Map<Carrier, BalanceCarrier>, ord: Seq<Carrier>, hist: Seq<Balance>)
    requires chain_of(bcr, ord, hist),
    ensures chain_basic(bcr, ord, hist),
            forall|j: int| 0 <= j < ord.len() ==> bcr.contains_key(ord[j]) && bal_add_by_srv(#[trigger] hist[j], hist[j + 1], bcr[ord[j]])
                && bal_add_by_src(hist[j], hist[j + 1], bcr[ord[j]]) && bal_add_by_cr(hist[j], hist[j + 1], bcr[ord[j]]),
{
    reveal(bal_add_all);
    assert forall|j: int| 0 <= j < ord.len() implies bcr.contains_key(ord[j]) && bal_add_by_srv(#[trigger] hist[j], hist[j + 1], bcr[ord[j]])
                && bal_add_by_src(hist[j], hist[j + 1], bcr[ord[j]]) && bal_add_by_cr(hist[j], hist[j + 1], bcr[ord[j]]) by {
        assert(bal_add_all(hist[j], hist[j + 1], bcr[ord[j]]));
        assert(ord.contains(ord[j]));
    }
}
pub open spec fn bal_rel_scalars(x: Balance, y: Balance, ct: real) -> bool {
    &&& rv(y.used.epus) == ct * rv(x.used.epus) && rv(y.used.nepus) == ct * rv(x.used.nepus) && rv(y.used.cgnus) == ct * rv(x.used.cgnus)
    &&& rv(y.prod.an) == ct * rv(x.prod.an)
    &&& rv(y.del.an) == ct * rv(x.del.an) && rv(y.del.onst) == ct * rv(x.del.onst) && rv(y.del.grid) == ct * rv(x.del.grid)
    &&& rv(y.exp.an) == ct * rv(x.exp.an) && rv(y.exp.nepus) == ct * rv(x.exp.nepus) && rv(y.exp.grid) == ct * rv(x.exp.grid)
}
pub open spec fn bal_rel_we(x: Balance, y: Balance, ct: real) -> bool {
    &&& r3v(y.we.a) == r3s(ct, r3v(x.we.a)) && r3v(y.we.b) == r3s(ct, r3v(x.we.b)) && r3v(y.we.del) == r3s(ct, r3v(x.we.del))
    &&& r3v(y.we.exp_a) == r3s(ct, r3v(x.we.exp_a)) && r3v(y.we.exp) == r3s(ct, r3v(x.we.exp))
}
/// only the flows of the per-carrier balances are related (the weighted figures may differ, e.g. through another k_exp)
pub open spec fn bcr_flows_rel(bcr: Map<Carrier, BalanceCarrier>, bcr2: Map<Carrier, BalanceCarrier>, ct: real) -> bool {
    bcr2.dom() =~= bcr.dom() && forall|c: Carrier| bcr.contains_key(c) ==> annual_rel(run_of(#[trigger] bcr[c]), run_of(bcr2[c]), ct)
}
#[verifier::spinoff_prover]
pub proof fn thm_building_scalars(bcr: Map<Carrier, BalanceCarrier>, bcr2: Map<Carrier, BalanceCarrier>, ord: Seq<Carrier>, hist: Seq<Balance>, ord2: Seq<Carrier>, hist2: Seq<Balance>, ct: real)
    requires ct > 0real, bcr_flows_rel(bcr, bcr2, ct), chain_of(bcr, ord, hist), chain_of(bcr2, ord2, hist2),
    ensures bal_rel_scalars(hist.last(), hist2.last(), ct),
{
    lemma_chain_scalars(bcr, ord, hist); lemma_chain_scalars(bcr2, ord2, hist2);
    assert forall|c: Carrier| bcr.contains_key(c) implies annual_rel(run_of(#[trigger] bcr[c]), run_of(bcr2[c]), ct) by {}
    lemma_field(bcr, bcr2, ord, hist, ord2, hist2, |b: Balance| rv(b.used.epus), |r: BalanceCarrier| rv(r.used.epus_an), ct);
    lemma_field(bcr, bcr2, ord, hist, ord2, hist2, |b: Balance| rv(b.used.nepus), |r: BalanceCarrier| rv(r.used.nepus_an), ct);
    lemma_field(bcr, bcr2, ord, hist, ord2, hist2, |b: Balance| rv(b.used.cgnus), |r: BalanceCarrier| rv(r.used.cgnus_an), ct);
    lemma_field(bcr, bcr2, ord, hist, ord2, hist2, |b: Balance| rv(b.prod.an), |r: BalanceCarrier| rv(r.prod.an), ct);
    lemma_field(bcr, bcr2, ord, hist, ord2, hist2, |b: Balance| rv(b.del.an), |r: BalanceCarrier| rv(r.del.an), ct);
    lemma_field(bcr, bcr2, ord, hist, ord2, hist2, |b: Balance| rv(b.del.onst), |r: BalanceCarrier| rv(r.del.onst_an), ct);
    lemma_field(bcr, bcr2, ord, hist, ord2, hist2, |b: Balance| rv(b.del.grid), |r: BalanceCarrier| rv(r.del.grid_an), ct);
    lemma_field(bcr, bcr2, ord, hist, ord2, hist2, |b: Balance| rv(b.exp.an), |r: BalanceCarrier| rv(r.exp.an), ct);
    lemma_field(bcr, bcr2, ord, hist, ord2, hist2, |b: Balance| rv(b.exp.nepus), |r: BalanceCarrier| rv(r.exp.nepus_an), ct);
    lemma_field(bcr, bcr2, ord, hist, ord2, hist2, |b: Balance| rv(b.exp.grid), |r: BalanceCarrier| rv(r.exp.grid_an), ct);
}
#[verifier::spinoff_prover]
pub proof fn thm_building_we(bcr: Map<Carrier, BalanceCarrier>, bcr2: Map<Carrier, BalanceCarrier>, ord: Seq<Carrier>, hist: Seq<Balance>, ord2: Seq<Carrier>, hist2: Seq<Balance>, ct: real)
    requires ct > 0real, bcr_rel(bcr, bcr2, ct), chain_of(bcr, ord, hist), chain_of(bcr2, ord2, hist2),
    ensures bal_rel_we(hist.last(), hist2.last(), ct),
{
    lemma_chain_scalars(bcr, ord, hist); lemma_chain_scalars(bcr2, ord2, hist2);
    assert forall|c: Carrier| bcr.contains_key(c) implies we_rel((#[trigger] bcr[c]).we, bcr2[c].we, ct) by {}
    lemma_field(bcr, bcr2, ord, hist, ord2, hist2, |b: Balance| rv(b.we.a.ren), |r: BalanceCarrier| rv(r.we.a.ren), ct);
    lemma_field(bcr, bcr2, ord, hist, ord2, hist2, |b: Balance| rv(b.we.a.nren), |r: BalanceCarrier| rv(r.we.a.nren), ct);
    lemma_field(bcr, bcr2, ord, hist, ord2, hist2, |b: Balance| rv(b.we.a.co2), |r: BalanceCarrier| rv(r.we.a.co2), ct);
    lemma_field(bcr, bcr2, ord, hist, ord2, hist2, |b: Balance| rv(b.we.b.ren), |r: BalanceCarrier| rv(r.we.b.ren), ct);
    lemma_field(bcr, bcr2, ord, hist, ord2, hist2, |b: Balance| rv(b.we.b.nren), |r: BalanceCarrier| rv(r.we.b.nren), ct);
    lemma_field(bcr, bcr2, ord, hist, ord2, hist2, |b: Balance| rv(b.we.b.co2), |r: BalanceCarrier| rv(r.we.b.co2), ct);
    lemma_field(bcr, bcr2, ord, hist, ord2, hist2, |b: Balance| rv(b.we.del.ren), |r: BalanceCarrier| rv(r.we.del.ren), ct);
    lemma_field(bcr, bcr2, ord, hist, ord2, hist2, |b: Balance| rv(b.we.del.nren), |r: BalanceCarrier| rv(r.we.del.nren), ct);
    lemma_field(bcr, bcr2, ord, hist, ord2, hist2, |b: Balance| rv(b.we.del.co2), |r: BalanceCarrier| rv(r.we.del.co2), ct);
    lemma_field(bcr, bcr2, ord, hist, ord2, hist2, |b: Balance| rv(b.we.exp_a.ren), |r: BalanceCarrier| rv(r.we.exp_a.ren), ct);
    lemma_field(bcr, bcr2, ord, hist, ord2, hist2, |b: Balance| rv(b.we.exp_a.nren), |r: BalanceCarrier| rv(r.we.exp_a.nren), ct);
    lemma_field(bcr, bcr2, ord, hist, ord2, hist2, |b: Balance| rv(b.we.exp_a.co2), |r: BalanceCarrier| rv(r.we.exp_a.co2), ct);
    lemma_field(bcr, bcr2, ord, hist, ord2, hist2, |b: Balance| rv(b.we.exp.ren), |r: BalanceCarrier| rv(r.we.exp.ren), ct);
    lemma_field(bcr, bcr2, ord, hist, ord2, hist2, |b: Balance| rv(b.we.exp.nren), |r: BalanceCarrier| rv(r.we.exp.nren), ct);
    lemma_field(bcr, bcr2, ord, hist, ord2, hist2, |b: Balance| rv(b.we.exp.co2), |r: BalanceCarrier| rv(r.we.exp.co2), ct);
}
pub open spec fn bal_rel_srv(x: Balance, y: Balance, ct: real) -> bool {
    &&& (forall|s: Service| #[trigger] mval(y.used.epus_by_srv@, s) == ct * mval(x.used.epus_by_srv@, s))
    &&& (forall|s: Service| #[trigger] mval3(y.we.a_by_srv@, s) == r3s(ct, mval3(x.we.a_by_srv@, s)))
    &&& (forall|s: Service| #[trigger] mval3(y.we.b_by_srv@, s) == r3s(ct, mval3(x.we.b_by_srv@, s)))
}
pub open spec fn bal_rel_src(x: Balance, y: Balance, ct: real) -> bool {
    &&& (forall|s: ProdSource| #[trigger] mval(y.prod.by_src@, s) == ct * mval(x.prod.by_src@, s))
    &&& (forall|s: ProdSource| #[trigger] mval(y.prod.epus_by_src@, s) == ct * mval(x.prod.epus_by_src@, s))
}
pub open spec fn bal_rel_cr(x: Balance, y: Balance, ct: real) -> bool {
    &&& (forall|c: Carrier| #[trigger] mval(y.prod.by_cr@, c) == ct * mval(x.prod.by_cr@, c))
    &&& (forall|c: Carrier| #[trigger] mval(y.del.grid_by_cr@, c) == ct * mval(x.del.grid_by_cr@, c))
    &&& (forall|c: Carrier| #[trigger] mval(y.used.epus_by_cr@, c) == ct * mval(x.used.epus_by_cr@, c))
}
/// map_acc in terms of "absent = 0" values
pub proof fn lemma_map_acc_mval<K>(old: Map<K, f32>, new: Map<K, f32>, add: Map<K, f32>, k: K)
    requires map_acc(old, new, add),
    ensures mval(new, k) == mval(old, k) + mvalf(add, k),
{
    if add.contains_key(k) { assert(new.contains_key(k)); }
    else if old.contains_key(k) { assert(new.contains_key(k)); assert(new[k] == old[k]); }
    else { assert(!new.contains_key(k)); }
}
pub proof fn lemma_map_acc3_mval(old: Map<Service, RenNrenCo2>, new: Map<Service, RenNrenCo2>, add: Map<Service, RenNrenCo2>, dom: Map<Service, f32>, k: Service)
    requires map_acc3(old, new, add, dom), add.dom() =~= dom.dom(),
    ensures mval3(new, k) == r3a(mval3(old, k), mval3(add, k)),
{
    if dom.contains_key(k) && add.contains_key(k) { assert(new.contains_key(k)); }
    else if old.contains_key(k) { assert(new.contains_key(k)); assert(new[k] == old[k]); }
    else { assert(!new.contains_key(k)); }
}
pub proof fn lemma_map_acc1_mval<K>(old: Map<K, f32>, new: Map<K, f32>, key: K, v: real, cond: bool, k: K)
    requires map_acc1(old, new, key, v, cond),
    ensures mval(new, k) == mval(old, k) + (if cond && k == key { v } else { 0real }),
{
    if cond {
        assert(new.dom() =~= old.dom().insert(key));
        if k == key { assert(new.contains_key(k)); }
        else if old.contains_key(k) { assert(new.contains_key(k)); assert(new[k] == old[k]); }
        else { assert(!new.contains_key(k)); }
    }
}
#[verifier::spinoff_prover]
pub proof fn thm_building_src(bcr: Map<Carrier, BalanceCarrier>, bcr2: Map<Carrier, BalanceCarrier>, ord: Seq<Carrier>, hist: Seq<Balance>, ord2: Seq<Carrier>, hist2: Seq<Balance>, ct: real)
    requires ct > 0real, bcr_rel(bcr, bcr2, ct), chain_of(bcr, ord, hist), chain_of(bcr2, ord2, hist2),
    ensures bal_rel_src(hist.last(), hist2.last(), ct),
{
    lemma_chain_maps(bcr, ord, hist); lemma_chain_maps(bcr2, ord2, hist2);
    let x = hist.last(); let y = hist2.last();
    assert forall|c: Carrier| bcr.contains_key(c) implies annual_rel(run_of(#[trigger] bcr[c]), run_of(bcr2[c]), ct) by {}
    assert forall|s: ProdSource| #[trigger] mval(y.prod.by_src@, s) == ct * mval(x.prod.by_src@, s) by {
        assert forall|j: int| 0 <= j < ord.len() implies mval((#[trigger] hist[j + 1]).prod.by_src@, s) == mval(hist[j].prod.by_src@, s) + mvalf(bcr[ord[j]].prod.by_src_an@, s) by {
            assert(bal_add_by_src(hist[j], hist[j + 1], bcr[ord[j]]));
            lemma_map_acc_mval(hist[j].prod.by_src@, hist[j + 1].prod.by_src@, bcr[ord[j]].prod.by_src_an@, s);
        }
        assert forall|j: int| 0 <= j < ord2.len() implies mval((#[trigger] hist2[j + 1]).prod.by_src@, s) == mval(hist2[j].prod.by_src@, s) + mvalf(bcr2[ord2[j]].prod.by_src_an@, s) by {
            assert(bal_add_by_src(hist2[j], hist2[j + 1], bcr2[ord2[j]]));
            lemma_map_acc_mval(hist2[j].prod.by_src@, hist2[j + 1].prod.by_src@, bcr2[ord2[j]].prod.by_src_an@, s);
        }
        assert forall|c: Carrier| bcr.contains_key(c) implies mvalf((#[trigger] bcr2[c]).prod.by_src_an@, s) == ct * mvalf(bcr[c].prod.by_src_an@, s) by {
            assert(annual_rel(run_of(bcr[c]), run_of(bcr2[c]), ct));
        }
        lemma_field(bcr, bcr2, ord, hist, ord2, hist2, |b: Balance| mval(b.prod.by_src@, s), |r: BalanceCarrier| mvalf(r.prod.by_src_an@, s), ct);
    }
    assert forall|s: ProdSource| #[trigger] mval(y.prod.epus_by_src@, s) == ct * mval(x.prod.epus_by_src@, s) by {
        assert forall|j: int| 0 <= j < ord.len() implies mval((#[trigger] hist[j + 1]).prod.epus_by_src@, s) == mval(hist[j].prod.epus_by_src@, s) + mvalf(bcr[ord[j]].prod.epus_by_src_an@, s) by {
            assert(bal_add_by_src(hist[j], hist[j + 1], bcr[ord[j]]));
            lemma_map_acc_mval(hist[j].prod.epus_by_src@, hist[j + 1].prod.epus_by_src@, bcr[ord[j]].prod.epus_by_src_an@, s);
        }
        assert forall|j: int| 0 <= j < ord2.len() implies mval((#[trigger] hist2[j + 1]).prod.epus_by_src@, s) == mval(hist2[j].prod.epus_by_src@, s) + mvalf(bcr2[ord2[j]].prod.epus_by_src_an@, s) by {
            assert(bal_add_by_src(hist2[j], hist2[j + 1], bcr2[ord2[j]]));
            lemma_map_acc_mval(hist2[j].prod.epus_by_src@, hist2[j + 1].prod.epus_by_src@, bcr2[ord2[j]].prod.epus_by_src_an@, s);
        }
        assert forall|c: Carrier| bcr.contains_key(c) implies mvalf((#[trigger] bcr2[c]).prod.epus_by_src_an@, s) == ct * mvalf(bcr[c].prod.epus_by_src_an@, s) by {
            assert(annual_rel(run_of(bcr[c]), run_of(bcr2[c]), ct));
        }
        lemma_field(bcr, bcr2, ord, hist, ord2, hist2, |b: Balance| mval(b.prod.epus_by_src@, s), |r: BalanceCarrier| mvalf(r.prod.epus_by_src_an@, s), ct);
    }
}
#[verifier::spinoff_prover]
pub proof fn thm_building_srv(bcr: Map<Carrier, BalanceCarrier>, bcr2: Map<Carrier, BalanceCarrier>, ord: Seq<Carrier>, hist: Seq<Balance>, ord2: Seq<Carrier>, hist2: Seq<Balance>, ct: real)
    requires ct > 0real, bcr_rel(bcr, bcr2, ct), chain_of(bcr, ord, hist), chain_of(bcr2, ord2, hist2),
    ensures bal_rel_srv(hist.last(), hist2.last(), ct),
{
    lemma_chain_maps(bcr, ord, hist); lemma_chain_maps(bcr2, ord2, hist2);
    lemma_mul0(ct);
    let x = hist.last(); let y = hist2.last();
    assert forall|c: Carrier| bcr.contains_key(c) implies annual_rel(run_of(#[trigger] bcr[c]), run_of(bcr2[c]), ct) && we_rel(bcr[c].we, bcr2[c].we, ct)
        && bcr2[c].used.epus_by_srv_an@.dom() =~= bcr[c].used.epus_by_srv_an@.dom()
        && bcr[c].we.a_by_srv@.dom() =~= bcr[c].used.epus_by_srv_an@.dom() && bcr[c].we.b_by_srv@.dom() =~= bcr[c].used.epus_by_srv_an@.dom() by {}
    assert forall|s: Service| #[trigger] mval(y.used.epus_by_srv@, s) == ct * mval(x.used.epus_by_srv@, s) by {
        assert forall|j: int| 0 <= j < ord.len() implies mval((#[trigger] hist[j + 1]).used.epus_by_srv@, s) == mval(hist[j].used.epus_by_srv@, s) + mvalf(bcr[ord[j]].used.epus_by_srv_an@, s) by {
            assert(bal_add_by_srv(hist[j], hist[j + 1], bcr[ord[j]]));
            lemma_map_acc_mval(hist[j].used.epus_by_srv@, hist[j + 1].used.epus_by_srv@, bcr[ord[j]].used.epus_by_srv_an@, s);
        }
        assert forall|j: int| 0 <= j < ord2.len() implies mval((#[trigger] hist2[j + 1]).used.epus_by_srv@, s) == mval(hist2[j].used.epus_by_srv@, s) + mvalf(bcr2[ord2[j]].used.epus_by_srv_an@, s) by {
            assert(bal_add_by_srv(hist2[j], hist2[j + 1], bcr2[ord2[j]]));
            lemma_map_acc_mval(hist2[j].used.epus_by_srv@, hist2[j + 1].used.epus_by_srv@, bcr2[ord2[j]].used.epus_by_srv_an@, s);
        }
        assert forall|c: Carrier| bcr.contains_key(c) implies mvalf((#[trigger] bcr2[c]).used.epus_by_srv_an@, s) == ct * mvalf(bcr[c].used.epus_by_srv_an@, s) by {
            assert(annual_rel(run_of(bcr[c]), run_of(bcr2[c]), ct));
        }
        lemma_field(bcr, bcr2, ord, hist, ord2, hist2, |b: Balance| mval(b.used.epus_by_srv@, s), |r: BalanceCarrier| mvalf(r.used.epus_by_srv_an@, s), ct);
    }
    assert forall|s: Service| #[trigger] mval3(y.we.a_by_srv@, s) == r3s(ct, mval3(x.we.a_by_srv@, s)) by {
        lemma_building_srv3(bcr, bcr2, ord, hist, ord2, hist2, ct, s, true);
    }
    assert forall|s: Service| #[trigger] mval3(y.we.b_by_srv@, s) == r3s(ct, mval3(x.we.b_by_srv@, s)) by {
        lemma_building_srv3(bcr, bcr2, ord, hist, ord2, hist2, ct, s, false);
    }
}
pub open spec fn srv3(b: Balance, step_a: bool) -> Map<Service, RenNrenCo2> { if step_a { b.we.a_by_srv@ } else { b.we.b_by_srv@ } }
pub open spec fn srv3c(r: BalanceCarrier, step_a: bool) -> Map<Service, RenNrenCo2> { if step_a { r.we.a_by_srv@ } else { r.we.b_by_srv@ } }
pub proof fn lemma_building_srv3(bcr: Map<Carrier, BalanceCarrier>, bcr2: Map<Carrier, BalanceCarrier>, ord: Seq<Carrier>, hist: Seq<Balance>, ord2: Seq<Carrier>, hist2: Seq<Balance>, ct: real, s: Service, step_a: bool)
    requires
        ct > 0real, bcr2.dom() =~= bcr.dom(), chain_basic(bcr, ord, hist), chain_basic(bcr2, ord2, hist2),
        forall|j: int| 0 <= j < ord.len() ==> bcr.contains_key(ord[j]) && bal_add_by_srv(#[trigger] hist[j], hist[j + 1], bcr[ord[j]]),
        forall|j: int| 0 <= j < ord2.len() ==> bcr2.contains_key(ord2[j]) && bal_add_by_srv(#[trigger] hist2[j], hist2[j + 1], bcr2[ord2[j]]),
        forall|c: Carrier| bcr.contains_key(c) ==> we_rel((#[trigger] bcr[c]).we, bcr2[c].we, ct)
            && bcr2[c].used.epus_by_srv_an@.dom() =~= bcr[c].used.epus_by_srv_an@.dom()
            && bcr[c].we.a_by_srv@.dom() =~= bcr[c].used.epus_by_srv_an@.dom() && bcr[c].we.b_by_srv@.dom() =~= bcr[c].used.epus_by_srv_an@.dom(),
    ensures mval3(srv3(hist2.last(), step_a), s) == r3s(ct, mval3(srv3(hist.last(), step_a), s)),
{
    lemma_mul0(ct);
    assert forall|j: int| 0 <= j < ord.len() implies mval3(srv3(#[trigger] hist[j + 1], step_a), s) == r3a(mval3(srv3(hist[j], step_a), s), mval3(srv3c(bcr[ord[j]], step_a), s)) by {
        assert(bal_add_by_srv(hist[j], hist[j + 1], bcr[ord[j]]));
        assert(we_rel(bcr[ord[j]].we, bcr2[ord[j]].we, ct));
        lemma_map_acc3_mval(srv3(hist[j], step_a), srv3(hist[j + 1], step_a), srv3c(bcr[ord[j]], step_a), bcr[ord[j]].used.epus_by_srv_an@, s);
    }
    assert forall|j: int| 0 <= j < ord2.len() implies mval3(srv3(#[trigger] hist2[j + 1], step_a), s) == r3a(mval3(srv3(hist2[j], step_a), s), mval3(srv3c(bcr2[ord2[j]], step_a), s)) by {
        assert(bal_add_by_srv(hist2[j], hist2[j + 1], bcr2[ord2[j]]));
        let c = ord2[j];
        assert(bcr.contains_key(c));
        assert(we_rel(bcr[c].we, bcr2[c].we, ct));
        lemma_map_acc3_mval(srv3(hist2[j], step_a), srv3(hist2[j + 1], step_a), srv3c(bcr2[c], step_a), bcr2[c].used.epus_by_srv_an@, s);
    }
    assert forall|c: Carrier| bcr.contains_key(c) implies mval3(srv3c(#[trigger] bcr2[c], step_a), s) == r3s(ct, mval3(srv3c(bcr[c], step_a), s)) by {
        assert(we_rel(bcr[c].we, bcr2[c].we, ct));
    }
    lemma_field(bcr, bcr2, ord, hist, ord2, hist2, |b: Balance| mval3(srv3(b, step_a), s).ren, |r: BalanceCarrier| mval3(srv3c(r, step_a), s).ren, ct);
    lemma_field(bcr, bcr2, ord, hist, ord2, hist2, |b: Balance| mval3(srv3(b, step_a), s).nren, |r: BalanceCarrier| mval3(srv3c(r, step_a), s).nren, ct);
    lemma_field(bcr, bcr2, ord, hist, ord2, hist2, |b: Balance| mval3(srv3(b, step_a), s).co2, |r: BalanceCarrier| mval3(srv3c(r, step_a), s).co2, ct);
}
#[verifier::spinoff_prover]
pub proof fn lemma_building_prod_by_cr(bcr: Map<Carrier, BalanceCarrier>, bcr2: Map<Carrier, BalanceCarrier>, ord: Seq<Carrier>, hist: Seq<Balance>, ord2: Seq<Carrier>, hist2: Seq<Balance>, ct: real)
    requires ct > 0real, bcr_rel(bcr, bcr2, ct), chain_of(bcr, ord, hist), chain_of(bcr2, ord2, hist2),
    ensures forall|k: Carrier| #[trigger] mval(hist2.last().prod.by_cr@, k) == ct * mval(hist.last().prod.by_cr@, k),
{
    let x = hist.last(); let y = hist2.last();
    lemma_chain_maps(bcr, ord, hist); lemma_chain_maps(bcr2, ord2, hist2);
    lemma_mul0(ct);
    assert forall|c: Carrier| bcr.contains_key(c) implies annual_rel(run_of(#[trigger] bcr[c]), run_of(bcr2[c]), ct) && bcr[c].carrier == c && bcr2[c].carrier == c by {}

    assert forall|k: Carrier| #[trigger] mval(y.prod.by_cr@, k) == ct * mval(x.prod.by_cr@, k) by {
        let g = |r: BalanceCarrier| if rv(r.prod.an) != 0real && r.carrier == k { rv(r.prod.an) } else { 0real };
        assert forall|j: int| 0 <= j < ord.len() implies mval((#[trigger] hist[j + 1]).prod.by_cr@, k) == mval(hist[j].prod.by_cr@, k) + g(bcr[ord[j]]) by {
            assert(bal_add_by_cr(hist[j], hist[j + 1], bcr[ord[j]]));
            lemma_map_acc1_mval(hist[j].prod.by_cr@, hist[j + 1].prod.by_cr@, bcr[ord[j]].carrier, rv(bcr[ord[j]].prod.an), rv(bcr[ord[j]].prod.an) != 0real, k);
        }
        assert forall|j: int| 0 <= j < ord2.len() implies mval((#[trigger] hist2[j + 1]).prod.by_cr@, k) == mval(hist2[j].prod.by_cr@, k) + g(bcr2[ord2[j]]) by {
            assert(bal_add_by_cr(hist2[j], hist2[j + 1], bcr2[ord2[j]]));
            lemma_map_acc1_mval(hist2[j].prod.by_cr@, hist2[j + 1].prod.by_cr@, bcr2[ord2[j]].carrier, rv(bcr2[ord2[j]].prod.an), rv(bcr2[ord2[j]].prod.an) != 0real, k);
        }
        assert forall|c: Carrier| bcr.contains_key(c) implies g(#[trigger] bcr2[c]) == ct * g(bcr[c]) by {
            assert(annual_rel(run_of(bcr[c]), run_of(bcr2[c]), ct));
            lemma_pos_mul(ct, rv(bcr[c].prod.an));
        }
        lemma_field(bcr, bcr2, ord, hist, ord2, hist2, |b: Balance| mval(b.prod.by_cr@, k), g, ct);
    }
}
#[verifier::spinoff_prover]
pub proof fn lemma_building_grid_by_cr(bcr: Map<Carrier, BalanceCarrier>, bcr2: Map<Carrier, BalanceCarrier>, ord: Seq<Carrier>, hist: Seq<Balance>, ord2: Seq<Carrier>, hist2: Seq<Balance>, ct: real)
    requires ct > 0real, bcr_rel(bcr, bcr2, ct), chain_of(bcr, ord, hist), chain_of(bcr2, ord2, hist2),
    ensures forall|k: Carrier| #[trigger] mval(hist2.last().del.grid_by_cr@, k) == ct * mval(hist.last().del.grid_by_cr@, k),
{
    let x = hist.last(); let y = hist2.last();
    lemma_chain_maps(bcr, ord, hist); lemma_chain_maps(bcr2, ord2, hist2);
    lemma_mul0(ct);
    assert forall|c: Carrier| bcr.contains_key(c) implies annual_rel(run_of(#[trigger] bcr[c]), run_of(bcr2[c]), ct) && bcr[c].carrier == c && bcr2[c].carrier == c by {}

    assert forall|k: Carrier| #[trigger] mval(y.del.grid_by_cr@, k) == ct * mval(x.del.grid_by_cr@, k) by {
        let g = |r: BalanceCarrier| if rv(r.del.grid_an) != 0real && r.carrier == k { rv(r.del.grid_an) } else { 0real };
        assert forall|j: int| 0 <= j < ord.len() implies mval((#[trigger] hist[j + 1]).del.grid_by_cr@, k) == mval(hist[j].del.grid_by_cr@, k) + g(bcr[ord[j]]) by {
            assert(bal_add_by_cr(hist[j], hist[j + 1], bcr[ord[j]]));
            lemma_map_acc1_mval(hist[j].del.grid_by_cr@, hist[j + 1].del.grid_by_cr@, bcr[ord[j]].carrier, rv(bcr[ord[j]].del.grid_an), rv(bcr[ord[j]].del.grid_an) != 0real, k);
        }
        assert forall|j: int| 0 <= j < ord2.len() implies mval((#[trigger] hist2[j + 1]).del.grid_by_cr@, k) == mval(hist2[j].del.grid_by_cr@, k) + g(bcr2[ord2[j]]) by {
            assert(bal_add_by_cr(hist2[j], hist2[j + 1], bcr2[ord2[j]]));
            lemma_map_acc1_mval(hist2[j].del.grid_by_cr@, hist2[j + 1].del.grid_by_cr@, bcr2[ord2[j]].carrier, rv(bcr2[ord2[j]].del.grid_an), rv(bcr2[ord2[j]].del.grid_an) != 0real, k);
        }
        assert forall|c: Carrier| bcr.contains_key(c) implies g(#[trigger] bcr2[c]) == ct * g(bcr[c]) by {
            assert(annual_rel(run_of(bcr[c]), run_of(bcr2[c]), ct));
            lemma_pos_mul(ct, rv(bcr[c].del.grid_an));
        }
        lemma_field(bcr, bcr2, ord, hist, ord2, hist2, |b: Balance| mval(b.del.grid_by_cr@, k), g, ct);
    }
}
#[verifier::spinoff_prover]
pub proof fn lemma_building_epus_by_cr(bcr: Map<Carrier, BalanceCarrier>, bcr2: Map<Carrier, BalanceCarrier>, ord: Seq<Carrier>, hist: Seq<Balance>, ord2: Seq<Carrier>, hist2: Seq<Balance>, ct: real)
    requires ct > 0real, bcr_rel(bcr, bcr2, ct), chain_of(bcr, ord, hist), chain_of(bcr2, ord2, hist2),
    ensures forall|k: Carrier| #[trigger] mval(hist2.last().used.epus_by_cr@, k) == ct * mval(hist.last().used.epus_by_cr@, k),
{
    let x = hist.last(); let y = hist2.last();
    lemma_chain_maps(bcr, ord, hist); lemma_chain_maps(bcr2, ord2, hist2);
    lemma_mul0(ct);
    assert forall|c: Carrier| bcr.contains_key(c) implies annual_rel(run_of(#[trigger] bcr[c]), run_of(bcr2[c]), ct) && bcr[c].carrier == c && bcr2[c].carrier == c by {}

    assert forall|k: Carrier| #[trigger] mval(y.used.epus_by_cr@, k) == ct * mval(x.used.epus_by_cr@, k) by {
        let g = |r: BalanceCarrier| if rv(r.used.epus_an) != 0real && r.carrier == k { rv(r.used.epus_an) } else { 0real };
        assert forall|j: int| 0 <= j < ord.len() implies mval((#[trigger] hist[j + 1]).used.epus_by_cr@, k) == mval(hist[j].used.epus_by_cr@, k) + g(bcr[ord[j]]) by {
            assert(bal_add_by_cr(hist[j], hist[j + 1], bcr[ord[j]]));
            lemma_map_acc1_mval(hist[j].used.epus_by_cr@, hist[j + 1].used.epus_by_cr@, bcr[ord[j]].carrier, rv(bcr[ord[j]].used.epus_an), rv(bcr[ord[j]].used.epus_an) != 0real, k);
        }
        assert forall|j: int| 0 <= j < ord2.len() implies mval((#[trigger] hist2[j + 1]).used.epus_by_cr@, k) == mval(hist2[j].used.epus_by_cr@, k) + g(bcr2[ord2[j]]) by {
            assert(bal_add_by_cr(hist2[j], hist2[j + 1], bcr2[ord2[j]]));
            lemma_map_acc1_mval(hist2[j].used.epus_by_cr@, hist2[j + 1].used.epus_by_cr@, bcr2[ord2[j]].carrier, rv(bcr2[ord2[j]].used.epus_an), rv(bcr2[ord2[j]].used.epus_an) != 0real, k);
        }
        assert forall|c: Carrier| bcr.contains_key(c) implies g(#[trigger] bcr2[c]) == ct * g(bcr[c]) by {
            assert(annual_rel(run_of(bcr[c]), run_of(bcr2[c]), ct));
            lemma_pos_mul(ct, rv(bcr[c].used.epus_an));
        }
        lemma_field(bcr, bcr2, ord, hist, ord2, hist2, |b: Balance| mval(b.used.epus_by_cr@, k), g, ct);
    }
}
pub proof fn thm_building_cr(bcr: Map<Carrier, BalanceCarrier>, bcr2: Map<Carrier, BalanceCarrier>, ord: Seq<Carrier>, hist: Seq<Balance>, ord2: Seq<Carrier>, hist2: Seq<Balance>, ct: real)
    requires ct > 0real, bcr_rel(bcr, bcr2, ct), chain_of(bcr, ord, hist), chain_of(bcr2, ord2, hist2),
    ensures bal_rel_cr(hist.last(), hist2.last(), ct),
{
    lemma_building_prod_by_cr(bcr, bcr2, ord, hist, ord2, hist2, ct);
    lemma_building_grid_by_cr(bcr, bcr2, ord, hist, ord2, hist2, ct);
    lemma_building_epus_by_cr(bcr, bcr2, ord, hist, ord2, hist2, ct);
}
/// THE BUILDING THEOREM: two accumulations of per-carrier balances related by ct (visited in any two orders) give whole-building
/// balances related by ct - totals, weighted energy at steps A and B, and the breakdowns by service, by source and by carrier
pub proof fn thm_building(bcr: Map<Carrier, BalanceCarrier>, bcr2: Map<Carrier, BalanceCarrier>, ord: Seq<Carrier>, hist: Seq<Balance>, ord2: Seq<Carrier>, hist2: Seq<Balance>, ct: real)
    requires ct > 0real, bcr_rel(bcr, bcr2, ct), chain_of(bcr, ord, hist), chain_of(bcr2, ord2, hist2),
    ensures bal_rel(hist.last(), hist2.last(), ct),
{
    assert(bcr_flows_rel(bcr, bcr2, ct));
    thm_building_scalars(bcr, bcr2, ord, hist, ord2, hist2, ct);
    thm_building_we(bcr, bcr2, ord, hist, ord2, hist2, ct);
    thm_building_srv(bcr, bcr2, ord, hist, ord2, hist2, ct);
    thm_building_src(bcr, bcr2, ord, hist, ord2, hist2, ct);
    thm_building_cr(bcr, bcr2, ord, hist, ord2, hist2, ct);
}

// ------------------------------------------------------------------------------------------------ C04 in explicit form
pub open spec fn gsel(bcr: Map<Carrier, BalanceCarrier>, f: spec_fn(BalanceCarrier) -> real) -> spec_fn(Carrier) -> real { |c: Carrier| f(bcr[c]) }
pub open spec fn tot_is_sum(bcr: Map<Carrier, BalanceCarrier>, total: real, f: spec_fn(BalanceCarrier) -> real) -> bool {
    total == csum(bcr.dom(), gsel(bcr, f), carriers12())
}
pub proof fn lemma_field_sum(bcr: Map<Carrier, BalanceCarrier>, ord: Seq<Carrier>, hist: Seq<Balance>, val: spec_fn(Balance) -> real, f: spec_fn(BalanceCarrier) -> real)
    requires hist.len() == ord.len() + 1, ord.no_duplicates(), forall|c: Carrier| bcr.contains_key(c) <==> ord.contains(c),
             forall|j: int| 0 <= j < ord.len() ==> val(#[trigger] hist[j + 1]) == val(hist[j]) + f(bcr[ord[j]]),
             val(hist[0]) == 0real,
    ensures tot_is_sum(bcr, val(hist.last()), f),
{
    let vals = hvals(hist, val);
    let g = gsel(bcr, f);
    assert forall|j: int| 0 <= j < ord.len() implies #[trigger] vals[j + 1] == vals[j] + g(ord[j]) by { assert(val(hist[j + 1]) == val(hist[j]) + f(bcr[ord[j]])); }
    lemma_chain_sum(ord, vals, g, ord.len() as int);
    assert(ord.take(ord.len() as int) =~= ord);
    assert(ord.to_set() =~= bcr.dom());
}
/// C04: every whole-building total is the sum over the twelve carriers of the per-carrier figure (carriers without a balance count 0)
pub open spec fn totals_are_sums(bcr: Map<Carrier, BalanceCarrier>, b: Balance) -> bool {
    &&& tot_is_sum(bcr, rv(b.used.epus), |r: BalanceCarrier| rv(r.used.epus_an))
    &&& tot_is_sum(bcr, rv(b.used.nepus), |r: BalanceCarrier| rv(r.used.nepus_an))
    &&& tot_is_sum(bcr, rv(b.used.cgnus), |r: BalanceCarrier| rv(r.used.cgnus_an))
    &&& tot_is_sum(bcr, rv(b.prod.an), |r: BalanceCarrier| rv(r.prod.an))
    &&& tot_is_sum(bcr, rv(b.del.an), |r: BalanceCarrier| rv(r.del.an))
    &&& tot_is_sum(bcr, rv(b.del.onst), |r: BalanceCarrier| rv(r.del.onst_an))
    &&& tot_is_sum(bcr, rv(b.del.grid), |r: BalanceCarrier| rv(r.del.grid_an))
    &&& tot_is_sum(bcr, rv(b.exp.an), |r: BalanceCarrier| rv(r.exp.an))
    &&& tot_is_sum(bcr, rv(b.exp.nepus), |r: BalanceCarrier| rv(r.exp.nepus_an))
    &&& tot_is_sum(bcr, rv(b.exp.grid), |r: BalanceCarrier| rv(r.exp.grid_an))
    &&& tot_is_sum(bcr, rv(b.we.a.ren), |r: BalanceCarrier| rv(r.we.a.ren)) && tot_is_sum(bcr, rv(b.we.a.nren), |r: BalanceCarrier| rv(r.we.a.nren)) && tot_is_sum(bcr, rv(b.we.a.co2), |r: BalanceCarrier| rv(r.we.a.co2))
    &&& tot_is_sum(bcr, rv(b.we.b.ren), |r: BalanceCarrier| rv(r.we.b.ren)) && tot_is_sum(bcr, rv(b.we.b.nren), |r: BalanceCarrier| rv(r.we.b.nren)) && tot_is_sum(bcr, rv(b.we.b.co2), |r: BalanceCarrier| rv(r.we.b.co2))
}
pub proof fn thm_c04_totals(bcr: Map<Carrier, BalanceCarrier>, comps: Components, b: Balance)
    requires ep_totals_ok(bcr, comps, b),
    ensures totals_are_sums(bcr, b),
{
    let (ord, hist) = choose|ord: Seq<Carrier>, hist: Seq<Balance>| #[trigger] bal_chain(bcr, ord, hist) && bal_initial(hist[0], comps) && hist.last() == b;
    lemma_chain_scalars(bcr, ord, hist);
    lemma_field_sum(bcr, ord, hist, |x: Balance| rv(x.used.epus), |r: BalanceCarrier| rv(r.used.epus_an));
    lemma_field_sum(bcr, ord, hist, |x: Balance| rv(x.used.nepus), |r: BalanceCarrier| rv(r.used.nepus_an));
    lemma_field_sum(bcr, ord, hist, |x: Balance| rv(x.used.cgnus), |r: BalanceCarrier| rv(r.used.cgnus_an));
    lemma_field_sum(bcr, ord, hist, |x: Balance| rv(x.prod.an), |r: BalanceCarrier| rv(r.prod.an));
    lemma_field_sum(bcr, ord, hist, |x: Balance| rv(x.del.an), |r: BalanceCarrier| rv(r.del.an));
    lemma_field_sum(bcr, ord, hist, |x: Balance| rv(x.del.onst), |r: BalanceCarrier| rv(r.del.onst_an));
    lemma_field_sum(bcr, ord, hist, |x: Balance| rv(x.del.grid), |r: BalanceCarrier| rv(r.del.grid_an));
    lemma_field_sum(bcr, ord, hist, |x: Balance| rv(x.exp.an), |r: BalanceCarrier| rv(r.exp.an));
    lemma_field_sum(bcr, ord, hist, |x: Balance| rv(x.exp.nepus), |r: BalanceCarrier| rv(r.exp.nepus_an));
    lemma_field_sum(bcr, ord, hist, |x: Balance| rv(x.exp.grid), |r: BalanceCarrier| rv(r.exp.grid_an));
    lemma_field_sum(bcr, ord, hist, |x: Balance| rv(x.we.a.ren), |r: BalanceCarrier| rv(r.we.a.ren));
    lemma_field_sum(bcr, ord, hist, |x: Balance| rv(x.we.a.nren), |r: BalanceCarrier| rv(r.we.a.nren));
    lemma_field_sum(bcr, ord, hist, |x: Balance| rv(x.we.a.co2), |r: BalanceCarrier| rv(r.we.a.co2));
    lemma_field_sum(bcr, ord, hist, |x: Balance| rv(x.we.b.ren), |r: BalanceCarrier| rv(r.we.b.ren));
    lemma_field_sum(bcr, ord, hist, |x: Balance| rv(x.we.b.nren), |r: BalanceCarrier| rv(r.we.b.nren));
    lemma_field_sum(bcr, ord, hist, |x: Balance| rv(x.we.b.co2), |r: BalanceCarrier| rv(r.we.b.co2));
}
