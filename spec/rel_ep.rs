// ---- from the whole component list and the factor set of energy_performance to the hypotheses of the carrier theorem

/// filter_carrier keeps the component-by-component relation between two lists
pub proof fn lemma_filter_rel(cs: Seq<Energy>, cs2: Seq<Energy>, c: Carrier)
    requires tags_same(cs, cs2),
    ensures tags_same(filter_carrier(cs, c), filter_carrier(cs2, c)),
    decreases cs.len(),
{
    if cs.len() > 0 {
        let a = cs.drop_last(); let b = cs2.drop_last(); let n = cs.len() - 1;
        assert forall|j: int| 0 <= j < a.len() implies same_tags(#[trigger] a[j], b[j]) by { assert(a[j] == cs[j] && b[j] == cs2[j]); }
        lemma_filter_rel(a, b, c);
        assert(same_tags(cs[n], cs2[n]));
        lemma_same_tags_sel(cs[n], cs2[n], Sel::Epus);
        let fa = filter_carrier(a, c); let fb = filter_carrier(b, c);
        if e_has_carrier(cs.last(), c) {
            assert(e_has_carrier(cs2.last(), c));
            assert forall|j: int| 0 <= j < fa.push(cs.last()).len() implies same_tags(#[trigger] fa.push(cs.last())[j], fb.push(cs2.last())[j]) by {
                if j < fa.len() { assert(fa.push(cs.last())[j] == fa[j] && fb.push(cs2.last())[j] == fb[j]); }
            }
        } else { assert(!e_has_carrier(cs2.last(), c)); }
    }
}
pub proof fn lemma_filter_val(cs: Seq<Energy>, cs2: Seq<Energy>, c: Carrier, i: int, i2: int, k: real)
    requires tags_same(cs, cs2), val_rel(cs, cs2, i, i2, k),
    ensures val_rel(filter_carrier(cs, c), filter_carrier(cs2, c), i, i2, k), filter_carrier(cs, c).len() == filter_carrier(cs2, c).len(),
    decreases cs.len(),
{
    if cs.len() > 0 {
        let a = cs.drop_last(); let b = cs2.drop_last(); let n = cs.len() - 1;
        assert forall|j: int| 0 <= j < a.len() implies same_tags(#[trigger] a[j], b[j]) by { assert(a[j] == cs[j] && b[j] == cs2[j]); }
        assert forall|j: int| 0 <= j < a.len() implies rv(#[trigger] e_vals(b[j])[i2]) == k * rv(e_vals(a[j])[i]) by { assert(a[j] == cs[j] && b[j] == cs2[j]); }
        lemma_filter_val(a, b, c, i, i2, k);
        assert(same_tags(cs[n], cs2[n]));
        lemma_same_tags_sel(cs[n], cs2[n], Sel::Epus);
        assert(rv(e_vals(cs2[n])[i2]) == k * rv(e_vals(cs[n])[i]));
        let fa = filter_carrier(a, c); let fb = filter_carrier(b, c);
        if e_has_carrier(cs.last(), c) {
            assert(e_has_carrier(cs2.last(), c));
            assert forall|j: int| 0 <= j < fa.push(cs.last()).len() implies rv(#[trigger] e_vals(fb.push(cs2.last())[j])[i2]) == k * rv(e_vals(fa.push(cs.last())[j])[i]) by {
                if j < fa.len() { assert(fa.push(cs.last())[j] == fa[j] && fb.push(cs2.last())[j] == fb[j]); }
            }
        } else { assert(!e_has_carrier(cs2.last(), c)); }
    }
}
/// in_avail only looks at the tags
pub proof fn lemma_avail_tags(cs: Seq<Energy>, cs2: Seq<Energy>, c: Carrier)
    requires tags_same(cs, cs2),
    ensures in_avail(cs2, c) == in_avail(cs, c),
{
    if in_avail(cs, c) {
        let j = choose|j: int| 0 <= j < cs.len() && !((#[trigger] cs[j]) is Out) && e_carrier(cs[j]) == c;
        assert(same_tags(cs[j], cs2[j])); lemma_same_tags_sel(cs[j], cs2[j], Sel::Epus);
        assert(!(cs2[j] is Out) && e_carrier(cs2[j]) == c);
    }
    if in_avail(cs2, c) {
        let j = choose|j: int| 0 <= j < cs2.len() && !((#[trigger] cs2[j]) is Out) && e_carrier(cs2[j]) == c;
        assert(same_tags(cs[j], cs2[j])); lemma_same_tags_sel(cs[j], cs2[j], Sel::Epus);
        assert(!(cs[j] is Out) && e_carrier(cs[j]) == c);
    }
}

// ------------------------------------------------------------------------------------------------ the value domain of the properties
/// every value is zero or at least 0.01 kWh (the quantifier of C01 / C09 / C11)
pub open spec fn vals_dom(cs: Seq<Energy>) -> bool {
    forall|j: int, i: int| 0 <= j < cs.len() && 0 <= i < e_vals(cs[j]).len() ==> rv(#[trigger] e_vals(cs[j])[i]) == 0real || rv(e_vals(cs[j])[i]) >= 1real / 100real
}
pub proof fn lemma_acc_dom(cs: Seq<Energy>, k: Sel, i: int, n: nat)
    requires vals_dom(cs), wf_list(cs, n), 0 <= i < n,
    ensures acc(cs, k, i) == 0real || acc(cs, k, i) >= 1real / 100real,
    decreases cs.len(),
{
    if cs.len() > 0 {
        let c0 = cs.drop_last();
        assert forall|j: int, ii: int| 0 <= j < c0.len() && 0 <= ii < e_vals(c0[j]).len() implies rv(#[trigger] e_vals(c0[j])[ii]) == 0real || rv(e_vals(c0[j])[ii]) >= 1real / 100real by { assert(c0[j] == cs[j]); }
        assert forall|j: int| 0 <= j < c0.len() implies e_vals(#[trigger] c0[j]).len() == n by { assert(c0[j] == cs[j]); }
        lemma_acc_dom(c0, k, i, n);
        assert(e_vals(cs[cs.len() - 1]).len() == n);
        let v = rv(e_vals(cs[cs.len() - 1])[i]);
        assert(v == 0real || v >= 1real / 100real);
    }
}
/// under the value domain the total production of a step is zero or above the 1e-3 kWh guard
pub proof fn lemma_prod_in_dom(a: Run, lm: bool, i: int)
    requires run_ok(a, lm), vals_dom(a.cs), wf_list(a.cs, run_n(a) as nat), 0 <= i < run_n(a),
    ensures in_dom(rv(a.prod.t@[i])),
{
    let m = a.prod.by_src_t@; let n = run_n(a) as nat;
    lemma_acc_dom(a.cs, Sel::Prod(ProdSource::EL_INSITU), i, n);
    lemma_acc_dom(a.cs, Sel::Prod(ProdSource::EL_COGEN), i, n);
    lemma_acc_dom(a.cs, Sel::Prod(ProdSource::TERMOSOLAR), i, n);
    lemma_acc_dom(a.cs, Sel::Prod(ProdSource::EAMBIENTE), i, n);
    assert(rv(a.prod.t@[i]) == all_src_sum(m, i));
    assert forall|s: ProdSource| #[trigger] mv(m, s, i) == 0real || mv(m, s, i) >= 1real / 100real by {
        lemma_acc_dom(a.cs, Sel::Prod(s), i, n);
        if m.contains_key(s) { assert(rv(m[s]@[i]) == acc(a.cs, Sel::Prod(s), i)); }
    }
    assert(mv(m, ProdSource::EL_INSITU, i) == 0real || mv(m, ProdSource::EL_INSITU, i) >= 1real / 100real);
    assert(mv(m, ProdSource::EL_COGEN, i) == 0real || mv(m, ProdSource::EL_COGEN, i) >= 1real / 100real);
    assert(mv(m, ProdSource::TERMOSOLAR, i) == 0real || mv(m, ProdSource::TERMOSOLAR, i) >= 1real / 100real);
    assert(mv(m, ProdSource::EAMBIENTE, i) == 0real || mv(m, ProdSource::EAMBIENTE, i) >= 1real / 100real);
}

// ------------------------------------------------------------------------------------------------ the derived cogeneration factors
/// lookup in a list = lookup in its first n factors, else in the rest
pub proof fn lemma_find_split(f: Seq<Factor>, n: int, c: Carrier, s: Source, d: Dest, st: Step)
    requires 0 <= n <= f.len(),
    ensures find_spec(f, c, s, d, st) == (if find_spec(f.take(n), c, s, d, st) is Some { find_spec(f.take(n), c, s, d, st) } else { find_spec(f.skip(n), c, s, d, st) }),
    decreases n,
{
    if n == 0 { assert(f.skip(0) =~= f); assert(f.take(0).len() == 0); }
    else {
        assert(f.take(n)[0] == f[0]);
        if fkey(f[0], c, s, d, st) { }
        else {
            lemma_find_split(f.drop_first(), n - 1, c, s, d, st);
            assert(f.take(n).drop_first() =~= f.drop_first().take(n - 1));
            assert(f.skip(n) =~= f.drop_first().skip(n - 1));
        }
    }
}
/// the cogeneration factor is a ratio of annual sums: unchanged when both are multiplied by ct
pub proof fn lemma_cgn_sum_rel(w: Seq<Factor>, cs: Seq<Energy>, cs2: Seq<Energy>, n: int, n2: int, ct: real, l: Seq<Carrier>)
    requires ct > 0real, sel_same(cs, cs2), forall|k: Sel| #[trigger] acc_an(cs2, k, n2) == ct * acc_an(cs, k, n),
    ensures cgn_sum(w, cs2, n2, false, l) == cgn_sum(w, cs, n, false, l),
    decreases l.len(),
{
    if l.len() > 0 {
        lemma_cgn_sum_rel(w, cs, cs2, n, n2, ct, l.drop_last());
        let fuel = l.last();
        assert(any_sel(cs2, Sel::CgnFuel(fuel)) == any_sel(cs, Sel::CgnFuel(fuel)));
        assert(acc_an(cs2, Sel::CgnFuel(fuel), n2) == ct * acc_an(cs, Sel::CgnFuel(fuel), n));
        assert(acc_an(cs2, Sel::Prod(ProdSource::EL_COGEN), n2) == ct * acc_an(cs, Sel::Prod(ProdSource::EL_COGEN), n));
        lemma_share_scale(ct, acc_an(cs, Sel::CgnFuel(fuel), n), acc_an(cs, Sel::Prod(ProdSource::EL_COGEN), n));
    }
}
/// two evaluations that start from the same factor set and whose cogeneration inputs / outputs are related by ct use factor sets that
/// read the same for every key
pub proof fn lemma_cgn_added_same(o: Seq<Factor>, f: Seq<Factor>, f2: Seq<Factor>, cs: Seq<Energy>, cs2: Seq<Energy>, ct: real, c: Carrier)
    requires ct > 0real, sel_same(cs, cs2), (nsteps(cs2) > 0) == (nsteps(cs) > 0),
             forall|k: Sel| #[trigger] acc_an(cs2, k, nsteps(cs2) as int) == ct * acc_an(cs, k, nsteps(cs) as int),
             cgn_added(o, f, cs), cgn_added(o, f2, cs2),
    ensures fp_same(f, f2, c),
{
    assert(any_sel(cs2, Sel::Prod(ProdSource::EL_COGEN)) == any_sel(cs, Sel::Prod(ProdSource::EL_COGEN)));
    assert(has_cgn_prod(cs2) == has_cgn_prod(cs));
    if has_cgn_prod(cs) {
        let n = o.len() as int;
        lemma_cgn_sum_rel(o, cs, cs2, nsteps(cs) as int, nsteps(cs2) as int, ct, carriers12());
        let g = cgn_factor(o, cs, nsteps(cs) as int, false);
        assert(cgn_factor(o, cs2, nsteps(cs2) as int, false) == g);
        assert forall|s: Source, d: Dest, st: Step| #[trigger] has_fp(f2, c, s, d, st) == has_fp(f, c, s, d, st) && fp(f2, c, s, d, st) == fp(f, c, s, d, st) by {
            lemma_find_split(f, n, c, s, d, st);
            lemma_find_split(f2, n, c, s, d, st);
            if find_spec(o, c, s, d, st) is None {
                let t = f.skip(n); let t2 = f2.skip(n);
                assert(t.len() == 5 && t2.len() == 5);
                assert(t[0] == f[n] && t[1] == f[n + 1] && t[2] == f[n + 2] && t[3] == f[n + 3] && t[4] == f[n + 4]);
                assert(t2[0] == f2[n] && t2[1] == f2[n + 1] && t2[2] == f2[n + 2] && t2[3] == f2[n + 3] && t2[4] == f2[n + 4]);
                lemma_find5(t, c, s, d, st); lemma_find5(t2, c, s, d, st);
            }
        }
    }
}
/// lookup in a list of five factors, written out
pub proof fn lemma_find5(t: Seq<Factor>, c: Carrier, s: Source, d: Dest, st: Step)
    requires t.len() == 5,
    ensures find_spec(t, c, s, d, st) == (if fkey(t[0], c, s, d, st) { Some(fvals(t[0])) } else if fkey(t[1], c, s, d, st) { Some(fvals(t[1])) }
        else if fkey(t[2], c, s, d, st) { Some(fvals(t[2])) } else if fkey(t[3], c, s, d, st) { Some(fvals(t[3])) } else if fkey(t[4], c, s, d, st) { Some(fvals(t[4])) } else { None }),
{
    let t1 = t.drop_first(); let t2 = t1.drop_first(); let t3 = t2.drop_first(); let t4 = t3.drop_first(); let t5 = t4.drop_first();
    assert(t1[0] == t[1] && t2[0] == t[2] && t3[0] == t[3] && t4[0] == t[4] && t5.len() == 0);
    assert(find_spec(t5, c, s, d, st) is None);
    assert(find_spec(t4, c, s, d, st) == (if fkey(t[4], c, s, d, st) { Some(fvals(t[4])) } else { None }));
    assert(find_spec(t3, c, s, d, st) == (if fkey(t[3], c, s, d, st) { Some(fvals(t[3])) } else { find_spec(t4, c, s, d, st) }));
    assert(find_spec(t2, c, s, d, st) == (if fkey(t[2], c, s, d, st) { Some(fvals(t[2])) } else { find_spec(t3, c, s, d, st) }));
    assert(find_spec(t1, c, s, d, st) == (if fkey(t[1], c, s, d, st) { Some(fvals(t[1])) } else { find_spec(t2, c, s, d, st) }));
}
