// ratio() as used by the cogeneration factor (kept separate so that the lemmas unit does not need the whole cgn layer)
pub open spec fn ratio(u: real, p: real) -> real { if p > 0real { u / p } else { 0real } }
