// ---- property-level lemmas over the spec layer (ghost code only; independent of /repo). Each states a sentence of a property
// as a consequence of the spec functions that the contracts of the real functions are proved against.

// ============================================================================ C03: k_exp only interpolates
pub open spec fn b_of_k(del: R3, exp_a: R3, exp_ab: R3, k: real) -> R3 { r3d(del, r3a(exp_a, r3s(k, exp_ab))) }
pub open spec fn a_of(del: R3, exp_a: R3) -> R3 { r3d(del, exp_a) }
/// from the direct clauses C03.exp_affine / C03.steps_from_del: B(k) = A + k (B(1) - A), B(0) = A; nothing exported => B(k) = A
pub proof fn lemma_c03_affine(del: R3, exp_a: R3, exp_ab: R3, k: real)
    ensures
        b_of_k(del, exp_a, exp_ab, k) == r3a(a_of(del, exp_a), r3s(k, r3d(b_of_k(del, exp_a, exp_ab, 1real), a_of(del, exp_a)))),
        b_of_k(del, exp_a, exp_ab, 0real) == a_of(del, exp_a),
        exp_ab == r3z() ==> b_of_k(del, exp_a, exp_ab, k) == a_of(del, exp_a),
{
    assert(k * (0real - exp_ab.ren) == 0real - k * exp_ab.ren) by(nonlinear_arith);
    assert(k * (0real - exp_ab.nren) == 0real - k * exp_ab.nren) by(nonlinear_arith);
    assert(k * (0real - exp_ab.co2) == 0real - k * exp_ab.co2) by(nonlinear_arith);
    assert(1real * exp_ab.ren == exp_ab.ren && 1real * exp_ab.nren == exp_ab.nren && 1real * exp_ab.co2 == exp_ab.co2) by(nonlinear_arith);
    assert(0real * exp_ab.ren == 0real && 0real * exp_ab.nren == 0real && 0real * exp_ab.co2 == 0real) by(nonlinear_arith);
    assert(k * 0real == 0real) by(nonlinear_arith);
    let b1 = b_of_k(del, exp_a, exp_ab, 1real);
    let a = a_of(del, exp_a);
    assert(r3d(b1, a).ren == 0real - exp_ab.ren && r3d(b1, a).nren == 0real - exp_ab.nren && r3d(b1, a).co2 == 0real - exp_ab.co2);
}
/// the same relation passes to every per-service share and to the whole-building total (sums of affine functions of k)
pub proof fn lemma_c03_share(a: real, b1: real, k: real, f: real)
    ensures f * (a + k * (b1 - a)) == f * a + k * (f * b1 - f * a),
{
    assert(f * (a + k * (b1 - a)) == f * a + k * (f * b1 - f * a)) by(nonlinear_arith);
}

// ============================================================================ C11: homogeneity of the per-step functions
pub proof fn lemma_c11_ratio(p: real, u: real, c: real)
    requires c > 0real,
    ensures ratio(c * p, c * u) == ratio(p, u), share(c * p, c * u) == share(p, u), xratio(c * p, c * u) == xratio(p, u),
            fmatch(true, c * p, c * u) == fmatch(true, p, u), fmatch(false, c * p, c * u) == 1real,
            rmin(c * p, c * u) == c * rmin(p, u),
{
    if u > 0real {
        assert(c * u > 0real) by(nonlinear_arith) requires c > 0real, u > 0real;
        assert((c * p) / (c * u) == p / u) by(nonlinear_arith) requires c > 0real, u > 0real;
    } else {
        assert(c * u <= 0real) by(nonlinear_arith) requires c > 0real, u <= 0real;
    }
    if p > 0real { assert(c * p > 0real) by(nonlinear_arith) requires c > 0real, p > 0real; }
    else { assert(c * p <= 0real) by(nonlinear_arith) requires c > 0real, p <= 0real; }
    if p <= u { assert(c * p <= c * u) by(nonlinear_arith) requires c > 0real, p <= u; }
    else { assert(c * p > c * u) by(nonlinear_arith) requires c > 0real, p > u; }
}
/// used production (with or without priorities) and the flows derived from it scale with the energies
pub proof fn lemma_c11_flows(pv: real, chp: real, us: real, f: real, c: real)
    requires c > 0real,
    ensures pri_insitu(c * pv, c * us, f) == c * pri_insitu(pv, us, f),
            pri_cogen(c * pv, c * chp, c * us, f) == c * pri_cogen(pv, chp, us, f),
{
    lemma_c11_ratio(pv, us, c);
    let a = rmin(pv, us);
    assert((c * a) * f == c * (a * f)) by(nonlinear_arith);
    assert(c * us - c * a == c * (us - a)) by(nonlinear_arith);
    lemma_c11_ratio(chp, us - a, c);
    let b = rmin(chp, us - a);
    assert((c * b) * f == c * (b * f)) by(nonlinear_arith);
}
/// share of each source of the production (14): unchanged by scaling as long as the production stays on the same side of
/// the 1e-3 kWh guard - which the property's value domain (zero or >= 0.01 kWh) guarantees for c >= 0.1
pub proof fn lemma_c11_fsrc(p: real, all: real, c: real)
    requires c > 0real, (all == 0real || (all > 1real / 1000real && c * all > 1real / 1000real)),
    ensures fsrc(c * p, c * all) == fsrc(p, all),
{
    if all == 0real { assert(c * all == 0real) by(nonlinear_arith) requires all == 0real; }
    else { assert((c * p) / (c * all) == p / all) by(nonlinear_arith) requires c > 0real, all > 0real; }
}

// ============================================================================ C12: load matching can only lower self-use
pub proof fn lemma_c12_lm_lowers(pr: real, us: real)
    requires pr >= 0real, us >= 0real,
    ensures fmatch(true, pr, us) * rmin(us, pr) <= fmatch(false, pr, us) * rmin(us, pr),
            us - fmatch(true, pr, us) * rmin(us, pr) >= us - fmatch(false, pr, us) * rmin(us, pr),
{
    lemma_fmatch_range(true, pr, us);
    lemma_scale01(rmin(us, pr), fmatch(true, pr, us));
    assert(1real * rmin(us, pr) == rmin(us, pr)) by(nonlinear_arith);
}

// ============================================================================ C09: annual sums do not depend on the time layout
pub open spec fn sumr(s: Seq<real>) -> real decreases s.len() { if s.len() == 0 { 0real } else { sumr(s.drop_last()) + s.last() } }
pub proof fn lemma_sumr_concat(a: Seq<real>, b: Seq<real>)
    ensures sumr(a + b) == sumr(a) + sumr(b),
    decreases b.len(),
{
    if b.len() == 0 { assert(a + b =~= a); }
    else { assert((a + b).drop_last() =~= a + b.drop_last()); assert((a + b).last() == b.last()); lemma_sumr_concat(a, b.drop_last()); }
}
pub proof fn lemma_sumr_remove(s: Seq<real>, i: int)
    requires 0 <= i < s.len(),
    ensures sumr(s) == sumr(s.remove(i)) + s[i],
    decreases s.len(),
{
    if i == s.len() - 1 { assert(s.remove(i) =~= s.drop_last()); }
    else { assert(s.remove(i).drop_last() =~= s.drop_last().remove(i)); assert(s.remove(i).last() == s.last()); lemma_sumr_remove(s.drop_last(), i); }
}
/// reordering the steps by any permutation leaves an annual sum unchanged
pub proof fn lemma_sumr_permutation(a: Seq<real>, b: Seq<real>)
    requires a.to_multiset() == b.to_multiset(),
    ensures sumr(a) == sumr(b),
    decreases a.len(),
{
    broadcast use vstd::seq_lib::group_to_multiset_ensures;
    assert(a.len() == b.len()) by { assert(a.to_multiset().len() == a.len() && b.to_multiset().len() == b.len()); }
    if a.len() > 0 {
        let x = a.last();
        assert(a.to_multiset().count(x) > 0) by { assert(a.contains(x)) by { assert(a[a.len() - 1] == x); } }
        assert(b.contains(x));
        let i = choose|i: int| 0 <= i < b.len() && b[i] == x;
        lemma_sumr_remove(b, i);
        assert(a.drop_last().to_multiset() == b.remove(i).to_multiset()) by {
            assert(a.drop_last() =~= a.remove(a.len() - 1));
            vstd::seq_lib::to_multiset_remove(a, a.len() - 1);
            vstd::seq_lib::to_multiset_remove(b, i);
        }
        lemma_sumr_permutation(a.drop_last(), b.remove(i));
    }
}
/// splitting a step in m equal sub-steps: m copies of x/m add up to x
pub proof fn lemma_sumr_repeat(x: real, m: nat)
    requires m > 0,
    ensures sumr(Seq::new(m, |i: int| x / (m as real))) == x,
{
    lemma_sumr_const(x / (m as real), m);
    assert((m as real) * (x / (m as real)) == x) by(nonlinear_arith) requires m > 0;
}
pub proof fn lemma_sumr_const(y: real, m: nat)
    ensures sumr(Seq::new(m, |i: int| y)) == (m as real) * y,
    decreases m,
{
    let s = Seq::new(m, |i: int| y);
    if m == 0 { assert(0real * y == 0real) by(nonlinear_arith); }
    else {
        assert(s.drop_last() =~= Seq::new((m - 1) as nat, |i: int| y));
        lemma_sumr_const(y, (m - 1) as nat);
        assert(((m - 1) as real) * y + y == (m as real) * y) by(nonlinear_arith);
    }
}
