
// ---- derived factors for cogenerated electricity (C02 assumption "weighted cogeneration input divided by cogenerated
// electricity"; C09: a ratio of ANNUAL sums)
/// Σ_{i<n} of the per-step accumulation
pub open spec fn acc_an(cs: Seq<Energy>, k: Sel, n: int) -> real decreases n {
    if n <= 0 { 0real } else { acc_an(cs, k, n - 1) + acc(cs, k, n - 1) }
}
pub proof fn lemma_sumf_acc(v: Seq<f32>, cs: Seq<Energy>, k: Sel)
    requires forall|i: int| 0 <= i < v.len() ==> rv(#[trigger] v[i]) == acc(cs, k, i),
    ensures sumf(v) == acc_an(cs, k, v.len() as int),
    decreases v.len(),
{
    if v.len() > 0 {
        assert forall|i: int| 0 <= i < v.drop_last().len() implies rv(#[trigger] v.drop_last()[i]) == acc(cs, k, i) by { assert(v.drop_last()[i] == v[i]); }
        lemma_sumf_acc(v.drop_last(), cs, k);
    }
}
pub open spec fn ratio(u: real, p: real) -> real { if p > 0real { u / p } else { 0real } }
pub open spec fn cgn_uses(cs: Seq<Energy>, only_nearby: bool, fuel: Carrier) -> bool {
    any_sel(cs, Sel::CgnFuel(fuel)) && (!only_nearby || cr_is_nearby(fuel))
}
pub open spec fn cgn_term(w: Seq<Factor>, cs: Seq<Energy>, n: int, only_nearby: bool, fuel: Carrier) -> R3 {
    if cgn_uses(cs, only_nearby, fuel) {
        r3s(ratio(acc_an(cs, Sel::CgnFuel(fuel), n), acc_an(cs, Sel::Prod(ProdSource::EL_COGEN), n)), fp(w, fuel, Source::RED, Dest::SUMINISTRO, Step::A))
    } else { r3z() }
}
pub open spec fn carriers12() -> Seq<Carrier> {
    seq![Carrier::EAMBIENTE, Carrier::BIOCARBURANTE, Carrier::BIOMASA, Carrier::BIOMASADENSIFICADA, Carrier::CARBON, Carrier::ELECTRICIDAD, Carrier::GASNATURAL, Carrier::GASOLEO, Carrier::GLP, Carrier::RED1, Carrier::RED2, Carrier::TERMOSOLAR]
}
pub proof fn lemma_carriers12()
    ensures carriers12().no_duplicates(), forall|c: Carrier| carriers12().contains(c), carriers12().len() == 12,
{
    let l = carriers12();
    assert forall|c: Carrier| l.contains(c) by {
        match c {
            Carrier::EAMBIENTE => { assert(l[0] == Carrier::EAMBIENTE); }
            Carrier::BIOCARBURANTE => { assert(l[1] == Carrier::BIOCARBURANTE); }
            Carrier::BIOMASA => { assert(l[2] == Carrier::BIOMASA); }
            Carrier::BIOMASADENSIFICADA => { assert(l[3] == Carrier::BIOMASADENSIFICADA); }
            Carrier::CARBON => { assert(l[4] == Carrier::CARBON); }
            Carrier::ELECTRICIDAD => { assert(l[5] == Carrier::ELECTRICIDAD); }
            Carrier::GASNATURAL => { assert(l[6] == Carrier::GASNATURAL); }
            Carrier::GASOLEO => { assert(l[7] == Carrier::GASOLEO); }
            Carrier::GLP => { assert(l[8] == Carrier::GLP); }
            Carrier::RED1 => { assert(l[9] == Carrier::RED1); }
            Carrier::RED2 => { assert(l[10] == Carrier::RED2); }
            Carrier::TERMOSOLAR => { assert(l[11] == Carrier::TERMOSOLAR); }
        }
    }
}
pub open spec fn cgn_sum(w: Seq<Factor>, cs: Seq<Energy>, n: int, only_nearby: bool, l: Seq<Carrier>) -> R3 decreases l.len() {
    if l.len() == 0 { r3z() } else { r3a(cgn_sum(w, cs, n, only_nearby, l.drop_last()), cgn_term(w, cs, n, only_nearby, l.last())) }
}
/// the derived factor: Σ over the twelve carriers (each exactly once) of fP(fuel) * annual input / annual cogenerated electricity
pub open spec fn cgn_factor(w: Seq<Factor>, cs: Seq<Energy>, n: int, only_nearby: bool) -> R3 { cgn_sum(w, cs, n, only_nearby, carriers12()) }
pub open spec fn pcgn_term(w: Seq<Factor>, cs: Seq<Energy>, n: int, only_nearby: bool, rem: Seq<(&Carrier, &Vec<f32>)>, m: int, fuel: Carrier) -> R3 {
    if visited(rem, m, fuel) { cgn_term(w, cs, n, only_nearby, fuel) } else { r3z() }
}
pub open spec fn pcgn_sum(w: Seq<Factor>, cs: Seq<Energy>, n: int, only_nearby: bool, rem: Seq<(&Carrier, &Vec<f32>)>, m: int, l: Seq<Carrier>) -> R3 decreases l.len() {
    if l.len() == 0 { r3z() } else { r3a(pcgn_sum(w, cs, n, only_nearby, rem, m, l.drop_last()), pcgn_term(w, cs, n, only_nearby, rem, m, l.last())) }
}
pub open spec fn pcgn_factor(w: Seq<Factor>, cs: Seq<Energy>, n: int, only_nearby: bool, rem: Seq<(&Carrier, &Vec<f32>)>, m: int) -> R3 {
    pcgn_sum(w, cs, n, only_nearby, rem, m, carriers12())
}
/// visiting one more key `k` adds exactly its term, once
pub proof fn lemma_pcgn_step(w: Seq<Factor>, cs: Seq<Energy>, n: int, only_nearby: bool, rem: Seq<(&Carrier, &Vec<f32>)>, m: int, l: Seq<Carrier>, k: Carrier)
    requires l.no_duplicates(), !visited(rem, m, k), visited(rem, m + 1, k),
             forall|x: Carrier| x != k ==> #[trigger] visited(rem, m + 1, x) == visited(rem, m, x),
    ensures pcgn_sum(w, cs, n, only_nearby, rem, m + 1, l) == (if l.contains(k) { r3a(pcgn_sum(w, cs, n, only_nearby, rem, m, l), cgn_term(w, cs, n, only_nearby, k)) }
                                                               else { pcgn_sum(w, cs, n, only_nearby, rem, m, l) }),
    decreases l.len(),
{
    if l.len() > 0 {
        let l0 = l.drop_last();
        let x = l.last();
        assert(l0.no_duplicates()) by { assert forall|i: int, j: int| 0 <= i < l0.len() && 0 <= j < l0.len() && i != j implies l0[i] != l0[j] by { assert(l0[i] == l[i] && l0[j] == l[j]); } }
        lemma_pcgn_step(w, cs, n, only_nearby, rem, m, l0, k);
        if x == k {
            assert(!l0.contains(k)) by { if l0.contains(k) { let i = choose|i: int| 0 <= i < l0.len() && l0[i] == k; assert(l[i] == k && l[l.len() - 1] == k); } }
            assert(l.contains(k)) by { assert(l[l.len() - 1] == k); }
        } else {
            assert(l.contains(k) == l0.contains(k)) by {
                if l.contains(k) { let i = choose|i: int| 0 <= i < l.len() && l[i] == k; assert(i < l.len() - 1); assert(l0[i] == k); }
                if l0.contains(k) { let i = choose|i: int| 0 <= i < l0.len() && l0[i] == k; assert(l[i] == k); }
            }
        }
    }
}
pub proof fn lemma_pcgn_none(w: Seq<Factor>, cs: Seq<Energy>, n: int, only_nearby: bool, rem: Seq<(&Carrier, &Vec<f32>)>, l: Seq<Carrier>)
    ensures pcgn_sum(w, cs, n, only_nearby, rem, 0, l) == r3z(),
    decreases l.len(),
{
    if l.len() > 0 { lemma_pcgn_none(w, cs, n, only_nearby, rem, l.drop_last()); }
}
/// once every fuel that has a cogeneration use has been visited the partial sum is the whole sum
pub proof fn lemma_pcgn_full(w: Seq<Factor>, cs: Seq<Energy>, n: int, only_nearby: bool, rem: Seq<(&Carrier, &Vec<f32>)>, m: int, l: Seq<Carrier>)
    ensures (forall|x: Carrier| any_sel(cs, Sel::CgnFuel(x)) ==> #[trigger] visited(rem, m, x))
        ==> pcgn_sum(w, cs, n, only_nearby, rem, m, l) == cgn_sum(w, cs, n, only_nearby, l),
    decreases l.len(),
{
    if l.len() > 0 { lemma_pcgn_full(w, cs, n, only_nearby, rem, m, l.drop_last()); }
}
pub open spec fn cgn_factors_ok(w: Seq<Factor>, cs: Seq<Energy>, only_nearby: bool) -> bool {
    forall|fuel: Carrier| cgn_uses(cs, only_nearby, fuel) ==> #[trigger] has_fp(w, fuel, Source::RED, Dest::SUMINISTRO, Step::A)
}
pub open spec fn any_cgn_use(cs: Seq<Energy>) -> bool { exists|fuel: Carrier| any_sel(cs, Sel::CgnFuel(fuel)) }
pub open spec fn nsteps(cs: Seq<Energy>) -> nat { if cs.len() > 0 { e_vals(cs[0]).len() } else { 0 } }
/// all components have the same number of time steps (checked by FromStr for Components)
pub open spec fn comps_wf(cs: Seq<Energy>) -> bool { wf_list(cs, nsteps(cs)) }
pub open spec fn has_cgn_prod(cs: Seq<Energy>) -> bool { any_sel(cs, Sel::Prod(ProdSource::EL_COGEN)) && nsteps(cs) > 0 }
