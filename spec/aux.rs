// ---- assign_aux_nepb_to_epb_services (C06): sum-level relational specification (ghost code only)
pub open spec fn services7() -> Seq<Service> {
    seq![Service::ACS, Service::CAL, Service::REF, Service::VEN, Service::ILU, Service::NEPB, Service::COGEN]
}
pub proof fn lemma_services7()
    ensures services7().no_duplicates(), forall|s: Service| #[trigger] services7().contains(s),
{
    let l = services7();
    assert(l.len() == 7);
    assert forall|s: Service| #[trigger] l.contains(s) by {
        match s {
            Service::ACS => assert(l[0] == s), Service::CAL => assert(l[1] == s), Service::REF => assert(l[2] == s), Service::VEN => assert(l[3] == s),
            Service::ILU => assert(l[4] == s), Service::NEPB => assert(l[5] == s), Service::COGEN => assert(l[6] == s),
        }
    }
}
pub enum ASel { AuxAll(i32), Aux(i32, Service), Out(i32, Service) }
pub open spec fn a_sel(k: ASel, e: Energy) -> bool {
    match k {
        ASel::AuxAll(id) => e is Aux && e_id(e) == id,
        ASel::Aux(id, s) => e is Aux && e_id(e) == id && e->Aux_0.service == s,
        ASel::Out(id, s) => e is Out && e_id(e) == id && e->Out_0.service == s,
    }
}
pub open spec fn a_sum(cs: Seq<Energy>, n: int, k: ASel, t: int) -> real decreases n {
    if n <= 0 { 0real } else { a_sum(cs, n - 1, k, t) + (if a_sel(k, cs[n - 1]) { ls_get(e_vals(cs[n - 1]), t) } else { 0real }) }
}
pub open spec fn a_any(cs: Seq<Energy>, n: int, k: ASel) -> bool { exists|j: int| 0 <= j < n && a_sel(k, #[trigger] cs[j]) }
/// service s is among the services of the uses (CONSUMO) of system id (first n components)
pub open spec fn use_srv(cs: Seq<Energy>, n: int, id: i32, s: Service) -> bool {
    exists|j: int| 0 <= j < n && (#[trigger] cs[j]) is Used && e_id(cs[j]) == id && cs[j]->Used_0.service == s
}
pub open spec fn view_sset(s: HashSet<Service>) -> Set<Service> { s@ }
pub open spec fn view_vsrv(v: Vec<Service>) -> Seq<Service> { v@ }
pub open spec fn svisited(rem: Seq<&i32>, n: int, x: i32) -> bool { exists|j: int| 0 <= j < n && *(#[trigger] rem[j]) == x }
/// keys() of a map: a duplicate-free enumeration of exactly its domain
pub open spec fn keys_iter_ok<V>(m: Map<Service, V>, rem: Seq<&Service>) -> bool {
    &&& rem.no_duplicates()
    &&& rem.len() == m.len()
    &&& (forall|k: Service| m.contains_key(k) ==> exists|j: int| 0 <= j < rem.len() && *(#[trigger] rem[j]) == k)
}
pub proof fn lemma_keys_in_dom<V>(m: Map<Service, V>, rem: Seq<&Service>)
    requires keys_iter_ok(m, rem), m.dom().finite(),
    ensures forall|j: int| 0 <= j < rem.len() ==> m.contains_key(*(#[trigger] rem[j])),
{
    let vals = rem.map_values(|r: &Service| *r);
    assert(vals.no_duplicates()) by {
        assert forall|i: int, j: int| 0 <= i < vals.len() && 0 <= j < vals.len() && i != j implies vals[i] != vals[j] by {
            assert(rem[i] != rem[j]);
        }
    }
    vals.unique_seq_to_set();
    assert(vals.to_set().len() == m.dom().len());
    assert(m.dom().subset_of(vals.to_set())) by {
        assert forall|k: Service| m.dom().contains(k) implies vals.to_set().contains(k) by {
            let j = choose|j: int| 0 <= j < rem.len() && *(#[trigger] rem[j]) == k;
            assert(vals[j] == k);
        }
    }
    vstd::set_lib::lemma_subset_equality(m.dom(), vals.to_set());
    assert forall|j: int| 0 <= j < rem.len() implies m.contains_key(*(#[trigger] rem[j])) by {
        assert(vals[j] == *rem[j]);
        assert(vals.to_set().contains(vals[j]));
    }
}

// ---- how the sums react to the three operations of the function: in-place update, order-preserving removal, push
/// pointwise: selectors agree element by element and the series are the same => same sum
pub proof fn lemma_a_pointwise(a: Seq<Energy>, b: Seq<Energy>, n: int, ka: ASel, kb: ASel, t: int)
    requires 0 <= n <= a.len(), n <= b.len(),
        forall|j: int| 0 <= j < n ==> a_sel(ka, #[trigger] a[j]) == a_sel(kb, b[j]) && e_vals(a[j]) == e_vals(b[j]),
    ensures a_sum(a, n, ka, t) == a_sum(b, n, kb, t), a_any(a, n, ka) == a_any(b, n, kb),
    decreases n,
{
    if n > 0 {
        lemma_a_pointwise(a, b, n - 1, ka, kb, t);
        assert(a_sel(ka, a[n - 1]) == a_sel(kb, b[n - 1]));
        if a_any(a, n, ka) { let j = choose|j: int| 0 <= j < n && a_sel(ka, #[trigger] a[j]); assert(a_sel(kb, b[j])); }
        if a_any(b, n, kb) { let j = choose|j: int| 0 <= j < n && a_sel(kb, #[trigger] b[j]); assert(a_sel(ka, a[j])); assert(a_any(a, n, ka)); }
    } else {
        assert(!a_any(a, n, ka) && !a_any(b, n, kb));
    }
}
pub proof fn lemma_a_none(a: Seq<Energy>, n: int, k: ASel, t: int)
    requires 0 <= n <= a.len(), forall|j: int| 0 <= j < n ==> !a_sel(k, #[trigger] a[j]),
    ensures a_sum(a, n, k, t) == 0real, !a_any(a, n, k),
    decreases n,
{
    if n > 0 { lemma_a_none(a, n - 1, k, t); }
}
pub proof fn lemma_a_not_any(a: Seq<Energy>, n: int, k: ASel, t: int)
    requires 0 <= n <= a.len(), !a_any(a, n, k),
    ensures a_sum(a, n, k, t) == 0real,
{
    assert forall|j: int| 0 <= j < n implies !a_sel(k, #[trigger] a[j]) by { if a_sel(k, a[j]) { assert(a_any(a, n, k)); } }
    lemma_a_none(a, n, k, t);
}
pub proof fn lemma_a_push(a: Seq<Energy>, e: Energy, k: ASel, t: int)
    ensures a_sum(a.push(e), (a.len() as int + 1), k, t) == a_sum(a, a.len() as int, k, t) + (if a_sel(k, e) { ls_get(e_vals(e), t) } else { 0real }),
            a_any(a.push(e), (a.len() as int + 1), k) == (a_any(a, a.len() as int, k) || a_sel(k, e)),
{
    let b = a.push(e);
    assert forall|j: int| 0 <= j < a.len() implies a_sel(k, #[trigger] b[j]) == a_sel(k, a[j]) && e_vals(b[j]) == e_vals(a[j]) by { assert(b[j] == a[j]); }
    lemma_a_pointwise(b, a, a.len() as int, k, k, t);
    assert(b[a.len() as int] == e);
    assert(a_sum(b, (a.len() as int + 1), k, t) == a_sum(b, a.len() as int, k, t) + (if a_sel(k, b[a.len() as int]) { ls_get(e_vals(b[a.len() as int]), t) } else { 0real }));
    if a_any(b, (a.len() as int + 1), k) { let j = choose|j: int| 0 <= j < (a.len() as int + 1) && a_sel(k, #[trigger] b[j]); if j < a.len() { assert(a_any(b, a.len() as int, k)); } }
    if a_any(a, a.len() as int, k) { let j = choose|j: int| 0 <= j < a.len() && a_sel(k, #[trigger] a[j]); assert(a_sel(k, b[j])); }
    if a_sel(k, e) { assert(a_sel(k, b[a.len() as int])); }
}
/// what `retain(|c| !(c.is_aux() && c.has_id(id)))` keeps of the first n components
pub open spec fn rfilter(cs: Seq<Energy>, n: int, id: i32) -> Seq<Energy> decreases n {
    if n <= 0 { Seq::empty() } else if !(cs[n - 1] is Aux && e_id(cs[n - 1]) == id) { rfilter(cs, n - 1, id).push(cs[n - 1]) } else { rfilter(cs, n - 1, id) }
}
pub open spec fn a_touches(k: ASel, id: i32) -> bool {
    match k { ASel::AuxAll(u) => u == id, ASel::Aux(u, _) => u == id, ASel::Out(_, _) => false }
}
pub proof fn lemma_a_rfilter(cs: Seq<Energy>, n: int, id: i32, k: ASel, t: int)
    requires 0 <= n <= cs.len(),
    ensures
        a_touches(k, id) ==> a_sum(rfilter(cs, n, id), rfilter(cs, n, id).len() as int, k, t) == 0real && !a_any(rfilter(cs, n, id), rfilter(cs, n, id).len() as int, k),
        !a_touches(k, id) ==> a_sum(rfilter(cs, n, id), rfilter(cs, n, id).len() as int, k, t) == a_sum(cs, n, k, t)
            && a_any(rfilter(cs, n, id), rfilter(cs, n, id).len() as int, k) == a_any(cs, n, k),
    decreases n,
{
    if n > 0 {
        lemma_a_rfilter(cs, n - 1, id, k, t);
        let a = rfilter(cs, n - 1, id);
        let e = cs[n - 1];
        if !(e is Aux && e_id(e) == id) {
            lemma_a_push(a, e, k, t);
            if a_touches(k, id) { assert(!a_sel(k, e)); }
        } else {
            if !a_touches(k, id) { assert(!a_sel(k, e)); }
        }
        if !a_touches(k, id) {
            if a_any(cs, n, k) { let j = choose|j: int| 0 <= j < n && a_sel(k, #[trigger] cs[j]); if j < n - 1 { assert(a_any(cs, n - 1, k)); } }
            if a_any(cs, n - 1, k) { let j = choose|j: int| 0 <= j < n - 1 && a_sel(k, #[trigger] cs[j]); assert(a_sel(k, cs[j])); }
        }
    } else {
        assert(!a_any(rfilter(cs, n, id), 0, k));
        assert(!a_any(cs, n, k));
    }
}
pub proof fn lemma_rfilter_props(cs: Seq<Energy>, n: int, id: i32, m: nat)
    requires 0 <= n <= cs.len(), wf_list(cs, m),
    ensures wf_list(rfilter(cs, n, id), m),
        forall|s: Service, u: i32| #[trigger] use_srv(rfilter(cs, n, id), rfilter(cs, n, id).len() as int, u, s) == use_srv(cs, n, u, s),
    decreases n,
{
    if n > 0 {
        lemma_rfilter_props(cs, n - 1, id, m);
        let a = rfilter(cs, n - 1, id);
        let b = rfilter(cs, n, id);
        let e = cs[n - 1];
        let kept = !(e is Aux && e_id(e) == id);
        assert(b == (if kept { a.push(e) } else { a }));
        assert forall|j: int| 0 <= j < a.len() implies #[trigger] b[j] == a[j] by {}
        assert forall|s: Service, u: i32| #[trigger] use_srv(b, b.len() as int, u, s) == use_srv(cs, n, u, s) by {
            let ua = use_srv(a, a.len() as int, u, s);
            let uc1 = use_srv(cs, n - 1, u, s);
            assert(ua == uc1);
            if use_srv(cs, n, u, s) {
                let j = choose|j: int| 0 <= j < n && (#[trigger] cs[j]) is Used && e_id(cs[j]) == u && cs[j]->Used_0.service == s;
                if j < n - 1 {
                    assert(uc1);
                    let i = choose|i: int| 0 <= i < a.len() && (#[trigger] a[i]) is Used && e_id(a[i]) == u && a[i]->Used_0.service == s;
                    assert(b[i] == a[i]);
                    assert(b[i] is Used && e_id(b[i]) == u && b[i]->Used_0.service == s);
                } else {
                    assert(kept);
                    assert(b[a.len() as int] == e);
                    assert(b[a.len() as int] is Used && e_id(b[a.len() as int]) == u && b[a.len() as int]->Used_0.service == s);
                }
                assert(use_srv(b, b.len() as int, u, s));
            }
            if use_srv(b, b.len() as int, u, s) {
                let i = choose|i: int| 0 <= i < b.len() && (#[trigger] b[i]) is Used && e_id(b[i]) == u && b[i]->Used_0.service == s;
                if i < a.len() {
                    assert(b[i] == a[i]);
                    assert(a[i] is Used && e_id(a[i]) == u && a[i]->Used_0.service == s);
                    assert(ua);
                    let j = choose|j: int| 0 <= j < n - 1 && (#[trigger] cs[j]) is Used && e_id(cs[j]) == u && cs[j]->Used_0.service == s;
                    assert(cs[j] is Used && e_id(cs[j]) == u && cs[j]->Used_0.service == s);
                } else {
                    assert(kept && b[i] == e);
                    assert(cs[n - 1] is Used && e_id(cs[n - 1]) == u && cs[n - 1]->Used_0.service == s);
                }
                assert(use_srv(cs, n, u, s));
            }
        }
    } else {
        assert forall|s: Service, u: i32| #[trigger] use_srv(rfilter(cs, n, id), 0, u, s) == use_srv(cs, n, u, s) by {}
    }
}
/// the in-place update of the single-service branch
pub open spec fn set_srv(e: Energy, id: i32, s: Service) -> Energy {
    match e { Energy::Aux(x) => if x.id == id { Energy::Aux(EAux { id: x.id, service: s, values: x.values, comment: x.comment }) } else { e }, _ => e }
}
pub open spec fn a_other(k: ASel, id: i32) -> bool {
    match k { ASel::Aux(u, _) => u != id, _ => true }
}
pub proof fn lemma_set_srv(a: Seq<Energy>, b: Seq<Energy>, id: i32, srv: Service, k: ASel, t: int)
    requires a.len() == b.len(), forall|j: int| 0 <= j < a.len() ==> #[trigger] b[j] == set_srv(a[j], id, srv),
    ensures
        a_other(k, id) ==> a_sum(b, b.len() as int, k, t) == a_sum(a, a.len() as int, k, t) && a_any(b, b.len() as int, k) == a_any(a, a.len() as int, k),
        forall|s: Service| a_sum(b, b.len() as int, ASel::Aux(id, s), t) == (if s == srv { a_sum(a, a.len() as int, ASel::AuxAll(id), t) } else { 0real }),
{
    let n = a.len() as int;
    if a_other(k, id) {
        assert forall|j: int| 0 <= j < n implies a_sel(k, #[trigger] b[j]) == a_sel(k, a[j]) && e_vals(b[j]) == e_vals(a[j]) by { assert(b[j] == set_srv(a[j], id, srv)); }
        lemma_a_pointwise(b, a, n, k, k, t);
    }
    assert forall|s: Service| a_sum(b, n, ASel::Aux(id, s), t) == (if s == srv { a_sum(a, n, ASel::AuxAll(id), t) } else { 0real }) by {
        if s == srv {
            assert forall|j: int| 0 <= j < n implies a_sel(ASel::Aux(id, s), #[trigger] b[j]) == a_sel(ASel::AuxAll(id), a[j]) && e_vals(b[j]) == e_vals(a[j]) by { assert(b[j] == set_srv(a[j], id, srv)); }
            lemma_a_pointwise(b, a, n, ASel::Aux(id, s), ASel::AuxAll(id), t);
        } else {
            assert forall|j: int| 0 <= j < n implies !a_sel(ASel::Aux(id, s), #[trigger] b[j]) by { assert(b[j] == set_srv(a[j], id, srv)); }
            lemma_a_none(b, n, ASel::Aux(id, s), t);
        }
    }
}
pub proof fn lemma_set_srv_props(a: Seq<Energy>, b: Seq<Energy>, id: i32, srv: Service, m: nat)
    requires a.len() == b.len(), forall|j: int| 0 <= j < a.len() ==> #[trigger] b[j] == set_srv(a[j], id, srv), wf_list(a, m),
    ensures wf_list(b, m), forall|s: Service, u: i32| use_srv(b, b.len() as int, u, s) == use_srv(a, a.len() as int, u, s),
{
    assert forall|j: int| 0 <= j < b.len() implies e_vals(#[trigger] b[j]).len() == m by { assert(b[j] == set_srv(a[j], id, srv)); assert(e_vals(a[j]).len() == m); }
    assert forall|s: Service, u: i32| use_srv(b, b.len() as int, u, s) == use_srv(a, a.len() as int, u, s) by {
        if use_srv(a, a.len() as int, u, s) { let j = choose|j: int| 0 <= j < a.len() && (#[trigger] a[j]) is Used && e_id(a[j]) == u && a[j]->Used_0.service == s; assert(b[j] == set_srv(a[j], id, srv)); assert(b[j] is Used); }
        if use_srv(b, b.len() as int, u, s) { let j = choose|j: int| 0 <= j < b.len() && (#[trigger] b[j]) is Used && e_id(b[j]) == u && b[j]->Used_0.service == s; assert(b[j] == set_srv(a[j], id, srv)); assert(a[j] is Used); }
    }
}
pub proof fn lemma_push_aux_props(a: Seq<Energy>, e: Energy, m: nat)
    requires wf_list(a, m), e is Aux, e_vals(e).len() == m,
    ensures wf_list(a.push(e), m), forall|s: Service, u: i32| use_srv(a.push(e), (a.len() as int + 1), u, s) == use_srv(a, a.len() as int, u, s),
{
    let b = a.push(e);
    assert forall|j: int| 0 <= j < b.len() implies e_vals(#[trigger] b[j]).len() == m by { if j < a.len() { assert(b[j] == a[j]); } else { assert(b[j] == e); } }
    assert forall|s: Service, u: i32| use_srv(b, (a.len() as int + 1), u, s) == use_srv(a, a.len() as int, u, s) by {
        if use_srv(a, a.len() as int, u, s) { let j = choose|j: int| 0 <= j < a.len() && (#[trigger] a[j]) is Used && e_id(a[j]) == u && a[j]->Used_0.service == s; assert(b[j] == a[j]); assert(b[j] is Used); }
        if use_srv(b, (a.len() as int + 1), u, s) { let j = choose|j: int| 0 <= j < (a.len() as int + 1) && (#[trigger] b[j]) is Used && e_id(b[j]) == u && b[j]->Used_0.service == s; if j < a.len() { assert(b[j] == a[j]); assert(a[j] is Used); } else { assert(b[j] == e); } }
    }
}

// ---- the target of the assignment
pub open spec fn q_abs(cs: Seq<Energy>, id: i32, s: Service, t: int) -> real {
    if a_any(cs, cs.len() as int, ASel::Out(id, s)) { rabs(a_sum(cs, cs.len() as int, ASel::Out(id, s), t)) } else { 0real }
}
/// sum over the services that have output of the magnitude of that output
pub open spec fn q_tot(cs: Seq<Energy>, id: i32, t: int, l: Seq<Service>) -> real decreases l.len() {
    if l.len() == 0 { 0real } else { q_tot(cs, id, t, l.drop_last()) + q_abs(cs, id, l.last(), t) }
}
/// the uses of system id all have the same, single service
pub open spec fn aux_one(cs: Seq<Energy>, id: i32) -> bool {
    exists|s0: Service| #[trigger] use_srv(cs, cs.len() as int, id, s0) && forall|s: Service| #[trigger] use_srv(cs, cs.len() as int, id, s) ==> s == s0
}
/// auxiliary energy of system id that service s gets at step t
pub open spec fn aux_target(cs: Seq<Energy>, id: i32, s: Service, t: int) -> real {
    let tot = a_sum(cs, cs.len() as int, ASel::AuxAll(id), t);
    if !a_any(cs, cs.len() as int, ASel::AuxAll(id)) { 0real }
    else if aux_one(cs, id) { if use_srv(cs, cs.len() as int, id, s) { tot } else { 0real } }
    else {
        let q = q_tot(cs, id, t, services7());
        if a_any(cs, cs.len() as int, ASel::Out(id, s)) { rmul(if q > 0real { q_abs(cs, id, s, t) / q } else { 0real }, tot) } else { 0real }
    }
}
/// components other than auxiliaries, in order
pub open spec fn nfilter(cs: Seq<Energy>, n: int) -> Seq<Energy> decreases n {
    if n <= 0 { Seq::empty() } else if !(cs[n - 1] is Aux) { nfilter(cs, n - 1).push(cs[n - 1]) } else { nfilter(cs, n - 1) }
}
pub open spec fn aux_ok(d0: Seq<Energy>, d1: Seq<Energy>) -> bool {
    &&& wf_list(d1, nsteps(d0))
    // every component that is not an auxiliary one is kept, unaltered, in order
    &&& nfilter(d1, d1.len() as int) == nfilter(d0, d0.len() as int)
    // per system, service and step the auxiliary energy is exactly the share the property describes
    &&& forall|id: i32, s: Service, t: int| 0 <= t < nsteps(d0) ==> #[trigger] a_sum(d1, d1.len() as int, ASel::Aux(id, s), t) == aux_target(d0, id, s, t)
}

// ---- nfilter under the three operations
pub proof fn lemma_nfilter_pointwise(a: Seq<Energy>, b: Seq<Energy>, n: int)
    requires 0 <= n <= a.len(), n <= b.len(), forall|j: int| 0 <= j < n ==> ((#[trigger] a[j]) is Aux) == (b[j] is Aux) && (!(a[j] is Aux) ==> a[j] == b[j]),
    ensures nfilter(a, n) == nfilter(b, n),
    decreases n,
{
    if n > 0 { lemma_nfilter_pointwise(a, b, n - 1); assert((a[n - 1] is Aux) == (b[n - 1] is Aux)); }
}
pub proof fn lemma_nfilter_push(a: Seq<Energy>, e: Energy)
    ensures nfilter(a.push(e), (a.len() as int + 1)) == (if e is Aux { nfilter(a, a.len() as int) } else { nfilter(a, a.len() as int).push(e) }),
{
    let b = a.push(e);
    assert forall|j: int| 0 <= j < a.len() implies ((#[trigger] b[j]) is Aux) == (a[j] is Aux) && (!(b[j] is Aux) ==> b[j] == a[j]) by { assert(b[j] == a[j]); }
    lemma_nfilter_pointwise(b, a, a.len() as int);
    assert(b[a.len() as int] == e);
}
pub proof fn lemma_nfilter_rfilter(cs: Seq<Energy>, n: int, id: i32)
    requires 0 <= n <= cs.len(),
    ensures nfilter(rfilter(cs, n, id), rfilter(cs, n, id).len() as int) == nfilter(cs, n),
    decreases n,
{
    if n > 0 {
        lemma_nfilter_rfilter(cs, n - 1, id);
        let e = cs[n - 1];
        if !(e is Aux && e_id(e) == id) { lemma_nfilter_push(rfilter(cs, n - 1, id), e); }
    }
}
// ---- the loop invariant of the loop over the systems that have auxiliaries, and its closing lemma
#[verifier::opaque]
pub open spec fn aux_inv(d0: Seq<Energy>, d: Seq<Energy>, rem: Seq<&i32>, idx: int, m: nat) -> bool {
    &&& wf_list(d, m) && wf_list(d0, m)
    &&& nfilter(d, d.len() as int) == nfilter(d0, d0.len() as int)
    &&& (forall|u: i32, s: Service| #[trigger] use_srv(d, d.len() as int, u, s) == use_srv(d0, d0.len() as int, u, s))
    &&& (forall|u: i32, s: Service, t: int| #[trigger] a_sum(d, d.len() as int, ASel::Out(u, s), t) == a_sum(d0, d0.len() as int, ASel::Out(u, s), t))
    &&& (forall|u: i32, s: Service| #[trigger] a_any(d, d.len() as int, ASel::Out(u, s)) == a_any(d0, d0.len() as int, ASel::Out(u, s)))
    &&& (forall|u: i32, s: Service, t: int| !svisited(rem, idx, u) ==> #[trigger] a_sum(d, d.len() as int, ASel::Aux(u, s), t) == a_sum(d0, d0.len() as int, ASel::Aux(u, s), t))
    &&& (forall|u: i32, t: int| !svisited(rem, idx, u) ==> #[trigger] a_sum(d, d.len() as int, ASel::AuxAll(u), t) == a_sum(d0, d0.len() as int, ASel::AuxAll(u), t))
    &&& (forall|u: i32| !svisited(rem, idx, u) ==> #[trigger] a_any(d, d.len() as int, ASel::AuxAll(u)) == a_any(d0, d0.len() as int, ASel::AuxAll(u)))
    &&& (forall|u: i32, s: Service, t: int| svisited(rem, idx, u) && 0 <= t < m ==> #[trigger] a_sum(d, d.len() as int, ASel::Aux(u, s), t) == aux_target(d0, u, s, t))
}
pub proof fn lemma_aux_inv_init(d0: Seq<Energy>, rem: Seq<&i32>, m: nat)
    requires wf_list(d0, m),
    ensures aux_inv(d0, d0, rem, 0, m),
{
    reveal(aux_inv);
    assert forall|u: i32| !svisited(rem, 0, u) by {}
}
pub proof fn lemma_svisit_step(rem: Seq<&i32>, n: int)
    requires rem.no_duplicates(), 0 <= n < rem.len(),
    ensures !svisited(rem, n, *rem[n]), svisited(rem, n + 1, *rem[n]),
        forall|x: i32| x != *rem[n] ==> #[trigger] svisited(rem, n + 1, x) == svisited(rem, n, x),
{
    let k = *rem[n];
    if svisited(rem, n, k) { let j = choose|j: int| 0 <= j < n && *(#[trigger] rem[j]) == k; assert(rem[j] == rem[n]); }
    assert(svisited(rem, n + 1, k)) by { assert(*rem[n] == k); }
    assert forall|x: i32| x != k implies #[trigger] svisited(rem, n + 1, x) == svisited(rem, n, x) by {
        if svisited(rem, n + 1, x) { let j = choose|j: int| 0 <= j < n + 1 && *(#[trigger] rem[j]) == x; assert(j < n); }
        if svisited(rem, n, x) { let j = choose|j: int| 0 <= j < n && *(#[trigger] rem[j]) == x; assert(0 <= j < n + 1 && *rem[j] == x); }
    }
}
/// closing: once every system with auxiliaries has been visited the data satisfy the specification
pub proof fn lemma_aux_final(d0: Seq<Energy>, d: Seq<Energy>, rem: Seq<&i32>, m: nat)
    requires aux_inv(d0, d, rem, rem.len() as int, m), m == nsteps(d0),
        forall|x: i32| a_any(d0, d0.len() as int, ASel::AuxAll(x)) ==> #[trigger] svisited(rem, rem.len() as int, x),
    ensures aux_ok(d0, d),
{
    reveal(aux_inv);
    assert forall|id: i32, s: Service, t: int| 0 <= t < nsteps(d0) implies #[trigger] a_sum(d, d.len() as int, ASel::Aux(id, s), t) == aux_target(d0, id, s, t) by {
        if !svisited(rem, rem.len() as int, id) {
            assert(!a_any(d0, d0.len() as int, ASel::AuxAll(id)));
            assert forall|j: int| 0 <= j < d0.len() implies !a_sel(ASel::Aux(id, s), #[trigger] d0[j]) by {
                if a_sel(ASel::Aux(id, s), d0[j]) { assert(a_sel(ASel::AuxAll(id), d0[j])); }
            }
            lemma_a_none(d0, d0.len() as int, ASel::Aux(id, s), t);
        }
    }
}
/// the enum sum of |output| is the same on two lists that agree on the output sums
pub proof fn lemma_q_tot_eq(a: Seq<Energy>, b: Seq<Energy>, id: i32, t: int, l: Seq<Service>)
    requires forall|s: Service| #[trigger] a_sum(a, a.len() as int, ASel::Out(id, s), t) == a_sum(b, b.len() as int, ASel::Out(id, s), t),
             forall|s: Service| #[trigger] a_any(a, a.len() as int, ASel::Out(id, s)) == a_any(b, b.len() as int, ASel::Out(id, s)),
    ensures q_tot(a, id, t, l) == q_tot(b, id, t, l),
    decreases l.len(),
{
    if l.len() > 0 {
        lemma_q_tot_eq(a, b, id, t, l.drop_last());
        let s = l.last();
        assert(a_sum(a, a.len() as int, ASel::Out(id, s), t) == a_sum(b, b.len() as int, ASel::Out(id, s), t));
        assert(a_any(a, a.len() as int, ASel::Out(id, s)) == a_any(b, b.len() as int, ASel::Out(id, s)));
    }
}
/// one iteration, single-service system: the auxiliaries of `id` get service `srv` in place
pub proof fn lemma_aux_single(d0: Seq<Energy>, a: Seq<Energy>, b: Seq<Energy>, rem: Seq<&i32>, ki: int, id: i32, srv: Service, m: nat)
    requires aux_inv(d0, a, rem, ki, m), rem.no_duplicates(), 0 <= ki < rem.len(), *rem[ki] == id,
        a.len() == b.len(), forall|j: int| 0 <= j < a.len() ==> #[trigger] b[j] == set_srv(a[j], id, srv),
        a_any(d0, d0.len() as int, ASel::AuxAll(id)),
        use_srv(a, a.len() as int, id, srv), forall|s: Service| #[trigger] use_srv(a, a.len() as int, id, s) ==> s == srv,
    ensures aux_inv(d0, b, rem, ki + 1, m),
{
    reveal(aux_inv);
    lemma_svisit_step(rem, ki);
    lemma_set_srv_props(a, b, id, srv, m);
    assert forall|j: int| 0 <= j < a.len() implies ((#[trigger] b[j]) is Aux) == (a[j] is Aux) && (!(b[j] is Aux) ==> b[j] == a[j]) by { assert(b[j] == set_srv(a[j], id, srv)); }
    lemma_nfilter_pointwise(b, a, a.len() as int);
    assert forall|u: i32, s: Service, t: int| #[trigger] a_sum(b, b.len() as int, ASel::Out(u, s), t) == a_sum(d0, d0.len() as int, ASel::Out(u, s), t) by {
        lemma_set_srv(a, b, id, srv, ASel::Out(u, s), t);
        assert(a_sum(a, a.len() as int, ASel::Out(u, s), t) == a_sum(d0, d0.len() as int, ASel::Out(u, s), t));
    }
    assert forall|u: i32, s: Service| #[trigger] a_any(b, b.len() as int, ASel::Out(u, s)) == a_any(d0, d0.len() as int, ASel::Out(u, s)) by {
        lemma_set_srv(a, b, id, srv, ASel::Out(u, s), 0);
        assert(a_any(a, a.len() as int, ASel::Out(u, s)) == a_any(d0, d0.len() as int, ASel::Out(u, s)));
    }
    assert forall|u: i32, s: Service, t: int| !svisited(rem, ki + 1, u) implies #[trigger] a_sum(b, b.len() as int, ASel::Aux(u, s), t) == a_sum(d0, d0.len() as int, ASel::Aux(u, s), t) by {
        assert(u != id && !svisited(rem, ki, u));
        lemma_set_srv(a, b, id, srv, ASel::Aux(u, s), t);
        assert(a_sum(a, a.len() as int, ASel::Aux(u, s), t) == a_sum(d0, d0.len() as int, ASel::Aux(u, s), t));
    }
    assert forall|u: i32, t: int| !svisited(rem, ki + 1, u) implies #[trigger] a_sum(b, b.len() as int, ASel::AuxAll(u), t) == a_sum(d0, d0.len() as int, ASel::AuxAll(u), t) by {
        assert(u != id && !svisited(rem, ki, u));
        lemma_set_srv(a, b, id, srv, ASel::AuxAll(u), t);
        assert(a_sum(a, a.len() as int, ASel::AuxAll(u), t) == a_sum(d0, d0.len() as int, ASel::AuxAll(u), t));
    }
    assert forall|u: i32| !svisited(rem, ki + 1, u) implies #[trigger] a_any(b, b.len() as int, ASel::AuxAll(u)) == a_any(d0, d0.len() as int, ASel::AuxAll(u)) by {
        assert(u != id && !svisited(rem, ki, u));
        lemma_set_srv(a, b, id, srv, ASel::AuxAll(u), 0);
        assert(a_any(a, a.len() as int, ASel::AuxAll(u)) == a_any(d0, d0.len() as int, ASel::AuxAll(u)));
    }
    assert forall|u: i32, s: Service, t: int| svisited(rem, ki + 1, u) && 0 <= t < m implies #[trigger] a_sum(b, b.len() as int, ASel::Aux(u, s), t) == aux_target(d0, u, s, t) by {
        if u == id {
            lemma_set_srv(a, b, id, srv, ASel::AuxAll(id), t);
            assert(a_sum(b, b.len() as int, ASel::Aux(id, s), t) == (if s == srv { a_sum(a, a.len() as int, ASel::AuxAll(id), t) } else { 0real }));
            assert(a_sum(a, a.len() as int, ASel::AuxAll(id), t) == a_sum(d0, d0.len() as int, ASel::AuxAll(id), t));
            assert(use_srv(d0, d0.len() as int, id, srv)) by { assert(use_srv(a, a.len() as int, id, srv) == use_srv(d0, d0.len() as int, id, srv)); }
            assert forall|s2: Service| #[trigger] use_srv(d0, d0.len() as int, id, s2) implies s2 == srv by { assert(use_srv(a, a.len() as int, id, s2) == use_srv(d0, d0.len() as int, id, s2)); }
            assert(aux_one(d0, id));
            assert(use_srv(d0, d0.len() as int, id, s) == (s == srv)) by { assert(use_srv(a, a.len() as int, id, s) == use_srv(d0, d0.len() as int, id, s)); }
        } else {
            assert(svisited(rem, ki, u));
            lemma_set_srv(a, b, id, srv, ASel::Aux(u, s), t);
            assert(a_sum(a, a.len() as int, ASel::Aux(u, s), t) == aux_target(d0, u, s, t));
        }
    }
}
/// one iteration, system with several (or no) services: its auxiliaries are replaced by one component per service with output
pub proof fn lemma_aux_multi(d0: Seq<Energy>, a: Seq<Energy>, b: Seq<Energy>, rem: Seq<&i32>, ki: int, id: i32, m: nat)
    requires aux_inv(d0, a, rem, ki, m), rem.no_duplicates(), 0 <= ki < rem.len(), *rem[ki] == id,
        a_any(d0, d0.len() as int, ASel::AuxAll(id)), !aux_one(d0, id),
        wf_list(b, m), nfilter(b, b.len() as int) == nfilter(a, a.len() as int),
        forall|u: i32, s: Service| #[trigger] use_srv(b, b.len() as int, u, s) == use_srv(a, a.len() as int, u, s),
        forall|k: ASel, t: int| !a_touches(k, id) ==> #[trigger] a_sum(b, b.len() as int, k, t) == a_sum(a, a.len() as int, k, t),
        forall|k: ASel| !a_touches(k, id) ==> #[trigger] a_any(b, b.len() as int, k) == a_any(a, a.len() as int, k),
        forall|s: Service, t: int| 0 <= t < m ==> #[trigger] a_sum(b, b.len() as int, ASel::Aux(id, s), t) ==
            (if a_any(a, a.len() as int, ASel::Out(id, s)) {
                rmul(if q_tot(a, id, t, services7()) > 0real { q_abs(a, id, s, t) / q_tot(a, id, t, services7()) } else { 0real }, a_sum(a, a.len() as int, ASel::AuxAll(id), t))
             } else { 0real }),
    ensures aux_inv(d0, b, rem, ki + 1, m),
{
    reveal(aux_inv);
    lemma_svisit_step(rem, ki);
    assert forall|u: i32, s: Service| #[trigger] use_srv(b, b.len() as int, u, s) == use_srv(d0, d0.len() as int, u, s) by {
        assert(use_srv(a, a.len() as int, u, s) == use_srv(d0, d0.len() as int, u, s));
    }
    assert forall|u: i32, s: Service, t: int| #[trigger] a_sum(b, b.len() as int, ASel::Out(u, s), t) == a_sum(d0, d0.len() as int, ASel::Out(u, s), t) by {
        assert(!a_touches(ASel::Out(u, s), id));
        assert(a_sum(a, a.len() as int, ASel::Out(u, s), t) == a_sum(d0, d0.len() as int, ASel::Out(u, s), t));
    }
    assert forall|u: i32, s: Service| #[trigger] a_any(b, b.len() as int, ASel::Out(u, s)) == a_any(d0, d0.len() as int, ASel::Out(u, s)) by {
        assert(!a_touches(ASel::Out(u, s), id));
        assert(a_any(a, a.len() as int, ASel::Out(u, s)) == a_any(d0, d0.len() as int, ASel::Out(u, s)));
    }
    assert forall|u: i32, s: Service, t: int| !svisited(rem, ki + 1, u) implies #[trigger] a_sum(b, b.len() as int, ASel::Aux(u, s), t) == a_sum(d0, d0.len() as int, ASel::Aux(u, s), t) by {
        assert(u != id && !svisited(rem, ki, u));
        assert(!a_touches(ASel::Aux(u, s), id));
        assert(a_sum(a, a.len() as int, ASel::Aux(u, s), t) == a_sum(d0, d0.len() as int, ASel::Aux(u, s), t));
    }
    assert forall|u: i32, t: int| !svisited(rem, ki + 1, u) implies #[trigger] a_sum(b, b.len() as int, ASel::AuxAll(u), t) == a_sum(d0, d0.len() as int, ASel::AuxAll(u), t) by {
        assert(u != id && !svisited(rem, ki, u));
        assert(!a_touches(ASel::AuxAll(u), id));
        assert(a_sum(a, a.len() as int, ASel::AuxAll(u), t) == a_sum(d0, d0.len() as int, ASel::AuxAll(u), t));
    }
    assert forall|u: i32| !svisited(rem, ki + 1, u) implies #[trigger] a_any(b, b.len() as int, ASel::AuxAll(u)) == a_any(d0, d0.len() as int, ASel::AuxAll(u)) by {
        assert(u != id && !svisited(rem, ki, u));
        assert(!a_touches(ASel::AuxAll(u), id));
        assert(a_any(a, a.len() as int, ASel::AuxAll(u)) == a_any(d0, d0.len() as int, ASel::AuxAll(u)));
    }
    assert forall|u: i32, s: Service, t: int| svisited(rem, ki + 1, u) && 0 <= t < m implies #[trigger] a_sum(b, b.len() as int, ASel::Aux(u, s), t) == aux_target(d0, u, s, t) by {
        if u == id {
            assert forall|s2: Service| #[trigger] a_sum(a, a.len() as int, ASel::Out(id, s2), t) == a_sum(d0, d0.len() as int, ASel::Out(id, s2), t) by {}
            assert forall|s2: Service| #[trigger] a_any(a, a.len() as int, ASel::Out(id, s2)) == a_any(d0, d0.len() as int, ASel::Out(id, s2)) by {}
            lemma_q_tot_eq(a, d0, id, t, services7());
            assert(a_sum(a, a.len() as int, ASel::AuxAll(id), t) == a_sum(d0, d0.len() as int, ASel::AuxAll(id), t));
            assert(a_any(a, a.len() as int, ASel::Out(id, s)) == a_any(d0, d0.len() as int, ASel::Out(id, s)));
            assert(a_sum(a, a.len() as int, ASel::Out(id, s), t) == a_sum(d0, d0.len() as int, ASel::Out(id, s), t));
            assert(q_abs(a, id, s, t) == q_abs(d0, id, s, t));
        } else {
            assert(svisited(rem, ki, u));
            assert(!a_touches(ASel::Aux(u, s), id));
            assert(a_sum(a, a.len() as int, ASel::Aux(u, s), t) == aux_target(d0, u, s, t));
        }
    }
}

// ---- pieces of the multi-service branch
/// the auxiliary components of system id among the first n components
pub open spec fn xfilter(cs: Seq<Energy>, n: int, id: i32) -> Seq<Energy> decreases n {
    if n <= 0 { Seq::empty() } else if cs[n - 1] is Aux && e_id(cs[n - 1]) == id { xfilter(cs, n - 1, id).push(cs[n - 1]) } else { xfilter(cs, n - 1, id) }
}
pub proof fn lemma_xfilter(cs: Seq<Energy>, n: int, id: i32, t: int, m: nat)
    requires 0 <= n <= cs.len(), wf_list(cs, m),
    ensures es_sum(xfilter(cs, n, id), xfilter(cs, n, id).len() as int, t) == a_sum(cs, n, ASel::AuxAll(id), t),
            (xfilter(cs, n, id).len() > 0) == a_any(cs, n, ASel::AuxAll(id)), wf_list(xfilter(cs, n, id), m),
    decreases n,
{
    if n > 0 {
        lemma_xfilter(cs, n - 1, id, t, m);
        let a = xfilter(cs, n - 1, id);
        let b = xfilter(cs, n, id);
        let e = cs[n - 1];
        if e is Aux && e_id(e) == id {
            assert(b == a.push(e));
            lemma_es_sum_prefix(b, a, a.len() as int, t);
            assert(es_sum(b, b.len() as int, t) == es_sum(b, a.len() as int, t) + ls_get(e_vals(b[a.len() as int]), t));
            assert(a_sel(ASel::AuxAll(id), cs[n - 1]));
            assert(e_vals(e).len() == m);
        } else {
            if a_any(cs, n, ASel::AuxAll(id)) { let j = choose|j: int| 0 <= j < n && a_sel(ASel::AuxAll(id), #[trigger] cs[j]); assert(j < n - 1); assert(a_any(cs, n - 1, ASel::AuxAll(id))); }
        }
        if a_any(cs, n - 1, ASel::AuxAll(id)) { let j = choose|j: int| 0 <= j < n - 1 && a_sel(ASel::AuxAll(id), #[trigger] cs[j]); assert(a_sel(ASel::AuxAll(id), cs[j])); }
    } else {
        assert(!a_any(cs, n, ASel::AuxAll(id)));
    }
}
/// sums over the output map in arbitrary iteration order = sum over the seven services
pub open spec fn mq_term(q: Map<Service, Vec<f32>>, s: Service, t: int) -> real { if q.contains_key(s) { rabs(ls_get(q[s]@, t)) } else { 0real } }
pub open spec fn mq_sum(q: Map<Service, Vec<f32>>, t: int, l: Seq<Service>) -> real decreases l.len() {
    if l.len() == 0 { 0real } else { mq_sum(q, t, l.drop_last()) + mq_term(q, l.last(), t) }
}
pub open spec fn pmq_sum(q: Map<Service, Vec<f32>>, rem: Seq<(&Service, &Vec<f32>)>, n: int, t: int, l: Seq<Service>) -> real decreases l.len() {
    if l.len() == 0 { 0real } else { pmq_sum(q, rem, n, t, l.drop_last()) + (if visited(rem, n, l.last()) { mq_term(q, l.last(), t) } else { 0real }) }
}
pub proof fn lemma_pmq_step(q: Map<Service, Vec<f32>>, rem: Seq<(&Service, &Vec<f32>)>, n: int, t: int, l: Seq<Service>, k: Service)
    requires l.no_duplicates(), !visited(rem, n, k), visited(rem, n + 1, k),
             forall|x: Service| x != k ==> #[trigger] visited(rem, n + 1, x) == visited(rem, n, x),
    ensures pmq_sum(q, rem, n + 1, t, l) == pmq_sum(q, rem, n, t, l) + (if l.contains(k) { mq_term(q, k, t) } else { 0real }),
    decreases l.len(),
{
    if l.len() > 0 {
        let l0 = l.drop_last();
        let x = l.last();
        assert(l0.no_duplicates()) by { assert forall|i: int, j: int| 0 <= i < l0.len() && 0 <= j < l0.len() && i != j implies l0[i] != l0[j] by { assert(l0[i] == l[i] && l0[j] == l[j]); } }
        lemma_pmq_step(q, rem, n, t, l0, k);
        if x == k {
            assert(!l0.contains(k)) by { if l0.contains(k) { let i = choose|i: int| 0 <= i < l0.len() && l0[i] == k; assert(l[i] == k && l[l.len() - 1] == k); } }
            assert(l.contains(k)) by { assert(l[l.len() - 1] == k); }
        } else {
            assert(l.contains(k) == l0.contains(k)) by {
                if l.contains(k) { let i = choose|i: int| 0 <= i < l.len() && l[i] == k; assert(i < l.len() - 1); assert(l0[i] == k); }
                if l0.contains(k) { let i = choose|i: int| 0 <= i < l0.len() && l0[i] == k; assert(l[i] == k); }
            }
        }
    }
}
pub proof fn lemma_pmq_none(q: Map<Service, Vec<f32>>, rem: Seq<(&Service, &Vec<f32>)>, t: int, l: Seq<Service>)
    ensures pmq_sum(q, rem, 0, t, l) == 0real,
    decreases l.len(),
{
    if l.len() > 0 { lemma_pmq_none(q, rem, t, l.drop_last()); assert(!visited(rem, 0, l.last())); }
}
pub proof fn lemma_pmq_full(q: Map<Service, Vec<f32>>, rem: Seq<(&Service, &Vec<f32>)>, n: int, t: int, l: Seq<Service>)
    requires forall|x: Service| q.contains_key(x) ==> #[trigger] visited(rem, n, x),
    ensures pmq_sum(q, rem, n, t, l) == mq_sum(q, t, l),
    decreases l.len(),
{
    if l.len() > 0 { lemma_pmq_full(q, rem, n, t, l.drop_last()); }
}
/// the output map built by the function is the per-service output sum of the components
pub open spec fn q_map_ok(q: Map<Service, Vec<f32>>, cs: Seq<Energy>, n: int, id: i32, m: nat) -> bool {
    &&& mapv_len(q, m)
    &&& (forall|s: Service| #[trigger] q.contains_key(s) == a_any(cs, n, ASel::Out(id, s)))
    &&& (forall|s: Service, t: int| q.contains_key(s) && 0 <= t < m ==> rv(#[trigger] q[s]@[t]) == a_sum(cs, n, ASel::Out(id, s), t))
}
pub proof fn lemma_mq_q_tot(q: Map<Service, Vec<f32>>, cs: Seq<Energy>, id: i32, t: int, m: nat, l: Seq<Service>)
    requires q_map_ok(q, cs, cs.len() as int, id, m), 0 <= t < m,
    ensures mq_sum(q, t, l) == q_tot(cs, id, t, l),
    decreases l.len(),
{
    if l.len() > 0 {
        lemma_mq_q_tot(q, cs, id, t, m, l.drop_last());
        let s = l.last();
        assert(q.contains_key(s) == a_any(cs, cs.len() as int, ASel::Out(id, s)));
        if q.contains_key(s) { assert(q[s]@.len() == m); assert(rv(q[s]@[t]) == a_sum(cs, cs.len() as int, ASel::Out(id, s), t)); }
    }
}
/// share vector of one service
pub open spec fn frac_ok(f: Seq<f32>, q: Seq<f32>, tot: Seq<f32>, m: nat) -> bool {
    f.len() == m && forall|t: int| 0 <= t < m ==> rv(#[trigger] f[t]) == (if rv(tot[t]) > 0real { rabs(rv(q[t])) / rv(tot[t]) } else { 0real })
}
pub open spec fn in_prefix(l: Seq<Service>, n: int, s: Service) -> bool { exists|j: int| 0 <= j < n && #[trigger] l[j] == s }
pub proof fn lemma_aux_final_if(d0: Seq<Energy>, d: Seq<Energy>, rem: Seq<&i32>, n: int, m: nat, ids: Set<i32>)
    requires aux_inv(d0, d, rem, n, m), m == nsteps(d0), iset_iter_ok(ids, rem),
        forall|x: i32| #[trigger] ids.contains(x) == a_any(d0, d0.len() as int, ASel::AuxAll(x)),
    ensures n == rem.len() ==> aux_ok(d0, d),
{
    if n == rem.len() {
        assert forall|x: i32| a_any(d0, d0.len() as int, ASel::AuxAll(x)) implies #[trigger] svisited(rem, rem.len() as int, x) by {
            assert(ids.contains(x));
            let j = choose|j: int| 0 <= j < rem.len() && *(#[trigger] rem[j]) == x;
            assert(svisited(rem, rem.len() as int, x));
        }
        lemma_aux_final(d0, d, rem, m);
    }
}
pub proof fn lemma_set_len1(sv: Set<Service>, x: Service)
    requires sv.finite(), sv.len() == 1, sv.contains(x),
    ensures forall|y: Service| sv.contains(y) ==> y == x,
{
    let r = sv.remove(x);
    assert(r.len() == 0);
    assert forall|y: Service| sv.contains(y) implies y == x by {
        if y != x { assert(r.contains(y)); assert(r.len() > 0) by { vstd::set_lib::lemma_set_empty_equivalency_len(r); } }
    }
}
pub proof fn lemma_set_is_one(sv: Set<Service>, x: Service)
    requires sv.finite(), forall|y: Service| sv.contains(y) == (y == x),
    ensures sv.len() == 1,
{
    assert(sv =~= Set::empty().insert(x));
}
pub open spec fn sset_iter_ok(sv: Set<Service>, rem: Seq<&Service>) -> bool {
    &&& rem.no_duplicates()
    &&& rem.len() == sv.len()
    &&& (forall|k: Service| sv.contains(k) ==> exists|j: int| 0 <= j < rem.len() && *(#[trigger] rem[j]) == k)
}
pub proof fn lemma_sset_first(sv: Set<Service>, rem: Seq<&Service>)
    requires sset_iter_ok(sv, rem), sv.finite(), sv.len() == 1,
    ensures rem.len() == 1, sv.contains(*rem[0]),
{
    let x = choose|x: Service| sv.contains(x);
    assert(sv.contains(x)) by { if forall|y: Service| !sv.contains(y) { assert(sv =~= Set::empty()); } }
    let j = choose|j: int| 0 <= j < rem.len() && *(#[trigger] rem[j]) == x;
    assert(j == 0);
}
pub open spec fn pmq_sum0(q: Map<Service, Vec<f32>>, rem: Seq<(&Service, &Vec<f32>)>, n: int, t: int, l: Seq<Service>) -> real {
    if n == 0 { 0real } else { pmq_sum(q, rem, n, t, l) }
}
pub proof fn lemma_mq_empty(q: Map<Service, Vec<f32>>, t: int, l: Seq<Service>)
    requires forall|s: Service| !q.contains_key(s),
    ensures mq_sum(q, t, l) == 0real,
    decreases l.len(),
{
    if l.len() > 0 { lemma_mq_empty(q, t, l.drop_last()); }
}
pub proof fn lemma_pmq_full_if(q: Map<Service, Vec<f32>>, rem: Seq<(&Service, &Vec<f32>)>, n: int, t: int, l: Seq<Service>)
    requires map_iter_ok(q, rem), n > 0,
    ensures n == rem.len() ==> pmq_sum(q, rem, n, t, l) == mq_sum(q, t, l),
{
    if n == rem.len() {
        lemma_visit_all(q, rem);
        lemma_pmq_full(q, rem, n, t, l);
    }
}
pub proof fn lemma_keys_cover<V>(q: Map<Service, V>, rem: Seq<&Service>, out: Seq<Service>, n: int)
    requires keys_iter_ok(q, rem), 0 <= n <= rem.len(), out.len() == n, forall|j: int| 0 <= j < n ==> #[trigger] out[j] == *rem[j],
    ensures n == rem.len() ==> forall|s: Service| q.contains_key(s) ==> #[trigger] in_prefix(out, n, s),
            out.no_duplicates(),
{
    if n == rem.len() {
        assert forall|s: Service| q.contains_key(s) implies #[trigger] in_prefix(out, n, s) by {
            let j = choose|j: int| 0 <= j < rem.len() && *(#[trigger] rem[j]) == s;
            assert(out[j] == s);
        }
    }
    assert forall|i: int, j: int| 0 <= i < out.len() && 0 <= j < out.len() && i != j implies out[i] != out[j] by {
        assert(rem[i] != rem[j]);
    }
}
/// end of the multi-service branch: the facts established by the function imply the hypotheses of lemma_aux_multi
pub proof fn lemma_aux_multi_if(d0: Seq<Energy>, a: Seq<Energy>, b: Seq<Energy>, rem: Seq<&i32>, ki: int, id: i32, m: nat,
        os: Seq<Service>, n: int, q0: Map<Service, Vec<f32>>, qf: Map<Service, Vec<f32>>, tot: Seq<f32>, aux_tot: Seq<f32>)
    requires aux_inv(d0, a, rem, ki, m), rem.no_duplicates(), 0 <= ki < rem.len(), *rem[ki] == id,
        a_any(d0, d0.len() as int, ASel::AuxAll(id)), !aux_one(d0, id),
        wf_list(b, m), nfilter(b, b.len() as int) == nfilter(a, a.len() as int),
        forall|u: i32, s: Service| #[trigger] use_srv(b, b.len() as int, u, s) == use_srv(a, a.len() as int, u, s),
        forall|k: ASel, t: int| !a_touches(k, id) ==> #[trigger] a_sum(b, b.len() as int, k, t) == a_sum(a, a.len() as int, k, t),
        forall|k: ASel| !a_touches(k, id) ==> #[trigger] a_any(b, b.len() as int, k) == a_any(a, a.len() as int, k),
        forall|s: Service, t: int| 0 <= t < m ==> #[trigger] a_sum(b, b.len() as int, ASel::Aux(id, s), t)
            == (if in_prefix(os, n, s) { rmul(rv(qf[s]@[t]), rv(aux_tot[t])) } else { 0real }),
        // what the function computed before
        q_map_ok(q0, a, a.len() as int, id, m),
        forall|j: int| 0 <= j < os.len() ==> q0.contains_key(#[trigger] os[j]),
        forall|s: Service| q0.contains_key(s) ==> #[trigger] in_prefix(os, os.len() as int, s),
        forall|j: int| 0 <= j < os.len() ==> frac_ok(qf[#[trigger] os[j]]@, q0[os[j]]@, tot, m),
        tot.len() == m, forall|t: int| 0 <= t < m ==> rv(#[trigger] tot[t]) == q_tot(a, id, t, services7()),
        aux_tot.len() == m, forall|t: int| 0 <= t < m ==> rv(#[trigger] aux_tot[t]) == a_sum(a, a.len() as int, ASel::AuxAll(id), t),
    ensures n == os.len() ==> aux_inv(d0, b, rem, ki + 1, m),
{
    if n == os.len() {
        assert forall|s: Service, t: int| 0 <= t < m implies #[trigger] a_sum(b, b.len() as int, ASel::Aux(id, s), t) ==
            (if a_any(a, a.len() as int, ASel::Out(id, s)) {
                rmul(if q_tot(a, id, t, services7()) > 0real { q_abs(a, id, s, t) / q_tot(a, id, t, services7()) } else { 0real }, a_sum(a, a.len() as int, ASel::AuxAll(id), t))
             } else { 0real }) by {
            assert(q0.contains_key(s) == a_any(a, a.len() as int, ASel::Out(id, s)));
            if q0.contains_key(s) {
                assert(in_prefix(os, os.len() as int, s));
                let j = choose|j: int| 0 <= j < os.len() && #[trigger] os[j] == s;
                assert(frac_ok(qf[os[j]]@, q0[os[j]]@, tot, m));
                assert(rv(qf[s]@[t]) == (if rv(tot[t]) > 0real { rabs(rv(q0[s]@[t])) / rv(tot[t]) } else { 0real }));
                assert(rv(q0[s]@[t]) == a_sum(a, a.len() as int, ASel::Out(id, s), t));
                assert(rv(tot[t]) == q_tot(a, id, t, services7()));
                assert(rv(aux_tot[t]) == a_sum(a, a.len() as int, ASel::AuxAll(id), t));
            } else {
                if in_prefix(os, n, s) { let j = choose|j: int| 0 <= j < n && #[trigger] os[j] == s; assert(q0.contains_key(os[j])); }
            }
        }
        lemma_aux_multi(d0, a, b, rem, ki, id, m);
    }
}

pub proof fn lemma_aux_inv_facts(d0: Seq<Energy>, d: Seq<Energy>, rem: Seq<&i32>, idx: int, m: nat, u: i32)
    requires aux_inv(d0, d, rem, idx, m), !svisited(rem, idx, u),
    ensures a_any(d, d.len() as int, ASel::AuxAll(u)) == a_any(d0, d0.len() as int, ASel::AuxAll(u)), wf_list(d, m), wf_list(d0, m),
        forall|s: Service| #[trigger] use_srv(d, d.len() as int, u, s) == use_srv(d0, d0.len() as int, u, s),
{
    reveal(aux_inv);
}
pub proof fn lemma_aux_inv_init_all(d0: Seq<Energy>, m: nat)
    requires wf_list(d0, m),
    ensures forall|rem: Seq<&i32>| #[trigger] aux_inv(d0, d0, rem, 0, m),
{
    assert forall|rem: Seq<&i32>| #[trigger] aux_inv(d0, d0, rem, 0, m) by { lemma_aux_inv_init(d0, rem, m); }
}

// ---- packaged steps (so that the function body carries few quantified facts)
pub proof fn lemma_auxvals(arg: Seq<&[f32]>, data_in: Seq<Energy>, idv: i32, m: nat)
    requires vals_of(arg, xfilter(data_in, data_in.len() as int, idv)), wf_list(data_in, m), a_any(data_in, data_in.len() as int, ASel::AuxAll(idv)),
    ensures arg.len() > 0, ls_maxlen(arg, arg.len() as int) == m,
        forall|t: int| #[trigger] ls_sum(arg, arg.len() as int, t) == a_sum(data_in, data_in.len() as int, ASel::AuxAll(idv), t),
{
    let xf = xfilter(data_in, data_in.len() as int, idv);
    lemma_xfilter(data_in, data_in.len() as int, idv, 0, m);
    assert forall|t: int| #[trigger] ls_sum(arg, arg.len() as int, t) == a_sum(data_in, data_in.len() as int, ASel::AuxAll(idv), t) by {
        lemma_ls_es(arg, xf, xf.len() as int, t, m);
        lemma_xfilter(data_in, data_in.len() as int, idv, t, m);
    }
    lemma_ls_es(arg, xf, xf.len() as int, 0, m);
}
pub proof fn lemma_not_one(d0: Seq<Energy>, data_in: Seq<Energy>, idv: i32, sv: Set<Service>)
    requires sv.len() != 1,
        forall|s: Service| #[trigger] sv.contains(s) == use_srv(data_in, data_in.len() as int, idv, s),
        forall|s: Service| #[trigger] use_srv(data_in, data_in.len() as int, idv, s) == use_srv(d0, d0.len() as int, idv, s),
    ensures !aux_one(d0, idv),
{
    if aux_one(d0, idv) {
        let s0 = choose|s0: Service| #[trigger] use_srv(d0, d0.len() as int, idv, s0) && forall|s: Service| #[trigger] use_srv(d0, d0.len() as int, idv, s) ==> s == s0;
        assert forall|y: Service| sv.contains(y) == (y == s0) by {
            assert(use_srv(data_in, data_in.len() as int, idv, y) == use_srv(d0, d0.len() as int, idv, y));
        }
        lemma_set_is_one(sv, s0);
    }
}
/// the data after `retain` (all auxiliaries of idv removed), relative to the data before
#[verifier::opaque]
pub open spec fn retained_ok(a: Seq<Energy>, r: Seq<Energy>, id: i32, m: nat) -> bool {
    &&& wf_list(r, m) && nfilter(r, r.len() as int) == nfilter(a, a.len() as int)
    &&& (forall|u: i32, s: Service| #[trigger] use_srv(r, r.len() as int, u, s) == use_srv(a, a.len() as int, u, s))
    &&& (forall|k: ASel, t: int| !a_touches(k, id) ==> #[trigger] a_sum(r, r.len() as int, k, t) == a_sum(a, a.len() as int, k, t))
    &&& (forall|k: ASel| !a_touches(k, id) ==> #[trigger] a_any(r, r.len() as int, k) == a_any(a, a.len() as int, k))
}
pub proof fn lemma_after_retain(a: Seq<Energy>, id: i32, m: nat)
    requires wf_list(a, m),
    ensures retained_ok(a, rfilter(a, a.len() as int, id), id, m),
        forall|s: Service, t: int| #[trigger] a_sum(rfilter(a, a.len() as int, id), rfilter(a, a.len() as int, id).len() as int, ASel::Aux(id, s), t) == 0real,
{
    reveal(retained_ok); reveal(multi_ctx);
    let r = rfilter(a, a.len() as int, id);
    lemma_rfilter_props(a, a.len() as int, id, m);
    lemma_nfilter_rfilter(a, a.len() as int, id);
    assert forall|k: ASel, t: int| !a_touches(k, id) implies #[trigger] a_sum(r, r.len() as int, k, t) == a_sum(a, a.len() as int, k, t) by { lemma_a_rfilter(a, a.len() as int, id, k, t); }
    assert forall|k: ASel| !a_touches(k, id) implies #[trigger] a_any(r, r.len() as int, k) == a_any(a, a.len() as int, k) by { lemma_a_rfilter(a, a.len() as int, id, k, 0); }
    assert forall|s: Service, t: int| #[trigger] a_sum(r, r.len() as int, ASel::Aux(id, s), t) == 0real by { lemma_a_rfilter(a, a.len() as int, id, ASel::Aux(id, s), t); }
}
/// one push of the new auxiliary component of service os[k]
pub proof fn lemma_push_step(a: Seq<Energy>, b0: Seq<Energy>, e: Energy, id: i32, m: nat, os: Seq<Service>, k: int, qf: Map<Service, Vec<f32>>, aux_tot: Seq<f32>)
    requires retained_ok(a, b0, id, m), 0 <= k < os.len(), os.no_duplicates(),
        e is Aux, e_id(e) == id, e->Aux_0.service == os[k], e_vals(e).len() == m,
        forall|t: int| 0 <= t < m ==> rv(#[trigger] e_vals(e)[t]) == rmul(rv(qf[os[k]]@[t]), rv(aux_tot[t])),
        forall|s: Service, t: int| 0 <= t < m ==> #[trigger] a_sum(b0, b0.len() as int, ASel::Aux(id, s), t)
            == (if in_prefix(os, k, s) { rmul(rv(qf[s]@[t]), rv(aux_tot[t])) } else { 0real }),
    ensures retained_ok(a, b0.push(e), id, m),
        forall|s: Service, t: int| 0 <= t < m ==> #[trigger] a_sum(b0.push(e), (b0.len() as int + 1), ASel::Aux(id, s), t)
            == (if in_prefix(os, k + 1, s) { rmul(rv(qf[s]@[t]), rv(aux_tot[t])) } else { 0real }),
{
    reveal(retained_ok); reveal(multi_ctx);
    let b = b0.push(e);
    lemma_push_aux_props(b0, e, m);
    lemma_nfilter_push(b0, e);
    assert forall|u: i32, s: Service| #[trigger] use_srv(b, b.len() as int, u, s) == use_srv(a, a.len() as int, u, s) by {
        assert(use_srv(b0, b0.len() as int, u, s) == use_srv(a, a.len() as int, u, s));
    }
    assert forall|kk: ASel, t: int| !a_touches(kk, id) implies #[trigger] a_sum(b, b.len() as int, kk, t) == a_sum(a, a.len() as int, kk, t) by {
        lemma_a_push(b0, e, kk, t);
        assert(!a_sel(kk, e));
        assert(a_sum(b0, b0.len() as int, kk, t) == a_sum(a, a.len() as int, kk, t));
    }
    assert forall|kk: ASel| !a_touches(kk, id) implies #[trigger] a_any(b, b.len() as int, kk) == a_any(a, a.len() as int, kk) by {
        lemma_a_push(b0, e, kk, 0);
        assert(!a_sel(kk, e));
        assert(a_any(b0, b0.len() as int, kk) == a_any(a, a.len() as int, kk));
    }
    assert(!in_prefix(os, k, os[k])) by { if in_prefix(os, k, os[k]) { let j = choose|j: int| 0 <= j < k && #[trigger] os[j] == os[k]; } }
    assert forall|s: Service, t: int| 0 <= t < m implies #[trigger] a_sum(b, (b0.len() as int + 1), ASel::Aux(id, s), t)
        == (if in_prefix(os, k + 1, s) { rmul(rv(qf[s]@[t]), rv(aux_tot[t])) } else { 0real }) by {
        lemma_a_push(b0, e, ASel::Aux(id, s), t);
        assert(a_sel(ASel::Aux(id, s), e) == (s == os[k]));
        assert(a_sum(b0, b0.len() as int, ASel::Aux(id, s), t) == (if in_prefix(os, k, s) { rmul(rv(qf[s]@[t]), rv(aux_tot[t])) } else { 0real }));
        if s == os[k] { assert(in_prefix(os, k + 1, s)); assert(ls_get(e_vals(e), t) == rv(e_vals(e)[t])); }
        else {
            if in_prefix(os, k + 1, s) { let j = choose|j: int| 0 <= j < k + 1 && #[trigger] os[j] == s; assert(j < k); assert(in_prefix(os, k, s)); }
            if in_prefix(os, k, s) { let j = choose|j: int| 0 <= j < k && #[trigger] os[j] == s; assert(in_prefix(os, k + 1, s)); }
        }
    }
}
/// everything the multi-service branch has computed before it rewrites the data
#[verifier::opaque]
pub open spec fn multi_ctx(d0: Seq<Energy>, a: Seq<Energy>, rem: Seq<&i32>, ki: int, id: i32, m: nat,
        os: Seq<Service>, q0: Map<Service, Vec<f32>>, qf: Map<Service, Vec<f32>>, tot: Seq<f32>, aux_tot: Seq<f32>) -> bool {
    &&& aux_inv(d0, a, rem, ki, m) && rem.no_duplicates() && 0 <= ki < rem.len() && *rem[ki] == id
    &&& a_any(d0, d0.len() as int, ASel::AuxAll(id)) && !aux_one(d0, id)
    &&& q_map_ok(q0, a, a.len() as int, id, m)
    &&& os.no_duplicates()
    &&& (forall|j: int| 0 <= j < os.len() ==> q0.contains_key(#[trigger] os[j]))
    &&& (forall|s: Service| q0.contains_key(s) ==> #[trigger] in_prefix(os, os.len() as int, s))
    &&& (forall|j: int| 0 <= j < os.len() ==> frac_ok(qf[#[trigger] os[j]]@, q0[os[j]]@, tot, m))
    &&& tot.len() == m && (forall|t: int| 0 <= t < m ==> rv(#[trigger] tot[t]) == q_tot(a, id, t, services7()))
    &&& aux_tot.len() == m && (forall|t: int| 0 <= t < m ==> rv(#[trigger] aux_tot[t]) == a_sum(a, a.len() as int, ASel::AuxAll(id), t))
}
pub proof fn lemma_multi_close(d0: Seq<Energy>, a: Seq<Energy>, b: Seq<Energy>, rem: Seq<&i32>, ki: int, id: i32, m: nat,
        os: Seq<Service>, n: int, q0: Map<Service, Vec<f32>>, qf: Map<Service, Vec<f32>>, tot: Seq<f32>, aux_tot: Seq<f32>)
    requires multi_ctx(d0, a, rem, ki, id, m, os, q0, qf, tot, aux_tot), retained_ok(a, b, id, m),
        forall|s: Service, t: int| 0 <= t < m ==> #[trigger] a_sum(b, b.len() as int, ASel::Aux(id, s), t)
            == (if in_prefix(os, n, s) { rmul(rv(qf[s]@[t]), rv(aux_tot[t])) } else { 0real }),
    ensures n == os.len() ==> aux_inv(d0, b, rem, ki + 1, m),
{
    reveal(retained_ok); reveal(multi_ctx);
    lemma_aux_multi_if(d0, a, b, rem, ki, id, m, os, n, q0, qf, tot, aux_tot);
}

// ---- the sentences of C06 as consequences of the specification (lemmas over aux_target)
/// sum over the services of what each of them gets
pub open spec fn target_sum(cs: Seq<Energy>, id: i32, t: int, l: Seq<Service>) -> real decreases l.len() {
    if l.len() == 0 { 0real } else { target_sum(cs, id, t, l.drop_last()) + aux_target(cs, id, l.last(), t) }
}
pub proof fn lemma_single_sum(cs: Seq<Energy>, id: i32, t: int, l: Seq<Service>, s0: Service)
    requires a_any(cs, cs.len() as int, ASel::AuxAll(id)), aux_one(cs, id), l.no_duplicates(),
        use_srv(cs, cs.len() as int, id, s0), forall|s: Service| #[trigger] use_srv(cs, cs.len() as int, id, s) ==> s == s0,
    ensures target_sum(cs, id, t, l) == (if l.contains(s0) { a_sum(cs, cs.len() as int, ASel::AuxAll(id), t) } else { 0real }),
    decreases l.len(),
{
    if l.len() > 0 {
        let l0 = l.drop_last();
        let x = l.last();
        assert(l0.no_duplicates()) by { assert forall|i: int, j: int| 0 <= i < l0.len() && 0 <= j < l0.len() && i != j implies l0[i] != l0[j] by { assert(l0[i] == l[i] && l0[j] == l[j]); } }
        lemma_single_sum(cs, id, t, l0, s0);
        if x == s0 {
            assert(!l0.contains(s0)) by { if l0.contains(s0) { let i = choose|i: int| 0 <= i < l0.len() && l0[i] == s0; assert(l[i] == s0 && l[l.len() - 1] == s0); } }
            assert(l.contains(s0)) by { assert(l[l.len() - 1] == s0); }
        } else {
            assert(!use_srv(cs, cs.len() as int, id, x));
            assert(l.contains(s0) == l0.contains(s0)) by {
                if l.contains(s0) { let i = choose|i: int| 0 <= i < l.len() && l[i] == s0; assert(i < l.len() - 1); assert(l0[i] == s0); }
                if l0.contains(s0) { let i = choose|i: int| 0 <= i < l0.len() && l0[i] == s0; assert(l[i] == s0); }
            }
        }
    }
}
pub proof fn lemma_multi_sum(cs: Seq<Energy>, id: i32, t: int, l: Seq<Service>)
    requires a_any(cs, cs.len() as int, ASel::AuxAll(id)), !aux_one(cs, id), q_tot(cs, id, t, services7()) > 0real,
    ensures target_sum(cs, id, t, l) == rmul(q_tot(cs, id, t, l) / q_tot(cs, id, t, services7()), a_sum(cs, cs.len() as int, ASel::AuxAll(id), t)),
    decreases l.len(),
{
    let q = q_tot(cs, id, t, services7());
    let tot = a_sum(cs, cs.len() as int, ASel::AuxAll(id), t);
    if l.len() > 0 {
        let l0 = l.drop_last();
        let x = l.last();
        lemma_multi_sum(cs, id, t, l0);
        let a = q_tot(cs, id, t, l0);
        let b = q_abs(cs, id, x, t);
        assert(aux_target(cs, id, x, t) == rmul(b / q, tot)) by {
            if !a_any(cs, cs.len() as int, ASel::Out(id, x)) { assert(b == 0real); assert(rmul(0real / q, tot) == 0real) by(nonlinear_arith) requires q > 0real; }
        }
        assert(rmul(a / q, tot) + rmul(b / q, tot) == rmul((a + b) / q, tot)) by(nonlinear_arith) requires q > 0real;
    } else {
        assert(rmul(0real / q, tot) == 0real) by(nonlinear_arith) requires q > 0real;
    }
}
/// C06: per system and step the shares add up to what was declared - for a single-service system always, for a system with
/// several services at every step at which it has some output (q_tot > 0; a step with no output at all is the known finding D8)
pub proof fn lemma_aux_conserved(cs: Seq<Energy>, id: i32, t: int)
    requires a_any(cs, cs.len() as int, ASel::AuxAll(id)), aux_one(cs, id) || q_tot(cs, id, t, services7()) > 0real,
    ensures target_sum(cs, id, t, services7()) == a_sum(cs, cs.len() as int, ASel::AuxAll(id), t),
{
    lemma_services7();
    let tot = a_sum(cs, cs.len() as int, ASel::AuxAll(id), t);
    if aux_one(cs, id) {
        let s0 = choose|s0: Service| #[trigger] use_srv(cs, cs.len() as int, id, s0) && forall|s: Service| #[trigger] use_srv(cs, cs.len() as int, id, s) ==> s == s0;
        lemma_single_sum(cs, id, t, services7(), s0);
        assert(services7().contains(s0));
    } else {
        let q = q_tot(cs, id, t, services7());
        lemma_multi_sum(cs, id, t, services7());
        assert(rmul(q / q, tot) == tot) by(nonlinear_arith) requires q > 0real;
    }
}
pub proof fn lemma_q_tot_nonneg(cs: Seq<Energy>, id: i32, t: int, l: Seq<Service>)
    ensures q_tot(cs, id, t, l) >= 0real,
    decreases l.len(),
{
    if l.len() > 0 { lemma_q_tot_nonneg(cs, id, t, l.drop_last()); }
}
/// C06: no share is negative when the declared auxiliary energy is not
pub proof fn lemma_aux_share_nonneg(cs: Seq<Energy>, id: i32, s: Service, t: int)
    requires a_sum(cs, cs.len() as int, ASel::AuxAll(id), t) >= 0real,
    ensures aux_target(cs, id, s, t) >= 0real,
{
    let tot = a_sum(cs, cs.len() as int, ASel::AuxAll(id), t);
    let q = q_tot(cs, id, t, services7());
    lemma_q_tot_nonneg(cs, id, t, services7());
    let b = q_abs(cs, id, s, t);
    assert(b >= 0real);
    if q > 0real { assert(rmul(b / q, tot) >= 0real) by(nonlinear_arith) requires q > 0real, b >= 0real, tot >= 0real; }
    assert(rmul(0real, tot) == 0real) by(nonlinear_arith);
}
