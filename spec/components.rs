// ---- spec layer for Components::normalize (C05, C06, C10). The two workers are outside the Verus front end (iterator
// adaptors / cloned filters); their contracts are ASSUMED here and checked by the bounded stand-ins of vreplay.
pub uninterp spec fn completed(cs: Seq<Energy>, carrier: Carrier) -> Seq<Energy>;
pub uninterp spec fn aux_assigned(cs: Seq<Energy>) -> Option<Seq<Energy>>;
pub open spec fn sorted_by_id(cs: Seq<Energy>) -> bool { forall|i: int, j: int| 0 <= i <= j < cs.len() ==> e_id(cs[i]) <= e_id(cs[j]) }
