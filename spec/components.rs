// ---- spec layer for Components::normalize (C05, C06, C10). The two workers are outside the Verus front end (iterator
// adaptors / cloned filters); their contracts are ASSUMED here and checked by the bounded stand-ins of vreplay.
pub open spec fn sorted_by_id(cs: Seq<Energy>) -> bool { forall|i: int, j: int| 0 <= i <= j < cs.len() ==> e_id(cs[i]) <= e_id(cs[j]) }

// ---- veclistsum: element-wise sum of a list of series, missing elements count as 0
pub open spec fn ls_get(l: Seq<f32>, i: int) -> real { if 0 <= i < l.len() { rv(l[i]) } else { 0real } }
pub open spec fn ls_maxlen(ls: Seq<&[f32]>, n: int) -> nat decreases n {
    if n <= 0 { 0 } else { let m = ls_maxlen(ls, n - 1); if ls[n - 1]@.len() >= m { ls[n - 1]@.len() } else { m } }
}
pub open spec fn ls_sum(ls: Seq<&[f32]>, n: int, i: int) -> real decreases n {
    if n <= 0 { 0real } else { ls_sum(ls, n - 1, i) + ls_get(ls[n - 1]@, i) }
}
pub proof fn lemma_ls_maxlen_bound(ls: Seq<&[f32]>, n: int)
    requires 0 <= n <= ls.len(),
    ensures forall|j: int| 0 <= j < n ==> (#[trigger] ls[j])@.len() <= ls_maxlen(ls, n),
    decreases n,
{
    if n > 0 { lemma_ls_maxlen_bound(ls, n - 1); }
}
/// beyond the longest series seen so far the running sum is 0 (with a 1-element start vector: index 0 is 0 before the first series)
pub proof fn lemma_ls_sum_beyond(ls: Seq<&[f32]>, n: int, i: int)
    requires 0 <= n <= ls.len(), i >= ls_maxlen(ls, n), i >= 0,
    ensures ls_sum(ls, n, i) == 0real,
    decreases n,
{
    if n > 0 { lemma_ls_sum_beyond(ls, n - 1, i); }
}

// ---- complete_produced_for_onsite_generated_use (C05): relational specification, order of the appended components left open
pub enum CKind { Use, Prod }
pub open spec fn cp_sel(k: CKind, c: Carrier, id: i32, e: Energy) -> bool {
    e_has_carrier(e, c) && e_id(e) == id && (match k { CKind::Use => e is Used, CKind::Prod => e is Prod })
}
/// sum at step t of the series of those of the first n components that are selected by (k, c, id)
pub open spec fn cp_sum(cs: Seq<Energy>, n: int, k: CKind, c: Carrier, id: i32, t: int) -> real decreases n {
    if n <= 0 { 0real } else { cp_sum(cs, n - 1, k, c, id, t) + (if cp_sel(k, c, id, cs[n - 1]) { ls_get(e_vals(cs[n - 1]), t) } else { 0real }) }
}
pub open spec fn cp_any(cs: Seq<Energy>, n: int, k: CKind, c: Carrier, id: i32) -> bool {
    exists|j: int| 0 <= j < n && cp_sel(k, c, id, #[trigger] cs[j])
}
/// uncovered use of system `id` at step t: max(0, use - declared production of that system)
pub open spec fn cp_unbal(cs: Seq<Energy>, c: Carrier, id: i32, t: int) -> real {
    let d = cp_sum(cs, cs.len() as int, CKind::Use, c, id, t) - cp_sum(cs, cs.len() as int, CKind::Prod, c, id, t);
    if d > 0real { d } else { 0real }
}
pub open spec fn cp_needed(cs: Seq<Energy>, c: Carrier, id: i32) -> bool {
    cp_any(cs, cs.len() as int, CKind::Use, c, id) && exists|t: int| 0 <= t < nsteps(cs) && #[trigger] cp_unbal(cs, c, id, t) > 0real
}
pub open spec fn cp_src(c: Carrier) -> ProdSource { if c == Carrier::EAMBIENTE { ProdSource::EAMBIENTE } else { ProdSource::TERMOSOLAR } }
/// what one appended component looks like
pub open spec fn cp_added_ok(d0: Seq<Energy>, c: Carrier, e: Energy) -> bool {
    &&& e is Prod && e->Prod_0.source == cp_src(c)
    &&& cp_needed(d0, c, e_id(e))
    &&& e_vals(e).len() == nsteps(d0)
    &&& forall|t: int| 0 <= t < e_vals(e).len() ==> rv(#[trigger] e_vals(e)[t]) == cp_unbal(d0, c, e_id(e), t)
}
pub open spec fn completed_ok(d0: Seq<Energy>, c: Carrier, d1: Seq<Energy>) -> bool {
    // nothing declared is dropped or altered
    &&& d1.len() >= d0.len() && d1.take(d0.len() as int) == d0
    // what is added is, step by step, exactly the uncovered use of that system alone
    &&& forall|k: int| d0.len() <= k < d1.len() ==> cp_added_ok(d0, c, #[trigger] d1[k])
    // at most once per system
    &&& forall|k1: int, k2: int| d0.len() <= k1 < k2 < d1.len() ==> e_id(#[trigger] d1[k1]) != e_id(#[trigger] d1[k2])
    // and for every system that has uncovered use
    &&& forall|id: i32| #[trigger] cp_needed(d0, c, id) ==> exists|k: int| d0.len() <= k < d1.len() && e_id(#[trigger] d1[k]) == id
}
/// the components of one carrier, in order (first n components)
pub open spec fn cfilter(cs: Seq<Energy>, n: int, c: Carrier) -> Seq<Energy> decreases n {
    if n <= 0 { Seq::empty() } else if e_has_carrier(cs[n - 1], c) { cfilter(cs, n - 1, c).push(cs[n - 1]) } else { cfilter(cs, n - 1, c) }
}
/// of those, the ones of system `id` and kind k (first n)
pub open spec fn kfilter(cs: Seq<Energy>, n: int, k: CKind, id: i32) -> Seq<Energy> decreases n {
    if n <= 0 { Seq::empty() } else if e_id(cs[n - 1]) == id && (match k { CKind::Use => cs[n - 1] is Used, CKind::Prod => cs[n - 1] is Prod }) { kfilter(cs, n - 1, k, id).push(cs[n - 1]) } else { kfilter(cs, n - 1, k, id) }
}
pub open spec fn es_sum(s: Seq<Energy>, n: int, t: int) -> real decreases n {
    if n <= 0 { 0real } else { es_sum(s, n - 1, t) + ls_get(e_vals(s[n - 1]), t) }
}
pub proof fn lemma_cfilter_props(cs: Seq<Energy>, n: int, c: Carrier, m: nat)
    requires 0 <= n <= cs.len(), wf_list(cs, m),
    ensures same_carrier(cfilter(cs, n, c), c), wf_list(cfilter(cs, n, c), m), cfilter(cs, n, c).len() <= n,
        forall|j: int| 0 <= j < cfilter(cs, n, c).len() ==> exists|i: int| 0 <= i < n && cs[i] == #[trigger] cfilter(cs, n, c)[j],
        forall|i: int| 0 <= i < n && e_has_carrier(#[trigger] cs[i], c) ==> exists|j: int| 0 <= j < cfilter(cs, n, c).len() && cfilter(cs, n, c)[j] == cs[i],
    decreases n,
{
    if n > 0 {
        lemma_cfilter_props(cs, n - 1, c, m);
        let a = cfilter(cs, n - 1, c);
        let b = cfilter(cs, n, c);
        if e_has_carrier(cs[n - 1], c) {
            assert(b == a.push(cs[n - 1]));
            assert forall|j: int| 0 <= j < b.len() implies exists|i: int| 0 <= i < n && cs[i] == #[trigger] b[j] by {
                if j < a.len() { assert(b[j] == a[j]); let i = choose|i: int| 0 <= i < n - 1 && cs[i] == a[j]; assert(cs[i] == b[j]); } else { assert(cs[n - 1] == b[j]); }
            }
            assert forall|i: int| 0 <= i < n && e_has_carrier(#[trigger] cs[i], c) implies exists|j: int| 0 <= j < b.len() && b[j] == cs[i] by {
                if i < n - 1 { let j = choose|j: int| 0 <= j < a.len() && a[j] == cs[i]; assert(b[j] == cs[i]); } else { assert(b[a.len() as int] == cs[i]); }
            }
        }
    }
}
/// sums over the per-carrier list = conditional sums over the whole list
pub proof fn lemma_cfilter_sum(cs: Seq<Energy>, n: int, c: Carrier, k: CKind, id: i32, t: int)
    requires 0 <= n <= cs.len(),
    ensures cp_sum(cfilter(cs, n, c), cfilter(cs, n, c).len() as int, k, c, id, t) == cp_sum(cs, n, k, c, id, t),
            cp_any(cfilter(cs, n, c), cfilter(cs, n, c).len() as int, k, c, id) == cp_any(cs, n, k, c, id),
    decreases n,
{
    if n > 0 {
        lemma_cfilter_sum(cs, n - 1, c, k, id, t);
        let a = cfilter(cs, n - 1, c);
        let b = cfilter(cs, n, c);
        if e_has_carrier(cs[n - 1], c) {
            assert(b == a.push(cs[n - 1]));
            lemma_cp_sum_prefix(b, a, a.len() as int, k, c, id, t);
            assert(cp_sum(b, b.len() as int, k, c, id, t) == cp_sum(b, a.len() as int, k, c, id, t) + (if cp_sel(k, c, id, b[a.len() as int]) { ls_get(e_vals(b[a.len() as int]), t) } else { 0real }));
            if cp_any(a, a.len() as int, k, c, id) { let j = choose|j: int| 0 <= j < a.len() && cp_sel(k, c, id, #[trigger] a[j]); assert(cp_sel(k, c, id, b[j])); }
            if cp_any(b, b.len() as int, k, c, id) { let j = choose|j: int| 0 <= j < b.len() && cp_sel(k, c, id, #[trigger] b[j]); if j < a.len() { assert(cp_sel(k, c, id, a[j])); } else { assert(cp_sel(k, c, id, cs[n - 1])); } }
            if cp_any(cs, n - 1, k, c, id) { let j = choose|j: int| 0 <= j < n - 1 && cp_sel(k, c, id, #[trigger] cs[j]); assert(cp_sel(k, c, id, cs[j])); }
            if cp_any(cs, n, k, c, id) { let j = choose|j: int| 0 <= j < n && cp_sel(k, c, id, #[trigger] cs[j]); if j < n - 1 { assert(cp_any(cs, n - 1, k, c, id)); } else { assert(cp_sel(k, c, id, b[a.len() as int])); } }
        } else {
            if cp_any(cs, n, k, c, id) { let j = choose|j: int| 0 <= j < n && cp_sel(k, c, id, #[trigger] cs[j]); assert(j < n - 1); assert(cp_any(cs, n - 1, k, c, id)); }
            if cp_any(cs, n - 1, k, c, id) { let j = choose|j: int| 0 <= j < n - 1 && cp_sel(k, c, id, #[trigger] cs[j]); assert(cp_sel(k, c, id, cs[j])); }
        }
    }
}
pub proof fn lemma_cp_sum_prefix(b: Seq<Energy>, a: Seq<Energy>, n: int, k: CKind, c: Carrier, id: i32, t: int)
    requires 0 <= n <= a.len(), n <= b.len(), forall|j: int| 0 <= j < n ==> a[j] == b[j],
    ensures cp_sum(b, n, k, c, id, t) == cp_sum(a, n, k, c, id, t),
    decreases n,
{
    if n > 0 { lemma_cp_sum_prefix(b, a, n - 1, k, c, id, t); }
}
pub proof fn lemma_es_sum_prefix(b: Seq<Energy>, a: Seq<Energy>, n: int, t: int)
    requires 0 <= n <= a.len(), n <= b.len(), forall|j: int| 0 <= j < n ==> a[j] == b[j],
    ensures es_sum(b, n, t) == es_sum(a, n, t),
    decreases n,
{
    if n > 0 { lemma_es_sum_prefix(b, a, n - 1, t); }
}
/// plain sum over the (id, kind) sub-list of a one-carrier list = conditional sum over that list
pub proof fn lemma_kfilter_sum(env: Seq<Energy>, n: int, c: Carrier, k: CKind, id: i32, t: int)
    requires 0 <= n <= env.len(), same_carrier(env, c),
    ensures es_sum(kfilter(env, n, k, id), kfilter(env, n, k, id).len() as int, t) == cp_sum(env, n, k, c, id, t),
            (kfilter(env, n, k, id).len() > 0) == cp_any(env, n, k, c, id),
    decreases n,
{
    if n > 0 {
        lemma_kfilter_sum(env, n - 1, c, k, id, t);
        let a = kfilter(env, n - 1, k, id);
        let b = kfilter(env, n, k, id);
        assert(e_has_carrier(env[n - 1], c));
        if cp_sel(k, c, id, env[n - 1]) {
            assert(b == a.push(env[n - 1]));
            lemma_es_sum_prefix(b, a, a.len() as int, t);
            assert(es_sum(b, b.len() as int, t) == es_sum(b, a.len() as int, t) + ls_get(e_vals(b[a.len() as int]), t));
            assert(cp_sel(k, c, id, env[n - 1]));
        } else {
            assert(b == a);
            if cp_any(env, n, k, c, id) { let j = choose|j: int| 0 <= j < n && cp_sel(k, c, id, #[trigger] env[j]); assert(j < n - 1); assert(cp_any(env, n - 1, k, c, id)); }
        }
        if cp_any(env, n - 1, k, c, id) { let j = choose|j: int| 0 <= j < n - 1 && cp_sel(k, c, id, #[trigger] env[j]); assert(cp_sel(k, c, id, env[j])); }
    }
}
pub proof fn lemma_kfilter_wf(env: Seq<Energy>, n: int, k: CKind, id: i32, m: nat)
    requires 0 <= n <= env.len(), wf_list(env, m),
    ensures wf_list(kfilter(env, n, k, id), m),
    decreases n,
{
    if n > 0 { lemma_kfilter_wf(env, n - 1, k, id, m); }
}
/// the list handed to veclistsum holds the series of the components of `s`
pub open spec fn vals_of(l: Seq<&[f32]>, s: Seq<Energy>) -> bool {
    l.len() == s.len() && forall|j: int| 0 <= j < l.len() ==> (#[trigger] l[j])@ == e_vals(s[j])
}
pub proof fn lemma_ls_es(l: Seq<&[f32]>, s: Seq<Energy>, n: int, t: int, m: nat)
    requires vals_of(l, s), 0 <= n <= l.len(), wf_list(s, m),
    ensures ls_sum(l, n, t) == es_sum(s, n, t), n > 0 ==> ls_maxlen(l, n) == m,
    decreases n,
{
    if n > 0 {
        lemma_ls_es(l, s, n - 1, t, m);
        assert(l[n - 1]@ == e_vals(s[n - 1]));
        assert(e_vals(s[n - 1]).len() == m);
        if n == 1 { assert(ls_maxlen(l, 0) == 0); }
    }
}
pub proof fn lemma_sumf_nonneg(s: Seq<f32>)
    requires forall|i: int| 0 <= i < s.len() ==> rv(#[trigger] s[i]) >= 0real,
    ensures sumf(s) >= 0real, sumf(s) == 0real ==> forall|i: int| 0 <= i < s.len() ==> rv(#[trigger] s[i]) == 0real,
    decreases s.len(),
{
    if s.len() > 0 {
        let a = s.drop_last();
        assert forall|i: int| 0 <= i < a.len() implies rv(#[trigger] a[i]) >= 0real by { assert(a[i] == s[i]); }
        lemma_sumf_nonneg(a);
        if sumf(s) == 0real {
            assert(rv(s.last()) >= 0real);
            assert forall|i: int| 0 <= i < s.len() implies rv(#[trigger] s[i]) == 0real by { if i < a.len() { assert(a[i] == s[i]); } }
        }
    }
}
pub open spec fn view_iset(s: HashSet<i32>) -> Set<i32> { s@ }
pub open spec fn iset_iter_ok(s: Set<i32>, rem: Seq<&i32>) -> bool {
    &&& rem.no_duplicates()
    &&& (forall|c: i32| s.contains(c) ==> exists|j: int| 0 <= j < rem.len() && *(#[trigger] rem[j]) == c)
}
pub open spec fn view_ve(v: Vec<Energy>) -> Seq<Energy> { v@ }
pub open spec fn view_vre(v: Vec<&Energy>) -> Seq<&Energy> { v@ }
pub open spec fn view_vs(v: Vec<&[f32]>) -> Seq<&[f32]> { v@ }
pub proof fn lemma_sumf_zero(s: Seq<f32>)
    requires forall|i: int| 0 <= i < s.len() ==> rv(#[trigger] s[i]) == 0real,
    ensures sumf(s) == 0real,
    decreases s.len(),
{
    if s.len() > 0 {
        let a = s.drop_last();
        assert forall|i: int| 0 <= i < a.len() implies rv(#[trigger] a[i]) == 0real by { assert(a[i] == s[i]); }
        lemma_sumf_zero(a);
    }
}

// ---- C05 "normalizing an already normalized set changes nothing", completion part: after a completion no system has uncovered use left
/// production sum of (c, id) over the first k components of d1 = that of d0 plus the appended component of that system, if one is among them
pub proof fn lemma_completed_prod_sum(d0: Seq<Energy>, c: Carrier, d1: Seq<Energy>, id: i32, t: int, k: int)
    requires completed_ok(d0, c, d1), c == Carrier::EAMBIENTE || c == Carrier::TERMOSOLAR, d0.len() <= k <= d1.len(), 0 <= t < nsteps(d0),
    ensures
        cp_sum(d1, k, CKind::Prod, c, id, t) == cp_sum(d0, d0.len() as int, CKind::Prod, c, id, t)
            + (if exists|j: int| d0.len() <= j < k && e_id(#[trigger] d1[j]) == id { cp_unbal(d0, c, id, t) } else { 0real }),
        cp_sum(d1, k, CKind::Use, c, id, t) == cp_sum(d0, d0.len() as int, CKind::Use, c, id, t),
        cp_any(d1, k, CKind::Use, c, id) == cp_any(d0, d0.len() as int, CKind::Use, c, id),
    decreases k - d0.len(),
{
    let n0 = d0.len() as int;
    if k == n0 {
        assert forall|j: int| 0 <= j < n0 implies d1[j] == d0[j] by { assert(d1.take(n0)[j] == d1[j]); }
        lemma_cp_sum_prefix(d1, d0, n0, CKind::Prod, c, id, t);
        lemma_cp_sum_prefix(d1, d0, n0, CKind::Use, c, id, t);
        if cp_any(d1, k, CKind::Use, c, id) { let j = choose|j: int| 0 <= j < k && cp_sel(CKind::Use, c, id, #[trigger] d1[j]); assert(cp_sel(CKind::Use, c, id, d0[j])); }
        if cp_any(d0, n0, CKind::Use, c, id) { let j = choose|j: int| 0 <= j < n0 && cp_sel(CKind::Use, c, id, #[trigger] d0[j]); assert(cp_sel(CKind::Use, c, id, d1[j])); }
    } else {
        lemma_completed_prod_sum(d0, c, d1, id, t, k - 1);
        let e = d1[k - 1];
        assert(cp_added_ok(d0, c, e));
        assert(e is Prod && e_has_carrier(e, c) && !(e is Used));
        let before = exists|j: int| n0 <= j < k - 1 && e_id(#[trigger] d1[j]) == id;
        let now = exists|j: int| n0 <= j < k && e_id(#[trigger] d1[j]) == id;
        if e_id(e) == id {
            assert(now) by { assert(e_id(d1[k - 1]) == id); }
            assert(!before) by { if before { let j = choose|j: int| n0 <= j < k - 1 && e_id(#[trigger] d1[j]) == id; assert(e_id(d1[j]) != e_id(d1[k - 1])); } }
            assert(e_vals(e).len() == nsteps(d0));
            assert(rv(e_vals(e)[t]) == cp_unbal(d0, c, id, t));
            assert(cp_sel(CKind::Prod, c, id, e));
        } else {
            assert(!cp_sel(CKind::Prod, c, id, e));
            assert(now == before) by {
                if now { let j = choose|j: int| n0 <= j < k && e_id(#[trigger] d1[j]) == id; assert(j < k - 1); }
                if before { let j = choose|j: int| n0 <= j < k - 1 && e_id(#[trigger] d1[j]) == id; assert(n0 <= j < k && e_id(d1[j]) == id); }
            }
        }
        assert(!cp_sel(CKind::Use, c, id, e));
        if cp_any(d1, k, CKind::Use, c, id) { let j = choose|j: int| 0 <= j < k && cp_sel(CKind::Use, c, id, #[trigger] d1[j]); assert(j < k - 1); assert(cp_any(d1, k - 1, CKind::Use, c, id)); }
        if cp_any(d1, k - 1, CKind::Use, c, id) { let j = choose|j: int| 0 <= j < k - 1 && cp_sel(CKind::Use, c, id, #[trigger] d1[j]); assert(cp_sel(CKind::Use, c, id, d1[j])); }
    }
}
/// a second completion of the same carrier finds nothing to add: completing is idempotent
pub proof fn lemma_completed_idempotent(d0: Seq<Energy>, c: Carrier, d1: Seq<Energy>)
    requires completed_ok(d0, c, d1), c == Carrier::EAMBIENTE || c == Carrier::TERMOSOLAR,
    ensures forall|id: i32| !#[trigger] cp_needed(d1, c, id), completed_ok(d1, c, d1),
{
    let n0 = d0.len() as int;
    assert(nsteps(d1) == nsteps(d0)) by {
        if n0 > 0 { assert(d1.take(n0)[0] == d1[0]); }
        else if d1.len() > 0 {
            // nothing can be appended to an empty list: an appended component needs a use in d0
            assert(cp_added_ok(d0, c, d1[0]));
            assert(cp_any(d0, 0, CKind::Use, c, e_id(d1[0])));
        }
    }
    assert forall|id: i32| !#[trigger] cp_needed(d1, c, id) by {
        if cp_needed(d1, c, id) {
            let t = choose|t: int| 0 <= t < nsteps(d1) && #[trigger] cp_unbal(d1, c, id, t) > 0real;
            lemma_completed_prod_sum(d0, c, d1, id, t, d1.len() as int);
            let appended = exists|j: int| n0 <= j < d1.len() && e_id(#[trigger] d1[j]) == id;
            if !appended {
                // then the system had no uncovered use before either
                if cp_needed(d0, c, id) { let k = choose|k: int| n0 <= k < d1.len() && e_id(#[trigger] d1[k]) == id; assert(appended); }
                assert(cp_any(d0, n0, CKind::Use, c, id));
                assert(cp_unbal(d0, c, id, t) == cp_unbal(d1, c, id, t));
                assert(cp_needed(d0, c, id));
            }
        }
    }
    assert(d1.take(d1.len() as int) == d1);
}
