// ---- spec layer for Components::normalize (C05, C06, C10). The two workers are outside the Verus front end (iterator
// adaptors / cloned filters); their contracts are ASSUMED here and checked by the bounded stand-ins of vreplay.
pub uninterp spec fn completed(cs: Seq<Energy>, carrier: Carrier) -> Seq<Energy>;
pub uninterp spec fn aux_assigned(cs: Seq<Energy>) -> Option<Seq<Energy>>;
pub open spec fn sorted_by_id(cs: Seq<Energy>) -> bool { forall|i: int, j: int| 0 <= i <= j < cs.len() ==> e_id(cs[i]) <= e_id(cs[j]) }

// ---- veclistsum: element-wise sum of a list of series, missing elements count as 0
pub open spec fn ls_get(l: Seq<f32>, i: int) -> real { if 0 <= i < l.len() { rv(l[i]) } else { 0real } }
pub open spec fn ls_maxlen(ls: Seq<&[f32]>, n: int) -> nat decreases n {
    if n <= 0 { 0 } else { let m = ls_maxlen(ls, n - 1); if ls[n - 1]@.len() >= m { ls[n - 1]@.len() } else { m } }
}
pub open spec fn ls_sum(ls: Seq<&[f32]>, n: int, i: int) -> real decreases n {
    if n <= 0 { 0real } else { ls_sum(ls, n - 1, i) + ls_get(ls[n - 1]@, i) }
}
pub proof fn lemma_ls_maxlen_bound(ls: Seq<&[f32]>, n: int)
    requires 0 <= n <= ls.len(),
    ensures forall|j: int| 0 <= j < n ==> (#[trigger] ls[j])@.len() <= ls_maxlen(ls, n),
    decreases n,
{
    if n > 0 { lemma_ls_maxlen_bound(ls, n - 1); }
}
/// beyond the longest series seen so far the running sum is 0 (with a 1-element start vector: index 0 is 0 before the first series)
pub proof fn lemma_ls_sum_beyond(ls: Seq<&[f32]>, n: int, i: int)
    requires 0 <= n <= ls.len(), i >= ls_maxlen(ls, n), i >= 0,
    ensures ls_sum(ls, n, i) == 0real,
    decreases n,
{
    if n > 0 { lemma_ls_sum_beyond(ls, n - 1, i); }
}
