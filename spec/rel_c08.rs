// ---- C08: evaluating with the simplified (stripped) factor set - theorems over the proved contracts of strip and of the weighting step
/// the weighting step of one carrier gives the same answer (a result for both or for neither; every figure equal) with two factor
/// sets that read the same at the keys it looks up
pub proof fn thm_c08_weights(w: Seq<Factor>, w2: Seq<Factor>, c: Carrier, k: real, used: UsedEnergy, exp: ExportedEnergy, del: DeliveredEnergy, r: Result<WeightedEnergy>, r2: Result<WeightedEnergy>)
    requires we_lookups_same(w, w2, c, exp, del), cwe_post(w, c, k, used, exp, del, r), cwe_post(w2, c, k, used, exp, del, r2),
    ensures (r is Ok) == (r2 is Ok), r is Ok ==> we_rel(r->Ok_0, r2->Ok_0, 1real),
{
    let m = exp.by_src_an@; let e = rv(exp.an);
    if e != 0real && rv(exp.nepus_an) != 0real {
        assert forall|src: ProdSource| m.contains_key(src) implies #[trigger] key_same(w, w2, c, ps_source(src), Dest::A_NEPB, Step::A) by {}
        assert forall|src: ProdSource| m.contains_key(src) implies #[trigger] key_same(w, w2, c, ps_source(src), Dest::A_NEPB, Step::B) by { assert(key_same(w, w2, c, ps_source(src), Dest::A_NEPB, Step::A)); }
        lemma_favg_keys(w, w2, c, m, e, Dest::A_NEPB, Step::A); lemma_favg_keys(w, w2, c, m, e, Dest::A_NEPB, Step::B);
    }
    if e != 0real && rv(exp.grid_an) != 0real {
        assert forall|src: ProdSource| m.contains_key(src) implies #[trigger] key_same(w, w2, c, ps_source(src), Dest::A_RED, Step::A) by {}
        assert forall|src: ProdSource| m.contains_key(src) implies #[trigger] key_same(w, w2, c, ps_source(src), Dest::A_RED, Step::B) by { assert(key_same(w, w2, c, ps_source(src), Dest::A_RED, Step::A)); }
        lemma_favg_keys(w, w2, c, m, e, Dest::A_RED, Step::A); lemma_favg_keys(w, w2, c, m, e, Dest::A_RED, Step::B);
    }
    assert(we_factors_ok(w2, c, exp, del) == we_factors_ok(w, c, exp, del));
    if r is Ok {
        let x = r->Ok_0; let y = r2->Ok_0;
        assert(we_del(w2, c, del) == we_del(w, c, del));
        assert(we_exp_nepus_a(w2, c, exp) == we_exp_nepus_a(w, c, exp) && we_exp_nepus_ab(w2, c, exp) == we_exp_nepus_ab(w, c, exp));
        assert(we_exp_grid_a(w2, c, exp) == we_exp_grid_a(w, c, exp) && we_exp_grid_ab(w2, c, exp) == we_exp_grid_ab(w, c, exp));
        lemma_r3s_one(r3v(x.del_grid)); lemma_r3s_one(r3v(x.del_onst)); lemma_r3s_one(r3v(x.del_cgn)); lemma_r3s_one(r3v(x.del));
        lemma_r3s_one(r3v(x.exp_nepus_a)); lemma_r3s_one(r3v(x.exp_grid_a)); lemma_r3s_one(r3v(x.exp_a));
        lemma_r3s_one(r3v(x.exp_nepus_ab)); lemma_r3s_one(r3v(x.exp_grid_ab)); lemma_r3s_one(r3v(x.exp_ab));
        lemma_r3s_one(r3v(x.exp)); lemma_r3s_one(r3v(x.a)); lemma_r3s_one(r3v(x.b));
        assert forall|s: Service| x.a_by_srv@.contains_key(s) implies r3v(#[trigger] y.a_by_srv@[s]) == r3s(1real, r3v(x.a_by_srv@[s])) by {
            assert(used.epus_by_srv_an@.contains_key(s)); lemma_r3s_one(r3v(x.a_by_srv@[s]));
        }
        assert forall|s: Service| x.b_by_srv@.contains_key(s) implies r3v(#[trigger] y.b_by_srv@[s]) == r3s(1real, r3v(x.b_by_srv@[s])) by {
            assert(used.epus_by_srv_an@.contains_key(s)); lemma_r3s_one(r3v(x.b_by_srv@[s]));
            assert(x.a_by_srv@.contains_key(s) && y.a_by_srv@.contains_key(s));
            assert(r3v(x.a_by_srv@[s]) == r3s(share(rv(used.epus_by_srv_an@[s]), rv(used.epus_an)), r3v(x.a)));
            assert(r3v(y.a_by_srv@[s]) == r3s(share(rv(used.epus_by_srv_an@[s]), rv(used.epus_an)), r3v(y.a)));
        }
    }
}
pub proof fn lemma_r3s_one(a: R3) ensures r3s(1real, a) == a {
    assert(1real * a.ren == a.ren && 1real * a.nren == a.nren && 1real * a.co2 == a.co2) by(nonlinear_arith);
}

// ------------------------------------------------------------------------------------------------ from strip's contract to the lookups
/// what Factors::strip guarantees (clause C08.needed_kept of its proved contract)
pub open spec fn strip_needed_kept(w: Seq<Factor>, w2: Seq<Factor>, cs: Seq<Energy>) -> bool {
    forall|c: Carrier, s: Source, d: Dest, st: Step| needed(cs, c, s, d) ==> #[trigger] find_spec(w2, c, s, d, st) == find_spec(w, c, s, d, st)
}
/// the same in the form the theorems use: every needed key reads the same (present in both or in neither, same real triple)
pub open spec fn needed_kept(w: Seq<Factor>, w2: Seq<Factor>, cs: Seq<Energy>) -> bool {
    forall|c: Carrier, s: Source, d: Dest, st: Step| needed(cs, c, s, d) ==> #[trigger] key_same(w, w2, c, s, d, st)
}
pub proof fn lemma_strip_needed(w: Seq<Factor>, w2: Seq<Factor>, cs: Seq<Energy>)
    requires strip_needed_kept(w, w2, cs),
    ensures needed_kept(w, w2, cs),
{
    assert forall|c: Carrier, s: Source, d: Dest, st: Step| needed(cs, c, s, d) implies #[trigger] key_same(w, w2, c, s, d, st) by {
        assert(key_same(w, w2, c, s, d, st));
    }
}
/// no auxiliary component carries the service COGEN (the building class of known finding D11 is outside the theorem)
pub open spec fn no_cogen_aux(cs: Seq<Energy>) -> bool {
    forall|j: int| 0 <= j < cs.len() && (#[trigger] cs[j]) is Aux ==> cs[j]->Aux_0.service != Service::COGEN
}
pub proof fn lemma_any_sel_filter(cs: Seq<Energy>, c: Carrier, k: Sel)
    ensures any_sel(filter_carrier(cs, c), k) ==> exists|j: int| 0 <= j < cs.len() && sel(k, #[trigger] cs[j]) && e_has_carrier(cs[j], c),
    decreases cs.len(),
{
    if cs.len() > 0 {
        let c0 = cs.drop_last();
        lemma_any_sel_filter(c0, c, k);
        let f0 = filter_carrier(c0, c);
        if any_sel(filter_carrier(cs, c), k) {
            if e_has_carrier(cs.last(), c) && sel(k, cs.last()) {
                assert(sel(k, cs[cs.len() - 1]) && e_has_carrier(cs[cs.len() - 1], c));
            } else {
                if e_has_carrier(cs.last(), c) { assert(f0.push(cs.last()).drop_last() =~= f0); }
                assert(any_sel(f0, k));
                let j = choose|j: int| 0 <= j < c0.len() && sel(k, #[trigger] c0[j]) && e_has_carrier(c0[j], c);
                assert(cs[j] == c0[j]);
            }
        }
    }
}
pub proof fn lemma_sumf_nonzero(v: Seq<f32>)
    ensures sumf(v) != 0real ==> exists|i: int| 0 <= i < v.len() && rv(#[trigger] v[i]) != 0real,
    decreases v.len(),
{
    if v.len() > 0 {
        lemma_sumf_nonzero(v.drop_last());
        if sumf(v) != 0real {
            if rv(v.last()) != 0real { assert(rv(v[v.len() - 1]) != 0real); }
            else { let i = choose|i: int| 0 <= i < v.drop_last().len() && rv(#[trigger] v.drop_last()[i]) != 0real; assert(v[i] == v.drop_last()[i]); }
        }
    }
}
pub proof fn lemma_nonneg_filter(cs: Seq<Energy>, c: Carrier)
    requires nonneg_list(cs),
    ensures nonneg_list(filter_carrier(cs, c)),
    decreases cs.len(),
{
    if cs.len() > 0 {
        let c0 = cs.drop_last();
        assert forall|j: int, ii: int| 0 <= j < c0.len() && 0 <= ii < e_vals(c0[j]).len() implies rv(#[trigger] e_vals(c0[j])[ii]) >= 0real by { assert(c0[j] == cs[j]); }
        lemma_nonneg_filter(c0, c);
        let f0 = filter_carrier(c0, c);
        if e_has_carrier(cs.last(), c) {
            let f = f0.push(cs.last());
            assert forall|j: int, ii: int| 0 <= j < f.len() && 0 <= ii < e_vals(f[j]).len() implies rv(#[trigger] e_vals(f[j])[ii]) >= 0real by {
                if j < f0.len() { assert(f[j] == f0[j]); } else { assert(f[j] == cs[cs.len() - 1]); }
            }
        }
    }
}
/// a production source present in the balance of carrier c comes from a production component of the building
pub proof fn lemma_src_component(cs: Seq<Energy>, c: Carrier, a: Run, lm: bool, src: ProdSource)
    requires run_ok(a, lm), a.cs == filter_carrier(cs, c), a.prod.by_src_t@.contains_key(src),
    ensures exists|j: int| 0 <= j < cs.len() && (#[trigger] cs[j]) is Prod && cs[j]->Prod_0.source == src && ps_carrier(src) == c,
{
    assert(any_sel(a.cs, Sel::Prod(src)));
    lemma_any_sel_filter(cs, c, Sel::Prod(src));
    let j = choose|j: int| 0 <= j < cs.len() && sel(Sel::Prod(src), #[trigger] cs[j]) && e_has_carrier(cs[j], c);
    assert(cs[j] is Prod && cs[j]->Prod_0.source == src);
}

/// THE C08 THEOREM (carrier level): for a building inside the property's domain (non-negative values, zero or >= 0.01 kWh, no auxiliary
/// component with service COGEN - known finding D11) every key that the weighting step of carrier c looks up is one that strip keeps
pub proof fn thm_c08_lookups(cs: Seq<Energy>, c: Carrier, a: Run, lm: bool, w: Seq<Factor>, w2: Seq<Factor>)
    requires comps_wf(cs), nonneg_list(cs), vals_dom(cs), no_cogen_aux(cs), in_avail(cs, c),
             run_ok(a, lm), a.cs == filter_carrier(cs, c), needed_kept(w, w2, cs),
    ensures we_lookups_same(w, w2, c, a.exp, a.del),
{
    let n = nsteps(cs);
    lemma_filter_carrier(cs, c, n);
    lemma_nonneg_filter(cs, c);
    lemma_vals_dom_filter(cs, c);
    assert(run_n(a) == n) by { assert(e_vals(a.cs[0]).len() == n); }
    // K1: the grid supply factor of a carrier that has a balance
    assert(needed(cs, c, Source::RED, Dest::SUMINISTRO));
    assert(key_same(w, w2, c, Source::RED, Dest::SUMINISTRO, Step::A));
    // K2: on-site supply, looked up only when something was produced on site
    if rv(a.del.onst_an) != 0real {
        lemma_sumf_nonzero(a.del.onst_t@);
        let i = choose|i: int| 0 <= i < a.del.onst_t@.len() && rv(#[trigger] a.del.onst_t@[i]) != 0real;
        assert(rv(a.del.onst_t@[i]) == onsite_sum(a.prod.by_src_t@, i));
        let m = a.prod.by_src_t@;
        let src = if m.contains_key(ProdSource::EL_INSITU) { ProdSource::EL_INSITU } else if m.contains_key(ProdSource::TERMOSOLAR) { ProdSource::TERMOSOLAR } else { ProdSource::EAMBIENTE };
        assert(m.contains_key(src));
        lemma_src_component(cs, c, a, lm, src);
        let j = choose|j: int| 0 <= j < cs.len() && (#[trigger] cs[j]) is Prod && cs[j]->Prod_0.source == src && ps_carrier(src) == c;
        if c == Carrier::ELECTRICIDAD { assert(src == ProdSource::EL_INSITU); assert(e_is_electricity(cs[j]) && e_is_onsite_pr(cs[j])); assert(has_elec_onsite_pr(cs)); }
        assert(needed(cs, c, Source::INSITU, Dest::SUMINISTRO));
        assert(key_same(w, w2, c, Source::INSITU, Dest::SUMINISTRO, Step::A));
    }
    // K3 / K4: export factors of the sources that produce for this carrier
    assert forall|src: ProdSource| a.exp.by_src_an@.contains_key(src) implies
            (ps_source(src) == Source::COGEN ==> has_cogen_pr(cs)) && (c == Carrier::ELECTRICIDAD && ps_source(src) == Source::INSITU ==> has_elec_onsite_pr(cs)) by {
        assert(a.prod.by_src_t@.contains_key(src));
        lemma_src_component(cs, c, a, lm, src);
        let j = choose|j: int| 0 <= j < cs.len() && (#[trigger] cs[j]) is Prod && cs[j]->Prod_0.source == src && ps_carrier(src) == c;
        if ps_source(src) == Source::COGEN { assert(e_is_cogen_pr(cs[j])); }
        if c == Carrier::ELECTRICIDAD && ps_source(src) == Source::INSITU { assert(src == ProdSource::EL_INSITU); assert(e_is_electricity(cs[j]) && e_is_onsite_pr(cs[j])); }
    }
    if rv(a.exp.an) != 0real && rv(a.exp.grid_an) != 0real {
        assert forall|src: ProdSource| a.exp.by_src_an@.contains_key(src) implies
                #[trigger] key_same(w, w2, c, ps_source(src), Dest::A_RED, Step::A) && key_same(w, w2, c, ps_source(src), Dest::A_RED, Step::B) by {
            assert(needed(cs, c, ps_source(src), Dest::A_RED));
            assert(key_same(w, w2, c, ps_source(src), Dest::A_RED, Step::A));
            assert(key_same(w, w2, c, ps_source(src), Dest::A_RED, Step::B));
        }
    }
    if rv(a.exp.an) != 0real && rv(a.exp.nepus_an) != 0real {
        // some step exports to a non-EPB use, so the building has a non-EPB use component
        lemma_sumf_nonzero(a.exp.nepus_t@);
        let i = choose|i: int| 0 <= i < a.exp.nepus_t@.len() && rv(#[trigger] a.exp.nepus_t@[i]) != 0real;
        assert forall|ii: int| 0 <= ii < run_n(a) implies in_dom(rv(#[trigger] a.prod.t@[ii])) by { lemma_prod_in_dom(a, lm, ii); }
        assert(rv(a.exp.nepus_t@[i]) == rmin(rv(a.exp.t@[i]), rv(a.used.nepus_t@[i])));
        assert(0real <= rv(a.prod.epus_t@[i]) <= rmin(rv(a.used.epus_t@[i]), rv(a.prod.t@[i])));
        assert(rv(a.exp.t@[i]) >= 0real);
        assert(rv(a.used.nepus_t@[i]) != 0real);
        assert(rv(a.used.nepus_t@[i]) == acc(a.cs, Sel::Nepus, i));
        if !any_sel(a.cs, Sel::Nepus) { lemma_acc_zero(a.cs, Sel::Nepus, i); }
        lemma_any_sel_filter(cs, c, Sel::Nepus);
        let j = choose|j: int| 0 <= j < cs.len() && sel(Sel::Nepus, #[trigger] cs[j]) && e_has_carrier(cs[j], c);
        assert(e_is_nepb_use(cs[j])) by {
            if cs[j] is Aux { assert(cs[j]->Aux_0.service != Service::COGEN); }
        }
        assert(has_nepb_use(cs));
        assert forall|src: ProdSource| a.exp.by_src_an@.contains_key(src) implies
                #[trigger] key_same(w, w2, c, ps_source(src), Dest::A_NEPB, Step::A) && key_same(w, w2, c, ps_source(src), Dest::A_NEPB, Step::B) by {
            assert(needed(cs, c, ps_source(src), Dest::A_NEPB));
            assert(key_same(w, w2, c, ps_source(src), Dest::A_NEPB, Step::A));
            assert(key_same(w, w2, c, ps_source(src), Dest::A_NEPB, Step::B));
        }
    }
}
/// C08 for one carrier: with the stripped set the weighting step succeeds exactly when it succeeds with the full set and gives the same figures
pub proof fn thm_c08_carrier(cs: Seq<Energy>, c: Carrier, a: Run, lm: bool, w: Seq<Factor>, w2: Seq<Factor>, k: real, r: Result<WeightedEnergy>, r2: Result<WeightedEnergy>)
    requires comps_wf(cs), nonneg_list(cs), vals_dom(cs), no_cogen_aux(cs), in_avail(cs, c),
             run_ok(a, lm), a.cs == filter_carrier(cs, c), needed_kept(w, w2, cs),
             cwe_post(w, c, k, a.used, a.exp, a.del, r), cwe_post(w2, c, k, a.used, a.exp, a.del, r2),
    ensures (r is Ok) == (r2 is Ok), r is Ok ==> we_rel(r->Ok_0, r2->Ok_0, 1real),
{
    thm_c08_lookups(cs, c, a, lm, w, w2);
    thm_c08_weights(w, w2, c, k, a.used, a.exp, a.del, r, r2);
}

// ------------------------------------------------------------------------------------------------ C08 at the public entry point
pub proof fn lemma_cgnfuel_avail(cs: Seq<Energy>, fuel: Carrier)
    ensures any_sel(cs, Sel::CgnFuel(fuel)) ==> in_avail(cs, fuel),
    decreases cs.len(),
{
    if cs.len() > 0 {
        let c0 = cs.drop_last();
        lemma_cgnfuel_avail(c0, fuel);
        if any_sel(cs, Sel::CgnFuel(fuel)) {
            if sel(Sel::CgnFuel(fuel), cs.last()) { assert(!(cs[cs.len() - 1] is Out) && e_carrier(cs[cs.len() - 1]) == fuel); }
            else { let j = choose|j: int| 0 <= j < c0.len() && !((#[trigger] c0[j]) is Out) && e_carrier(c0[j]) == fuel; assert(cs[j] == c0[j]); }
        }
    }
}
pub proof fn lemma_cgnprod_avail(cs: Seq<Energy>)
    ensures any_sel(cs, Sel::Prod(ProdSource::EL_COGEN)) ==> in_avail(cs, Carrier::ELECTRICIDAD),
    decreases cs.len(),
{
    if cs.len() > 0 {
        let c0 = cs.drop_last();
        lemma_cgnprod_avail(c0);
        if any_sel(cs, Sel::Prod(ProdSource::EL_COGEN)) {
            if sel(Sel::Prod(ProdSource::EL_COGEN), cs.last()) { assert(!(cs[cs.len() - 1] is Out) && e_carrier(cs[cs.len() - 1]) == Carrier::ELECTRICIDAD); }
            else { let j = choose|j: int| 0 <= j < c0.len() && !((#[trigger] c0[j]) is Out) && e_carrier(c0[j]) == Carrier::ELECTRICIDAD; assert(cs[j] == c0[j]); }
        }
    }
}
pub proof fn lemma_cgn_sum_keys(w: Seq<Factor>, w2: Seq<Factor>, cs: Seq<Energy>, n: int, l: Seq<Carrier>)
    requires needed_kept(w, w2, cs),
    ensures cgn_sum(w2, cs, n, false, l) == cgn_sum(w, cs, n, false, l),
    decreases l.len(),
{
    if l.len() > 0 {
        lemma_cgn_sum_keys(w, w2, cs, n, l.drop_last());
        let fuel = l.last();
        if cgn_uses(cs, false, fuel) {
            lemma_cgnfuel_avail(cs, fuel);
            assert(needed(cs, fuel, Source::RED, Dest::SUMINISTRO));
            assert(key_same(w, w2, fuel, Source::RED, Dest::SUMINISTRO, Step::A));
        }
    }
}
/// the derived cogeneration factors are computed from needed keys only, so the two evaluated sets agree on every needed key as well
pub proof fn lemma_cgn_needed(w: Seq<Factor>, w2: Seq<Factor>, f: Seq<Factor>, f2: Seq<Factor>, cs: Seq<Energy>)
    requires needed_kept(w, w2, cs), cgn_added(w, f, cs), cgn_added(w2, f2, cs),
    ensures needed_kept(f, f2, cs),
{
    if has_cgn_prod(cs) {
        let n = w.len() as int; let n2 = w2.len() as int;
        lemma_cgn_sum_keys(w, w2, cs, nsteps(cs) as int, carriers12());
        lemma_cgnprod_avail(cs);
        assert(needed(cs, Carrier::ELECTRICIDAD, Source::RED, Dest::SUMINISTRO));
        assert(key_same(w, w2, Carrier::ELECTRICIDAD, Source::RED, Dest::SUMINISTRO, Step::A));
        assert forall|c: Carrier, s: Source, d: Dest, st: Step| needed(cs, c, s, d) implies #[trigger] key_same(f, f2, c, s, d, st) by {
            assert(key_same(w, w2, c, s, d, st));
            lemma_find_split(f, n, c, s, d, st);
            lemma_find_split(f2, n2, c, s, d, st);
            if find_spec(w, c, s, d, st) is None {
                let t = f.skip(n); let t2 = f2.skip(n2);
                assert(t.len() == 5 && t2.len() == 5);
                assert(t[0] == f[n] && t[1] == f[n + 1] && t[2] == f[n + 2] && t[3] == f[n + 3] && t[4] == f[n + 4]);
                assert(t2[0] == f2[n2] && t2[1] == f2[n2 + 1] && t2[2] == f2[n2 + 2] && t2[3] == f2[n2 + 3] && t2[4] == f2[n2 + 4]);
                lemma_find5(t, c, s, d, st); lemma_find5(t2, c, s, d, st);
            }
        }
    }
}
/// THE C08 THEOREM AT THE PUBLIC ENTRY POINT: the same building (inside the property's domain, D11 class excluded) evaluated with the
/// full factor set and with a set that keeps every needed key (what Factors::strip is proved to return): when both evaluations
/// succeed, every per-carrier, whole-building and ratio figure is the same
pub proof fn thm_c08_ep(comps: Components, w: Seq<Factor>, w2: Seq<Factor>, k_exp: f32, area: f32, lm: bool, r: Result<EnergyPerformance>, r2: Result<EnergyPerformance>)
    requires comps_wf(comps.data@), nonneg_list(comps.data@), vals_dom(comps.data@), no_cogen_aux(comps.data@), needed_kept(w, w2, comps.data@),
             ep_post(comps, w, k_exp, area, lm, r), ep_post(comps, w2, k_exp, area, lm, r2), r is Ok, r2 is Ok,
    ensures ep_rel(r->Ok_0, r2->Ok_0, idx_ident(nsteps(comps.data@) as int), 1real, 1real),
{
    let cs = comps.data@;
    let x = r->Ok_0; let y = r2->Ok_0;
    let n = nsteps(cs) as int;
    let idx = idx_ident(n);
    lemma_lay_same(n, 1real);
    assert(tags_same(cs, cs));
    assert forall|i2: int| 0 <= i2 < idx.len() implies 0 <= #[trigger] idx[i2] < nsteps(cs) && val_rel(cs, cs, idx[i2], i2, 1real) by {
        assert(idx[i2] == i2);
        assert forall|j: int| 0 <= j < cs.len() implies rv(#[trigger] e_vals(cs[j])[i2]) == 1real * rv(e_vals(cs[j])[i2]) by {
            assert(1real * rv(e_vals(cs[j])[i2]) == rv(e_vals(cs[j])[i2])) by(nonlinear_arith);
        }
    }
    lemma_inputs_vals(cs, cs, idx, 1real);
    lemma_cgn_needed(w, w2, x.wfactors.wdata@, y.wfactors.wdata@, cs);
    assert forall|c: Carrier| x.balance_cr@.contains_key(c) implies we_lookups_same(x.wfactors.wdata@, y.wfactors.wdata@, c, (#[trigger] x.balance_cr@[c]).exp, x.balance_cr@[c].del) by {
        reveal(bfc_post);
        let bx = x.balance_cr@[c];
        let a = Run { cs: filter_carrier(cs, c), used: bx.used, prod: bx.prod, fm: bx.f_match@, exp: bx.exp, del: bx.del };
        lemma_filter_carrier(cs, c, nsteps(cs));
        thm_c08_lookups(cs, c, a, lm, x.wfactors.wdata@, y.wfactors.wdata@);
    }
    lemma_ep_bcr(comps, comps, k_exp, lm, x, y, idx, 1real, 1real);
    lemma_ep_building(x.balance_cr@, y.balance_cr@, comps, comps, x.balance, y.balance, 1real);
    lemma_ep_rer(x.balance_cr@, y.balance_cr@, x.balance, y.balance, rv(k_exp), 1real);
}

/// the derived cogeneration factors can be computed from the simplified set whenever they can from the full one
pub proof fn lemma_cgn_ok_needed(w: Seq<Factor>, w2: Seq<Factor>, cs: Seq<Energy>)
    requires needed_kept(w, w2, cs), cgn_ok(w, cs),
    ensures cgn_ok(w2, cs),
{
    if has_cgn_prod(cs) {
        lemma_cgnprod_avail(cs);
        assert(needed(cs, Carrier::ELECTRICIDAD, Source::RED, Dest::SUMINISTRO));
        assert(key_same(w, w2, Carrier::ELECTRICIDAD, Source::RED, Dest::SUMINISTRO, Step::A));
        assert forall|fuel: Carrier| cgn_uses(cs, false, fuel) implies #[trigger] has_fp(w2, fuel, Source::RED, Dest::SUMINISTRO, Step::A) by {
            lemma_cgnfuel_avail(cs, fuel);
            assert(needed(cs, fuel, Source::RED, Dest::SUMINISTRO));
            assert(key_same(w, w2, fuel, Source::RED, Dest::SUMINISTRO, Step::A));
            assert(has_fp(w, fuel, Source::RED, Dest::SUMINISTRO, Step::A));
        }
    }
}
/// C08 ("never turns a successful evaluation into an error"): if the evaluation with the full set succeeds, so does the one with a set
/// that keeps every needed key - and then (thm_c08_ep) with the same figures
pub proof fn thm_c08_no_new_error(comps: Components, w: Seq<Factor>, w2: Seq<Factor>, k_exp: f32, area: f32, lm: bool, r: Result<EnergyPerformance>, r2: Result<EnergyPerformance>)
    requires comps_wf(comps.data@), nonneg_list(comps.data@), vals_dom(comps.data@), no_cogen_aux(comps.data@), needed_kept(w, w2, comps.data@),
             ep_post(comps, w, k_exp, area, lm, r), ep_post(comps, w2, k_exp, area, lm, r2), r is Ok,
    ensures r2 is Ok, ep_rel(r->Ok_0, r2->Ok_0, idx_ident(nsteps(comps.data@) as int), 1real, 1real),
{
    let cs = comps.data@;
    let x = r->Ok_0;
    if r2 is Err {
        lemma_cgn_ok_needed(w, w2, cs);
        let (c, wf2, used, prod, fm, exp, del) = choose|c: Carrier, wf: Seq<Factor>, used: UsedEnergy, prod: ProducedEnergy, fm: Seq<f32>, exp: ExportedEnergy, del: DeliveredEnergy|
            in_avail(cs, c) && #[trigger] cgn_added(w2, wf, cs) && #[trigger] flows_ok(cs, c, lm, used, prod, fm, exp, del) && !we_factors_ok(wf, c, exp, del);
        assert(x.balance_cr@.contains_key(c));
        let bx = x.balance_cr@[c];
        assert(bfc_post(cs, x.wfactors.wdata@, c, rv(k_exp), lm, bx));
        reveal(bfc_post);
        let a = Run { cs: filter_carrier(cs, c), used: bx.used, prod: bx.prod, fm: bx.f_match@, exp: bx.exp, del: bx.del };
        let b = Run { cs: filter_carrier(cs, c), used: used, prod: prod, fm: fm, exp: exp, del: del };
        lemma_filter_carrier(cs, c, nsteps(cs));
        lemma_cgn_needed(w, w2, x.wfactors.wdata@, wf2, cs);
        thm_c08_lookups(cs, c, a, lm, x.wfactors.wdata@, wf2);
        // the two tuples of flows are two evaluations of the same components
        let n = nsteps(cs) as int;
        let idx = idx_ident(n);
        lemma_lay_same(n, 1real);
        assert(tags_same(cs, cs));
        assert forall|i2: int| 0 <= i2 < idx.len() implies 0 <= #[trigger] idx[i2] < nsteps(cs) && val_rel(cs, cs, idx[i2], i2, 1real) by {
            assert(idx[i2] == i2);
            assert forall|j: int| 0 <= j < cs.len() implies rv(#[trigger] e_vals(cs[j])[i2]) == 1real * rv(e_vals(cs[j])[i2]) by {
                assert(1real * rv(e_vals(cs[j])[i2]) == rv(e_vals(cs[j])[i2])) by(nonlinear_arith);
            }
        }
        lemma_inputs_vals(cs, cs, idx, 1real);
        lemma_ok_carrier(comps, comps, lm, idx, 1real, 1real, c, x.wfactors.wdata@, wf2, a, b);
        assert(cwe_post(x.wfactors.wdata@, c, rv(k_exp), bx.used, bx.exp, bx.del, Ok(bx.we)));
        assert(we_factors_ok(x.wfactors.wdata@, c, a.exp, a.del));
        assert(false);
    }
    thm_c08_ep(comps, w, w2, k_exp, area, lm, r, r2);
}
