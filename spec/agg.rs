// ---- spec layer for the whole-building aggregation (property C04)
pub open spec fn mval<K>(m: Map<K, f32>, k: K) -> real { if m.contains_key(k) { rv(m[k]) } else { 0real } }
pub open spec fn mval3<K>(m: Map<K, RenNrenCo2>, k: K) -> R3 { if m.contains_key(k) { r3v(m[k]) } else { r3z() } }
pub open spec fn mval2<K1, K2>(m: Map<K1, HashMap<K2, f32>>, k1: K1, k2: K2) -> real {
    if m.contains_key(k1) && m[k1]@.contains_key(k2) { rv(m[k1]@[k2]) } else { 0real }
}
/// `new` is `old` with the entries of `add` accumulated on it: keys of `add` get old-or-0 + add, other keys are untouched
pub open spec fn map_acc<K>(old: Map<K, f32>, new: Map<K, f32>, add: Map<K, f32>) -> bool {
    &&& (forall|k: K| #[trigger] new.contains_key(k) == (old.contains_key(k) || add.contains_key(k)))
    &&& (forall|k: K| add.contains_key(k) ==> rv(#[trigger] new[k]) == mval(old, k) + rv(add[k]))
    &&& (forall|k: K| old.contains_key(k) && !add.contains_key(k) ==> #[trigger] new[k] == old[k])
}
/// the same after the first n items of an iteration over `add`
pub open spec fn map_acc_p<K>(old: Map<K, f32>, new: Map<K, f32>, add: Map<K, f32>, rem: Seq<(&K, &f32)>, n: int) -> bool {
    &&& (forall|k: K| #[trigger] new.contains_key(k) == (old.contains_key(k) || visited(rem, n, k)))
    &&& (forall|k: K| visited(rem, n, k) ==> rv(#[trigger] new[k]) == mval(old, k) + rv(add[k]))
    &&& (forall|k: K| old.contains_key(k) && !visited(rem, n, k) ==> #[trigger] new[k] == old[k])
}
/// accumulation of RenNrenCo2 values for the keys of `dom` that `add` has
pub open spec fn map_acc3(old: Map<Service, RenNrenCo2>, new: Map<Service, RenNrenCo2>, add: Map<Service, RenNrenCo2>, dom: Map<Service, f32>) -> bool {
    &&& (forall|k: Service| #[trigger] new.contains_key(k) == (old.contains_key(k) || (dom.contains_key(k) && add.contains_key(k))))
    &&& (forall|k: Service| dom.contains_key(k) && add.contains_key(k) ==> r3v(#[trigger] new[k]) == r3a(mval3(old, k), r3v(add[k])))
    &&& (forall|k: Service| old.contains_key(k) && !(dom.contains_key(k) && add.contains_key(k)) ==> #[trigger] new[k] == old[k])
}
pub open spec fn map_acc3_p(old: Map<Service, RenNrenCo2>, new: Map<Service, RenNrenCo2>, add: Map<Service, RenNrenCo2>, rem: Seq<(&Service, &f32)>, n: int) -> bool {
    &&& (forall|k: Service| #[trigger] new.contains_key(k) == (old.contains_key(k) || (visited(rem, n, k) && add.contains_key(k))))
    &&& (forall|k: Service| visited(rem, n, k) && add.contains_key(k) ==> r3v(#[trigger] new[k]) == r3a(mval3(old, k), r3v(add[k])))
    &&& (forall|k: Service| old.contains_key(k) && !(visited(rem, n, k) && add.contains_key(k)) ==> #[trigger] new[k] == old[k])
}
/// one value added under key `k` when `cond`, otherwise nothing changes
pub open spec fn map_acc1<K>(old: Map<K, f32>, new: Map<K, f32>, k: K, v: real, cond: bool) -> bool {
    if cond {
        &&& new.dom() =~= old.dom().insert(k)
        &&& rv(new[k]) == mval(old, k) + v
        &&& (forall|x: K| x != k && old.contains_key(x) ==> #[trigger] new[x] == old[x])
    } else { new == old }
}
/// by-service-by-carrier detail: for every service of `add`, entry [service][carrier] gets old-or-0 + add[service]
pub open spec fn map_acc_sc(old: Map<Service, HashMap<Carrier, f32>>, new: Map<Service, HashMap<Carrier, f32>>, add: Map<Service, f32>, c: Carrier) -> bool {
    &&& (forall|s: Service| #[trigger] new.contains_key(s) == (old.contains_key(s) || add.contains_key(s)))
    &&& (forall|s: Service| add.contains_key(s) ==> (#[trigger] new[s])@.contains_key(c) && rv(new[s]@[c]) == mval2(old, s, c) + rv(add[s]))
    &&& (forall|s: Service, x: Carrier| add.contains_key(s) && x != c ==> (#[trigger] new[s]@.contains_key(x)) == (old.contains_key(s) && old[s]@.contains_key(x)))
    &&& (forall|s: Service, x: Carrier| add.contains_key(s) && x != c && old.contains_key(s) && old[s]@.contains_key(x) ==> #[trigger] new[s]@[x] == old[s]@[x])
    &&& (forall|s: Service| old.contains_key(s) && !add.contains_key(s) ==> #[trigger] new[s] == old[s])
}
pub open spec fn map_acc_sc_p(old: Map<Service, HashMap<Carrier, f32>>, new: Map<Service, HashMap<Carrier, f32>>, add: Map<Service, f32>, c: Carrier, rem: Seq<(&Service, &f32)>, n: int) -> bool {
    &&& (forall|s: Service| #[trigger] new.contains_key(s) == (old.contains_key(s) || visited(rem, n, s)))
    &&& (forall|s: Service| visited(rem, n, s) ==> (#[trigger] new[s])@.contains_key(c) && rv(new[s]@[c]) == mval2(old, s, c) + rv(add[s]))
    &&& (forall|s: Service, x: Carrier| visited(rem, n, s) && x != c ==> (#[trigger] new[s]@.contains_key(x)) == (old.contains_key(s) && old[s]@.contains_key(x)))
    &&& (forall|s: Service, x: Carrier| visited(rem, n, s) && x != c && old.contains_key(s) && old[s]@.contains_key(x) ==> #[trigger] new[s]@[x] == old[s]@[x])
    &&& (forall|s: Service| old.contains_key(s) && !visited(rem, n, s) ==> #[trigger] new[s] == old[s])
}

// ---- the accumulation contract of `impl AddAssign<&BalanceCarrier> for Balance`, field group by field group (C04)
pub open spec fn bal_add_used(o: Balance, f: Balance, r: BalanceCarrier) -> bool {
    rv(f.used.epus) == rv(o.used.epus) + rv(r.used.epus_an) && rv(f.used.nepus) == rv(o.used.nepus) + rv(r.used.nepus_an)
    && rv(f.used.cgnus) == rv(o.used.cgnus) + rv(r.used.cgnus_an)
}
pub open spec fn bal_add_prod_del_exp(o: Balance, f: Balance, r: BalanceCarrier) -> bool {
    rv(f.prod.an) == rv(o.prod.an) + rv(r.prod.an)
    && rv(f.del.an) == rv(o.del.an) + rv(r.del.an) && rv(f.del.onst) == rv(o.del.onst) + rv(r.del.onst_an) && rv(f.del.grid) == rv(o.del.grid) + rv(r.del.grid_an)
    && rv(f.exp.an) == rv(o.exp.an) + rv(r.exp.an) && rv(f.exp.nepus) == rv(o.exp.nepus) + rv(r.exp.nepus_an) && rv(f.exp.grid) == rv(o.exp.grid) + rv(r.exp.grid_an)
}
pub open spec fn bal_add_we(o: Balance, f: Balance, r: BalanceCarrier) -> bool {
    r3v(f.we.a) == r3a(r3v(o.we.a), r3v(r.we.a)) && r3v(f.we.b) == r3a(r3v(o.we.b), r3v(r.we.b))
    && r3v(f.we.del) == r3a(r3v(o.we.del), r3v(r.we.del)) && r3v(f.we.exp_a) == r3a(r3v(o.we.exp_a), r3v(r.we.exp_a))
    && r3v(f.we.exp) == r3a(r3v(o.we.exp), r3v(r.we.exp))
}
pub open spec fn bal_add_by_srv(o: Balance, f: Balance, r: BalanceCarrier) -> bool {
    map_acc(o.used.epus_by_srv@, f.used.epus_by_srv@, r.used.epus_by_srv_an@)
    && map_acc3(o.we.a_by_srv@, f.we.a_by_srv@, r.we.a_by_srv@, r.used.epus_by_srv_an@)
    && map_acc3(o.we.b_by_srv@, f.we.b_by_srv@, r.we.b_by_srv@, r.used.epus_by_srv_an@)
    && map_acc_sc(o.used.epus_by_cr_by_srv@, f.used.epus_by_cr_by_srv@, r.used.epus_by_srv_an@, r.carrier)
}
pub open spec fn bal_add_by_src(o: Balance, f: Balance, r: BalanceCarrier) -> bool {
    map_acc(o.prod.by_src@, f.prod.by_src@, r.prod.by_src_an@) && map_acc(o.prod.epus_by_src@, f.prod.epus_by_src@, r.prod.epus_by_src_an@)
}
pub open spec fn bal_add_by_cr(o: Balance, f: Balance, r: BalanceCarrier) -> bool {
    map_acc1(o.prod.by_cr@, f.prod.by_cr@, r.carrier, rv(r.prod.an), rv(r.prod.an) != 0real)
    && map_acc1(o.del.grid_by_cr@, f.del.grid_by_cr@, r.carrier, rv(r.del.grid_an), rv(r.del.grid_an) != 0real)
    && map_acc1(o.used.epus_by_cr@, f.used.epus_by_cr@, r.carrier, rv(r.used.epus_an), rv(r.used.epus_an) != 0real)
}

