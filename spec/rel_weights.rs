// ---- relational theorem for the weighting step: over the proved contract cwe_post of the real compute_weighted_energy
pub proof fn lemma_r3s_assoc(ct: real, x: real, f: R3) ensures r3s(ct * x, f) == r3s(ct, r3s(x, f)), r3s(x, r3s(ct, f)) == r3s(ct, r3s(x, f)) {
    lemma_assoc(ct, x, f.ren); lemma_assoc(ct, x, f.nren); lemma_assoc(ct, x, f.co2);
}
pub proof fn lemma_r3s_lin(ct: real, p: R3, q: R3) ensures r3a(r3s(ct, p), r3s(ct, q)) == r3s(ct, r3a(p, q)), r3d(r3s(ct, p), r3s(ct, q)) == r3s(ct, r3d(p, q)), r3s(ct, r3z()) == r3z() {
    lemma_dist2(ct, p.ren, q.ren); lemma_dist2(ct, p.nren, q.nren); lemma_dist2(ct, p.co2, q.co2); lemma_mul0(ct);
}
pub proof fn lemma_div_scale(ct: real, x: real, e: real) requires ct > 0real, e != 0real ensures (ct * x) / (ct * e) == x / e, ct * e != 0real {
    assert((ct * x) / (ct * e) == x / e && ct * e != 0real) by(nonlinear_arith) requires ct > 0real, e != 0real;
}
/// the two factor sets read the same for every key of carrier c (as real triples)
pub open spec fn fp_same(w: Seq<Factor>, w2: Seq<Factor>, c: Carrier) -> bool {
    forall|s: Source, d: Dest, st: Step| #[trigger] has_fp(w2, c, s, d, st) == has_fp(w, c, s, d, st) && fp(w2, c, s, d, st) == fp(w, c, s, d, st)
}
/// the keys the weighting step of carrier c looks up (read off we_factors_ok / the we_* spec functions) read the same in both sets
pub open spec fn key_same(w: Seq<Factor>, w2: Seq<Factor>, c: Carrier, s: Source, d: Dest, st: Step) -> bool {
    has_fp(w2, c, s, d, st) == has_fp(w, c, s, d, st) && fp(w2, c, s, d, st) == fp(w, c, s, d, st)
}
pub open spec fn we_lookups_same(w: Seq<Factor>, w2: Seq<Factor>, c: Carrier, exp: ExportedEnergy, del: DeliveredEnergy) -> bool {
    &&& key_same(w, w2, c, Source::RED, Dest::SUMINISTRO, Step::A)
    &&& (rv(del.onst_an) != 0real ==> key_same(w, w2, c, Source::INSITU, Dest::SUMINISTRO, Step::A))
    &&& (rv(exp.an) != 0real && rv(exp.nepus_an) != 0real ==> forall|src: ProdSource| exp.by_src_an@.contains_key(src) ==>
            #[trigger] key_same(w, w2, c, ps_source(src), Dest::A_NEPB, Step::A) && key_same(w, w2, c, ps_source(src), Dest::A_NEPB, Step::B))
    &&& (rv(exp.an) != 0real && rv(exp.grid_an) != 0real ==> forall|src: ProdSource| exp.by_src_an@.contains_key(src) ==>
            #[trigger] key_same(w, w2, c, ps_source(src), Dest::A_RED, Step::A) && key_same(w, w2, c, ps_source(src), Dest::A_RED, Step::B))
}
pub proof fn lemma_favg_keys(w: Seq<Factor>, w2: Seq<Factor>, c: Carrier, m: Map<ProdSource, f32>, e: real, d: Dest, st: Step)
    requires forall|src: ProdSource| m.contains_key(src) ==> #[trigger] key_same(w, w2, c, ps_source(src), d, st),
    ensures favg(w2, c, m, e, d, st) == favg(w, c, m, e, d, st), favg_ok(w2, c, m, d, st) == favg_ok(w, c, m, d, st),
{
    assert forall|src: ProdSource| favg_term(w2, c, m, e, d, st, src) == favg_term(w, c, m, e, d, st, src) by {
        if m.contains_key(src) { assert(key_same(w, w2, c, ps_source(src), d, st)); }
    }
    if favg_ok(w, c, m, d, st) {
        assert forall|src: ProdSource| m.contains_key(src) implies #[trigger] has_fp(w2, c, ps_source(src), d, st) by { assert(key_same(w, w2, c, ps_source(src), d, st)); assert(has_fp(w, c, ps_source(src), d, st)); }
    }
    if favg_ok(w2, c, m, d, st) {
        assert forall|src: ProdSource| m.contains_key(src) implies #[trigger] has_fp(w, c, ps_source(src), d, st) by { assert(key_same(w, w2, c, ps_source(src), d, st)); assert(has_fp(w2, c, ps_source(src), d, st)); }
    }
}
pub proof fn lemma_fp_same_lookups(w: Seq<Factor>, w2: Seq<Factor>, c: Carrier, exp: ExportedEnergy, del: DeliveredEnergy)
    requires fp_same(w, w2, c),
    ensures we_lookups_same(w, w2, c, exp, del),
{
    assert forall|s: Source, d: Dest, st: Step| key_same(w, w2, c, s, d, st) by { let t = has_fp(w2, c, s, d, st); assert(t == has_fp(w, c, s, d, st)); assert(fp(w2, c, s, d, st) == fp(w, c, s, d, st)); }
}
pub open spec fn mvalf_rel(m: Map<ProdSource, f32>, m2: Map<ProdSource, f32>, ct: real) -> bool {
    m2.dom() =~= m.dom() && forall|s: ProdSource| #[trigger] mvalf(m2, s) == ct * mvalf(m, s)
}
/// the average export factor (weights = share of each source in the exported energy) is homogeneous of degree 0
pub proof fn lemma_favg_scale(w: Seq<Factor>, w2: Seq<Factor>, c: Carrier, m: Map<ProdSource, f32>, m2: Map<ProdSource, f32>, e: real, ct: real, d: Dest, st: Step)
    requires ct > 0real, e != 0real, mvalf_rel(m, m2, ct), forall|src: ProdSource| m.contains_key(src) ==> #[trigger] key_same(w, w2, c, ps_source(src), d, st),
    ensures favg(w2, c, m2, ct * e, d, st) == favg(w, c, m, e, d, st), favg_ok(w2, c, m2, d, st) == favg_ok(w, c, m, d, st),
{
    assert forall|src: ProdSource| favg_term(w2, c, m2, ct * e, d, st, src) == favg_term(w, c, m, e, d, st, src) by {
        if m.contains_key(src) {
            assert(key_same(w, w2, c, ps_source(src), d, st));
            assert(m2.contains_key(src));
            assert(mvalf(m2, src) == ct * mvalf(m, src));
            lemma_div_scale(ct, rv(m[src]), e);
        } else { assert(!m2.contains_key(src)); }
    }
    assert forall|src: ProdSource| m2.contains_key(src) == m.contains_key(src) by {}
    if favg_ok(w, c, m, d, st) {
        assert forall|src: ProdSource| m2.contains_key(src) implies #[trigger] has_fp(w2, c, ps_source(src), d, st) by { assert(m.contains_key(src)); assert(key_same(w, w2, c, ps_source(src), d, st)); assert(has_fp(w, c, ps_source(src), d, st)); }
    }
    if favg_ok(w2, c, m2, d, st) {
        assert forall|src: ProdSource| m.contains_key(src) implies #[trigger] has_fp(w, c, ps_source(src), d, st) by { assert(m2.contains_key(src)); assert(key_same(w, w2, c, ps_source(src), d, st)); assert(has_fp(w2, c, ps_source(src), d, st)); }
    }
}
pub open spec fn we_rel(x: WeightedEnergy, y: WeightedEnergy, ct: real) -> bool {
    &&& r3v(y.del_grid) == r3s(ct, r3v(x.del_grid)) && r3v(y.del_onst) == r3s(ct, r3v(x.del_onst)) && r3v(y.del_cgn) == r3s(ct, r3v(x.del_cgn)) && r3v(y.del) == r3s(ct, r3v(x.del))
    &&& r3v(y.exp_nepus_a) == r3s(ct, r3v(x.exp_nepus_a)) && r3v(y.exp_grid_a) == r3s(ct, r3v(x.exp_grid_a)) && r3v(y.exp_a) == r3s(ct, r3v(x.exp_a))
    &&& r3v(y.exp_nepus_ab) == r3s(ct, r3v(x.exp_nepus_ab)) && r3v(y.exp_grid_ab) == r3s(ct, r3v(x.exp_grid_ab)) && r3v(y.exp_ab) == r3s(ct, r3v(x.exp_ab))
    &&& r3v(y.exp) == r3s(ct, r3v(x.exp)) && r3v(y.a) == r3s(ct, r3v(x.a)) && r3v(y.b) == r3s(ct, r3v(x.b))
    &&& y.a_by_srv@.dom() =~= x.a_by_srv@.dom() && y.b_by_srv@.dom() =~= x.b_by_srv@.dom()
    &&& (forall|s: Service| x.a_by_srv@.contains_key(s) ==> r3v(#[trigger] y.a_by_srv@[s]) == r3s(ct, r3v(x.a_by_srv@[s])))
    &&& (forall|s: Service| x.b_by_srv@.contains_key(s) ==> r3v(#[trigger] y.b_by_srv@[s]) == r3s(ct, r3v(x.b_by_srv@[s])))
}
/// the annual figures the weighting step reads
pub open spec fn we_inputs_rel(a: Run, b: Run, ct: real) -> bool {
    &&& rv(b.used.epus_an) == ct * rv(a.used.epus_an)
    &&& b.used.epus_by_srv_an@.dom() =~= a.used.epus_by_srv_an@.dom()
    &&& (forall|s: Service| #[trigger] mvalf(b.used.epus_by_srv_an@, s) == ct * mvalf(a.used.epus_by_srv_an@, s))
    &&& rv(b.exp.an) == ct * rv(a.exp.an) && rv(b.exp.nepus_an) == ct * rv(a.exp.nepus_an) && rv(b.exp.grid_an) == ct * rv(a.exp.grid_an)
    &&& mvalf_rel(a.exp.by_src_an@, b.exp.by_src_an@, ct)
    &&& rv(b.del.grid_an) == ct * rv(a.del.grid_an) && rv(b.del.onst_an) == ct * rv(a.del.onst_an) && rv(b.del.cgn_an) == ct * rv(a.del.cgn_an)
}
pub proof fn lemma_we_inputs(a: Run, b: Run, ct: real)
    requires annual_rel(a, b, ct), doms_same_r(a, b),
    ensures we_inputs_rel(a, b, ct),
{}
pub proof fn lemma_we_exp_parts(w: Seq<Factor>, w2: Seq<Factor>, c: Carrier, a: Run, b: Run, ct: real)
    requires ct > 0real, we_inputs_rel(a, b, ct), we_lookups_same(w, w2, c, a.exp, a.del),
    ensures
        we_exp_nepus_a(w2, c, b.exp) == r3s(ct, we_exp_nepus_a(w, c, a.exp)), we_exp_grid_a(w2, c, b.exp) == r3s(ct, we_exp_grid_a(w, c, a.exp)),
        we_exp_nepus_ab(w2, c, b.exp) == r3s(ct, we_exp_nepus_ab(w, c, a.exp)), we_exp_grid_ab(w2, c, b.exp) == r3s(ct, we_exp_grid_ab(w, c, a.exp)),
        we_exp_a(w2, c, b.exp) == r3s(ct, we_exp_a(w, c, a.exp)), we_exp_ab(w2, c, b.exp) == r3s(ct, we_exp_ab(w, c, a.exp)),
        (rv(b.exp.an) == 0real) == (rv(a.exp.an) == 0real),
{
    let e = rv(a.exp.an);
    lemma_pos_mul(ct, e); lemma_pos_mul(ct, rv(a.exp.nepus_an)); lemma_pos_mul(ct, rv(a.exp.grid_an));
    lemma_r3s_lin(ct, r3z(), r3z());
    if e != 0real {
        let m_ = a.exp.by_src_an@;
        if rv(a.exp.nepus_an) != 0real {
            assert forall|src: ProdSource| m_.contains_key(src) implies #[trigger] key_same(w, w2, c, ps_source(src), Dest::A_NEPB, Step::A) by {}
            assert forall|src: ProdSource| m_.contains_key(src) implies #[trigger] key_same(w, w2, c, ps_source(src), Dest::A_NEPB, Step::B) by { assert(key_same(w, w2, c, ps_source(src), Dest::A_NEPB, Step::A)); }
            lemma_favg_scale(w, w2, c, a.exp.by_src_an@, b.exp.by_src_an@, e, ct, Dest::A_NEPB, Step::A);
            lemma_favg_scale(w, w2, c, a.exp.by_src_an@, b.exp.by_src_an@, e, ct, Dest::A_NEPB, Step::B);
        }
        if rv(a.exp.grid_an) != 0real {
            assert forall|src: ProdSource| m_.contains_key(src) implies #[trigger] key_same(w, w2, c, ps_source(src), Dest::A_RED, Step::A) by {}
            assert forall|src: ProdSource| m_.contains_key(src) implies #[trigger] key_same(w, w2, c, ps_source(src), Dest::A_RED, Step::B) by { assert(key_same(w, w2, c, ps_source(src), Dest::A_RED, Step::A)); }
            lemma_favg_scale(w, w2, c, a.exp.by_src_an@, b.exp.by_src_an@, e, ct, Dest::A_RED, Step::A);
            lemma_favg_scale(w, w2, c, a.exp.by_src_an@, b.exp.by_src_an@, e, ct, Dest::A_RED, Step::B);
        }
        assert(f_nepus(w2, c, b.exp, Step::A) == f_nepus(w, c, a.exp, Step::A));
        assert(f_nepus(w2, c, b.exp, Step::B) == f_nepus(w, c, a.exp, Step::B));
        assert(f_grid(w2, c, b.exp, Step::A) == f_grid(w, c, a.exp, Step::A));
        assert(f_grid(w2, c, b.exp, Step::B) == f_grid(w, c, a.exp, Step::B));
        lemma_r3s_assoc(ct, rv(a.exp.nepus_an), f_nepus(w, c, a.exp, Step::A));
        lemma_r3s_assoc(ct, rv(a.exp.grid_an), f_grid(w, c, a.exp, Step::A));
        lemma_r3s_assoc(ct, rv(a.exp.nepus_an), r3d(f_nepus(w, c, a.exp, Step::B), f_nepus(w, c, a.exp, Step::A)));
        lemma_r3s_assoc(ct, rv(a.exp.grid_an), r3d(f_grid(w, c, a.exp, Step::B), f_grid(w, c, a.exp, Step::A)));
    }
    lemma_r3s_lin(ct, we_exp_nepus_a(w, c, a.exp), we_exp_grid_a(w, c, a.exp));
    lemma_r3s_lin(ct, we_exp_nepus_ab(w, c, a.exp), we_exp_grid_ab(w, c, a.exp));
}
pub proof fn lemma_we_del_parts(w: Seq<Factor>, w2: Seq<Factor>, c: Carrier, a: Run, b: Run, ct: real)
    requires ct > 0real, we_inputs_rel(a, b, ct), we_lookups_same(w, w2, c, a.exp, a.del),
    ensures
        we_del_grid(w2, c, b.del) == r3s(ct, we_del_grid(w, c, a.del)), we_del_onst(w2, c, b.del) == r3s(ct, we_del_onst(w, c, a.del)),
        we_del_cgn(w2, c, b.del) == r3s(ct, we_del_cgn(w, c, a.del)), we_del(w2, c, b.del) == r3s(ct, we_del(w, c, a.del)),
{
    lemma_pos_mul(ct, rv(a.del.onst_an));
    lemma_r3s_lin(ct, r3z(), r3z());
    assert(key_same(w, w2, c, Source::RED, Dest::SUMINISTRO, Step::A) && fgrid(w2, c) == fgrid(w, c));
    assert(rv(a.del.onst_an) != 0real ==> key_same(w, w2, c, Source::INSITU, Dest::SUMINISTRO, Step::A));
    lemma_r3s_assoc(ct, rv(a.del.grid_an), fgrid(w, c));
    lemma_r3s_assoc(ct, rv(a.del.cgn_an), fgrid(w, c));
    lemma_r3s_assoc(ct, rv(a.del.onst_an), fp(w, c, Source::INSITU, Dest::SUMINISTRO, Step::A));
    lemma_r3s_lin(ct, we_del_grid(w, c, a.del), we_del_onst(w, c, a.del));
    lemma_r3s_lin(ct, r3a(we_del_grid(w, c, a.del), we_del_onst(w, c, a.del)), we_del_cgn(w, c, a.del));
}
/// every factor the weighting step needs is present for the second evaluation exactly when it is for the first
pub proof fn lemma_we_ok_same(w: Seq<Factor>, w2: Seq<Factor>, c: Carrier, a: Run, b: Run, ct: real)
    requires ct > 0real, we_inputs_rel(a, b, ct), we_lookups_same(w, w2, c, a.exp, a.del),
    ensures we_factors_ok(w2, c, b.exp, b.del) == we_factors_ok(w, c, a.exp, a.del),
{
    let e = rv(a.exp.an);
    lemma_pos_mul(ct, e); lemma_pos_mul(ct, rv(a.exp.nepus_an)); lemma_pos_mul(ct, rv(a.exp.grid_an)); lemma_pos_mul(ct, rv(a.del.onst_an));
    if e != 0real {
        let m_ = a.exp.by_src_an@;
        if rv(a.exp.nepus_an) != 0real {
            assert forall|src: ProdSource| m_.contains_key(src) implies #[trigger] key_same(w, w2, c, ps_source(src), Dest::A_NEPB, Step::A) by {}
            assert forall|src: ProdSource| m_.contains_key(src) implies #[trigger] key_same(w, w2, c, ps_source(src), Dest::A_NEPB, Step::B) by { assert(key_same(w, w2, c, ps_source(src), Dest::A_NEPB, Step::A)); }
            lemma_favg_scale(w, w2, c, a.exp.by_src_an@, b.exp.by_src_an@, e, ct, Dest::A_NEPB, Step::A);
            lemma_favg_scale(w, w2, c, a.exp.by_src_an@, b.exp.by_src_an@, e, ct, Dest::A_NEPB, Step::B);
        }
        if rv(a.exp.grid_an) != 0real {
            assert forall|src: ProdSource| m_.contains_key(src) implies #[trigger] key_same(w, w2, c, ps_source(src), Dest::A_RED, Step::A) by {}
            assert forall|src: ProdSource| m_.contains_key(src) implies #[trigger] key_same(w, w2, c, ps_source(src), Dest::A_RED, Step::B) by { assert(key_same(w, w2, c, ps_source(src), Dest::A_RED, Step::A)); }
            lemma_favg_scale(w, w2, c, a.exp.by_src_an@, b.exp.by_src_an@, e, ct, Dest::A_RED, Step::A);
            lemma_favg_scale(w, w2, c, a.exp.by_src_an@, b.exp.by_src_an@, e, ct, Dest::A_RED, Step::B);
        }
    }
    assert(key_same(w, w2, c, Source::RED, Dest::SUMINISTRO, Step::A));
    assert(rv(a.del.onst_an) != 0real ==> key_same(w, w2, c, Source::INSITU, Dest::SUMINISTRO, Step::A));
}
/// THE WEIGHTING THEOREM: annual figures x ct  ==>  same Ok / Err, every weighted figure x ct (so per-carrier RER-type ratios are unchanged)
pub proof fn thm_weights(w: Seq<Factor>, w2: Seq<Factor>, c: Carrier, k: real, a: Run, b: Run, ct: real, r: Result<WeightedEnergy>, r2: Result<WeightedEnergy>)
    requires ct > 0real, we_inputs_rel(a, b, ct), we_lookups_same(w, w2, c, a.exp, a.del),
             cwe_post(w, c, k, a.used, a.exp, a.del, r), cwe_post(w2, c, k, b.used, b.exp, b.del, r2),
    ensures (r is Ok) == (r2 is Ok), r is Ok ==> we_rel(r->Ok_0, r2->Ok_0, ct),
{
    lemma_we_exp_parts(w, w2, c, a, b, ct);
    lemma_we_del_parts(w, w2, c, a, b, ct);
    let e = rv(a.exp.an);
    lemma_pos_mul(ct, e); lemma_pos_mul(ct, rv(a.exp.nepus_an)); lemma_pos_mul(ct, rv(a.exp.grid_an)); lemma_pos_mul(ct, rv(a.del.onst_an));
    if e != 0real {
        let m_ = a.exp.by_src_an@;
        if rv(a.exp.nepus_an) != 0real {
            assert forall|src: ProdSource| m_.contains_key(src) implies #[trigger] key_same(w, w2, c, ps_source(src), Dest::A_NEPB, Step::A) by {}
            assert forall|src: ProdSource| m_.contains_key(src) implies #[trigger] key_same(w, w2, c, ps_source(src), Dest::A_NEPB, Step::B) by { assert(key_same(w, w2, c, ps_source(src), Dest::A_NEPB, Step::A)); }
            lemma_favg_scale(w, w2, c, a.exp.by_src_an@, b.exp.by_src_an@, e, ct, Dest::A_NEPB, Step::A);
            lemma_favg_scale(w, w2, c, a.exp.by_src_an@, b.exp.by_src_an@, e, ct, Dest::A_NEPB, Step::B);
        }
        if rv(a.exp.grid_an) != 0real {
            assert forall|src: ProdSource| m_.contains_key(src) implies #[trigger] key_same(w, w2, c, ps_source(src), Dest::A_RED, Step::A) by {}
            assert forall|src: ProdSource| m_.contains_key(src) implies #[trigger] key_same(w, w2, c, ps_source(src), Dest::A_RED, Step::B) by { assert(key_same(w, w2, c, ps_source(src), Dest::A_RED, Step::A)); }
            lemma_favg_scale(w, w2, c, a.exp.by_src_an@, b.exp.by_src_an@, e, ct, Dest::A_RED, Step::A);
            lemma_favg_scale(w, w2, c, a.exp.by_src_an@, b.exp.by_src_an@, e, ct, Dest::A_RED, Step::B);
        }
    }
    assert(key_same(w, w2, c, Source::RED, Dest::SUMINISTRO, Step::A));
    assert(rv(a.del.onst_an) != 0real ==> key_same(w, w2, c, Source::INSITU, Dest::SUMINISTRO, Step::A));
    assert(we_factors_ok(w2, c, b.exp, b.del) == we_factors_ok(w, c, a.exp, a.del));
    if r is Ok {
        let x = r->Ok_0; let y = r2->Ok_0;
        lemma_r3s_lin(ct, r3z(), r3z());
        // exp(k) = exp_a + k * exp_ab
        lemma_r3s_assoc(ct, k, we_exp_ab(w, c, a.exp));
        lemma_r3s_lin(ct, we_exp_a(w, c, a.exp), r3s(k, we_exp_ab(w, c, a.exp)));
        assert(we_exp(w2, c, b.exp, k) == r3s(ct, we_exp(w, c, a.exp, k)));
        lemma_r3s_lin(ct, we_del(w, c, a.del), we_exp_a(w, c, a.exp));
        lemma_r3s_lin(ct, we_del(w, c, a.del), we_exp(w, c, a.exp, k));
        assert(r3v(y.a) == r3s(ct, r3v(x.a)));
        assert(r3v(y.b) == r3s(ct, r3v(x.b)));
        assert forall|s: Service| x.a_by_srv@.contains_key(s) implies r3v(#[trigger] y.a_by_srv@[s]) == r3s(ct, r3v(x.a_by_srv@[s])) by {
            assert(a.used.epus_by_srv_an@.contains_key(s) && b.used.epus_by_srv_an@.contains_key(s));
            assert(mvalf(b.used.epus_by_srv_an@, s) == ct * mvalf(a.used.epus_by_srv_an@, s));
            lemma_share_scale(ct, rv(a.used.epus_by_srv_an@[s]), rv(a.used.epus_an));
            lemma_r3s_assoc(ct, share(rv(a.used.epus_by_srv_an@[s]), rv(a.used.epus_an)), r3v(x.a));
        }
        assert forall|s: Service| x.b_by_srv@.contains_key(s) implies r3v(#[trigger] y.b_by_srv@[s]) == r3s(ct, r3v(x.b_by_srv@[s])) by {
            assert(a.used.epus_by_srv_an@.contains_key(s) && b.used.epus_by_srv_an@.contains_key(s));
            assert(mvalf(b.used.epus_by_srv_an@, s) == ct * mvalf(a.used.epus_by_srv_an@, s));
            lemma_share_scale(ct, rv(a.used.epus_by_srv_an@[s]), rv(a.used.epus_an));
            lemma_r3s_assoc(ct, share(rv(a.used.epus_by_srv_an@[s]), rv(a.used.epus_an)), r3v(x.b));
            // the by-service clause of the contract is triggered on the step A map
            assert(x.a_by_srv@.contains_key(s) && y.a_by_srv@.contains_key(s));
            assert(r3v(x.a_by_srv@[s]) == r3s(share(rv(a.used.epus_by_srv_an@[s]), rv(a.used.epus_an)), r3v(x.a)));
            assert(r3v(y.a_by_srv@[s]) == r3s(share(rv(b.used.epus_by_srv_an@[s]), rv(b.used.epus_an)), r3v(y.a)));
        }
    }
}
