// ---- C07: idempotence and completeness of the preparation of weighting factors - theorems over the proved contract of Factors::normalize
/// a prepared set always contains ELECTRICIDAD (the preparation needs its grid factor)
pub proof fn lemma_norm_has_el(x: Factors, d: UserWF<RenNrenCo2>, r: Result<Factors>)
    requires norm_post(x, d, r), r is Ok,
    ensures carrier_in(x.wdata@, Carrier::ELECTRICIDAD), carrier_in(r->Ok_0.wdata@, Carrier::ELECTRICIDAD),
            find_spec(r->Ok_0.wdata@, Carrier::ELECTRICIDAD, Source::INSITU, Dest::SUMINISTRO, Step::A) == Some(one3()),
{
    let w = r->Ok_0.wdata@;
    let w1 = choose|w1: Seq<Factor>| kept(w1, w) && #[trigger] exp_defaults_ok(w1, w, 0) && exp_defaults_ok(w1, w, 1) && exp_defaults_ok(w1, w, 2)
        && (forall|c: Carrier, s: Source, dd: Dest, st: Step| !forced_key(c, s, dd, st) ==> #[trigger] find_spec(w1, c, s, dd, st) == find_spec(x.wdata@, c, s, dd, st));
    assert(exp_pair(0) == (Carrier::ELECTRICIDAD, Source::INSITU));
    assert(find_spec(w1, Carrier::ELECTRICIDAD, Source::RED, Dest::SUMINISTRO, Step::A) is Some);
    assert(!forced_key(Carrier::ELECTRICIDAD, Source::RED, Dest::SUMINISTRO, Step::A));
    assert(find_spec(x.wdata@, Carrier::ELECTRICIDAD, Source::RED, Dest::SUMINISTRO, Step::A) is Some);
    lemma_find_some_carrier(x.wdata@, Carrier::ELECTRICIDAD, Source::RED, Dest::SUMINISTRO, Step::A);
    lemma_find_some_carrier(w, Carrier::ELECTRICIDAD, Source::INSITU, Dest::SUMINISTRO, Step::A);
}
/// C07 (idempotence): preparing an already prepared set changes nothing - every key reads the same before and after the second preparation
pub proof fn thm_c07_idempotent(x: Factors, d: UserWF<RenNrenCo2>, r1: Result<Factors>, r2: Result<Factors>)
    requires norm_post(x, d, r1), r1 is Ok, norm_post(r1->Ok_0, d, r2), r2 is Ok,
    ensures forall|c: Carrier, s: Source, dd: Dest, st: Step| #[trigger] find_spec(r2->Ok_0.wdata@, c, s, dd, st) == find_spec(r1->Ok_0.wdata@, c, s, dd, st),
{
    let w1 = r1->Ok_0.wdata@; let w2 = r2->Ok_0.wdata@;
    lemma_norm_has_el(x, d, r1);
    lemma_norm_has_el(r1->Ok_0, d, r2);
    assert forall|c: Carrier, s: Source, dd: Dest, st: Step| #[trigger] find_spec(w2, c, s, dd, st) == find_spec(w1, c, s, dd, st) by {
        if forced_key(c, s, dd, st) {
            // fixed by the method in both
        } else if find_spec(w1, c, s, dd, st) is Some {
            // kept by the second preparation
        } else if find_spec(w2, c, s, dd, st) is Some {
            // nothing is added except keys that the first preparation had already added
            assert(added_key(c, s, dd, st));
            if (c == Carrier::RED1 || c == Carrier::RED2) && s == Source::RED && dd == Dest::SUMINISTRO && st == Step::A {
                assert(find_spec(w1, c, s, dd, st) is Some);
            } else {
                let j = choose|j: int| 0 <= j < 3 && c == exp_pair(j).0 && s == exp_pair(j).1 && (dd == Dest::A_RED || dd == Dest::A_NEPB);
                assert(exp_complete(w1, j));
                assert(find_spec(w1, c, s, dd, st) is Some) by { if st == Step::A { } else { } }
            }
        }
    }
}
