// ---- C07: idempotence and completeness of the preparation of weighting factors - theorems over the proved contract of Factors::normalize
/// a prepared set always contains ELECTRICIDAD (the preparation needs its grid factor)
pub proof fn lemma_norm_has_el(x: Factors, d: UserWF<RenNrenCo2>, r: Result<Factors>)
    requires norm_post(x, d, r), r is Ok,
    ensures carrier_in(x.wdata@, Carrier::ELECTRICIDAD), carrier_in(r->Ok_0.wdata@, Carrier::ELECTRICIDAD),
            find_spec(r->Ok_0.wdata@, Carrier::ELECTRICIDAD, Source::INSITU, Dest::SUMINISTRO, Step::A) == Some(one3()),
{
    let w = r->Ok_0.wdata@;
    let w1 = choose|w1: Seq<Factor>| kept(w1, w) && #[trigger] exp_defaults_ok(w1, w, 0) && exp_defaults_ok(w1, w, 1) && exp_defaults_ok(w1, w, 2)
        && (forall|c: Carrier, s: Source, dd: Dest, st: Step| !forced_key(c, s, dd, st) ==> #[trigger] find_spec(w1, c, s, dd, st) == find_spec(x.wdata@, c, s, dd, st));
    assert(exp_pair(0) == (Carrier::ELECTRICIDAD, Source::INSITU));
    assert(find_spec(w1, Carrier::ELECTRICIDAD, Source::RED, Dest::SUMINISTRO, Step::A) is Some);
    assert(!forced_key(Carrier::ELECTRICIDAD, Source::RED, Dest::SUMINISTRO, Step::A));
    assert(find_spec(x.wdata@, Carrier::ELECTRICIDAD, Source::RED, Dest::SUMINISTRO, Step::A) is Some);
    lemma_find_some_carrier(x.wdata@, Carrier::ELECTRICIDAD, Source::RED, Dest::SUMINISTRO, Step::A);
    lemma_find_some_carrier(w, Carrier::ELECTRICIDAD, Source::INSITU, Dest::SUMINISTRO, Step::A);
}
/// C07 (idempotence): preparing an already prepared set changes nothing - every key reads the same before and after the second preparation
pub proof fn thm_c07_idempotent(x: Factors, d: UserWF<RenNrenCo2>, r1: Result<Factors>, r2: Result<Factors>)
    requires norm_post(x, d, r1), r1 is Ok, norm_post(r1->Ok_0, d, r2), r2 is Ok,
    ensures forall|c: Carrier, s: Source, dd: Dest, st: Step| #[trigger] find_spec(r2->Ok_0.wdata@, c, s, dd, st) == find_spec(r1->Ok_0.wdata@, c, s, dd, st),
{
    let w1 = r1->Ok_0.wdata@; let w2 = r2->Ok_0.wdata@;
    lemma_norm_has_el(x, d, r1);
    lemma_norm_has_el(r1->Ok_0, d, r2);
    assert forall|c: Carrier, s: Source, dd: Dest, st: Step| #[trigger] find_spec(w2, c, s, dd, st) == find_spec(w1, c, s, dd, st) by {
        if forced_key(c, s, dd, st) {
            // fixed by the method in both
        } else if find_spec(w1, c, s, dd, st) is Some {
            // kept by the second preparation
        } else if find_spec(w2, c, s, dd, st) is Some {
            // nothing is added except keys that the first preparation had already added
            assert(added_key(c, s, dd, st));
            if (c == Carrier::RED1 || c == Carrier::RED2) && s == Source::RED && dd == Dest::SUMINISTRO && st == Step::A {
                assert(find_spec(w1, c, s, dd, st) is Some);
            } else {
                let j = choose|j: int| 0 <= j < 3 && c == exp_pair(j).0 && s == exp_pair(j).1 && (dd == Dest::A_RED || dd == Dest::A_NEPB);
                assert(exp_complete(w1, j));
                assert(find_spec(w1, c, s, dd, st) is Some) by { if st == Step::A { } else { } }
            }
        }
    }
}

// ------------------------------------------------------------------------------------------------ completeness
/// every carrier the building uses is a carrier of the factor set
pub open spec fn carriers_covered(cs: Seq<Energy>, w0: Seq<Factor>) -> bool { forall|c: Carrier| in_avail(cs, c) ==> #[trigger] carrier_in(w0, c) }
pub proof fn lemma_prefix_has(f: Seq<Factor>, n: int, c: Carrier, s: Source, d: Dest, st: Step)
    requires 0 <= n <= f.len(), find_spec(f.take(n), c, s, d, st) is Some,
    ensures find_spec(f, c, s, d, st) is Some,
{
    lemma_find_split(f, n, c, s, d, st);
}
/// a prepared set, with the derived cogeneration factors of the evaluation added, has every factor the weighting step of a carrier of
/// the building looks up
pub proof fn lemma_c07_has(x: Factors, d: UserWF<RenNrenCo2>, r: Result<Factors>, f: Seq<Factor>, cs: Seq<Energy>, c: Carrier, s: Source, dd: Dest, st: Step)
    requires norm_post(x, d, r), r is Ok, cgn_added(r->Ok_0.wdata@, f, cs),
             // the key is one of: grid supply of a carrier of the set; anything of an on-site pair; a cogeneration export key when there is cogenerated electricity
             (s == Source::RED && dd == Dest::SUMINISTRO && st == Step::A && carrier_in(x.wdata@, c))
             || ((exists|j: int| 0 <= j < 3 && c == exp_pair(j).0 && s == exp_pair(j).1) && (dd == Dest::SUMINISTRO ==> st == Step::A))
             || (c == Carrier::ELECTRICIDAD && s == Source::COGEN && dd != Dest::SUMINISTRO && has_cgn_prod(cs)),
    ensures has_fp(f, c, s, dd, st),
{
    let w = r->Ok_0.wdata@;
    let n = w.len() as int;
    if has_cgn_prod(cs) { assert(f.take(n) == w); } else { assert(f == w); assert(f.take(n) =~= w); }
    if s == Source::RED && dd == Dest::SUMINISTRO && st == Step::A && carrier_in(x.wdata@, c) {
        assert(find_spec(w, c, Source::RED, Dest::SUMINISTRO, Step::A) is Some);
        lemma_prefix_has(f, n, c, s, dd, st);
    } else if (exists|j: int| 0 <= j < 3 && c == exp_pair(j).0 && s == exp_pair(j).1) && (dd == Dest::SUMINISTRO ==> st == Step::A) {
        let j = choose|j: int| 0 <= j < 3 && c == exp_pair(j).0 && s == exp_pair(j).1;
        assert(exp_complete(w, j));
        assert(s == Source::INSITU);
        assert(find_spec(w, c, s, dd, st) is Some) by {
            match dd { Dest::SUMINISTRO => { match st { Step::A => {}, Step::B => {} } }, Dest::A_RED => { match st { Step::A => {}, Step::B => {} } }, Dest::A_NEPB => { match st { Step::A => {}, Step::B => {} } } }
        }
        lemma_prefix_has(f, n, c, s, dd, st);
    } else {
        // the five derived factors
        lemma_find_split(f, n, c, s, dd, st);
        if find_spec(w, c, s, dd, st) is None {
            let t = f.skip(n);
            assert(t.len() == 5);
            assert(t[0] == f[n] && t[1] == f[n + 1] && t[2] == f[n + 2] && t[3] == f[n + 3] && t[4] == f[n + 4]);
            lemma_find5(t, c, s, dd, st);
        }
    }
}

/// a production source of carrier c is one of the on-site pairs (ELECTRICIDAD / EAMBIENTE / TERMOSOLAR, INSITU) or cogenerated electricity
pub proof fn lemma_src_pair(src: ProdSource)
    ensures ps_source(src) == Source::COGEN ==> ps_carrier(src) == Carrier::ELECTRICIDAD,
            ps_source(src) != Source::COGEN ==> ps_source(src) == Source::INSITU && exists|j: int| 0 <= j < 3 && ps_carrier(src) == exp_pair(j).0 && Source::INSITU == exp_pair(j).1,
{
    match src {
        ProdSource::EL_INSITU => { assert(exp_pair(0) == (Carrier::ELECTRICIDAD, Source::INSITU)); }
        ProdSource::EL_COGEN => {}
        ProdSource::EAMBIENTE => { assert(exp_pair(1) == (Carrier::EAMBIENTE, Source::INSITU)); }
        ProdSource::TERMOSOLAR => { assert(exp_pair(2) == (Carrier::TERMOSOLAR, Source::INSITU)); }
    }
}
/// THE C07 COMPLETENESS THEOREM: a building whose carriers are all carriers of the factor set is weighted without a missing factor - the
/// weighting step of every one of its carriers finds every factor it looks up in the prepared set (plus the derived cogeneration factors)
pub proof fn thm_c07_complete(x: Factors, d: UserWF<RenNrenCo2>, r: Result<Factors>, f: Seq<Factor>, cs: Seq<Energy>, c: Carrier, a: Run, lm: bool)
    requires norm_post(x, d, r), r is Ok, cgn_added(r->Ok_0.wdata@, f, cs), carriers_covered(cs, x.wdata@),
             comps_wf(cs), in_avail(cs, c), run_ok(a, lm), a.cs == filter_carrier(cs, c),
    ensures we_factors_ok(f, c, a.exp, a.del),
{
    let n = nsteps(cs);
    lemma_filter_carrier(cs, c, n);
    assert(carrier_in(x.wdata@, c));
    lemma_c07_has(x, d, r, f, cs, c, Source::RED, Dest::SUMINISTRO, Step::A);
    // on-site supply: only carriers that can be produced on site have it
    if rv(a.del.onst_an) != 0real {
        lemma_sumf_nonzero(a.del.onst_t@);
        let i = choose|i: int| 0 <= i < a.del.onst_t@.len() && rv(#[trigger] a.del.onst_t@[i]) != 0real;
        assert(rv(a.del.onst_t@[i]) == onsite_sum(a.prod.by_src_t@, i));
        let m = a.prod.by_src_t@;
        let src = if m.contains_key(ProdSource::EL_INSITU) { ProdSource::EL_INSITU } else if m.contains_key(ProdSource::TERMOSOLAR) { ProdSource::TERMOSOLAR } else { ProdSource::EAMBIENTE };
        assert(m.contains_key(src));
        lemma_src_component(cs, c, a, lm, src);
        lemma_src_pair(src);
        lemma_c07_has(x, d, r, f, cs, c, Source::INSITU, Dest::SUMINISTRO, Step::A);
    }
    // export factors of every source that produces for this carrier - looked up only when something is exported, which needs a step
    if rv(a.exp.an) != 0real {
        assert(n > 0) by {
            if n == 0 {
                assert(a.prod.t@.len() == 0);
                assert(a.exp.nepus_t@.len() == 0 && a.exp.grid_t@.len() == 0);
                assert(sumf(a.exp.nepus_t@) == 0real && sumf(a.exp.grid_t@) == 0real);
            }
        }
        assert forall|src: ProdSource, dd: Dest, st: Step| a.exp.by_src_an@.contains_key(src) && dd != Dest::SUMINISTRO implies #[trigger] has_fp(f, c, ps_source(src), dd, st) by {
            assert(a.prod.by_src_t@.contains_key(src));
            lemma_src_component(cs, c, a, lm, src);
            lemma_src_pair(src);
            if ps_source(src) == Source::COGEN {
                let j = choose|j: int| 0 <= j < cs.len() && (#[trigger] cs[j]) is Prod && cs[j]->Prod_0.source == src && ps_carrier(src) == c;
                lemma_any_sel_intro(cs, Sel::Prod(ProdSource::EL_COGEN), j);
                assert(has_cgn_prod(cs));
            }
            lemma_c07_has(x, d, r, f, cs, c, ps_source(src), dd, st);
        }
        assert(favg_ok(f, c, a.exp.by_src_an@, Dest::A_NEPB, Step::A) && favg_ok(f, c, a.exp.by_src_an@, Dest::A_NEPB, Step::B)
            && favg_ok(f, c, a.exp.by_src_an@, Dest::A_RED, Step::A) && favg_ok(f, c, a.exp.by_src_an@, Dest::A_RED, Step::B));
    }
}
pub proof fn lemma_any_sel_intro(cs: Seq<Energy>, k: Sel, j: int)
    requires 0 <= j < cs.len(), sel(k, cs[j]),
    ensures any_sel(cs, k),
    decreases cs.len(),
{
    if j < cs.len() - 1 { assert(cs.drop_last()[j] == cs[j]); lemma_any_sel_intro(cs.drop_last(), k, j); }
}
/// ... and the derived cogeneration factors can be computed: every fuel burnt for cogeneration has its grid supply factor
pub proof fn thm_c07_complete_cgn(x: Factors, d: UserWF<RenNrenCo2>, r: Result<Factors>, cs: Seq<Energy>, only_nearby: bool)
    requires norm_post(x, d, r), r is Ok, carriers_covered(cs, x.wdata@),
    ensures cgn_factors_ok(r->Ok_0.wdata@, cs, only_nearby),
{
    let w = r->Ok_0.wdata@;
    assert forall|fuel: Carrier| cgn_uses(cs, only_nearby, fuel) implies #[trigger] has_fp(w, fuel, Source::RED, Dest::SUMINISTRO, Step::A) by {
        lemma_cgnfuel_avail(cs, fuel);
        assert(carrier_in(x.wdata@, fuel));
        assert(find_spec(w, fuel, Source::RED, Dest::SUMINISTRO, Step::A) is Some);
    }
}
/// C07 (unusable sets are rejected): a set with a carrier that lacks its grid supply factor is not accepted
pub proof fn thm_c07_unusable_rejected(x: Factors, d: UserWF<RenNrenCo2>, r: Result<Factors>, c: Carrier)
    requires norm_post(x, d, r), carrier_in(x.wdata@, c), find_spec(x.wdata@, c, Source::RED, Dest::SUMINISTRO, Step::A) is None,
             !forced_key(c, Source::RED, Dest::SUMINISTRO, Step::A), !((c == Carrier::RED1 || c == Carrier::RED2)),
    ensures r is Err,
{
    if r is Ok {
        let w = r->Ok_0.wdata@;
        assert(find_spec(w, c, Source::RED, Dest::SUMINISTRO, Step::A) is Some);
        assert(!added_key(c, Source::RED, Dest::SUMINISTRO, Step::A)) by {
            if exists|j: int| 0 <= j < 3 && c == exp_pair(j).0 && Source::RED == exp_pair(j).1 && (Dest::SUMINISTRO == Dest::A_RED || Dest::SUMINISTRO == Dest::A_NEPB) { }
        }
    }
}
