// ---- C03 at the public entry point: two evaluations of the same building that differ only in k_exp
pub proof fn lemma_r3_affine(del: R3, ea: R3, eab: R3, k: real)
    ensures r3d(del, r3a(ea, r3s(k, eab))) == r3d(r3d(del, ea), r3s(k, eab)),
{}
/// what does not depend on k_exp is the same in both results; the step B figures are step A minus k times the same k-free quantity
pub open spec fn we_k_rel(x: WeightedEnergy, y: WeightedEnergy, k1: real, k2: real) -> bool {
    &&& r3v(y.del_grid) == r3v(x.del_grid) && r3v(y.del_onst) == r3v(x.del_onst) && r3v(y.del_cgn) == r3v(x.del_cgn) && r3v(y.del) == r3v(x.del)
    &&& r3v(y.exp_nepus_a) == r3v(x.exp_nepus_a) && r3v(y.exp_grid_a) == r3v(x.exp_grid_a) && r3v(y.exp_a) == r3v(x.exp_a)
    &&& r3v(y.exp_nepus_ab) == r3v(x.exp_nepus_ab) && r3v(y.exp_grid_ab) == r3v(x.exp_grid_ab) && r3v(y.exp_ab) == r3v(x.exp_ab)
    &&& r3v(y.a) == r3v(x.a)
    &&& r3v(x.exp) == r3a(r3v(x.exp_a), r3s(k1, r3v(x.exp_ab))) && r3v(y.exp) == r3a(r3v(x.exp_a), r3s(k2, r3v(x.exp_ab)))
    &&& r3v(x.b) == r3d(r3v(x.a), r3s(k1, r3v(x.exp_ab))) && r3v(y.b) == r3d(r3v(x.a), r3s(k2, r3v(x.exp_ab)))
    &&& y.a_by_srv@.dom() =~= x.a_by_srv@.dom() && (forall|s: Service| x.a_by_srv@.contains_key(s) ==> r3v(#[trigger] y.a_by_srv@[s]) == r3v(x.a_by_srv@[s]))
}
/// the weighting step with two values of k_exp on (real-)equal annual flows
pub proof fn thm_weights_k(w: Seq<Factor>, w2: Seq<Factor>, c: Carrier, k1: real, k2: real, a: Run, b: Run, r: Result<WeightedEnergy>, r2: Result<WeightedEnergy>)
    requires we_inputs_rel(a, b, 1real), we_lookups_same(w, w2, c, a.exp, a.del),
             cwe_post(w, c, k1, a.used, a.exp, a.del, r), cwe_post(w2, c, k2, b.used, b.exp, b.del, r2),
    ensures (r is Ok) == (r2 is Ok), r is Ok ==> we_k_rel(r->Ok_0, r2->Ok_0, k1, k2),
{
    lemma_we_ok_same(w, w2, c, a, b, 1real);
    lemma_we_exp_parts(w, w2, c, a, b, 1real);
    lemma_we_del_parts(w, w2, c, a, b, 1real);
    if r is Ok {
        let x = r->Ok_0; let y = r2->Ok_0;
        lemma_r3s_one(we_exp_nepus_a(w, c, a.exp)); lemma_r3s_one(we_exp_grid_a(w, c, a.exp)); lemma_r3s_one(we_exp_a(w, c, a.exp));
        lemma_r3s_one(we_exp_nepus_ab(w, c, a.exp)); lemma_r3s_one(we_exp_grid_ab(w, c, a.exp)); lemma_r3s_one(we_exp_ab(w, c, a.exp));
        lemma_r3s_one(we_del_grid(w, c, a.del)); lemma_r3s_one(we_del_onst(w, c, a.del)); lemma_r3s_one(we_del_cgn(w, c, a.del)); lemma_r3s_one(we_del(w, c, a.del));
        lemma_mul0(k1); lemma_mul0(k2);
        // exp(k) = exp_a + k exp_ab also when nothing is exported (then both parts are zero)
        assert(r3v(x.exp) == r3a(r3v(x.exp_a), r3s(k1, r3v(x.exp_ab))));
        assert(r3v(y.exp) == r3a(r3v(y.exp_a), r3s(k2, r3v(y.exp_ab))));
        lemma_r3_affine(r3v(x.del), r3v(x.exp_a), r3v(x.exp_ab), k1);
        lemma_r3_affine(r3v(y.del), r3v(y.exp_a), r3v(y.exp_ab), k2);
        assert forall|s: Service| x.a_by_srv@.contains_key(s) implies r3v(#[trigger] y.a_by_srv@[s]) == r3v(x.a_by_srv@[s]) by {
            assert(a.used.epus_by_srv_an@.contains_key(s) && b.used.epus_by_srv_an@.contains_key(s));
            assert(mvalf(b.used.epus_by_srv_an@, s) == 1real * mvalf(a.used.epus_by_srv_an@, s));
            lemma_share_scale(1real, rv(a.used.epus_by_srv_an@[s]), rv(a.used.epus_an));
            assert(1real * rv(a.used.epus_by_srv_an@[s]) == rv(a.used.epus_by_srv_an@[s]) && 1real * rv(a.used.epus_an) == rv(a.used.epus_an)) by(nonlinear_arith);
        }
    }
}

// ------------------------------------------------------------------------------------------------ whole building
pub proof fn lemma_csum_lin(dom: Set<Carrier>, ga: spec_fn(Carrier) -> real, gab: spec_fn(Carrier) -> real, gb: spec_fn(Carrier) -> real, k: real, l: Seq<Carrier>)
    requires forall|c: Carrier| dom.contains(c) ==> #[trigger] gb(c) == ga(c) - k * gab(c),
    ensures csum(dom, gb, l) == csum(dom, ga, l) - k * csum(dom, gab, l),
    decreases l.len(),
{
    lemma_mul0(k);
    if l.len() > 0 {
        lemma_csum_lin(dom, ga, gab, gb, k, l.drop_last());
        let x = if dom.contains(l.last()) { gab(l.last()) } else { 0real };
        lemma_dist2(k, csum(dom, gab, l.drop_last()), x);
        if dom.contains(l.last()) { assert(gb(l.last()) == ga(l.last()) - k * gab(l.last())); }
    }
}
pub proof fn lemma_csum_eq(dom: Set<Carrier>, g: spec_fn(Carrier) -> real, g2: spec_fn(Carrier) -> real, l: Seq<Carrier>)
    requires forall|c: Carrier| dom.contains(c) ==> #[trigger] g2(c) == g(c),
    ensures csum(dom, g2, l) == csum(dom, g, l),
    decreases l.len(),
{
    if l.len() > 0 { lemma_csum_eq(dom, g, g2, l.drop_last()); if dom.contains(l.last()) { assert(g2(l.last()) == g(l.last())); } }
}
/// the k-free quantity: the sum over the carriers of the step AB weighted exported energy
pub open spec fn x_ab(bcr: Map<Carrier, BalanceCarrier>) -> R3 {
    R3 { ren: csum(bcr.dom(), gsel(bcr, |r: BalanceCarrier| rv(r.we.exp_ab.ren)), carriers12()),
         nren: csum(bcr.dom(), gsel(bcr, |r: BalanceCarrier| rv(r.we.exp_ab.nren)), carriers12()),
         co2: csum(bcr.dom(), gsel(bcr, |r: BalanceCarrier| rv(r.we.exp_ab.co2)), carriers12()) }
}
pub open spec fn carriers_affine(bcr: Map<Carrier, BalanceCarrier>, k: real) -> bool {
    forall|c: Carrier| bcr.contains_key(c) ==> r3v((#[trigger] bcr[c]).we.b) == r3d(r3v(bcr[c].we.a), r3s(k, r3v(bcr[c].we.exp_ab)))
}
/// C03 for the building total: step B = step A - k_exp x (a quantity that does not involve k_exp)
pub proof fn thm_c03_total(bcr: Map<Carrier, BalanceCarrier>, comps: Components, b: Balance, k: real)
    requires ep_totals_ok(bcr, comps, b), carriers_affine(bcr, k),
    ensures r3v(b.we.b) == r3d(r3v(b.we.a), r3s(k, x_ab(bcr))),
{
    let (ord, hist) = choose|ord: Seq<Carrier>, hist: Seq<Balance>| #[trigger] bal_chain(bcr, ord, hist) && bal_initial(hist[0], comps) && hist.last() == b;
    lemma_chain_scalars(bcr, ord, hist);
    let dom = bcr.dom();
    lemma_field_sum(bcr, ord, hist, |x: Balance| rv(x.we.a.ren), |r: BalanceCarrier| rv(r.we.a.ren));
    lemma_field_sum(bcr, ord, hist, |x: Balance| rv(x.we.a.nren), |r: BalanceCarrier| rv(r.we.a.nren));
    lemma_field_sum(bcr, ord, hist, |x: Balance| rv(x.we.a.co2), |r: BalanceCarrier| rv(r.we.a.co2));
    lemma_field_sum(bcr, ord, hist, |x: Balance| rv(x.we.b.ren), |r: BalanceCarrier| rv(r.we.b.ren));
    lemma_field_sum(bcr, ord, hist, |x: Balance| rv(x.we.b.nren), |r: BalanceCarrier| rv(r.we.b.nren));
    lemma_field_sum(bcr, ord, hist, |x: Balance| rv(x.we.b.co2), |r: BalanceCarrier| rv(r.we.b.co2));
    let fa1 = |r: BalanceCarrier| rv(r.we.a.ren); let fa2 = |r: BalanceCarrier| rv(r.we.a.nren); let fa3 = |r: BalanceCarrier| rv(r.we.a.co2);
    let fb1 = |r: BalanceCarrier| rv(r.we.b.ren); let fb2 = |r: BalanceCarrier| rv(r.we.b.nren); let fb3 = |r: BalanceCarrier| rv(r.we.b.co2);
    let fx1 = |r: BalanceCarrier| rv(r.we.exp_ab.ren); let fx2 = |r: BalanceCarrier| rv(r.we.exp_ab.nren); let fx3 = |r: BalanceCarrier| rv(r.we.exp_ab.co2);
    assert forall|c: Carrier| dom.contains(c) implies #[trigger] gsel(bcr, fb1)(c) == gsel(bcr, fa1)(c) - k * gsel(bcr, fx1)(c)
        && gsel(bcr, fb2)(c) == gsel(bcr, fa2)(c) - k * gsel(bcr, fx2)(c) && gsel(bcr, fb3)(c) == gsel(bcr, fa3)(c) - k * gsel(bcr, fx3)(c) by {
        assert(r3v(bcr[c].we.b) == r3d(r3v(bcr[c].we.a), r3s(k, r3v(bcr[c].we.exp_ab))));
    }
    lemma_csum_lin(dom, gsel(bcr, fa1), gsel(bcr, fx1), gsel(bcr, fb1), k, carriers12());
    lemma_csum_lin(dom, gsel(bcr, fa2), gsel(bcr, fx2), gsel(bcr, fb2), k, carriers12());
    lemma_csum_lin(dom, gsel(bcr, fa3), gsel(bcr, fx3), gsel(bcr, fb3), k, carriers12());
}

// ------------------------------------------------------------------------------------------------ two evaluations with k_exp = k1 and k_exp = k2
pub open spec fn c03_rel(x: EnergyPerformance, y: EnergyPerformance, k1: real, k2: real) -> bool {
    let idx = idx_ident(nsteps(x.components.data@) as int);
    &&& y.balance_cr@.dom() =~= x.balance_cr@.dom()
    // final-energy flows (per step and annual) and everything of the step A result do not depend on k_exp; step B is affine in it
    &&& (forall|c: Carrier| x.balance_cr@.contains_key(c) ==> steps_rel(run_of(#[trigger] x.balance_cr@[c]), run_of(y.balance_cr@[c]), idx, 1real)
            && annual_rel(run_of(x.balance_cr@[c]), run_of(y.balance_cr@[c]), 1real) && we_k_rel(x.balance_cr@[c].we, y.balance_cr@[c].we, k1, k2))
    &&& bal_rel_scalars(x.balance, y.balance, 1real)
    &&& r3v(y.balance.we.a) == r3v(x.balance.we.a)
    &&& r3v(x.balance.we.b) == r3d(r3v(x.balance.we.a), r3s(k1, x_ab(x.balance_cr@)))
    &&& r3v(y.balance.we.b) == r3d(r3v(x.balance.we.a), r3s(k2, x_ab(x.balance_cr@)))
}
#[verifier::spinoff_prover]
pub proof fn lemma_c03_carriers(comps: Components, w: Seq<Factor>, k1: f32, k2: f32, lm: bool, x: EnergyPerformance, y: EnergyPerformance)
    requires comps_wf(comps.data@), vals_dom(comps.data@),
             ep_carriers_ok(comps, k1, lm, x), ep_carriers_ok(comps, k2, lm, y),
             cgn_added(w, x.wfactors.wdata@, comps.data@), cgn_added(w, y.wfactors.wdata@, comps.data@),
    ensures y.balance_cr@.dom() =~= x.balance_cr@.dom(),
            forall|c: Carrier| x.balance_cr@.contains_key(c) ==> steps_rel(run_of(#[trigger] x.balance_cr@[c]), run_of(y.balance_cr@[c]), idx_ident(nsteps(comps.data@) as int), 1real)
                && annual_rel(run_of(x.balance_cr@[c]), run_of(y.balance_cr@[c]), 1real) && we_k_rel(x.balance_cr@[c].we, y.balance_cr@[c].we, rv(k1), rv(k2)),
{
    let cs = comps.data@;
    let n = nsteps(cs) as int;
    let idx = idx_ident(n);
    lemma_lay_same(n, 1real); lemma_lay_same_r(n, 1real);
    assert(tags_same(cs, cs));
    assert forall|i2: int| 0 <= i2 < idx.len() implies 0 <= #[trigger] idx[i2] < nsteps(cs) && val_rel(cs, cs, idx[i2], i2, 1real) by {
        assert(idx[i2] == i2);
        assert forall|j: int| 0 <= j < cs.len() implies rv(#[trigger] e_vals(cs[j])[i2]) == 1real * rv(e_vals(cs[j])[i2]) by {
            assert(1real * rv(e_vals(cs[j])[i2]) == rv(e_vals(cs[j])[i2])) by(nonlinear_arith);
        }
    }
    lemma_inputs_vals(cs, cs, idx, 1real);
    let bcr = x.balance_cr@; let bcr2 = y.balance_cr@;
    assert(bcr2.dom() =~= bcr.dom());
    assert forall|s: Sel| #[trigger] acc_an(cs, s, n) == 1real * acc_an(cs, s, n) by { assert(1real * acc_an(cs, s, n) == acc_an(cs, s, n)) by(nonlinear_arith); }
    assert forall|c: Carrier| bcr.contains_key(c) implies steps_rel(run_of(#[trigger] bcr[c]), run_of(bcr2[c]), idx, 1real)
            && annual_rel(run_of(bcr[c]), run_of(bcr2[c]), 1real) && we_k_rel(bcr[c].we, bcr2[c].we, rv(k1), rv(k2)) by {
        reveal(bfc_post);
        assert(bcr2.contains_key(c));
        let bx = bcr[c]; let by = bcr2[c];
        let fa = filter_carrier(cs, c);
        let a = Run { cs: fa, used: bx.used, prod: bx.prod, fm: bx.f_match@, exp: bx.exp, del: bx.del };
        let b = Run { cs: fa, used: by.used, prod: by.prod, fm: by.f_match@, exp: by.exp, del: by.del };
        assert(carrier_rel(cs, cs, c, idx, 1real));
        lemma_filter_carrier(cs, c, nsteps(cs));
        lemma_vals_dom_filter(cs, c);
        assert(e_has_carrier(fa[0], c));
        assert(run_n(a) == n && run_n(b) == n) by { assert(e_vals(fa[0]).len() == n); }
        assert forall|i2: int| 0 <= i2 < idx.len() implies 0 <= #[trigger] idx[i2] < run_n(a) && acc_rel(a.cs, b.cs, idx[i2], i2, 1real)
                && in_dom(rv(a.prod.t@[idx[i2]])) && in_dom(rv(b.prod.t@[i2])) by {
            assert(acc_rel(fa, fa, idx[i2], i2, 1real));
            lemma_prod_in_dom(a, lm, idx[i2]);
            lemma_prod_in_dom(b, lm, i2);
        }
        assert(carrier_hyp(a, b, lm, idx, 1real));
        lemma_step_doms(a, b, lm);
        assert forall|i2: int| 0 <= i2 < idx.len() implies 0 <= #[trigger] idx[i2] < run_n(a) && step_rel_r(a, b, idx[i2], i2, 1real) by { thm_step(a, b, lm, idx[i2], i2, 1real); }
        thm_annual(a, b, lm, idx, 1real, 1real);
        lemma_we_inputs(a, b, 1real);
        lemma_cgn_added_same(w, x.wfactors.wdata@, y.wfactors.wdata@, cs, cs, 1real, c);
        lemma_fp_same_lookups(x.wfactors.wdata@, y.wfactors.wdata@, c, a.exp, a.del);
        thm_weights_k(x.wfactors.wdata@, y.wfactors.wdata@, c, rv(k1), rv(k2), a, b, Ok(bx.we), Ok(by.we));
        assert(steps_rel(run_of(bx), run_of(by), idx, 1real)) by {
            assert forall|i2: int| 0 <= i2 < idx.len() implies 0 <= #[trigger] idx[i2] < run_n(run_of(bx)) && step_rel_r(run_of(bx), run_of(by), idx[i2], i2, 1real) by {
                assert(step_rel_r(a, b, idx[i2], i2, 1real));
            }
        }
        assert(annual_rel(run_of(bx), run_of(by), 1real)) by { assert(annual_rel(a, b, 1real)); }
    }
}
/// C03 AT THE PUBLIC ENTRY POINT: the same building evaluated with k_exp = k1 and with k_exp = k2: all final-energy flows and the whole
/// step A result are the same; there is one quantity X, free of k_exp, with B(k1) = A - k1 X and B(k2) = A - k2 X (per carrier and for the
/// building) - so B(0) = A, B is affine in k_exp, and a building whose X is zero (nothing exported) reports the same result for every k_exp
pub proof fn thm_c03_ep(comps: Components, w: Seq<Factor>, k1: f32, k2: f32, area: f32, lm: bool, r: Result<EnergyPerformance>, r2: Result<EnergyPerformance>)
    requires comps_wf(comps.data@), vals_dom(comps.data@),
             ep_post(comps, w, k1, area, lm, r), ep_post(comps, w, k2, area, lm, r2), r is Ok, r2 is Ok,
    ensures c03_rel(r->Ok_0, r2->Ok_0, rv(k1), rv(k2)),
{
    let x = r->Ok_0; let y = r2->Ok_0;
    let bcr = x.balance_cr@; let bcr2 = y.balance_cr@;
    lemma_c03_carriers(comps, w, k1, k2, lm, x, y);
    assert(x.components == comps);
    // the building: both accumulations start from zero
    assert(carriers_affine(bcr, rv(k1))) by { assert forall|c: Carrier| bcr.contains_key(c) implies r3v((#[trigger] bcr[c]).we.b) == r3d(r3v(bcr[c].we.a), r3s(rv(k1), r3v(bcr[c].we.exp_ab))) by { assert(we_k_rel(bcr[c].we, bcr2[c].we, rv(k1), rv(k2))); } }
    assert(carriers_affine(bcr2, rv(k2))) by { assert forall|c: Carrier| bcr2.contains_key(c) implies r3v((#[trigger] bcr2[c]).we.b) == r3d(r3v(bcr2[c].we.a), r3s(rv(k2), r3v(bcr2[c].we.exp_ab))) by { assert(bcr.contains_key(c)); assert(we_k_rel(bcr[c].we, bcr2[c].we, rv(k1), rv(k2))); } }
    thm_c03_total(bcr, comps, x.balance, rv(k1));
    thm_c03_total(bcr2, comps, y.balance, rv(k2));
    lemma_c03_same_a_x(bcr, bcr2, comps, x.balance, y.balance, rv(k1), rv(k2));
    assert(bcr_flows_rel(bcr, bcr2, 1real));
    let (ord, hist) = choose|ord: Seq<Carrier>, hist: Seq<Balance>| #[trigger] bal_chain(bcr, ord, hist) && bal_initial(hist[0], comps) && hist.last() == x.balance;
    let (ord2, hist2) = choose|ord2: Seq<Carrier>, hist2: Seq<Balance>| #[trigger] bal_chain(bcr2, ord2, hist2) && bal_initial(hist2[0], comps) && hist2.last() == y.balance;
    thm_building_scalars(bcr, bcr2, ord, hist, ord2, hist2, 1real);
}
pub proof fn lemma_c03_same_a_x(bcr: Map<Carrier, BalanceCarrier>, bcr2: Map<Carrier, BalanceCarrier>, comps: Components, bx: Balance, by: Balance, k1: real, k2: real)
    requires bcr2.dom() =~= bcr.dom(), forall|c: Carrier| bcr.contains_key(c) ==> we_k_rel((#[trigger] bcr[c]).we, bcr2[c].we, k1, k2),
             ep_totals_ok(bcr, comps, bx), ep_totals_ok(bcr2, comps, by),
    ensures r3v(by.we.a) == r3v(bx.we.a), x_ab(bcr2) == x_ab(bcr),
{
    let (ord, hist) = choose|ord: Seq<Carrier>, hist: Seq<Balance>| #[trigger] bal_chain(bcr, ord, hist) && bal_initial(hist[0], comps) && hist.last() == bx;
    let (ord2, hist2) = choose|ord2: Seq<Carrier>, hist2: Seq<Balance>| #[trigger] bal_chain(bcr2, ord2, hist2) && bal_initial(hist2[0], comps) && hist2.last() == by;
    lemma_chain_scalars(bcr, ord, hist); lemma_chain_scalars(bcr2, ord2, hist2);
    let fa1 = |r: BalanceCarrier| rv(r.we.a.ren); let fa2 = |r: BalanceCarrier| rv(r.we.a.nren); let fa3 = |r: BalanceCarrier| rv(r.we.a.co2);
    let fx1 = |r: BalanceCarrier| rv(r.we.exp_ab.ren); let fx2 = |r: BalanceCarrier| rv(r.we.exp_ab.nren); let fx3 = |r: BalanceCarrier| rv(r.we.exp_ab.co2);
    lemma_field_sum(bcr, ord, hist, |q: Balance| rv(q.we.a.ren), fa1); lemma_field_sum(bcr2, ord2, hist2, |q: Balance| rv(q.we.a.ren), fa1);
    lemma_field_sum(bcr, ord, hist, |q: Balance| rv(q.we.a.nren), fa2); lemma_field_sum(bcr2, ord2, hist2, |q: Balance| rv(q.we.a.nren), fa2);
    lemma_field_sum(bcr, ord, hist, |q: Balance| rv(q.we.a.co2), fa3); lemma_field_sum(bcr2, ord2, hist2, |q: Balance| rv(q.we.a.co2), fa3);
    let dom = bcr.dom();
    assert forall|c: Carrier| dom.contains(c) implies #[trigger] gsel(bcr2, fa1)(c) == gsel(bcr, fa1)(c) && gsel(bcr2, fa2)(c) == gsel(bcr, fa2)(c) && gsel(bcr2, fa3)(c) == gsel(bcr, fa3)(c)
        && gsel(bcr2, fx1)(c) == gsel(bcr, fx1)(c) && gsel(bcr2, fx2)(c) == gsel(bcr, fx2)(c) && gsel(bcr2, fx3)(c) == gsel(bcr, fx3)(c) by {
        assert(we_k_rel(bcr[c].we, bcr2[c].we, k1, k2));
    }
    lemma_csum_eq(dom, gsel(bcr, fa1), gsel(bcr2, fa1), carriers12()); lemma_csum_eq(dom, gsel(bcr, fa2), gsel(bcr2, fa2), carriers12()); lemma_csum_eq(dom, gsel(bcr, fa3), gsel(bcr2, fa3), carriers12());
    lemma_csum_eq(dom, gsel(bcr, fx1), gsel(bcr2, fx1), carriers12()); lemma_csum_eq(dom, gsel(bcr, fx2), gsel(bcr2, fx2), carriers12()); lemma_csum_eq(dom, gsel(bcr, fx3), gsel(bcr2, fx3), carriers12());
}
