// ---- C03 at the public entry point: two evaluations of the same building that differ only in k_exp
pub proof fn lemma_r3_affine(del: R3, ea: R3, eab: R3, k: real)
    ensures r3d(del, r3a(ea, r3s(k, eab))) == r3d(r3d(del, ea), r3s(k, eab)),
{}
/// what does not depend on k_exp is the same in both results; the step B figures are step A minus k times the same k-free quantity
pub open spec fn we_k_rel(x: WeightedEnergy, y: WeightedEnergy, k1: real, k2: real) -> bool {
    &&& r3v(y.del_grid) == r3v(x.del_grid) && r3v(y.del_onst) == r3v(x.del_onst) && r3v(y.del_cgn) == r3v(x.del_cgn) && r3v(y.del) == r3v(x.del)
    &&& r3v(y.exp_nepus_a) == r3v(x.exp_nepus_a) && r3v(y.exp_grid_a) == r3v(x.exp_grid_a) && r3v(y.exp_a) == r3v(x.exp_a)
    &&& r3v(y.exp_nepus_ab) == r3v(x.exp_nepus_ab) && r3v(y.exp_grid_ab) == r3v(x.exp_grid_ab) && r3v(y.exp_ab) == r3v(x.exp_ab)
    &&& r3v(y.a) == r3v(x.a)
    &&& r3v(x.exp) == r3a(r3v(x.exp_a), r3s(k1, r3v(x.exp_ab))) && r3v(y.exp) == r3a(r3v(x.exp_a), r3s(k2, r3v(x.exp_ab)))
    &&& r3v(x.b) == r3d(r3v(x.a), r3s(k1, r3v(x.exp_ab))) && r3v(y.b) == r3d(r3v(x.a), r3s(k2, r3v(x.exp_ab)))
    &&& y.a_by_srv@.dom() =~= x.a_by_srv@.dom() && (forall|s: Service| x.a_by_srv@.contains_key(s) ==> r3v(#[trigger] y.a_by_srv@[s]) == r3v(x.a_by_srv@[s]))
}
/// the weighting step with two values of k_exp on (real-)equal annual flows
pub proof fn thm_weights_k(w: Seq<Factor>, w2: Seq<Factor>, c: Carrier, k1: real, k2: real, a: Run, b: Run, r: Result<WeightedEnergy>, r2: Result<WeightedEnergy>)
    requires we_inputs_rel(a, b, 1real), we_lookups_same(w, w2, c, a.exp, a.del),
             cwe_post(w, c, k1, a.used, a.exp, a.del, r), cwe_post(w2, c, k2, b.used, b.exp, b.del, r2),
    ensures (r is Ok) == (r2 is Ok), r is Ok ==> we_k_rel(r->Ok_0, r2->Ok_0, k1, k2),
{
    lemma_we_ok_same(w, w2, c, a, b, 1real);
    lemma_we_exp_parts(w, w2, c, a, b, 1real);
    lemma_we_del_parts(w, w2, c, a, b, 1real);
    if r is Ok {
        let x = r->Ok_0; let y = r2->Ok_0;
        lemma_r3s_one(we_exp_nepus_a(w, c, a.exp)); lemma_r3s_one(we_exp_grid_a(w, c, a.exp)); lemma_r3s_one(we_exp_a(w, c, a.exp));
        lemma_r3s_one(we_exp_nepus_ab(w, c, a.exp)); lemma_r3s_one(we_exp_grid_ab(w, c, a.exp)); lemma_r3s_one(we_exp_ab(w, c, a.exp));
        lemma_r3s_one(we_del_grid(w, c, a.del)); lemma_r3s_one(we_del_onst(w, c, a.del)); lemma_r3s_one(we_del_cgn(w, c, a.del)); lemma_r3s_one(we_del(w, c, a.del));
        lemma_mul0(k1); lemma_mul0(k2);
        // exp(k) = exp_a + k exp_ab also when nothing is exported (then both parts are zero)
        assert(r3v(x.exp) == r3a(r3v(x.exp_a), r3s(k1, r3v(x.exp_ab))));
        assert(r3v(y.exp) == r3a(r3v(y.exp_a), r3s(k2, r3v(y.exp_ab))));
        lemma_r3_affine(r3v(x.del), r3v(x.exp_a), r3v(x.exp_ab), k1);
        lemma_r3_affine(r3v(y.del), r3v(y.exp_a), r3v(y.exp_ab), k2);
        assert forall|s: Service| x.a_by_srv@.contains_key(s) implies r3v(#[trigger] y.a_by_srv@[s]) == r3v(x.a_by_srv@[s]) by {
            assert(a.used.epus_by_srv_an@.contains_key(s) && b.used.epus_by_srv_an@.contains_key(s));
            assert(mvalf(b.used.epus_by_srv_an@, s) == 1real * mvalf(a.used.epus_by_srv_an@, s));
            lemma_share_scale(1real, rv(a.used.epus_by_srv_an@[s]), rv(a.used.epus_an));
            assert(1real * rv(a.used.epus_by_srv_an@[s]) == rv(a.used.epus_by_srv_an@[s]) && 1real * rv(a.used.epus_an) == rv(a.used.epus_an)) by(nonlinear_arith);
        }
    }
}

// ------------------------------------------------------------------------------------------------ whole building
pub proof fn lemma_csum_lin(dom: Set<Carrier>, ga: spec_fn(Carrier) -> real, gab: spec_fn(Carrier) -> real, gb: spec_fn(Carrier) -> real, k: real, l: Seq<Carrier>)
    requires forall|c: Carrier| dom.contains(c) ==> #[trigger] gb(c) == ga(c) - k * gab(c),
    ensures csum(dom, gb, l) == csum(dom, ga, l) - k * csum(dom, gab, l),
    decreases l.len(),
{
    lemma_mul0(k);
    if l.len() > 0 {
        lemma_csum_lin(dom, ga, gab, gb, k, l.drop_last());
        let x = if dom.contains(l.last()) { gab(l.last()) } else { 0real };
        lemma_dist2(k, csum(dom, gab, l.drop_last()), x);
        if dom.contains(l.last()) { assert(gb(l.last()) == ga(l.last()) - k * gab(l.last())); }
    }
}
pub proof fn lemma_csum_eq(dom: Set<Carrier>, g: spec_fn(Carrier) -> real, g2: spec_fn(Carrier) -> real, l: Seq<Carrier>)
    requires forall|c: Carrier| dom.contains(c) ==> #[trigger] g2(c) == g(c),
    ensures csum(dom, g2, l) == csum(dom, g, l),
    decreases l.len(),
{
    if l.len() > 0 { lemma_csum_eq(dom, g, g2, l.drop_last()); if dom.contains(l.last()) { assert(g2(l.last()) == g(l.last())); } }
}
/// the k-free quantity: the sum over the carriers of the step AB weighted exported energy
pub open spec fn x_ab(bcr: Map<Carrier, BalanceCarrier>) -> R3 {
    R3 { ren: csum(bcr.dom(), gsel(bcr, |r: BalanceCarrier| rv(r.we.exp_ab.ren)), carriers12()),
         nren: csum(bcr.dom(), gsel(bcr, |r: BalanceCarrier| rv(r.we.exp_ab.nren)), carriers12()),
         co2: csum(bcr.dom(), gsel(bcr, |r: BalanceCarrier| rv(r.we.exp_ab.co2)), carriers12()) }
}
pub open spec fn carriers_affine(bcr: Map<Carrier, BalanceCarrier>, k: real) -> bool {
    forall|c: Carrier| bcr.contains_key(c) ==> r3v((#[trigger] bcr[c]).we.b) == r3d(r3v(bcr[c].we.a), r3s(k, r3v(bcr[c].we.exp_ab)))
}
/// C03 for the building total: step B = step A - k_exp x (a quantity that does not involve k_exp)
pub proof fn thm_c03_total(bcr: Map<Carrier, BalanceCarrier>, comps: Components, b: Balance, k: real)
    requires ep_totals_ok(bcr, comps, b), carriers_affine(bcr, k),
    ensures r3v(b.we.b) == r3d(r3v(b.we.a), r3s(k, x_ab(bcr))),
{
    let (ord, hist) = choose|ord: Seq<Carrier>, hist: Seq<Balance>| #[trigger] bal_chain(bcr, ord, hist) && bal_initial(hist[0], comps) && hist.last() == b;
    lemma_chain_scalars(bcr, ord, hist);
    let dom = bcr.dom();
    lemma_field_sum(bcr, ord, hist, |x: Balance| rv(x.we.a.ren), |r: BalanceCarrier| rv(r.we.a.ren));
    lemma_field_sum(bcr, ord, hist, |x: Balance| rv(x.we.a.nren), |r: BalanceCarrier| rv(r.we.a.nren));
    lemma_field_sum(bcr, ord, hist, |x: Balance| rv(x.we.a.co2), |r: BalanceCarrier| rv(r.we.a.co2));
    lemma_field_sum(bcr, ord, hist, |x: Balance| rv(x.we.b.ren), |r: BalanceCarrier| rv(r.we.b.ren));
    lemma_field_sum(bcr, ord, hist, |x: Balance| rv(x.we.b.nren), |r: BalanceCarrier| rv(r.we.b.nren));
    lemma_field_sum(bcr, ord, hist, |x: Balance| rv(x.we.b.co2), |r: BalanceCarrier| rv(r.we.b.co2));
    let fa1 = |r: BalanceCarrier| rv(r.we.a.ren); let fa2 = |r: BalanceCarrier| rv(r.we.a.nren); let fa3 = |r: BalanceCarrier| rv(r.we.a.co2);
    let fb1 = |r: BalanceCarrier| rv(r.we.b.ren); let fb2 = |r: BalanceCarrier| rv(r.we.b.nren); let fb3 = |r: BalanceCarrier| rv(r.we.b.co2);
    let fx1 = |r: BalanceCarrier| rv(r.we.exp_ab.ren); let fx2 = |r: BalanceCarrier| rv(r.we.exp_ab.nren); let fx3 = |r: BalanceCarrier| rv(r.we.exp_ab.co2);
    assert forall|c: Carrier| dom.contains(c) implies #[trigger] gsel(bcr, fb1)(c) == gsel(bcr, fa1)(c) - k * gsel(bcr, fx1)(c)
        && gsel(bcr, fb2)(c) == gsel(bcr, fa2)(c) - k * gsel(bcr, fx2)(c) && gsel(bcr, fb3)(c) == gsel(bcr, fa3)(c) - k * gsel(bcr, fx3)(c) by {
        assert(r3v(bcr[c].we.b) == r3d(r3v(bcr[c].we.a), r3s(k, r3v(bcr[c].we.exp_ab))));
    }
    lemma_csum_lin(dom, gsel(bcr, fa1), gsel(bcr, fx1), gsel(bcr, fb1), k, carriers12());
    lemma_csum_lin(dom, gsel(bcr, fa2), gsel(bcr, fx2), gsel(bcr, fb2), k, carriers12());
    lemma_csum_lin(dom, gsel(bcr, fa3), gsel(bcr, fx3), gsel(bcr, fb3), k, carriers12());
}
