// ---- the relational theorems at the level of the public entry point energy_performance (over its proved contract, ep_post)
pub proof fn lemma_vals_dom_filter(cs: Seq<Energy>, c: Carrier)
    requires vals_dom(cs),
    ensures vals_dom(filter_carrier(cs, c)),
    decreases cs.len(),
{
    if cs.len() > 0 {
        let c0 = cs.drop_last();
        assert forall|j: int, ii: int| 0 <= j < c0.len() && 0 <= ii < e_vals(c0[j]).len() implies rv(#[trigger] e_vals(c0[j])[ii]) == 0real || rv(e_vals(c0[j])[ii]) >= 1real / 100real by { assert(c0[j] == cs[j]); }
        lemma_vals_dom_filter(c0, c);
        let f0 = filter_carrier(c0, c);
        if e_has_carrier(cs.last(), c) {
            let f = f0.push(cs.last());
            assert forall|j: int, ii: int| 0 <= j < f.len() && 0 <= ii < e_vals(f[j]).len() implies rv(#[trigger] e_vals(f[j])[ii]) == 0real || rv(e_vals(f[j])[ii]) >= 1real / 100real by {
                if j < f0.len() { assert(f[j] == f0[j]); } else { assert(f[j] == cs[cs.len() - 1]); }
            }
        }
    }
}
pub proof fn lemma_rer_scale(ct: real, b: R3)
    requires ct > 0real,
    ensures rer_spec(r3s(ct, b)) == rer_spec(b),
{
    let t = b.ren + b.nren;
    lemma_dist2(ct, b.ren, b.nren);
    lemma_pos_mul(ct, t);
    if t != 0real { assert((ct * b.ren) / (ct * t) == b.ren / t) by(nonlinear_arith) requires ct > 0real, t != 0real; }
}
pub proof fn lemma_perim_scale(bcr: Map<Carrier, BalanceCarrier>, bcr2: Map<Carrier, BalanceCarrier>, p: Perim, l: Seq<Carrier>, ct: real)
    requires bcr2.dom() =~= bcr.dom(), forall|c: Carrier| bcr.contains_key(c) ==> rv((#[trigger] bcr2[c]).we.b.ren) == ct * rv(bcr[c].we.b.ren),
    ensures perim_sum(bcr2, p, l) == ct * perim_sum(bcr, p, l),
    decreases l.len(),
{
    lemma_mul0(ct);
    if l.len() > 0 {
        lemma_perim_scale(bcr, bcr2, p, l.drop_last(), ct);
        let c = l.last();
        assert(bcr2.contains_key(c) == bcr.contains_key(c));
        if bcr.contains_key(c) { assert(rv(bcr2[c].we.b.ren) == ct * rv(bcr[c].we.b.ren)); }
        lemma_dist2(ct, perim_sum(bcr, p, l.drop_last()), perim_term(bcr, p, c));
    }
}
/// component by component: same tags, values related through the layout (idx, k)  (the hypothesis of C09 / C11)
pub open spec fn inputs_vals(cs: Seq<Energy>, cs2: Seq<Energy>, idx: Seq<int>, k: real) -> bool {
    &&& tags_same(cs, cs2) && comps_wf(cs) && comps_wf(cs2) && vals_dom(cs) && vals_dom(cs2)
    &&& nsteps(cs2) == idx.len() && (nsteps(cs2) > 0) == (nsteps(cs) > 0)
    &&& (forall|i2: int| 0 <= i2 < idx.len() ==> 0 <= #[trigger] idx[i2] < nsteps(cs) && val_rel(cs, cs2, idx[i2], i2, k))
}
/// the components of carrier c in the two lists have the same classes and classified sums related through the layout
pub open spec fn carrier_rel(cs: Seq<Energy>, cs2: Seq<Energy>, c: Carrier, idx: Seq<int>, k: real) -> bool {
    sel_same(filter_carrier(cs, c), filter_carrier(cs2, c))
        && forall|i2: int| 0 <= i2 < idx.len() ==> #[trigger] acc_rel(filter_carrier(cs, c), filter_carrier(cs2, c), idx[i2], i2, k)
}
/// THE GENERAL HYPOTHESIS: the two component lists need not correspond component by component - it is enough that, as a whole and carrier
/// by carrier, they have the same classes of components and classified sums related through the layout (idx, k).  Reordered lines, a
/// component split into lines that add up, merged lines, other system ids all satisfy it with k = 1 and the identity layout.
pub open spec fn inputs_rel(cs: Seq<Energy>, cs2: Seq<Energy>, idx: Seq<int>, k: real) -> bool {
    &&& comps_wf(cs) && comps_wf(cs2) && vals_dom(cs) && vals_dom(cs2)
    &&& nsteps(cs2) == idx.len() && (nsteps(cs2) > 0) == (nsteps(cs) > 0)
    &&& (forall|i2: int| 0 <= i2 < idx.len() ==> 0 <= #[trigger] idx[i2] < nsteps(cs))
    &&& sel_same(cs, cs2) && (forall|i2: int| 0 <= i2 < idx.len() ==> #[trigger] acc_rel(cs, cs2, idx[i2], i2, k))
    &&& (forall|c: Carrier| #[trigger] in_avail(cs2, c) == in_avail(cs, c))
    &&& (forall|c: Carrier| in_avail(cs, c) ==> #[trigger] carrier_rel(cs, cs2, c, idx, k))
}
pub proof fn lemma_inputs_vals(cs: Seq<Energy>, cs2: Seq<Energy>, idx: Seq<int>, k: real)
    requires inputs_vals(cs, cs2, idx, k),
    ensures inputs_rel(cs, cs2, idx, k),
{
    lemma_sel_same(cs, cs2);
    assert forall|i2: int| 0 <= i2 < idx.len() implies #[trigger] acc_rel(cs, cs2, idx[i2], i2, k) by {
        assert(0 <= idx[i2] < nsteps(cs) && val_rel(cs, cs2, idx[i2], i2, k));
        lemma_acc_rel(cs, cs2, idx[i2], i2, k);
    }
    assert forall|c: Carrier| #[trigger] in_avail(cs2, c) == in_avail(cs, c) by { lemma_avail_tags(cs, cs2, c); }
    assert forall|c: Carrier| in_avail(cs, c) implies #[trigger] carrier_rel(cs, cs2, c, idx, k) by {
        lemma_filter_rel(cs, cs2, c);
        lemma_sel_same(filter_carrier(cs, c), filter_carrier(cs2, c));
        assert forall|i2: int| 0 <= i2 < idx.len() implies #[trigger] acc_rel(filter_carrier(cs, c), filter_carrier(cs2, c), idx[i2], i2, k) by {
            assert(0 <= idx[i2] < nsteps(cs) && val_rel(cs, cs2, idx[i2], i2, k));
            lemma_filter_val(cs, cs2, c, idx[i2], i2, k);
            lemma_acc_rel(filter_carrier(cs, c), filter_carrier(cs2, c), idx[i2], i2, k);
        }
    }
}
/// what the theorem concludes of two successful evaluations
pub open spec fn ep_rel(x: EnergyPerformance, y: EnergyPerformance, idx: Seq<int>, k: real, ct: real) -> bool {
    &&& y.balance_cr@.dom() =~= x.balance_cr@.dom()
    // per carrier: every per-step figure follows the layout, every annual and weighted figure is multiplied by ct
    &&& (forall|c: Carrier| x.balance_cr@.contains_key(c) ==> steps_rel(run_of(#[trigger] x.balance_cr@[c]), run_of(y.balance_cr@[c]), idx, k)
            && annual_rel(run_of(x.balance_cr@[c]), run_of(y.balance_cr@[c]), ct) && we_rel(x.balance_cr@[c].we, y.balance_cr@[c].we, ct))
    // whole building
    &&& bal_rel(x.balance, y.balance, ct)
    // the three renewable energy ratios are unchanged
    &&& rv(y.rer) == rv(x.rer) && rv(y.rer_onst) == rv(x.rer_onst) && rv(y.rer_nrb) == rv(x.rer_nrb)
}
pub proof fn lemma_ep_carrier(comps: Components, comps2: Components, k_exp: f32, lm: bool, x: EnergyPerformance, y: EnergyPerformance,
                              idx: Seq<int>, k: real, ct: real, c: Carrier)
    requires
        k > 0real, ct > 0real, inputs_rel(comps.data@, comps2.data@, idx, k),
        lay_sums(idx, nsteps(comps.data@) as int, k, ct),
        we_lookups_same(x.wfactors.wdata@, y.wfactors.wdata@, c, x.balance_cr@[c].exp, x.balance_cr@[c].del),
        in_avail(comps.data@, c), x.balance_cr@.contains_key(c), y.balance_cr@.contains_key(c),
        bfc_post(comps.data@, x.wfactors.wdata@, c, rv(k_exp), lm, x.balance_cr@[c]),
        bfc_post(comps2.data@, y.wfactors.wdata@, c, rv(k_exp), lm, y.balance_cr@[c]),
    ensures
        x.balance_cr@[c].carrier == c && y.balance_cr@[c].carrier == c,
        steps_rel(run_of(x.balance_cr@[c]), run_of(y.balance_cr@[c]), idx, k),
        annual_rel(run_of(x.balance_cr@[c]), run_of(y.balance_cr@[c]), ct), we_rel(x.balance_cr@[c].we, y.balance_cr@[c].we, ct),
        y.balance_cr@[c].used.epus_by_srv_an@.dom() =~= x.balance_cr@[c].used.epus_by_srv_an@.dom(),
        x.balance_cr@[c].we.a_by_srv@.dom() =~= x.balance_cr@[c].used.epus_by_srv_an@.dom(), x.balance_cr@[c].we.b_by_srv@.dom() =~= x.balance_cr@[c].used.epus_by_srv_an@.dom(),
{
    reveal(bfc_post);
    let cs = comps.data@; let cs2 = comps2.data@;
    let n = nsteps(cs); let n2 = nsteps(cs2);
    let bx = x.balance_cr@[c]; let by = y.balance_cr@[c];
    let fa = filter_carrier(cs, c); let fb = filter_carrier(cs2, c);
    let a = Run { cs: fa, used: bx.used, prod: bx.prod, fm: bx.f_match@, exp: bx.exp, del: bx.del };
    let b = Run { cs: fb, used: by.used, prod: by.prod, fm: by.f_match@, exp: by.exp, del: by.del };
    assert(in_avail(cs2, c) == in_avail(cs, c));
    assert(carrier_rel(cs, cs2, c, idx, k));
    lemma_filter_carrier(cs, c, n); lemma_filter_carrier(cs2, c, n2);
    lemma_vals_dom_filter(cs, c); lemma_vals_dom_filter(cs2, c);
    assert(e_has_carrier(fa[0], c) && e_has_carrier(fb[0], c));
    assert(run_n(a) == n && run_n(b) == n2) by { assert(e_vals(fa[0]).len() == n && e_vals(fb[0]).len() == n2); }
    assert forall|i2: int| 0 <= i2 < idx.len() implies 0 <= #[trigger] idx[i2] < run_n(a) && acc_rel(a.cs, b.cs, idx[i2], i2, k)
            && in_dom(rv(a.prod.t@[idx[i2]])) && in_dom(rv(b.prod.t@[i2])) by {
        assert(acc_rel(fa, fb, idx[i2], i2, k));
        lemma_prod_in_dom(a, lm, idx[i2]);
        lemma_prod_in_dom(b, lm, i2);
    }
    assert(carrier_hyp(a, b, lm, idx, k));
    thm_carrier(a, b, lm, idx, k, ct, x.wfactors.wdata@, y.wfactors.wdata@, c, rv(k_exp), Ok(bx.we), Ok(by.we));
    assert(steps_rel(run_of(bx), run_of(by), idx, k)) by {
        assert forall|i2: int| 0 <= i2 < idx.len() implies 0 <= #[trigger] idx[i2] < run_n(run_of(bx)) && step_rel_r(run_of(bx), run_of(by), idx[i2], i2, k) by {
            assert(step_rel_r(a, b, idx[i2], i2, k));
        }
    }
    assert(annual_rel(run_of(bx), run_of(by), ct)) by { assert(annual_rel(a, b, ct)); }
}

/// for every carrier with a balance the two factor sets read the same at the keys the weighting step of that carrier looks up
pub open spec fn all_lookups_same(x: EnergyPerformance, y: EnergyPerformance) -> bool {
    forall|c: Carrier| x.balance_cr@.contains_key(c) ==> we_lookups_same(x.wfactors.wdata@, y.wfactors.wdata@, c, (#[trigger] x.balance_cr@[c]).exp, x.balance_cr@[c].del)
}
pub proof fn lemma_ep_lookups_cgn(comps: Components, comps2: Components, w: Seq<Factor>, x: EnergyPerformance, y: EnergyPerformance, idx: Seq<int>, k: real, ct: real)
    requires
        k > 0real, ct > 0real, inputs_rel(comps.data@, comps2.data@, idx, k), lay_sums_r(idx, nsteps(comps.data@) as int, k, ct),
        cgn_added(w, x.wfactors.wdata@, comps.data@), cgn_added(w, y.wfactors.wdata@, comps2.data@),
    ensures all_lookups_same(x, y),
{
    let cs = comps.data@; let cs2 = comps2.data@;
    let n = nsteps(cs); let n2 = nsteps(cs2);
    assert forall|i2: int| 0 <= i2 < idx.len() implies 0 <= #[trigger] idx[i2] < n && acc_rel(cs, cs2, idx[i2], i2, k) by {
        assert(acc_rel(cs, cs2, idx[i2], i2, k));
    }
    assert forall|s: Sel| #[trigger] acc_an(cs2, s, n2 as int) == ct * acc_an(cs, s, n as int) by {
        lemma_acc_an_rel(cs, cs2, s, idx, n as int, k, ct);
    }
    assert forall|c: Carrier| x.balance_cr@.contains_key(c) implies we_lookups_same(x.wfactors.wdata@, y.wfactors.wdata@, c, (#[trigger] x.balance_cr@[c]).exp, x.balance_cr@[c].del) by {
        lemma_cgn_added_same(w, x.wfactors.wdata@, y.wfactors.wdata@, cs, cs2, ct, c);
        lemma_fp_same_lookups(x.wfactors.wdata@, y.wfactors.wdata@, c, x.balance_cr@[c].exp, x.balance_cr@[c].del);
    }
}
pub open spec fn bcr_steps(bcr: Map<Carrier, BalanceCarrier>, bcr2: Map<Carrier, BalanceCarrier>, idx: Seq<int>, k: real) -> bool {
    forall|c: Carrier| bcr.contains_key(c) ==> steps_rel(run_of(#[trigger] bcr[c]), run_of(bcr2[c]), idx, k)
}
/// what lemma_ep_bcr needs of the two contracts (extracted from ep_post so that its proof does not carry the whole bundle)
pub open spec fn ep_carriers_ok(comps: Components, k_exp: f32, lm: bool, x: EnergyPerformance) -> bool {
    &&& (forall|c: Carrier| #[trigger] x.balance_cr@.contains_key(c) == in_avail(comps.data@, c))
    &&& (forall|c: Carrier| x.balance_cr@.contains_key(c) ==> bfc_post(comps.data@, x.wfactors.wdata@, c, rv(k_exp), lm, #[trigger] x.balance_cr@[c]))
}
#[verifier::spinoff_prover]
pub proof fn lemma_ep_bcr(comps: Components, comps2: Components, k_exp: f32, lm: bool, x: EnergyPerformance, y: EnergyPerformance, idx: Seq<int>, k: real, ct: real)
    requires
        k > 0real, ct > 0real, inputs_rel(comps.data@, comps2.data@, idx, k), lay_sums(idx, nsteps(comps.data@) as int, k, ct),
        ep_carriers_ok(comps, k_exp, lm, x), ep_carriers_ok(comps2, k_exp, lm, y), all_lookups_same(x, y),
    ensures bcr_rel(x.balance_cr@, y.balance_cr@, ct), bcr_steps(x.balance_cr@, y.balance_cr@, idx, k),
{
    let cs = comps.data@; let cs2 = comps2.data@;
    let bcr = x.balance_cr@; let bcr2 = y.balance_cr@;
    assert forall|c: Carrier| bcr.contains_key(c) == bcr2.contains_key(c) by { assert(in_avail(cs2, c) == in_avail(cs, c)); }
    assert(bcr2.dom() =~= bcr.dom());
    assert forall|c: Carrier| bcr.contains_key(c) implies (#[trigger] bcr[c]).carrier == c && bcr2[c].carrier == c
            && steps_rel(run_of(bcr[c]), run_of(bcr2[c]), idx, k)
            && annual_rel(run_of(bcr[c]), run_of(bcr2[c]), ct) && we_rel(bcr[c].we, bcr2[c].we, ct)
            && bcr2[c].used.epus_by_srv_an@.dom() =~= bcr[c].used.epus_by_srv_an@.dom()
            && bcr[c].we.a_by_srv@.dom() =~= bcr[c].used.epus_by_srv_an@.dom() && bcr[c].we.b_by_srv@.dom() =~= bcr[c].used.epus_by_srv_an@.dom() by {
        assert(bcr2.contains_key(c));
        lemma_ep_carrier(comps, comps2, k_exp, lm, x, y, idx, k, ct, c);
    }
}
pub proof fn lemma_ep_building(bcr: Map<Carrier, BalanceCarrier>, bcr2: Map<Carrier, BalanceCarrier>, comps: Components, comps2: Components, bx: Balance, by: Balance, ct: real)
    requires ct > 0real, bcr_rel(bcr, bcr2, ct), ep_totals_ok(bcr, comps, bx), ep_totals_ok(bcr2, comps2, by),
    ensures bal_rel(bx, by, ct),
{
    // both accumulations start from zero and visit every carrier once, in whatever order
    let (ord, hist) = choose|ord: Seq<Carrier>, hist: Seq<Balance>| #[trigger] bal_chain(bcr, ord, hist) && bal_initial(hist[0], comps) && hist.last() == bx;
    let (ord2, hist2) = choose|ord2: Seq<Carrier>, hist2: Seq<Balance>| #[trigger] bal_chain(bcr2, ord2, hist2) && bal_initial(hist2[0], comps2) && hist2.last() == by;
    thm_building(bcr, bcr2, ord, hist, ord2, hist2, ct);
}
pub proof fn lemma_ep_rer(bcr: Map<Carrier, BalanceCarrier>, bcr2: Map<Carrier, BalanceCarrier>, bx: Balance, by: Balance, kx: real, ct: real)
    requires ct > 0real, bcr_rel(bcr, bcr2, ct), r3v(by.we.b) == r3s(ct, r3v(bx.we.b)),
    ensures ({
        let tot = rv(bx.we.b.ren) + rv(bx.we.b.nren); let tot2 = rv(by.we.b.ren) + rv(by.we.b.nren);
        let p = ren_parts(bcr, kx); let p2 = ren_parts(bcr2, kx);
        &&& rer_spec(r3v(by.we.b)) == rer_spec(r3v(bx.we.b))
        &&& (tot2 > 0real) == (tot > 0real)
        &&& (tot > 0real ==> p2.0 / tot2 == p.0 / tot && p2.1 / tot2 == p.1 / tot)
    }),
{
    lemma_rer_scale(ct, r3v(bx.we.b));
    let tot = rv(bx.we.b.ren) + rv(bx.we.b.nren);
    let tot2 = rv(by.we.b.ren) + rv(by.we.b.nren);
    lemma_dist2(ct, rv(bx.we.b.ren), rv(bx.we.b.nren));
    assert(tot2 == ct * tot);
    lemma_pos_mul(ct, tot);
    assert forall|c: Carrier| bcr.contains_key(c) implies rv((#[trigger] bcr2[c]).we.b.ren) == ct * rv(bcr[c].we.b.ren) by { assert(we_rel(bcr[c].we, bcr2[c].we, ct)); }
    lemma_perim_scale(bcr, bcr2, Perim::Onsite, carriers12(), ct);
    lemma_perim_scale(bcr, bcr2, Perim::Nearby, carriers12(), ct);
    let p = ren_parts(bcr, kx); let p2 = ren_parts(bcr2, kx);
    lemma_mul0(ct);
    assert(el_ren(bcr2, 0) == ct * el_ren(bcr, 0) && el_ren(bcr2, 1) == ct * el_ren(bcr, 1) && el_ren(bcr2, 2) == ct * el_ren(bcr, 2)) by {
        assert(bcr2.contains_key(Carrier::ELECTRICIDAD) == bcr.contains_key(Carrier::ELECTRICIDAD));
        if bcr.contains_key(Carrier::ELECTRICIDAD) { assert(we_rel(bcr[Carrier::ELECTRICIDAD].we, bcr2[Carrier::ELECTRICIDAD].we, ct)); }
    }
    lemma_dist2(ct, perim_sum(bcr, Perim::Onsite, carriers12()), el_ren(bcr, 0));
    assert(p2.0 == ct * p.0);
    let kk = 1real - kx;
    lemma_assoc(ct, kk, el_ren(bcr, 2));
    lemma_dist4(ct, perim_sum(bcr, Perim::Nearby, carriers12()), el_ren(bcr, 0), el_ren(bcr, 1), 0real - kk * el_ren(bcr, 2));
    lemma_dist2(ct, 0real, kk * el_ren(bcr, 2));
    assert(p2.1 == ct * p.1);
    if tot > 0real {
        assert((ct * p.0) / (ct * tot) == p.0 / tot && (ct * p.1) / (ct * tot) == p.1 / tot) by(nonlinear_arith) requires ct > 0real, tot > 0real;
    }
}
/// THE THEOREM AT THE PUBLIC ENTRY POINT. Two successful evaluations by energy_performance (same factor set, k_exp, load-matching mode)
/// of component sets with the same tags whose values are related through a layout of the time axis that multiplies energies by k per step
/// and annual sums by ct: every per-step figure follows the layout, every annual, weighted and whole-building figure is multiplied by ct,
/// RER, RER_onst and RER_nrb are unchanged.
pub proof fn thm_ep(comps: Components, comps2: Components, w: Seq<Factor>, k_exp: f32, area: f32, area2: f32, lm: bool,
                    r: Result<EnergyPerformance>, r2: Result<EnergyPerformance>, idx: Seq<int>, k: real, ct: real)
    requires
        k > 0real, ct > 0real, inputs_rel(comps.data@, comps2.data@, idx, k),
        lay_sums(idx, nsteps(comps.data@) as int, k, ct), lay_sums_r(idx, nsteps(comps.data@) as int, k, ct),
        ep_post(comps, w, k_exp, area, lm, r), ep_post(comps2, w, k_exp, area2, lm, r2), r is Ok, r2 is Ok,
    ensures ep_rel(r->Ok_0, r2->Ok_0, idx, k, ct),
{
    let x = r->Ok_0; let y = r2->Ok_0;
    lemma_ep_lookups_cgn(comps, comps2, w, x, y, idx, k, ct);
    lemma_ep_bcr(comps, comps2, k_exp, lm, x, y, idx, k, ct);
    lemma_ep_building(x.balance_cr@, y.balance_cr@, comps, comps2, x.balance, y.balance, ct);
    lemma_ep_rer(x.balance_cr@, y.balance_cr@, x.balance, y.balance, rv(k_exp), ct);
}

// ------------------------------------------------------------------------------------------------ the properties as corollaries
/// C11 (energies): every energy value multiplied by c > 0 (both sets inside the value domain)
pub proof fn thm_c11_energy(comps: Components, comps2: Components, w: Seq<Factor>, k_exp: f32, area: f32, lm: bool,
                            r: Result<EnergyPerformance>, r2: Result<EnergyPerformance>, c: real)
    requires
        c > 0real, tags_same(comps.data@, comps2.data@), comps_wf(comps.data@), comps_wf(comps2.data@), vals_dom(comps.data@), vals_dom(comps2.data@),
        nsteps(comps2.data@) == nsteps(comps.data@),
        forall|i: int| 0 <= i < nsteps(comps.data@) ==> #[trigger] val_rel(comps.data@, comps2.data@, i, i, c),
        ep_post(comps, w, k_exp, area, lm, r), ep_post(comps2, w, k_exp, area, lm, r2), r is Ok,
    ensures r2 is Ok, ep_rel(r->Ok_0, r2->Ok_0, idx_ident(nsteps(comps.data@) as int), c, c),
{
    let n = nsteps(comps.data@) as int;
    let idx = idx_ident(n);
    lemma_lay_same(n, c); lemma_lay_same_r(n, c);
    assert forall|i2: int| 0 <= i2 < idx.len() implies 0 <= #[trigger] idx[i2] < nsteps(comps.data@) && val_rel(comps.data@, comps2.data@, idx[i2], i2, c) by {
        assert(idx[i2] == i2); assert(val_rel(comps.data@, comps2.data@, i2, i2, c));
    }
    lemma_inputs_vals(comps.data@, comps2.data@, idx, c);
    thm_ok_agree(comps, comps2, w, k_exp, area, area, lm, r, r2, idx, c, c);
    thm_ep(comps, comps2, w, k_exp, area, area, lm, r, r2, idx, c, c);
}
/// C09 (permutation): the time steps of all components reordered by the same permutation
pub proof fn thm_c09_permutation(comps: Components, comps2: Components, w: Seq<Factor>, k_exp: f32, area: f32, lm: bool,
                                 r: Result<EnergyPerformance>, r2: Result<EnergyPerformance>, idx: Seq<int>)
    requires
        tags_same(comps.data@, comps2.data@), comps_wf(comps.data@), comps_wf(comps2.data@), vals_dom(comps.data@), vals_dom(comps2.data@),
        nsteps(comps2.data@) == nsteps(comps.data@), is_perm(idx, nsteps(comps.data@) as int),
        forall|i2: int| 0 <= i2 < nsteps(comps.data@) ==> val_rel(comps.data@, comps2.data@, #[trigger] idx[i2], i2, 1real),
        ep_post(comps, w, k_exp, area, lm, r), ep_post(comps2, w, k_exp, area, lm, r2), r is Ok,
    ensures r2 is Ok, ep_rel(r->Ok_0, r2->Ok_0, idx, 1real, 1real),
{
    let n = nsteps(comps.data@) as int;
    lemma_lay_perm(idx, n); lemma_lay_perm_r(idx, n);
    lemma_inputs_vals(comps.data@, comps2.data@, idx, 1real);
    thm_ok_agree(comps, comps2, w, k_exp, area, area, lm, r, r2, idx, 1real, 1real);
    thm_ep(comps, comps2, w, k_exp, area, area, lm, r, r2, idx, 1real, 1real);
}
/// C09 (subdivision): every step split into m equal sub-steps carrying 1/m of its energy
pub proof fn thm_c09_subdivision(comps: Components, comps2: Components, w: Seq<Factor>, k_exp: f32, area: f32, lm: bool,
                                 r: Result<EnergyPerformance>, r2: Result<EnergyPerformance>, m: int)
    requires
        m > 0, tags_same(comps.data@, comps2.data@), comps_wf(comps.data@), comps_wf(comps2.data@), vals_dom(comps.data@), vals_dom(comps2.data@),
        nsteps(comps2.data@) == nsteps(comps.data@) * m,
        forall|i2: int| 0 <= i2 < nsteps(comps2.data@) ==> #[trigger] val_rel(comps.data@, comps2.data@, i2 / m, i2, 1real / (m as real)),
        ep_post(comps, w, k_exp, area, lm, r), ep_post(comps2, w, k_exp, area, lm, r2), r is Ok,
    ensures r2 is Ok, ep_rel(r->Ok_0, r2->Ok_0, idx_subdiv(nsteps(comps.data@) as int, m), 1real / (m as real), 1real),
{
    let n = nsteps(comps.data@) as int;
    let idx = idx_subdiv(n, m);
    let k = 1real / (m as real);
    assert(k > 0real) by(nonlinear_arith) requires k == 1real / (m as real), m > 0;
    assert(n * m >= 0 && ((n * m > 0) == (n > 0))) by(nonlinear_arith) requires n >= 0, m > 0;
    lemma_lay_subdiv(n, m); lemma_lay_subdiv_r(n, m);
    assert forall|i2: int| 0 <= i2 < idx.len() implies 0 <= #[trigger] idx[i2] < nsteps(comps.data@) && val_rel(comps.data@, comps2.data@, idx[i2], i2, k) by {
        assert(idx[i2] == i2 / m);
        assert(0 <= i2 / m < n) by(nonlinear_arith) requires 0 <= i2 < n * m, m > 0;
        assert(val_rel(comps.data@, comps2.data@, i2 / m, i2, k));
    }
    lemma_inputs_vals(comps.data@, comps2.data@, idx, k);
    thm_ok_agree(comps, comps2, w, k_exp, area, area, lm, r, r2, idx, k, 1real);
    thm_ep(comps, comps2, w, k_exp, area, area, lm, r, r2, idx, k, 1real);
}
/// C10 (repeatability) / C04 (area): two evaluations of THE SAME component set - in any two hash orders, with any two reference areas - give
/// the same per-carrier and whole-building figures and the same renewable ratios (in the real-number model)
pub proof fn thm_c10_repeatable(comps: Components, w: Seq<Factor>, k_exp: f32, area: f32, area2: f32, lm: bool, r: Result<EnergyPerformance>, r2: Result<EnergyPerformance>)
    requires comps_wf(comps.data@), vals_dom(comps.data@),
             ep_post(comps, w, k_exp, area, lm, r), ep_post(comps, w, k_exp, area2, lm, r2), r is Ok, !(rv(area2) < 1real / 1000real),
    ensures r2 is Ok, ep_rel(r->Ok_0, r2->Ok_0, idx_ident(nsteps(comps.data@) as int), 1real, 1real),
{
    let cs = comps.data@;
    let n = nsteps(cs) as int;
    let idx = idx_ident(n);
    lemma_lay_same(n, 1real); lemma_lay_same_r(n, 1real);
    assert(tags_same(cs, cs));
    assert forall|i2: int| 0 <= i2 < idx.len() implies 0 <= #[trigger] idx[i2] < nsteps(cs) && val_rel(cs, cs, idx[i2], i2, 1real) by {
        assert(idx[i2] == i2);
        assert forall|j: int| 0 <= j < cs.len() implies rv(#[trigger] e_vals(cs[j])[i2]) == 1real * rv(e_vals(cs[j])[i2]) by {
            assert(1real * rv(e_vals(cs[j])[i2]) == rv(e_vals(cs[j])[i2])) by(nonlinear_arith);
        }
    }
    lemma_inputs_vals(cs, cs, idx, 1real);
    thm_ok_agree(comps, comps, w, k_exp, area, area2, lm, r, r2, idx, 1real, 1real);
    thm_ep(comps, comps, w, k_exp, area, area2, lm, r, r2, idx, 1real, 1real);
}

// ------------------------------------------------------------------------------------------------ per-m2 figures (C04 / C11)
pub proof fn lemma_m2_field(kx: real, ky: real, ct: real, v: real, v2: real, q: real)
    requires kx != 0real, v2 == ct * v, q == (ct * ky) / kx,
    ensures rmul(ky, v2) == q * rmul(kx, v), rmul(v2, ky) == q * rmul(v, kx),
{
    assert(ky * (ct * v) == ((ct * ky) / kx) * (kx * v) && (ct * v) * ky == ((ct * ky) / kx) * (v * kx)) by(nonlinear_arith) requires kx != 0real;
}
pub proof fn lemma_mscaled_mval<K>(m0: Map<K, f32>, m1: Map<K, f32>, k: real, key: K)
    requires mscaled(m0, m1, k),
    ensures mval(m1, key) == rmul(mval(m0, key), k),
{
    assert(m1.contains_key(key) == m0.contains_key(key));
    if !m0.contains_key(key) { lemma_mul0(k); }
}
pub proof fn lemma_m3scaled_mval(m0: Map<Service, RenNrenCo2>, m1: Map<Service, RenNrenCo2>, k: real, key: Service)
    requires m3scaled(m0, m1, k),
    ensures mval3(m1, key) == r3k(k, mval3(m0, key)),
{
    assert(m1.contains_key(key) == m0.contains_key(key));
    if !m0.contains_key(key) { lemma_mul0(k); }
}
/// per-m2 figures of two evaluations whose absolute figures are related by ct: related by ct * (1/area2) / (1/area)
pub proof fn thm_m2(bx: Balance, by: Balance, area: f32, area2: f32, mx: Balance, my: Balance, ct: real, q: real)
    requires bal_rel(bx, by, ct), nba_ok(bx, area, mx), nba_ok(by, area2, my), rv(area) != 0real, q == (ct * k_of(area2)) / k_of(area),
    ensures bal_rel(mx, my, q),
{
    let kx = k_of(area); let ky = k_of(area2);
    assert(kx != 0real) by(nonlinear_arith) requires kx == 1real / rv(area), rv(area) != 0real;
    lemma_m2_field(kx, ky, ct, rv(bx.used.epus), rv(by.used.epus), q);
    lemma_m2_field(kx, ky, ct, rv(bx.used.nepus), rv(by.used.nepus), q);
    lemma_m2_field(kx, ky, ct, rv(bx.used.cgnus), rv(by.used.cgnus), q);
    lemma_m2_field(kx, ky, ct, rv(bx.prod.an), rv(by.prod.an), q);
    lemma_m2_field(kx, ky, ct, rv(bx.del.an), rv(by.del.an), q);
    lemma_m2_field(kx, ky, ct, rv(bx.del.onst), rv(by.del.onst), q);
    lemma_m2_field(kx, ky, ct, rv(bx.del.grid), rv(by.del.grid), q);
    lemma_m2_field(kx, ky, ct, rv(bx.exp.an), rv(by.exp.an), q);
    lemma_m2_field(kx, ky, ct, rv(bx.exp.nepus), rv(by.exp.nepus), q);
    lemma_m2_field(kx, ky, ct, rv(bx.exp.grid), rv(by.exp.grid), q);
    lemma_m2_r3(kx, ky, ct, r3v(bx.we.a), r3v(by.we.a), q);
    lemma_m2_r3(kx, ky, ct, r3v(bx.we.b), r3v(by.we.b), q);
    lemma_m2_r3(kx, ky, ct, r3v(bx.we.del), r3v(by.we.del), q);
    lemma_m2_r3(kx, ky, ct, r3v(bx.we.exp_a), r3v(by.we.exp_a), q);
    lemma_m2_r3(kx, ky, ct, r3v(bx.we.exp), r3v(by.we.exp), q);
    assert forall|s: Service| #[trigger] mval(my.used.epus_by_srv@, s) == q * mval(mx.used.epus_by_srv@, s) by {
        lemma_mscaled_mval(bx.used.epus_by_srv@, mx.used.epus_by_srv@, kx, s); lemma_mscaled_mval(by.used.epus_by_srv@, my.used.epus_by_srv@, ky, s);
        assert(mval(by.used.epus_by_srv@, s) == ct * mval(bx.used.epus_by_srv@, s));
        lemma_m2_field(kx, ky, ct, mval(bx.used.epus_by_srv@, s), mval(by.used.epus_by_srv@, s), q);
    }
    assert forall|s: Service| #[trigger] mval3(my.we.a_by_srv@, s) == r3s(q, mval3(mx.we.a_by_srv@, s)) by {
        lemma_m3scaled_mval(bx.we.a_by_srv@, mx.we.a_by_srv@, kx, s); lemma_m3scaled_mval(by.we.a_by_srv@, my.we.a_by_srv@, ky, s);
        assert(mval3(by.we.a_by_srv@, s) == r3s(ct, mval3(bx.we.a_by_srv@, s)));
        lemma_m2_r3(kx, ky, ct, mval3(bx.we.a_by_srv@, s), mval3(by.we.a_by_srv@, s), q);
    }
    assert forall|s: Service| #[trigger] mval3(my.we.b_by_srv@, s) == r3s(q, mval3(mx.we.b_by_srv@, s)) by {
        lemma_m3scaled_mval(bx.we.b_by_srv@, mx.we.b_by_srv@, kx, s); lemma_m3scaled_mval(by.we.b_by_srv@, my.we.b_by_srv@, ky, s);
        assert(mval3(by.we.b_by_srv@, s) == r3s(ct, mval3(bx.we.b_by_srv@, s)));
        lemma_m2_r3(kx, ky, ct, mval3(bx.we.b_by_srv@, s), mval3(by.we.b_by_srv@, s), q);
    }
    assert forall|s: ProdSource| #[trigger] mval(my.prod.by_src@, s) == q * mval(mx.prod.by_src@, s) by {
        lemma_mscaled_mval(bx.prod.by_src@, mx.prod.by_src@, kx, s); lemma_mscaled_mval(by.prod.by_src@, my.prod.by_src@, ky, s);
        assert(mval(by.prod.by_src@, s) == ct * mval(bx.prod.by_src@, s));
        lemma_m2_field(kx, ky, ct, mval(bx.prod.by_src@, s), mval(by.prod.by_src@, s), q);
    }
    assert forall|s: ProdSource| #[trigger] mval(my.prod.epus_by_src@, s) == q * mval(mx.prod.epus_by_src@, s) by {
        lemma_mscaled_mval(bx.prod.epus_by_src@, mx.prod.epus_by_src@, kx, s); lemma_mscaled_mval(by.prod.epus_by_src@, my.prod.epus_by_src@, ky, s);
        assert(mval(by.prod.epus_by_src@, s) == ct * mval(bx.prod.epus_by_src@, s));
        lemma_m2_field(kx, ky, ct, mval(bx.prod.epus_by_src@, s), mval(by.prod.epus_by_src@, s), q);
    }
    assert forall|c: Carrier| #[trigger] mval(my.prod.by_cr@, c) == q * mval(mx.prod.by_cr@, c) by {
        lemma_mscaled_mval(bx.prod.by_cr@, mx.prod.by_cr@, kx, c); lemma_mscaled_mval(by.prod.by_cr@, my.prod.by_cr@, ky, c);
        assert(mval(by.prod.by_cr@, c) == ct * mval(bx.prod.by_cr@, c));
        lemma_m2_field(kx, ky, ct, mval(bx.prod.by_cr@, c), mval(by.prod.by_cr@, c), q);
    }
    assert forall|c: Carrier| #[trigger] mval(my.del.grid_by_cr@, c) == q * mval(mx.del.grid_by_cr@, c) by {
        lemma_mscaled_mval(bx.del.grid_by_cr@, mx.del.grid_by_cr@, kx, c); lemma_mscaled_mval(by.del.grid_by_cr@, my.del.grid_by_cr@, ky, c);
        assert(mval(by.del.grid_by_cr@, c) == ct * mval(bx.del.grid_by_cr@, c));
        lemma_m2_field(kx, ky, ct, mval(bx.del.grid_by_cr@, c), mval(by.del.grid_by_cr@, c), q);
    }
    assert forall|c: Carrier| #[trigger] mval(my.used.epus_by_cr@, c) == q * mval(mx.used.epus_by_cr@, c) by {
        lemma_mscaled_mval(bx.used.epus_by_cr@, mx.used.epus_by_cr@, kx, c); lemma_mscaled_mval(by.used.epus_by_cr@, my.used.epus_by_cr@, ky, c);
        assert(mval(by.used.epus_by_cr@, c) == ct * mval(bx.used.epus_by_cr@, c));
        lemma_m2_field(kx, ky, ct, mval(bx.used.epus_by_cr@, c), mval(by.used.epus_by_cr@, c), q);
    }
}
pub proof fn lemma_m2_r3(kx: real, ky: real, ct: real, v: R3, v2: R3, q: real)
    requires kx != 0real, v2 == r3s(ct, v), q == (ct * ky) / kx,
    ensures r3k(ky, v2) == r3s(q, r3k(kx, v)),
{
    lemma_m2_field(kx, ky, ct, v.ren, v2.ren, q); lemma_m2_field(kx, ky, ct, v.nren, v2.nren, q); lemma_m2_field(kx, ky, ct, v.co2, v2.co2, q);
}
/// C11 (area): the same building evaluated with reference area c * area: absolute figures and the renewable ratios unchanged,
/// every per-m2 figure divided by c
pub proof fn thm_c11_area(comps: Components, w: Seq<Factor>, k_exp: f32, area: f32, area2: f32, lm: bool, r: Result<EnergyPerformance>, r2: Result<EnergyPerformance>, c: real)
    requires comps_wf(comps.data@), vals_dom(comps.data@), c > 0real, rv(area) > 0real, rv(area2) == c * rv(area),
             ep_post(comps, w, k_exp, area, lm, r), ep_post(comps, w, k_exp, area2, lm, r2), r is Ok, !(rv(area2) < 1real / 1000real),
    ensures r2 is Ok, ep_rel(r->Ok_0, r2->Ok_0, idx_ident(nsteps(comps.data@) as int), 1real, 1real),
            bal_rel(r->Ok_0.balance_m2, r2->Ok_0.balance_m2, 1real / c),
{
    thm_c10_repeatable(comps, w, k_exp, area, area2, lm, r, r2);
    let kx = k_of(area); let ky = k_of(area2);
    lemma_pos_mul(c, rv(area));
    assert((1real * ky) / kx == 1real / c) by(nonlinear_arith) requires kx == 1real / rv(area), ky == 1real / (c * rv(area)), c > 0real, rv(area) > 0real;
    thm_m2(r->Ok_0.balance, r2->Ok_0.balance, area, area2, r->Ok_0.balance_m2, r2->Ok_0.balance_m2, 1real, 1real / c);
}

// ------------------------------------------------------------------------------------------------ success of the second evaluation
pub proof fn lemma_cgn_ok_same(w: Seq<Factor>, cs: Seq<Energy>, cs2: Seq<Energy>)
    requires sel_same(cs, cs2), (nsteps(cs2) > 0) == (nsteps(cs) > 0),
    ensures cgn_ok(w, cs2) == cgn_ok(w, cs),
{
    assert(any_sel(cs2, Sel::Prod(ProdSource::EL_COGEN)) == any_sel(cs, Sel::Prod(ProdSource::EL_COGEN)));
    assert(has_cgn_prod(cs2) == has_cgn_prod(cs));
    assert(any_cgn_use(cs2) == any_cgn_use(cs)) by {
        if any_cgn_use(cs) { let fuel = choose|fuel: Carrier| any_sel(cs, Sel::CgnFuel(fuel)); assert(any_sel(cs2, Sel::CgnFuel(fuel)) == any_sel(cs, Sel::CgnFuel(fuel))); }
        if any_cgn_use(cs2) { let fuel = choose|fuel: Carrier| any_sel(cs2, Sel::CgnFuel(fuel)); assert(any_sel(cs2, Sel::CgnFuel(fuel)) == any_sel(cs, Sel::CgnFuel(fuel))); }
    }
    assert(cgn_factors_ok(w, cs2, false) == cgn_factors_ok(w, cs, false)) by {
        assert forall|fuel: Carrier| cgn_uses(cs2, false, fuel) == cgn_uses(cs, false, fuel) by { assert(any_sel(cs2, Sel::CgnFuel(fuel)) == any_sel(cs, Sel::CgnFuel(fuel))); }
        if cgn_factors_ok(w, cs, false) { assert forall|fuel: Carrier| cgn_uses(cs2, false, fuel) implies #[trigger] has_fp(w, fuel, Source::RED, Dest::SUMINISTRO, Step::A) by { assert(cgn_uses(cs, false, fuel)); } }
        if cgn_factors_ok(w, cs2, false) { assert forall|fuel: Carrier| cgn_uses(cs, false, fuel) implies #[trigger] has_fp(w, fuel, Source::RED, Dest::SUMINISTRO, Step::A) by { assert(cgn_uses(cs2, false, fuel)); } }
    }
}
/// the weighting step of carrier c needs the same factors in two evaluations whose inputs are related through a layout (whatever
/// tuples of flows the two evaluations computed)
pub proof fn lemma_ok_carrier(comps: Components, comps2: Components, lm: bool, idx: Seq<int>, k: real, ct: real, c: Carrier, w: Seq<Factor>, w2: Seq<Factor>, a: Run, b: Run)
    requires
        k > 0real, ct > 0real, inputs_rel(comps.data@, comps2.data@, idx, k), lay_sums(idx, nsteps(comps.data@) as int, k, ct),
        in_avail(comps.data@, c), run_ok(a, lm), a.cs == filter_carrier(comps.data@, c), run_ok(b, lm), b.cs == filter_carrier(comps2.data@, c),
        we_lookups_same(w, w2, c, a.exp, a.del),
    ensures we_factors_ok(w2, c, b.exp, b.del) == we_factors_ok(w, c, a.exp, a.del),
{
    let cs = comps.data@; let cs2 = comps2.data@;
    let n = nsteps(cs); let n2 = nsteps(cs2);
    assert(in_avail(cs2, c) == in_avail(cs, c));
    assert(carrier_rel(cs, cs2, c, idx, k));
    lemma_filter_carrier(cs, c, n); lemma_filter_carrier(cs2, c, n2);
    lemma_vals_dom_filter(cs, c); lemma_vals_dom_filter(cs2, c);
    assert(e_has_carrier(a.cs[0], c) && e_has_carrier(b.cs[0], c));
    assert(run_n(a) == n && run_n(b) == n2) by { assert(e_vals(a.cs[0]).len() == n && e_vals(b.cs[0]).len() == n2); }
    assert forall|i2: int| 0 <= i2 < idx.len() implies 0 <= #[trigger] idx[i2] < run_n(a) && acc_rel(a.cs, b.cs, idx[i2], i2, k)
            && in_dom(rv(a.prod.t@[idx[i2]])) && in_dom(rv(b.prod.t@[i2])) by {
        assert(acc_rel(a.cs, b.cs, idx[i2], i2, k));
        lemma_prod_in_dom(a, lm, idx[i2]);
        lemma_prod_in_dom(b, lm, i2);
    }
    assert(carrier_hyp(a, b, lm, idx, k));
    lemma_step_doms(a, b, lm);
    assert forall|i2: int| 0 <= i2 < idx.len() implies 0 <= #[trigger] idx[i2] < run_n(a) && step_rel_r(a, b, idx[i2], i2, k) by { thm_step(a, b, lm, idx[i2], i2, k); }
    thm_annual(a, b, lm, idx, k, ct);
    lemma_we_inputs(a, b, ct);
    lemma_we_ok_same(w, w2, c, a, b, ct);
}
/// THE SECOND EVALUATION SUCCEEDS WHEN THE FIRST DOES: under the hypotheses of thm_ep (without assuming anything about r2) and a
/// reference area that energy_performance accepts
pub proof fn thm_ok_agree(comps: Components, comps2: Components, w: Seq<Factor>, k_exp: f32, area: f32, area2: f32, lm: bool,
                          r: Result<EnergyPerformance>, r2: Result<EnergyPerformance>, idx: Seq<int>, k: real, ct: real)
    requires
        k > 0real, ct > 0real, inputs_rel(comps.data@, comps2.data@, idx, k),
        lay_sums(idx, nsteps(comps.data@) as int, k, ct), lay_sums_r(idx, nsteps(comps.data@) as int, k, ct),
        ep_post(comps, w, k_exp, area, lm, r), ep_post(comps2, w, k_exp, area2, lm, r2), r is Ok, !(rv(area2) < 1real / 1000real),
    ensures r2 is Ok,
{
    if r2 is Err {
        let cs = comps.data@; let cs2 = comps2.data@;
        let x = r->Ok_0;
        lemma_cgn_ok_same(w, cs, cs2);
        assert(cgn_ok(w, cs2));
        // so some carrier of the second building lacks a factor, for some tuple of flows that the contracts allow
        let (c, wf2, used, prod, fm, exp, del) = choose|c: Carrier, wf: Seq<Factor>, used: UsedEnergy, prod: ProducedEnergy, fm: Seq<f32>, exp: ExportedEnergy, del: DeliveredEnergy|
            in_avail(cs2, c) && #[trigger] cgn_added(w, wf, cs2) && #[trigger] flows_ok(cs2, c, lm, used, prod, fm, exp, del) && !we_factors_ok(wf, c, exp, del);
        assert(in_avail(cs2, c) == in_avail(cs, c));
        assert(x.balance_cr@.contains_key(c));
        let bx = x.balance_cr@[c];
        assert(bfc_post(cs, x.wfactors.wdata@, c, rv(k_exp), lm, bx));
        reveal(bfc_post);
        let a = Run { cs: filter_carrier(cs, c), used: bx.used, prod: bx.prod, fm: bx.f_match@, exp: bx.exp, del: bx.del };
        let b = Run { cs: filter_carrier(cs2, c), used: used, prod: prod, fm: fm, exp: exp, del: del };
        lemma_filter_carrier(cs, c, nsteps(cs)); lemma_filter_carrier(cs2, c, nsteps(cs2));
        // the two factor sets (with the derived cogeneration factors) read the same
        let n = nsteps(cs); let n2 = nsteps(cs2);
        assert forall|i2: int| 0 <= i2 < idx.len() implies 0 <= #[trigger] idx[i2] < n && acc_rel(cs, cs2, idx[i2], i2, k) by {
            assert(acc_rel(cs, cs2, idx[i2], i2, k));
        }
        assert forall|s: Sel| #[trigger] acc_an(cs2, s, n2 as int) == ct * acc_an(cs, s, n as int) by { lemma_acc_an_rel(cs, cs2, s, idx, n as int, k, ct); }
        lemma_cgn_added_same(w, x.wfactors.wdata@, wf2, cs, cs2, ct, c);
        lemma_fp_same_lookups(x.wfactors.wdata@, wf2, c, a.exp, a.del);
        lemma_ok_carrier(comps, comps2, lm, idx, k, ct, c, x.wfactors.wdata@, wf2, a, b);
        // the first evaluation did find every factor
        assert(cwe_post(x.wfactors.wdata@, c, rv(k_exp), bx.used, bx.exp, bx.del, Ok(bx.we)));
        assert(we_factors_ok(x.wfactors.wdata@, c, a.exp, a.del));
        assert(false);
    }
}
