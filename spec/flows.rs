// ---- spec layer for the per-carrier energy flows (EN ISO 52000-1 (9)-(14); property C01 / C12)
pub open spec fn mapv_len<K>(m: Map<K, Vec<f32>>, n: nat) -> bool {
    forall|k: K| m.contains_key(k) ==> (#[trigger] m[k])@.len() == n
}
/// value at step i of the vector stored for source s (0 when the source is absent)
pub open spec fn mv(m: Map<ProdSource, Vec<f32>>, s: ProdSource, i: int) -> real {
    if m.contains_key(s) { rv(m[s]@[i]) } else { 0real }
}
/// the same, counting only the sources among the first n items of an iteration
pub open spec fn pmv(m: Map<ProdSource, Vec<f32>>, rem: Seq<(&ProdSource, &Vec<f32>)>, n: int, s: ProdSource, i: int) -> real {
    if visited(rem, n, s) { mv(m, s, i) } else { 0real }
}
/// Σ over the sources delivered on site (Source::INSITU): EL_INSITU, TERMOSOLAR, EAMBIENTE
pub open spec fn onsite_sum(m: Map<ProdSource, Vec<f32>>, i: int) -> real {
    mv(m, ProdSource::EL_INSITU, i) + mv(m, ProdSource::TERMOSOLAR, i) + mv(m, ProdSource::EAMBIENTE, i)
}
pub open spec fn p_onsite_sum(m: Map<ProdSource, Vec<f32>>, rem: Seq<(&ProdSource, &Vec<f32>)>, n: int, i: int) -> real {
    pmv(m, rem, n, ProdSource::EL_INSITU, i) + pmv(m, rem, n, ProdSource::TERMOSOLAR, i) + pmv(m, rem, n, ProdSource::EAMBIENTE, i)
}
/// Σ over all four production sources
pub open spec fn all_src_sum(m: Map<ProdSource, Vec<f32>>, i: int) -> real {
    mv(m, ProdSource::EL_INSITU, i) + mv(m, ProdSource::EL_COGEN, i) + mv(m, ProdSource::TERMOSOLAR, i) + mv(m, ProdSource::EAMBIENTE, i)
}
pub open spec fn p_all_src_sum(m: Map<ProdSource, Vec<f32>>, rem: Seq<(&ProdSource, &Vec<f32>)>, n: int, i: int) -> real {
    pmv(m, rem, n, ProdSource::EL_INSITU, i) + pmv(m, rem, n, ProdSource::EL_COGEN, i) + pmv(m, rem, n, ProdSource::TERMOSOLAR, i) + pmv(m, rem, n, ProdSource::EAMBIENTE, i)
}

/// shape of the (used, produced) pair that `compute_used_produced` hands to `compute_exported_delivered`
pub open spec fn flows_shape(used: UsedEnergy, prod: ProducedEnergy) -> bool {
    let n = prod.t@.len();
    &&& used.epus_t@.len() == n
    &&& used.nepus_t@.len() == n
    &&& used.cgnus_t@.len() == n
    &&& prod.epus_t@.len() == n
    &&& mapv_len(prod.by_src_t@, n)
    &&& mapv_len(prod.epus_by_src_t@, n)
    &&& (forall|s: ProdSource| prod.by_src_t@.contains_key(s) ==> #[trigger] prod.epus_by_src_t@.contains_key(s))
}
