// ---- spec layer for the per-carrier energy flows (EN ISO 52000-1 (9)-(14); property C01 / C12)
pub open spec fn mapv_len<K>(m: Map<K, Vec<f32>>, n: nat) -> bool {
    forall|k: K| m.contains_key(k) ==> (#[trigger] m[k])@.len() == n
}
/// value at step i of the vector stored for source s (0 when the source is absent)
pub open spec fn mv(m: Map<ProdSource, Vec<f32>>, s: ProdSource, i: int) -> real {
    if m.contains_key(s) { rv(m[s]@[i]) } else { 0real }
}
/// the same, counting only the sources among the first n items of an iteration
pub open spec fn pmv(m: Map<ProdSource, Vec<f32>>, rem: Seq<(&ProdSource, &Vec<f32>)>, n: int, s: ProdSource, i: int) -> real {
    if visited(rem, n, s) { mv(m, s, i) } else { 0real }
}
/// Σ over the sources delivered on site (Source::INSITU): EL_INSITU, TERMOSOLAR, EAMBIENTE
pub open spec fn onsite_sum(m: Map<ProdSource, Vec<f32>>, i: int) -> real {
    mv(m, ProdSource::EL_INSITU, i) + mv(m, ProdSource::TERMOSOLAR, i) + mv(m, ProdSource::EAMBIENTE, i)
}
pub open spec fn p_onsite_sum(m: Map<ProdSource, Vec<f32>>, rem: Seq<(&ProdSource, &Vec<f32>)>, n: int, i: int) -> real {
    pmv(m, rem, n, ProdSource::EL_INSITU, i) + pmv(m, rem, n, ProdSource::TERMOSOLAR, i) + pmv(m, rem, n, ProdSource::EAMBIENTE, i)
}
/// Σ over all four production sources
pub open spec fn all_src_sum(m: Map<ProdSource, Vec<f32>>, i: int) -> real {
    mv(m, ProdSource::EL_INSITU, i) + mv(m, ProdSource::EL_COGEN, i) + mv(m, ProdSource::TERMOSOLAR, i) + mv(m, ProdSource::EAMBIENTE, i)
}
pub open spec fn p_all_src_sum(m: Map<ProdSource, Vec<f32>>, rem: Seq<(&ProdSource, &Vec<f32>)>, n: int, i: int) -> real {
    pmv(m, rem, n, ProdSource::EL_INSITU, i) + pmv(m, rem, n, ProdSource::EL_COGEN, i) + pmv(m, rem, n, ProdSource::TERMOSOLAR, i) + pmv(m, rem, n, ProdSource::EAMBIENTE, i)
}

/// shape of the (used, produced) pair that `compute_used_produced` hands to `compute_exported_delivered`
pub open spec fn flows_shape(used: UsedEnergy, prod: ProducedEnergy) -> bool {
    let n = prod.t@.len();
    &&& used.epus_t@.len() == n
    &&& used.nepus_t@.len() == n
    &&& used.cgnus_t@.len() == n
    &&& prod.epus_t@.len() == n
    &&& mapv_len(prod.by_src_t@, n)
    &&& mapv_len(prod.epus_by_src_t@, n)
    &&& (forall|s: ProdSource| prod.by_src_t@.contains_key(s) ==> #[trigger] prod.epus_by_src_t@.contains_key(s))
}

/// load-matching factor, formula (32) / table B.32 with k = n = 1, written from the property statement (C12):
/// 1 without load matching or when production or use is zero, else (x + 1/x - 1)/(x + 1/x) with x = production/use
pub open spec fn fmatch(lm: bool, pr: real, us: real) -> real {
    if !lm || pr <= 0real || us <= 0real { 1real } else { let x = pr / us; (x + 1real / x - 1real) / (x + 1real / x) }
}
// the two stages as the code computes them
pub open spec fn xratio(pr: real, us: real) -> real { if us > 0real { pr / us } else { 0real } }
pub open spec fn fm_of_x(x: real) -> real { if x <= 0real { 1real } else { (x + 1real / x - 1real) / (x + 1real / x) } }
pub proof fn lemma_fmatch_stages(pr: real, us: real)
    ensures fm_of_x(xratio(pr, us)) == fmatch(true, pr, us),
{
    if us > 0real && pr > 0real {
        assert(pr / us > 0real) by(nonlinear_arith) requires pr > 0real, us > 0real;
    }
    if us > 0real && pr <= 0real {
        assert(pr / us <= 0real) by(nonlinear_arith) requires pr <= 0real, us > 0real;
    }
}
/// share of a service in the EPB use of a step (reverse calculation, E.3.6)
pub open spec fn share(part: real, whole: real) -> real { if whole > 0real { part / whole } else { 0real } }

// ---- classification of the components of one carrier, exactly the four-way split of the property:
// production (by source) / EPB use (by service) / cogeneration input / non-EPB use
pub enum Sel { Epus, EpusSrv(Service), Nepus, Cgn, Prod(ProdSource), CgnFuel(Carrier) }
pub open spec fn sel(k: Sel, e: Energy) -> bool {
    match k {
        Sel::Prod(s) => e is Prod && e->Prod_0.source == s,
        Sel::Epus => !(e is Prod) && e_is_epb_use(e),
        Sel::EpusSrv(s) => !(e is Prod) && e_is_epb_use(e) && e_service(e) == s,
        Sel::Cgn => !(e is Prod) && !e_is_epb_use(e) && e_is_cogen_use(e),
        Sel::Nepus => !(e is Prod) && !e_is_epb_use(e) && !e_is_cogen_use(e),
        Sel::CgnFuel(c) => e is Used && e_is_cogen_use(e) && e->Used_0.carrier == c,
    }
}
/// Σ over the selected components of their value at step i
pub open spec fn acc(cs: Seq<Energy>, k: Sel, i: int) -> real decreases cs.len() {
    if cs.len() == 0 { 0real } else { acc(cs.drop_last(), k, i) + (if sel(k, cs.last()) { rv(e_vals(cs.last())[i]) } else { 0real }) }
}
/// some component is selected
pub open spec fn any_sel(cs: Seq<Energy>, k: Sel) -> bool decreases cs.len() {
    if cs.len() == 0 { false } else { any_sel(cs.drop_last(), k) || sel(k, cs.last()) }
}
pub open spec fn wf_list(cs: Seq<Energy>, n: nat) -> bool {
    forall|j: int| 0 <= j < cs.len() ==> e_vals(#[trigger] cs[j]).len() == n
}
pub open spec fn same_carrier(cs: Seq<Energy>, c: Carrier) -> bool {
    forall|j: int| 0 <= j < cs.len() ==> e_has_carrier(#[trigger] cs[j], c)
}
pub proof fn lemma_take_step(cs: Seq<Energy>, n: int)
    requires 0 <= n < cs.len(),
    ensures cs.take(n + 1).drop_last() == cs.take(n), cs.take(n + 1).last() == cs[n], cs.take(n + 1).len() == n + 1,
{
    assert(cs.take(n + 1).drop_last() =~= cs.take(n));
}
/// a production source present in a list of components of carrier c belongs to c
pub proof fn lemma_has_prod_carrier(cs: Seq<Energy>, c: Carrier, s: ProdSource)
    requires same_carrier(cs, c), any_sel(cs, Sel::Prod(s)),
    ensures ps_carrier(s) == c,
    decreases cs.len(),
{
    if cs.len() > 0 {
        if sel(Sel::Prod(s), cs.last()) {
            assert(e_has_carrier(cs[cs.len() - 1], c));
        } else {
            assert forall|j: int| 0 <= j < cs.drop_last().len() implies e_has_carrier(#[trigger] cs.drop_last()[j], c) by { assert(cs.drop_last()[j] == cs[j]); }
            lemma_has_prod_carrier(cs.drop_last(), c, s);
        }
    }
}
/// electricity is the only carrier with a priority order, and only when both kinds of production exist
pub open spec fn pri(carrier: Carrier, m: Map<ProdSource, Vec<f32>>) -> bool {
    carrier == Carrier::ELECTRICIDAD && m.contains_key(ProdSource::EL_INSITU) && m.contains_key(ProdSource::EL_COGEN)
}
pub proof fn lemma_acc_zero(cs: Seq<Energy>, k: Sel, i: int)
    requires !any_sel(cs, k),
    ensures acc(cs, k, i) == 0real,
    decreases cs.len(),
{
    if cs.len() > 0 { lemma_acc_zero(cs.drop_last(), k, i); }
}
/// produced energy used by EPB services when sources have a priority order (electricity): on-site first
pub open spec fn pri_insitu(pv: real, us: real, f: real) -> real { rmin(pv, us) * f }
pub open spec fn pri_cogen(pv: real, chp: real, us: real, f: real) -> real { rmin(chp, us - rmin(pv, us)) * f }
/// without priorities: used = f_match * min(use, production), split by each source's share of the production (14)
pub open spec fn fsrc(p: real, all: real) -> real { if all > 1real / 1000real { p / all } else { 0real } }
// typed views (give type inference the element types of locals declared with `HashMap::new()`)
pub open spec fn view_sv(m: HashMap<Service, Vec<f32>>) -> Map<Service, Vec<f32>> { m@ }
pub open spec fn view_sf(m: HashMap<Service, f32>) -> Map<Service, f32> { m@ }
pub open spec fn view_psf(m: HashMap<ProdSource, f32>) -> Map<ProdSource, f32> { m@ }
