// ---- lemmas that turn the functional postconditions of the flow functions into the direct statements of C01 / C12
pub open spec fn nonneg_list(cs: Seq<Energy>) -> bool {
    forall|j: int, i: int| 0 <= j < cs.len() && 0 <= i < e_vals(cs[j]).len() ==> rv(#[trigger] e_vals(cs[j])[i]) >= 0real
}
pub proof fn lemma_acc_nonneg(cs: Seq<Energy>, k: Sel, i: int, n: nat)
    requires nonneg_list(cs), wf_list(cs, n), 0 <= i < n,
    ensures acc(cs, k, i) >= 0real,
    decreases cs.len(),
{
    if cs.len() > 0 {
        let c0 = cs.drop_last();
        assert forall|j: int, ii: int| 0 <= j < c0.len() && 0 <= ii < e_vals(c0[j]).len() implies rv(#[trigger] e_vals(c0[j])[ii]) >= 0real by { assert(c0[j] == cs[j]); }
        assert forall|j: int| 0 <= j < c0.len() implies e_vals(#[trigger] c0[j]).len() == n by { assert(c0[j] == cs[j]); }
        lemma_acc_nonneg(c0, k, i, n);
        assert(e_vals(cs[cs.len() - 1]).len() == n);
        assert(rv(e_vals(cs[cs.len() - 1])[i]) >= 0real);
    }
}
/// table B.32 factor lies in [1/2, 1]  (x + 1/x >= 2 for x > 0)
pub proof fn lemma_fmatch_range(lm: bool, p: real, u: real)
    ensures 1real / 2real <= fmatch(lm, p, u) <= 1real,
{
    if lm && p > 0real && u > 0real {
        let x = p / u;
        assert(x > 0real) by(nonlinear_arith) requires p > 0real, u > 0real, x == p / u;
        let y = 1real / x;
        assert(y > 0real && x * y == 1real) by(nonlinear_arith) requires x > 0real, y == 1real / x;
        assert(x + y >= 2real) by(nonlinear_arith) requires x > 0real, y > 0real, x * y == 1real;
        let s = x + y;
        assert((s - 1real) / s <= 1real && (s - 1real) / s >= 1real / 2real) by(nonlinear_arith) requires s >= 2real;
    }
}
pub proof fn lemma_scale01(a: real, f: real)
    requires a >= 0real, 0real <= f <= 1real,
    ensures 0real <= a * f <= a, 0real <= f * a <= a,
{
    assert(0real <= a * f <= a && 0real <= f * a <= a) by(nonlinear_arith) requires a >= 0real, 0real <= f <= 1real;
}
pub proof fn lemma_pri_bounds(pv: real, chp: real, us: real, f: real)
    requires pv >= 0real, chp >= 0real, us >= 0real, 0real <= f <= 1real,
    ensures 0real <= pri_insitu(pv, us, f) <= pv, 0real <= pri_cogen(pv, chp, us, f) <= chp,
            pri_insitu(pv, us, f) + pri_cogen(pv, chp, us, f) <= rmin(us, pv + chp),
            // cogenerated electricity is used only once the on-site production of the step is fully allocated (C12)
            pri_cogen(pv, chp, us, f) > 0real ==> pri_insitu(pv, us, f) == pv * f,
{
    let a = rmin(pv, us);
    let b = rmin(chp, us - a);
    lemma_scale01(a, f);
    lemma_scale01(b, f);
    assert((a + b) * f == a * f + b * f) by(nonlinear_arith);
    lemma_scale01(a + b, f);
    if b * f > 0real { assert(b > 0real) by(nonlinear_arith) requires b * f > 0real, b >= 0real, 0real <= f <= 1real; }
}
pub proof fn lemma_nopri_bounds(us: real, f: real, p1: real, p2: real, p3: real, p4: real)
    requires us >= 0real, 0real <= f <= 1real, p1 >= 0real, p2 >= 0real, p3 >= 0real, p4 >= 0real,
             (p1 + p2 + p3 + p4 == 0real || p1 + p2 + p3 + p4 > 1real / 1000real),
    ensures ({
        let pt = p1 + p2 + p3 + p4; let e = f * rmin(us, pt);
        &&& 0real <= e <= rmin(us, pt)
        &&& 0real <= e * fsrc(p1, pt) <= p1 && 0real <= e * fsrc(p2, pt) <= p2 && 0real <= e * fsrc(p3, pt) <= p3 && 0real <= e * fsrc(p4, pt) <= p4
        &&& e * fsrc(p1, pt) + e * fsrc(p2, pt) + e * fsrc(p3, pt) + e * fsrc(p4, pt) == e
    }),
{
    let pt = p1 + p2 + p3 + p4;
    let m = rmin(us, pt);
    let e = f * m;
    lemma_scale01(m, f);
    if pt > 1real / 1000real {
        let q1 = p1 / pt; let q2 = p2 / pt; let q3 = p3 / pt; let q4 = p4 / pt;
        assert(0real <= q1 && 0real <= q2 && 0real <= q3 && 0real <= q4 && q1 + q2 + q3 + q4 == 1real
               && q1 * pt == p1 && q2 * pt == p2 && q3 * pt == p3 && q4 * pt == p4) by(nonlinear_arith)
            requires pt > 0real, p1 >= 0real, p2 >= 0real, p3 >= 0real, p4 >= 0real, pt == p1 + p2 + p3 + p4,
                     q1 == p1 / pt, q2 == p2 / pt, q3 == p3 / pt, q4 == p4 / pt;
        assert(e * q1 + e * q2 + e * q3 + e * q4 == e) by(nonlinear_arith) requires q1 + q2 + q3 + q4 == 1real;
        assert(0real <= e * q1 <= p1) by(nonlinear_arith) requires 0real <= e <= pt, q1 >= 0real, q1 * pt == p1;
        assert(0real <= e * q2 <= p2) by(nonlinear_arith) requires 0real <= e <= pt, q2 >= 0real, q2 * pt == p2;
        assert(0real <= e * q3 <= p3) by(nonlinear_arith) requires 0real <= e <= pt, q3 >= 0real, q3 * pt == p3;
        assert(0real <= e * q4 <= p4) by(nonlinear_arith) requires 0real <= e <= pt, q4 >= 0real, q4 * pt == p4;
    } else {
        assert(e == 0real);
        assert(e * fsrc(p1, pt) == 0real && e * fsrc(p2, pt) == 0real && e * fsrc(p3, pt) == 0real && e * fsrc(p4, pt) == 0real) by(nonlinear_arith) requires e == 0real;
    }
}
/// EPB use by service adds up to the EPB use (C04)
pub proof fn lemma_acc_by_srv(cs: Seq<Energy>, i: int)
    ensures acc(cs, Sel::Epus, i) == acc(cs, Sel::EpusSrv(Service::ACS), i) + acc(cs, Sel::EpusSrv(Service::CAL), i) + acc(cs, Sel::EpusSrv(Service::REF), i)
        + acc(cs, Sel::EpusSrv(Service::VEN), i) + acc(cs, Sel::EpusSrv(Service::ILU), i) + acc(cs, Sel::EpusSrv(Service::NEPB), i) + acc(cs, Sel::EpusSrv(Service::COGEN), i),
    decreases cs.len(),
{
    if cs.len() > 0 { lemma_acc_by_srv(cs.drop_last(), i); }
}
/// value at step i of the vector stored for service s (0 when absent)
pub open spec fn mvs(m: Map<Service, Vec<f32>>, s: Service, i: int) -> real { if m.contains_key(s) { rv(m[s]@[i]) } else { 0real } }
pub open spec fn all_srv_sum(m: Map<Service, Vec<f32>>, i: int) -> real {
    mvs(m, Service::ACS, i) + mvs(m, Service::CAL, i) + mvs(m, Service::REF, i) + mvs(m, Service::VEN, i) + mvs(m, Service::ILU, i) + mvs(m, Service::NEPB, i) + mvs(m, Service::COGEN, i)
}

/// from the functional postconditions of compute_used_produced to the direct statements of C01 / C12 / C04
pub open spec fn cup_functional(cs: Seq<Energy>, lm: bool, carrier: Carrier, n: nat, epus: Seq<f32>, nepus: Seq<f32>, cgn: Seq<f32>, by_srv: Map<Service, Vec<f32>>,
    pr: Seq<f32>, prj: Map<ProdSource, Vec<f32>>, us: Seq<f32>, usj: Map<ProdSource, Vec<f32>>, fm: Seq<f32>) -> bool {
    &&& wf_list(cs, n) && same_carrier(cs, carrier)
    &&& epus.len() == n && nepus.len() == n && cgn.len() == n && pr.len() == n && us.len() == n && fm.len() == n
    &&& mapv_len(by_srv, n) && mapv_len(prj, n) && mapv_len(usj, n)
    &&& (forall|i: int| 0 <= i < n ==> rv(#[trigger] epus[i]) == acc(cs, Sel::Epus, i))
    &&& (forall|i: int| 0 <= i < n ==> rv(#[trigger] nepus[i]) == acc(cs, Sel::Nepus, i))
    &&& (forall|i: int| 0 <= i < n ==> rv(#[trigger] cgn[i]) == acc(cs, Sel::Cgn, i))
    &&& (forall|s: Service| #[trigger] by_srv.contains_key(s) == any_sel(cs, Sel::EpusSrv(s)))
    &&& (forall|s: Service, i: int| by_srv.contains_key(s) && 0 <= i < n ==> rv(#[trigger] by_srv[s]@[i]) == acc(cs, Sel::EpusSrv(s), i))
    &&& (forall|s: ProdSource| #[trigger] prj.contains_key(s) == any_sel(cs, Sel::Prod(s)))
    &&& (forall|s: ProdSource, i: int| prj.contains_key(s) && 0 <= i < n ==> rv(#[trigger] prj[s]@[i]) == acc(cs, Sel::Prod(s), i))
    &&& (forall|i: int| 0 <= i < n ==> rv(#[trigger] pr[i]) == all_src_sum(prj, i))
    &&& (forall|i: int| 0 <= i < n ==> rv(#[trigger] fm[i]) == fmatch(lm, rv(pr[i]), rv(epus[i])))
    &&& (pri(carrier, prj) ==> usj.dom() =~= set![ProdSource::EL_INSITU, ProdSource::EL_COGEN]
            && (forall|i: int| 0 <= i < n ==> rv(#[trigger] usj[ProdSource::EL_INSITU]@[i]) == pri_insitu(rv(prj[ProdSource::EL_INSITU]@[i]), rv(epus[i]), rv(fm[i])))
            && (forall|i: int| 0 <= i < n ==> rv(#[trigger] usj[ProdSource::EL_COGEN]@[i]) == pri_cogen(rv(prj[ProdSource::EL_INSITU]@[i]), rv(prj[ProdSource::EL_COGEN]@[i]), rv(epus[i]), rv(fm[i])))
            && (forall|i: int| 0 <= i < n ==> rv(#[trigger] us[i]) == rv(usj[ProdSource::EL_INSITU]@[i]) + rv(usj[ProdSource::EL_COGEN]@[i])))
    &&& (!pri(carrier, prj) ==> usj.dom() =~= prj.dom()
            && (forall|i: int| 0 <= i < n ==> rv(#[trigger] us[i]) == rv(fm[i]) * rmin(rv(epus[i]), rv(pr[i])))
            && (forall|s: ProdSource, i: int| prj.contains_key(s) && 0 <= i < n ==> rv(#[trigger] usj[s]@[i]) == rv(us[i]) * fsrc(rv(prj[s]@[i]), rv(pr[i]))))
}
pub open spec fn cup_direct(cs: Seq<Energy>, carrier: Carrier, n: nat, epus: Seq<f32>, nepus: Seq<f32>, cgn: Seq<f32>, by_srv: Map<Service, Vec<f32>>,
    pr: Seq<f32>, prj: Map<ProdSource, Vec<f32>>, us: Seq<f32>, usj: Map<ProdSource, Vec<f32>>, fm: Seq<f32>) -> bool {
    let dom_ok = forall|i: int| 0 <= i < n ==> rv(#[trigger] pr[i]) == 0real || rv(pr[i]) > 1real / 1000real;
    &&& (forall|i: int| 0 <= i < n ==> 1real / 2real <= rv(#[trigger] fm[i]) <= 1real)
    &&& (forall|i: int| 0 <= i < n ==> rv(#[trigger] epus[i]) == all_srv_sum(by_srv, i))
    &&& (nonneg_list(cs) ==> forall|i: int| 0 <= i < n ==>
            rv(#[trigger] epus[i]) >= 0real && rv(nepus[i]) >= 0real && rv(cgn[i]) >= 0real && rv(pr[i]) >= 0real
            && mv(prj, ProdSource::EL_INSITU, i) >= 0real && mv(prj, ProdSource::EL_COGEN, i) >= 0real
            && mv(prj, ProdSource::TERMOSOLAR, i) >= 0real && mv(prj, ProdSource::EAMBIENTE, i) >= 0real)
    &&& (nonneg_list(cs) && dom_ok ==> forall|i: int| 0 <= i < n ==>
            0real <= rv(#[trigger] us[i]) <= rmin(rv(epus[i]), rv(pr[i]))
            && all_src_sum(usj, i) == rv(us[i])
            && 0real <= mv(usj, ProdSource::EL_INSITU, i) <= mv(prj, ProdSource::EL_INSITU, i)
            && 0real <= mv(usj, ProdSource::EL_COGEN, i) <= mv(prj, ProdSource::EL_COGEN, i)
            && 0real <= mv(usj, ProdSource::TERMOSOLAR, i) <= mv(prj, ProdSource::TERMOSOLAR, i)
            && 0real <= mv(usj, ProdSource::EAMBIENTE, i) <= mv(prj, ProdSource::EAMBIENTE, i))
    &&& (nonneg_list(cs) && pri(carrier, prj) ==> forall|i: int| 0 <= i < n ==>
            (rv(#[trigger] usj[ProdSource::EL_COGEN]@[i]) > 0real ==> rv(usj[ProdSource::EL_INSITU]@[i]) == rv(prj[ProdSource::EL_INSITU]@[i]) * rv(fm[i])))
}
pub proof fn lemma_cup_direct(cs: Seq<Energy>, lm: bool, carrier: Carrier, n: nat, epus: Seq<f32>, nepus: Seq<f32>, cgn: Seq<f32>, by_srv: Map<Service, Vec<f32>>,
    pr: Seq<f32>, prj: Map<ProdSource, Vec<f32>>, us: Seq<f32>, usj: Map<ProdSource, Vec<f32>>, fm: Seq<f32>)
    requires cup_functional(cs, lm, carrier, n, epus, nepus, cgn, by_srv, pr, prj, us, usj, fm),
    ensures cup_direct(cs, carrier, n, epus, nepus, cgn, by_srv, pr, prj, us, usj, fm),
{
        let cs_ = cs;
        let n_ = n;
        assert forall|i: int| 0 <= i < n implies 1real / 2real <= rv(#[trigger] fm[i]) <= 1real by {
            lemma_fmatch_range(lm, rv(pr[i]), rv(epus[i]));
        }
        assert forall|i: int| 0 <= i < n implies rv(#[trigger] epus[i]) == all_srv_sum(by_srv, i) by {
            lemma_acc_by_srv(cs_, i);
            assert forall|s: Service| !by_srv.contains_key(s) implies acc(cs_, Sel::EpusSrv(s), i) == 0real by { lemma_acc_zero(cs_, Sel::EpusSrv(s), i); }
        }
        if nonneg_list(cs_) {
            assert forall|i: int, k: Sel| 0 <= i < n implies #[trigger] acc(cs_, k, i) >= 0real by { lemma_acc_nonneg(cs_, k, i, n_); }
            assert forall|i: int| 0 <= i < n implies
                rv(#[trigger] epus[i]) >= 0real && rv(nepus[i]) >= 0real && rv(cgn[i]) >= 0real && rv(pr[i]) >= 0real
                && mv(prj, ProdSource::EL_INSITU, i) >= 0real && mv(prj, ProdSource::EL_COGEN, i) >= 0real
                && mv(prj, ProdSource::TERMOSOLAR, i) >= 0real && mv(prj, ProdSource::EAMBIENTE, i) >= 0real by {
                assert(acc(cs_, Sel::Epus, i) >= 0real && acc(cs_, Sel::Nepus, i) >= 0real && acc(cs_, Sel::Cgn, i) >= 0real);
                assert(acc(cs_, Sel::Prod(ProdSource::EL_INSITU), i) >= 0real && acc(cs_, Sel::Prod(ProdSource::EL_COGEN), i) >= 0real
                    && acc(cs_, Sel::Prod(ProdSource::TERMOSOLAR), i) >= 0real && acc(cs_, Sel::Prod(ProdSource::EAMBIENTE), i) >= 0real);
            }
            if forall|i: int| 0 <= i < n ==> rv(#[trigger] pr[i]) == 0real || rv(pr[i]) > 1real / 1000real {
                assert forall|i: int| 0 <= i < n implies
                    0real <= rv(#[trigger] us[i]) <= rmin(rv(epus[i]), rv(pr[i]))
                    && all_src_sum(usj, i) == rv(us[i])
                    && 0real <= mv(usj, ProdSource::EL_INSITU, i) <= mv(prj, ProdSource::EL_INSITU, i)
                    && 0real <= mv(usj, ProdSource::EL_COGEN, i) <= mv(prj, ProdSource::EL_COGEN, i)
                    && 0real <= mv(usj, ProdSource::TERMOSOLAR, i) <= mv(prj, ProdSource::TERMOSOLAR, i)
                    && 0real <= mv(usj, ProdSource::EAMBIENTE, i) <= mv(prj, ProdSource::EAMBIENTE, i) by {
                    let f_ = rv(fm[i]); let us_ = rv(epus[i]);
                    let p1 = mv(prj, ProdSource::EL_INSITU, i); let p2 = mv(prj, ProdSource::EL_COGEN, i);
                    let p3 = mv(prj, ProdSource::TERMOSOLAR, i); let p4 = mv(prj, ProdSource::EAMBIENTE, i);
                    assert(1real / 2real <= f_ <= 1real);
                    assert(rv(pr[i]) == p1 + p2 + p3 + p4);
                    if pri(carrier, prj) {
                        assert forall|s: ProdSource| prj.contains_key(s) implies s == ProdSource::EL_INSITU || s == ProdSource::EL_COGEN by {
                            lemma_has_prod_carrier(cs_, carrier, s);
                        }
                        lemma_pri_bounds(p1, p2, us_, f_);
                    } else {
                        lemma_nopri_bounds(us_, f_, p1, p2, p3, p4);
                    }
                }
            }
            if pri(carrier, prj) {
                assert forall|i: int| 0 <= i < n implies
                    (rv(#[trigger] usj[ProdSource::EL_COGEN]@[i]) > 0real ==>
                        rv(usj[ProdSource::EL_INSITU]@[i]) == rv(prj[ProdSource::EL_INSITU]@[i]) * rv(fm[i])) by {
                    assert(1real / 2real <= rv(fm[i]) <= 1real);
                    lemma_pri_bounds(rv(prj[ProdSource::EL_INSITU]@[i]), rv(prj[ProdSource::EL_COGEN]@[i]), rv(epus[i]), rv(fm[i]));
                }
            }
        }
}
