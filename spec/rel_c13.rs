// ---- C13 (range sentence): with non-negative inputs, k_exp = 0 and weighting factors of the regulatory shape the whole-building
// weighted energy has non-negative renewable and non-renewable parts, hence the reported RER is a proper fraction. Theorems over the
// PROVED contracts of the real functions (bundles cup_post / ced_post / cwe_post / ep_post); ghost code only.

// ------------------------------------------------------------------------------------------------ sums of a function of the step
pub open spec fn fsum(f: spec_fn(int) -> real, n: int) -> real decreases n { if n <= 0 { 0real } else { fsum(f, n - 1) + f(n - 1) } }
pub proof fn lemma_fsum_sumf(v: Seq<f32>, f: spec_fn(int) -> real)
    requires forall|i: int| 0 <= i < v.len() ==> #[trigger] f(i) == rv(v[i]),
    ensures sumf(v) == fsum(f, v.len() as int),
    decreases v.len(),
{
    if v.len() > 0 {
        let w = v.drop_last();
        assert forall|i: int| 0 <= i < w.len() implies #[trigger] f(i) == rv(w[i]) by { assert(w[i] == v[i]); }
        lemma_fsum_sumf(w, f);
        assert(f(v.len() - 1) == rv(v[v.len() - 1]));
    }
}
pub proof fn lemma_fsum_zero(f: spec_fn(int) -> real, n: int)
    requires forall|i: int| 0 <= i < n ==> #[trigger] f(i) == 0real,
    ensures fsum(f, n) == 0real,
    decreases n,
{
    if n > 0 { lemma_fsum_zero(f, n - 1); assert(f(n - 1) == 0real); }
}
pub proof fn lemma_fsum_add3(f1: spec_fn(int) -> real, f2: spec_fn(int) -> real, f3: spec_fn(int) -> real, g: spec_fn(int) -> real, n: int)
    requires forall|i: int| 0 <= i < n ==> #[trigger] g(i) == f1(i) + f2(i) + f3(i),
    ensures fsum(g, n) == fsum(f1, n) + fsum(f2, n) + fsum(f3, n),
    decreases n,
{
    if n > 0 { lemma_fsum_add3(f1, f2, f3, g, n - 1); assert(g(n - 1) == f1(n - 1) + f2(n - 1) + f3(n - 1)); }
}
pub proof fn lemma_sumf_ge0(v: Seq<f32>)
    requires forall|i: int| 0 <= i < v.len() ==> rv(#[trigger] v[i]) >= 0real,
    ensures sumf(v) >= 0real,
    decreases v.len(),
{
    if v.len() > 0 {
        assert forall|i: int| 0 <= i < v.drop_last().len() implies rv(#[trigger] v.drop_last()[i]) >= 0real by { assert(v.drop_last()[i] == v[i]); }
        lemma_sumf_ge0(v.drop_last());
        assert(rv(v[v.len() - 1]) >= 0real);
    }
}

// ------------------------------------------------------------------------------------------------ annual flows of one carrier
/// no step at which the carrier's total production lies in (0, 0.001]: below that threshold the code does not split the used
/// production by source (C01.used_le_min / C01.src_split carry the same hypothesis)
pub open spec fn clear_prod(t: Seq<f32>) -> bool {
    forall|i: int| 0 <= i < t.len() ==> rv(#[trigger] t[i]) == 0real || rv(t[i]) > 1real / 1000real
}
pub open spec fn clear_run(a: Run) -> bool { clear_prod(a.prod.t@) }
/// annual production of source s (0 when the carrier has none)
pub open spec fn psv(a: Run, s: ProdSource) -> real { if a.prod.by_src_t@.contains_key(s) { sumf(a.prod.by_src_t@[s]@) } else { 0real } }
/// annual exported energy that comes from source s
pub open spec fn esv(a: Run, s: ProdSource) -> real { mval(a.exp.by_src_an@, s) }
pub open spec fn c13_flows(a: Run) -> bool {
    &&& (forall|s: ProdSource| 0real <= #[trigger] esv(a, s) <= psv(a, s))
    &&& rv(a.del.onst_an) == psv(a, ProdSource::EL_INSITU) + psv(a, ProdSource::TERMOSOLAR) + psv(a, ProdSource::EAMBIENTE)
    &&& rv(a.del.grid_an) >= 0real && rv(a.exp.nepus_an) >= 0real && rv(a.exp.grid_an) >= 0real && rv(a.used.cgnus_an) >= 0real
    &&& rv(a.exp.an) == rv(a.exp.nepus_an) + rv(a.exp.grid_an)
    &&& rv(a.del.cgn_an) == rv(a.used.cgnus_an)
}
#[verifier::spinoff_prover]
pub proof fn lemma_c13_flows(a: Run, lm: bool)
    requires run_ok(a, lm), nonneg_list(a.cs), wf_list(a.cs, run_n(a) as nat), clear_run(a),
    ensures c13_flows(a),
{
    let n = run_n(a);
    let m = a.prod.by_src_t@; let mu = a.prod.epus_by_src_t@; let me = a.exp.by_src_t@;
    assert(flows_shape(a.used, a.prod));
    // per-step signs
    assert forall|i: int| 0 <= i < n implies 0real <= rv(#[trigger] a.prod.epus_t@[i]) <= rmin(rv(a.used.epus_t@[i]), rv(a.prod.t@[i])) && rv(a.used.nepus_t@[i]) >= 0real by {
        assert(rv(a.used.epus_t@[i]) >= 0real);
    }
    assert forall|i: int| 0 <= i < n implies rv(#[trigger] a.exp.t@[i]) >= 0real && rv(a.exp.nepus_t@[i]) >= 0real && rv(a.exp.grid_t@[i]) >= 0real && rv(a.del.grid_t@[i]) >= 0real by {}
    assert(a.exp.nepus_t@.len() == n && a.exp.grid_t@.len() == n && a.del.grid_t@.len() == n && a.used.cgnus_t@.len() == n);
    assert forall|i: int| 0 <= i < a.exp.nepus_t@.len() implies rv(#[trigger] a.exp.nepus_t@[i]) >= 0real by { assert(rv(a.exp.t@[i]) >= 0real); }
    assert forall|i: int| 0 <= i < a.exp.grid_t@.len() implies rv(#[trigger] a.exp.grid_t@[i]) >= 0real by { assert(rv(a.exp.t@[i]) >= 0real); }
    assert forall|i: int| 0 <= i < a.del.grid_t@.len() implies rv(#[trigger] a.del.grid_t@[i]) >= 0real by { assert(rv(a.exp.t@[i]) >= 0real); }
    assert forall|i: int| 0 <= i < a.used.cgnus_t@.len() implies rv(#[trigger] a.used.cgnus_t@[i]) >= 0real by { assert(rv(a.used.epus_t@[i]) >= 0real); }
    lemma_sumf_ge0(a.exp.nepus_t@); lemma_sumf_ge0(a.exp.grid_t@); lemma_sumf_ge0(a.del.grid_t@); lemma_sumf_ge0(a.used.cgnus_t@);
    // exported by source: between 0 and the production of the source
    assert forall|s: ProdSource| 0real <= #[trigger] esv(a, s) <= psv(a, s) by {
        assert(a.exp.by_src_an@.contains_key(s) == m.contains_key(s));
        if m.contains_key(s) {
            assert(mu.contains_key(s) && me.contains_key(s));
            let ve = me[s]@; let vp = m[s]@;
            assert(ve.len() == n && vp.len() == n);
            assert forall|i: int| 0 <= i < ve.len() implies 0real <= rv(#[trigger] ve[i]) && rv(ve[i]) <= rv(vp[i]) by {
                assert(rv(a.used.epus_t@[i]) >= 0real);
                assert(rv(a.prod.epus_t@[i]) >= 0real);
                assert(all_src_sum(mu, i) == rv(a.prod.epus_t@[i]));
                assert(rv(me[s]@[i]) == rv(m[s]@[i]) - rv(mu[s]@[i]));
                assert(mv(mu, s, i) == rv(mu[s]@[i]) && mv(m, s, i) == rv(m[s]@[i]));
                match s {
                    ProdSource::EL_INSITU => { assert(0real <= mv(mu, ProdSource::EL_INSITU, i) <= mv(m, ProdSource::EL_INSITU, i)); }
                    ProdSource::EL_COGEN => { assert(0real <= mv(mu, ProdSource::EL_COGEN, i) <= mv(m, ProdSource::EL_COGEN, i)); }
                    ProdSource::TERMOSOLAR => { assert(0real <= mv(mu, ProdSource::TERMOSOLAR, i) <= mv(m, ProdSource::TERMOSOLAR, i)); }
                    ProdSource::EAMBIENTE => { assert(0real <= mv(mu, ProdSource::EAMBIENTE, i) <= mv(m, ProdSource::EAMBIENTE, i)); }
                }
            }
            lemma_sumf_ge0(ve); lemma_sumf_le(ve, vp);
            assert(rv(a.exp.by_src_an@[s]) == sumf(ve));
        }
    }
    // on-site delivery = production of the three on-site sources
    let f1 = |i: int| mv(m, ProdSource::EL_INSITU, i); let f2 = |i: int| mv(m, ProdSource::TERMOSOLAR, i); let f3 = |i: int| mv(m, ProdSource::EAMBIENTE, i);
    let g = |i: int| onsite_sum(m, i);
    assert(a.del.onst_t@.len() == n);
    assert forall|i: int| 0 <= i < a.del.onst_t@.len() implies #[trigger] g(i) == rv(a.del.onst_t@[i]) by {}
    lemma_fsum_sumf(a.del.onst_t@, g);
    assert forall|i: int| 0 <= i < n implies #[trigger] g(i) == f1(i) + f2(i) + f3(i) by {}
    lemma_fsum_add3(f1, f2, f3, g, n);
    lemma_c13_psv(a, ProdSource::EL_INSITU, f1); lemma_c13_psv(a, ProdSource::TERMOSOLAR, f2); lemma_c13_psv(a, ProdSource::EAMBIENTE, f3);
}
pub proof fn lemma_c13_psv(a: Run, s: ProdSource, f: spec_fn(int) -> real)
    requires mapv_len(a.prod.by_src_t@, a.prod.t@.len()), forall|i: int| #[trigger] f(i) == mv(a.prod.by_src_t@, s, i),
    ensures fsum(f, run_n(a)) == psv(a, s),
{
    let m = a.prod.by_src_t@;
    if m.contains_key(s) {
        assert(m[s]@.len() == run_n(a));
        assert forall|i: int| 0 <= i < m[s]@.len() implies #[trigger] f(i) == rv(m[s]@[i]) by { assert(f(i) == mv(m, s, i)); }
        lemma_fsum_sumf(m[s]@, f);
    } else {
        assert forall|i: int| 0 <= i < run_n(a) implies #[trigger] f(i) == 0real by { assert(f(i) == mv(m, s, i)); }
        lemma_fsum_zero(f, run_n(a));
    }
}

// ------------------------------------------------------------------------------------------------ weighted energy of one carrier
/// renewable (x == 0) or non-renewable (x != 0) part
pub open spec fn px(r: R3, x: int) -> real { if x == 0 { r.ren } else { r.nren } }
pub proof fn lemma_c13_term(e: real, en: real, f: real, fx: real)
    requires en > 0real, e >= 0real, f <= fx,
    ensures en * ((e / en) * f) == e * f, e * f <= e * fx,
{
    assert(en * (e / en) == e) by(nonlinear_arith) requires en > 0real;
    assert(en * ((e / en) * f) == (en * (e / en)) * f) by(nonlinear_arith);
    assert(e * f <= e * fx) by(nonlinear_arith) requires e >= 0real, f <= fx;
}
/// the exported-energy average factor, times the exported energy, is at most  (on-site exports) x F + (cogenerated exports) x G
pub proof fn lemma_c13_favg(w: Seq<Factor>, c: Carrier, m: Map<ProdSource, f32>, en: real, d: Dest, x: int, fx: real, gx: real)
    requires en > 0real, forall|s: ProdSource| #[trigger] mval(m, s) >= 0real,
             px(fp(w, c, Source::INSITU, d, Step::A), x) <= fx,
             m.contains_key(ProdSource::EL_COGEN) ==> px(fp(w, c, Source::COGEN, d, Step::A), x) == gx,
    ensures en * px(favg(w, c, m, en, d, Step::A), x)
            <= (mval(m, ProdSource::EL_INSITU) + mval(m, ProdSource::TERMOSOLAR) + mval(m, ProdSource::EAMBIENTE)) * fx + mval(m, ProdSource::EL_COGEN) * gx,
{
    let fi = px(fp(w, c, Source::INSITU, d, Step::A), x);
    let fc = px(fp(w, c, Source::COGEN, d, Step::A), x);
    let t1 = px(favg_term(w, c, m, en, d, Step::A, ProdSource::EL_INSITU), x);
    let t2 = px(favg_term(w, c, m, en, d, Step::A, ProdSource::EL_COGEN), x);
    let t3 = px(favg_term(w, c, m, en, d, Step::A, ProdSource::TERMOSOLAR), x);
    let t4 = px(favg_term(w, c, m, en, d, Step::A, ProdSource::EAMBIENTE), x);
    let e1 = mval(m, ProdSource::EL_INSITU); let e2 = mval(m, ProdSource::EL_COGEN); let e3 = mval(m, ProdSource::TERMOSOLAR); let e4 = mval(m, ProdSource::EAMBIENTE);
    assert(e1 >= 0real && e2 >= 0real && e3 >= 0real && e4 >= 0real);
    lemma_mul0(en); lemma_mul0(fx); lemma_mul0(gx);
    assert(en * t1 <= e1 * fx) by {
        if m.contains_key(ProdSource::EL_INSITU) { assert(t1 == (e1 / en) * fi); lemma_c13_term(e1, en, fi, fx); } else { assert(t1 == 0real && e1 == 0real); }
    }
    assert(en * t3 <= e3 * fx) by {
        if m.contains_key(ProdSource::TERMOSOLAR) { assert(t3 == (e3 / en) * fi); lemma_c13_term(e3, en, fi, fx); } else { assert(t3 == 0real && e3 == 0real); }
    }
    assert(en * t4 <= e4 * fx) by {
        if m.contains_key(ProdSource::EAMBIENTE) { assert(t4 == (e4 / en) * fi); lemma_c13_term(e4, en, fi, fx); } else { assert(t4 == 0real && e4 == 0real); }
    }
    assert(en * t2 == e2 * gx) by {
        if m.contains_key(ProdSource::EL_COGEN) { assert(t2 == (e2 / en) * fc); lemma_c13_term(e2, en, fc, gx); } else { assert(t2 == 0real && e2 == 0real); }
    }
    assert(px(favg(w, c, m, en, d, Step::A), x) == t1 + t2 + t3 + t4);
    lemma_dist4(en, t1, t2, t3, t4);
    lemma_pd3b(fx, e1, e3, e4);
}
pub proof fn lemma_pd3b(a: real, c1: real, c2: real, c3: real) ensures (c1 + c2 + c3) * a == c1 * a + c2 * a + c3 * a {
    assert((c1 + c2 + c3) * a == c1 * a + c2 * a + c3 * a) by(nonlinear_arith);
}
/// a mixture with weights a + b = en of two quantities bounded (after multiplying by en) by bb is bounded by bb
pub proof fn lemma_c13_mix(a: real, b: real, en: real, p: real, q: real, bb: real)
    requires en > 0real, a >= 0real, b >= 0real, a + b == en, en * p <= bb, en * q <= bb,
    ensures a * p + b * q <= bb,
{
    assert(a * (en * p) <= a * bb) by(nonlinear_arith) requires a >= 0real, en * p <= bb;
    assert(b * (en * q) <= b * bb) by(nonlinear_arith) requires b >= 0real, en * q <= bb;
    assert(a * (en * p) == en * (a * p) && b * (en * q) == en * (b * q)) by(nonlinear_arith);
    assert(a * bb + b * bb == en * bb) by(nonlinear_arith) requires a + b == en;
    assert(en * (a * p) + en * (b * q) == en * (a * p + b * q)) by(nonlinear_arith);
    let z = a * p + b * q;
    assert(en * z <= en * bb);
    assert(z <= bb) by(nonlinear_arith) requires en > 0real, en * z <= en * bb;
}
/// the factors of carrier c have the shape C13 needs (x: renewable / non-renewable part): non-negative, and exporting on-site production
/// at step A is not weighted above the factor with which that production was counted as delivered; G is the (derived) factor of
/// exported cogenerated electricity
pub open spec fn c13_shape(wf: Seq<Factor>, c: Carrier, x: int, gx: real, has_cgn: bool) -> bool {
    &&& px(fgrid(wf, c), x) >= 0real
    &&& px(fp(wf, c, Source::INSITU, Dest::SUMINISTRO, Step::A), x) >= 0real
    &&& px(fp(wf, c, Source::INSITU, Dest::A_NEPB, Step::A), x) <= px(fp(wf, c, Source::INSITU, Dest::SUMINISTRO, Step::A), x)
    &&& px(fp(wf, c, Source::INSITU, Dest::A_RED, Step::A), x) <= px(fp(wf, c, Source::INSITU, Dest::SUMINISTRO, Step::A), x)
    &&& gx >= 0real
    &&& (has_cgn ==> px(fp(wf, c, Source::COGEN, Dest::A_NEPB, Step::A), x) == gx && px(fp(wf, c, Source::COGEN, Dest::A_RED, Step::A), x) == gx)
}
/// C13 for one carrier: with k_exp = 0 the weighted energy (step B = step A) is at least
///   cogeneration input x grid factor  -  exported cogenerated electricity x G
#[verifier::spinoff_prover]
pub proof fn lemma_c13_carrier(wf: Seq<Factor>, c: Carrier, a: Run, we: WeightedEnergy, x: int, gx: real)
    requires c13_flows(a), a.exp.by_src_an@.dom() =~= a.prod.by_src_t@.dom(),
             cwe_post(wf, c, 0real, a.used, a.exp, a.del, Ok(we)),
             c13_shape(wf, c, x, gx, a.exp.by_src_an@.contains_key(ProdSource::EL_COGEN)),
    ensures px(r3v(we.b), x) >= rv(a.used.cgnus_an) * px(fgrid(wf, c), x) - esv(a, ProdSource::EL_COGEN) * gx,
{
    let exp = a.exp; let del = a.del; let m = exp.by_src_an@;
    let en = rv(exp.an); let nn = rv(exp.nepus_an); let rr = rv(exp.grid_an);
    let fg = px(fgrid(wf, c), x);
    let fx = px(fp(wf, c, Source::INSITU, Dest::SUMINISTRO, Step::A), x);
    let ecg = esv(a, ProdSource::EL_COGEN);
    let e1 = esv(a, ProdSource::EL_INSITU); let e3 = esv(a, ProdSource::TERMOSOLAR); let e4 = esv(a, ProdSource::EAMBIENTE);
    let ons = rv(del.onst_an); let cg = rv(a.used.cgnus_an); let gr = rv(del.grid_an);
    assert(0real <= ecg <= psv(a, ProdSource::EL_COGEN));
    assert(0real <= e1 <= psv(a, ProdSource::EL_INSITU) && 0real <= e3 <= psv(a, ProdSource::TERMOSOLAR) && 0real <= e4 <= psv(a, ProdSource::EAMBIENTE));
    assert(r3v(we.b) == we_b(wf, c, exp, del, 0real));
    // delivered
    let d = we_del(wf, c, del);
    lemma_mul0(fx); lemma_mul0(fg); lemma_mul0(gx);
    assert(px(we_del_onst(wf, c, del), x) == ons * fx);
    assert(px(d, x) == gr * fg + ons * fx + cg * fg);
    assert(gr * fg >= 0real) by(nonlinear_arith) requires gr >= 0real, fg >= 0real;
    assert(ecg * gx >= 0real) by(nonlinear_arith) requires ecg >= 0real, gx >= 0real;
    assert(ons * fx >= 0real) by(nonlinear_arith) requires ons >= 0real, fx >= 0real;
    if en == 0real {
        assert(we_exp(wf, c, exp, 0real) == r3z());
    } else {
        assert(en > 0real);
        let pn = px(favg(wf, c, m, en, Dest::A_NEPB, Step::A), x);
        let pr = px(favg(wf, c, m, en, Dest::A_RED, Step::A), x);
        let bb = (e1 + e3 + e4) * fx + ecg * gx;
        assert forall|s: ProdSource| #[trigger] mval(m, s) >= 0real by { assert(esv(a, s) >= 0real); }
        lemma_c13_favg(wf, c, m, en, Dest::A_NEPB, x, fx, gx);
        lemma_c13_favg(wf, c, m, en, Dest::A_RED, x, fx, gx);
        lemma_c13_mix(nn, rr, en, pn, pr, bb);
        // the exported energy weighted at step A, k_exp = 0
        let ea = we_exp_a(wf, c, exp);
        assert(px(we_exp_nepus_a(wf, c, exp), x) == nn * pn) by { if nn == 0real { lemma_mul0(pn); } }
        assert(px(we_exp_grid_a(wf, c, exp), x) == rr * pr) by { if rr == 0real { lemma_mul0(pr); } }
        assert(px(ea, x) == nn * pn + rr * pr);
        let eab = we_exp_ab(wf, c, exp);
        lemma_mul0(eab.ren); lemma_mul0(eab.nren); lemma_mul0(eab.co2);
        assert(px(we_exp(wf, c, exp, 0real), x) == px(ea, x));
        assert((e1 + e3 + e4) * fx <= ons * fx) by(nonlinear_arith) requires e1 + e3 + e4 <= ons, fx >= 0real;
    }
}

// ------------------------------------------------------------------------------------------------ the whole building
/// classified sums of the components of carrier c, seen from the whole list
pub proof fn lemma_acc_filter(cs: Seq<Energy>, c: Carrier, k: Sel, k2: Sel, i: int)
    requires forall|e: Energy| #[trigger] sel(k2, e) == (e_has_carrier(e, c) && sel(k, e)),
    ensures acc(filter_carrier(cs, c), k, i) == acc(cs, k2, i), any_sel(filter_carrier(cs, c), k) == any_sel(cs, k2),
    decreases cs.len(),
{
    if cs.len() > 0 {
        lemma_acc_filter(cs.drop_last(), c, k, k2, i);
        let e = cs.last(); let r = filter_carrier(cs.drop_last(), c);
        assert(sel(k2, e) == (e_has_carrier(e, c) && sel(k, e)));
        if e_has_carrier(e, c) { assert(r.push(e).drop_last() =~= r); assert(r.push(e).last() == e); }
    }
}
pub proof fn lemma_acc_an_filter(cs: Seq<Energy>, c: Carrier, k: Sel, k2: Sel, n: int)
    requires forall|e: Energy| #[trigger] sel(k2, e) == (e_has_carrier(e, c) && sel(k, e)),
    ensures acc_an(filter_carrier(cs, c), k, n) == acc_an(cs, k2, n),
    decreases n,
{
    if n > 0 { lemma_acc_an_filter(cs, c, k, k2, n - 1); lemma_acc_filter(cs, c, k, k2, n - 1); }
}
pub proof fn lemma_acc_an_nonneg(cs: Seq<Energy>, k: Sel, n: int, nn: nat)
    requires nonneg_list(cs), wf_list(cs, nn), n <= nn,
    ensures acc_an(cs, k, n) >= 0real,
    decreases n,
{
    if n > 0 { lemma_acc_an_nonneg(cs, k, n - 1, nn); lemma_acc_nonneg(cs, k, n - 1, nn); }
}
/// the factor shape C13 assumes of the set handed to energy_performance (the regulatory sets have it): no factor for cogenerated
/// electricity of its own (those are derived from the fuel), non-negative renewable and non-renewable parts of the grid and on-site
/// delivery factors, and exported on-site production weighted at step A with at most the factor of its delivery
pub open spec fn nn2(f: R3) -> bool { f.ren >= 0real && f.nren >= 0real }
pub open spec fn le2(a: R3, b: R3) -> bool { a.ren <= b.ren && a.nren <= b.nren }
pub open spec fn c13_factors(w: Seq<Factor>) -> bool {
    &&& (forall|j: int| 0 <= j < w.len() ==> (#[trigger] w[j]).source != Source::COGEN)
    &&& (forall|c: Carrier| nn2(#[trigger] fgrid(w, c)))
    &&& (forall|c: Carrier| nn2(#[trigger] fp(w, c, Source::INSITU, Dest::SUMINISTRO, Step::A)))
    &&& (forall|c: Carrier| le2(#[trigger] fp(w, c, Source::INSITU, Dest::A_NEPB, Step::A), fp(w, c, Source::INSITU, Dest::SUMINISTRO, Step::A)))
    &&& (forall|c: Carrier| le2(#[trigger] fp(w, c, Source::INSITU, Dest::A_RED, Step::A), fp(w, c, Source::INSITU, Dest::SUMINISTRO, Step::A)))
}
/// the factor of exported cogenerated electricity in the set used by the evaluation
pub open spec fn c13_g(o: Seq<Factor>, cs: Seq<Energy>) -> R3 { if has_cgn_prod(cs) { cgn_factor(o, cs, nsteps(cs) as int, false) } else { r3z() } }
pub proof fn lemma_c13_lookup(o: Seq<Factor>, wf: Seq<Factor>, cs: Seq<Energy>, c: Carrier, s: Source, d: Dest, st: Step)
    requires cgn_added(o, wf, cs), forall|j: int| 0 <= j < o.len() ==> (#[trigger] o[j]).source != Source::COGEN,
    ensures s != Source::COGEN ==> fp(wf, c, s, d, st) == fp(o, c, s, d, st),
            s == Source::COGEN && c == Carrier::ELECTRICIDAD && st == Step::A && (d == Dest::A_NEPB || d == Dest::A_RED) ==> fp(wf, c, s, d, st) == c13_g(o, cs),
            s != Source::COGEN || c != Carrier::ELECTRICIDAD ==> find_spec(wf, c, s, d, st) == find_spec(o, c, s, d, st),
            has_cgn_prod(cs) && s == Source::COGEN && c == Carrier::ELECTRICIDAD && st == Step::B && (d == Dest::A_NEPB || d == Dest::A_RED)
                ==> fp(wf, c, s, d, st) == fp(o, Carrier::ELECTRICIDAD, Source::RED, Dest::SUMINISTRO, Step::A),
{
    if s == Source::COGEN {
        assert forall|j: int| 0 <= j < o.len() implies !fkey(#[trigger] o[j], c, s, d, st) by {}
        lemma_find_none(o, c, s, d, st);
    }
    if has_cgn_prod(cs) {
        let n = o.len() as int;
        lemma_find_split(wf, n, c, s, d, st);
        let t = wf.skip(n);
        assert(t.len() == 5);
        assert(t[0] == wf[n] && t[1] == wf[n + 1] && t[2] == wf[n + 2] && t[3] == wf[n + 3] && t[4] == wf[n + 4]);
        lemma_find5(t, c, s, d, st);
    }
}
pub proof fn lemma_c13_g_nonneg(o: Seq<Factor>, cs: Seq<Energy>, n: int, x: int, l: Seq<Carrier>)
    requires nonneg_list(cs), wf_list(cs, n as nat), n >= 0, forall|c: Carrier| nn2(#[trigger] fgrid(o, c)),
    ensures px(cgn_sum(o, cs, n, false, l), x) >= 0real,
    decreases l.len(),
{
    if l.len() > 0 {
        lemma_c13_g_nonneg(o, cs, n, x, l.drop_last());
        let fuel = l.last();
        let u = acc_an(cs, Sel::CgnFuel(fuel), n); let p = acc_an(cs, Sel::Prod(ProdSource::EL_COGEN), n);
        lemma_acc_an_nonneg(cs, Sel::CgnFuel(fuel), n, n as nat);
        assert(nn2(fgrid(o, fuel)));
        let f = px(fgrid(o, fuel), x);
        lemma_c13_ratio(0real, u, p);
        assert(ratio(u, p) * f >= 0real) by(nonlinear_arith) requires ratio(u, p) >= 0real, f >= 0real;
    }
}
pub proof fn lemma_c13_ratio(e: real, u: real, p: real)
    requires u >= 0real, e >= 0real, p > 0real ==> e <= p,
    ensures ratio(u, p) >= 0real, e * ratio(u, p) <= u,
{
    if p > 0real {
        assert(u / p >= 0real) by(nonlinear_arith) requires u >= 0real, p > 0real;
        assert(e * (u / p) <= u) by(nonlinear_arith) requires u >= 0real, p > 0real, 0real <= e <= p;
    } else { lemma_mul0(e); }
}
/// everything the building-level argument needs of the balance of one carrier
pub open spec fn c13_carrier_ok(b: BalanceCarrier, wf: Seq<Factor>, cs: Seq<Energy>, c: Carrier, x: int, gx: real) -> bool {
    let ecg = mval(b.exp.by_src_an@, ProdSource::EL_COGEN);
    &&& rv(b.used.cgnus_an) >= 0real && rv(b.used.cgnus_an) == acc_an(cs, Sel::CgnFuel(c), nsteps(cs) as int)
    &&& 0real <= ecg
    &&& (c != Carrier::ELECTRICIDAD ==> ecg == 0real)
    &&& (ecg > 0real ==> ecg <= acc_an(cs, Sel::Prod(ProdSource::EL_COGEN), nsteps(cs) as int))
    &&& px(r3v(b.we.b), x) >= rv(b.used.cgnus_an) * px(fgrid(wf, c), x) - ecg * gx
}
pub open spec fn c13_clear(bcr: Map<Carrier, BalanceCarrier>) -> bool {
    forall|c: Carrier| bcr.contains_key(c) ==> clear_prod((#[trigger] bcr[c]).prod.t@)
}
#[verifier::spinoff_prover]
pub proof fn lemma_c13_carriers(comps: Components, o: Seq<Factor>, k_exp: f32, lm: bool, y: EnergyPerformance, x: int, c: Carrier)
    requires comps_wf(comps.data@), nonneg_list(comps.data@), rv(k_exp) == 0real, c13_factors(o), cgn_added(o, y.wfactors.wdata@, comps.data@),
             ep_carriers_ok(comps, k_exp, lm, y), c13_clear(y.balance_cr@), y.balance_cr@.contains_key(c),
    ensures c13_carrier_ok(y.balance_cr@[c], y.wfactors.wdata@, comps.data@, c, x, px(c13_g(o, comps.data@), x)),
{
    let cs = comps.data@; let wf = y.wfactors.wdata@; let n = nsteps(cs); let b = y.balance_cr@[c];
    let g3 = c13_g(o, cs); let gx = px(g3, x);
    reveal(bfc_post);
    assert(bfc_post(cs, wf, c, rv(k_exp), lm, b));
    let fa = filter_carrier(cs, c);
    let a = Run { cs: fa, used: b.used, prod: b.prod, fm: b.f_match@, exp: b.exp, del: b.del };
    assert(in_avail(cs, c));
    lemma_filter_carrier(cs, c, n); lemma_nonneg_filter(cs, c);
    assert(e_has_carrier(fa[0], c));
    assert(run_n(a) == n) by { assert(e_vals(fa[0]).len() == n); }
    assert(clear_run(a)) by { assert(clear_prod(b.prod.t@)); }
    lemma_c13_flows(a, lm);
    // shape of the factors in the set used by the evaluation
    lemma_c13_lookup(o, wf, cs, c, Source::RED, Dest::SUMINISTRO, Step::A);
    lemma_c13_lookup(o, wf, cs, c, Source::INSITU, Dest::SUMINISTRO, Step::A);
    lemma_c13_lookup(o, wf, cs, c, Source::INSITU, Dest::A_NEPB, Step::A);
    lemma_c13_lookup(o, wf, cs, c, Source::INSITU, Dest::A_RED, Step::A);
    lemma_c13_lookup(o, wf, cs, c, Source::COGEN, Dest::A_NEPB, Step::A);
    lemma_c13_lookup(o, wf, cs, c, Source::COGEN, Dest::A_RED, Step::A);
    assert(nn2(fgrid(o, c)) && nn2(fp(o, c, Source::INSITU, Dest::SUMINISTRO, Step::A)));
    assert(le2(fp(o, c, Source::INSITU, Dest::A_NEPB, Step::A), fp(o, c, Source::INSITU, Dest::SUMINISTRO, Step::A)));
    assert(le2(fp(o, c, Source::INSITU, Dest::A_RED, Step::A), fp(o, c, Source::INSITU, Dest::SUMINISTRO, Step::A)));
    lemma_carriers12();
    if has_cgn_prod(cs) { lemma_c13_g_nonneg(o, cs, n as int, x, carriers12()); }
    assert(gx >= 0real);
    let has = b.exp.by_src_an@.contains_key(ProdSource::EL_COGEN);
    assert(has == any_sel(fa, Sel::Prod(ProdSource::EL_COGEN)));
    if has { lemma_has_prod_carrier(fa, c, ProdSource::EL_COGEN); assert(c == Carrier::ELECTRICIDAD); }
    assert(c13_shape(wf, c, x, gx, has));
    lemma_c13_carrier(wf, c, a, b.we, x, gx);
    // links with the whole component list
    lemma_sumf_acc(b.used.cgnus_t@, fa, Sel::Cgn);
    lemma_acc_an_filter(cs, c, Sel::Cgn, Sel::CgnFuel(c), n as int);
    assert(esv(a, ProdSource::EL_COGEN) == mval(b.exp.by_src_an@, ProdSource::EL_COGEN));
    assert(0real <= esv(a, ProdSource::EL_COGEN) <= psv(a, ProdSource::EL_COGEN));
    if has {
        lemma_sumf_acc(b.prod.by_src_t@[ProdSource::EL_COGEN]@, fa, Sel::Prod(ProdSource::EL_COGEN));
        lemma_acc_an_filter(cs, Carrier::ELECTRICIDAD, Sel::Prod(ProdSource::EL_COGEN), Sel::Prod(ProdSource::EL_COGEN), n as int);
    }
}
/// removing v from the term of one carrier removes v from the sum
pub proof fn lemma_csum_sub_one(dom: Set<Carrier>, h: spec_fn(Carrier) -> real, lb: spec_fn(Carrier) -> real, l: Seq<Carrier>, k: Carrier, v: real)
    requires l.no_duplicates(), forall|c: Carrier| dom.contains(c) ==> #[trigger] lb(c) == h(c) - (if c == k { v } else { 0real }),
    ensures csum(dom, lb, l) == csum(dom, h, l) - (if dom.contains(k) && l.contains(k) { v } else { 0real }),
    decreases l.len(),
{
    if l.len() > 0 {
        let l0 = l.drop_last(); let z = l.last();
        assert(l0.no_duplicates()) by { assert forall|i: int, j: int| 0 <= i < l0.len() && 0 <= j < l0.len() && i != j implies l0[i] != l0[j] by { assert(l0[i] == l[i] && l0[j] == l[j]); } }
        lemma_csum_sub_one(dom, h, lb, l0, k, v);
        if z == k {
            assert(!l0.contains(k)) by { if l0.contains(k) { let i = choose|i: int| 0 <= i < l0.len() && l0[i] == k; assert(l[i] == k && l[l.len() - 1] == k); } }
            assert(l.contains(k)) by { assert(l[l.len() - 1] == k); }
        } else {
            assert(l.contains(k) == l0.contains(k)) by {
                if l.contains(k) { let i = choose|i: int| 0 <= i < l.len() && l[i] == k; assert(i < l.len() - 1); assert(l0[i] == k); }
                if l0.contains(k) { let i = choose|i: int| 0 <= i < l0.len() && l0[i] == k; assert(l[i] == k); }
            }
        }
        if dom.contains(z) { assert(lb(z) == h(z) - (if z == k { v } else { 0real })); }
    }
}
pub proof fn lemma_c13_cgn_sum(dom: Set<Carrier>, h: spec_fn(Carrier) -> real, o: Seq<Factor>, cs: Seq<Energy>, n: int, x: int, ecg: real, l: Seq<Carrier>)
    requires forall|fuel: Carrier| ecg * px(#[trigger] cgn_term(o, cs, n, false, fuel), x) <= (if dom.contains(fuel) { h(fuel) } else { 0real }),
    ensures ecg * px(cgn_sum(o, cs, n, false, l), x) <= csum(dom, h, l),
    decreases l.len(),
{
    if l.len() > 0 {
        lemma_c13_cgn_sum(dom, h, o, cs, n, x, ecg, l.drop_last());
        let t = px(cgn_term(o, cs, n, false, l.last()), x); let s0 = px(cgn_sum(o, cs, n, false, l.drop_last()), x);
        assert(px(cgn_sum(o, cs, n, false, l), x) == s0 + t);
        lemma_dist2(ecg, s0, t);
    } else { lemma_mul0(ecg); }
}
/// the building total of the x-part of the weighted energy is non-negative
#[verifier::spinoff_prover]
pub proof fn lemma_c13_sum(bcr: Map<Carrier, BalanceCarrier>, wf: Seq<Factor>, o: Seq<Factor>, cs: Seq<Energy>, x: int, f: spec_fn(BalanceCarrier) -> real)
    requires comps_wf(cs), nonneg_list(cs), c13_factors(o),
             forall|c: Carrier| #[trigger] bcr.contains_key(c) == in_avail(cs, c),
             forall|c: Carrier| bcr.contains_key(c) ==> c13_carrier_ok(#[trigger] bcr[c], wf, cs, c, x, px(c13_g(o, cs), x)),
             forall|c: Carrier| px(#[trigger] fgrid(wf, c), x) == px(fgrid(o, c), x),
             forall|c: Carrier| bcr.contains_key(c) ==> f(#[trigger] bcr[c]) == px(r3v(bcr[c].we.b), x),
    ensures csum(bcr.dom(), gsel(bcr, f), carriers12()) >= 0real,
{
    let n = nsteps(cs) as int; let dom = bcr.dom(); let el = Carrier::ELECTRICIDAD;
    let gx = px(c13_g(o, cs), x);
    let ecg = if bcr.contains_key(el) { mval(bcr[el].exp.by_src_an@, ProdSource::EL_COGEN) } else { 0real };
    let h = |c: Carrier| rv(bcr[c].used.cgnus_an) * px(fgrid(wf, c), x);
    let v = ecg * gx;
    let lb = |c: Carrier| h(c) - (if c == el { v } else { 0real });
    lemma_carriers12();
    assert(ecg >= 0real) by { if bcr.contains_key(el) { assert(c13_carrier_ok(bcr[el], wf, cs, el, x, gx)); } }
    // (1) every carrier's figure is at least lb
    assert forall|c: Carrier| dom.contains(c) implies #[trigger] lb(c) <= gsel(bcr, f)(c) by {
        assert(bcr.contains_key(c));
        assert(c13_carrier_ok(bcr[c], wf, cs, c, x, gx));
        assert(f(bcr[c]) == px(r3v(bcr[c].we.b), x));
        if c != el { lemma_mul0(gx); }
    }
    lemma_csum_le(dom, gsel(bcr, f), lb, carriers12());
    // (2) the sum of the lower bounds
    lemma_csum_sub_one(dom, h, lb, carriers12(), el, v);
    // (3) the cogeneration inputs, weighted, cover the exported cogenerated electricity
    if ecg == 0real || !has_cgn_prod(cs) {
        lemma_mul0(gx); lemma_mul0(ecg);
        assert(v == 0real);
        assert forall|c: Carrier| dom.contains(c) implies 0real <= #[trigger] h(c) by {
            assert(bcr.contains_key(c)); assert(c13_carrier_ok(bcr[c], wf, cs, c, x, gx)); assert(nn2(fgrid(o, c)));
            let u = rv(bcr[c].used.cgnus_an); let fg = px(fgrid(wf, c), x);
            assert(u * fg >= 0real) by(nonlinear_arith) requires u >= 0real, fg >= 0real;
        }
        lemma_csum_le(dom, h, |c: Carrier| 0real, carriers12());
        lemma_csum_zero(dom, carriers12());
    } else {
        assert(bcr.contains_key(el));
        assert(c13_carrier_ok(bcr[el], wf, cs, el, x, gx));
        let p = acc_an(cs, Sel::Prod(ProdSource::EL_COGEN), n);
        assert(0real < ecg <= p);
        assert forall|fuel: Carrier| ecg * px(#[trigger] cgn_term(o, cs, n, false, fuel), x) <= (if dom.contains(fuel) { h(fuel) } else { 0real }) by {
            let t = px(cgn_term(o, cs, n, false, fuel), x);
            assert(nn2(fgrid(o, fuel)));
            let fg = px(fgrid(o, fuel), x);
            if cgn_uses(cs, false, fuel) {
                lemma_cgnfuel_avail(cs, fuel);
                assert(bcr.contains_key(fuel));
                assert(c13_carrier_ok(bcr[fuel], wf, cs, fuel, x, gx));
                let u = acc_an(cs, Sel::CgnFuel(fuel), n);
                assert(rv(bcr[fuel].used.cgnus_an) == u);
                lemma_c13_ratio(ecg, u, p);
                let r = ratio(u, p);
                assert(t == r * fg);
                assert(px(fgrid(wf, fuel), x) == fg);
                assert(h(fuel) == u * fg);
                assert(ecg * (r * fg) == (ecg * r) * fg) by(nonlinear_arith);
                assert((ecg * r) * fg <= u * fg) by(nonlinear_arith) requires ecg * r <= u, fg >= 0real;
            } else {
                assert(t == 0real);
                lemma_mul0(ecg);
                if dom.contains(fuel) {
                    assert(bcr.contains_key(fuel)); assert(c13_carrier_ok(bcr[fuel], wf, cs, fuel, x, gx));
                    let u = rv(bcr[fuel].used.cgnus_an); let fgw = px(fgrid(wf, fuel), x);
                    assert(fgw == fg);
                    assert(u * fgw >= 0real) by(nonlinear_arith) requires u >= 0real, fgw >= 0real;
                }
            }
        }
        lemma_c13_cgn_sum(dom, h, o, cs, n, x, ecg, carriers12());
        assert(gx == px(cgn_sum(o, cs, n, false, carriers12()), x));
    }
}
pub proof fn lemma_csum_zero(dom: Set<Carrier>, l: Seq<Carrier>)
    ensures csum(dom, |c: Carrier| 0real, l) == 0real,
    decreases l.len(),
{
    if l.len() > 0 { lemma_csum_zero(dom, l.drop_last()); }
}
/// C13 (range sentence) at the public entry point: non-negative energy values, k_exp = 0, factors of the regulatory shape: the
/// renewable and the non-renewable part of the reported primary energy are non-negative, so the reported RER - proved to be
/// ren / (ren + nren), 0 when the total is 0 - lies in [0, 1]
pub proof fn thm_c13_range(comps: Components, w: Seq<Factor>, k_exp: f32, area: f32, lm: bool, r: Result<EnergyPerformance>)
    requires comps_wf(comps.data@), nonneg_list(comps.data@), rv(k_exp) == 0real, c13_factors(w),
             ep_post(comps, w, k_exp, area, lm, r), r is Ok, c13_clear(r->Ok_0.balance_cr@),
    ensures rv(r->Ok_0.balance.we.b.ren) >= 0real, rv(r->Ok_0.balance.we.b.nren) >= 0real,
            0real <= rv(r->Ok_0.rer) <= 1real,
            rv(r->Ok_0.balance.we.b.ren) + rv(r->Ok_0.balance.we.b.nren) > 0real ==> rv(r->Ok_0.rer) * (rv(r->Ok_0.balance.we.b.ren) + rv(r->Ok_0.balance.we.b.nren)) == rv(r->Ok_0.balance.we.b.ren),
{
    let y = r->Ok_0; let cs = comps.data@; let bcr = y.balance_cr@; let wf = y.wfactors.wdata@;
    assert(ep_carriers_ok(comps, k_exp, lm, y));
    thm_c04_totals(bcr, comps, y.balance);
    assert forall|c: Carrier| px(#[trigger] fgrid(wf, c), 0) == px(fgrid(w, c), 0) && px(fgrid(wf, c), 1) == px(fgrid(w, c), 1) by {
        lemma_c13_lookup(w, wf, cs, c, Source::RED, Dest::SUMINISTRO, Step::A);
    }
    assert forall|c: Carrier| bcr.contains_key(c) implies c13_carrier_ok(#[trigger] bcr[c], wf, cs, c, 0, px(c13_g(w, cs), 0)) by { lemma_c13_carriers(comps, w, k_exp, lm, y, 0, c); }
    assert forall|c: Carrier| bcr.contains_key(c) implies c13_carrier_ok(#[trigger] bcr[c], wf, cs, c, 1, px(c13_g(w, cs), 1)) by { lemma_c13_carriers(comps, w, k_exp, lm, y, 1, c); }
    let f0 = |q: BalanceCarrier| rv(q.we.b.ren); let f1 = |q: BalanceCarrier| rv(q.we.b.nren);
    lemma_c13_sum(bcr, wf, w, cs, 0, f0);
    lemma_c13_sum(bcr, wf, w, cs, 1, f1);
    let ren = rv(y.balance.we.b.ren); let nren = rv(y.balance.we.b.nren);
    assert(tot_is_sum(bcr, ren, f0) && tot_is_sum(bcr, nren, f1));
    assert(ren >= 0real && nren >= 0real);
    assert(rv(y.rer) == rer_spec(r3v(y.balance.we.b)));
    if ren + nren > 0real {
        let t = ren + nren;
        assert(0real <= ren / t <= 1real) by(nonlinear_arith) requires t > 0real, 0real <= ren <= t;
        assert((ren / t) * t == ren) by(nonlinear_arith) requires t > 0real;
    }
}

// ------------------------------------------------------------------------------------------------ the outer nesting sentences
// 0 <= RER_onst and RER_nrb <= RER (the middle one, RER_onst <= RER_nrb, is false on the current tree for buildings that export: D4)
/// the electricity balance at k_exp = 0: the on-site delivery is non-negative, and the balance is at least the part that
/// ren_onst_nrb counts into the nearby perimeter (the difference is the grid delivery, weighted with a non-negative factor)
#[verifier::spinoff_prover]
pub proof fn lemma_c13_el_parts(comps: Components, o: Seq<Factor>, k_exp: f32, lm: bool, y: EnergyPerformance)
    requires comps_wf(comps.data@), nonneg_list(comps.data@), rv(k_exp) == 0real, c13_factors(o), cgn_added(o, y.wfactors.wdata@, comps.data@),
             ep_carriers_ok(comps, k_exp, lm, y), c13_clear(y.balance_cr@), y.balance_cr@.contains_key(Carrier::ELECTRICIDAD),
    ensures ({ let b = y.balance_cr@[Carrier::ELECTRICIDAD];
               rv(b.we.del_onst.ren) >= 0real && rv(b.we.b.ren) >= rv(b.we.del_onst.ren) + rv(b.we.del_cgn.ren) - rv(b.we.exp_a.ren) }),
{
    let c = Carrier::ELECTRICIDAD;
    let cs = comps.data@; let wf = y.wfactors.wdata@; let n = nsteps(cs); let b = y.balance_cr@[c];
    reveal(bfc_post);
    assert(bfc_post(cs, wf, c, rv(k_exp), lm, b));
    let fa = filter_carrier(cs, c);
    let a = Run { cs: fa, used: b.used, prod: b.prod, fm: b.f_match@, exp: b.exp, del: b.del };
    assert(in_avail(cs, c));
    lemma_filter_carrier(cs, c, n); lemma_nonneg_filter(cs, c);
    assert(e_has_carrier(fa[0], c));
    assert(run_n(a) == n) by { assert(e_vals(fa[0]).len() == n); }
    assert(clear_run(a)) by { assert(clear_prod(b.prod.t@)); }
    lemma_c13_flows(a, lm);
    lemma_c13_lookup(o, wf, cs, c, Source::RED, Dest::SUMINISTRO, Step::A);
    lemma_c13_lookup(o, wf, cs, c, Source::INSITU, Dest::SUMINISTRO, Step::A);
    assert(nn2(fgrid(o, c)) && nn2(fp(o, c, Source::INSITU, Dest::SUMINISTRO, Step::A)));
    let fg = fgrid(wf, c).ren; let fx = fp(wf, c, Source::INSITU, Dest::SUMINISTRO, Step::A).ren;
    let gr = rv(b.del.grid_an); let ons = rv(b.del.onst_an);
    assert(ons >= 0real) by { assert(0real <= esv(a, ProdSource::EL_INSITU) <= psv(a, ProdSource::EL_INSITU)); assert(0real <= esv(a, ProdSource::TERMOSOLAR) <= psv(a, ProdSource::TERMOSOLAR)); assert(0real <= esv(a, ProdSource::EAMBIENTE) <= psv(a, ProdSource::EAMBIENTE)); }
    lemma_mul0(fx);
    assert(ons * fx >= 0real) by(nonlinear_arith) requires ons >= 0real, fx >= 0real;
    assert(gr * fg >= 0real) by(nonlinear_arith) requires gr >= 0real, fg >= 0real;
    assert(r3v(b.we.del_onst) == we_del_onst(wf, c, b.del) && r3v(b.we.del_grid) == we_del_grid(wf, c, b.del));
    assert(rv(b.we.del_onst.ren) == ons * fx);
    assert(rv(b.we.del_grid.ren) == gr * fg);
    // b = del - exp, exp = exp_a + 0 x exp_ab, del = del_grid + del_onst + del_cgn
    let eab = r3v(b.we.exp_ab);
    lemma_mul0(eab.ren);
    assert(r3v(b.we.exp) == r3a(r3v(b.we.exp_a), r3s(0real, eab)));
    assert(r3v(b.we.b) == r3d(r3v(b.we.del), r3v(b.we.exp)));
    assert(r3v(b.we.del) == r3a(r3a(r3v(b.we.del_grid), r3v(b.we.del_onst)), r3v(b.we.del_cgn)));
}
/// sum over the carriers minus the part inside a perimeter, when electricity is outside the perimeter and every other carrier is non-negative
pub proof fn lemma_c13_perim(bcr: Map<Carrier, BalanceCarrier>, p: Perim, g: spec_fn(Carrier) -> real, l: Seq<Carrier>)
    requires l.no_duplicates(),
             forall|c: Carrier| bcr.contains_key(c) ==> #[trigger] g(c) == rv(bcr[c].we.b.ren),
             forall|c: Carrier| bcr.contains_key(c) && c != Carrier::ELECTRICIDAD ==> #[trigger] g(c) >= 0real,
    ensures perim_sum(bcr, p, l) >= 0real,
            csum(bcr.dom(), g, l) - perim_sum(bcr, p, l) >= (if bcr.contains_key(Carrier::ELECTRICIDAD) && l.contains(Carrier::ELECTRICIDAD) { g(Carrier::ELECTRICIDAD) } else { 0real }),
    decreases l.len(),
{
    let k = Carrier::ELECTRICIDAD;
    if l.len() > 0 {
        let l0 = l.drop_last(); let z = l.last();
        assert(l0.no_duplicates()) by { assert forall|i: int, j: int| 0 <= i < l0.len() && 0 <= j < l0.len() && i != j implies l0[i] != l0[j] by { assert(l0[i] == l[i] && l0[j] == l[j]); } }
        lemma_c13_perim(bcr, p, g, l0);
        if z == k {
            assert(!l0.contains(k)) by { if l0.contains(k) { let i = choose|i: int| 0 <= i < l0.len() && l0[i] == k; assert(l[i] == k && l[l.len() - 1] == k); } }
            assert(l.contains(k)) by { assert(l[l.len() - 1] == k); }
            assert(perim_term(bcr, p, z) == 0real);
        } else {
            assert(l.contains(k) == l0.contains(k)) by {
                if l.contains(k) { let i = choose|i: int| 0 <= i < l.len() && l[i] == k; assert(i < l.len() - 1); assert(l0[i] == k); }
                if l0.contains(k) { let i = choose|i: int| 0 <= i < l0.len() && l0[i] == k; assert(l[i] == k); }
            }
            if bcr.contains_key(z) { assert(g(z) == rv(bcr[z].we.b.ren) && g(z) >= 0real); }
        }
    }
}
/// C13 (outer nesting sentences) at the public entry point, hypotheses of thm_c13_range: 0 <= RER_onst and RER_nrb <= RER
pub proof fn thm_c13_outer(comps: Components, w: Seq<Factor>, k_exp: f32, area: f32, lm: bool, r: Result<EnergyPerformance>)
    requires comps_wf(comps.data@), nonneg_list(comps.data@), rv(k_exp) == 0real, c13_factors(w),
             ep_post(comps, w, k_exp, area, lm, r), r is Ok, c13_clear(r->Ok_0.balance_cr@),
    ensures 0real <= rv(r->Ok_0.rer_onst), rv(r->Ok_0.rer_nrb) <= rv(r->Ok_0.rer),
{
    let y = r->Ok_0; let cs = comps.data@; let bcr = y.balance_cr@; let wf = y.wfactors.wdata@; let el = Carrier::ELECTRICIDAD;
    thm_c13_range(comps, w, k_exp, area, lm, r);
    assert(ep_carriers_ok(comps, k_exp, lm, y));
    thm_c04_totals(bcr, comps, y.balance);
    let gx = px(c13_g(w, cs), 0);
    let g = gsel(bcr, |q: BalanceCarrier| rv(q.we.b.ren));
    assert forall|c: Carrier| bcr.contains_key(c) && c != el implies #[trigger] g(c) >= 0real by {
        lemma_c13_carriers(comps, w, k_exp, lm, y, 0, c);
        assert(c13_carrier_ok(bcr[c], wf, cs, c, 0, gx));
        lemma_c13_lookup(w, wf, cs, c, Source::RED, Dest::SUMINISTRO, Step::A);
        assert(nn2(fgrid(w, c)));
        let u = rv(bcr[c].used.cgnus_an); let fg = px(fgrid(wf, c), 0);
        assert(u * fg >= 0real) by(nonlinear_arith) requires u >= 0real, fg >= 0real;
        lemma_mul0(gx);
    }
    lemma_carriers12();
    lemma_c13_perim(bcr, Perim::Onsite, g, carriers12());
    lemma_c13_perim(bcr, Perim::Nearby, g, carriers12());
    let ren = rv(y.balance.we.b.ren); let nren = rv(y.balance.we.b.nren); let tot = ren + nren;
    assert(ren == csum(bcr.dom(), g, carriers12()));
    let p = ren_parts(bcr, rv(k_exp));
    if bcr.contains_key(el) { lemma_c13_el_parts(comps, w, k_exp, lm, y); assert(g(el) == rv(bcr[el].we.b.ren)); }
    assert(p.0 >= 0real);
    assert(p.1 <= ren) by { lemma_mul0(el_ren(bcr, 2)); assert((1real - 0real) * el_ren(bcr, 2) == el_ren(bcr, 2)) by(nonlinear_arith); }
    if tot > 0real {
        assert(p.0 / tot >= 0real) by(nonlinear_arith) requires p.0 >= 0real, tot > 0real;
        assert(p.1 / tot <= ren / tot) by(nonlinear_arith) requires p.1 <= ren, tot > 0real;
        assert(rv(y.rer) == ren / tot);
    }
}
