// ---- carrier-level relational theorems: C11 (scaling), C09 (permutation, subdivision), C10 (another component list with the same sums)
pub proof fn lemma_sel_same(cs: Seq<Energy>, cs2: Seq<Energy>)
    requires tags_same(cs, cs2),
    ensures sel_same(cs, cs2),
{
    assert forall|k: Sel| #[trigger] any_sel(cs2, k) == any_sel(cs, k) by { lemma_any_sel_tags(cs, cs2, k); }
}
pub proof fn lemma_any_sel_tags(cs: Seq<Energy>, cs2: Seq<Energy>, k: Sel)
    requires tags_same(cs, cs2),
    ensures any_sel(cs2, k) == any_sel(cs, k),
    decreases cs.len(),
{
    if cs.len() > 0 {
        let a = cs.drop_last(); let b = cs2.drop_last();
        assert forall|j: int| 0 <= j < a.len() implies same_tags(#[trigger] a[j], b[j]) by { assert(a[j] == cs[j] && b[j] == cs2[j]); }
        lemma_any_sel_tags(a, b, k);
        assert(same_tags(cs[cs.len() - 1], cs2[cs.len() - 1]));
        lemma_same_tags_sel(cs[cs.len() - 1], cs2[cs.len() - 1], k);
    }
}
/// hypotheses shared by the carrier-level theorems: two evaluations of one carrier under the same factors, k_exp and load-matching mode,
/// whose classified sums are related step by step through the layout (idx, cs), with productions inside the property's value domain
pub open spec fn carrier_hyp(a: Run, b: Run, lm: bool, idx: Seq<int>, cs: real) -> bool {
    &&& run_ok(a, lm) && run_ok(b, lm) && e_carrier(a.cs[0]) == e_carrier(b.cs[0]) && sel_same(a.cs, b.cs) && cs > 0real
    &&& run_n(b) == idx.len()
    &&& (forall|i2: int| 0 <= i2 < idx.len() ==> 0 <= #[trigger] idx[i2] < run_n(a) && acc_rel(a.cs, b.cs, idx[i2], i2, cs)
            && in_dom(rv(a.prod.t@[idx[i2]])) && in_dom(rv(b.prod.t@[i2])))
}
/// THE CARRIER THEOREM. Conclusions: (1) every per-step figure of the second evaluation at step i2 is cs times the first one's at step
/// idx[i2] and the load-matching factor is the same; (2) every annual figure is ct times the first one's; (3) the weighting step gives a
/// result for both or for neither, and every weighted figure (steps A and B, per service) is ct times the first one's.
pub proof fn thm_carrier(a: Run, b: Run, lm: bool, idx: Seq<int>, cs: real, ct: real, w: Seq<Factor>, w2: Seq<Factor>, c: Carrier, k: real, r: Result<WeightedEnergy>, r2: Result<WeightedEnergy>)
    requires carrier_hyp(a, b, lm, idx, cs), ct > 0real, lay_sums(idx, run_n(a), cs, ct), we_lookups_same(w, w2, c, a.exp, a.del),
             cwe_post(w, c, k, a.used, a.exp, a.del, r), cwe_post(w2, c, k, b.used, b.exp, b.del, r2),
    ensures steps_rel(a, b, idx, cs), doms_same_r(a, b), annual_rel(a, b, ct),
            (r is Ok) == (r2 is Ok), r is Ok ==> we_rel(r->Ok_0, r2->Ok_0, ct),
{
    lemma_step_doms(a, b, lm);
    assert forall|i2: int| 0 <= i2 < idx.len() implies 0 <= #[trigger] idx[i2] < run_n(a) && step_rel_r(a, b, idx[i2], i2, cs) by {
        thm_step(a, b, lm, idx[i2], i2, cs);
    }
    thm_annual(a, b, lm, idx, cs, ct);
    lemma_we_inputs(a, b, ct);
    thm_weights(w, w2, c, k, a, b, ct, r, r2);
}

// ---------------------------------------------------------------------------------------------------- C11
/// C11 at carrier level: every energy value of the building multiplied by c > 0 (values and their multiples inside the value domain):
/// every energy and weighted-energy figure is multiplied by c; the load-matching factors are unchanged
pub proof fn thm_c11_carrier(a: Run, b: Run, lm: bool, c: real, w: Seq<Factor>, cr: Carrier, k: real, r: Result<WeightedEnergy>, r2: Result<WeightedEnergy>)
    requires run_ok(a, lm), run_ok(b, lm), c > 0real, tags_same(a.cs, b.cs), !(a.cs[0] is Out), run_n(a) == run_n(b),
             forall|i: int| 0 <= i < run_n(a) ==> #[trigger] val_rel(a.cs, b.cs, i, i, c),
             forall|i: int| 0 <= i < run_n(a) ==> in_dom(rv(#[trigger] a.prod.t@[i])) && in_dom(rv(b.prod.t@[i])),
             cwe_post(w, cr, k, a.used, a.exp, a.del, r), cwe_post(w, cr, k, b.used, b.exp, b.del, r2),
    ensures forall|i: int| 0 <= i < run_n(a) ==> #[trigger] step_rel_r(a, b, i, i, c),
            annual_rel(a, b, c), (r is Ok) == (r2 is Ok), r is Ok ==> we_rel(r->Ok_0, r2->Ok_0, c),
{
    let n = run_n(a);
    let idx = idx_ident(n);
    lemma_sel_same(a.cs, b.cs);
    assert(same_tags(a.cs[0], b.cs[0]));
    lemma_same_tags_sel(a.cs[0], b.cs[0], Sel::Epus);
    assert forall|i2: int| 0 <= i2 < idx.len() implies 0 <= #[trigger] idx[i2] < run_n(a) && acc_rel(a.cs, b.cs, idx[i2], i2, c)
            && in_dom(rv(a.prod.t@[idx[i2]])) && in_dom(rv(b.prod.t@[i2])) by {
        assert(idx[i2] == i2);
        assert(val_rel(a.cs, b.cs, i2, i2, c));
        lemma_acc_rel(a.cs, b.cs, i2, i2, c);
        assert(in_dom(rv(a.prod.t@[i2])));
    }
    lemma_lay_same(n, c);
    assert(fp_same(w, w, cr)); lemma_fp_same_lookups(w, w, cr, a.exp, a.del);
    thm_carrier(a, b, lm, idx, c, c, w, w, cr, k, r, r2);
    assert forall|i: int| 0 <= i < run_n(a) implies #[trigger] step_rel_r(a, b, i, i, c) by { assert(idx[i] == i); }
}

// ---------------------------------------------------------------------------------------------------- C09
/// C09 (permutation) at carrier level: the time steps of all components reordered by the same permutation idx:
/// per-step vectors follow the permutation, annual and weighted results are unchanged
pub proof fn thm_c09_perm_carrier(a: Run, b: Run, lm: bool, idx: Seq<int>, w: Seq<Factor>, cr: Carrier, k: real, r: Result<WeightedEnergy>, r2: Result<WeightedEnergy>)
    requires run_ok(a, lm), run_ok(b, lm), tags_same(a.cs, b.cs), !(a.cs[0] is Out), run_n(a) == run_n(b), is_perm(idx, run_n(a)),
             forall|i2: int| 0 <= i2 < run_n(a) ==> val_rel(a.cs, b.cs, #[trigger] idx[i2], i2, 1real),
             forall|i: int| 0 <= i < run_n(a) ==> in_dom(rv(#[trigger] a.prod.t@[i])),
             cwe_post(w, cr, k, a.used, a.exp, a.del, r), cwe_post(w, cr, k, b.used, b.exp, b.del, r2),
    ensures steps_rel(a, b, idx, 1real), annual_rel(a, b, 1real), (r is Ok) == (r2 is Ok), r is Ok ==> we_rel(r->Ok_0, r2->Ok_0, 1real),
{
    let n = run_n(a);
    lemma_sel_same(a.cs, b.cs);
    assert(same_tags(a.cs[0], b.cs[0]));
    lemma_same_tags_sel(a.cs[0], b.cs[0], Sel::Epus);
    assert forall|i2: int| 0 <= i2 < idx.len() implies 0 <= #[trigger] idx[i2] < run_n(a) && acc_rel(a.cs, b.cs, idx[i2], i2, 1real)
            && in_dom(rv(a.prod.t@[idx[i2]])) && in_dom(rv(b.prod.t@[i2])) by {
        assert(val_rel(a.cs, b.cs, idx[i2], i2, 1real));
        lemma_acc_rel(a.cs, b.cs, idx[i2], i2, 1real);
        assert(in_dom(rv(a.prod.t@[idx[i2]])));
        lemma_prod_t_rel(a, b, lm, idx[i2], i2, 1real);
        assert(1real * rv(a.prod.t@[idx[i2]]) == rv(a.prod.t@[idx[i2]])) by(nonlinear_arith);
    }
    lemma_lay_perm(idx, n);
    assert(fp_same(w, w, cr)); lemma_fp_same_lookups(w, w, cr, a.exp, a.del);
    thm_carrier(a, b, lm, idx, 1real, 1real, w, w, cr, k, r, r2);
}
/// the total production of a step is related like the classified sums (used to carry the value domain across a permutation)
pub proof fn lemma_prod_t_rel(a: Run, b: Run, lm: bool, i: int, i2: int, c: real)
    requires run_ok(a, lm), run_ok(b, lm), sel_same(a.cs, b.cs), acc_rel(a.cs, b.cs, i, i2, c), 0 <= i < run_n(a), 0 <= i2 < run_n(b),
    ensures rv(b.prod.t@[i2]) == c * rv(a.prod.t@[i]),
{
    lemma_mul0(c);
    let m = a.prod.by_src_t@; let m2 = b.prod.by_src_t@;
    assert forall|s: ProdSource| #[trigger] mv(m2, s, i2) == c * mv(m, s, i) by {
        assert(any_sel(b.cs, Sel::Prod(s)) == any_sel(a.cs, Sel::Prod(s)));
        assert(acc(b.cs, Sel::Prod(s), i2) == c * acc(a.cs, Sel::Prod(s), i));
        if m.contains_key(s) {
            assert(rv(m[s]@[i]) == acc(a.cs, Sel::Prod(s), i));
            assert(rv(m2[s]@[i2]) == acc(b.cs, Sel::Prod(s), i2));
        }
    }
    assert(rv(a.prod.t@[i]) == all_src_sum(m, i));
    assert(rv(b.prod.t@[i2]) == all_src_sum(m2, i2));
    assert(mv(m2, ProdSource::EL_INSITU, i2) == c * mv(m, ProdSource::EL_INSITU, i));
    assert(mv(m2, ProdSource::EL_COGEN, i2) == c * mv(m, ProdSource::EL_COGEN, i));
    assert(mv(m2, ProdSource::TERMOSOLAR, i2) == c * mv(m, ProdSource::TERMOSOLAR, i));
    assert(mv(m2, ProdSource::EAMBIENTE, i2) == c * mv(m, ProdSource::EAMBIENTE, i));
    lemma_dist4(c, mv(m, ProdSource::EL_INSITU, i), mv(m, ProdSource::EL_COGEN, i), mv(m, ProdSource::TERMOSOLAR, i), mv(m, ProdSource::EAMBIENTE, i));
}
/// C09 (subdivision) at carrier level: every step split into m equal sub-steps carrying 1/m of its energy (the sub-step energies
/// still inside the value domain): per-step vectors follow the subdivision, annual and weighted results are unchanged
pub proof fn thm_c09_subdiv_carrier(a: Run, b: Run, lm: bool, m: int, w: Seq<Factor>, cr: Carrier, k: real, r: Result<WeightedEnergy>, r2: Result<WeightedEnergy>)
    requires run_ok(a, lm), run_ok(b, lm), tags_same(a.cs, b.cs), !(a.cs[0] is Out), m > 0, run_n(b) == run_n(a) * m,
             forall|i2: int| 0 <= i2 < run_n(b) ==> #[trigger] val_rel(a.cs, b.cs, i2 / m, i2, 1real / (m as real)),
             forall|i: int| 0 <= i < run_n(a) ==> in_dom(rv(#[trigger] a.prod.t@[i])),
             forall|i2: int| 0 <= i2 < run_n(b) ==> in_dom(rv(#[trigger] b.prod.t@[i2])),
             cwe_post(w, cr, k, a.used, a.exp, a.del, r), cwe_post(w, cr, k, b.used, b.exp, b.del, r2),
    ensures steps_rel(a, b, idx_subdiv(run_n(a), m), 1real / (m as real)), annual_rel(a, b, 1real),
            (r is Ok) == (r2 is Ok), r is Ok ==> we_rel(r->Ok_0, r2->Ok_0, 1real),
{
    let n = run_n(a);
    let idx = idx_subdiv(n, m);
    let cs = 1real / (m as real);
    assert(cs > 0real) by(nonlinear_arith) requires cs == 1real / (m as real), m > 0;
    assert(n * m >= 0) by(nonlinear_arith) requires n >= 0, m > 0;
    lemma_sel_same(a.cs, b.cs);
    assert(same_tags(a.cs[0], b.cs[0]));
    lemma_same_tags_sel(a.cs[0], b.cs[0], Sel::Epus);
    assert forall|i2: int| 0 <= i2 < idx.len() implies 0 <= #[trigger] idx[i2] < run_n(a) && acc_rel(a.cs, b.cs, idx[i2], i2, cs)
            && in_dom(rv(a.prod.t@[idx[i2]])) && in_dom(rv(b.prod.t@[i2])) by {
        assert(idx[i2] == i2 / m);
        assert(0 <= i2 / m < n) by(nonlinear_arith) requires 0 <= i2 < n * m, m > 0;
        assert(val_rel(a.cs, b.cs, i2 / m, i2, cs));
        lemma_acc_rel(a.cs, b.cs, i2 / m, i2, cs);
        assert(in_dom(rv(a.prod.t@[i2 / m])));
        assert(in_dom(rv(b.prod.t@[i2])));
    }
    lemma_lay_subdiv(n, m);
    assert(fp_same(w, w, cr)); lemma_fp_same_lookups(w, w, cr, a.exp, a.del);
    thm_carrier(a, b, lm, idx, cs, 1real, w, w, cr, k, r, r2);
}
