// ---- C14 (non-renewable primary energy and CO2 sentences) for buildings without cogenerated electricity: theorems over the proved
// contracts (bundles cup_post / ced_post / cwe_post / ep_post); ghost code only. The grid-delivery sentence is thm_c14_grid (rel_c12.rs).

// ------------------------------------------------------------------------------------------------ the exported part is monotone
/// u(z) = z / (z^2 + 1) = 1 - fm(z)
pub open spec fn uz(z: real) -> real { z / (z * z + 1real) }
pub proof fn lemma_fm_u(z: real)
    requires z > 0real,
    ensures fm_of_x(z) == 1real - uz(z), 0real <= uz(z), z * z + 1real >= 1real,
{
    lemma_fm_poly(z);
    let d = z * z + 1real;
    assert(z * z >= 0real) by(nonlinear_arith);
    assert(z * z - z + 1real == d - z);
    assert((d - z) / d == 1real - z / d) by(nonlinear_arith) requires d > 0real;
    assert(z / d >= 0real) by(nonlinear_arith) requires d > 0real, z > 0real;
}
/// u is non-decreasing on (0, 1]
pub proof fn lemma_u_mono_low(x: real, y: real)
    requires 0real < x <= y <= 1real,
    ensures uz(x) <= uz(y),
{
    let dx = x * x + 1real; let dy = y * y + 1real;
    assert(dx > 0real && dy > 0real) by(nonlinear_arith) requires dx == x * x + 1real, dy == y * y + 1real;
    // y dx - x dy = (y - x)(1 - x y) >= 0
    assert(x * y <= 1real) by(nonlinear_arith) requires 0real < x <= 1real, 0real < y <= 1real;
    assert((y - x) * (1real - x * y) >= 0real) by(nonlinear_arith) requires y - x >= 0real, 1real - x * y >= 0real;
    assert(y * (x * x + 1real) - x * (y * y + 1real) == (y - x) * (1real - x * y)) by(nonlinear_arith);
    lemma_div_le(x, dx, y, dy);
}
/// u(x) - u(y) <= y - x from 1 on
pub proof fn lemma_u_lip_high(x: real, y: real)
    requires 1real <= x <= y,
    ensures uz(x) <= uz(y) + (y - x),
{
    let dx = x * x + 1real; let dy = y * y + 1real;
    assert(dx >= x && dx > 0real) by(nonlinear_arith) requires dx == x * x + 1real, x >= 1real;
    assert(dy >= y && dy > 0real) by(nonlinear_arith) requires dy == y * y + 1real, y >= 1real;
    assert(dx * dy >= x * y) by(nonlinear_arith) requires dx >= x, dy >= y, x >= 1real, y >= 1real;
    assert(x * (y * y + 1real) - y * (x * x + 1real) == (y - x) * (x * y - 1real)) by(nonlinear_arith);
    let dd = dx * dy;
    assert((y - x) * (x * y - 1real) <= (y - x) * dd) by(nonlinear_arith) requires y - x >= 0real, x * y - 1real <= dd;
    // x dy <= y dx + (y - x) dx dy
    let t = y * dx + (y - x) * dd;
    assert(x * dy <= t);
    assert(dd > 0real) by(nonlinear_arith) requires dx > 0real, dy > 0real, dd == dx * dy;
    assert(x * dd <= t * dx) by(nonlinear_arith) requires x * dy <= t, dx > 0real, dd == dx * dy;
    lemma_div_le(x, dx, t, dd);
    assert(t / dd == y / dy + (y - x)) by(nonlinear_arith) requires dd == dx * dy, dx > 0real, dy > 0real, t == y * dx + (y - x) * dd;
}
/// exported part pt - g(pt) is non-decreasing in the production
pub proof fn lemma_exp_mono(lm: bool, pt: real, pt2: real, us: real)
    requires 0real <= pt <= pt2, us >= 0real,
    ensures pt - g_used(lm, pt, us) <= pt2 - g_used(lm, pt2, us),
{
    if !lm || us <= 0real {
        assert(1real * rmin(us, pt) == rmin(us, pt) && 1real * rmin(us, pt2) == rmin(us, pt2)) by(nonlinear_arith);
    } else if pt <= 0real {
        lemma_mul0(fmatch(lm, pt, us));
        lemma_fmatch_range(lm, pt2, us);
        lemma_scale01(rmin(us, pt2), fmatch(lm, pt2, us));
    } else {
        let x = pt / us; let y = pt2 / us;
        assert(0real < x <= y && x * us == pt && y * us == pt2) by(nonlinear_arith) requires 0real < pt <= pt2, us > 0real, x == pt / us, y == pt2 / us;
        lemma_fmatch_stages(pt, us); lemma_fmatch_stages(pt2, us);
        assert(fmatch(true, pt, us) == fm_of_x(x) && fmatch(true, pt2, us) == fm_of_x(y));
        lemma_fm_u(x); lemma_fm_u(y);
        // (pt - g) / us as a function of x: x u(x) up to 1, x - 1 + u(x) from 1 on
        let ex = if x <= 1real { x * uz(x) } else { x - 1real + uz(x) };
        let ey = if y <= 1real { y * uz(y) } else { y - 1real + uz(y) };
        assert(pt - g_used(true, pt, us) == us * ex) by {
            let f = fm_of_x(x); let u = uz(x);
            if x <= 1real { assert(pt <= us) by(nonlinear_arith) requires x <= 1real, x * us == pt, us > 0real; assert(x * us - (1real - u) * (x * us) == us * (x * u)) by(nonlinear_arith); }
            else { assert(pt > us) by(nonlinear_arith) requires x > 1real, x * us == pt, us > 0real; assert(x * us - (1real - u) * us == us * (x - 1real + u)) by(nonlinear_arith); }
        }
        assert(pt2 - g_used(true, pt2, us) == us * ey) by {
            let u = uz(y);
            if y <= 1real { assert(pt2 <= us) by(nonlinear_arith) requires y <= 1real, y * us == pt2, us > 0real; assert(y * us - (1real - u) * (y * us) == us * (y * u)) by(nonlinear_arith); }
            else { assert(pt2 > us) by(nonlinear_arith) requires y > 1real, y * us == pt2, us > 0real; assert(y * us - (1real - u) * us == us * (y - 1real + u)) by(nonlinear_arith); }
        }
        assert(ex <= ey) by {
            if y <= 1real {
                lemma_u_mono_low(x, y);
                assert(x * uz(x) <= y * uz(y)) by(nonlinear_arith) requires 0real < x <= y, 0real <= uz(x) <= uz(y);
            } else if x > 1real {
                lemma_u_lip_high(x, y);
            } else {
                // x <= 1 < y: through the value at 1
                lemma_u_mono_low(x, 1real); lemma_u_lip_high(1real, y);
                assert(x * uz(x) <= 1real * uz(1real)) by(nonlinear_arith) requires 0real < x <= 1real, 0real <= uz(x) <= uz(1real);
            }
        }
        assert(us * ex <= us * ey) by(nonlinear_arith) requires us > 0real, ex <= ey;
    }
}

// ------------------------------------------------------------------------------------------------ sums
pub proof fn lemma_sumf_eq(v: Seq<f32>, v2: Seq<f32>)
    requires v.len() == v2.len(), forall|i: int| 0 <= i < v.len() ==> rv(#[trigger] v[i]) == rv(v2[i]),
    ensures sumf(v) == sumf(v2),
{
    lemma_sumf_le(v, v2); lemma_sumf_le(v2, v);
}
/// annual exported energy = sum of the per-step exported energy
pub proof fn lemma_exp_an_sum(a: Run)
    requires ced_post(a.used, a.prod, a.exp, a.del),
    ensures rv(a.exp.an) == sumf(a.exp.t@),
{
    let n = a.prod.t@.len() as int;
    let f1 = |i: int| rv(a.exp.nepus_t@[i]); let f2 = |i: int| rv(a.exp.grid_t@[i]); let f3 = |i: int| 0real; let g = |i: int| rv(a.exp.t@[i]);
    assert forall|i: int| 0 <= i < a.exp.nepus_t@.len() implies #[trigger] f1(i) == rv(a.exp.nepus_t@[i]) by {}
    assert forall|i: int| 0 <= i < a.exp.grid_t@.len() implies #[trigger] f2(i) == rv(a.exp.grid_t@[i]) by {}
    assert forall|i: int| 0 <= i < a.exp.t@.len() implies #[trigger] g(i) == rv(a.exp.t@[i]) by {}
    lemma_fsum_sumf(a.exp.nepus_t@, f1); lemma_fsum_sumf(a.exp.grid_t@, f2); lemma_fsum_sumf(a.exp.t@, g);
    assert forall|i: int| 0 <= i < n implies #[trigger] f3(i) == 0real by {}
    lemma_fsum_zero(f3, n);
    assert forall|i: int| 0 <= i < n implies #[trigger] g(i) == f1(i) + f2(i) + f3(i) by { assert(rv(a.exp.grid_t@[i]) == rv(a.exp.t@[i]) - rv(a.exp.nepus_t@[i])); }
    lemma_fsum_add3(f1, f2, f3, g, n);
}

// ------------------------------------------------------------------------------------------------ the electricity balance
/// non-renewable (y == 1) or CO2 (otherwise) part
pub open spec fn py(r: R3, y: int) -> real { if y == 1 { r.nren } else { r.co2 } }
/// the shape of the electricity factors of the regulatory sets that C14 needs: on-site electricity delivered or exported at step A
/// carries no non-renewable energy and no emissions, its export at step B is valued with the grid factor, the grid factor is non-negative
pub open spec fn c14_shape(w: Seq<Factor>, y: int) -> bool {
    let el = Carrier::ELECTRICIDAD;
    &&& py(fgrid(w, el), y) >= 0real
    &&& py(fp(w, el, Source::INSITU, Dest::SUMINISTRO, Step::A), y) == 0real
    &&& py(fp(w, el, Source::INSITU, Dest::A_NEPB, Step::A), y) == 0real && py(fp(w, el, Source::INSITU, Dest::A_RED, Step::A), y) == 0real
    &&& py(fp(w, el, Source::INSITU, Dest::A_NEPB, Step::B), y) == py(fgrid(w, el), y) && py(fp(w, el, Source::INSITU, Dest::A_RED, Step::B), y) == py(fgrid(w, el), y)
}
/// electricity without cogeneration under such factors:  step A = grid factor x (grid delivery + cogeneration input),
/// step B = grid factor x (grid delivery + cogeneration input - k_exp x exported energy)
#[verifier::spinoff_prover]
pub proof fn lemma_c14_el(wf: Seq<Factor>, a: Run, lm: bool, we: WeightedEnergy, k: real, y: int)
    requires run_ok(a, lm), nonneg_list(a.cs), wf_list(a.cs, run_n(a) as nat), same_carrier(a.cs, Carrier::ELECTRICIDAD), clear_run(a),
             !any_sel(a.cs, Sel::Prod(ProdSource::EL_COGEN)), cwe_post(wf, Carrier::ELECTRICIDAD, k, a.used, a.exp, a.del, Ok(we)), c14_shape(wf, y),
    ensures py(r3v(we.a), y) == py(fgrid(wf, Carrier::ELECTRICIDAD), y) * (rv(a.del.grid_an) + rv(a.used.cgnus_an)),
            py(r3v(we.b), y) == py(fgrid(wf, Carrier::ELECTRICIDAD), y) * (rv(a.del.grid_an) + rv(a.used.cgnus_an) - k * rv(a.exp.an)),
{
    let el = Carrier::ELECTRICIDAD; let pv = ProdSource::EL_INSITU;
    let exp = a.exp; let del = a.del; let m = exp.by_src_an@; let n = run_n(a);
    let en = rv(exp.an); let nn = rv(exp.nepus_an); let rr = rv(exp.grid_an);
    let fg = py(fgrid(wf, el), y);
    let gr = rv(del.grid_an); let cg = rv(a.used.cgnus_an); let ons = rv(del.onst_an);
    let mp = a.prod.by_src_t@; let mu = a.prod.epus_by_src_t@;
    assert(e_has_carrier(a.cs[0], el));
    // the only possible source is on-site electricity
    assert(!mp.contains_key(ProdSource::EL_COGEN));
    assert(!mp.contains_key(ProdSource::TERMOSOLAR)) by { if any_sel(a.cs, Sel::Prod(ProdSource::TERMOSOLAR)) { lemma_has_prod_carrier(a.cs, el, ProdSource::TERMOSOLAR); } }
    assert(!mp.contains_key(ProdSource::EAMBIENTE)) by { if any_sel(a.cs, Sel::Prod(ProdSource::EAMBIENTE)) { lemma_has_prod_carrier(a.cs, el, ProdSource::EAMBIENTE); } }
    assert(m.dom() =~= mp.dom());
    assert(!pri(e_carrier(a.cs[0]), mp));
    lemma_exp_an_sum(a);
    let e1 = mval(m, pv);
    // exported on-site electricity = exported energy
    assert(e1 == en) by {
        if mp.contains_key(pv) {
            let ve = exp.by_src_t@[pv]@;
            assert(mu.contains_key(pv) && ve.len() == n && exp.t@.len() == n);
            assert forall|i: int| 0 <= i < ve.len() implies rv(#[trigger] ve[i]) == rv(exp.t@[i]) by {
                let pt = rv(a.prod.t@[i]); let us = rv(a.used.epus_t@[i]); let u = rv(a.prod.epus_t@[i]);
                assert(pt == all_src_sum(mp, i));
                assert(pt == rv(mp[pv]@[i]));
                assert(rv(mu[pv]@[i]) == u * fsrc(pt, pt));
                assert(us >= 0real);
                assert(u == rv(a.fm[i]) * rmin(us, pt));
                if pt == 0real { lemma_mul0(rv(a.fm[i])); lemma_mul0(u); }
                else { assert(pt > 1real / 1000real); assert(pt / pt == 1real) by(nonlinear_arith) requires pt > 0real; assert(u * 1real == u) by(nonlinear_arith); }
                assert(rv(ve[i]) == rv(mp[pv]@[i]) - rv(mu[pv]@[i]));
            }
            lemma_sumf_eq(ve, exp.t@);
        } else {
            assert forall|i: int| 0 <= i < exp.t@.len() implies rv(#[trigger] exp.t@[i]) == 0real by {
                let pt = rv(a.prod.t@[i]); let us = rv(a.used.epus_t@[i]);
                assert(pt == all_src_sum(mp, i)); assert(pt == 0real);
                assert(us >= 0real);
                lemma_mul0(rv(a.fm[i]));
            }
            lemma_sumf_all0(exp.t@);
        }
    }
    assert(r3v(we.a) == we_a(wf, el, exp, del) && r3v(we.b) == we_b(wf, el, exp, del, k));
    lemma_mul0(fg); lemma_mul0(ons); lemma_mul0(k);
    // delivered
    assert(py(we_del_onst(wf, el, del), y) == 0real);
    assert(py(we_del(wf, el, del), y) == gr * fg + cg * fg);
    lemma_dist2(fg, gr, cg);
    assert(gr * fg == fg * gr && cg * fg == fg * cg) by(nonlinear_arith);
    if en == 0real {
        assert(we_exp(wf, el, exp, k) == r3z() && we_exp_a(wf, el, exp) == r3z());
        lemma_dist2(fg, gr + cg, k * en);
    } else {
        assert(m.contains_key(pv));
        // step A factors of the exported energy carry nothing, step B factors are the grid factor
        let w1 = e1 / en;
        assert(w1 == 1real) by(nonlinear_arith) requires e1 == en, en != 0real, w1 == e1 / en;
        let tna = py(favg(wf, el, m, en, Dest::A_NEPB, Step::A), y); let tra = py(favg(wf, el, m, en, Dest::A_RED, Step::A), y);
        let tnb = py(favg(wf, el, m, en, Dest::A_NEPB, Step::B), y); let trb = py(favg(wf, el, m, en, Dest::A_RED, Step::B), y);
        lemma_mul0(w1);
        assert(tna == 0real && tra == 0real);
        assert(tnb == 1real * fg && trb == 1real * fg);
        assert(1real * fg == fg) by(nonlinear_arith);
        lemma_mul0(nn); lemma_mul0(rr);
        assert(py(we_exp_nepus_a(wf, el, exp), y) == 0real && py(we_exp_grid_a(wf, el, exp), y) == 0real);
        assert(py(we_exp_a(wf, el, exp), y) == 0real);
        assert(py(we_exp_nepus_ab(wf, el, exp), y) == nn * fg) by { if nn == 0real { lemma_mul0(fg); } }
        assert(py(we_exp_grid_ab(wf, el, exp), y) == rr * fg) by { if rr == 0real { lemma_mul0(fg); } }
        assert(py(we_exp_ab(wf, el, exp), y) == nn * fg + rr * fg);
        assert(nn * fg + rr * fg == en * fg) by(nonlinear_arith) requires en == nn + rr;
        assert(py(we_exp(wf, el, exp, k), y) == k * (en * fg));
        assert(k * (en * fg) == fg * (k * en)) by(nonlinear_arith);
        lemma_dist2(fg, gr + cg, k * en);
    }
}
pub proof fn lemma_sumf_all0(v: Seq<f32>)
    requires forall|i: int| 0 <= i < v.len() ==> rv(#[trigger] v[i]) == 0real,
    ensures sumf(v) == 0real,
    decreases v.len(),
{
    if v.len() > 0 {
        assert forall|i: int| 0 <= i < v.drop_last().len() implies rv(#[trigger] v.drop_last()[i]) == 0real by { assert(v.drop_last()[i] == v[i]); }
        lemma_sumf_all0(v.drop_last());
        assert(rv(v[v.len() - 1]) == 0real);
    }
}
/// what C14 says of one carrier: non-renewable energy and emissions, steps A and B, do not increase
pub open spec fn c14_le(x: BalanceCarrier, z: BalanceCarrier) -> bool {
    &&& rv(z.we.a.nren) <= rv(x.we.a.nren) && rv(z.we.a.co2) <= rv(x.we.a.co2)
    &&& rv(z.we.b.nren) <= rv(x.we.b.nren) && rv(z.we.b.co2) <= rv(x.we.b.co2)
}
/// two evaluations of the electricity carrier, the second with more on-site production at some steps (no cogeneration)
#[verifier::spinoff_prover]
pub proof fn lemma_c14_el_pair(wf: Seq<Factor>, a: Run, b: Run, lm: bool, wa: WeightedEnergy, wb: WeightedEnergy, k: real, y: int)
    requires run_ok(a, lm), run_ok(b, lm), run_n(a) == run_n(b), more_onsite_el(a.cs, b.cs), 0real <= k <= 1real,
             nonneg_list(a.cs), wf_list(a.cs, run_n(a) as nat), same_carrier(a.cs, Carrier::ELECTRICIDAD), clear_run(a),
             nonneg_list(b.cs), wf_list(b.cs, run_n(b) as nat), same_carrier(b.cs, Carrier::ELECTRICIDAD), clear_run(b),
             !any_sel(a.cs, Sel::Prod(ProdSource::EL_COGEN)), c14_shape(wf, y),
             cwe_post(wf, Carrier::ELECTRICIDAD, k, a.used, a.exp, a.del, Ok(wa)), cwe_post(wf, Carrier::ELECTRICIDAD, k, b.used, b.exp, b.del, Ok(wb)),
    ensures py(r3v(wb.a), y) <= py(r3v(wa.a), y), py(r3v(wb.b), y) <= py(r3v(wa.b), y),
{
    let n = run_n(a) as nat; let el = Carrier::ELECTRICIDAD;
    assert(e_has_carrier(a.cs[0], el) && e_has_carrier(b.cs[0], el));
    assert forall|q: Sel| #[trigger] any_sel(b.cs, q) == any_sel(a.cs, q) by { lemma_any_sel_tags(a.cs, b.cs, q); }
    assert forall|i: int| 0 <= i < n implies #[trigger] acc(b.cs, Sel::Epus, i) == acc(a.cs, Sel::Epus, i) by { lemma_more_onsite_acc(a.cs, b.cs, Sel::Epus, i, n); }
    assert forall|s: ProdSource, i: int| 0 <= i < n implies #[trigger] acc(b.cs, Sel::Prod(s), i) >= acc(a.cs, Sel::Prod(s), i) by { lemma_more_onsite_acc(a.cs, b.cs, Sel::Prod(s), i, n); }
    thm_c14_grid_carrier(a, b, lm);
    lemma_c14_el(wf, a, lm, wa, k, y); lemma_c14_el(wf, b, lm, wb, k, y);
    // cogeneration input unchanged
    assert forall|i: int| 0 <= i < a.used.cgnus_t@.len() implies rv(#[trigger] a.used.cgnus_t@[i]) == rv(b.used.cgnus_t@[i]) by { lemma_more_onsite_acc(a.cs, b.cs, Sel::Cgn, i, n); }
    lemma_sumf_eq(a.used.cgnus_t@, b.used.cgnus_t@);
    // exported energy does not decrease
    lemma_exp_an_sum(a); lemma_exp_an_sum(b);
    assert forall|i: int| 0 <= i < a.exp.t@.len() implies rv(#[trigger] a.exp.t@[i]) <= rv(b.exp.t@[i]) by {
        lemma_epus_is_g(a, lm, i); lemma_epus_is_g(b, lm, i);
        assert(rv(a.used.epus_t@[i]) == acc(a.cs, Sel::Epus, i) && rv(b.used.epus_t@[i]) == acc(b.cs, Sel::Epus, i));
        let ma = a.prod.by_src_t@; let mb = b.prod.by_src_t@;
        assert forall|s: ProdSource| #[trigger] mv(mb, s, i) >= mv(ma, s, i) by {
            assert(any_sel(b.cs, Sel::Prod(s)) == any_sel(a.cs, Sel::Prod(s)));
            assert(acc(b.cs, Sel::Prod(s), i) >= acc(a.cs, Sel::Prod(s), i));
            if ma.contains_key(s) { assert(rv(ma[s]@[i]) == acc(a.cs, Sel::Prod(s), i)); assert(rv(mb[s]@[i]) == acc(b.cs, Sel::Prod(s), i)); }
        }
        assert(rv(a.prod.t@[i]) == all_src_sum(ma, i) && rv(b.prod.t@[i]) == all_src_sum(mb, i));
        assert(mv(mb, ProdSource::EL_INSITU, i) >= mv(ma, ProdSource::EL_INSITU, i) && mv(mb, ProdSource::EL_COGEN, i) >= mv(ma, ProdSource::EL_COGEN, i)
            && mv(mb, ProdSource::TERMOSOLAR, i) >= mv(ma, ProdSource::TERMOSOLAR, i) && mv(mb, ProdSource::EAMBIENTE, i) >= mv(ma, ProdSource::EAMBIENTE, i));
        lemma_exp_mono(lm, rv(a.prod.t@[i]), rv(b.prod.t@[i]), rv(a.used.epus_t@[i]));
    }
    lemma_sumf_le(a.exp.t@, b.exp.t@);
    let fg = py(fgrid(wf, el), y);
    let ga = rv(a.del.grid_an); let gb = rv(b.del.grid_an); let cg = rv(a.used.cgnus_an); let ea = rv(a.exp.an); let eb = rv(b.exp.an);
    assert(k * ea <= k * eb) by(nonlinear_arith) requires k >= 0real, ea <= eb;
    assert(fg * (gb + cg) <= fg * (ga + cg)) by(nonlinear_arith) requires fg >= 0real, gb <= ga;
    assert(fg * (gb + cg - k * eb) <= fg * (ga + cg - k * ea)) by(nonlinear_arith) requires fg >= 0real, gb <= ga, k * ea <= k * eb;
}
/// a carrier other than electricity is evaluated from the same values: same weighted energy
#[verifier::spinoff_prover]
pub proof fn lemma_c14_other(wf: Seq<Factor>, c: Carrier, a: Run, b: Run, lm: bool, wa: WeightedEnergy, wb: WeightedEnergy, k: real)
    requires run_ok(a, lm), run_ok(b, lm), run_n(a) == run_n(b), more_onsite_el(a.cs, b.cs), c != Carrier::ELECTRICIDAD,
             wf_list(a.cs, run_n(a) as nat), same_carrier(a.cs, c), clear_run(a), clear_run(b),
             cwe_post(wf, c, k, a.used, a.exp, a.del, Ok(wa)), cwe_post(wf, c, k, b.used, b.exp, b.del, Ok(wb)),
    ensures r3v(wb.a) == r3v(wa.a), r3v(wb.b) == r3v(wa.b),
{
    assert(e_has_carrier(a.cs[0], c));
    assert forall|i: int| 0 <= i < run_n(a) implies #[trigger] val_rel(a.cs, b.cs, i, i, 1real) by {
        assert forall|j: int| 0 <= j < a.cs.len() implies rv(#[trigger] e_vals(b.cs[j])[i]) == 1real * rv(e_vals(a.cs[j])[i]) by {
            assert(e_has_carrier(a.cs[j], c));
            assert(e_vals(a.cs[j]).len() == run_n(a));
            assert(!(a.cs[j] is Prod && a.cs[j]->Prod_0.source == ProdSource::EL_INSITU));
            assert(rv(e_vals(b.cs[j])[i]) == rv(e_vals(a.cs[j])[i]));
            assert(1real * rv(e_vals(a.cs[j])[i]) == rv(e_vals(a.cs[j])[i])) by(nonlinear_arith);
        }
    }
    assert forall|i: int| 0 <= i < run_n(a) implies in_dom(rv(#[trigger] a.prod.t@[i])) && in_dom(rv(b.prod.t@[i])) by {}
    thm_c11_carrier(a, b, lm, 1real, wf, c, k, Ok(wa), Ok(wb));
    let x = r3v(wa.a); let z = r3v(wa.b);
    assert(1real * x.ren == x.ren && 1real * x.nren == x.nren && 1real * x.co2 == x.co2 && 1real * z.ren == z.ren && 1real * z.nren == z.nren && 1real * z.co2 == z.co2) by(nonlinear_arith);
}
#[verifier::spinoff_prover]
pub proof fn lemma_c14_carrier2(comps: Components, comps2: Components, w: Seq<Factor>, k_exp: f32, lm: bool, x: EnergyPerformance, z: EnergyPerformance, c: Carrier)
    requires comps_wf(comps.data@), comps_wf(comps2.data@), nonneg_list(comps.data@), nonneg_list(comps2.data@), more_onsite_el(comps.data@, comps2.data@),
             ep_carriers_ok(comps, k_exp, lm, x), ep_carriers_ok(comps2, k_exp, lm, z), x.wfactors.wdata@ == w, z.wfactors.wdata@ == w,
             0real <= rv(k_exp) <= 1real, !any_sel(comps.data@, Sel::Prod(ProdSource::EL_COGEN)), c14_shape(w, 1), c14_shape(w, 2),
             c13_clear(x.balance_cr@), c13_clear(z.balance_cr@), x.balance_cr@.contains_key(c),
    ensures z.balance_cr@.contains_key(c), c14_le(x.balance_cr@[c], z.balance_cr@[c]),
{
    let cs = comps.data@; let cs2 = comps2.data@; let k = rv(k_exp);
    let n = nsteps(cs);
    assert(nsteps(cs2) == n) by { if cs.len() > 0 { assert(e_vals(cs2[0]).len() == e_vals(cs[0]).len()); } }
    lemma_avail_tags(cs, cs2, c);
    assert(z.balance_cr@.contains_key(c));
    reveal(bfc_post);
    let bx = x.balance_cr@[c]; let bz = z.balance_cr@[c];
    let fa = filter_carrier(cs, c); let fb = filter_carrier(cs2, c);
    let a = Run { cs: fa, used: bx.used, prod: bx.prod, fm: bx.f_match@, exp: bx.exp, del: bx.del };
    let b = Run { cs: fb, used: bz.used, prod: bz.prod, fm: bz.f_match@, exp: bz.exp, del: bz.del };
    lemma_filter_carrier(cs, c, n); lemma_filter_carrier(cs2, c, n);
    lemma_nonneg_filter(cs, c); lemma_nonneg_filter(cs2, c);
    lemma_more_onsite_filter(cs, cs2, c);
    assert(e_has_carrier(fa[0], c) && e_has_carrier(fb[0], c));
    assert(run_n(a) == n && run_n(b) == n) by { assert(e_vals(fa[0]).len() == n && e_vals(fb[0]).len() == n); }
    assert(clear_run(a) && clear_run(b)) by { assert(clear_prod(bx.prod.t@) && clear_prod(bz.prod.t@)); }
    if c == Carrier::ELECTRICIDAD {
        lemma_acc_filter(cs, c, Sel::Prod(ProdSource::EL_COGEN), Sel::Prod(ProdSource::EL_COGEN), 0);
        lemma_c14_el_pair(w, a, b, lm, bx.we, bz.we, k, 1);
        lemma_c14_el_pair(w, a, b, lm, bx.we, bz.we, k, 2);
    } else {
        lemma_c14_other(w, c, a, b, lm, bx.we, bz.we, k);
    }
}
/// C14 (non-renewable primary energy, CO2) at the public entry point, buildings without cogenerated electricity: the same building with
/// more on-site electricity production at any steps, everything else equal, any k_exp in [0, 1], with or without load matching: the
/// non-renewable primary energy and the emissions of every carrier and of the whole building do not increase, at step A and at step B
pub proof fn thm_c14_nren_co2(comps: Components, comps2: Components, w: Seq<Factor>, k_exp: f32, area: f32, lm: bool, r: Result<EnergyPerformance>, r2: Result<EnergyPerformance>)
    requires comps_wf(comps.data@), comps_wf(comps2.data@), nonneg_list(comps.data@), nonneg_list(comps2.data@), more_onsite_el(comps.data@, comps2.data@),
             ep_post(comps, w, k_exp, area, lm, r), ep_post(comps2, w, k_exp, area, lm, r2), r is Ok, r2 is Ok,
             0real <= rv(k_exp) <= 1real, !any_sel(comps.data@, Sel::Prod(ProdSource::EL_COGEN)), c14_shape(w, 1), c14_shape(w, 2),
             c13_clear(r->Ok_0.balance_cr@), c13_clear(r2->Ok_0.balance_cr@),
    ensures forall|c: Carrier| r->Ok_0.balance_cr@.contains_key(c) ==> r2->Ok_0.balance_cr@.contains_key(c) && c14_le(#[trigger] r->Ok_0.balance_cr@[c], r2->Ok_0.balance_cr@[c]),
            rv(r2->Ok_0.balance.we.a.nren) <= rv(r->Ok_0.balance.we.a.nren), rv(r2->Ok_0.balance.we.a.co2) <= rv(r->Ok_0.balance.we.a.co2),
            rv(r2->Ok_0.balance.we.b.nren) <= rv(r->Ok_0.balance.we.b.nren), rv(r2->Ok_0.balance.we.b.co2) <= rv(r->Ok_0.balance.we.b.co2),
{
    let x = r->Ok_0; let z = r2->Ok_0; let cs = comps.data@; let cs2 = comps2.data@;
    let bcr = x.balance_cr@; let bcr2 = z.balance_cr@;
    assert(any_sel(cs2, Sel::Prod(ProdSource::EL_COGEN)) == any_sel(cs, Sel::Prod(ProdSource::EL_COGEN))) by { lemma_any_sel_tags(cs, cs2, Sel::Prod(ProdSource::EL_COGEN)); }
    assert(x.wfactors.wdata@ == w && z.wfactors.wdata@ == w);
    assert(ep_carriers_ok(comps, k_exp, lm, x) && ep_carriers_ok(comps2, k_exp, lm, z));
    assert forall|c: Carrier| bcr.contains_key(c) implies bcr2.contains_key(c) && c14_le(#[trigger] bcr[c], bcr2[c]) by { lemma_c14_carrier2(comps, comps2, w, k_exp, lm, x, z, c); }
    assert forall|c: Carrier| bcr.contains_key(c) == bcr2.contains_key(c) by { lemma_avail_tags(cs, cs2, c); }
    assert(bcr2.dom() =~= bcr.dom());
    thm_c04_totals(bcr, comps, x.balance); thm_c04_totals(bcr2, comps2, z.balance);
    let dom = bcr.dom();
    let f1 = |q: BalanceCarrier| rv(q.we.a.nren); let f2 = |q: BalanceCarrier| rv(q.we.a.co2); let f3 = |q: BalanceCarrier| rv(q.we.b.nren); let f4 = |q: BalanceCarrier| rv(q.we.b.co2);
    assert forall|c: Carrier| dom.contains(c) implies #[trigger] gsel(bcr2, f1)(c) <= gsel(bcr, f1)(c) by { assert(c14_le(bcr[c], bcr2[c])); }
    assert forall|c: Carrier| dom.contains(c) implies #[trigger] gsel(bcr2, f2)(c) <= gsel(bcr, f2)(c) by { assert(c14_le(bcr[c], bcr2[c])); }
    assert forall|c: Carrier| dom.contains(c) implies #[trigger] gsel(bcr2, f3)(c) <= gsel(bcr, f3)(c) by { assert(c14_le(bcr[c], bcr2[c])); }
    assert forall|c: Carrier| dom.contains(c) implies #[trigger] gsel(bcr2, f4)(c) <= gsel(bcr, f4)(c) by { assert(c14_le(bcr[c], bcr2[c])); }
    lemma_csum_le(dom, gsel(bcr, f1), gsel(bcr2, f1), carriers12());
    lemma_csum_le(dom, gsel(bcr, f2), gsel(bcr2, f2), carriers12());
    lemma_csum_le(dom, gsel(bcr, f3), gsel(bcr2, f3), carriers12());
    lemma_csum_le(dom, gsel(bcr, f4), gsel(bcr2, f4), carriers12());
}

// ================================================================================================ with cogenerated electricity
/// u(x) - u(y) <= (y - x) fm(y) from 1 on (sharper than lemma_u_lip_high)
pub proof fn lemma_u_fm_high(x: real, y: real)
    requires 1real <= x <= y,
    ensures uz(x) <= uz(y) + (y - x) * fm_of_x(y), fm_of_x(y) >= 0real,
{
    let dx = x * x + 1real; let dy = y * y + 1real; let ny = y * y - y + 1real;
    lemma_fm_poly(y);
    assert(dx >= x && dx > 0real) by(nonlinear_arith) requires dx == x * x + 1real, x >= 1real;
    assert(dy > 0real) by(nonlinear_arith) requires dy == y * y + 1real;
    assert(ny >= y) by(nonlinear_arith) requires ny == y * y - y + 1real;
    assert(ny * dx >= x * y) by(nonlinear_arith) requires ny >= y, dx >= x, x >= 1real, y >= 1real;
    assert(x * (y * y + 1real) - y * (x * x + 1real) == (y - x) * (x * y - 1real)) by(nonlinear_arith);
    let q = ny * dx;
    assert((y - x) * (x * y - 1real) <= (y - x) * q) by(nonlinear_arith) requires y - x >= 0real, x * y - 1real <= q;
    let t = y + (y - x) * ny;
    assert(t * dx == y * dx + (y - x) * q) by(nonlinear_arith) requires t == y + (y - x) * ny, q == ny * dx;
    assert(x * dy <= t * dx);
    lemma_div_le(x, dx, t, dy);
    assert(t / dy == y / dy + (y - x) * (ny / dy)) by(nonlinear_arith) requires dy > 0real, t == y + (y - x) * ny;
    assert(ny / dy >= 0real) by(nonlinear_arith) requires ny >= y, y >= 1real, dy > 0real;
}
/// the cogenerated electricity used on site does not increase when the on-site production grows
pub proof fn lemma_cg_mono(lm: bool, pv: real, pv2: real, chp: real, us: real)
    requires 0real <= pv <= pv2, chp >= 0real, us >= 0real,
    ensures pri_cogen(pv2, chp, us, fmatch(lm, pv2 + chp, us)) <= pri_cogen(pv, chp, us, fmatch(lm, pv + chp, us)),
{
    let m1 = rmin(chp, us - rmin(pv, us)); let m2 = rmin(chp, us - rmin(pv2, us));
    let f1 = fmatch(lm, pv + chp, us); let f2 = fmatch(lm, pv2 + chp, us);
    lemma_fmatch_range(lm, pv + chp, us); lemma_fmatch_range(lm, pv2 + chp, us);
    assert(0real <= m2 <= m1);
    if m2 == 0real {
        lemma_mul0(f2);
        assert(m1 * f1 >= 0real) by(nonlinear_arith) requires m1 >= 0real, f1 >= 0real;
    } else if !lm {
        assert(m2 * 1real <= m1 * 1real) by(nonlinear_arith) requires m2 <= m1;
    } else {
        // m2 > 0: pv2 < us, chp > 0, us > 0
        assert(pv2 < us && chp > 0real && us > 0real);
        let pt = pv + chp; let pt2 = pv2 + chp;
        if pt2 <= us {
            lemma_cg_low(pv, pv2, chp, us);
        } else if pt >= us {
            lemma_cg_high(pv, pv2, chp, us);
        } else {
            let pvs = us - chp;
            assert(pv < pvs < pv2);
            lemma_cg_low(pv, pvs, chp, us);
            lemma_cg_high(pvs, pv2, chp, us);
        }
    }
}
pub proof fn lemma_cg_low(pv: real, pv2: real, chp: real, us: real)
    requires 0real <= pv <= pv2, chp > 0real, us > 0real, pv2 + chp <= us,
    ensures pri_cogen(pv2, chp, us, fmatch(true, pv2 + chp, us)) <= pri_cogen(pv, chp, us, fmatch(true, pv + chp, us)),
{
    let pt = pv + chp; let pt2 = pv2 + chp;
    let x = pt / us; let y = pt2 / us;
    assert(0real < x <= y <= 1real) by(nonlinear_arith) requires 0real < pt <= pt2, pt2 <= us, us > 0real, x == pt / us, y == pt2 / us;
    lemma_fmatch_stages(pt, us); lemma_fmatch_stages(pt2, us);
    assert(fmatch(true, pt, us) == fm_of_x(x) && fmatch(true, pt2, us) == fm_of_x(y));
    lemma_fm_u(x); lemma_fm_u(y); lemma_u_mono_low(x, y);
    let f1 = fm_of_x(x); let f2 = fm_of_x(y);
    assert(rmin(chp, us - rmin(pv, us)) == chp && rmin(chp, us - rmin(pv2, us)) == chp);
    assert(chp * f2 <= chp * f1) by(nonlinear_arith) requires chp > 0real, f2 <= f1;
}
pub proof fn lemma_cg_high(pv: real, pv2: real, chp: real, us: real)
    requires 0real <= pv <= pv2, chp > 0real, us > 0real, pv + chp >= us, pv2 < us,
    ensures pri_cogen(pv2, chp, us, fmatch(true, pv2 + chp, us)) <= pri_cogen(pv, chp, us, fmatch(true, pv + chp, us)),
{
    let pt = pv + chp; let pt2 = pv2 + chp;
    let x = pt / us; let y = pt2 / us;
    assert(1real <= x <= y && x * us == pt && y * us == pt2) by(nonlinear_arith) requires us <= pt <= pt2, us > 0real, x == pt / us, y == pt2 / us;
    lemma_fmatch_stages(pt, us); lemma_fmatch_stages(pt2, us);
    assert(fmatch(true, pt, us) == fm_of_x(x) && fmatch(true, pt2, us) == fm_of_x(y));
    lemma_fm_u(x); lemma_fm_u(y); lemma_u_fm_high(x, y);
    let f1 = fm_of_x(x); let f2 = fm_of_x(y);
    let a = us - pv; let d = pv2 - pv;
    assert(rmin(chp, us - rmin(pv, us)) == a && rmin(chp, us - rmin(pv2, us)) == a - d);
    // f2 - f1 = u(x) - u(y) <= (y - x) f2 ;  (y - x) us = d ;  a <= us
    assert((y - x) * us == d) by(nonlinear_arith) requires x * us == pt, y * us == pt2, d == pt2 - pt;
    assert(f2 - f1 <= (y - x) * f2);
    assert(a * (f2 - f1) <= a * ((y - x) * f2)) by(nonlinear_arith) requires a >= 0real, f2 - f1 <= (y - x) * f2;
    let z = (y - x) * f2;
    assert(z >= 0real) by(nonlinear_arith) requires y - x >= 0real, f2 >= 0real, z == (y - x) * f2;
    assert(a * z <= us * z) by(nonlinear_arith) requires 0real <= a <= us, z >= 0real;
    assert(us * ((y - x) * f2) == d * f2) by(nonlinear_arith) requires (y - x) * us == d;
    assert((a - d) * f2 == a * f2 - d * f2 && a * (f2 - f1) == a * f2 - a * f1) by(nonlinear_arith);
}

// ------------------------------------------------------------------------------------------------ exports by source add up
pub proof fn lemma_c14_esv(a: Run, s: ProdSource, f: spec_fn(int) -> real)
    requires ced_post(a.used, a.prod, a.exp, a.del), forall|i: int| #[trigger] f(i) == mv(a.exp.by_src_t@, s, i),
    ensures fsum(f, run_n(a)) == mval(a.exp.by_src_an@, s),
{
    let m = a.exp.by_src_t@;
    assert(a.exp.by_src_an@.contains_key(s) == m.contains_key(s));
    if m.contains_key(s) {
        assert(a.prod.by_src_t@.contains_key(s));
        assert(m[s]@.len() == run_n(a));
        assert forall|i: int| 0 <= i < m[s]@.len() implies #[trigger] f(i) == rv(m[s]@[i]) by { assert(f(i) == mv(m, s, i)); }
        lemma_fsum_sumf(m[s]@, f);
        assert(rv(a.exp.by_src_an@[s]) == sumf(m[s]@));
    } else {
        assert forall|i: int| 0 <= i < run_n(a) implies #[trigger] f(i) == 0real by { assert(f(i) == mv(m, s, i)); }
        lemma_fsum_zero(f, run_n(a));
    }
}
/// electricity: the exports of the two possible sources add up to the exported energy
#[verifier::spinoff_prover]
pub proof fn lemma_c14_src_sum(a: Run, lm: bool)
    requires run_ok(a, lm), nonneg_list(a.cs), wf_list(a.cs, run_n(a) as nat), same_carrier(a.cs, Carrier::ELECTRICIDAD), clear_run(a),
    ensures !a.exp.by_src_an@.contains_key(ProdSource::TERMOSOLAR), !a.exp.by_src_an@.contains_key(ProdSource::EAMBIENTE),
            mval(a.exp.by_src_an@, ProdSource::EL_INSITU) + mval(a.exp.by_src_an@, ProdSource::EL_COGEN) == rv(a.exp.an),
{
    let el = Carrier::ELECTRICIDAD; let pv = ProdSource::EL_INSITU; let cgs = ProdSource::EL_COGEN; let n = run_n(a);
    let mp = a.prod.by_src_t@; let mu = a.prod.epus_by_src_t@; let me = a.exp.by_src_t@;
    assert(e_has_carrier(a.cs[0], el));
    assert(!mp.contains_key(ProdSource::TERMOSOLAR)) by { if any_sel(a.cs, Sel::Prod(ProdSource::TERMOSOLAR)) { lemma_has_prod_carrier(a.cs, el, ProdSource::TERMOSOLAR); } }
    assert(!mp.contains_key(ProdSource::EAMBIENTE)) by { if any_sel(a.cs, Sel::Prod(ProdSource::EAMBIENTE)) { lemma_has_prod_carrier(a.cs, el, ProdSource::EAMBIENTE); } }
    assert(me.dom() =~= mp.dom() && a.exp.by_src_an@.dom() =~= mp.dom());
    assert(flows_shape(a.used, a.prod));
    let f1 = |i: int| mv(me, pv, i); let f2 = |i: int| mv(me, cgs, i); let f3 = |i: int| 0real; let g = |i: int| rv(a.exp.t@[i]);
    assert(a.exp.t@.len() == n);
    assert forall|i: int| 0 <= i < n implies #[trigger] g(i) == f1(i) + f2(i) + f3(i) by {
        assert(rv(a.used.epus_t@[i]) >= 0real);
        assert(all_src_sum(mu, i) == rv(a.prod.epus_t@[i]));
        assert(rv(a.prod.t@[i]) == all_src_sum(mp, i));
        assert(rv(a.exp.t@[i]) == rv(a.prod.t@[i]) - rv(a.prod.epus_t@[i]));
        if pri(e_carrier(a.cs[0]), mp) { assert(mu.dom() =~= set![pv, cgs]); } else { assert(mu.dom() =~= mp.dom()); }
        assert(!mu.contains_key(ProdSource::TERMOSOLAR) && !mu.contains_key(ProdSource::EAMBIENTE));
        assert(mp.contains_key(pv) == mu.contains_key(pv) && mp.contains_key(cgs) == mu.contains_key(cgs));
        if mp.contains_key(pv) { assert(rv(me[pv]@[i]) == rv(mp[pv]@[i]) - rv(mu[pv]@[i])); }
        if mp.contains_key(cgs) { assert(rv(me[cgs]@[i]) == rv(mp[cgs]@[i]) - rv(mu[cgs]@[i])); }
    }
    lemma_fsum_add3(f1, f2, f3, g, n);
    assert forall|i: int| 0 <= i < n implies #[trigger] f3(i) == 0real by {}
    lemma_fsum_zero(f3, n);
    assert forall|i: int| 0 <= i < a.exp.t@.len() implies #[trigger] g(i) == rv(a.exp.t@[i]) by {}
    lemma_fsum_sumf(a.exp.t@, g);
    lemma_exp_an_sum(a);
    lemma_c14_esv(a, pv, f1); lemma_c14_esv(a, cgs, f2);
}
/// the factors of cogenerated electricity (derived by add_cgn_factors): step A = G, step B = grid factor, to both destinations
pub open spec fn c14_cgn_shape(wf: Seq<Factor>, y: int, gy: real) -> bool {
    let el = Carrier::ELECTRICIDAD;
    &&& gy >= 0real
    &&& py(fp(wf, el, Source::COGEN, Dest::A_NEPB, Step::A), y) == gy && py(fp(wf, el, Source::COGEN, Dest::A_RED, Step::A), y) == gy
    &&& py(fp(wf, el, Source::COGEN, Dest::A_NEPB, Step::B), y) == py(fgrid(wf, el), y) && py(fp(wf, el, Source::COGEN, Dest::A_RED, Step::B), y) == py(fgrid(wf, el), y)
}
pub proof fn lemma_c14_wterm(e: real, en: real, f: real)
    requires en > 0real,
    ensures en * ((e / en) * f) == e * f,
{
    assert(en * (e / en) == e) by(nonlinear_arith) requires en > 0real;
    assert(en * ((e / en) * f) == (en * (e / en)) * f) by(nonlinear_arith);
}
/// closed form of the electricity balance (y: non-renewable / CO2 part) with on-site and cogenerated electricity:
///   step A = fg (grid delivery + cogeneration input) - exported cogenerated x G
///   step B = fg (grid delivery + cogeneration input - k exported) - (1 - k) exported cogenerated x G
#[verifier::spinoff_prover]
pub proof fn lemma_c14_el_form(wf: Seq<Factor>, a: Run, we: WeightedEnergy, k: real, y: int, gy: real)
    requires cwe_post(wf, Carrier::ELECTRICIDAD, k, a.used, a.exp, a.del, Ok(we)), c14_shape(wf, y), c14_cgn_shape(wf, y, gy),
             !a.exp.by_src_an@.contains_key(ProdSource::TERMOSOLAR), !a.exp.by_src_an@.contains_key(ProdSource::EAMBIENTE),
             mval(a.exp.by_src_an@, ProdSource::EL_INSITU) + mval(a.exp.by_src_an@, ProdSource::EL_COGEN) == rv(a.exp.an),
             mval(a.exp.by_src_an@, ProdSource::EL_INSITU) >= 0real, mval(a.exp.by_src_an@, ProdSource::EL_COGEN) >= 0real,
             rv(a.exp.nepus_an) >= 0real, rv(a.exp.grid_an) >= 0real, rv(a.exp.an) == rv(a.exp.nepus_an) + rv(a.exp.grid_an), rv(a.del.cgn_an) == rv(a.used.cgnus_an),
    ensures py(r3v(we.a), y) == py(fgrid(wf, Carrier::ELECTRICIDAD), y) * (rv(a.del.grid_an) + rv(a.used.cgnus_an)) - mval(a.exp.by_src_an@, ProdSource::EL_COGEN) * gy,
            py(r3v(we.b), y) == py(fgrid(wf, Carrier::ELECTRICIDAD), y) * (rv(a.del.grid_an) + rv(a.used.cgnus_an) - k * rv(a.exp.an))
                                - (1real - k) * (mval(a.exp.by_src_an@, ProdSource::EL_COGEN) * gy),
{
    let el = Carrier::ELECTRICIDAD; let pv = ProdSource::EL_INSITU; let cgs = ProdSource::EL_COGEN;
    let exp = a.exp; let del = a.del; let m = exp.by_src_an@;
    let en = rv(exp.an); let nn = rv(exp.nepus_an); let rr = rv(exp.grid_an);
    let fg = py(fgrid(wf, el), y);
    let gr = rv(del.grid_an); let cg = rv(a.used.cgnus_an); let ons = rv(del.onst_an);
    let e1 = mval(m, pv); let e2 = mval(m, cgs);
    assert(r3v(we.a) == we_a(wf, el, exp, del) && r3v(we.b) == we_b(wf, el, exp, del, k));
    lemma_mul0(fg); lemma_mul0(ons); lemma_mul0(k); lemma_mul0(gy);
    assert(py(we_del_onst(wf, el, del), y) == 0real);
    assert(py(we_del(wf, el, del), y) == gr * fg + cg * fg);
    lemma_dist2(fg, gr, cg);
    assert(gr * fg == fg * gr && cg * fg == fg * cg) by(nonlinear_arith);
    let dl = fg * (gr + cg);
    assert(py(we_del(wf, el, del), y) == dl);
    if en == 0real {
        assert(e2 == 0real);
        assert(we_exp(wf, el, exp, k) == r3z() && we_exp_a(wf, el, exp) == r3z());
        lemma_dist2(fg, gr + cg, k * en);
        lemma_mul0(1real - k);
    } else {
        assert(en > 0real);
        // the four average factors of the exported energy (y part), multiplied by the exported energy
        let ta = py(favg(wf, el, m, en, Dest::A_NEPB, Step::A), y); let tra = py(favg(wf, el, m, en, Dest::A_RED, Step::A), y);
        let tb = py(favg(wf, el, m, en, Dest::A_NEPB, Step::B), y); let trb = py(favg(wf, el, m, en, Dest::A_RED, Step::B), y);
        let w1 = e1 / en; let w2 = e2 / en;
        lemma_mul0(w1); lemma_mul0(w2);
        lemma_c14_wterm(e1, en, fg); lemma_c14_wterm(e2, en, fg); lemma_c14_wterm(e2, en, gy);
        let c1 = if m.contains_key(pv) { w1 * fg } else { 0real };
        let c2 = if m.contains_key(cgs) { w2 * fg } else { 0real };
        let c3 = if m.contains_key(cgs) { w2 * gy } else { 0real };
        assert(en * c1 == e1 * fg) by { if !m.contains_key(pv) { lemma_mul0(en); } }
        assert(en * c2 == e2 * fg) by { if !m.contains_key(cgs) { lemma_mul0(en); } }
        assert(en * c3 == e2 * gy) by { if !m.contains_key(cgs) { lemma_mul0(en); } }
        assert(ta == c3 && tra == c3);
        assert(tb == c1 + c2 && trb == c1 + c2);
        assert(py(we_exp_nepus_a(wf, el, exp), y) == nn * c3) by { if nn == 0real { lemma_mul0(c3); } }
        assert(py(we_exp_grid_a(wf, el, exp), y) == rr * c3) by { if rr == 0real { lemma_mul0(c3); } }
        let ea = nn * c3 + rr * c3;
        assert(py(we_exp_a(wf, el, exp), y) == ea);
        assert(ea == en * c3) by(nonlinear_arith) requires en == nn + rr, ea == nn * c3 + rr * c3;
        let dd = c1 + c2 - c3;
        assert(py(we_exp_nepus_ab(wf, el, exp), y) == nn * dd) by { if nn == 0real { lemma_mul0(dd); } }
        assert(py(we_exp_grid_ab(wf, el, exp), y) == rr * dd) by { if rr == 0real { lemma_mul0(dd); } }
        let eab = nn * dd + rr * dd;
        assert(py(we_exp_ab(wf, el, exp), y) == eab);
        assert(eab == en * dd) by(nonlinear_arith) requires en == nn + rr, eab == nn * dd + rr * dd;
        assert(en * dd == en * c1 + en * c2 - en * c3) by(nonlinear_arith) requires dd == c1 + c2 - c3;
        assert(e1 * fg + e2 * fg == en * fg) by(nonlinear_arith) requires e1 + e2 == en;
        let xg = e2 * gy;
        assert(ea == xg && eab == en * fg - xg);
        assert(py(we_exp(wf, el, exp, k), y) == ea + k * eab);
        assert(py(r3v(we.a), y) == dl - xg);
        assert(py(r3v(we.b), y) == dl - (xg + k * (en * fg - xg)));
        assert(fg * (gr + cg - k * en) == dl - k * (en * fg)) by(nonlinear_arith) requires dl == fg * (gr + cg);
        assert(k * (en * fg - xg) == k * (en * fg) - k * xg) by(nonlinear_arith);
        assert((1real - k) * xg == xg - k * xg) by(nonlinear_arith);
    }
}
pub proof fn lemma_no_pv(cs: Seq<Energy>)
    requires !any_sel(cs, Sel::Prod(ProdSource::EL_INSITU)),
    ensures forall|j: int| 0 <= j < cs.len() ==> !((#[trigger] cs[j]) is Prod && cs[j]->Prod_0.source == ProdSource::EL_INSITU),
    decreases cs.len(),
{
    if cs.len() > 0 {
        lemma_no_pv(cs.drop_last());
        assert forall|j: int| 0 <= j < cs.len() implies !((#[trigger] cs[j]) is Prod && cs[j]->Prod_0.source == ProdSource::EL_INSITU) by {
            if j < cs.len() - 1 { assert(cs.drop_last()[j] == cs[j]); } else { assert(cs[j] == cs.last()); }
        }
    }
}
/// two evaluations of one carrier from the same values under factor sets that read the same for the carrier: same weighted energy
#[verifier::spinoff_prover]
pub proof fn lemma_c14_same(wf1: Seq<Factor>, wf2: Seq<Factor>, c: Carrier, a: Run, b: Run, lm: bool, wa: WeightedEnergy, wb: WeightedEnergy, k: real)
    requires run_ok(a, lm), run_ok(b, lm), run_n(a) == run_n(b), more_onsite_el(a.cs, b.cs), !any_sel(a.cs, Sel::Prod(ProdSource::EL_INSITU)),
             wf_list(a.cs, run_n(a) as nat), same_carrier(a.cs, c), clear_run(a), clear_run(b), fp_same(wf1, wf2, c),
             cwe_post(wf1, c, k, a.used, a.exp, a.del, Ok(wa)), cwe_post(wf2, c, k, b.used, b.exp, b.del, Ok(wb)),
    ensures r3v(wb.a) == r3v(wa.a), r3v(wb.b) == r3v(wa.b),
{
    let n = run_n(a);
    let idx = idx_ident(n);
    lemma_no_pv(a.cs);
    assert(e_has_carrier(a.cs[0], c));
    lemma_sel_same(a.cs, b.cs);
    assert(same_tags(a.cs[0], b.cs[0]));
    lemma_same_tags_sel(a.cs[0], b.cs[0], Sel::Epus);
    assert forall|i: int| 0 <= i < n implies #[trigger] val_rel(a.cs, b.cs, i, i, 1real) by {
        assert forall|j: int| 0 <= j < a.cs.len() implies rv(#[trigger] e_vals(b.cs[j])[i]) == 1real * rv(e_vals(a.cs[j])[i]) by {
            assert(e_vals(a.cs[j]).len() == n);
            assert(!(a.cs[j] is Prod && a.cs[j]->Prod_0.source == ProdSource::EL_INSITU));
            assert(rv(e_vals(b.cs[j])[i]) == rv(e_vals(a.cs[j])[i]));
            assert(1real * rv(e_vals(a.cs[j])[i]) == rv(e_vals(a.cs[j])[i])) by(nonlinear_arith);
        }
    }
    assert forall|i2: int| 0 <= i2 < idx.len() implies 0 <= #[trigger] idx[i2] < run_n(a) && acc_rel(a.cs, b.cs, idx[i2], i2, 1real)
            && in_dom(rv(a.prod.t@[idx[i2]])) && in_dom(rv(b.prod.t@[i2])) by {
        assert(idx[i2] == i2);
        assert(val_rel(a.cs, b.cs, i2, i2, 1real));
        lemma_acc_rel(a.cs, b.cs, i2, i2, 1real);
    }
    lemma_lay_same(n, 1real);
    lemma_fp_same_lookups(wf1, wf2, c, a.exp, a.del);
    thm_carrier(a, b, lm, idx, 1real, 1real, wf1, wf2, c, k, Ok(wa), Ok(wb));
    let x = r3v(wa.a); let z = r3v(wa.b);
    assert(1real * x.ren == x.ren && 1real * x.nren == x.nren && 1real * x.co2 == x.co2 && 1real * z.ren == z.ren && 1real * z.nren == z.nren && 1real * z.co2 == z.co2) by(nonlinear_arith);
}
/// electricity with on-site and cogenerated production, the second evaluation with more on-site production at some steps
#[verifier::spinoff_prover]
pub proof fn lemma_c14_el_pair2(wf1: Seq<Factor>, wf2: Seq<Factor>, a: Run, b: Run, lm: bool, wa: WeightedEnergy, wb: WeightedEnergy, k: real, y: int, gy: real)
    requires run_ok(a, lm), run_ok(b, lm), run_n(a) == run_n(b), more_onsite_el(a.cs, b.cs), 0real <= k <= 1real,
             nonneg_list(a.cs), wf_list(a.cs, run_n(a) as nat), same_carrier(a.cs, Carrier::ELECTRICIDAD), clear_run(a),
             nonneg_list(b.cs), wf_list(b.cs, run_n(b) as nat), same_carrier(b.cs, Carrier::ELECTRICIDAD), clear_run(b),
             any_sel(a.cs, Sel::Prod(ProdSource::EL_INSITU)), any_sel(a.cs, Sel::Prod(ProdSource::EL_COGEN)),
             c14_shape(wf1, y), c14_shape(wf2, y), c14_cgn_shape(wf1, y, gy), c14_cgn_shape(wf2, y, gy),
             py(fgrid(wf1, Carrier::ELECTRICIDAD), y) == py(fgrid(wf2, Carrier::ELECTRICIDAD), y),
             cwe_post(wf1, Carrier::ELECTRICIDAD, k, a.used, a.exp, a.del, Ok(wa)), cwe_post(wf2, Carrier::ELECTRICIDAD, k, b.used, b.exp, b.del, Ok(wb)),
    ensures py(r3v(wb.a), y) <= py(r3v(wa.a), y), py(r3v(wb.b), y) <= py(r3v(wa.b), y),
{
    let n = run_n(a) as nat; let el = Carrier::ELECTRICIDAD; let pv = ProdSource::EL_INSITU; let cgs = ProdSource::EL_COGEN;
    assert(e_has_carrier(a.cs[0], el) && e_has_carrier(b.cs[0], el));
    assert forall|q: Sel| #[trigger] any_sel(b.cs, q) == any_sel(a.cs, q) by { lemma_any_sel_tags(a.cs, b.cs, q); }
    assert forall|i: int| 0 <= i < n implies #[trigger] acc(b.cs, Sel::Epus, i) == acc(a.cs, Sel::Epus, i) by { lemma_more_onsite_acc(a.cs, b.cs, Sel::Epus, i, n); }
    assert forall|s: ProdSource, i: int| 0 <= i < n implies #[trigger] acc(b.cs, Sel::Prod(s), i) >= acc(a.cs, Sel::Prod(s), i) by { lemma_more_onsite_acc(a.cs, b.cs, Sel::Prod(s), i, n); }
    thm_c14_grid_carrier(a, b, lm);
    lemma_c13_flows(a, lm); lemma_c13_flows(b, lm);
    lemma_c14_src_sum(a, lm); lemma_c14_src_sum(b, lm);
    assert(esv(a, pv) >= 0real && esv(a, cgs) >= 0real && esv(b, pv) >= 0real && esv(b, cgs) >= 0real);
    lemma_c14_el_form(wf1, a, wa, k, y, gy); lemma_c14_el_form(wf2, b, wb, k, y, gy);
    // cogeneration input unchanged
    assert forall|i: int| 0 <= i < a.used.cgnus_t@.len() implies rv(#[trigger] a.used.cgnus_t@[i]) == rv(b.used.cgnus_t@[i]) by { lemma_more_onsite_acc(a.cs, b.cs, Sel::Cgn, i, n); }
    lemma_sumf_eq(a.used.cgnus_t@, b.used.cgnus_t@);
    let ma = a.prod.by_src_t@; let mb = b.prod.by_src_t@;
    assert(ma.contains_key(pv) && ma.contains_key(cgs) && mb.contains_key(pv) && mb.contains_key(cgs));
    assert(pri(e_carrier(a.cs[0]), ma) && pri(e_carrier(b.cs[0]), mb));
    assert(!ma.contains_key(ProdSource::TERMOSOLAR) && !ma.contains_key(ProdSource::EAMBIENTE) && !mb.contains_key(ProdSource::TERMOSOLAR) && !mb.contains_key(ProdSource::EAMBIENTE));
    // per step: total production grows, cogenerated production is the same, the cogenerated electricity used on site does not grow
    lemma_exp_an_sum(a); lemma_exp_an_sum(b);
    let va = a.exp.by_src_t@[cgs]@; let vb = b.exp.by_src_t@[cgs]@;
    assert(va.len() == n && vb.len() == n);
    assert forall|i: int| 0 <= i < n implies rv(#[trigger] a.exp.t@[i]) <= rv(b.exp.t@[i]) && rv(va[i]) <= rv(vb[i]) by {
        lemma_epus_is_g(a, lm, i); lemma_epus_is_g(b, lm, i);
        let us = rv(a.used.epus_t@[i]);
        assert(us == acc(a.cs, Sel::Epus, i) && rv(b.used.epus_t@[i]) == acc(b.cs, Sel::Epus, i));
        let p1 = rv(ma[pv]@[i]); let p2 = rv(mb[pv]@[i]); let ch = rv(ma[cgs]@[i]);
        assert(p1 == acc(a.cs, Sel::Prod(pv), i) && p2 == acc(b.cs, Sel::Prod(pv), i));
        assert(ch == acc(a.cs, Sel::Prod(cgs), i) && rv(mb[cgs]@[i]) == acc(b.cs, Sel::Prod(cgs), i));
        lemma_more_onsite_acc(a.cs, b.cs, Sel::Prod(cgs), i, n);
        lemma_more_onsite_acc(a.cs, b.cs, Sel::Prod(pv), i, n);
        lemma_acc_nonneg(a.cs, Sel::Prod(pv), i, n); lemma_acc_nonneg(a.cs, Sel::Prod(cgs), i, n);
        assert(rv(a.prod.t@[i]) == all_src_sum(ma, i) && rv(b.prod.t@[i]) == all_src_sum(mb, i));
        assert(rv(a.prod.t@[i]) == p1 + ch && rv(b.prod.t@[i]) == p2 + ch);
        lemma_exp_mono(lm, p1 + ch, p2 + ch, us);
        lemma_cg_mono(lm, p1, p2, ch, us);
        assert(rv(a.fm[i]) == fmatch(lm, p1 + ch, us) && rv(b.fm[i]) == fmatch(lm, p2 + ch, us));
        assert(rv(a.prod.epus_by_src_t@[cgs]@[i]) == pri_cogen(p1, ch, us, rv(a.fm[i])));
        assert(rv(b.prod.epus_by_src_t@[cgs]@[i]) == pri_cogen(p2, ch, us, rv(b.fm[i])));
        assert(rv(va[i]) == ch - rv(a.prod.epus_by_src_t@[cgs]@[i]) && rv(vb[i]) == ch - rv(b.prod.epus_by_src_t@[cgs]@[i]));
    }
    assert(a.exp.t@.len() == n && b.exp.t@.len() == n);
    lemma_sumf_le(a.exp.t@, b.exp.t@);
    assert forall|i: int| 0 <= i < va.len() implies rv(#[trigger] va[i]) <= rv(vb[i]) by { assert(rv(a.exp.t@[i]) <= rv(b.exp.t@[i]) && rv(va[i]) <= rv(vb[i])); }
    lemma_sumf_le(va, vb);
    let fg = py(fgrid(wf1, el), y);
    let ga = rv(a.del.grid_an); let gb = rv(b.del.grid_an); let cg = rv(a.used.cgnus_an); let ea = rv(a.exp.an); let eb = rv(b.exp.an);
    let xa = esv(a, cgs); let xb = esv(b, cgs);
    assert(xa == sumf(va) && xb == sumf(vb));
    assert(xa <= xb);
    assert(k * ea <= k * eb) by(nonlinear_arith) requires k >= 0real, ea <= eb;
    assert(xa * gy <= xb * gy) by(nonlinear_arith) requires xa <= xb, gy >= 0real;
    assert(fg * (gb + cg) <= fg * (ga + cg)) by(nonlinear_arith) requires fg >= 0real, gb <= ga;
    assert(fg * (gb + cg - k * eb) <= fg * (ga + cg - k * ea)) by(nonlinear_arith) requires fg >= 0real, gb <= ga, k * ea <= k * eb;
    assert((1real - k) * (xa * gy) <= (1real - k) * (xb * gy)) by(nonlinear_arith) requires 1real - k >= 0real, xa * gy <= xb * gy;
}
// ------------------------------------------------------------------------------------------------ the derived factor is the same in both evaluations
pub proof fn lemma_more_onsite_acc_an(cs: Seq<Energy>, cs2: Seq<Energy>, q: Sel, n: int, nn: nat)
    requires more_onsite_el(cs, cs2), wf_list(cs, nn), n <= nn, q != Sel::Prod(ProdSource::EL_INSITU),
    ensures acc_an(cs2, q, n) == acc_an(cs, q, n),
    decreases n,
{
    if n > 0 { lemma_more_onsite_acc_an(cs, cs2, q, n - 1, nn); lemma_more_onsite_acc(cs, cs2, q, n - 1, nn); }
}
pub proof fn lemma_c14_cgn_sum_same(w: Seq<Factor>, cs: Seq<Energy>, cs2: Seq<Energy>, n: int, l: Seq<Carrier>)
    requires more_onsite_el(cs, cs2), wf_list(cs, n as nat), n >= 0,
    ensures cgn_sum(w, cs2, n, false, l) == cgn_sum(w, cs, n, false, l),
    decreases l.len(),
{
    if l.len() > 0 {
        lemma_c14_cgn_sum_same(w, cs, cs2, n, l.drop_last());
        let fuel = l.last();
        lemma_any_sel_tags(cs, cs2, Sel::CgnFuel(fuel));
        lemma_more_onsite_acc_an(cs, cs2, Sel::CgnFuel(fuel), n, n as nat);
        lemma_more_onsite_acc_an(cs, cs2, Sel::Prod(ProdSource::EL_COGEN), n, n as nat);
    }
}
pub proof fn lemma_c14_g_nonneg(o: Seq<Factor>, cs: Seq<Energy>, n: int, y: int, l: Seq<Carrier>)
    requires nonneg_list(cs), wf_list(cs, n as nat), n >= 0, forall|c: Carrier| py(#[trigger] fgrid(o, c), y) >= 0real,
    ensures py(cgn_sum(o, cs, n, false, l), y) >= 0real,
    decreases l.len(),
{
    if l.len() > 0 {
        lemma_c14_g_nonneg(o, cs, n, y, l.drop_last());
        let fuel = l.last();
        let u = acc_an(cs, Sel::CgnFuel(fuel), n); let p = acc_an(cs, Sel::Prod(ProdSource::EL_COGEN), n);
        lemma_acc_an_nonneg(cs, Sel::CgnFuel(fuel), n, n as nat);
        assert(py(fgrid(o, fuel), y) >= 0real);
        let f = py(fgrid(o, fuel), y);
        lemma_c13_ratio(0real, u, p);
        assert(ratio(u, p) * f >= 0real) by(nonlinear_arith) requires ratio(u, p) >= 0real, f >= 0real;
    }
}
/// hypotheses on the factor set for the general theorem: the electricity shape, no factor of its own for cogenerated electricity,
/// non-negative grid factors (the derived factor of cogenerated electricity is a weighted sum of them)
pub open spec fn c14_factors(w: Seq<Factor>) -> bool {
    &&& c14_shape(w, 1) && c14_shape(w, 2)
    &&& (forall|j: int| 0 <= j < w.len() ==> (#[trigger] w[j]).source != Source::COGEN)
    &&& (forall|c: Carrier| py(#[trigger] fgrid(w, c), 1) >= 0real && py(fgrid(w, c), 2) >= 0real)
}
#[verifier::spinoff_prover]
pub proof fn lemma_c14_carrier3(comps: Components, comps2: Components, w: Seq<Factor>, k_exp: f32, lm: bool, x: EnergyPerformance, z: EnergyPerformance, c: Carrier)
    requires comps_wf(comps.data@), comps_wf(comps2.data@), nonneg_list(comps.data@), nonneg_list(comps2.data@), more_onsite_el(comps.data@, comps2.data@),
             ep_carriers_ok(comps, k_exp, lm, x), ep_carriers_ok(comps2, k_exp, lm, z),
             cgn_added(w, x.wfactors.wdata@, comps.data@), cgn_added(w, z.wfactors.wdata@, comps2.data@),
             0real <= rv(k_exp) <= 1real, c14_factors(w), nsteps(comps.data@) > 0,
             c13_clear(x.balance_cr@), c13_clear(z.balance_cr@), x.balance_cr@.contains_key(c),
    ensures z.balance_cr@.contains_key(c), c14_le(x.balance_cr@[c], z.balance_cr@[c]),
{
    let cs = comps.data@; let cs2 = comps2.data@; let k = rv(k_exp); let el = Carrier::ELECTRICIDAD;
    let wf1 = x.wfactors.wdata@; let wf2 = z.wfactors.wdata@;
    let n = nsteps(cs);
    assert(nsteps(cs2) == n) by { if cs.len() > 0 { assert(e_vals(cs2[0]).len() == e_vals(cs[0]).len()); } }
    lemma_avail_tags(cs, cs2, c);
    assert(z.balance_cr@.contains_key(c));
    reveal(bfc_post);
    let bx = x.balance_cr@[c]; let bz = z.balance_cr@[c];
    let fa = filter_carrier(cs, c); let fb = filter_carrier(cs2, c);
    let a = Run { cs: fa, used: bx.used, prod: bx.prod, fm: bx.f_match@, exp: bx.exp, del: bx.del };
    let b = Run { cs: fb, used: bz.used, prod: bz.prod, fm: bz.f_match@, exp: bz.exp, del: bz.del };
    lemma_filter_carrier(cs, c, n); lemma_filter_carrier(cs2, c, n);
    lemma_nonneg_filter(cs, c); lemma_nonneg_filter(cs2, c);
    lemma_more_onsite_filter(cs, cs2, c);
    assert(e_has_carrier(fa[0], c) && e_has_carrier(fb[0], c));
    assert(run_n(a) == n && run_n(b) == n) by { assert(e_vals(fa[0]).len() == n && e_vals(fb[0]).len() == n); }
    assert(clear_run(a) && clear_run(b)) by { assert(clear_prod(bx.prod.t@) && clear_prod(bz.prod.t@)); }
    // the two factor sets read the same wherever the given set is read, and give the same derived factors
    lemma_any_sel_tags(cs, cs2, Sel::Prod(ProdSource::EL_COGEN));
    assert(has_cgn_prod(cs2) == has_cgn_prod(cs));
    lemma_carriers12();
    lemma_c14_cgn_sum_same(w, cs, cs2, n as int, carriers12());
    assert(c13_g(w, cs2) == c13_g(w, cs));
    let has_pv = any_sel(fa, Sel::Prod(ProdSource::EL_INSITU));
    if c == el && has_pv {
        lemma_acc_filter(cs, c, Sel::Prod(ProdSource::EL_COGEN), Sel::Prod(ProdSource::EL_COGEN), 0);
        let g3 = c13_g(w, cs);
        assert forall|d: Dest, st: Step| #![trigger fp(wf1, el, Source::INSITU, d, st)] #![trigger fp(wf2, el, Source::INSITU, d, st)]
            fp(wf1, el, Source::INSITU, d, st) == fp(w, el, Source::INSITU, d, st) && fp(wf2, el, Source::INSITU, d, st) == fp(w, el, Source::INSITU, d, st) by {
            lemma_c13_lookup(w, wf1, cs, el, Source::INSITU, d, st); lemma_c13_lookup(w, wf2, cs2, el, Source::INSITU, d, st);
        }
        lemma_c13_lookup(w, wf1, cs, el, Source::RED, Dest::SUMINISTRO, Step::A); lemma_c13_lookup(w, wf2, cs2, el, Source::RED, Dest::SUMINISTRO, Step::A);
        assert(fgrid(wf1, el) == fgrid(w, el) && fgrid(wf2, el) == fgrid(w, el));
        assert(c14_shape(wf1, 1) && c14_shape(wf2, 1) && c14_shape(wf1, 2) && c14_shape(wf2, 2));
        if any_sel(fa, Sel::Prod(ProdSource::EL_COGEN)) {
            assert(has_cgn_prod(cs));
            lemma_c13_lookup(w, wf1, cs, el, Source::COGEN, Dest::A_NEPB, Step::A); lemma_c13_lookup(w, wf1, cs, el, Source::COGEN, Dest::A_RED, Step::A);
            lemma_c13_lookup(w, wf1, cs, el, Source::COGEN, Dest::A_NEPB, Step::B); lemma_c13_lookup(w, wf1, cs, el, Source::COGEN, Dest::A_RED, Step::B);
            lemma_c13_lookup(w, wf2, cs2, el, Source::COGEN, Dest::A_NEPB, Step::A); lemma_c13_lookup(w, wf2, cs2, el, Source::COGEN, Dest::A_RED, Step::A);
            lemma_c13_lookup(w, wf2, cs2, el, Source::COGEN, Dest::A_NEPB, Step::B); lemma_c13_lookup(w, wf2, cs2, el, Source::COGEN, Dest::A_RED, Step::B);
            lemma_c14_g_nonneg(w, cs, n as int, 1, carriers12()); lemma_c14_g_nonneg(w, cs, n as int, 2, carriers12());
            assert(c14_cgn_shape(wf1, 1, py(g3, 1)) && c14_cgn_shape(wf2, 1, py(g3, 1)) && c14_cgn_shape(wf1, 2, py(g3, 2)) && c14_cgn_shape(wf2, 2, py(g3, 2)));
            lemma_c14_el_pair2(wf1, wf2, a, b, lm, bx.we, bz.we, k, 1, py(g3, 1));
            lemma_c14_el_pair2(wf1, wf2, a, b, lm, bx.we, bz.we, k, 2, py(g3, 2));
        } else {
            // no cogenerated electricity: both evaluations use the given set
            assert(!has_cgn_prod(cs) && !has_cgn_prod(cs2));
            assert(wf1 == w && wf2 == w);
            lemma_c14_el_pair(w, a, b, lm, bx.we, bz.we, k, 1);
            lemma_c14_el_pair(w, a, b, lm, bx.we, bz.we, k, 2);
        }
    } else {
        // same values in: a carrier other than electricity, or electricity without an on-site production component
        if c != el {
            assert(!has_pv) by { if has_pv { lemma_has_prod_carrier(fa, c, ProdSource::EL_INSITU); } }
        }
        assert forall|s: Source, d: Dest, st: Step| #[trigger] has_fp(wf2, c, s, d, st) == has_fp(wf1, c, s, d, st) && fp(wf2, c, s, d, st) == fp(wf1, c, s, d, st) by {
            lemma_c13_lookup(w, wf1, cs, c, s, d, st); lemma_c13_lookup(w, wf2, cs2, c, s, d, st);
            if s == Source::COGEN && c == el {
                // both sets were extended with the same five derived factors
                lemma_c14_cogen_keys(w, wf1, wf2, cs, cs2, d, st);
            }
        }
        assert(fp_same(wf1, wf2, c));
        lemma_c14_same(wf1, wf2, c, a, b, lm, bx.we, bz.we, k);
    }
}
/// the lookups of the derived factors of cogenerated electricity agree in the two extended sets
pub proof fn lemma_c14_cogen_keys(o: Seq<Factor>, f1: Seq<Factor>, f2: Seq<Factor>, cs: Seq<Energy>, cs2: Seq<Energy>, d: Dest, st: Step)
    requires cgn_added(o, f1, cs), cgn_added(o, f2, cs2), has_cgn_prod(cs2) == has_cgn_prod(cs), c13_g(o, cs2) == c13_g(o, cs),
             forall|j: int| 0 <= j < o.len() ==> (#[trigger] o[j]).source != Source::COGEN,
    ensures has_fp(f2, Carrier::ELECTRICIDAD, Source::COGEN, d, st) == has_fp(f1, Carrier::ELECTRICIDAD, Source::COGEN, d, st),
            fp(f2, Carrier::ELECTRICIDAD, Source::COGEN, d, st) == fp(f1, Carrier::ELECTRICIDAD, Source::COGEN, d, st),
{
    let c = Carrier::ELECTRICIDAD; let s = Source::COGEN;
    assert forall|j: int| 0 <= j < o.len() implies !fkey(#[trigger] o[j], c, s, d, st) by {}
    lemma_find_none(o, c, s, d, st);
    if has_cgn_prod(cs) {
        let n = o.len() as int;
        lemma_find_split(f1, n, c, s, d, st); lemma_find_split(f2, n, c, s, d, st);
        let t = f1.skip(n); let t2 = f2.skip(n);
        assert(t.len() == 5 && t2.len() == 5);
        assert(t[0] == f1[n] && t[1] == f1[n + 1] && t[2] == f1[n + 2] && t[3] == f1[n + 3] && t[4] == f1[n + 4]);
        assert(t2[0] == f2[n] && t2[1] == f2[n + 1] && t2[2] == f2[n + 2] && t2[3] == f2[n + 3] && t2[4] == f2[n + 4]);
        lemma_find5(t, c, s, d, st); lemma_find5(t2, c, s, d, st);
    }
}
/// C14 (non-renewable primary energy, CO2) at the public entry point, ANY building (with or without cogenerated electricity): the same
/// building with more on-site electricity production at any steps, everything else equal, any k_exp in [0, 1], with or without load
/// matching, factors of the regulatory shape: the non-renewable primary energy and the emissions of every carrier and of the whole
/// building do not increase, at step A and at step B
pub proof fn thm_c14_nren_co2_cgn(comps: Components, comps2: Components, w: Seq<Factor>, k_exp: f32, area: f32, lm: bool, r: Result<EnergyPerformance>, r2: Result<EnergyPerformance>)
    requires comps_wf(comps.data@), comps_wf(comps2.data@), nonneg_list(comps.data@), nonneg_list(comps2.data@), more_onsite_el(comps.data@, comps2.data@),
             ep_post(comps, w, k_exp, area, lm, r), ep_post(comps2, w, k_exp, area, lm, r2), r is Ok, r2 is Ok,
             0real <= rv(k_exp) <= 1real, c14_factors(w), nsteps(comps.data@) > 0,
             c13_clear(r->Ok_0.balance_cr@), c13_clear(r2->Ok_0.balance_cr@),
    ensures forall|c: Carrier| r->Ok_0.balance_cr@.contains_key(c) ==> r2->Ok_0.balance_cr@.contains_key(c) && c14_le(#[trigger] r->Ok_0.balance_cr@[c], r2->Ok_0.balance_cr@[c]),
            rv(r2->Ok_0.balance.we.a.nren) <= rv(r->Ok_0.balance.we.a.nren), rv(r2->Ok_0.balance.we.a.co2) <= rv(r->Ok_0.balance.we.a.co2),
            rv(r2->Ok_0.balance.we.b.nren) <= rv(r->Ok_0.balance.we.b.nren), rv(r2->Ok_0.balance.we.b.co2) <= rv(r->Ok_0.balance.we.b.co2),
{
    let x = r->Ok_0; let z = r2->Ok_0; let cs = comps.data@; let cs2 = comps2.data@;
    let bcr = x.balance_cr@; let bcr2 = z.balance_cr@;
    assert(ep_carriers_ok(comps, k_exp, lm, x) && ep_carriers_ok(comps2, k_exp, lm, z));
    assert forall|c: Carrier| bcr.contains_key(c) implies bcr2.contains_key(c) && c14_le(#[trigger] bcr[c], bcr2[c]) by { lemma_c14_carrier3(comps, comps2, w, k_exp, lm, x, z, c); }
    assert forall|c: Carrier| bcr.contains_key(c) == bcr2.contains_key(c) by { lemma_avail_tags(cs, cs2, c); }
    assert(bcr2.dom() =~= bcr.dom());
    thm_c04_totals(bcr, comps, x.balance); thm_c04_totals(bcr2, comps2, z.balance);
    let dom = bcr.dom();
    let f1 = |q: BalanceCarrier| rv(q.we.a.nren); let f2 = |q: BalanceCarrier| rv(q.we.a.co2); let f3 = |q: BalanceCarrier| rv(q.we.b.nren); let f4 = |q: BalanceCarrier| rv(q.we.b.co2);
    assert forall|c: Carrier| dom.contains(c) implies #[trigger] gsel(bcr2, f1)(c) <= gsel(bcr, f1)(c) by { assert(c14_le(bcr[c], bcr2[c])); }
    assert forall|c: Carrier| dom.contains(c) implies #[trigger] gsel(bcr2, f2)(c) <= gsel(bcr, f2)(c) by { assert(c14_le(bcr[c], bcr2[c])); }
    assert forall|c: Carrier| dom.contains(c) implies #[trigger] gsel(bcr2, f3)(c) <= gsel(bcr, f3)(c) by { assert(c14_le(bcr[c], bcr2[c])); }
    assert forall|c: Carrier| dom.contains(c) implies #[trigger] gsel(bcr2, f4)(c) <= gsel(bcr, f4)(c) by { assert(c14_le(bcr[c], bcr2[c])); }
    lemma_csum_le(dom, gsel(bcr, f1), gsel(bcr2, f1), carriers12());
    lemma_csum_le(dom, gsel(bcr, f2), gsel(bcr2, f2), carriers12());
    lemma_csum_le(dom, gsel(bcr, f3), gsel(bcr2, f3), carriers12());
    lemma_csum_le(dom, gsel(bcr, f4), gsel(bcr2, f4), carriers12());
}

// ================================================================================================ the RER sentence, buildings without cogenerated electricity
// (with renewable cogeneration the sentence is false on the current tree: known finding D9)
/// renewable part of the electricity factors: on-site electricity is delivered and exported (step A) with the same factor f1, and the grid
/// factor does not exceed it
pub open spec fn c14_ren_shape(w: Seq<Factor>) -> bool {
    let el = Carrier::ELECTRICIDAD; let f1 = fp(w, el, Source::INSITU, Dest::SUMINISTRO, Step::A).ren;
    &&& fp(w, el, Source::INSITU, Dest::A_NEPB, Step::A).ren == f1 && fp(w, el, Source::INSITU, Dest::A_RED, Step::A).ren == f1
    &&& fgrid(w, el).ren <= f1
}
pub proof fn lemma_fsum_sumf2(v: Seq<f32>, f: spec_fn(int) -> real)
    requires forall|i: int| 0 <= i < v.len() ==> #[trigger] f(i) == rv(v[i]),
    ensures sumf(v) == fsum(f, v.len() as int),
{ lemma_fsum_sumf(v, f); }
/// electricity without cogeneration, k_exp = 0: renewable part = grid factor x (EPB use + cogeneration input) + (f1 - grid factor) x produced energy used on site
#[verifier::spinoff_prover]
pub proof fn lemma_c14_el_ren(wf: Seq<Factor>, a: Run, lm: bool, we: WeightedEnergy)
    requires run_ok(a, lm), nonneg_list(a.cs), wf_list(a.cs, run_n(a) as nat), same_carrier(a.cs, Carrier::ELECTRICIDAD), clear_run(a),
             !any_sel(a.cs, Sel::Prod(ProdSource::EL_COGEN)), cwe_post(wf, Carrier::ELECTRICIDAD, 0real, a.used, a.exp, a.del, Ok(we)), c14_ren_shape(wf),
    ensures rv(we.b.ren) == fgrid(wf, Carrier::ELECTRICIDAD).ren * (rv(a.used.epus_an) + rv(a.used.cgnus_an))
                + (fp(wf, Carrier::ELECTRICIDAD, Source::INSITU, Dest::SUMINISTRO, Step::A).ren - fgrid(wf, Carrier::ELECTRICIDAD).ren) * rv(a.prod.epus_an),
{
    let el = Carrier::ELECTRICIDAD; let pv = ProdSource::EL_INSITU; let n = run_n(a);
    let exp = a.exp; let del = a.del; let m = exp.by_src_an@; let mp = a.prod.by_src_t@;
    let en = rv(exp.an); let nn = rv(exp.nepus_an); let rr = rv(exp.grid_an);
    let fg = fgrid(wf, el).ren; let f1 = fp(wf, el, Source::INSITU, Dest::SUMINISTRO, Step::A).ren;
    let gr = rv(del.grid_an); let cg = rv(a.used.cgnus_an); let ons = rv(del.onst_an); let us = rv(a.used.epus_an); let uu = rv(a.prod.epus_an);
    assert(e_has_carrier(a.cs[0], el));
    lemma_c14_src_sum(a, lm);
    assert(!mp.contains_key(ProdSource::EL_COGEN));
    assert(m.dom() =~= mp.dom());
    let e1 = mval(m, pv);
    assert(e1 == en);
    // annual identities: grid delivery = EPB use - used production; on-site delivery = exported + used production
    assert(!mp.contains_key(ProdSource::TERMOSOLAR)) by { if any_sel(a.cs, Sel::Prod(ProdSource::TERMOSOLAR)) { lemma_has_prod_carrier(a.cs, el, ProdSource::TERMOSOLAR); } }
    assert(!mp.contains_key(ProdSource::EAMBIENTE)) by { if any_sel(a.cs, Sel::Prod(ProdSource::EAMBIENTE)) { lemma_has_prod_carrier(a.cs, el, ProdSource::EAMBIENTE); } }
    let z = |i: int| 0real;
    let fu = |i: int| rv(a.used.epus_t@[i]); let fgd = |i: int| rv(del.grid_t@[i]); let fe = |i: int| rv(a.prod.epus_t@[i]);
    let fo = |i: int| rv(del.onst_t@[i]); let fx = |i: int| rv(exp.t@[i]);
    assert(flows_shape(a.used, a.prod));
    assert(a.used.epus_t@.len() == n && del.grid_t@.len() == n && a.prod.epus_t@.len() == n && del.onst_t@.len() == n && exp.t@.len() == n);
    lemma_fsum_sumf2(a.used.epus_t@, fu); lemma_fsum_sumf2(del.grid_t@, fgd); lemma_fsum_sumf2(a.prod.epus_t@, fe); lemma_fsum_sumf2(del.onst_t@, fo); lemma_fsum_sumf2(exp.t@, fx);
    assert forall|i: int| 0 <= i < n implies #[trigger] z(i) == 0real by {}
    lemma_fsum_zero(z, n);
    assert forall|i: int| 0 <= i < n implies #[trigger] fu(i) == fgd(i) + fe(i) + z(i) by { assert(rv(del.grid_t@[i]) == rv(a.used.epus_t@[i]) - rv(a.prod.epus_t@[i])); }
    lemma_fsum_add3(fgd, fe, z, fu, n);
    assert forall|i: int| 0 <= i < n implies #[trigger] fo(i) == fx(i) + fe(i) + z(i) by {
        assert(rv(del.onst_t@[i]) == onsite_sum(mp, i));
        assert(rv(a.prod.t@[i]) == all_src_sum(mp, i));
        assert(rv(exp.t@[i]) == rv(a.prod.t@[i]) - rv(a.prod.epus_t@[i]));
    }
    lemma_fsum_add3(fx, fe, z, fo, n);
    lemma_exp_an_sum(a);
    assert(us == gr + uu && ons == en + uu);
    // weighted
    assert(r3v(we.b) == we_b(wf, el, exp, del, 0real));
    lemma_mul0(f1); lemma_mul0(fg);
    assert(we_del_onst(wf, el, del).ren == ons * f1);
    assert(we_del(wf, el, del).ren == gr * fg + ons * f1 + cg * fg);
    let xa;
    if en == 0real {
        assert(we_exp(wf, el, exp, 0real) == r3z());
        xa = 0real;
        lemma_mul0(f1);
    } else {
        assert(en > 0real) by { lemma_c13_flows(a, lm); }
        assert(m.contains_key(pv));
        let w1 = e1 / en;
        assert(w1 == 1real) by(nonlinear_arith) requires e1 == en, en != 0real, w1 == e1 / en;
        let tn = favg(wf, el, m, en, Dest::A_NEPB, Step::A).ren; let tr = favg(wf, el, m, en, Dest::A_RED, Step::A).ren;
        assert(tn == 1real * f1 && tr == 1real * f1);
        assert(1real * f1 == f1) by(nonlinear_arith);
        assert(we_exp_nepus_a(wf, el, exp).ren == nn * f1) by { if nn == 0real { lemma_mul0(f1); } }
        assert(we_exp_grid_a(wf, el, exp).ren == rr * f1) by { if rr == 0real { lemma_mul0(f1); } }
        lemma_pd2(nn, rr, f1);
        assert(nn * f1 + rr * f1 == en * f1);
        let eab = we_exp_ab(wf, el, exp);
        lemma_mul0(eab.ren);
        assert(we_exp(wf, el, exp, 0real).ren == en * f1);
        xa = en * f1;
    }
    assert(rv(we.b.ren) == gr * fg + ons * f1 + cg * fg - xa);
    // gr fg + ons f1 + cg fg - en f1 == fg (us + cg) + (f1 - fg) uu   with us = gr + uu, ons = en + uu: one product at a time
    lemma_pd2(en, uu, f1);                 // (en + uu) f1 = en f1 + uu f1
    lemma_dist2(fg, gr, uu);               // fg (gr + uu) = fg gr + fg uu
    lemma_dist2(fg, us, cg);               // fg (us + cg) = fg us + fg cg
    lemma_pd2(f1, 0real - fg, uu);         // (f1 - fg) uu = f1 uu + (-fg) uu
    lemma_pneg(fg, uu); lemma_pneg(gr, fg); lemma_pneg(cg, fg); lemma_pneg(uu, f1);
    assert(f1 + (0real - fg) == f1 - fg);
    assert(gr * fg + ons * f1 + cg * fg - en * f1 == fg * (us + cg) + (f1 - fg) * uu);
}
pub proof fn lemma_rer_mono(ren: real, nren: real, ren2: real, nren2: real)
    requires 0real <= ren <= ren2, 0real <= nren2 <= nren,
    ensures rer_spec(R3 { ren: ren2, nren: nren2, co2: 0real }) >= rer_spec(R3 { ren: ren, nren: nren, co2: 0real }),
{
    let t = ren + nren; let t2 = ren2 + nren2;
    if t > 0real {
        if t2 > 0real {
            assert(ren2 * nren >= ren * nren2) by(nonlinear_arith) requires 0real <= ren <= ren2, 0real <= nren2 <= nren;
            assert(ren2 * t >= ren * t2) by(nonlinear_arith) requires ren2 * nren >= ren * nren2, t == ren + nren, t2 == ren2 + nren2;
            lemma_div_le(ren, t, ren2, t2);
        } else {
            assert(ren == 0real);
            assert(0real / t == 0real) by(nonlinear_arith) requires t > 0real;
        }
    } else if t2 > 0real {
        assert(ren2 / t2 >= 0real) by(nonlinear_arith) requires ren2 >= 0real, t2 > 0real;
    }
}
#[verifier::spinoff_prover]
pub proof fn lemma_c14_carrier_ren(comps: Components, comps2: Components, w: Seq<Factor>, k_exp: f32, lm: bool, x: EnergyPerformance, z: EnergyPerformance, c: Carrier)
    requires comps_wf(comps.data@), comps_wf(comps2.data@), nonneg_list(comps.data@), nonneg_list(comps2.data@), more_onsite_el(comps.data@, comps2.data@),
             ep_carriers_ok(comps, k_exp, lm, x), ep_carriers_ok(comps2, k_exp, lm, z), x.wfactors.wdata@ == w, z.wfactors.wdata@ == w,
             rv(k_exp) == 0real, !any_sel(comps.data@, Sel::Prod(ProdSource::EL_COGEN)), c14_ren_shape(w),
             c13_clear(x.balance_cr@), c13_clear(z.balance_cr@), x.balance_cr@.contains_key(c),
    ensures z.balance_cr@.contains_key(c), rv(z.balance_cr@[c].we.b.ren) >= rv(x.balance_cr@[c].we.b.ren),
{
    let cs = comps.data@; let cs2 = comps2.data@; let el = Carrier::ELECTRICIDAD;
    let n = nsteps(cs);
    assert(nsteps(cs2) == n) by { if cs.len() > 0 { assert(e_vals(cs2[0]).len() == e_vals(cs[0]).len()); } }
    lemma_avail_tags(cs, cs2, c);
    reveal(bfc_post);
    let bx = x.balance_cr@[c]; let bz = z.balance_cr@[c];
    let fa = filter_carrier(cs, c); let fb = filter_carrier(cs2, c);
    let a = Run { cs: fa, used: bx.used, prod: bx.prod, fm: bx.f_match@, exp: bx.exp, del: bx.del };
    let b = Run { cs: fb, used: bz.used, prod: bz.prod, fm: bz.f_match@, exp: bz.exp, del: bz.del };
    lemma_filter_carrier(cs, c, n); lemma_filter_carrier(cs2, c, n);
    lemma_nonneg_filter(cs, c); lemma_nonneg_filter(cs2, c);
    lemma_more_onsite_filter(cs, cs2, c);
    assert(e_has_carrier(fa[0], c) && e_has_carrier(fb[0], c));
    assert(run_n(a) == n && run_n(b) == n) by { assert(e_vals(fa[0]).len() == n && e_vals(fb[0]).len() == n); }
    assert(clear_run(a) && clear_run(b)) by { assert(clear_prod(bx.prod.t@) && clear_prod(bz.prod.t@)); }
    if c == el {
        lemma_acc_filter(cs, c, Sel::Prod(ProdSource::EL_COGEN), Sel::Prod(ProdSource::EL_COGEN), 0);
        lemma_any_sel_tags(fa, fb, Sel::Prod(ProdSource::EL_COGEN));
        lemma_c14_el_ren(w, a, lm, bx.we); lemma_c14_el_ren(w, b, lm, bz.we);
        let nn = n as nat;
        assert forall|q: Sel| #[trigger] any_sel(fb, q) == any_sel(fa, q) by { lemma_any_sel_tags(fa, fb, q); }
        assert forall|i: int| 0 <= i < nn implies #[trigger] acc(fb, Sel::Epus, i) == acc(fa, Sel::Epus, i) by { lemma_more_onsite_acc(fa, fb, Sel::Epus, i, nn); }
        assert forall|s: ProdSource, i: int| 0 <= i < nn implies #[trigger] acc(fb, Sel::Prod(s), i) >= acc(fa, Sel::Prod(s), i) by { lemma_more_onsite_acc(fa, fb, Sel::Prod(s), i, nn); }
        thm_c14_grid_carrier(a, b, lm);
        assert forall|i: int| 0 <= i < a.used.cgnus_t@.len() implies rv(#[trigger] a.used.cgnus_t@[i]) == rv(b.used.cgnus_t@[i]) by { lemma_more_onsite_acc(fa, fb, Sel::Cgn, i, nn); }
        lemma_sumf_eq(a.used.cgnus_t@, b.used.cgnus_t@);
        assert forall|i: int| 0 <= i < a.used.epus_t@.len() implies rv(#[trigger] a.used.epus_t@[i]) == rv(b.used.epus_t@[i]) by { assert(acc(fb, Sel::Epus, i) == acc(fa, Sel::Epus, i)); }
        lemma_sumf_eq(a.used.epus_t@, b.used.epus_t@);
        assert(a.prod.epus_t@.len() == n && b.prod.epus_t@.len() == n);
        assert forall|i: int| 0 <= i < a.prod.epus_t@.len() implies rv(#[trigger] a.prod.epus_t@[i]) <= rv(b.prod.epus_t@[i]) by { assert(rv(b.del.grid_t@[i]) <= rv(a.del.grid_t@[i]) && rv(b.prod.epus_t@[i]) >= rv(a.prod.epus_t@[i])); }
        lemma_sumf_le(a.prod.epus_t@, b.prod.epus_t@);
        let d = fp(w, el, Source::INSITU, Dest::SUMINISTRO, Step::A).ren - fgrid(w, el).ren;
        let ua = rv(a.prod.epus_an); let ub = rv(b.prod.epus_an);
        assert(d * ua <= d * ub) by(nonlinear_arith) requires d >= 0real, ua <= ub;
    } else {
        assert(!any_sel(fa, Sel::Prod(ProdSource::EL_INSITU))) by { if any_sel(fa, Sel::Prod(ProdSource::EL_INSITU)) { lemma_has_prod_carrier(fa, c, ProdSource::EL_INSITU); } }
        assert(fp_same(w, w, c));
        lemma_c14_same(w, w, c, a, b, lm, bx.we, bz.we, rv(k_exp));
    }
}
/// C14 (RER sentence) at the public entry point, buildings WITHOUT cogenerated electricity, k_exp = 0: more on-site electricity
/// production at any steps, everything else equal, never lowers RER (the renewable primary energy does not decrease, the
/// non-renewable does not increase, both are non-negative)
pub proof fn thm_c14_rer(comps: Components, comps2: Components, w: Seq<Factor>, k_exp: f32, area: f32, lm: bool, r: Result<EnergyPerformance>, r2: Result<EnergyPerformance>)
    requires comps_wf(comps.data@), comps_wf(comps2.data@), nonneg_list(comps.data@), nonneg_list(comps2.data@), more_onsite_el(comps.data@, comps2.data@),
             ep_post(comps, w, k_exp, area, lm, r), ep_post(comps2, w, k_exp, area, lm, r2), r is Ok, r2 is Ok,
             rv(k_exp) == 0real, !any_sel(comps.data@, Sel::Prod(ProdSource::EL_COGEN)), c14_shape(w, 1), c14_shape(w, 2), c14_ren_shape(w), c13_factors(w),
             c13_clear(r->Ok_0.balance_cr@), c13_clear(r2->Ok_0.balance_cr@),
    ensures rv(r2->Ok_0.balance.we.b.ren) >= rv(r->Ok_0.balance.we.b.ren), rv(r2->Ok_0.balance.we.b.nren) <= rv(r->Ok_0.balance.we.b.nren),
            rv(r2->Ok_0.rer) >= rv(r->Ok_0.rer),
{
    let x = r->Ok_0; let z = r2->Ok_0; let cs = comps.data@; let cs2 = comps2.data@;
    let bcr = x.balance_cr@; let bcr2 = z.balance_cr@;
    thm_c14_nren_co2(comps, comps2, w, k_exp, area, lm, r, r2);
    thm_c13_range(comps, w, k_exp, area, lm, r); thm_c13_range(comps2, w, k_exp, area, lm, r2);
    assert(any_sel(cs2, Sel::Prod(ProdSource::EL_COGEN)) == any_sel(cs, Sel::Prod(ProdSource::EL_COGEN))) by { lemma_any_sel_tags(cs, cs2, Sel::Prod(ProdSource::EL_COGEN)); }
    assert(x.wfactors.wdata@ == w && z.wfactors.wdata@ == w);
    assert(ep_carriers_ok(comps, k_exp, lm, x) && ep_carriers_ok(comps2, k_exp, lm, z));
    assert forall|c: Carrier| bcr.contains_key(c) implies bcr2.contains_key(c) && rv(bcr2[c].we.b.ren) >= rv((#[trigger] bcr[c]).we.b.ren) by { lemma_c14_carrier_ren(comps, comps2, w, k_exp, lm, x, z, c); }
    assert forall|c: Carrier| bcr.contains_key(c) == bcr2.contains_key(c) by { lemma_avail_tags(cs, cs2, c); }
    assert(bcr2.dom() =~= bcr.dom());
    thm_c04_totals(bcr, comps, x.balance); thm_c04_totals(bcr2, comps2, z.balance);
    let dom = bcr.dom();
    let f = |q: BalanceCarrier| rv(q.we.b.ren);
    assert forall|c: Carrier| dom.contains(c) implies #[trigger] gsel(bcr, f)(c) <= gsel(bcr2, f)(c) by { assert(rv(bcr2[c].we.b.ren) >= rv(bcr[c].we.b.ren)); }
    lemma_csum_le(dom, gsel(bcr2, f), gsel(bcr, f), carriers12());
    let ren = rv(x.balance.we.b.ren); let nren = rv(x.balance.we.b.nren); let ren2 = rv(z.balance.we.b.ren); let nren2 = rv(z.balance.we.b.nren);
    lemma_rer_mono(ren, nren, ren2, nren2);
    assert(rv(x.rer) == rer_spec(r3v(x.balance.we.b)) && rv(z.rer) == rer_spec(r3v(z.balance.we.b)));
}
