// ---- C14 (non-renewable primary energy and CO2 sentences) for buildings without cogenerated electricity: theorems over the proved
// contracts (bundles cup_post / ced_post / cwe_post / ep_post); ghost code only. The grid-delivery sentence is thm_c14_grid (rel_c12.rs).

// ------------------------------------------------------------------------------------------------ the exported part is monotone
/// u(z) = z / (z^2 + 1) = 1 - fm(z)
pub open spec fn uz(z: real) -> real { z / (z * z + 1real) }
pub proof fn lemma_fm_u(z: real)
    requires z > 0real,
    ensures fm_of_x(z) == 1real - uz(z), 0real <= uz(z), z * z + 1real >= 1real,
{
    lemma_fm_poly(z);
    let d = z * z + 1real;
    assert(z * z >= 0real) by(nonlinear_arith);
    assert(z * z - z + 1real == d - z);
    assert((d - z) / d == 1real - z / d) by(nonlinear_arith) requires d > 0real;
    assert(z / d >= 0real) by(nonlinear_arith) requires d > 0real, z > 0real;
}
/// u is non-decreasing on (0, 1]
pub proof fn lemma_u_mono_low(x: real, y: real)
    requires 0real < x <= y <= 1real,
    ensures uz(x) <= uz(y),
{
    let dx = x * x + 1real; let dy = y * y + 1real;
    assert(dx > 0real && dy > 0real) by(nonlinear_arith) requires dx == x * x + 1real, dy == y * y + 1real;
    // y dx - x dy = (y - x)(1 - x y) >= 0
    assert(x * y <= 1real) by(nonlinear_arith) requires 0real < x <= 1real, 0real < y <= 1real;
    assert((y - x) * (1real - x * y) >= 0real) by(nonlinear_arith) requires y - x >= 0real, 1real - x * y >= 0real;
    assert(y * (x * x + 1real) - x * (y * y + 1real) == (y - x) * (1real - x * y)) by(nonlinear_arith);
    lemma_div_le(x, dx, y, dy);
}
/// u(x) - u(y) <= y - x from 1 on
pub proof fn lemma_u_lip_high(x: real, y: real)
    requires 1real <= x <= y,
    ensures uz(x) <= uz(y) + (y - x),
{
    let dx = x * x + 1real; let dy = y * y + 1real;
    assert(dx >= x && dx > 0real) by(nonlinear_arith) requires dx == x * x + 1real, x >= 1real;
    assert(dy >= y && dy > 0real) by(nonlinear_arith) requires dy == y * y + 1real, y >= 1real;
    assert(dx * dy >= x * y) by(nonlinear_arith) requires dx >= x, dy >= y, x >= 1real, y >= 1real;
    assert(x * (y * y + 1real) - y * (x * x + 1real) == (y - x) * (x * y - 1real)) by(nonlinear_arith);
    let dd = dx * dy;
    assert((y - x) * (x * y - 1real) <= (y - x) * dd) by(nonlinear_arith) requires y - x >= 0real, x * y - 1real <= dd;
    // x dy <= y dx + (y - x) dx dy
    let t = y * dx + (y - x) * dd;
    assert(x * dy <= t);
    assert(dd > 0real) by(nonlinear_arith) requires dx > 0real, dy > 0real, dd == dx * dy;
    assert(x * dd <= t * dx) by(nonlinear_arith) requires x * dy <= t, dx > 0real, dd == dx * dy;
    lemma_div_le(x, dx, t, dd);
    assert(t / dd == y / dy + (y - x)) by(nonlinear_arith) requires dd == dx * dy, dx > 0real, dy > 0real, t == y * dx + (y - x) * dd;
}
/// exported part pt - g(pt) is non-decreasing in the production
pub proof fn lemma_exp_mono(lm: bool, pt: real, pt2: real, us: real)
    requires 0real <= pt <= pt2, us >= 0real,
    ensures pt - g_used(lm, pt, us) <= pt2 - g_used(lm, pt2, us),
{
    if !lm || us <= 0real {
        assert(1real * rmin(us, pt) == rmin(us, pt) && 1real * rmin(us, pt2) == rmin(us, pt2)) by(nonlinear_arith);
    } else if pt <= 0real {
        lemma_mul0(fmatch(lm, pt, us));
        lemma_fmatch_range(lm, pt2, us);
        lemma_scale01(rmin(us, pt2), fmatch(lm, pt2, us));
    } else {
        let x = pt / us; let y = pt2 / us;
        assert(0real < x <= y && x * us == pt && y * us == pt2) by(nonlinear_arith) requires 0real < pt <= pt2, us > 0real, x == pt / us, y == pt2 / us;
        lemma_fmatch_stages(pt, us); lemma_fmatch_stages(pt2, us);
        assert(fmatch(true, pt, us) == fm_of_x(x) && fmatch(true, pt2, us) == fm_of_x(y));
        lemma_fm_u(x); lemma_fm_u(y);
        // (pt - g) / us as a function of x: x u(x) up to 1, x - 1 + u(x) from 1 on
        let ex = if x <= 1real { x * uz(x) } else { x - 1real + uz(x) };
        let ey = if y <= 1real { y * uz(y) } else { y - 1real + uz(y) };
        assert(pt - g_used(true, pt, us) == us * ex) by {
            let f = fm_of_x(x); let u = uz(x);
            if x <= 1real { assert(pt <= us) by(nonlinear_arith) requires x <= 1real, x * us == pt, us > 0real; assert(x * us - (1real - u) * (x * us) == us * (x * u)) by(nonlinear_arith); }
            else { assert(pt > us) by(nonlinear_arith) requires x > 1real, x * us == pt, us > 0real; assert(x * us - (1real - u) * us == us * (x - 1real + u)) by(nonlinear_arith); }
        }
        assert(pt2 - g_used(true, pt2, us) == us * ey) by {
            let u = uz(y);
            if y <= 1real { assert(pt2 <= us) by(nonlinear_arith) requires y <= 1real, y * us == pt2, us > 0real; assert(y * us - (1real - u) * (y * us) == us * (y * u)) by(nonlinear_arith); }
            else { assert(pt2 > us) by(nonlinear_arith) requires y > 1real, y * us == pt2, us > 0real; assert(y * us - (1real - u) * us == us * (y - 1real + u)) by(nonlinear_arith); }
        }
        assert(ex <= ey) by {
            if y <= 1real {
                lemma_u_mono_low(x, y);
                assert(x * uz(x) <= y * uz(y)) by(nonlinear_arith) requires 0real < x <= y, 0real <= uz(x) <= uz(y);
            } else if x > 1real {
                lemma_u_lip_high(x, y);
            } else {
                // x <= 1 < y: through the value at 1
                lemma_u_mono_low(x, 1real); lemma_u_lip_high(1real, y);
                assert(x * uz(x) <= 1real * uz(1real)) by(nonlinear_arith) requires 0real < x <= 1real, 0real <= uz(x) <= uz(1real);
            }
        }
        assert(us * ex <= us * ey) by(nonlinear_arith) requires us > 0real, ex <= ey;
    }
}

// ------------------------------------------------------------------------------------------------ sums
pub proof fn lemma_sumf_eq(v: Seq<f32>, v2: Seq<f32>)
    requires v.len() == v2.len(), forall|i: int| 0 <= i < v.len() ==> rv(#[trigger] v[i]) == rv(v2[i]),
    ensures sumf(v) == sumf(v2),
{
    lemma_sumf_le(v, v2); lemma_sumf_le(v2, v);
}
/// annual exported energy = sum of the per-step exported energy
pub proof fn lemma_exp_an_sum(a: Run)
    requires ced_post(a.used, a.prod, a.exp, a.del),
    ensures rv(a.exp.an) == sumf(a.exp.t@),
{
    let n = a.prod.t@.len() as int;
    let f1 = |i: int| rv(a.exp.nepus_t@[i]); let f2 = |i: int| rv(a.exp.grid_t@[i]); let f3 = |i: int| 0real; let g = |i: int| rv(a.exp.t@[i]);
    assert forall|i: int| 0 <= i < a.exp.nepus_t@.len() implies #[trigger] f1(i) == rv(a.exp.nepus_t@[i]) by {}
    assert forall|i: int| 0 <= i < a.exp.grid_t@.len() implies #[trigger] f2(i) == rv(a.exp.grid_t@[i]) by {}
    assert forall|i: int| 0 <= i < a.exp.t@.len() implies #[trigger] g(i) == rv(a.exp.t@[i]) by {}
    lemma_fsum_sumf(a.exp.nepus_t@, f1); lemma_fsum_sumf(a.exp.grid_t@, f2); lemma_fsum_sumf(a.exp.t@, g);
    assert forall|i: int| 0 <= i < n implies #[trigger] f3(i) == 0real by {}
    lemma_fsum_zero(f3, n);
    assert forall|i: int| 0 <= i < n implies #[trigger] g(i) == f1(i) + f2(i) + f3(i) by { assert(rv(a.exp.grid_t@[i]) == rv(a.exp.t@[i]) - rv(a.exp.nepus_t@[i])); }
    lemma_fsum_add3(f1, f2, f3, g, n);
}

// ------------------------------------------------------------------------------------------------ the electricity balance
/// non-renewable (y == 1) or CO2 (otherwise) part
pub open spec fn py(r: R3, y: int) -> real { if y == 1 { r.nren } else { r.co2 } }
/// the shape of the electricity factors of the regulatory sets that C14 needs: on-site electricity delivered or exported at step A
/// carries no non-renewable energy and no emissions, its export at step B is valued with the grid factor, the grid factor is non-negative
pub open spec fn c14_shape(w: Seq<Factor>, y: int) -> bool {
    let el = Carrier::ELECTRICIDAD;
    &&& py(fgrid(w, el), y) >= 0real
    &&& py(fp(w, el, Source::INSITU, Dest::SUMINISTRO, Step::A), y) == 0real
    &&& py(fp(w, el, Source::INSITU, Dest::A_NEPB, Step::A), y) == 0real && py(fp(w, el, Source::INSITU, Dest::A_RED, Step::A), y) == 0real
    &&& py(fp(w, el, Source::INSITU, Dest::A_NEPB, Step::B), y) == py(fgrid(w, el), y) && py(fp(w, el, Source::INSITU, Dest::A_RED, Step::B), y) == py(fgrid(w, el), y)
}
/// electricity without cogeneration under such factors:  step A = grid factor x (grid delivery + cogeneration input),
/// step B = grid factor x (grid delivery + cogeneration input - k_exp x exported energy)
#[verifier::spinoff_prover]
pub proof fn lemma_c14_el(wf: Seq<Factor>, a: Run, lm: bool, we: WeightedEnergy, k: real, y: int)
    requires run_ok(a, lm), nonneg_list(a.cs), wf_list(a.cs, run_n(a) as nat), same_carrier(a.cs, Carrier::ELECTRICIDAD), clear_run(a),
             !any_sel(a.cs, Sel::Prod(ProdSource::EL_COGEN)), cwe_post(wf, Carrier::ELECTRICIDAD, k, a.used, a.exp, a.del, Ok(we)), c14_shape(wf, y),
    ensures py(r3v(we.a), y) == py(fgrid(wf, Carrier::ELECTRICIDAD), y) * (rv(a.del.grid_an) + rv(a.used.cgnus_an)),
            py(r3v(we.b), y) == py(fgrid(wf, Carrier::ELECTRICIDAD), y) * (rv(a.del.grid_an) + rv(a.used.cgnus_an) - k * rv(a.exp.an)),
{
    let el = Carrier::ELECTRICIDAD; let pv = ProdSource::EL_INSITU;
    let exp = a.exp; let del = a.del; let m = exp.by_src_an@; let n = run_n(a);
    let en = rv(exp.an); let nn = rv(exp.nepus_an); let rr = rv(exp.grid_an);
    let fg = py(fgrid(wf, el), y);
    let gr = rv(del.grid_an); let cg = rv(a.used.cgnus_an); let ons = rv(del.onst_an);
    let mp = a.prod.by_src_t@; let mu = a.prod.epus_by_src_t@;
    assert(e_has_carrier(a.cs[0], el));
    // the only possible source is on-site electricity
    assert(!mp.contains_key(ProdSource::EL_COGEN));
    assert(!mp.contains_key(ProdSource::TERMOSOLAR)) by { if any_sel(a.cs, Sel::Prod(ProdSource::TERMOSOLAR)) { lemma_has_prod_carrier(a.cs, el, ProdSource::TERMOSOLAR); } }
    assert(!mp.contains_key(ProdSource::EAMBIENTE)) by { if any_sel(a.cs, Sel::Prod(ProdSource::EAMBIENTE)) { lemma_has_prod_carrier(a.cs, el, ProdSource::EAMBIENTE); } }
    assert(m.dom() =~= mp.dom());
    assert(!pri(e_carrier(a.cs[0]), mp));
    lemma_exp_an_sum(a);
    let e1 = mval(m, pv);
    // exported on-site electricity = exported energy
    assert(e1 == en) by {
        if mp.contains_key(pv) {
            let ve = exp.by_src_t@[pv]@;
            assert(mu.contains_key(pv) && ve.len() == n && exp.t@.len() == n);
            assert forall|i: int| 0 <= i < ve.len() implies rv(#[trigger] ve[i]) == rv(exp.t@[i]) by {
                let pt = rv(a.prod.t@[i]); let us = rv(a.used.epus_t@[i]); let u = rv(a.prod.epus_t@[i]);
                assert(pt == all_src_sum(mp, i));
                assert(pt == rv(mp[pv]@[i]));
                assert(rv(mu[pv]@[i]) == u * fsrc(pt, pt));
                assert(us >= 0real);
                assert(u == rv(a.fm[i]) * rmin(us, pt));
                if pt == 0real { lemma_mul0(rv(a.fm[i])); lemma_mul0(u); }
                else { assert(pt > 1real / 1000real); assert(pt / pt == 1real) by(nonlinear_arith) requires pt > 0real; assert(u * 1real == u) by(nonlinear_arith); }
                assert(rv(ve[i]) == rv(mp[pv]@[i]) - rv(mu[pv]@[i]));
            }
            lemma_sumf_eq(ve, exp.t@);
        } else {
            assert forall|i: int| 0 <= i < exp.t@.len() implies rv(#[trigger] exp.t@[i]) == 0real by {
                let pt = rv(a.prod.t@[i]); let us = rv(a.used.epus_t@[i]);
                assert(pt == all_src_sum(mp, i)); assert(pt == 0real);
                assert(us >= 0real);
                lemma_mul0(rv(a.fm[i]));
            }
            lemma_sumf_all0(exp.t@);
        }
    }
    assert(r3v(we.a) == we_a(wf, el, exp, del) && r3v(we.b) == we_b(wf, el, exp, del, k));
    lemma_mul0(fg); lemma_mul0(ons); lemma_mul0(k);
    // delivered
    assert(py(we_del_onst(wf, el, del), y) == 0real);
    assert(py(we_del(wf, el, del), y) == gr * fg + cg * fg);
    lemma_dist2(fg, gr, cg);
    assert(gr * fg == fg * gr && cg * fg == fg * cg) by(nonlinear_arith);
    if en == 0real {
        assert(we_exp(wf, el, exp, k) == r3z() && we_exp_a(wf, el, exp) == r3z());
        lemma_dist2(fg, gr + cg, k * en);
    } else {
        assert(m.contains_key(pv));
        // step A factors of the exported energy carry nothing, step B factors are the grid factor
        let w1 = e1 / en;
        assert(w1 == 1real) by(nonlinear_arith) requires e1 == en, en != 0real, w1 == e1 / en;
        let tna = py(favg(wf, el, m, en, Dest::A_NEPB, Step::A), y); let tra = py(favg(wf, el, m, en, Dest::A_RED, Step::A), y);
        let tnb = py(favg(wf, el, m, en, Dest::A_NEPB, Step::B), y); let trb = py(favg(wf, el, m, en, Dest::A_RED, Step::B), y);
        lemma_mul0(w1);
        assert(tna == 0real && tra == 0real);
        assert(tnb == 1real * fg && trb == 1real * fg);
        assert(1real * fg == fg) by(nonlinear_arith);
        lemma_mul0(nn); lemma_mul0(rr);
        assert(py(we_exp_nepus_a(wf, el, exp), y) == 0real && py(we_exp_grid_a(wf, el, exp), y) == 0real);
        assert(py(we_exp_a(wf, el, exp), y) == 0real);
        assert(py(we_exp_nepus_ab(wf, el, exp), y) == nn * fg) by { if nn == 0real { lemma_mul0(fg); } }
        assert(py(we_exp_grid_ab(wf, el, exp), y) == rr * fg) by { if rr == 0real { lemma_mul0(fg); } }
        assert(py(we_exp_ab(wf, el, exp), y) == nn * fg + rr * fg);
        assert(nn * fg + rr * fg == en * fg) by(nonlinear_arith) requires en == nn + rr;
        assert(py(we_exp(wf, el, exp, k), y) == k * (en * fg));
        assert(k * (en * fg) == fg * (k * en)) by(nonlinear_arith);
        lemma_dist2(fg, gr + cg, k * en);
    }
}
pub proof fn lemma_sumf_all0(v: Seq<f32>)
    requires forall|i: int| 0 <= i < v.len() ==> rv(#[trigger] v[i]) == 0real,
    ensures sumf(v) == 0real,
    decreases v.len(),
{
    if v.len() > 0 {
        assert forall|i: int| 0 <= i < v.drop_last().len() implies rv(#[trigger] v.drop_last()[i]) == 0real by { assert(v.drop_last()[i] == v[i]); }
        lemma_sumf_all0(v.drop_last());
        assert(rv(v[v.len() - 1]) == 0real);
    }
}
/// what C14 says of one carrier: non-renewable energy and emissions, steps A and B, do not increase
pub open spec fn c14_le(x: BalanceCarrier, z: BalanceCarrier) -> bool {
    &&& rv(z.we.a.nren) <= rv(x.we.a.nren) && rv(z.we.a.co2) <= rv(x.we.a.co2)
    &&& rv(z.we.b.nren) <= rv(x.we.b.nren) && rv(z.we.b.co2) <= rv(x.we.b.co2)
}
/// two evaluations of the electricity carrier, the second with more on-site production at some steps (no cogeneration)
#[verifier::spinoff_prover]
pub proof fn lemma_c14_el_pair(wf: Seq<Factor>, a: Run, b: Run, lm: bool, wa: WeightedEnergy, wb: WeightedEnergy, k: real, y: int)
    requires run_ok(a, lm), run_ok(b, lm), run_n(a) == run_n(b), more_onsite_el(a.cs, b.cs), 0real <= k <= 1real,
             nonneg_list(a.cs), wf_list(a.cs, run_n(a) as nat), same_carrier(a.cs, Carrier::ELECTRICIDAD), clear_run(a),
             nonneg_list(b.cs), wf_list(b.cs, run_n(b) as nat), same_carrier(b.cs, Carrier::ELECTRICIDAD), clear_run(b),
             !any_sel(a.cs, Sel::Prod(ProdSource::EL_COGEN)), c14_shape(wf, y),
             cwe_post(wf, Carrier::ELECTRICIDAD, k, a.used, a.exp, a.del, Ok(wa)), cwe_post(wf, Carrier::ELECTRICIDAD, k, b.used, b.exp, b.del, Ok(wb)),
    ensures py(r3v(wb.a), y) <= py(r3v(wa.a), y), py(r3v(wb.b), y) <= py(r3v(wa.b), y),
{
    let n = run_n(a) as nat; let el = Carrier::ELECTRICIDAD;
    assert(e_has_carrier(a.cs[0], el) && e_has_carrier(b.cs[0], el));
    assert forall|q: Sel| #[trigger] any_sel(b.cs, q) == any_sel(a.cs, q) by { lemma_any_sel_tags(a.cs, b.cs, q); }
    assert forall|i: int| 0 <= i < n implies #[trigger] acc(b.cs, Sel::Epus, i) == acc(a.cs, Sel::Epus, i) by { lemma_more_onsite_acc(a.cs, b.cs, Sel::Epus, i, n); }
    assert forall|s: ProdSource, i: int| 0 <= i < n implies #[trigger] acc(b.cs, Sel::Prod(s), i) >= acc(a.cs, Sel::Prod(s), i) by { lemma_more_onsite_acc(a.cs, b.cs, Sel::Prod(s), i, n); }
    thm_c14_grid_carrier(a, b, lm);
    lemma_c14_el(wf, a, lm, wa, k, y); lemma_c14_el(wf, b, lm, wb, k, y);
    // cogeneration input unchanged
    assert forall|i: int| 0 <= i < a.used.cgnus_t@.len() implies rv(#[trigger] a.used.cgnus_t@[i]) == rv(b.used.cgnus_t@[i]) by { lemma_more_onsite_acc(a.cs, b.cs, Sel::Cgn, i, n); }
    lemma_sumf_eq(a.used.cgnus_t@, b.used.cgnus_t@);
    // exported energy does not decrease
    lemma_exp_an_sum(a); lemma_exp_an_sum(b);
    assert forall|i: int| 0 <= i < a.exp.t@.len() implies rv(#[trigger] a.exp.t@[i]) <= rv(b.exp.t@[i]) by {
        lemma_epus_is_g(a, lm, i); lemma_epus_is_g(b, lm, i);
        assert(rv(a.used.epus_t@[i]) == acc(a.cs, Sel::Epus, i) && rv(b.used.epus_t@[i]) == acc(b.cs, Sel::Epus, i));
        let ma = a.prod.by_src_t@; let mb = b.prod.by_src_t@;
        assert forall|s: ProdSource| #[trigger] mv(mb, s, i) >= mv(ma, s, i) by {
            assert(any_sel(b.cs, Sel::Prod(s)) == any_sel(a.cs, Sel::Prod(s)));
            assert(acc(b.cs, Sel::Prod(s), i) >= acc(a.cs, Sel::Prod(s), i));
            if ma.contains_key(s) { assert(rv(ma[s]@[i]) == acc(a.cs, Sel::Prod(s), i)); assert(rv(mb[s]@[i]) == acc(b.cs, Sel::Prod(s), i)); }
        }
        assert(rv(a.prod.t@[i]) == all_src_sum(ma, i) && rv(b.prod.t@[i]) == all_src_sum(mb, i));
        assert(mv(mb, ProdSource::EL_INSITU, i) >= mv(ma, ProdSource::EL_INSITU, i) && mv(mb, ProdSource::EL_COGEN, i) >= mv(ma, ProdSource::EL_COGEN, i)
            && mv(mb, ProdSource::TERMOSOLAR, i) >= mv(ma, ProdSource::TERMOSOLAR, i) && mv(mb, ProdSource::EAMBIENTE, i) >= mv(ma, ProdSource::EAMBIENTE, i));
        lemma_exp_mono(lm, rv(a.prod.t@[i]), rv(b.prod.t@[i]), rv(a.used.epus_t@[i]));
    }
    lemma_sumf_le(a.exp.t@, b.exp.t@);
    let fg = py(fgrid(wf, el), y);
    let ga = rv(a.del.grid_an); let gb = rv(b.del.grid_an); let cg = rv(a.used.cgnus_an); let ea = rv(a.exp.an); let eb = rv(b.exp.an);
    assert(k * ea <= k * eb) by(nonlinear_arith) requires k >= 0real, ea <= eb;
    assert(fg * (gb + cg) <= fg * (ga + cg)) by(nonlinear_arith) requires fg >= 0real, gb <= ga;
    assert(fg * (gb + cg - k * eb) <= fg * (ga + cg - k * ea)) by(nonlinear_arith) requires fg >= 0real, gb <= ga, k * ea <= k * eb;
}
/// a carrier other than electricity is evaluated from the same values: same weighted energy
#[verifier::spinoff_prover]
pub proof fn lemma_c14_other(wf: Seq<Factor>, c: Carrier, a: Run, b: Run, lm: bool, wa: WeightedEnergy, wb: WeightedEnergy, k: real)
    requires run_ok(a, lm), run_ok(b, lm), run_n(a) == run_n(b), more_onsite_el(a.cs, b.cs), c != Carrier::ELECTRICIDAD,
             wf_list(a.cs, run_n(a) as nat), same_carrier(a.cs, c), clear_run(a), clear_run(b),
             cwe_post(wf, c, k, a.used, a.exp, a.del, Ok(wa)), cwe_post(wf, c, k, b.used, b.exp, b.del, Ok(wb)),
    ensures r3v(wb.a) == r3v(wa.a), r3v(wb.b) == r3v(wa.b),
{
    assert(e_has_carrier(a.cs[0], c));
    assert forall|i: int| 0 <= i < run_n(a) implies #[trigger] val_rel(a.cs, b.cs, i, i, 1real) by {
        assert forall|j: int| 0 <= j < a.cs.len() implies rv(#[trigger] e_vals(b.cs[j])[i]) == 1real * rv(e_vals(a.cs[j])[i]) by {
            assert(e_has_carrier(a.cs[j], c));
            assert(e_vals(a.cs[j]).len() == run_n(a));
            assert(!(a.cs[j] is Prod && a.cs[j]->Prod_0.source == ProdSource::EL_INSITU));
            assert(rv(e_vals(b.cs[j])[i]) == rv(e_vals(a.cs[j])[i]));
            assert(1real * rv(e_vals(a.cs[j])[i]) == rv(e_vals(a.cs[j])[i])) by(nonlinear_arith);
        }
    }
    assert forall|i: int| 0 <= i < run_n(a) implies in_dom(rv(#[trigger] a.prod.t@[i])) && in_dom(rv(b.prod.t@[i])) by {}
    thm_c11_carrier(a, b, lm, 1real, wf, c, k, Ok(wa), Ok(wb));
    let x = r3v(wa.a); let z = r3v(wa.b);
    assert(1real * x.ren == x.ren && 1real * x.nren == x.nren && 1real * x.co2 == x.co2 && 1real * z.ren == z.ren && 1real * z.nren == z.nren && 1real * z.co2 == z.co2) by(nonlinear_arith);
}
#[verifier::spinoff_prover]
pub proof fn lemma_c14_carrier2(comps: Components, comps2: Components, w: Seq<Factor>, k_exp: f32, lm: bool, x: EnergyPerformance, z: EnergyPerformance, c: Carrier)
    requires comps_wf(comps.data@), comps_wf(comps2.data@), nonneg_list(comps.data@), nonneg_list(comps2.data@), more_onsite_el(comps.data@, comps2.data@),
             ep_carriers_ok(comps, k_exp, lm, x), ep_carriers_ok(comps2, k_exp, lm, z), x.wfactors.wdata@ == w, z.wfactors.wdata@ == w,
             0real <= rv(k_exp) <= 1real, !any_sel(comps.data@, Sel::Prod(ProdSource::EL_COGEN)), c14_shape(w, 1), c14_shape(w, 2),
             c13_clear(x.balance_cr@), c13_clear(z.balance_cr@), x.balance_cr@.contains_key(c),
    ensures z.balance_cr@.contains_key(c), c14_le(x.balance_cr@[c], z.balance_cr@[c]),
{
    let cs = comps.data@; let cs2 = comps2.data@; let k = rv(k_exp);
    let n = nsteps(cs);
    assert(nsteps(cs2) == n) by { if cs.len() > 0 { assert(e_vals(cs2[0]).len() == e_vals(cs[0]).len()); } }
    lemma_avail_tags(cs, cs2, c);
    assert(z.balance_cr@.contains_key(c));
    reveal(bfc_post);
    let bx = x.balance_cr@[c]; let bz = z.balance_cr@[c];
    let fa = filter_carrier(cs, c); let fb = filter_carrier(cs2, c);
    let a = Run { cs: fa, used: bx.used, prod: bx.prod, fm: bx.f_match@, exp: bx.exp, del: bx.del };
    let b = Run { cs: fb, used: bz.used, prod: bz.prod, fm: bz.f_match@, exp: bz.exp, del: bz.del };
    lemma_filter_carrier(cs, c, n); lemma_filter_carrier(cs2, c, n);
    lemma_nonneg_filter(cs, c); lemma_nonneg_filter(cs2, c);
    lemma_more_onsite_filter(cs, cs2, c);
    assert(e_has_carrier(fa[0], c) && e_has_carrier(fb[0], c));
    assert(run_n(a) == n && run_n(b) == n) by { assert(e_vals(fa[0]).len() == n && e_vals(fb[0]).len() == n); }
    assert(clear_run(a) && clear_run(b)) by { assert(clear_prod(bx.prod.t@) && clear_prod(bz.prod.t@)); }
    if c == Carrier::ELECTRICIDAD {
        lemma_acc_filter(cs, c, Sel::Prod(ProdSource::EL_COGEN), Sel::Prod(ProdSource::EL_COGEN), 0);
        lemma_c14_el_pair(w, a, b, lm, bx.we, bz.we, k, 1);
        lemma_c14_el_pair(w, a, b, lm, bx.we, bz.we, k, 2);
    } else {
        lemma_c14_other(w, c, a, b, lm, bx.we, bz.we, k);
    }
}
/// C14 (non-renewable primary energy, CO2) at the public entry point, buildings without cogenerated electricity: the same building with
/// more on-site electricity production at any steps, everything else equal, any k_exp in [0, 1], with or without load matching: the
/// non-renewable primary energy and the emissions of every carrier and of the whole building do not increase, at step A and at step B
pub proof fn thm_c14_nren_co2(comps: Components, comps2: Components, w: Seq<Factor>, k_exp: f32, area: f32, lm: bool, r: Result<EnergyPerformance>, r2: Result<EnergyPerformance>)
    requires comps_wf(comps.data@), comps_wf(comps2.data@), nonneg_list(comps.data@), nonneg_list(comps2.data@), more_onsite_el(comps.data@, comps2.data@),
             ep_post(comps, w, k_exp, area, lm, r), ep_post(comps2, w, k_exp, area, lm, r2), r is Ok, r2 is Ok,
             0real <= rv(k_exp) <= 1real, !any_sel(comps.data@, Sel::Prod(ProdSource::EL_COGEN)), c14_shape(w, 1), c14_shape(w, 2),
             c13_clear(r->Ok_0.balance_cr@), c13_clear(r2->Ok_0.balance_cr@),
    ensures forall|c: Carrier| r->Ok_0.balance_cr@.contains_key(c) ==> r2->Ok_0.balance_cr@.contains_key(c) && c14_le(#[trigger] r->Ok_0.balance_cr@[c], r2->Ok_0.balance_cr@[c]),
            rv(r2->Ok_0.balance.we.a.nren) <= rv(r->Ok_0.balance.we.a.nren), rv(r2->Ok_0.balance.we.a.co2) <= rv(r->Ok_0.balance.we.a.co2),
            rv(r2->Ok_0.balance.we.b.nren) <= rv(r->Ok_0.balance.we.b.nren), rv(r2->Ok_0.balance.we.b.co2) <= rv(r->Ok_0.balance.we.b.co2),
{
    let x = r->Ok_0; let z = r2->Ok_0; let cs = comps.data@; let cs2 = comps2.data@;
    let bcr = x.balance_cr@; let bcr2 = z.balance_cr@;
    assert(any_sel(cs2, Sel::Prod(ProdSource::EL_COGEN)) == any_sel(cs, Sel::Prod(ProdSource::EL_COGEN))) by { lemma_any_sel_tags(cs, cs2, Sel::Prod(ProdSource::EL_COGEN)); }
    assert(x.wfactors.wdata@ == w && z.wfactors.wdata@ == w);
    assert(ep_carriers_ok(comps, k_exp, lm, x) && ep_carriers_ok(comps2, k_exp, lm, z));
    assert forall|c: Carrier| bcr.contains_key(c) implies bcr2.contains_key(c) && c14_le(#[trigger] bcr[c], bcr2[c]) by { lemma_c14_carrier2(comps, comps2, w, k_exp, lm, x, z, c); }
    assert forall|c: Carrier| bcr.contains_key(c) == bcr2.contains_key(c) by { lemma_avail_tags(cs, cs2, c); }
    assert(bcr2.dom() =~= bcr.dom());
    thm_c04_totals(bcr, comps, x.balance); thm_c04_totals(bcr2, comps2, z.balance);
    let dom = bcr.dom();
    let f1 = |q: BalanceCarrier| rv(q.we.a.nren); let f2 = |q: BalanceCarrier| rv(q.we.a.co2); let f3 = |q: BalanceCarrier| rv(q.we.b.nren); let f4 = |q: BalanceCarrier| rv(q.we.b.co2);
    assert forall|c: Carrier| dom.contains(c) implies #[trigger] gsel(bcr2, f1)(c) <= gsel(bcr, f1)(c) by { assert(c14_le(bcr[c], bcr2[c])); }
    assert forall|c: Carrier| dom.contains(c) implies #[trigger] gsel(bcr2, f2)(c) <= gsel(bcr, f2)(c) by { assert(c14_le(bcr[c], bcr2[c])); }
    assert forall|c: Carrier| dom.contains(c) implies #[trigger] gsel(bcr2, f3)(c) <= gsel(bcr, f3)(c) by { assert(c14_le(bcr[c], bcr2[c])); }
    assert forall|c: Carrier| dom.contains(c) implies #[trigger] gsel(bcr2, f4)(c) <= gsel(bcr, f4)(c) by { assert(c14_le(bcr[c], bcr2[c])); }
    lemma_csum_le(dom, gsel(bcr, f1), gsel(bcr2, f1), carriers12());
    lemma_csum_le(dom, gsel(bcr, f2), gsel(bcr2, f2), carriers12());
    lemma_csum_le(dom, gsel(bcr, f3), gsel(bcr2, f3), carriers12());
    lemma_csum_le(dom, gsel(bcr, f4), gsel(bcr2, f4), carriers12());
}
