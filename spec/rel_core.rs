// ---- relational ("two-run") theorems over the PROVED contracts of the per-carrier functions (ghost code only).
// Two evaluations are related through the bundles cup_post / ced_post / cwe_post, i.e. through exactly the clauses that the units
// `flows` and `weights` prove of the real compute_used_produced / compute_exported_delivered / compute_weighted_energy.
// One step theorem serves C11 (energy x c, same step), C09 (permutation: c = 1, step i2 = pi(i); subdivision: c = 1/m, i = i2 / m)
// and C10 (reordered / split lines: c = 1, same step, another component list with the same sums).

// ------------------------------------------------------------------------------------------------ small arithmetic
pub proof fn lemma_mul0(c: real) ensures c * 0real == 0real, 0real * c == 0real { assert(c * 0real == 0real && 0real * c == 0real) by(nonlinear_arith); }
pub proof fn lemma_dist2(c: real, a: real, b: real) ensures c * (a + b) == c * a + c * b, c * (a - b) == c * a - c * b {
    assert(c * (a + b) == c * a + c * b && c * (a - b) == c * a - c * b) by(nonlinear_arith);
}
pub proof fn lemma_dist3(c: real, a: real, b: real, d: real) ensures c * (a + b + d) == c * a + c * b + c * d {
    assert(c * (a + b + d) == c * a + c * b + c * d) by(nonlinear_arith);
}
pub proof fn lemma_dist4(c: real, a: real, b: real, d: real, e: real) ensures c * (a + b + d + e) == c * a + c * b + c * d + c * e {
    assert(c * (a + b + d + e) == c * a + c * b + c * d + c * e) by(nonlinear_arith);
}
pub proof fn lemma_assoc(c: real, a: real, b: real) ensures (c * a) * b == c * (a * b), a * (c * b) == c * (a * b), (c * a) * b == (c * b) * a {
    assert((c * a) * b == c * (a * b) && a * (c * b) == c * (a * b) && (c * a) * b == (c * b) * a) by(nonlinear_arith);
}
pub proof fn lemma_pos_mul(c: real, x: real) requires c > 0real
    ensures x > 0real ==> c * x > 0real, x == 0real ==> c * x == 0real, x < 0real ==> c * x < 0real, x >= 0real ==> c * x >= 0real,
{
    assert((x > 0real ==> c * x > 0real) && (x == 0real ==> c * x == 0real) && (x < 0real ==> c * x < 0real)) by(nonlinear_arith) requires c > 0real;
}
pub proof fn lemma_rmin_scale(c: real, a: real, b: real) requires c > 0real ensures rmin(c * a, c * b) == c * rmin(a, b) {
    if a <= b { assert(c * a <= c * b) by(nonlinear_arith) requires c > 0real, a <= b; }
    else { assert(c * a > c * b) by(nonlinear_arith) requires c > 0real, a > b; }
}
/// share / ratio / fmatch are homogeneous of degree 0
pub proof fn lemma_share_scale(c: real, p: real, u: real) requires c > 0real
    ensures share(c * p, c * u) == share(p, u), fmatch(true, c * p, c * u) == fmatch(true, p, u), fmatch(false, c * p, c * u) == fmatch(false, p, u),
            ratio(c * p, c * u) == ratio(p, u),
{
    lemma_c11_ratio(p, u, c);
}

// ------------------------------------------------------------------------------------------------ relation between two component lists
/// every classified sum of the second list at step i2 is c times the sum of the first list at step i
pub open spec fn acc_rel(cs: Seq<Energy>, cs2: Seq<Energy>, i: int, i2: int, c: real) -> bool {
    forall|k: Sel| #[trigger] acc(cs2, k, i2) == c * acc(cs, k, i)
}
/// the two lists have components of the same classes
pub open spec fn sel_same(cs: Seq<Energy>, cs2: Seq<Energy>) -> bool {
    forall|k: Sel| #[trigger] any_sel(cs2, k) == any_sel(cs, k)
}
/// same tags (kind, carrier / source, service); the values, the comment and the system id are left open: the balance of an already
/// normalized component list does not look at system ids at all (they matter to Components::normalize only)
pub open spec fn same_tags(a: Energy, b: Energy) -> bool {
    ||| (a is Prod && b is Prod && a->Prod_0.source == b->Prod_0.source)
    ||| (a is Used && b is Used && a->Used_0.carrier == b->Used_0.carrier && a->Used_0.service == b->Used_0.service)
    ||| (a is Aux && b is Aux && a->Aux_0.service == b->Aux_0.service)
    ||| (a is Out && b is Out && a->Out_0.service == b->Out_0.service)
}
pub open spec fn tags_same(cs: Seq<Energy>, cs2: Seq<Energy>) -> bool {
    cs.len() == cs2.len() && forall|j: int| 0 <= j < cs.len() ==> same_tags(#[trigger] cs[j], cs2[j])
}
/// component by component, the value of the second list at step i2 is c times the value of the first at step i
pub open spec fn val_rel(cs: Seq<Energy>, cs2: Seq<Energy>, i: int, i2: int, c: real) -> bool {
    forall|j: int| 0 <= j < cs.len() ==> rv(#[trigger] e_vals(cs2[j])[i2]) == c * rv(e_vals(cs[j])[i])
}
pub proof fn lemma_same_tags_sel(a: Energy, b: Energy, k: Sel)
    requires same_tags(a, b),
    ensures sel(k, a) == sel(k, b), (a is Out) == (b is Out), !(a is Out) ==> e_carrier(a) == e_carrier(b),
{}
pub proof fn lemma_acc_rel_one(cs: Seq<Energy>, cs2: Seq<Energy>, k: Sel, i: int, i2: int, c: real)
    requires tags_same(cs, cs2), val_rel(cs, cs2, i, i2, c),
    ensures acc(cs2, k, i2) == c * acc(cs, k, i), any_sel(cs2, k) == any_sel(cs, k),
    decreases cs.len(),
{
    if cs.len() == 0 { lemma_mul0(c); }
    else {
        let a = cs.drop_last(); let b = cs2.drop_last();
        let n = cs.len() - 1;
        assert forall|j: int| 0 <= j < a.len() implies same_tags(#[trigger] a[j], b[j]) by { assert(a[j] == cs[j] && b[j] == cs2[j]); }
        assert forall|j: int| 0 <= j < a.len() implies rv(#[trigger] e_vals(b[j])[i2]) == c * rv(e_vals(a[j])[i]) by { assert(a[j] == cs[j] && b[j] == cs2[j]); }
        lemma_acc_rel_one(a, b, k, i, i2, c);
        assert(same_tags(cs[n], cs2[n]));
        lemma_same_tags_sel(cs[n], cs2[n], k);
        assert(rv(e_vals(cs2[n])[i2]) == c * rv(e_vals(cs[n])[i]));
        lemma_mul0(c);
        let x = if sel(k, cs.last()) { rv(e_vals(cs.last())[i]) } else { 0real };
        lemma_dist2(c, acc(a, k, i), x);
    }
}
/// tags_same + val_rel  ==>  acc_rel + sel_same  (the hypothesis of the step theorem for C11 / C09)
pub proof fn lemma_acc_rel(cs: Seq<Energy>, cs2: Seq<Energy>, i: int, i2: int, c: real)
    requires tags_same(cs, cs2), val_rel(cs, cs2, i, i2, c),
    ensures acc_rel(cs, cs2, i, i2, c), sel_same(cs, cs2),
{
    assert forall|k: Sel| #[trigger] acc(cs2, k, i2) == c * acc(cs, k, i) by { lemma_acc_rel_one(cs, cs2, k, i, i2, c); }
    assert forall|k: Sel| #[trigger] any_sel(cs2, k) == any_sel(cs, k) by { lemma_acc_rel_one(cs, cs2, k, i, i2, c); }
}

// ------------------------------------------------------------------------------------------------ the step theorem (flows)
pub open spec fn mv2(m: Map<ProdSource, HashMap<Service, Vec<f32>>>, s: ProdSource, srv: Service, i: int) -> real {
    if m.contains_key(s) && m[s]@.contains_key(srv) { rv(m[s]@[srv]@[i]) } else { 0real }
}
/// the domains of the per-service / per-source maps of the two evaluations agree
pub open spec fn doms_same(used: UsedEnergy, prod: ProducedEnergy, exp: ExportedEnergy, used2: UsedEnergy, prod2: ProducedEnergy, exp2: ExportedEnergy) -> bool {
    &&& used2.epus_by_srv_t@.dom() =~= used.epus_by_srv_t@.dom()
    &&& used2.epus_by_srv_an@.dom() =~= used.epus_by_srv_an@.dom()
    &&& prod2.by_src_t@.dom() =~= prod.by_src_t@.dom()
    &&& prod2.by_src_an@.dom() =~= prod.by_src_an@.dom()
    &&& prod2.epus_by_src_t@.dom() =~= prod.epus_by_src_t@.dom()
    &&& prod2.epus_by_src_an@.dom() =~= prod.epus_by_src_an@.dom()
    &&& exp2.by_src_t@.dom() =~= exp.by_src_t@.dom()
    &&& exp2.by_src_an@.dom() =~= exp.by_src_an@.dom()
}
/// every per-step figure of the second evaluation at step i2 is c times the figure of the first at step i; the load-matching factor is the same
pub open spec fn step_rel(used: UsedEnergy, prod: ProducedEnergy, fm: Seq<f32>, exp: ExportedEnergy, del: DeliveredEnergy,
                          used2: UsedEnergy, prod2: ProducedEnergy, fm2: Seq<f32>, exp2: ExportedEnergy, del2: DeliveredEnergy, i: int, i2: int, c: real) -> bool {
    &&& rv(used2.epus_t@[i2]) == c * rv(used.epus_t@[i])
    &&& rv(used2.nepus_t@[i2]) == c * rv(used.nepus_t@[i])
    &&& rv(used2.cgnus_t@[i2]) == c * rv(used.cgnus_t@[i])
    &&& (forall|s: Service| #[trigger] mvs(used2.epus_by_srv_t@, s, i2) == c * mvs(used.epus_by_srv_t@, s, i))
    &&& rv(prod2.t@[i2]) == c * rv(prod.t@[i])
    &&& (forall|s: ProdSource| #[trigger] mv(prod2.by_src_t@, s, i2) == c * mv(prod.by_src_t@, s, i))
    &&& rv(fm2[i2]) == rv(fm[i])
    &&& rv(prod2.epus_t@[i2]) == c * rv(prod.epus_t@[i])
    &&& (forall|s: ProdSource| #[trigger] mv(prod2.epus_by_src_t@, s, i2) == c * mv(prod.epus_by_src_t@, s, i))
    &&& (forall|s: ProdSource, srv: Service| #[trigger] mv2(prod2.epus_by_srv_by_src_t@, s, srv, i2) == c * mv2(prod.epus_by_srv_by_src_t@, s, srv, i))
    &&& rv(exp2.t@[i2]) == c * rv(exp.t@[i])
    &&& rv(exp2.nepus_t@[i2]) == c * rv(exp.nepus_t@[i])
    &&& rv(exp2.grid_t@[i2]) == c * rv(exp.grid_t@[i])
    &&& (forall|s: ProdSource| #[trigger] mv(exp2.by_src_t@, s, i2) == c * mv(exp.by_src_t@, s, i))
    &&& rv(del2.grid_t@[i2]) == c * rv(del.grid_t@[i])
    &&& rv(del2.onst_t@[i2]) == c * rv(del.onst_t@[i])
    &&& rv(del2.cgn_t@[i2]) == c * rv(del.cgn_t@[i])
}
/// the value domain of the property at one step: the total production is zero or above the 1e-3 kWh guard of formula (14)
pub open spec fn in_dom(p: real) -> bool { p == 0real || p > 1real / 1000real }

/// produced energy used on site, with the priority order of electricity (pure arithmetic)
pub proof fn lemma_step_pri(c: real, pv: real, chp: real, us: real, f: real)
    requires c > 0real,
    ensures pri_insitu(c * pv, c * us, f) == c * pri_insitu(pv, us, f),
            pri_cogen(c * pv, c * chp, c * us, f) == c * pri_cogen(pv, chp, us, f),
{
    lemma_c11_flows(pv, chp, us, f, c);
}
/// ... and without priority order: f * min(use, production), split by the share of each source in the production
pub proof fn lemma_step_nopri(c: real, us: real, pt: real, ps: real, f: real)
    requires c > 0real, in_dom(pt), in_dom(c * pt),
    ensures f * rmin(c * us, c * pt) == c * (f * rmin(us, pt)),
            (c * (f * rmin(us, pt))) * fsrc(c * ps, c * pt) == c * ((f * rmin(us, pt)) * fsrc(ps, pt)),
{
    lemma_rmin_scale(c, us, pt);
    lemma_assoc(c, f, rmin(us, pt));
    lemma_pos_mul(c, pt);
    if pt == 0real { } else {
        assert(pt > 0real);
        assert((c * ps) / (c * pt) == ps / pt) by(nonlinear_arith) requires c > 0real, pt > 0real;
    }
    assert(fsrc(c * ps, c * pt) == fsrc(ps, pt));
    lemma_assoc(c, f * rmin(us, pt), fsrc(ps, pt));
}

// ------------------------------------------------------------------------------------------------ one evaluation of one carrier
pub struct Run { pub cs: Seq<Energy>, pub used: UsedEnergy, pub prod: ProducedEnergy, pub fm: Seq<f32>, pub exp: ExportedEnergy, pub del: DeliveredEnergy }
/// the proved postconditions of compute_used_produced and compute_exported_delivered hold of this evaluation
pub open spec fn run_ok(r: Run, lm: bool) -> bool {
    r.cs.len() > 0 && cup_post(r.cs, lm, r.used, r.prod, r.fm) && ced_post(r.used, r.prod, r.exp, r.del)
}
pub open spec fn run_n(r: Run) -> int { r.prod.t@.len() as int }
pub open spec fn step_rel_r(a: Run, b: Run, i: int, i2: int, c: real) -> bool {
    step_rel(a.used, a.prod, a.fm, a.exp, a.del, b.used, b.prod, b.fm, b.exp, b.del, i, i2, c)
}
pub open spec fn doms_same_r(a: Run, b: Run) -> bool { doms_same(a.used, a.prod, a.exp, b.used, b.prod, b.exp) }
/// hypothesis of the step theorem
pub open spec fn step_hyp(a: Run, b: Run, lm: bool, i: int, i2: int, c: real) -> bool {
    &&& run_ok(a, lm) && run_ok(b, lm)
    &&& e_carrier(a.cs[0]) == e_carrier(b.cs[0])
    &&& sel_same(a.cs, b.cs) && acc_rel(a.cs, b.cs, i, i2, c) && c > 0real
    &&& 0 <= i < run_n(a) && 0 <= i2 < run_n(b)
    &&& in_dom(rv(a.prod.t@[i])) && in_dom(rv(b.prod.t@[i2]))
}

pub proof fn lemma_step_doms(a: Run, b: Run, lm: bool)
    requires run_ok(a, lm), run_ok(b, lm), e_carrier(a.cs[0]) == e_carrier(b.cs[0]), sel_same(a.cs, b.cs),
    ensures doms_same_r(a, b), pri(e_carrier(a.cs[0]), a.prod.by_src_t@) == pri(e_carrier(b.cs[0]), b.prod.by_src_t@),
{
    assert forall|s: Service| a.used.epus_by_srv_t@.contains_key(s) == b.used.epus_by_srv_t@.contains_key(s) by {
        assert(any_sel(b.cs, Sel::EpusSrv(s)) == any_sel(a.cs, Sel::EpusSrv(s)));
    }
    assert forall|s: ProdSource| a.prod.by_src_t@.contains_key(s) == b.prod.by_src_t@.contains_key(s) by {
        assert(any_sel(b.cs, Sel::Prod(s)) == any_sel(a.cs, Sel::Prod(s)));
    }
    assert(b.prod.by_src_t@.dom() =~= a.prod.by_src_t@.dom());
    assert(b.used.epus_by_srv_t@.dom() =~= a.used.epus_by_srv_t@.dom());
}

/// stage A: uses, production by source and in total, load-matching factor
pub proof fn lemma_step_a(a: Run, b: Run, lm: bool, i: int, i2: int, c: real)
    requires step_hyp(a, b, lm, i, i2, c),
    ensures
        rv(b.used.epus_t@[i2]) == c * rv(a.used.epus_t@[i]),
        rv(b.used.nepus_t@[i2]) == c * rv(a.used.nepus_t@[i]),
        rv(b.used.cgnus_t@[i2]) == c * rv(a.used.cgnus_t@[i]),
        forall|s: Service| #[trigger] mvs(b.used.epus_by_srv_t@, s, i2) == c * mvs(a.used.epus_by_srv_t@, s, i),
        forall|s: ProdSource| #[trigger] mv(b.prod.by_src_t@, s, i2) == c * mv(a.prod.by_src_t@, s, i),
        rv(b.prod.t@[i2]) == c * rv(a.prod.t@[i]),
        rv(b.fm[i2]) == rv(a.fm[i]),
{
    lemma_step_doms(a, b, lm);
    lemma_mul0(c);
    assert(acc(b.cs, Sel::Epus, i2) == c * acc(a.cs, Sel::Epus, i));
    assert(acc(b.cs, Sel::Nepus, i2) == c * acc(a.cs, Sel::Nepus, i));
    assert(acc(b.cs, Sel::Cgn, i2) == c * acc(a.cs, Sel::Cgn, i));
    assert(rv(b.used.epus_t@[i2]) == acc(b.cs, Sel::Epus, i2));
    assert(rv(a.used.epus_t@[i]) == acc(a.cs, Sel::Epus, i));
    assert forall|s: Service| #[trigger] mvs(b.used.epus_by_srv_t@, s, i2) == c * mvs(a.used.epus_by_srv_t@, s, i) by {
        assert(acc(b.cs, Sel::EpusSrv(s), i2) == c * acc(a.cs, Sel::EpusSrv(s), i));
        if a.used.epus_by_srv_t@.contains_key(s) {
            assert(rv(a.used.epus_by_srv_t@[s]@[i]) == acc(a.cs, Sel::EpusSrv(s), i));
            assert(rv(b.used.epus_by_srv_t@[s]@[i2]) == acc(b.cs, Sel::EpusSrv(s), i2));
        }
    }
    assert forall|s: ProdSource| #[trigger] mv(b.prod.by_src_t@, s, i2) == c * mv(a.prod.by_src_t@, s, i) by {
        assert(acc(b.cs, Sel::Prod(s), i2) == c * acc(a.cs, Sel::Prod(s), i));
        if a.prod.by_src_t@.contains_key(s) {
            assert(rv(a.prod.by_src_t@[s]@[i]) == acc(a.cs, Sel::Prod(s), i));
            assert(rv(b.prod.by_src_t@[s]@[i2]) == acc(b.cs, Sel::Prod(s), i2));
        }
    }
    let m = a.prod.by_src_t@; let m2 = b.prod.by_src_t@;
    assert(rv(a.prod.t@[i]) == all_src_sum(m, i));
    assert(rv(b.prod.t@[i2]) == all_src_sum(m2, i2));
    assert(mv(m2, ProdSource::EL_INSITU, i2) == c * mv(m, ProdSource::EL_INSITU, i));
    assert(mv(m2, ProdSource::EL_COGEN, i2) == c * mv(m, ProdSource::EL_COGEN, i));
    assert(mv(m2, ProdSource::TERMOSOLAR, i2) == c * mv(m, ProdSource::TERMOSOLAR, i));
    assert(mv(m2, ProdSource::EAMBIENTE, i2) == c * mv(m, ProdSource::EAMBIENTE, i));
    lemma_dist4(c, mv(m, ProdSource::EL_INSITU, i), mv(m, ProdSource::EL_COGEN, i), mv(m, ProdSource::TERMOSOLAR, i), mv(m, ProdSource::EAMBIENTE, i));
    lemma_share_scale(c, rv(a.prod.t@[i]), rv(a.used.epus_t@[i]));
    assert(rv(a.fm[i]) == fmatch(lm, rv(a.prod.t@[i]), rv(a.used.epus_t@[i])));
    assert(rv(b.fm[i2]) == fmatch(lm, rv(b.prod.t@[i2]), rv(b.used.epus_t@[i2])));
}

/// stage B: produced energy used on site, in total, by source and by service and source
pub proof fn lemma_step_b(a: Run, b: Run, lm: bool, i: int, i2: int, c: real)
    requires step_hyp(a, b, lm, i, i2, c),
    ensures
        rv(b.prod.epus_t@[i2]) == c * rv(a.prod.epus_t@[i]),
        forall|s: ProdSource| #[trigger] mv(b.prod.epus_by_src_t@, s, i2) == c * mv(a.prod.epus_by_src_t@, s, i),
        forall|s: ProdSource, srv: Service| #[trigger] mv2(b.prod.epus_by_srv_by_src_t@, s, srv, i2) == c * mv2(a.prod.epus_by_srv_by_src_t@, s, srv, i),
{
    lemma_step_doms(a, b, lm);
    lemma_step_a(a, b, lm, i, i2, c);
    lemma_mul0(c);
    let us = rv(a.used.epus_t@[i]); let us2 = rv(b.used.epus_t@[i2]);
    let pt = rv(a.prod.t@[i]); let pt2 = rv(b.prod.t@[i2]);
    let f = rv(a.fm[i]);
    let p = pri(e_carrier(a.cs[0]), a.prod.by_src_t@);
    assert(p == pri(e_carrier(b.cs[0]), b.prod.by_src_t@));
    if p {
        let pv = rv(a.prod.by_src_t@[ProdSource::EL_INSITU]@[i]); let chp = rv(a.prod.by_src_t@[ProdSource::EL_COGEN]@[i]);
        assert(mv(b.prod.by_src_t@, ProdSource::EL_INSITU, i2) == c * mv(a.prod.by_src_t@, ProdSource::EL_INSITU, i));
        assert(mv(b.prod.by_src_t@, ProdSource::EL_COGEN, i2) == c * mv(a.prod.by_src_t@, ProdSource::EL_COGEN, i));
        lemma_step_pri(c, pv, chp, us, f);
        let e1 = rv(a.prod.epus_by_src_t@[ProdSource::EL_INSITU]@[i]); let e2 = rv(a.prod.epus_by_src_t@[ProdSource::EL_COGEN]@[i]);
        assert(e1 == pri_insitu(pv, us, f));
        assert(e2 == pri_cogen(pv, chp, us, f));
        assert(rv(b.prod.epus_by_src_t@[ProdSource::EL_INSITU]@[i2]) == c * e1);
        assert(rv(b.prod.epus_by_src_t@[ProdSource::EL_COGEN]@[i2]) == c * e2);
        assert(rv(a.prod.epus_t@[i]) == e1 + e2);
        lemma_dist2(c, e1, e2);
        assert(a.prod.epus_by_src_t@.dom() =~= set![ProdSource::EL_INSITU, ProdSource::EL_COGEN]);
        assert(b.prod.epus_by_src_t@.dom() =~= set![ProdSource::EL_INSITU, ProdSource::EL_COGEN]);
        assert forall|s: ProdSource| #[trigger] mv(b.prod.epus_by_src_t@, s, i2) == c * mv(a.prod.epus_by_src_t@, s, i) by {
            if s == ProdSource::EL_INSITU {} else if s == ProdSource::EL_COGEN {} else {
                assert(!a.prod.epus_by_src_t@.contains_key(s) && !b.prod.epus_by_src_t@.contains_key(s));
            }
        }
    } else {
        let e = f * rmin(us, pt);
        assert(rv(a.prod.epus_t@[i]) == e);
        assert(rv(b.prod.epus_t@[i2]) == f * rmin(us2, pt2));
        lemma_step_nopri(c, us, pt, 0real, f);
        assert(b.prod.epus_by_src_t@.dom() =~= a.prod.epus_by_src_t@.dom());
        assert forall|s: ProdSource| #[trigger] mv(b.prod.epus_by_src_t@, s, i2) == c * mv(a.prod.epus_by_src_t@, s, i) by {
            if a.prod.by_src_t@.contains_key(s) {
                let ps = rv(a.prod.by_src_t@[s]@[i]);
                assert(mv(b.prod.by_src_t@, s, i2) == c * mv(a.prod.by_src_t@, s, i));
                lemma_step_nopri(c, us, pt, ps, f);
                assert(rv(a.prod.epus_by_src_t@[s]@[i]) == e * fsrc(ps, pt));
                assert(rv(b.prod.epus_by_src_t@[s]@[i2]) == (c * e) * fsrc(c * ps, c * pt));
            } else {
                assert(!a.prod.epus_by_src_t@.contains_key(s) && !b.prod.epus_by_src_t@.contains_key(s));
            }
        }
    }
    assert forall|s: ProdSource, srv: Service| #[trigger] mv2(b.prod.epus_by_srv_by_src_t@, s, srv, i2) == c * mv2(a.prod.epus_by_srv_by_src_t@, s, srv, i) by {
        assert(a.prod.epus_by_srv_by_src_t@.dom() =~= a.prod.epus_by_src_t@.dom());
        assert(b.prod.epus_by_srv_by_src_t@.dom() =~= b.prod.epus_by_src_t@.dom());
        if a.prod.epus_by_src_t@.contains_key(s) {
            assert(b.prod.epus_by_src_t@.contains_key(s));
            assert(a.prod.epus_by_srv_by_src_t@[s]@.dom() =~= a.used.epus_by_srv_t@.dom());
            assert(b.prod.epus_by_srv_by_src_t@[s]@.dom() =~= b.used.epus_by_srv_t@.dom());
            if a.used.epus_by_srv_t@.contains_key(srv) {
                assert(b.used.epus_by_srv_t@.contains_key(srv));
                let q = rv(a.used.epus_by_srv_t@[srv]@[i]);
                let es = rv(a.prod.epus_by_src_t@[s]@[i]);
                assert(mvs(b.used.epus_by_srv_t@, srv, i2) == c * mvs(a.used.epus_by_srv_t@, srv, i));
                assert(mv(b.prod.epus_by_src_t@, s, i2) == c * mv(a.prod.epus_by_src_t@, s, i));
                lemma_share_scale(c, q, us);
                assert(rv(a.prod.epus_by_srv_by_src_t@[s]@[srv]@[i]) == share(q, us) * es);
                assert(rv(b.prod.epus_by_srv_by_src_t@[s]@[srv]@[i2]) == share(c * q, c * us) * (c * es));
                lemma_assoc(c, share(q, us), es);
            }
        } else {
            assert(!b.prod.epus_by_src_t@.contains_key(s));
        }
    }
}

/// stage C: exported and delivered energy
pub proof fn lemma_step_c(a: Run, b: Run, lm: bool, i: int, i2: int, c: real)
    requires step_hyp(a, b, lm, i, i2, c),
    ensures
        rv(b.exp.t@[i2]) == c * rv(a.exp.t@[i]),
        rv(b.exp.nepus_t@[i2]) == c * rv(a.exp.nepus_t@[i]),
        rv(b.exp.grid_t@[i2]) == c * rv(a.exp.grid_t@[i]),
        forall|s: ProdSource| #[trigger] mv(b.exp.by_src_t@, s, i2) == c * mv(a.exp.by_src_t@, s, i),
        rv(b.del.grid_t@[i2]) == c * rv(a.del.grid_t@[i]),
        rv(b.del.onst_t@[i2]) == c * rv(a.del.onst_t@[i]),
        rv(b.del.cgn_t@[i2]) == c * rv(a.del.cgn_t@[i]),
{
    lemma_step_doms(a, b, lm);
    lemma_step_a(a, b, lm, i, i2, c);
    lemma_step_b(a, b, lm, i, i2, c);
    lemma_mul0(c);
    let pt = rv(a.prod.t@[i]); let pe = rv(a.prod.epus_t@[i]); let us = rv(a.used.epus_t@[i]); let ne = rv(a.used.nepus_t@[i]);
    lemma_dist2(c, pt, pe);
    assert(rv(a.exp.t@[i]) == pt - pe);
    assert(rv(b.exp.t@[i2]) == rv(b.prod.t@[i2]) - rv(b.prod.epus_t@[i2]));
    lemma_rmin_scale(c, pt - pe, ne);
    assert(rv(a.exp.nepus_t@[i]) == rmin(rv(a.exp.t@[i]), ne));
    assert(rv(b.exp.nepus_t@[i2]) == rmin(rv(b.exp.t@[i2]), rv(b.used.nepus_t@[i2])));
    lemma_dist2(c, rv(a.exp.t@[i]), rv(a.exp.nepus_t@[i]));
    assert(rv(a.exp.grid_t@[i]) == rv(a.exp.t@[i]) - rv(a.exp.nepus_t@[i]));
    assert(rv(b.exp.grid_t@[i2]) == rv(b.exp.t@[i2]) - rv(b.exp.nepus_t@[i2]));
    lemma_dist2(c, us, pe);
    assert(rv(a.del.grid_t@[i]) == us - pe);
    assert(rv(b.del.grid_t@[i2]) == rv(b.used.epus_t@[i2]) - rv(b.prod.epus_t@[i2]));
    let m = a.prod.by_src_t@; let m2 = b.prod.by_src_t@;
    assert(mv(m2, ProdSource::EL_INSITU, i2) == c * mv(m, ProdSource::EL_INSITU, i));
    assert(mv(m2, ProdSource::TERMOSOLAR, i2) == c * mv(m, ProdSource::TERMOSOLAR, i));
    assert(mv(m2, ProdSource::EAMBIENTE, i2) == c * mv(m, ProdSource::EAMBIENTE, i));
    lemma_dist3(c, mv(m, ProdSource::EL_INSITU, i), mv(m, ProdSource::TERMOSOLAR, i), mv(m, ProdSource::EAMBIENTE, i));
    assert(rv(a.del.onst_t@[i]) == onsite_sum(m, i));
    assert(rv(b.del.onst_t@[i2]) == onsite_sum(m2, i2));
    assert(a.del.cgn_t@ == a.used.cgnus_t@ && b.del.cgn_t@ == b.used.cgnus_t@);
    assert forall|s: ProdSource| #[trigger] mv(b.exp.by_src_t@, s, i2) == c * mv(a.exp.by_src_t@, s, i) by {
        assert(a.exp.by_src_t@.dom() =~= a.prod.by_src_t@.dom() && b.exp.by_src_t@.dom() =~= b.prod.by_src_t@.dom());
        if a.prod.by_src_t@.contains_key(s) {
            assert(b.prod.by_src_t@.contains_key(s));
            assert(a.prod.epus_by_src_t@.contains_key(s) && b.prod.epus_by_src_t@.contains_key(s));
            assert(mv(m2, s, i2) == c * mv(m, s, i));
            assert(mv(b.prod.epus_by_src_t@, s, i2) == c * mv(a.prod.epus_by_src_t@, s, i));
            lemma_dist2(c, rv(m[s]@[i]), rv(a.prod.epus_by_src_t@[s]@[i]));
            assert(rv(a.exp.by_src_t@[s]@[i]) == rv(m[s]@[i]) - rv(a.prod.epus_by_src_t@[s]@[i]));
            assert(rv(b.exp.by_src_t@[s]@[i2]) == rv(m2[s]@[i2]) - rv(b.prod.epus_by_src_t@[s]@[i2]));
        } else {
            assert(!b.prod.by_src_t@.contains_key(s));
        }
    }
}

/// THE STEP THEOREM: if every classified sum of the second component list at step i2 is c times that of the first at step i,
/// then every per-step figure the real functions compute is c times the first one's, and the load-matching factor is the same.
pub proof fn thm_step(a: Run, b: Run, lm: bool, i: int, i2: int, c: real)
    requires step_hyp(a, b, lm, i, i2, c),
    ensures step_rel_r(a, b, i, i2, c), doms_same_r(a, b),
{
    lemma_step_doms(a, b, lm);
    lemma_step_a(a, b, lm, i, i2, c);
    lemma_step_b(a, b, lm, i, i2, c);
    lemma_step_c(a, b, lm, i, i2, c);
}

// ------------------------------------------------------------------------------------------------ layouts of the time axis and annual sums
/// `idx[i2]` is the step of the first evaluation that step i2 of the second corresponds to; `cs` the factor between their energies
pub open spec fn lay_rel(v: Seq<f32>, v2: Seq<f32>, idx: Seq<int>, cs: real) -> bool {
    v2.len() == idx.len() && forall|i2: int| 0 <= i2 < idx.len() ==> 0 <= #[trigger] idx[i2] < v.len() && rv(v2[i2]) == cs * rv(v[idx[i2]])
}
/// a layout under which every annual sum of the second evaluation is `ct` times that of the first
pub open spec fn lay_sums(idx: Seq<int>, n: int, cs: real, ct: real) -> bool {
    forall|v: Seq<f32>, v2: Seq<f32>| v.len() == n && #[trigger] lay_rel(v, v2, idx, cs) ==> sumf(v2) == ct * sumf(v)
}
pub open spec fn idx_ident(n: int) -> Seq<int> { Seq::new(n as nat, |i: int| i) }
/// (S) same time axis, energies x c: annual sums x c
pub proof fn lemma_sumf_scale(v: Seq<f32>, v2: Seq<f32>, c: real)
    requires v.len() == v2.len(), forall|i: int| 0 <= i < v.len() ==> rv(#[trigger] v2[i]) == c * rv(v[i]),
    ensures sumf(v2) == c * sumf(v),
    decreases v.len(),
{
    if v.len() == 0 { lemma_mul0(c); }
    else {
        assert forall|i: int| 0 <= i < v.drop_last().len() implies rv(#[trigger] v2.drop_last()[i]) == c * rv(v.drop_last()[i]) by {
            assert(v2.drop_last()[i] == v2[i] && v.drop_last()[i] == v[i]);
        }
        lemma_sumf_scale(v.drop_last(), v2.drop_last(), c);
        assert(rv(v2[v.len() - 1]) == c * rv(v[v.len() - 1]));
        lemma_dist2(c, sumf(v.drop_last()), rv(v.last()));
    }
}
pub proof fn lemma_lay_same(n: int, c: real)
    requires n >= 0,
    ensures lay_sums(idx_ident(n), n, c, c),
{
    let idx = idx_ident(n);
    assert forall|v: Seq<f32>, v2: Seq<f32>| v.len() == n && #[trigger] lay_rel(v, v2, idx, c) implies sumf(v2) == c * sumf(v) by {
        assert forall|i: int| 0 <= i < v.len() implies rv(#[trigger] v2[i]) == c * rv(v[i]) by { assert(idx[i] == i); }
        lemma_sumf_scale(v, v2, c);
    }
}

/// sumf as a sum of reals
pub open spec fn rvs(v: Seq<f32>) -> Seq<real> { Seq::new(v.len(), |i: int| rv(v[i])) }
pub proof fn lemma_sumf_sumr(v: Seq<f32>)
    ensures sumf(v) == sumr(rvs(v)),
    decreases v.len(),
{
    if v.len() > 0 {
        lemma_sumf_sumr(v.drop_last());
        assert(rvs(v).drop_last() =~= rvs(v.drop_last()));
        assert(rvs(v).last() == rv(v.last()));
    }
}
/// a permutation of 0..n as a sequence of indices
pub open spec fn is_perm(idx: Seq<int>, n: int) -> bool {
    idx.len() == n && idx.no_duplicates() && forall|i: int| 0 <= i < n ==> 0 <= #[trigger] idx[i] < n
}
/// sum of a[idx[i]] over a permutation idx equals the sum of a
pub proof fn lemma_sumr_reindex(a: Seq<real>, idx: Seq<int>)
    requires is_perm(idx, a.len() as int),
    ensures sumr(Seq::new(a.len(), |i: int| a[idx[i]])) == sumr(a),
    decreases a.len(),
{
    let n = a.len() as int;
    let b = Seq::new(a.len(), |i: int| a[idx[i]]);
    if n > 0 {
        let p = idx[n - 1];
        assert(0 <= p < n);
        let a1 = a.remove(p);
        let idx1 = Seq::new((n - 1) as nat, |i: int| if idx[i] < p { idx[i] } else { idx[i] - 1 });
        assert forall|i: int| 0 <= i < n - 1 implies idx[i] != p by { assert(idx[i] != idx[n - 1]); }
        assert forall|i: int| 0 <= i < n - 1 implies 0 <= #[trigger] idx1[i] < n - 1 by { assert(0 <= idx[i] < n); assert(idx[i] != p); }
        assert forall|i: int, j: int| 0 <= i < n - 1 && 0 <= j < n - 1 && i != j implies idx1[i] != idx1[j] by {
            assert(idx[i] != idx[j]); assert(idx[i] != p && idx[j] != p);
        }
        assert(is_perm(idx1, n - 1));
        let b1 = Seq::new(a1.len(), |i: int| a1[idx1[i]]);
        assert(b.drop_last() =~= b1) by {
            assert forall|i: int| 0 <= i < n - 1 implies b.drop_last()[i] == b1[i] by {
                assert(idx[i] != p);
                if idx[i] < p { assert(a1[idx[i]] == a[idx[i]]); } else { assert(a1[idx[i] - 1] == a[idx[i]]); }
            }
        }
        lemma_sumr_reindex(a1, idx1);
        lemma_sumr_remove(a, p);
        assert(b.last() == a[p]);
    }
}
/// (P) the steps of every component reordered by the same permutation: annual sums unchanged
pub proof fn lemma_lay_perm(idx: Seq<int>, n: int)
    requires is_perm(idx, n),
    ensures lay_sums(idx, n, 1real, 1real),
{
    assert forall|v: Seq<f32>, v2: Seq<f32>| v.len() == n && #[trigger] lay_rel(v, v2, idx, 1real) implies sumf(v2) == 1real * sumf(v) by {
        lemma_sumf_sumr(v); lemma_sumf_sumr(v2);
        let a = rvs(v);
        lemma_sumr_reindex(a, idx);
        assert(rvs(v2) =~= Seq::new(a.len(), |i: int| a[idx[i]])) by {
            assert forall|i: int| 0 <= i < n implies rvs(v2)[i] == a[idx[i]] by {
                assert(0 <= idx[i] < n && rv(v2[i]) == 1real * rv(v[idx[i]]));
                assert(1real * rv(v[idx[i]]) == rv(v[idx[i]])) by(nonlinear_arith);
            }
        }
        assert(1real * sumf(v) == sumf(v)) by(nonlinear_arith);
    }
}
/// index map of the subdivision of every step in m equal sub-steps
pub open spec fn idx_subdiv(n: int, m: int) -> Seq<int> { Seq::new((n * m) as nat, |i2: int| i2 / m) }
pub proof fn lemma_sumf_subdiv(v: Seq<f32>, v2: Seq<f32>, m: int)
    requires m > 0, v2.len() == v.len() * m,
             forall|i2: int| 0 <= i2 < v2.len() ==> rv(#[trigger] v2[i2]) == (1real / (m as real)) * rv(v[i2 / m]),
    ensures sumf(v2) == sumf(v),
    decreases v.len(),
{
    let n = v.len() as int;
    if n == 0 { assert(v2.len() == 0) by(nonlinear_arith) requires v2.len() == v.len() * m, v.len() == 0; }
    else {
        let cs = 1real / (m as real);
        let k = (n - 1) * m;
        assert(n * m == k + m) by(nonlinear_arith) requires k == (n - 1) * m;
        assert(k >= 0) by(nonlinear_arith) requires k == (n - 1) * m, n >= 1, m > 0;
        let head = v2.take(k); let tail = v2.skip(k);
        assert(v2 =~= head + tail);
        assert(head.len() == v.drop_last().len() * m);
        assert forall|i2: int| 0 <= i2 < head.len() implies rv(#[trigger] head[i2]) == cs * rv(v.drop_last()[i2 / m]) by {
            assert(head[i2] == v2[i2]);
            assert(0 <= i2 / m < n - 1) by(nonlinear_arith) requires 0 <= i2 < (n - 1) * m, m > 0;
            assert(v.drop_last()[i2 / m] == v[i2 / m]);
        }
        lemma_sumf_subdiv(v.drop_last(), head, m);
        // the tail: m values, each cs * v.last()
        let x = rv(v.last());
        assert(tail.len() == m);
        assert forall|j: int| 0 <= j < m implies rv(#[trigger] tail[j]) == cs * x by {
            assert(tail[j] == v2[k + j]);
            assert((k + j) / m == n - 1) by(nonlinear_arith) requires k == (n - 1) * m, 0 <= j < m, m > 0;
        }
        lemma_sumf_sumr(tail);
        assert(rvs(tail) =~= Seq::new(m as nat, |i: int| cs * x));
        lemma_sumr_const(cs * x, m as nat);
        assert((m as real) * (cs * x) == x) by(nonlinear_arith) requires cs == 1real / (m as real), m > 0;
        lemma_sumf_concat(head, tail);
    }
}
pub proof fn lemma_sumf_concat(a: Seq<f32>, b: Seq<f32>)
    ensures sumf(a + b) == sumf(a) + sumf(b),
    decreases b.len(),
{
    if b.len() == 0 { assert(a + b =~= a); }
    else { assert((a + b).drop_last() =~= a + b.drop_last()); assert((a + b).last() == b.last()); lemma_sumf_concat(a, b.drop_last()); }
}
/// (D) every step split in m equal sub-steps carrying 1/m of its energy: annual sums unchanged
pub proof fn lemma_lay_subdiv(n: int, m: int)
    requires n >= 0, m > 0,
    ensures lay_sums(idx_subdiv(n, m), n, 1real / (m as real), 1real),
{
    let idx = idx_subdiv(n, m);
    assert(n * m >= 0) by(nonlinear_arith) requires n >= 0, m > 0;
    assert forall|v: Seq<f32>, v2: Seq<f32>| v.len() == n && #[trigger] lay_rel(v, v2, idx, 1real / (m as real)) implies sumf(v2) == 1real * sumf(v) by {
        assert forall|i2: int| 0 <= i2 < v2.len() implies rv(#[trigger] v2[i2]) == (1real / (m as real)) * rv(v[i2 / m]) by { assert(idx[i2] == i2 / m); }
        lemma_sumf_subdiv(v, v2, m);
        assert(1real * sumf(v) == sumf(v)) by(nonlinear_arith);
    }
}

// ------------------------------------------------------------------------------------------------ annual figures
pub open spec fn mval2f(m: Map<ProdSource, HashMap<Service, f32>>, s: ProdSource, srv: Service) -> real {
    if m.contains_key(s) && m[s]@.contains_key(srv) { rv(m[s]@[srv]) } else { 0real }
}
pub open spec fn mvalf<K>(m: Map<K, f32>, k: K) -> real { if m.contains_key(k) { rv(m[k]) } else { 0real } }
/// every annual figure of the second evaluation is ct times that of the first
pub open spec fn annual_rel(a: Run, b: Run, ct: real) -> bool {
    &&& rv(b.used.epus_an) == ct * rv(a.used.epus_an) && rv(b.used.nepus_an) == ct * rv(a.used.nepus_an) && rv(b.used.cgnus_an) == ct * rv(a.used.cgnus_an)
    &&& (forall|s: Service| #[trigger] mvalf(b.used.epus_by_srv_an@, s) == ct * mvalf(a.used.epus_by_srv_an@, s))
    &&& rv(b.prod.an) == ct * rv(a.prod.an) && rv(b.prod.epus_an) == ct * rv(a.prod.epus_an)
    &&& (forall|s: ProdSource| #[trigger] mvalf(b.prod.by_src_an@, s) == ct * mvalf(a.prod.by_src_an@, s))
    &&& (forall|s: ProdSource| #[trigger] mvalf(b.prod.epus_by_src_an@, s) == ct * mvalf(a.prod.epus_by_src_an@, s))
    &&& (forall|s: ProdSource, srv: Service| #[trigger] mval2f(b.prod.epus_by_srv_by_src_an@, s, srv) == ct * mval2f(a.prod.epus_by_srv_by_src_an@, s, srv))
    &&& rv(b.exp.an) == ct * rv(a.exp.an) && rv(b.exp.nepus_an) == ct * rv(a.exp.nepus_an) && rv(b.exp.grid_an) == ct * rv(a.exp.grid_an)
    &&& (forall|s: ProdSource| #[trigger] mvalf(b.exp.by_src_an@, s) == ct * mvalf(a.exp.by_src_an@, s))
    &&& rv(b.del.an) == ct * rv(a.del.an) && rv(b.del.grid_an) == ct * rv(a.del.grid_an) && rv(b.del.onst_an) == ct * rv(a.del.onst_an) && rv(b.del.cgn_an) == ct * rv(a.del.cgn_an)
}
/// every step i2 of the second evaluation is related to step idx[i2] of the first
pub open spec fn steps_rel(a: Run, b: Run, idx: Seq<int>, cs: real) -> bool {
    run_n(b) == idx.len() && forall|i2: int| 0 <= i2 < idx.len() ==> 0 <= #[trigger] idx[i2] < run_n(a) && step_rel_r(a, b, idx[i2], i2, cs)
}
pub proof fn lemma_annual_vec(v: Seq<f32>, v2: Seq<f32>, idx: Seq<int>, n: int, cs: real, ct: real)
    requires lay_sums(idx, n, cs, ct), v.len() == n, lay_rel(v, v2, idx, cs),
    ensures sumf(v2) == ct * sumf(v),
{}

/// THE ANNUAL THEOREM: under a layout of the time axis that preserves sums up to the factor ct, every annual figure of the
/// second evaluation is ct times that of the first
pub proof fn thm_annual(a: Run, b: Run, lm: bool, idx: Seq<int>, cs: real, ct: real)
    requires run_ok(a, lm), run_ok(b, lm), doms_same_r(a, b), steps_rel(a, b, idx, cs), lay_sums(idx, run_n(a), cs, ct),
    ensures annual_rel(a, b, ct),
{
    let n = run_n(a);
    lemma_mul0(ct);
    // scalar-valued vectors
    assert(lay_rel(a.used.epus_t@, b.used.epus_t@, idx, cs));
    assert(lay_rel(a.used.nepus_t@, b.used.nepus_t@, idx, cs));
    assert(lay_rel(a.used.cgnus_t@, b.used.cgnus_t@, idx, cs));
    assert(lay_rel(a.prod.t@, b.prod.t@, idx, cs));
    assert(lay_rel(a.prod.epus_t@, b.prod.epus_t@, idx, cs));
    assert(lay_rel(a.exp.nepus_t@, b.exp.nepus_t@, idx, cs));
    assert(lay_rel(a.exp.grid_t@, b.exp.grid_t@, idx, cs));
    assert(lay_rel(a.del.grid_t@, b.del.grid_t@, idx, cs));
    assert(lay_rel(a.del.onst_t@, b.del.onst_t@, idx, cs));
    lemma_annual_vec(a.used.epus_t@, b.used.epus_t@, idx, n, cs, ct);
    lemma_annual_vec(a.used.nepus_t@, b.used.nepus_t@, idx, n, cs, ct);
    lemma_annual_vec(a.used.cgnus_t@, b.used.cgnus_t@, idx, n, cs, ct);
    lemma_annual_vec(a.prod.t@, b.prod.t@, idx, n, cs, ct);
    lemma_annual_vec(a.prod.epus_t@, b.prod.epus_t@, idx, n, cs, ct);
    lemma_annual_vec(a.exp.nepus_t@, b.exp.nepus_t@, idx, n, cs, ct);
    lemma_annual_vec(a.exp.grid_t@, b.exp.grid_t@, idx, n, cs, ct);
    lemma_annual_vec(a.del.grid_t@, b.del.grid_t@, idx, n, cs, ct);
    lemma_annual_vec(a.del.onst_t@, b.del.onst_t@, idx, n, cs, ct);
    lemma_dist2(ct, rv(a.exp.nepus_an), rv(a.exp.grid_an));
    lemma_dist3(ct, rv(a.del.grid_an), rv(a.del.onst_an), rv(a.used.cgnus_an));
    assert forall|s: Service| #[trigger] mvalf(b.used.epus_by_srv_an@, s) == ct * mvalf(a.used.epus_by_srv_an@, s) by {
        if a.used.epus_by_srv_t@.contains_key(s) {
            assert(b.used.epus_by_srv_t@.contains_key(s));
            let v = a.used.epus_by_srv_t@[s]@; let v2 = b.used.epus_by_srv_t@[s]@;
            assert(lay_rel(v, v2, idx, cs)) by {
                assert forall|i2: int| 0 <= i2 < idx.len() implies 0 <= #[trigger] idx[i2] < v.len() && rv(v2[i2]) == cs * rv(v[idx[i2]]) by {
                    assert(step_rel_r(a, b, idx[i2], i2, cs));
                    assert(mvs(b.used.epus_by_srv_t@, s, i2) == cs * mvs(a.used.epus_by_srv_t@, s, idx[i2]));
                }
            }
            lemma_annual_vec(v, v2, idx, n, cs, ct);
        }
    }
    assert forall|s: ProdSource| #[trigger] mvalf(b.prod.by_src_an@, s) == ct * mvalf(a.prod.by_src_an@, s) by {
        if a.prod.by_src_t@.contains_key(s) {
            assert(b.prod.by_src_t@.contains_key(s));
            let v = a.prod.by_src_t@[s]@; let v2 = b.prod.by_src_t@[s]@;
            assert(lay_rel(v, v2, idx, cs)) by {
                assert forall|i2: int| 0 <= i2 < idx.len() implies 0 <= #[trigger] idx[i2] < v.len() && rv(v2[i2]) == cs * rv(v[idx[i2]]) by {
                    assert(step_rel_r(a, b, idx[i2], i2, cs));
                    assert(mv(b.prod.by_src_t@, s, i2) == cs * mv(a.prod.by_src_t@, s, idx[i2]));
                }
            }
            lemma_annual_vec(v, v2, idx, n, cs, ct);
        }
    }
    assert forall|s: ProdSource| #[trigger] mvalf(b.exp.by_src_an@, s) == ct * mvalf(a.exp.by_src_an@, s) by {
        if a.prod.by_src_t@.contains_key(s) {
            assert(b.prod.by_src_t@.contains_key(s));
            let v = a.exp.by_src_t@[s]@; let v2 = b.exp.by_src_t@[s]@;
            assert(lay_rel(v, v2, idx, cs)) by {
                assert forall|i2: int| 0 <= i2 < idx.len() implies 0 <= #[trigger] idx[i2] < v.len() && rv(v2[i2]) == cs * rv(v[idx[i2]]) by {
                    assert(step_rel_r(a, b, idx[i2], i2, cs));
                    assert(mv(b.exp.by_src_t@, s, i2) == cs * mv(a.exp.by_src_t@, s, idx[i2]));
                }
            }
            lemma_annual_vec(v, v2, idx, n, cs, ct);
        }
    }
    assert forall|s: ProdSource| #[trigger] mvalf(b.prod.epus_by_src_an@, s) == ct * mvalf(a.prod.epus_by_src_an@, s) by {
        if a.prod.epus_by_src_t@.contains_key(s) {
            assert(b.prod.epus_by_src_t@.contains_key(s));
            let v = a.prod.epus_by_src_t@[s]@; let v2 = b.prod.epus_by_src_t@[s]@;
            assert(lay_rel(v, v2, idx, cs)) by {
                assert forall|i2: int| 0 <= i2 < idx.len() implies 0 <= #[trigger] idx[i2] < v.len() && rv(v2[i2]) == cs * rv(v[idx[i2]]) by {
                    assert(step_rel_r(a, b, idx[i2], i2, cs));
                    assert(mv(b.prod.epus_by_src_t@, s, i2) == cs * mv(a.prod.epus_by_src_t@, s, idx[i2]));
                }
            }
            lemma_annual_vec(v, v2, idx, n, cs, ct);
        }
    }
    assert forall|s: ProdSource, srv: Service| #[trigger] mval2f(b.prod.epus_by_srv_by_src_an@, s, srv) == ct * mval2f(a.prod.epus_by_srv_by_src_an@, s, srv) by {
        if a.prod.epus_by_src_t@.contains_key(s) && a.used.epus_by_srv_t@.contains_key(srv) {
            assert(b.prod.epus_by_src_t@.contains_key(s) && b.used.epus_by_srv_t@.contains_key(srv));
            let v = a.prod.epus_by_srv_by_src_t@[s]@[srv]@; let v2 = b.prod.epus_by_srv_by_src_t@[s]@[srv]@;
            assert(a.prod.epus_by_srv_by_src_t@[s]@.dom() =~= a.used.epus_by_srv_t@.dom());
            assert(b.prod.epus_by_srv_by_src_t@[s]@.dom() =~= b.used.epus_by_srv_t@.dom());
            assert(lay_rel(v, v2, idx, cs)) by {
                assert forall|i2: int| 0 <= i2 < idx.len() implies 0 <= #[trigger] idx[i2] < v.len() && rv(v2[i2]) == cs * rv(v[idx[i2]]) by {
                    assert(step_rel_r(a, b, idx[i2], i2, cs));
                    assert(mv2(b.prod.epus_by_srv_by_src_t@, s, srv, i2) == cs * mv2(a.prod.epus_by_srv_by_src_t@, s, srv, idx[i2]));
                }
            }
            lemma_annual_vec(v, v2, idx, n, cs, ct);
            assert(a.prod.epus_by_srv_by_src_an@[s]@.dom() =~= a.used.epus_by_srv_t@.dom());
            assert(b.prod.epus_by_srv_by_src_an@[s]@.dom() =~= b.used.epus_by_srv_t@.dom());
        } else {
            if a.prod.epus_by_src_t@.contains_key(s) {
                assert(a.prod.epus_by_srv_by_src_an@[s]@.dom() =~= a.used.epus_by_srv_t@.dom());
                assert(b.prod.epus_by_srv_by_src_an@[s]@.dom() =~= b.used.epus_by_srv_t@.dom());
            }
        }
    }
}

// ------------------------------------------------------------------------------------------------ the same layouts over sequences of reals
pub open spec fn lay_rel_r(w: Seq<real>, w2: Seq<real>, idx: Seq<int>, cs: real) -> bool {
    w2.len() == idx.len() && forall|i2: int| 0 <= i2 < idx.len() ==> 0 <= #[trigger] idx[i2] < w.len() && w2[i2] == cs * w[idx[i2]]
}
pub open spec fn lay_sums_r(idx: Seq<int>, n: int, cs: real, ct: real) -> bool {
    forall|w: Seq<real>, w2: Seq<real>| w.len() == n && #[trigger] lay_rel_r(w, w2, idx, cs) ==> sumr(w2) == ct * sumr(w)
}
pub proof fn lemma_sumr_scale(v: Seq<real>, v2: Seq<real>, c: real)
    requires v.len() == v2.len(), forall|i: int| 0 <= i < v.len() ==> #[trigger] v2[i] == c * v[i],
    ensures sumr(v2) == c * sumr(v),
    decreases v.len(),
{
    if v.len() == 0 { lemma_mul0(c); }
    else {
        assert forall|i: int| 0 <= i < v.drop_last().len() implies #[trigger] v2.drop_last()[i] == c * v.drop_last()[i] by {
            assert(v2.drop_last()[i] == v2[i] && v.drop_last()[i] == v[i]);
        }
        lemma_sumr_scale(v.drop_last(), v2.drop_last(), c);
        assert(v2[v.len() - 1] == c * v[v.len() - 1]);
        lemma_dist2(c, sumr(v.drop_last()), v.last());
    }
}
pub proof fn lemma_lay_same_r(n: int, c: real)
    requires n >= 0,
    ensures lay_sums_r(idx_ident(n), n, c, c),
{
    let idx = idx_ident(n);
    assert forall|w: Seq<real>, w2: Seq<real>| w.len() == n && #[trigger] lay_rel_r(w, w2, idx, c) implies sumr(w2) == c * sumr(w) by {
        assert forall|i: int| 0 <= i < w.len() implies #[trigger] w2[i] == c * w[i] by { assert(idx[i] == i); }
        lemma_sumr_scale(w, w2, c);
    }
}
pub proof fn lemma_lay_perm_r(idx: Seq<int>, n: int)
    requires is_perm(idx, n),
    ensures lay_sums_r(idx, n, 1real, 1real),
{
    assert forall|w: Seq<real>, w2: Seq<real>| w.len() == n && #[trigger] lay_rel_r(w, w2, idx, 1real) implies sumr(w2) == 1real * sumr(w) by {
        lemma_sumr_reindex(w, idx);
        assert(w2 =~= Seq::new(w.len(), |i: int| w[idx[i]])) by {
            assert forall|i: int| 0 <= i < n implies w2[i] == w[idx[i]] by {
                assert(0 <= idx[i] < n && w2[i] == 1real * w[idx[i]]);
                assert(1real * w[idx[i]] == w[idx[i]]) by(nonlinear_arith);
            }
        }
        assert(1real * sumr(w) == sumr(w)) by(nonlinear_arith);
    }
}
pub proof fn lemma_sumr_subdiv(v: Seq<real>, v2: Seq<real>, m: int)
    requires m > 0, v2.len() == v.len() * m,
             forall|i2: int| 0 <= i2 < v2.len() ==> #[trigger] v2[i2] == (1real / (m as real)) * v[i2 / m],
    ensures sumr(v2) == sumr(v),
    decreases v.len(),
{
    let n = v.len() as int;
    if n == 0 { assert(v2.len() == 0) by(nonlinear_arith) requires v2.len() == v.len() * m, v.len() == 0; }
    else {
        let cs = 1real / (m as real);
        let k = (n - 1) * m;
        assert(n * m == k + m) by(nonlinear_arith) requires k == (n - 1) * m;
        assert(k >= 0) by(nonlinear_arith) requires k == (n - 1) * m, n >= 1, m > 0;
        let head = v2.take(k); let tail = v2.skip(k);
        assert(v2 =~= head + tail);
        assert(head.len() == v.drop_last().len() * m);
        assert forall|i2: int| 0 <= i2 < head.len() implies #[trigger] head[i2] == cs * v.drop_last()[i2 / m] by {
            assert(head[i2] == v2[i2]);
            assert(0 <= i2 / m < n - 1) by(nonlinear_arith) requires 0 <= i2 < (n - 1) * m, m > 0;
            assert(v.drop_last()[i2 / m] == v[i2 / m]);
        }
        lemma_sumr_subdiv(v.drop_last(), head, m);
        let x = v.last();
        assert(tail.len() == m);
        assert forall|j: int| 0 <= j < m implies #[trigger] tail[j] == cs * x by {
            assert(tail[j] == v2[k + j]);
            assert((k + j) / m == n - 1) by(nonlinear_arith) requires k == (n - 1) * m, 0 <= j < m, m > 0;
        }
        assert(tail =~= Seq::new(m as nat, |i: int| cs * x));
        lemma_sumr_const(cs * x, m as nat);
        assert((m as real) * (cs * x) == x) by(nonlinear_arith) requires cs == 1real / (m as real), m > 0;
        lemma_sumr_concat(head, tail);
    }
}
pub proof fn lemma_lay_subdiv_r(n: int, m: int)
    requires n >= 0, m > 0,
    ensures lay_sums_r(idx_subdiv(n, m), n, 1real / (m as real), 1real),
{
    let idx = idx_subdiv(n, m);
    assert(n * m >= 0) by(nonlinear_arith) requires n >= 0, m > 0;
    assert forall|w: Seq<real>, w2: Seq<real>| w.len() == n && #[trigger] lay_rel_r(w, w2, idx, 1real / (m as real)) implies sumr(w2) == 1real * sumr(w) by {
        assert forall|i2: int| 0 <= i2 < w2.len() implies #[trigger] w2[i2] == (1real / (m as real)) * w[i2 / m] by { assert(idx[i2] == i2 / m); }
        lemma_sumr_subdiv(w, w2, m);
        assert(1real * sumr(w) == sumr(w)) by(nonlinear_arith);
    }
}
/// annual classified sums (acc_an) under a layout
pub open spec fn acc_seq(cs: Seq<Energy>, k: Sel, n: int) -> Seq<real> { Seq::new(n as nat, |i: int| acc(cs, k, i)) }
pub proof fn lemma_acc_an_sumr(cs: Seq<Energy>, k: Sel, n: int)
    requires n >= 0,
    ensures acc_an(cs, k, n) == sumr(acc_seq(cs, k, n)),
    decreases n,
{
    if n > 0 {
        lemma_acc_an_sumr(cs, k, n - 1);
        assert(acc_seq(cs, k, n).drop_last() =~= acc_seq(cs, k, n - 1));
    }
}
pub proof fn lemma_acc_an_rel(cs: Seq<Energy>, cs2: Seq<Energy>, k: Sel, idx: Seq<int>, n: int, c: real, ct: real)
    requires n >= 0, lay_sums_r(idx, n, c, ct),
             forall|i2: int| 0 <= i2 < idx.len() ==> 0 <= #[trigger] idx[i2] < n && acc_rel(cs, cs2, idx[i2], i2, c),
    ensures acc_an(cs2, k, idx.len() as int) == ct * acc_an(cs, k, n),
{
    let n2 = idx.len() as int;
    lemma_acc_an_sumr(cs, k, n); lemma_acc_an_sumr(cs2, k, n2);
    let w = acc_seq(cs, k, n); let w2 = acc_seq(cs2, k, n2);
    assert(lay_rel_r(w, w2, idx, c)) by {
        assert forall|i2: int| 0 <= i2 < idx.len() implies 0 <= #[trigger] idx[i2] < w.len() && w2[i2] == c * w[idx[i2]] by {
            assert(acc_rel(cs, cs2, idx[i2], i2, c));
            assert(acc(cs2, k, i2) == c * acc(cs, k, idx[i2]));
        }
    }
}
