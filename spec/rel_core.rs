// ---- relational ("two-run") theorems over the PROVED contracts of the per-carrier functions (ghost code only).
// Two evaluations are related through the bundles cup_post / ced_post / cwe_post, i.e. through exactly the clauses that the units
// `flows` and `weights` prove of the real compute_used_produced / compute_exported_delivered / compute_weighted_energy.
// One step theorem serves C11 (energy x c, same step), C09 (permutation: c = 1, step i2 = pi(i); subdivision: c = 1/m, i = i2 / m)
// and C10 (reordered / split lines: c = 1, same step, another component list with the same sums).

// ------------------------------------------------------------------------------------------------ small arithmetic
pub proof fn lemma_mul0(c: real) ensures c * 0real == 0real, 0real * c == 0real { assert(c * 0real == 0real && 0real * c == 0real) by(nonlinear_arith); }
pub proof fn lemma_dist2(c: real, a: real, b: real) ensures c * (a + b) == c * a + c * b, c * (a - b) == c * a - c * b {
    assert(c * (a + b) == c * a + c * b && c * (a - b) == c * a - c * b) by(nonlinear_arith);
}
pub proof fn lemma_dist3(c: real, a: real, b: real, d: real) ensures c * (a + b + d) == c * a + c * b + c * d {
    assert(c * (a + b + d) == c * a + c * b + c * d) by(nonlinear_arith);
}
pub proof fn lemma_dist4(c: real, a: real, b: real, d: real, e: real) ensures c * (a + b + d + e) == c * a + c * b + c * d + c * e {
    assert(c * (a + b + d + e) == c * a + c * b + c * d + c * e) by(nonlinear_arith);
}
pub proof fn lemma_assoc(c: real, a: real, b: real) ensures (c * a) * b == c * (a * b), a * (c * b) == c * (a * b), (c * a) * b == (c * b) * a {
    assert((c * a) * b == c * (a * b) && a * (c * b) == c * (a * b) && (c * a) * b == (c * b) * a) by(nonlinear_arith);
}
pub proof fn lemma_pos_mul(c: real, x: real) requires c > 0real
    ensures x > 0real ==> c * x > 0real, x == 0real ==> c * x == 0real, x < 0real ==> c * x < 0real, x >= 0real ==> c * x >= 0real,
{
    assert((x > 0real ==> c * x > 0real) && (x == 0real ==> c * x == 0real) && (x < 0real ==> c * x < 0real)) by(nonlinear_arith) requires c > 0real;
}
pub proof fn lemma_rmin_scale(c: real, a: real, b: real) requires c > 0real ensures rmin(c * a, c * b) == c * rmin(a, b) {
    if a <= b { assert(c * a <= c * b) by(nonlinear_arith) requires c > 0real, a <= b; }
    else { assert(c * a > c * b) by(nonlinear_arith) requires c > 0real, a > b; }
}
/// share / ratio / fmatch are homogeneous of degree 0
pub proof fn lemma_share_scale(c: real, p: real, u: real) requires c > 0real
    ensures share(c * p, c * u) == share(p, u), fmatch(true, c * p, c * u) == fmatch(true, p, u), fmatch(false, c * p, c * u) == fmatch(false, p, u),
            ratio(c * p, c * u) == ratio(p, u),
{
    lemma_c11_ratio(p, u, c);
}

// ------------------------------------------------------------------------------------------------ relation between two component lists
/// every classified sum of the second list at step i2 is c times the sum of the first list at step i
pub open spec fn acc_rel(cs: Seq<Energy>, cs2: Seq<Energy>, i: int, i2: int, c: real) -> bool {
    forall|k: Sel| #[trigger] acc(cs2, k, i2) == c * acc(cs, k, i)
}
/// the two lists have components of the same classes
pub open spec fn sel_same(cs: Seq<Energy>, cs2: Seq<Energy>) -> bool {
    forall|k: Sel| #[trigger] any_sel(cs2, k) == any_sel(cs, k)
}
/// same tags (kind, carrier / source, service, system), values left open
pub open spec fn same_tags(a: Energy, b: Energy) -> bool {
    ||| (a is Prod && b is Prod && a->Prod_0.id == b->Prod_0.id && a->Prod_0.source == b->Prod_0.source)
    ||| (a is Used && b is Used && a->Used_0.id == b->Used_0.id && a->Used_0.carrier == b->Used_0.carrier && a->Used_0.service == b->Used_0.service)
    ||| (a is Aux && b is Aux && a->Aux_0.id == b->Aux_0.id && a->Aux_0.service == b->Aux_0.service)
    ||| (a is Out && b is Out && a->Out_0.id == b->Out_0.id && a->Out_0.service == b->Out_0.service)
}
pub open spec fn tags_same(cs: Seq<Energy>, cs2: Seq<Energy>) -> bool {
    cs.len() == cs2.len() && forall|j: int| 0 <= j < cs.len() ==> same_tags(#[trigger] cs[j], cs2[j])
}
/// component by component, the value of the second list at step i2 is c times the value of the first at step i
pub open spec fn val_rel(cs: Seq<Energy>, cs2: Seq<Energy>, i: int, i2: int, c: real) -> bool {
    forall|j: int| 0 <= j < cs.len() ==> rv(#[trigger] e_vals(cs2[j])[i2]) == c * rv(e_vals(cs[j])[i])
}
pub proof fn lemma_same_tags_sel(a: Energy, b: Energy, k: Sel)
    requires same_tags(a, b),
    ensures sel(k, a) == sel(k, b), (a is Out) == (b is Out), !(a is Out) ==> e_carrier(a) == e_carrier(b),
{}
pub proof fn lemma_acc_rel_one(cs: Seq<Energy>, cs2: Seq<Energy>, k: Sel, i: int, i2: int, c: real)
    requires tags_same(cs, cs2), val_rel(cs, cs2, i, i2, c),
    ensures acc(cs2, k, i2) == c * acc(cs, k, i), any_sel(cs2, k) == any_sel(cs, k),
    decreases cs.len(),
{
    if cs.len() == 0 { lemma_mul0(c); }
    else {
        let a = cs.drop_last(); let b = cs2.drop_last();
        let n = cs.len() - 1;
        assert forall|j: int| 0 <= j < a.len() implies same_tags(#[trigger] a[j], b[j]) by { assert(a[j] == cs[j] && b[j] == cs2[j]); }
        assert forall|j: int| 0 <= j < a.len() implies rv(#[trigger] e_vals(b[j])[i2]) == c * rv(e_vals(a[j])[i]) by { assert(a[j] == cs[j] && b[j] == cs2[j]); }
        lemma_acc_rel_one(a, b, k, i, i2, c);
        assert(same_tags(cs[n], cs2[n]));
        lemma_same_tags_sel(cs[n], cs2[n], k);
        assert(rv(e_vals(cs2[n])[i2]) == c * rv(e_vals(cs[n])[i]));
        lemma_mul0(c);
        let x = if sel(k, cs.last()) { rv(e_vals(cs.last())[i]) } else { 0real };
        lemma_dist2(c, acc(a, k, i), x);
    }
}
/// tags_same + val_rel  ==>  acc_rel + sel_same  (the hypothesis of the step theorem for C11 / C09)
pub proof fn lemma_acc_rel(cs: Seq<Energy>, cs2: Seq<Energy>, i: int, i2: int, c: real)
    requires tags_same(cs, cs2), val_rel(cs, cs2, i, i2, c),
    ensures acc_rel(cs, cs2, i, i2, c), sel_same(cs, cs2),
{
    assert forall|k: Sel| #[trigger] acc(cs2, k, i2) == c * acc(cs, k, i) by { lemma_acc_rel_one(cs, cs2, k, i, i2, c); }
    assert forall|k: Sel| #[trigger] any_sel(cs2, k) == any_sel(cs, k) by { lemma_acc_rel_one(cs, cs2, k, i, i2, c); }
}

// ------------------------------------------------------------------------------------------------ the step theorem (flows)
pub open spec fn mv2(m: Map<ProdSource, HashMap<Service, Vec<f32>>>, s: ProdSource, srv: Service, i: int) -> real {
    if m.contains_key(s) && m[s]@.contains_key(srv) { rv(m[s]@[srv]@[i]) } else { 0real }
}
/// the domains of the per-service / per-source maps of the two evaluations agree
pub open spec fn doms_same(used: UsedEnergy, prod: ProducedEnergy, exp: ExportedEnergy, used2: UsedEnergy, prod2: ProducedEnergy, exp2: ExportedEnergy) -> bool {
    &&& used2.epus_by_srv_t@.dom() =~= used.epus_by_srv_t@.dom()
    &&& used2.epus_by_srv_an@.dom() =~= used.epus_by_srv_an@.dom()
    &&& prod2.by_src_t@.dom() =~= prod.by_src_t@.dom()
    &&& prod2.by_src_an@.dom() =~= prod.by_src_an@.dom()
    &&& prod2.epus_by_src_t@.dom() =~= prod.epus_by_src_t@.dom()
    &&& prod2.epus_by_src_an@.dom() =~= prod.epus_by_src_an@.dom()
    &&& exp2.by_src_t@.dom() =~= exp.by_src_t@.dom()
    &&& exp2.by_src_an@.dom() =~= exp.by_src_an@.dom()
}
/// every per-step figure of the second evaluation at step i2 is c times the figure of the first at step i; the load-matching factor is the same
pub open spec fn step_rel(used: UsedEnergy, prod: ProducedEnergy, fm: Seq<f32>, exp: ExportedEnergy, del: DeliveredEnergy,
                          used2: UsedEnergy, prod2: ProducedEnergy, fm2: Seq<f32>, exp2: ExportedEnergy, del2: DeliveredEnergy, i: int, i2: int, c: real) -> bool {
    &&& rv(used2.epus_t@[i2]) == c * rv(used.epus_t@[i])
    &&& rv(used2.nepus_t@[i2]) == c * rv(used.nepus_t@[i])
    &&& rv(used2.cgnus_t@[i2]) == c * rv(used.cgnus_t@[i])
    &&& (forall|s: Service| #[trigger] mvs(used2.epus_by_srv_t@, s, i2) == c * mvs(used.epus_by_srv_t@, s, i))
    &&& rv(prod2.t@[i2]) == c * rv(prod.t@[i])
    &&& (forall|s: ProdSource| #[trigger] mv(prod2.by_src_t@, s, i2) == c * mv(prod.by_src_t@, s, i))
    &&& rv(fm2[i2]) == rv(fm[i])
    &&& rv(prod2.epus_t@[i2]) == c * rv(prod.epus_t@[i])
    &&& (forall|s: ProdSource| #[trigger] mv(prod2.epus_by_src_t@, s, i2) == c * mv(prod.epus_by_src_t@, s, i))
    &&& (forall|s: ProdSource, srv: Service| #[trigger] mv2(prod2.epus_by_srv_by_src_t@, s, srv, i2) == c * mv2(prod.epus_by_srv_by_src_t@, s, srv, i))
    &&& rv(exp2.t@[i2]) == c * rv(exp.t@[i])
    &&& rv(exp2.nepus_t@[i2]) == c * rv(exp.nepus_t@[i])
    &&& rv(exp2.grid_t@[i2]) == c * rv(exp.grid_t@[i])
    &&& (forall|s: ProdSource| #[trigger] mv(exp2.by_src_t@, s, i2) == c * mv(exp.by_src_t@, s, i))
    &&& rv(del2.grid_t@[i2]) == c * rv(del.grid_t@[i])
    &&& rv(del2.onst_t@[i2]) == c * rv(del.onst_t@[i])
    &&& rv(del2.cgn_t@[i2]) == c * rv(del.cgn_t@[i])
}
/// the value domain of the property at one step: the total production is zero or above the 1e-3 kWh guard of formula (14)
pub open spec fn in_dom(p: real) -> bool { p == 0real || p > 1real / 1000real }

/// produced energy used on site, with the priority order of electricity (pure arithmetic)
pub proof fn lemma_step_pri(c: real, pv: real, chp: real, us: real, f: real)
    requires c > 0real,
    ensures pri_insitu(c * pv, c * us, f) == c * pri_insitu(pv, us, f),
            pri_cogen(c * pv, c * chp, c * us, f) == c * pri_cogen(pv, chp, us, f),
{
    lemma_c11_flows(pv, chp, us, f, c);
}
/// ... and without priority order: f * min(use, production), split by the share of each source in the production
pub proof fn lemma_step_nopri(c: real, us: real, pt: real, ps: real, f: real)
    requires c > 0real, in_dom(pt), in_dom(c * pt),
    ensures f * rmin(c * us, c * pt) == c * (f * rmin(us, pt)),
            (c * (f * rmin(us, pt))) * fsrc(c * ps, c * pt) == c * ((f * rmin(us, pt)) * fsrc(ps, pt)),
{
    lemma_rmin_scale(c, us, pt);
    lemma_assoc(c, f, rmin(us, pt));
    lemma_pos_mul(c, pt);
    if pt == 0real { } else {
        assert(pt > 0real);
        assert((c * ps) / (c * pt) == ps / pt) by(nonlinear_arith) requires c > 0real, pt > 0real;
    }
    assert(fsrc(c * ps, c * pt) == fsrc(ps, pt));
    lemma_assoc(c, f * rmin(us, pt), fsrc(ps, pt));
}

// ------------------------------------------------------------------------------------------------ one evaluation of one carrier
pub struct Run { pub cs: Seq<Energy>, pub used: UsedEnergy, pub prod: ProducedEnergy, pub fm: Seq<f32>, pub exp: ExportedEnergy, pub del: DeliveredEnergy }
/// the proved postconditions of compute_used_produced and compute_exported_delivered hold of this evaluation
pub open spec fn run_ok(r: Run, lm: bool) -> bool {
    r.cs.len() > 0 && cup_post(r.cs, lm, r.used, r.prod, r.fm) && ced_post(r.used, r.prod, r.exp, r.del)
}
pub open spec fn run_n(r: Run) -> int { r.prod.t@.len() as int }
pub open spec fn step_rel_r(a: Run, b: Run, i: int, i2: int, c: real) -> bool {
    step_rel(a.used, a.prod, a.fm, a.exp, a.del, b.used, b.prod, b.fm, b.exp, b.del, i, i2, c)
}
pub open spec fn doms_same_r(a: Run, b: Run) -> bool { doms_same(a.used, a.prod, a.exp, b.used, b.prod, b.exp) }
/// hypothesis of the step theorem
pub open spec fn step_hyp(a: Run, b: Run, lm: bool, i: int, i2: int, c: real) -> bool {
    &&& run_ok(a, lm) && run_ok(b, lm)
    &&& e_carrier(a.cs[0]) == e_carrier(b.cs[0])
    &&& sel_same(a.cs, b.cs) && acc_rel(a.cs, b.cs, i, i2, c) && c > 0real
    &&& 0 <= i < run_n(a) && 0 <= i2 < run_n(b)
    &&& in_dom(rv(a.prod.t@[i])) && in_dom(rv(b.prod.t@[i2]))
}

pub proof fn lemma_step_doms(a: Run, b: Run, lm: bool)
    requires run_ok(a, lm), run_ok(b, lm), e_carrier(a.cs[0]) == e_carrier(b.cs[0]), sel_same(a.cs, b.cs),
    ensures doms_same_r(a, b), pri(e_carrier(a.cs[0]), a.prod.by_src_t@) == pri(e_carrier(b.cs[0]), b.prod.by_src_t@),
{
    assert forall|s: Service| a.used.epus_by_srv_t@.contains_key(s) == b.used.epus_by_srv_t@.contains_key(s) by {
        assert(any_sel(b.cs, Sel::EpusSrv(s)) == any_sel(a.cs, Sel::EpusSrv(s)));
    }
    assert forall|s: ProdSource| a.prod.by_src_t@.contains_key(s) == b.prod.by_src_t@.contains_key(s) by {
        assert(any_sel(b.cs, Sel::Prod(s)) == any_sel(a.cs, Sel::Prod(s)));
    }
    assert(b.prod.by_src_t@.dom() =~= a.prod.by_src_t@.dom());
    assert(b.used.epus_by_srv_t@.dom() =~= a.used.epus_by_srv_t@.dom());
}

/// stage A: uses, production by source and in total, load-matching factor
pub proof fn lemma_step_a(a: Run, b: Run, lm: bool, i: int, i2: int, c: real)
    requires step_hyp(a, b, lm, i, i2, c),
    ensures
        rv(b.used.epus_t@[i2]) == c * rv(a.used.epus_t@[i]),
        rv(b.used.nepus_t@[i2]) == c * rv(a.used.nepus_t@[i]),
        rv(b.used.cgnus_t@[i2]) == c * rv(a.used.cgnus_t@[i]),
        forall|s: Service| #[trigger] mvs(b.used.epus_by_srv_t@, s, i2) == c * mvs(a.used.epus_by_srv_t@, s, i),
        forall|s: ProdSource| #[trigger] mv(b.prod.by_src_t@, s, i2) == c * mv(a.prod.by_src_t@, s, i),
        rv(b.prod.t@[i2]) == c * rv(a.prod.t@[i]),
        rv(b.fm[i2]) == rv(a.fm[i]),
{
    lemma_step_doms(a, b, lm);
    lemma_mul0(c);
    assert(acc(b.cs, Sel::Epus, i2) == c * acc(a.cs, Sel::Epus, i));
    assert(acc(b.cs, Sel::Nepus, i2) == c * acc(a.cs, Sel::Nepus, i));
    assert(acc(b.cs, Sel::Cgn, i2) == c * acc(a.cs, Sel::Cgn, i));
    assert(rv(b.used.epus_t@[i2]) == acc(b.cs, Sel::Epus, i2));
    assert(rv(a.used.epus_t@[i]) == acc(a.cs, Sel::Epus, i));
    assert forall|s: Service| #[trigger] mvs(b.used.epus_by_srv_t@, s, i2) == c * mvs(a.used.epus_by_srv_t@, s, i) by {
        assert(acc(b.cs, Sel::EpusSrv(s), i2) == c * acc(a.cs, Sel::EpusSrv(s), i));
        if a.used.epus_by_srv_t@.contains_key(s) {
            assert(rv(a.used.epus_by_srv_t@[s]@[i]) == acc(a.cs, Sel::EpusSrv(s), i));
            assert(rv(b.used.epus_by_srv_t@[s]@[i2]) == acc(b.cs, Sel::EpusSrv(s), i2));
        }
    }
    assert forall|s: ProdSource| #[trigger] mv(b.prod.by_src_t@, s, i2) == c * mv(a.prod.by_src_t@, s, i) by {
        assert(acc(b.cs, Sel::Prod(s), i2) == c * acc(a.cs, Sel::Prod(s), i));
        if a.prod.by_src_t@.contains_key(s) {
            assert(rv(a.prod.by_src_t@[s]@[i]) == acc(a.cs, Sel::Prod(s), i));
            assert(rv(b.prod.by_src_t@[s]@[i2]) == acc(b.cs, Sel::Prod(s), i2));
        }
    }
    let m = a.prod.by_src_t@; let m2 = b.prod.by_src_t@;
    assert(rv(a.prod.t@[i]) == all_src_sum(m, i));
    assert(rv(b.prod.t@[i2]) == all_src_sum(m2, i2));
    assert(mv(m2, ProdSource::EL_INSITU, i2) == c * mv(m, ProdSource::EL_INSITU, i));
    assert(mv(m2, ProdSource::EL_COGEN, i2) == c * mv(m, ProdSource::EL_COGEN, i));
    assert(mv(m2, ProdSource::TERMOSOLAR, i2) == c * mv(m, ProdSource::TERMOSOLAR, i));
    assert(mv(m2, ProdSource::EAMBIENTE, i2) == c * mv(m, ProdSource::EAMBIENTE, i));
    lemma_dist4(c, mv(m, ProdSource::EL_INSITU, i), mv(m, ProdSource::EL_COGEN, i), mv(m, ProdSource::TERMOSOLAR, i), mv(m, ProdSource::EAMBIENTE, i));
    lemma_share_scale(c, rv(a.prod.t@[i]), rv(a.used.epus_t@[i]));
    assert(rv(a.fm[i]) == fmatch(lm, rv(a.prod.t@[i]), rv(a.used.epus_t@[i])));
    assert(rv(b.fm[i2]) == fmatch(lm, rv(b.prod.t@[i2]), rv(b.used.epus_t@[i2])));
}

/// stage B: produced energy used on site, in total, by source and by service and source
pub proof fn lemma_step_b(a: Run, b: Run, lm: bool, i: int, i2: int, c: real)
    requires step_hyp(a, b, lm, i, i2, c),
    ensures
        rv(b.prod.epus_t@[i2]) == c * rv(a.prod.epus_t@[i]),
        forall|s: ProdSource| #[trigger] mv(b.prod.epus_by_src_t@, s, i2) == c * mv(a.prod.epus_by_src_t@, s, i),
        forall|s: ProdSource, srv: Service| #[trigger] mv2(b.prod.epus_by_srv_by_src_t@, s, srv, i2) == c * mv2(a.prod.epus_by_srv_by_src_t@, s, srv, i),
{
    lemma_step_doms(a, b, lm);
    lemma_step_a(a, b, lm, i, i2, c);
    lemma_mul0(c);
    let us = rv(a.used.epus_t@[i]); let us2 = rv(b.used.epus_t@[i2]);
    let pt = rv(a.prod.t@[i]); let pt2 = rv(b.prod.t@[i2]);
    let f = rv(a.fm[i]);
    let p = pri(e_carrier(a.cs[0]), a.prod.by_src_t@);
    assert(p == pri(e_carrier(b.cs[0]), b.prod.by_src_t@));
    if p {
        let pv = rv(a.prod.by_src_t@[ProdSource::EL_INSITU]@[i]); let chp = rv(a.prod.by_src_t@[ProdSource::EL_COGEN]@[i]);
        assert(mv(b.prod.by_src_t@, ProdSource::EL_INSITU, i2) == c * mv(a.prod.by_src_t@, ProdSource::EL_INSITU, i));
        assert(mv(b.prod.by_src_t@, ProdSource::EL_COGEN, i2) == c * mv(a.prod.by_src_t@, ProdSource::EL_COGEN, i));
        lemma_step_pri(c, pv, chp, us, f);
        let e1 = rv(a.prod.epus_by_src_t@[ProdSource::EL_INSITU]@[i]); let e2 = rv(a.prod.epus_by_src_t@[ProdSource::EL_COGEN]@[i]);
        assert(e1 == pri_insitu(pv, us, f));
        assert(e2 == pri_cogen(pv, chp, us, f));
        assert(rv(b.prod.epus_by_src_t@[ProdSource::EL_INSITU]@[i2]) == c * e1);
        assert(rv(b.prod.epus_by_src_t@[ProdSource::EL_COGEN]@[i2]) == c * e2);
        assert(rv(a.prod.epus_t@[i]) == e1 + e2);
        lemma_dist2(c, e1, e2);
        assert(a.prod.epus_by_src_t@.dom() =~= set![ProdSource::EL_INSITU, ProdSource::EL_COGEN]);
        assert(b.prod.epus_by_src_t@.dom() =~= set![ProdSource::EL_INSITU, ProdSource::EL_COGEN]);
        assert forall|s: ProdSource| #[trigger] mv(b.prod.epus_by_src_t@, s, i2) == c * mv(a.prod.epus_by_src_t@, s, i) by {
            if s == ProdSource::EL_INSITU {} else if s == ProdSource::EL_COGEN {} else {
                assert(!a.prod.epus_by_src_t@.contains_key(s) && !b.prod.epus_by_src_t@.contains_key(s));
            }
        }
    } else {
        let e = f * rmin(us, pt);
        assert(rv(a.prod.epus_t@[i]) == e);
        assert(rv(b.prod.epus_t@[i2]) == f * rmin(us2, pt2));
        lemma_step_nopri(c, us, pt, 0real, f);
        assert(b.prod.epus_by_src_t@.dom() =~= a.prod.epus_by_src_t@.dom());
        assert forall|s: ProdSource| #[trigger] mv(b.prod.epus_by_src_t@, s, i2) == c * mv(a.prod.epus_by_src_t@, s, i) by {
            if a.prod.by_src_t@.contains_key(s) {
                let ps = rv(a.prod.by_src_t@[s]@[i]);
                assert(mv(b.prod.by_src_t@, s, i2) == c * mv(a.prod.by_src_t@, s, i));
                lemma_step_nopri(c, us, pt, ps, f);
                assert(rv(a.prod.epus_by_src_t@[s]@[i]) == e * fsrc(ps, pt));
                assert(rv(b.prod.epus_by_src_t@[s]@[i2]) == (c * e) * fsrc(c * ps, c * pt));
            } else {
                assert(!a.prod.epus_by_src_t@.contains_key(s) && !b.prod.epus_by_src_t@.contains_key(s));
            }
        }
    }
    assert forall|s: ProdSource, srv: Service| #[trigger] mv2(b.prod.epus_by_srv_by_src_t@, s, srv, i2) == c * mv2(a.prod.epus_by_srv_by_src_t@, s, srv, i) by {
        assert(a.prod.epus_by_srv_by_src_t@.dom() =~= a.prod.epus_by_src_t@.dom());
        assert(b.prod.epus_by_srv_by_src_t@.dom() =~= b.prod.epus_by_src_t@.dom());
        if a.prod.epus_by_src_t@.contains_key(s) {
            assert(b.prod.epus_by_src_t@.contains_key(s));
            assert(a.prod.epus_by_srv_by_src_t@[s]@.dom() =~= a.used.epus_by_srv_t@.dom());
            assert(b.prod.epus_by_srv_by_src_t@[s]@.dom() =~= b.used.epus_by_srv_t@.dom());
            if a.used.epus_by_srv_t@.contains_key(srv) {
                assert(b.used.epus_by_srv_t@.contains_key(srv));
                let q = rv(a.used.epus_by_srv_t@[srv]@[i]);
                let es = rv(a.prod.epus_by_src_t@[s]@[i]);
                assert(mvs(b.used.epus_by_srv_t@, srv, i2) == c * mvs(a.used.epus_by_srv_t@, srv, i));
                assert(mv(b.prod.epus_by_src_t@, s, i2) == c * mv(a.prod.epus_by_src_t@, s, i));
                lemma_share_scale(c, q, us);
                assert(rv(a.prod.epus_by_srv_by_src_t@[s]@[srv]@[i]) == share(q, us) * es);
                assert(rv(b.prod.epus_by_srv_by_src_t@[s]@[srv]@[i2]) == share(c * q, c * us) * (c * es));
                lemma_assoc(c, share(q, us), es);
            }
        } else {
            assert(!b.prod.epus_by_src_t@.contains_key(s));
        }
    }
}

/// stage C: exported and delivered energy
pub proof fn lemma_step_c(a: Run, b: Run, lm: bool, i: int, i2: int, c: real)
    requires step_hyp(a, b, lm, i, i2, c),
    ensures
        rv(b.exp.t@[i2]) == c * rv(a.exp.t@[i]),
        rv(b.exp.nepus_t@[i2]) == c * rv(a.exp.nepus_t@[i]),
        rv(b.exp.grid_t@[i2]) == c * rv(a.exp.grid_t@[i]),
        forall|s: ProdSource| #[trigger] mv(b.exp.by_src_t@, s, i2) == c * mv(a.exp.by_src_t@, s, i),
        rv(b.del.grid_t@[i2]) == c * rv(a.del.grid_t@[i]),
        rv(b.del.onst_t@[i2]) == c * rv(a.del.onst_t@[i]),
        rv(b.del.cgn_t@[i2]) == c * rv(a.del.cgn_t@[i]),
{
    lemma_step_doms(a, b, lm);
    lemma_step_a(a, b, lm, i, i2, c);
    lemma_step_b(a, b, lm, i, i2, c);
    lemma_mul0(c);
    let pt = rv(a.prod.t@[i]); let pe = rv(a.prod.epus_t@[i]); let us = rv(a.used.epus_t@[i]); let ne = rv(a.used.nepus_t@[i]);
    lemma_dist2(c, pt, pe);
    assert(rv(a.exp.t@[i]) == pt - pe);
    assert(rv(b.exp.t@[i2]) == rv(b.prod.t@[i2]) - rv(b.prod.epus_t@[i2]));
    lemma_rmin_scale(c, pt - pe, ne);
    assert(rv(a.exp.nepus_t@[i]) == rmin(rv(a.exp.t@[i]), ne));
    assert(rv(b.exp.nepus_t@[i2]) == rmin(rv(b.exp.t@[i2]), rv(b.used.nepus_t@[i2])));
    lemma_dist2(c, rv(a.exp.t@[i]), rv(a.exp.nepus_t@[i]));
    assert(rv(a.exp.grid_t@[i]) == rv(a.exp.t@[i]) - rv(a.exp.nepus_t@[i]));
    assert(rv(b.exp.grid_t@[i2]) == rv(b.exp.t@[i2]) - rv(b.exp.nepus_t@[i2]));
    lemma_dist2(c, us, pe);
    assert(rv(a.del.grid_t@[i]) == us - pe);
    assert(rv(b.del.grid_t@[i2]) == rv(b.used.epus_t@[i2]) - rv(b.prod.epus_t@[i2]));
    let m = a.prod.by_src_t@; let m2 = b.prod.by_src_t@;
    assert(mv(m2, ProdSource::EL_INSITU, i2) == c * mv(m, ProdSource::EL_INSITU, i));
    assert(mv(m2, ProdSource::TERMOSOLAR, i2) == c * mv(m, ProdSource::TERMOSOLAR, i));
    assert(mv(m2, ProdSource::EAMBIENTE, i2) == c * mv(m, ProdSource::EAMBIENTE, i));
    lemma_dist3(c, mv(m, ProdSource::EL_INSITU, i), mv(m, ProdSource::TERMOSOLAR, i), mv(m, ProdSource::EAMBIENTE, i));
    assert(rv(a.del.onst_t@[i]) == onsite_sum(m, i));
    assert(rv(b.del.onst_t@[i2]) == onsite_sum(m2, i2));
    assert(a.del.cgn_t@ == a.used.cgnus_t@ && b.del.cgn_t@ == b.used.cgnus_t@);
    assert forall|s: ProdSource| #[trigger] mv(b.exp.by_src_t@, s, i2) == c * mv(a.exp.by_src_t@, s, i) by {
        assert(a.exp.by_src_t@.dom() =~= a.prod.by_src_t@.dom() && b.exp.by_src_t@.dom() =~= b.prod.by_src_t@.dom());
        if a.prod.by_src_t@.contains_key(s) {
            assert(b.prod.by_src_t@.contains_key(s));
            assert(a.prod.epus_by_src_t@.contains_key(s) && b.prod.epus_by_src_t@.contains_key(s));
            assert(mv(m2, s, i2) == c * mv(m, s, i));
            assert(mv(b.prod.epus_by_src_t@, s, i2) == c * mv(a.prod.epus_by_src_t@, s, i));
            lemma_dist2(c, rv(m[s]@[i]), rv(a.prod.epus_by_src_t@[s]@[i]));
            assert(rv(a.exp.by_src_t@[s]@[i]) == rv(m[s]@[i]) - rv(a.prod.epus_by_src_t@[s]@[i]));
            assert(rv(b.exp.by_src_t@[s]@[i2]) == rv(m2[s]@[i2]) - rv(b.prod.epus_by_src_t@[s]@[i2]));
        } else {
            assert(!b.prod.by_src_t@.contains_key(s));
        }
    }
}

/// THE STEP THEOREM: if every classified sum of the second component list at step i2 is c times that of the first at step i,
/// then every per-step figure the real functions compute is c times the first one's, and the load-matching factor is the same.
pub proof fn thm_step(a: Run, b: Run, lm: bool, i: int, i2: int, c: real)
    requires step_hyp(a, b, lm, i, i2, c),
    ensures step_rel_r(a, b, i, i2, c), doms_same_r(a, b),
{
    lemma_step_doms(a, b, lm);
    lemma_step_a(a, b, lm, i, i2, c);
    lemma_step_b(a, b, lm, i, i2, c);
    lemma_step_c(a, b, lm, i, i2, c);
}
