// ---- Balance::normalize_by_area (C04: every per-m2 figure is the absolute figure times 1 / area), ghost code only
pub open spec fn k_of(area: f32) -> real { if rv(area) == 0real { 0real } else { 1real / rv(area) } }
/// m1 = m0 with every value multiplied by k
pub open spec fn mscaled<K>(m0: Map<K, f32>, m1: Map<K, f32>, k: real) -> bool {
    &&& forall|x: K| #[trigger] m1.contains_key(x) == m0.contains_key(x)
    &&& forall|x: K| m0.contains_key(x) ==> rv(#[trigger] m1[x]) == rmul(rv(m0[x]), k)
}
pub open spec fn mscaled_p<K>(m0: Map<K, f32>, m1: Map<K, f32>, rem: Seq<(&K, &f32)>, n: int, k: real) -> bool {
    &&& forall|x: K| #[trigger] m1.contains_key(x) == visited(rem, n, x)
    &&& forall|x: K| visited(rem, n, x) ==> rv(#[trigger] m1[x]) == rmul(rv(m0[x]), k)
}
pub proof fn lemma_mscaled_done<K>(m0: Map<K, f32>, m1: Map<K, f32>, rem: Seq<(&K, &f32)>, n: int, k: real)
    requires map_iter_ok(m0, rem), mscaled_p(m0, m1, rem, n, k),
    ensures n == rem.len() ==> mscaled(m0, m1, k),
{
    if n == rem.len() { lemma_visit_all(m0, rem); }
}
pub open spec fn mscaled3<K>(m0: Map<K, RenNrenCo2>, m1: Map<K, RenNrenCo2>, k: f32) -> bool {
    &&& forall|x: K| #[trigger] m1.contains_key(x) == m0.contains_key(x)
    &&& forall|x: K| m0.contains_key(x) ==> #[trigger] m1[x] == r3_scale(m0[x], k)
}
pub open spec fn mscaled3_p<K>(m0: Map<K, RenNrenCo2>, m1: Map<K, RenNrenCo2>, rem: Seq<(&K, &RenNrenCo2)>, n: int, k: f32) -> bool {
    &&& forall|x: K| #[trigger] m1.contains_key(x) == visited(rem, n, x)
    &&& forall|x: K| visited(rem, n, x) ==> #[trigger] m1[x] == r3_scale(m0[x], k)
}
pub proof fn lemma_mscaled3_done<K>(m0: Map<K, RenNrenCo2>, m1: Map<K, RenNrenCo2>, rem: Seq<(&K, &RenNrenCo2)>, n: int, k: f32)
    requires map_iter_ok(m0, rem), mscaled3_p(m0, m1, rem, n, k),
    ensures n == rem.len() ==> mscaled3(m0, m1, k),
{
    if n == rem.len() { lemma_visit_all(m0, rem); }
}
pub open spec fn mmscaled<K, K2>(m0: Map<K, HashMap<K2, f32>>, m1: Map<K, HashMap<K2, f32>>, k: real) -> bool {
    &&& forall|x: K| #[trigger] m1.contains_key(x) == m0.contains_key(x)
    &&& forall|x: K| m0.contains_key(x) ==> mscaled(m0[x]@, (#[trigger] m1[x])@, k)
}
pub open spec fn mmscaled_p<K, K2>(m0: Map<K, HashMap<K2, f32>>, m1: Map<K, HashMap<K2, f32>>, rem: Seq<(&K, &HashMap<K2, f32>)>, n: int, k: real) -> bool {
    &&& forall|x: K| #[trigger] m1.contains_key(x) == visited(rem, n, x)
    &&& forall|x: K| visited(rem, n, x) ==> mscaled(m0[x]@, (#[trigger] m1[x])@, k)
}
pub proof fn lemma_mmscaled_done<K, K2>(m0: Map<K, HashMap<K2, f32>>, m1: Map<K, HashMap<K2, f32>>, rem: Seq<(&K, &HashMap<K2, f32>)>, n: int, k: real)
    requires map_iter_ok(m0, rem), mmscaled_p(m0, m1, rem, n, k),
    ensures n == rem.len() ==> mmscaled(m0, m1, k),
{
    if n == rem.len() { lemma_visit_all(m0, rem); }
}
pub open spec fn oscaled(a: Option<f32>, b: Option<f32>, k: real) -> bool {
    match a { Some(x) => b is Some && rv(b->Some_0) == rmul(rv(x), k), None => b is None }
}
/// the per-m2 balance r of balance b for reference area `area`
pub open spec fn nba_ok(b: Balance, area: f32, r: Balance) -> bool {
    let k = k_of(area);
    &&& oscaled(b.needs.ACS, r.needs.ACS, k) && oscaled(b.needs.CAL, r.needs.CAL, k) && oscaled(b.needs.REF, r.needs.REF, k)
    &&& rv(r.used.epus) == rmul(k, rv(b.used.epus)) && rv(r.used.nepus) == rmul(k, rv(b.used.nepus)) && rv(r.used.cgnus) == rmul(k, rv(b.used.cgnus))
    &&& mscaled(b.used.epus_by_srv@, r.used.epus_by_srv@, k) && mscaled(b.used.epus_by_cr@, r.used.epus_by_cr@, k) && mmscaled(b.used.epus_by_cr_by_srv@, r.used.epus_by_cr_by_srv@, k)
    &&& rv(r.prod.an) == rmul(k, rv(b.prod.an))
    &&& mscaled(b.prod.epus_by_src@, r.prod.epus_by_src@, k) && mmscaled(b.prod.epus_by_srv_by_src@, r.prod.epus_by_srv_by_src@, k)
    &&& mscaled(b.prod.by_src@, r.prod.by_src@, k) && mscaled(b.prod.by_cr@, r.prod.by_cr@, k)
    &&& rv(r.del.an) == rmul(k, rv(b.del.an)) && rv(r.del.onst) == rmul(k, rv(b.del.onst)) && rv(r.del.grid) == rmul(k, rv(b.del.grid))
    &&& mscaled(b.del.grid_by_cr@, r.del.grid_by_cr@, k)
    &&& rv(r.exp.an) == rmul(k, rv(b.exp.an)) && rv(r.exp.grid) == rmul(k, rv(b.exp.grid)) && rv(r.exp.nepus) == rmul(k, rv(b.exp.nepus))
    &&& r3v(r.we.a) == r3k(k, r3v(b.we.a)) && r3v(r.we.b) == r3k(k, r3v(b.we.b)) && r3v(r.we.del) == r3k(k, r3v(b.we.del))
    &&& r3v(r.we.exp_a) == r3k(k, r3v(b.we.exp_a)) && r3v(r.we.exp) == r3k(k, r3v(b.we.exp))
    &&& m3scaled(b.we.a_by_srv@, r.we.a_by_srv@, k) && m3scaled(b.we.b_by_srv@, r.we.b_by_srv@, k)
}
pub open spec fn r3k(k: real, a: R3) -> R3 { R3 { ren: rmul(k, a.ren), nren: rmul(k, a.nren), co2: rmul(k, a.co2) } }
pub open spec fn m3scaled<K>(m0: Map<K, RenNrenCo2>, m1: Map<K, RenNrenCo2>, k: real) -> bool {
    &&& forall|x: K| #[trigger] m1.contains_key(x) == m0.contains_key(x)
    &&& forall|x: K| m0.contains_key(x) ==> r3v(#[trigger] m1[x]) == r3k(k, r3v(m0[x]))
}
pub proof fn lemma_m3(m0: Map<Service, RenNrenCo2>, m1: Map<Service, RenNrenCo2>, kf: f32)
    requires mscaled3(m0, m1, kf),
    ensures m3scaled(m0, m1, rv(kf)),
{
    assert forall|x: Service| m0.contains_key(x) implies r3v(#[trigger] m1[x]) == r3k(rv(kf), r3v(m0[x])) by {
        assert(m1[x] == r3_scale(m0[x], kf));
    }
}
/// same keys, same inner views (what `clone()` of a map of maps gives)
pub open spec fn mm_same<K, K2>(a: Map<K, HashMap<K2, f32>>, b: Map<K, HashMap<K2, f32>>) -> bool {
    &&& forall|x: K| #[trigger] a.contains_key(x) == b.contains_key(x)
    &&& forall|x: K| a.contains_key(x) ==> (#[trigger] a[x])@ == b[x]@
}
pub proof fn lemma_mmscaled_done2<K, K2>(src: Map<K, HashMap<K2, f32>>, m0: Map<K, HashMap<K2, f32>>, m1: Map<K, HashMap<K2, f32>>, rem: Seq<(&K, &HashMap<K2, f32>)>, n: int, k: real)
    requires map_iter_ok(m0, rem), mmscaled_p(m0, m1, rem, n, k), mm_same(m0, src),
    ensures n == rem.len() ==> mmscaled(src, m1, k),
{
    if n == rem.len() {
        lemma_visit_all(m0, rem);
        assert forall|x: K| src.contains_key(x) implies mscaled(src[x]@, (#[trigger] m1[x])@, k) by {
            assert(m0.contains_key(x));
            assert(m0[x]@ == src[x]@);
        }
    }
}
