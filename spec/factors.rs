// ---- spec layer for the weighting-factor set operations (properties C07, C08)
pub proof fn lemma_find_push(w: Seq<Factor>, f: Factor, c: Carrier, s: Source, d: Dest, st: Step)
    ensures find_spec(w.push(f), c, s, d, st) == (match find_spec(w, c, s, d, st) {
        Some(v) => Some(v),
        None => if fkey(f, c, s, d, st) { Some(fvals(f)) } else { None },
    }),
    decreases w.len(),
{
    if w.len() == 0 {
        assert(w.push(f).drop_first() =~= Seq::<Factor>::empty());
        assert(w.push(f)[0] == f);
    } else {
        assert(w.push(f)[0] == w[0]);
        assert(w.push(f).drop_first() =~= w.drop_first().push(f));
        if !fkey(w[0], c, s, d, st) { lemma_find_push(w.drop_first(), f, c, s, d, st); }
    }
}
/// what `strip` keeps, one `retain` at a time (the predicates read only the key fields of a factor)
pub enum Keep { Carriers(Seq<Energy>), Cogen(bool), Nepb(bool), ElecOnsite(bool) }
pub open spec fn keep_key(k: Keep, c: Carrier, s: Source, d: Dest) -> bool {
    match k {
        Keep::Carriers(cs) => in_avail(cs, c),
        Keep::Cogen(has) => s != Source::COGEN || has,
        Keep::Nepb(has) => d != Dest::A_NEPB || has,
        Keep::ElecOnsite(has) => c != Carrier::ELECTRICIDAD || s != Source::INSITU || has,
    }
}
pub open spec fn keep(k: Keep, f: Factor) -> bool { keep_key(k, f.carrier, f.source, f.dest) }
/// order-preserving filter
pub open spec fn ffilter(w: Seq<Factor>, k: Keep) -> Seq<Factor> decreases w.len() {
    if w.len() == 0 { Seq::empty() } else { let r = ffilter(w.drop_last(), k); if keep(k, w.last()) { r.push(w.last()) } else { r } }
}
/// C08 core lemma: filtering by a key predicate does not change the lookup of any key the predicate keeps
pub proof fn lemma_ffilter_find(w: Seq<Factor>, k: Keep, c: Carrier, s: Source, d: Dest, st: Step)
    requires keep_key(k, c, s, d),
    ensures find_spec(ffilter(w, k), c, s, d, st) == find_spec(w, c, s, d, st),
    decreases w.len(),
{
    if w.len() > 0 {
        let w0 = w.drop_last();
        let x = w.last();
        assert(w =~= w0.push(x));
        lemma_ffilter_find(w0, k, c, s, d, st);
        lemma_find_push(w0, x, c, s, d, st);
        if keep(k, x) { lemma_find_push(ffilter(w0, k), x, c, s, d, st); }
    }
}
/// and a dropped key is simply absent afterwards (never a different value)
pub proof fn lemma_ffilter_drop(w: Seq<Factor>, k: Keep, c: Carrier, s: Source, d: Dest, st: Step)
    requires !keep_key(k, c, s, d),
    ensures find_spec(ffilter(w, k), c, s, d, st) is None,
    decreases w.len(),
{
    if w.len() > 0 {
        let w0 = w.drop_last();
        let x = w.last();
        lemma_ffilter_drop(w0, k, c, s, d, st);
        if keep(k, x) { lemma_find_push(ffilter(w0, k), x, c, s, d, st); }
    }
}
// ---- what a building needs (from the lookups in the contracts of compute_weighted_energy / add_cgn_factors)
pub open spec fn any_e(cs: Seq<Energy>, p: spec_fn(Energy) -> bool) -> bool { exists|j: int| 0 <= j < cs.len() && p(#[trigger] cs[j]) }
/// carriers that get a balance: those of the consumption, production and auxiliary-energy components (C06: auxiliary
/// energy counts even when it is the only electricity component)
pub open spec fn in_avail(cs: Seq<Energy>, c: Carrier) -> bool {
    exists|j: int| 0 <= j < cs.len() && !((#[trigger] cs[j]) is Out) && e_carrier(cs[j]) == c
}
pub open spec fn has_cogen_pr(cs: Seq<Energy>) -> bool { exists|j: int| 0 <= j < cs.len() && e_is_cogen_pr(#[trigger] cs[j]) }
pub open spec fn has_nepb_use(cs: Seq<Energy>) -> bool { exists|j: int| 0 <= j < cs.len() && e_is_nepb_use(#[trigger] cs[j]) }
pub open spec fn has_elec_onsite_pr(cs: Seq<Energy>) -> bool { exists|j: int| 0 <= j < cs.len() && e_is_electricity(#[trigger] cs[j]) && e_is_onsite_pr(cs[j]) }
pub open spec fn strip_spec(w: Seq<Factor>, cs: Seq<Energy>) -> Seq<Factor> {
    ffilter(ffilter(ffilter(ffilter(w, Keep::Carriers(cs)), Keep::Cogen(has_cogen_pr(cs))), Keep::Nepb(has_nepb_use(cs))), Keep::ElecOnsite(has_elec_onsite_pr(cs)))
}
/// the keys the evaluation of a building can look up (footprint of the lookups of C02's contracts):
/// a carrier with a balance; cogeneration factors only with cogenerated electricity; non-EPB destination only with a non-EPB
/// use; on-site electricity factors only with on-site electricity production
pub open spec fn needed(cs: Seq<Energy>, c: Carrier, s: Source, d: Dest) -> bool {
    &&& in_avail(cs, c)
    &&& (s == Source::COGEN ==> has_cogen_pr(cs))
    &&& (d == Dest::A_NEPB ==> has_nepb_use(cs))
    &&& (c == Carrier::ELECTRICIDAD && s == Source::INSITU ==> has_elec_onsite_pr(cs))
}
/// C08: every needed key reads the same from the stripped set; a key that is not needed is absent, never altered
pub proof fn lemma_strip_find(w: Seq<Factor>, cs: Seq<Energy>, c: Carrier, s: Source, d: Dest, st: Step)
    ensures
        needed(cs, c, s, d) ==> find_spec(strip_spec(w, cs), c, s, d, st) == find_spec(w, c, s, d, st),
        !needed(cs, c, s, d) ==> find_spec(strip_spec(w, cs), c, s, d, st) is None,
{
    let k1 = Keep::Carriers(cs); let k2 = Keep::Cogen(has_cogen_pr(cs)); let k3 = Keep::Nepb(has_nepb_use(cs)); let k4 = Keep::ElecOnsite(has_elec_onsite_pr(cs));
    let w1 = ffilter(w, k1); let w2 = ffilter(w1, k2); let w3 = ffilter(w2, k3);
    if keep_key(k1, c, s, d) { lemma_ffilter_find(w, k1, c, s, d, st); } else { lemma_ffilter_drop(w, k1, c, s, d, st); }
    if keep_key(k2, c, s, d) { lemma_ffilter_find(w1, k2, c, s, d, st); } else { lemma_ffilter_drop(w1, k2, c, s, d, st); }
    if keep_key(k3, c, s, d) { lemma_ffilter_find(w2, k3, c, s, d, st); } else { lemma_ffilter_drop(w2, k3, c, s, d, st); }
    if keep_key(k4, c, s, d) { lemma_ffilter_find(w3, k4, c, s, d, st); } else { lemma_ffilter_drop(w3, k4, c, s, d, st); }
    // a key dropped by an earlier filter stays absent through the later ones
    if find_spec(w1, c, s, d, st) is None { lemma_ffilter_none(w1, k2, c, s, d, st); }
    if find_spec(w2, c, s, d, st) is None { lemma_ffilter_none(w2, k3, c, s, d, st); }
    if find_spec(w3, c, s, d, st) is None { lemma_ffilter_none(w3, k4, c, s, d, st); }
}
pub proof fn lemma_ffilter_none(w: Seq<Factor>, k: Keep, c: Carrier, s: Source, d: Dest, st: Step)
    requires find_spec(w, c, s, d, st) is None,
    ensures find_spec(ffilter(w, k), c, s, d, st) is None,
{
    if keep_key(k, c, s, d) { lemma_ffilter_find(w, k, c, s, d, st); } else { lemma_ffilter_drop(w, k, c, s, d, st); }
}
/// the set has some factor of carrier c
pub open spec fn carrier_in(w: Seq<Factor>, c: Carrier) -> bool { exists|j: int| 0 <= j < w.len() && (#[trigger] w[j]).carrier == c }
// ---- Factors::normalize (C07)
pub open spec fn one3() -> RenNrenCo2 { RenNrenCo2 { ren: 1.0f32, nren: 0.0f32, co2: 0.0f32 } }
/// the factors fixed by the method: ambient heat, solar thermal (on site and through the fictitious grid) and on-site electricity supply
pub open spec fn forced_key(c: Carrier, s: Source, d: Dest, st: Step) -> bool {
    d == Dest::SUMINISTRO && st == Step::A && (
        ((c == Carrier::EAMBIENTE || c == Carrier::TERMOSOLAR) && (s == Source::INSITU || s == Source::RED))
        || (c == Carrier::ELECTRICIDAD && s == Source::INSITU))
}
/// the carriers whose exported energy gets default factors, with their on-site source
pub open spec fn exp_pair(j: int) -> (Carrier, Source) {
    if j == 0 { (Carrier::ELECTRICIDAD, Source::INSITU) } else if j == 1 { (Carrier::EAMBIENTE, Source::INSITU) } else { (Carrier::TERMOSOLAR, Source::INSITU) }
}
/// an absent key gets `dflt` (if that exists), a present one keeps its value
pub open spec fn defaulted(w1: Seq<Factor>, w: Seq<Factor>, c: Carrier, s: Source, d: Dest, st: Step, dflt: Option<RenNrenCo2>) -> bool {
    find_spec(w, c, s, d, st) == (if find_spec(w1, c, s, d, st) is Some { find_spec(w1, c, s, d, st) } else { dflt })
}
/// export defaults of one carrier: step A = its on-site supply factor, step B = its grid supply factor (which must exist)
pub open spec fn exp_defaults_ok(w1: Seq<Factor>, w: Seq<Factor>, j: int) -> bool {
    let (c, s) = exp_pair(j);
    let sup = find_spec(w1, c, s, Dest::SUMINISTRO, Step::A);
    let grid = find_spec(w1, c, Source::RED, Dest::SUMINISTRO, Step::A);
    &&& grid is Some
    &&& (sup is Some ==> defaulted(w1, w, c, s, Dest::A_RED, Step::A, sup) && defaulted(w1, w, c, s, Dest::A_NEPB, Step::A, sup))
    &&& defaulted(w1, w, c, s, Dest::A_RED, Step::B, grid) && defaulted(w1, w, c, s, Dest::A_NEPB, Step::B, grid)
}
/// completeness for one of the three carriers that can be produced on site: its on-site supply factor, its grid supply factor and its
/// four export factors (steps A and B, to the grid and to non-EPB uses) are all present
pub open spec fn exp_complete(w: Seq<Factor>, j: int) -> bool {
    let (c, s) = exp_pair(j);
    &&& find_spec(w, c, s, Dest::SUMINISTRO, Step::A) is Some && find_spec(w, c, Source::RED, Dest::SUMINISTRO, Step::A) is Some
    &&& find_spec(w, c, s, Dest::A_RED, Step::A) is Some && find_spec(w, c, s, Dest::A_NEPB, Step::A) is Some
    &&& find_spec(w, c, s, Dest::A_RED, Step::B) is Some && find_spec(w, c, s, Dest::A_NEPB, Step::B) is Some
}
/// after the forced factors have been set: the on-site supply factor of ambient heat and solar thermal energy is there, and that of
/// electricity whenever electricity has a grid supply factor (i.e. whenever the carrier is in the set)
pub open spec fn sup_present(w1: Seq<Factor>) -> bool {
    &&& find_spec(w1, Carrier::EAMBIENTE, Source::INSITU, Dest::SUMINISTRO, Step::A) is Some
    &&& find_spec(w1, Carrier::TERMOSOLAR, Source::INSITU, Dest::SUMINISTRO, Step::A) is Some
    &&& (find_spec(w1, Carrier::ELECTRICIDAD, Source::RED, Dest::SUMINISTRO, Step::A) is Some ==> find_spec(w1, Carrier::ELECTRICIDAD, Source::INSITU, Dest::SUMINISTRO, Step::A) is Some)
}
pub proof fn lemma_exp_complete(w1: Seq<Factor>, w: Seq<Factor>, j: int)
    requires 0 <= j < 3, sup_present(w1), kept(w1, w), exp_defaults_ok(w1, w, j),
    ensures exp_complete(w, j),
{
    let (c, s) = exp_pair(j);
    assert(find_spec(w1, c, Source::RED, Dest::SUMINISTRO, Step::A) is Some);
    assert(find_spec(w1, c, s, Dest::SUMINISTRO, Step::A) is Some);
}
pub proof fn lemma_find_some_carrier(w: Seq<Factor>, c: Carrier, s: Source, d: Dest, st: Step)
    ensures find_spec(w, c, s, d, st) is Some ==> carrier_in(w, c),
    decreases w.len(),
{
    if w.len() > 0 {
        if fkey(w[0], c, s, d, st) { assert(w[0].carrier == c); }
        else {
            lemma_find_some_carrier(w.drop_first(), c, s, d, st);
            if find_spec(w, c, s, d, st) is Some {
                let j = choose|j: int| 0 <= j < w.drop_first().len() && (#[trigger] w.drop_first()[j]).carrier == c;
                assert(w[j + 1].carrier == c);
            }
        }
    }
}
/// the only keys the preparation can add: the forced ones, the grid factors of the two district networks, and the export factors of
/// the three carriers that can be produced on site
pub open spec fn added_key(c: Carrier, s: Source, d: Dest, st: Step) -> bool {
    ||| forced_key(c, s, d, st)
    ||| ((c == Carrier::RED1 || c == Carrier::RED2) && s == Source::RED && d == Dest::SUMINISTRO && st == Step::A)
    ||| (exists|j: int| 0 <= j < 3 && c == exp_pair(j).0 && s == exp_pair(j).1 && (d == Dest::A_RED || d == Dest::A_NEPB))
}
/// nothing that exists is ever changed by the `ensure` phase
pub open spec fn kept(w1: Seq<Factor>, w: Seq<Factor>) -> bool {
    forall|c: Carrier, s: Source, d: Dest, st: Step| (#[trigger] find_spec(w1, c, s, d, st)) is Some ==> find_spec(w, c, s, d, st) == find_spec(w1, c, s, d, st)
}
pub proof fn lemma_in_avail_step(cs: Seq<Energy>, n: int, c: Carrier)
    requires 0 <= n < cs.len(),
    ensures in_avail(cs.take(n + 1), c) == (in_avail(cs.take(n), c) || (!(cs[n] is Out) && e_carrier(cs[n]) == c)),
{
    let a = cs.take(n + 1); let b = cs.take(n);
    if in_avail(a, c) {
        let j = choose|j: int| 0 <= j < a.len() && !((#[trigger] a[j]) is Out) && e_carrier(a[j]) == c;
        if j < n { assert(b[j] == a[j]); assert(in_avail(b, c)); } else { assert(a[j] == cs[n]); }
    }
    if in_avail(b, c) {
        let j = choose|j: int| 0 <= j < b.len() && !((#[trigger] b[j]) is Out) && e_carrier(b[j]) == c;
        assert(a[j] == b[j]);
    }
    if !(cs[n] is Out) && e_carrier(cs[n]) == c { assert(a[n] == cs[n]); }
}
pub open spec fn view_cset(s: HashSet<Carrier>) -> Set<Carrier> { s@ }

// ---- update_wfactor (C07): the first factor with the key gets new values in place, all other factors stay
/// w1 is w0 with the values of element i replaced (key fields of every element unchanged)
pub open spec fn upd_at(w0: Seq<Factor>, w1: Seq<Factor>, i: int, v: RenNrenCo2) -> bool {
    &&& w1.len() == w0.len() && 0 <= i < w0.len()
    &&& fvals(w1[i]) == v && w1[i].carrier == w0[i].carrier && w1[i].source == w0[i].source && w1[i].dest == w0[i].dest && w1[i].step == w0[i].step
    &&& forall|j: int| 0 <= j < w0.len() && j != i ==> #[trigger] w1[j] == w0[j]
}
pub proof fn lemma_find_same_keys(w0: Seq<Factor>, w1: Seq<Factor>, i: int, v: RenNrenCo2, c: Carrier, s: Source, d: Dest, st: Step)
    requires upd_at(w0, w1, i, v),
    ensures find_spec(w1, c, s, d, st) == (if find_spec(w0, c, s, d, st) is Some && fkey(w0[i], c, s, d, st) && (forall|j: int| 0 <= j < i ==> !fkey(#[trigger] w0[j], c, s, d, st)) { Some(v) } else { find_spec(w0, c, s, d, st) }),
    decreases w0.len(),
{
    if w0.len() > 0 {
        if i == 0 {
            if fkey(w0[0], c, s, d, st) { assert(fkey(w1[0], c, s, d, st)); }
            else {
                assert(!fkey(w1[0], c, s, d, st));
                assert(w1.drop_first() =~= w0.drop_first()) by { assert forall|j: int| 0 <= j < w0.len() - 1 implies w1.drop_first()[j] == w0.drop_first()[j] by { assert(w1[j + 1] == w0[j + 1]); } }
            }
        } else {
            assert(w1[0] == w0[0]);
            if !fkey(w0[0], c, s, d, st) {
                let a0 = w0.drop_first();
                let a1 = w1.drop_first();
                assert(upd_at(a0, a1, i - 1, v)) by {
                    assert(a1[i - 1] == w1[i] && a0[i - 1] == w0[i]);
                    assert forall|j: int| 0 <= j < a0.len() && j != i - 1 implies #[trigger] a1[j] == a0[j] by { assert(w1[j + 1] == w0[j + 1]); }
                }
                lemma_find_same_keys(a0, a1, i - 1, v, c, s, d, st);
                assert((forall|j: int| 0 <= j < i ==> !fkey(#[trigger] w0[j], c, s, d, st)) == (forall|j: int| 0 <= j < i - 1 ==> !fkey(#[trigger] a0[j], c, s, d, st))) by {
                    if forall|j: int| 0 <= j < i ==> !fkey(#[trigger] w0[j], c, s, d, st) { assert forall|j: int| 0 <= j < i - 1 implies !fkey(#[trigger] a0[j], c, s, d, st) by { assert(a0[j] == w0[j + 1]); } }
                    if forall|j: int| 0 <= j < i - 1 ==> !fkey(#[trigger] a0[j], c, s, d, st) { assert forall|j: int| 0 <= j < i implies !fkey(#[trigger] w0[j], c, s, d, st) by { if j > 0 { assert(a0[j - 1] == w0[j]); } } }
                }
                assert(fkey(a0[i - 1], c, s, d, st) == fkey(w0[i], c, s, d, st));
            } else {
                // the first element matches: nothing before i ... the match at 0 wins in both
                assert(!(forall|j: int| 0 <= j < i ==> !fkey(#[trigger] w0[j], c, s, d, st))) by { assert(fkey(w0[0], c, s, d, st)); }
            }
        }
    }
}
pub proof fn lemma_upd_carriers(w0: Seq<Factor>, w1: Seq<Factor>, i: int, v: RenNrenCo2, c: Carrier)
    requires upd_at(w0, w1, i, v),
    ensures carrier_in(w1, c) == carrier_in(w0, c),
{
    if carrier_in(w0, c) { let j = choose|j: int| 0 <= j < w0.len() && (#[trigger] w0[j]).carrier == c; assert(w1[j].carrier == c) by { if j != i { assert(w1[j] == w0[j]); } } }
    if carrier_in(w1, c) { let j = choose|j: int| 0 <= j < w1.len() && (#[trigger] w1[j]).carrier == c; assert(w0[j].carrier == c) by { if j != i { assert(w1[j] == w0[j]); } } }
}
pub open spec fn set_iter_ok(s: Set<Carrier>, rem: Seq<&Carrier>) -> bool {
    &&& rem.no_duplicates()
    &&& (forall|c: Carrier| s.contains(c) ==> exists|j: int| 0 <= j < rem.len() && *(#[trigger] rem[j]) == c)
}
pub proof fn lemma_all_grid(sv: Set<Carrier>, rem: Seq<&Carrier>, n: int, w: Seq<Factor>, all_: bool)
    requires set_iter_ok(sv, rem), 0 <= n <= rem.len(),
        all_ ==> forall|j: int| 0 <= j < n ==> (#[trigger] find_spec(w, *rem[j], Source::RED, Dest::SUMINISTRO, Step::A)) is Some,
    ensures n == rem.len() && all_ ==> forall|c: Carrier| sv.contains(c) ==> (#[trigger] find_spec(w, c, Source::RED, Dest::SUMINISTRO, Step::A)) is Some,
{
    if n == rem.len() && all_ {
        assert forall|c: Carrier| sv.contains(c) implies (#[trigger] find_spec(w, c, Source::RED, Dest::SUMINISTRO, Step::A)) is Some by {
            let j = choose|j: int| 0 <= j < rem.len() && *(#[trigger] rem[j]) == c;
            assert(find_spec(w, *rem[j], Source::RED, Dest::SUMINISTRO, Step::A) is Some);
        }
    }
}
