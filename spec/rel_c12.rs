// ---- C12 (comparison sentence) and C14 (grid-delivered energy): theorems over the proved contracts of the flow functions
pub proof fn lemma_sumf_le(v: Seq<f32>, v2: Seq<f32>)
    requires v.len() == v2.len(), forall|i: int| 0 <= i < v.len() ==> rv(#[trigger] v[i]) <= rv(v2[i]),
    ensures sumf(v) <= sumf(v2),
    decreases v.len(),
{
    if v.len() > 0 {
        assert forall|i: int| 0 <= i < v.drop_last().len() implies rv(#[trigger] v.drop_last()[i]) <= rv(v2.drop_last()[i]) by { assert(v.drop_last()[i] == v[i] && v2.drop_last()[i] == v2[i]); }
        lemma_sumf_le(v.drop_last(), v2.drop_last());
        assert(rv(v[v.len() - 1]) <= rv(v2[v.len() - 1]));
    }
}
/// min(pv, us) + min(chp, us - min(pv, us)) == min(us, pv + chp) for non-negative quantities: the two priority allocations together
/// are what a single source of size pv + chp would get
pub proof fn lemma_pri_total(pv: real, chp: real, us: real, f: real)
    requires pv >= 0real, chp >= 0real, us >= 0real,
    ensures pri_insitu(pv, us, f) + pri_cogen(pv, chp, us, f) == f * rmin(us, pv + chp),
{
    let a = rmin(pv, us); let b = rmin(chp, us - a);
    assert(a + b == rmin(us, pv + chp));
    assert(a * f + b * f == f * (a + b)) by(nonlinear_arith);
}
/// produced energy used on site at one step, as a function of total production, EPB use and load-matching mode - whatever the sources
pub open spec fn g_used(lm: bool, pt: real, us: real) -> real { fmatch(lm, pt, us) * rmin(us, pt) }
pub proof fn lemma_epus_is_g(a: Run, lm: bool, i: int)
    requires run_ok(a, lm), nonneg_list(a.cs), wf_list(a.cs, run_n(a) as nat), same_carrier(a.cs, e_carrier(a.cs[0])), 0 <= i < run_n(a),
    ensures rv(a.prod.epus_t@[i]) == g_used(lm, rv(a.prod.t@[i]), rv(a.used.epus_t@[i])), rv(a.prod.t@[i]) >= 0real, rv(a.used.epus_t@[i]) >= 0real,
            rv(a.del.grid_t@[i]) == rv(a.used.epus_t@[i]) - rv(a.prod.epus_t@[i]),
{
    let us = rv(a.used.epus_t@[i]); let pt = rv(a.prod.t@[i]); let f = rv(a.fm[i]);
    assert(f == fmatch(lm, pt, us));
    assert(us >= 0real && pt >= 0real);
    if pri(e_carrier(a.cs[0]), a.prod.by_src_t@) {
        let m = a.prod.by_src_t@;
        let pv = rv(m[ProdSource::EL_INSITU]@[i]); let chp = rv(m[ProdSource::EL_COGEN]@[i]);
        assert(pt == all_src_sum(m, i));
        // electricity: the only other sources belong to other carriers
        lemma_src_carrier_only(a, lm, ProdSource::TERMOSOLAR); lemma_src_carrier_only(a, lm, ProdSource::EAMBIENTE);
        assert(pt == pv + chp);
        assert(mv(m, ProdSource::EL_INSITU, i) >= 0real && mv(m, ProdSource::EL_COGEN, i) >= 0real);
        lemma_pri_total(pv, chp, us, f);
        assert(rv(a.prod.epus_by_src_t@[ProdSource::EL_INSITU]@[i]) == pri_insitu(pv, us, f));
        assert(rv(a.prod.epus_by_src_t@[ProdSource::EL_COGEN]@[i]) == pri_cogen(pv, chp, us, f));
        assert(rv(a.prod.epus_t@[i]) == pri_insitu(pv, us, f) + pri_cogen(pv, chp, us, f));
    } else {
        assert(rv(a.prod.epus_t@[i]) == f * rmin(us, pt));
    }
}
/// a production source of another carrier is absent from the balance of this one
pub proof fn lemma_src_carrier_only(a: Run, lm: bool, s: ProdSource)
    requires run_ok(a, lm), same_carrier(a.cs, e_carrier(a.cs[0])), ps_carrier(s) != e_carrier(a.cs[0]),
    ensures !a.prod.by_src_t@.contains_key(s),
{
    if a.prod.by_src_t@.contains_key(s) {
        assert(any_sel(a.cs, Sel::Prod(s)));
        lemma_has_prod_carrier(a.cs, e_carrier(a.cs[0]), s);
    }
}

/// load matching can only lower the produced energy used on site
pub proof fn lemma_g_lm(pt: real, us: real)
    requires pt >= 0real, us >= 0real,
    ensures g_used(true, pt, us) <= g_used(false, pt, us),
{
    lemma_c12_lm_lowers(pt, us);
}
// polynomial identities, proved by distributing one product at a time (the solver's non-linear mode does not finish on them as a whole)
pub proof fn lemma_pd32(a: real, b: real, c: real, d: real, e: real) ensures (a + b + c) * (d + e) == a * d + a * e + b * d + b * e + c * d + c * e
{ assert((a + b + c) * (d + e) == a * d + a * e + b * d + b * e + c * d + c * e) by(nonlinear_arith); }
pub proof fn lemma_pd2(a: real, b: real, s: real) ensures (a + b) * s == a * s + b * s { assert((a + b) * s == a * s + b * s) by(nonlinear_arith); }
pub proof fn lemma_pd3(a: real, c1: real, c2: real, c3: real) ensures a * (c1 + c2 + c3) == a * c1 + a * c2 + a * c3 { assert(a * (c1 + c2 + c3) == a * c1 + a * c2 + a * c3) by(nonlinear_arith); }
pub proof fn lemma_pd16(a: real, c1: real, c2: real, c3: real, c4: real, c5: real, c6: real)
    ensures a * (c1 + c2 + c3 + c4 + c5 + c6) == a * c1 + a * c2 + a * c3 + a * c4 + a * c5 + a * c6
{ lemma_pd3(a, c1, c2, c3); lemma_pd3(a, c4, c5, c6); lemma_pd3(a, c1 + c2 + c3, c4 + c5 + c6, 0real); assert(a * 0real == 0real) by(nonlinear_arith); }
pub proof fn lemma_pd26(a: real, b: real, c1: real, c2: real, c3: real, c4: real, c5: real, c6: real)
    ensures (a + b) * (c1 + c2 + c3 + c4 + c5 + c6) == a * c1 + a * c2 + a * c3 + a * c4 + a * c5 + a * c6 + b * c1 + b * c2 + b * c3 + b * c4 + b * c5 + b * c6
{ lemma_pd2(a, b, c1 + c2 + c3 + c4 + c5 + c6); lemma_pd16(a, c1, c2, c3, c4, c5, c6); lemma_pd16(b, c1, c2, c3, c4, c5, c6); }
pub proof fn lemma_pneg(a: real, b: real) ensures (0real - a) * b == 0real - a * b, a * (0real - b) == 0real - a * b, a * 1real == a, 1real * a == a, a * b == b * a
{ assert((0real - a) * b == 0real - a * b && a * (0real - b) == 0real - a * b && a * 1real == a && 1real * a == a && a * b == b * a) by(nonlinear_arith); }
pub proof fn lemma_passoc(a: real, b: real, c: real) ensures (a * b) * c == a * (b * c), (a * b) * c == a * (c * b)
{ assert((a * b) * c == a * (b * c) && (a * b) * c == a * (c * b)) by(nonlinear_arith); }
pub proof fn lemma_poly_quintic(x: real, y: real)
    ensures (y * y * y - y * y + y) * (x * x + 1real) - (x * x * x - x * x + x) * (y * y + 1real) == (y - x) * (x * x * y * y + x * x + y * y - x - y + 1real)
{
    let p = x * x; let q = y * y; let pq = p * q;
    // y*y*y == q*y == y*q ; x*x*x == p*x
    lemma_pneg(q, y); lemma_pneg(p, x);
    lemma_pd32(y * q, 0real - q, y, p, 1real);
    lemma_pd32(x * p, 0real - p, x, q, 1real);
    lemma_passoc(y, q, p); lemma_passoc(x, p, q);
    lemma_pneg(q, p); lemma_pneg(p, q); lemma_pneg(y * q, 1real); lemma_pneg(x * p, 1real); lemma_pneg(q, 1real); lemma_pneg(p, 1real); lemma_pneg(y, 1real); lemma_pneg(x, 1real); lemma_pneg(y, p); lemma_pneg(x, q);
    assert((y * y * y - y * y + y) * (x * x + 1real) == y * pq + y * q - pq - q + y * p + y);
    assert((x * x * x - x * x + x) * (y * y + 1real) == x * pq + x * p - pq - p + x * q + x);
    lemma_passoc(x, x, y); lemma_passoc(p, y, y);
    assert(x * x * y * y == pq);
    let u = y - x; let v = pq + p + q - x - y + 1real;
    lemma_pd26(y, 0real - x, pq, p, q, 0real - x, 0real - y, 1real);
    assert(u == y + (0real - x) && v == pq + p + q + (0real - x) + (0real - y) + 1real);
    assert(u * v == (y + (0real - x)) * (pq + p + q + (0real - x) + (0real - y) + 1real));
    lemma_pneg(x, pq); lemma_pneg(y, x); lemma_pneg(y, y); lemma_pneg(x, x); lemma_pneg(x, y); lemma_pneg(x, p); lemma_pneg(x, 0real - x); lemma_pneg(x, 0real - y); lemma_pneg(0real - x, 1real);
    assert(u * v == y * pq + y * p + y * q - y * x - q + y - x * pq - x * p - x * q + p + x * y - x);
}
pub proof fn lemma_pd22(a: real, b: real, d: real, e: real) ensures (a + b) * (d + e) == a * d + a * e + b * d + b * e
{ assert((a + b) * (d + e) == a * d + a * e + b * d + b * e) by(nonlinear_arith); }
pub proof fn lemma_passoc3(x: real, y: real) ensures y * (x * x) == x * (x * y), x * (y * y) == y * (x * y), (x * x) * (y * y) == (x * y) * (x * y)
{ assert(y * (x * x) == x * (x * y) && x * (y * y) == y * (x * y) && (x * x) * (y * y) == (x * y) * (x * y)) by(nonlinear_arith); }
pub proof fn lemma_poly_quartic(x: real, y: real) ensures (y * y - y + 1real) * (x * x + 1real) - (x * x - x + 1real) * (y * y + 1real) == (y - x) * (x * y - 1real)
{
    let p = x * x; let q = y * y; let r = x * y;
    lemma_pd32(q, 0real - y, 1real, p, 1real);
    lemma_pd32(p, 0real - x, 1real, q, 1real);
    lemma_pd22(y, 0real - x, r, 0real - 1real);
    lemma_passoc3(x, y);
    lemma_pneg(y, p); lemma_pneg(x, q); lemma_pneg(q, p); lemma_pneg(y, 1real); lemma_pneg(x, 1real); lemma_pneg(x, r); lemma_pneg(1real, 1real); lemma_pneg(y, r); lemma_pneg(p, q); lemma_pneg(q, 1real); lemma_pneg(p, 1real);
    lemma_pneg(1real, p); lemma_pneg(1real, q);
}
/// x -> (x^3 - x^2 + x) / (x^2 + 1) is non-decreasing on (0, 1]  and  x -> (x^2 - x + 1) / (x^2 + 1) on [1, oo): cross-multiplied and factored
pub proof fn lemma_h_mono(x: real, y: real)
    requires 0real < x <= y,
    ensures y <= 1real ==> (x * x * x - x * x + x) * (y * y + 1real) <= (y * y * y - y * y + y) * (x * x + 1real),
            x >= 1real ==> (x * x - x + 1real) * (y * y + 1real) <= (y * y - y + 1real) * (x * x + 1real),
{
    if y <= 1real {
        lemma_poly_quintic(x, y);
        assert(x * x - x + 1real / 2real >= 1real / 4real) by(nonlinear_arith);
        assert(y * y - y + 1real / 2real >= 1real / 4real) by(nonlinear_arith);
        assert(x * x * y * y >= 0real) by(nonlinear_arith);
        assert((y - x) * (x * x * y * y + x * x + y * y - x - y + 1real) >= 0real) by(nonlinear_arith)
            requires y - x >= 0real, x * x * y * y + x * x + y * y - x - y + 1real >= 0real;
    }
    if x >= 1real {
        lemma_poly_quartic(x, y);
        assert(x * y >= 1real) by(nonlinear_arith) requires x >= 1real, y >= x;
        assert((y - x) * (x * y - 1real) >= 0real) by(nonlinear_arith) requires y - x >= 0real, x * y - 1real >= 0real;
    }
}
/// the table B.32 factor in polynomial form
pub proof fn lemma_fm_poly(x: real)
    requires x > 0real,
    ensures fm_of_x(x) == (x * x - x + 1real) / (x * x + 1real), x * fm_of_x(x) == (x * x * x - x * x + x) / (x * x + 1real), x * x + 1real > 0real,
{
    assert(x * x + 1real > 0real) by(nonlinear_arith);
    let y = 1real / x;
    assert(x * y == 1real) by(nonlinear_arith) requires x > 0real, y == 1real / x;
    assert(x + y > 0real) by(nonlinear_arith) requires x > 0real, x * y == 1real;
    assert((x + y - 1real) / (x + y) == (x * x - x + 1real) / (x * x + 1real)) by(nonlinear_arith) requires x > 0real, x * y == 1real, x + y > 0real;
    assert(x * ((x * x - x + 1real) / (x * x + 1real)) == (x * x * x - x * x + x) / (x * x + 1real)) by(nonlinear_arith) requires x * x + 1real > 0real;
}
pub proof fn lemma_div_le(a: real, b: real, c: real, d: real)
    requires b > 0real, d > 0real, a * d <= c * b,
    ensures a / b <= c / d,
{
    assert(a / b <= c / d) by(nonlinear_arith) requires b > 0real, d > 0real, a * d <= c * b;
}
/// more production never lowers the produced energy used on site: pt -> fmatch(lm, pt, us) * min(us, pt) is non-decreasing
pub proof fn lemma_g_mono(lm: bool, pt: real, pt2: real, us: real)
    requires 0real <= pt <= pt2, us >= 0real,
    ensures g_used(lm, pt, us) <= g_used(lm, pt2, us),
{
    if !lm || us <= 0real {
        // factor 1 on both sides (or no use at all)
        assert(1real * rmin(us, pt) == rmin(us, pt) && 1real * rmin(us, pt2) == rmin(us, pt2)) by(nonlinear_arith);
        if lm && us <= 0real { assert(rmin(us, pt) == 0real && rmin(us, pt2) == 0real); lemma_mul0(fmatch(lm, pt, us)); lemma_mul0(fmatch(lm, pt2, us)); }
    } else if pt <= 0real {
        assert(1real * rmin(us, pt) == 0real) by(nonlinear_arith) requires rmin(us, pt) == 0real;
        lemma_fmatch_range(lm, pt2, us);
        lemma_scale01(rmin(us, pt2), fmatch(lm, pt2, us));
    } else {
        let x = pt / us; let y = pt2 / us;
        assert(0real < x <= y && x * us == pt && y * us == pt2) by(nonlinear_arith) requires 0real < pt <= pt2, us > 0real, x == pt / us, y == pt2 / us;
        lemma_fmatch_stages(pt, us); lemma_fmatch_stages(pt2, us);
        assert(fmatch(true, pt, us) == fm_of_x(x) && fmatch(true, pt2, us) == fm_of_x(y));
        lemma_fm_poly(x); lemma_fm_poly(y);
        lemma_h_mono(x, y);
        let dx = x * x + 1real; let dy = y * y + 1real;
        // g / us as a function of x: x f(x) below 1, f(x) from 1 on
        let hx = if x <= 1real { x * fm_of_x(x) } else { fm_of_x(x) };
        let hy = if y <= 1real { y * fm_of_x(y) } else { fm_of_x(y) };
        assert(g_used(true, pt, us) == us * hx) by {
            if x <= 1real { assert(pt <= us) by(nonlinear_arith) requires x <= 1real, x * us == pt, us > 0real; assert(fm_of_x(x) * (x * us) == us * (x * fm_of_x(x))) by(nonlinear_arith); }
            else { assert(pt > us) by(nonlinear_arith) requires x > 1real, x * us == pt, us > 0real; assert(fm_of_x(x) * us == us * fm_of_x(x)) by(nonlinear_arith); }
        }
        assert(g_used(true, pt2, us) == us * hy) by {
            if y <= 1real { assert(pt2 <= us) by(nonlinear_arith) requires y <= 1real, y * us == pt2, us > 0real; assert(fm_of_x(y) * (y * us) == us * (y * fm_of_x(y))) by(nonlinear_arith); }
            else { assert(pt2 > us) by(nonlinear_arith) requires y > 1real, y * us == pt2, us > 0real; assert(fm_of_x(y) * us == us * fm_of_x(y)) by(nonlinear_arith); }
        }
        assert(hx <= hy) by {
            if y <= 1real {
                lemma_div_le(x * x * x - x * x + x, dx, y * y * y - y * y + y, dy);
            } else if x >= 1real {
                if x == 1real && y > 1real { }
                lemma_div_le(x * x - x + 1real, dx, y * y - y + 1real, dy);
                if x <= 1real { assert(x * fm_of_x(x) == fm_of_x(x)) by(nonlinear_arith) requires x == 1real; }
            } else {
                // x < 1 < y: through the value at 1
                lemma_h_mono(x, 1real); lemma_h_mono(1real, y); lemma_fm_poly(1real);
                lemma_div_le(x * x * x - x * x + x, dx, 1real * 1real * 1real - 1real * 1real + 1real, 1real * 1real + 1real);
                lemma_div_le(1real * 1real - 1real + 1real, 1real * 1real + 1real, y * y - y + 1real, dy);
                assert(1real * fm_of_x(1real) == fm_of_x(1real)) by(nonlinear_arith);
            }
        }
        assert(us * hx <= us * hy) by(nonlinear_arith) requires us > 0real, hx <= hy;
    }
}

// ------------------------------------------------------------------------------------------------ C12: with vs without load matching
/// C12 (comparison sentence) for one carrier: the same components evaluated with and without load matching - at every step the produced
/// energy used on site with load matching is at most the one without, the grid delivery at least; the same for the annual figures
pub proof fn thm_c12_lm(a: Run, b: Run)
    requires run_ok(a, true), run_ok(b, false), a.cs == b.cs, nonneg_list(a.cs), wf_list(a.cs, run_n(a) as nat), same_carrier(a.cs, e_carrier(a.cs[0])),
    ensures run_n(a) == run_n(b),
            forall|i: int| 0 <= i < run_n(a) ==> rv(#[trigger] a.prod.epus_t@[i]) <= rv(b.prod.epus_t@[i]) && rv(a.del.grid_t@[i]) >= rv(b.del.grid_t@[i]),
            rv(a.prod.epus_an) <= rv(b.prod.epus_an), rv(a.del.grid_an) >= rv(b.del.grid_an),
{
    assert(run_n(a) == run_n(b));
    assert forall|i: int| 0 <= i < run_n(a) implies rv(#[trigger] a.prod.epus_t@[i]) <= rv(b.prod.epus_t@[i]) && rv(a.del.grid_t@[i]) >= rv(b.del.grid_t@[i]) by {
        lemma_epus_is_g(a, true, i); lemma_epus_is_g(b, false, i);
        assert(rv(a.used.epus_t@[i]) == acc(a.cs, Sel::Epus, i) && rv(b.used.epus_t@[i]) == acc(b.cs, Sel::Epus, i));
        lemma_same_prod_t(a, b, i);
        lemma_g_lm(rv(a.prod.t@[i]), rv(a.used.epus_t@[i]));
    }
    lemma_sumf_le(a.prod.epus_t@, b.prod.epus_t@);
    lemma_sumf_le(b.del.grid_t@, a.del.grid_t@);
}
/// same component list => same production by source and in total, in both evaluations
pub proof fn lemma_same_prod_t(a: Run, b: Run, i: int)
    requires cup_post(a.cs, true, a.used, a.prod, a.fm), cup_post(b.cs, false, b.used, b.prod, b.fm), a.cs == b.cs, 0 <= i < run_n(a), run_n(a) == run_n(b),
    ensures rv(a.prod.t@[i]) == rv(b.prod.t@[i]),
{
    let m = a.prod.by_src_t@; let m2 = b.prod.by_src_t@;
    assert forall|s: ProdSource| #[trigger] mv(m, s, i) == mv(m2, s, i) by {
        assert(m.contains_key(s) == any_sel(a.cs, Sel::Prod(s)) && m2.contains_key(s) == any_sel(b.cs, Sel::Prod(s)));
        if m.contains_key(s) { assert(rv(m[s]@[i]) == acc(a.cs, Sel::Prod(s), i)); assert(rv(m2[s]@[i]) == acc(b.cs, Sel::Prod(s), i)); }
    }
    assert(rv(a.prod.t@[i]) == all_src_sum(m, i) && rv(b.prod.t@[i]) == all_src_sum(m2, i));
    assert(mv(m, ProdSource::EL_INSITU, i) == mv(m2, ProdSource::EL_INSITU, i) && mv(m, ProdSource::EL_COGEN, i) == mv(m2, ProdSource::EL_COGEN, i)
        && mv(m, ProdSource::TERMOSOLAR, i) == mv(m2, ProdSource::TERMOSOLAR, i) && mv(m, ProdSource::EAMBIENTE, i) == mv(m2, ProdSource::EAMBIENTE, i));
}

// ------------------------------------------------------------------------------------------------ C14: grid-delivered energy
/// the second component list has, step by step, the same EPB use and at least the production of the first, source by source
pub open spec fn more_production(cs: Seq<Energy>, cs2: Seq<Energy>, n: int) -> bool {
    &&& sel_same(cs, cs2)
    &&& (forall|i: int| 0 <= i < n ==> #[trigger] acc(cs2, Sel::Epus, i) == acc(cs, Sel::Epus, i))
    &&& (forall|s: ProdSource, i: int| 0 <= i < n ==> #[trigger] acc(cs2, Sel::Prod(s), i) >= acc(cs, Sel::Prod(s), i))
}
/// C14 (grid delivery) for one carrier: more production at any steps, everything else equal, never increases the energy delivered by
/// the grid - at any step and over the year, with or without load matching
pub proof fn thm_c14_grid_carrier(a: Run, b: Run, lm: bool)
    requires run_ok(a, lm), run_ok(b, lm), run_n(a) == run_n(b), more_production(a.cs, b.cs, run_n(a)),
             nonneg_list(a.cs), wf_list(a.cs, run_n(a) as nat), same_carrier(a.cs, e_carrier(a.cs[0])),
             nonneg_list(b.cs), wf_list(b.cs, run_n(b) as nat), same_carrier(b.cs, e_carrier(b.cs[0])),
    ensures forall|i: int| 0 <= i < run_n(a) ==> rv(#[trigger] b.del.grid_t@[i]) <= rv(a.del.grid_t@[i]) && rv(b.prod.epus_t@[i]) >= rv(a.prod.epus_t@[i]),
            rv(b.del.grid_an) <= rv(a.del.grid_an),
{
    assert forall|i: int| 0 <= i < run_n(a) implies rv(#[trigger] b.del.grid_t@[i]) <= rv(a.del.grid_t@[i]) && rv(b.prod.epus_t@[i]) >= rv(a.prod.epus_t@[i]) by {
        lemma_epus_is_g(a, lm, i); lemma_epus_is_g(b, lm, i);
        assert(rv(a.used.epus_t@[i]) == acc(a.cs, Sel::Epus, i) && rv(b.used.epus_t@[i]) == acc(b.cs, Sel::Epus, i));
        assert(acc(b.cs, Sel::Epus, i) == acc(a.cs, Sel::Epus, i));
        let m = a.prod.by_src_t@; let m2 = b.prod.by_src_t@;
        assert forall|s: ProdSource| #[trigger] mv(m2, s, i) >= mv(m, s, i) by {
            assert(any_sel(b.cs, Sel::Prod(s)) == any_sel(a.cs, Sel::Prod(s)));
            assert(acc(b.cs, Sel::Prod(s), i) >= acc(a.cs, Sel::Prod(s), i));
            if m.contains_key(s) { assert(rv(m[s]@[i]) == acc(a.cs, Sel::Prod(s), i)); assert(rv(m2[s]@[i]) == acc(b.cs, Sel::Prod(s), i)); }
        }
        assert(rv(a.prod.t@[i]) == all_src_sum(m, i) && rv(b.prod.t@[i]) == all_src_sum(m2, i));
        assert(mv(m2, ProdSource::EL_INSITU, i) >= mv(m, ProdSource::EL_INSITU, i) && mv(m2, ProdSource::EL_COGEN, i) >= mv(m, ProdSource::EL_COGEN, i)
            && mv(m2, ProdSource::TERMOSOLAR, i) >= mv(m, ProdSource::TERMOSOLAR, i) && mv(m2, ProdSource::EAMBIENTE, i) >= mv(m, ProdSource::EAMBIENTE, i));
        lemma_g_mono(lm, rv(a.prod.t@[i]), rv(b.prod.t@[i]), rv(a.used.epus_t@[i]));
    }
    lemma_sumf_le(b.del.grid_t@, a.del.grid_t@);
}

// ------------------------------------------------------------------------------------------------ at the public entry point
pub proof fn lemma_csum_le(dom: Set<Carrier>, g: spec_fn(Carrier) -> real, g2: spec_fn(Carrier) -> real, l: Seq<Carrier>)
    requires forall|c: Carrier| dom.contains(c) ==> #[trigger] g2(c) <= g(c),
    ensures csum(dom, g2, l) <= csum(dom, g, l),
    decreases l.len(),
{
    if l.len() > 0 { lemma_csum_le(dom, g, g2, l.drop_last()); if dom.contains(l.last()) { assert(g2(l.last()) <= g(l.last())); } }
}
/// the second list is the first with more on-site electricity production at some steps and everything else equal
pub open spec fn more_onsite_el(cs: Seq<Energy>, cs2: Seq<Energy>) -> bool {
    &&& tags_same(cs, cs2)
    &&& (forall|j: int| 0 <= j < cs.len() ==> e_vals(#[trigger] cs2[j]).len() == e_vals(cs[j]).len())
    &&& (forall|j: int, i: int| 0 <= j < cs.len() && 0 <= i < e_vals(cs[j]).len() ==>
            (if cs[j] is Prod && cs[j]->Prod_0.source == ProdSource::EL_INSITU { rv(#[trigger] e_vals(cs2[j])[i]) >= rv(e_vals(cs[j])[i]) } else { rv(e_vals(cs2[j])[i]) == rv(e_vals(cs[j])[i]) }))
}
pub proof fn lemma_more_onsite_acc(cs: Seq<Energy>, cs2: Seq<Energy>, k: Sel, i: int, n: nat)
    requires more_onsite_el(cs, cs2), wf_list(cs, n), 0 <= i < n,
    ensures acc(cs2, k, i) >= acc(cs, k, i), any_sel(cs2, k) == any_sel(cs, k),
            (k != Sel::Prod(ProdSource::EL_INSITU)) ==> acc(cs2, k, i) == acc(cs, k, i),
    decreases cs.len(),
{
    if cs.len() > 0 {
        let a = cs.drop_last(); let b = cs2.drop_last(); let m = cs.len() - 1;
        assert forall|j: int| 0 <= j < a.len() implies same_tags(#[trigger] a[j], b[j]) by { assert(a[j] == cs[j] && b[j] == cs2[j]); }
        assert forall|j: int| 0 <= j < a.len() implies e_vals(#[trigger] b[j]).len() == e_vals(a[j]).len() by { assert(a[j] == cs[j] && b[j] == cs2[j]); }
        assert forall|j: int| 0 <= j < a.len() implies e_vals(#[trigger] a[j]).len() == n by { assert(a[j] == cs[j]); }
        assert forall|j: int, ii: int| 0 <= j < a.len() && 0 <= ii < e_vals(a[j]).len() implies
            (if a[j] is Prod && a[j]->Prod_0.source == ProdSource::EL_INSITU { rv(#[trigger] e_vals(b[j])[ii]) >= rv(e_vals(a[j])[ii]) } else { rv(e_vals(b[j])[ii]) == rv(e_vals(a[j])[ii]) }) by {
            assert(a[j] == cs[j] && b[j] == cs2[j]);
        }
        lemma_more_onsite_acc(a, b, k, i, n);
        assert(same_tags(cs[m], cs2[m]));
        lemma_same_tags_sel(cs[m], cs2[m], k);
        assert(e_vals(cs[m]).len() == n);
        let x = rv(e_vals(cs[m])[i]); let y = rv(e_vals(cs2[m])[i]);
        assert(if cs[m] is Prod && cs[m]->Prod_0.source == ProdSource::EL_INSITU { y >= x } else { y == x });
    }
}
pub proof fn lemma_more_onsite_filter(cs: Seq<Energy>, cs2: Seq<Energy>, c: Carrier)
    requires more_onsite_el(cs, cs2),
    ensures more_onsite_el(filter_carrier(cs, c), filter_carrier(cs2, c)),
    decreases cs.len(),
{
    if cs.len() > 0 {
        let a = cs.drop_last(); let b = cs2.drop_last(); let m = cs.len() - 1;
        assert forall|j: int| 0 <= j < a.len() implies same_tags(#[trigger] a[j], b[j]) by { assert(a[j] == cs[j] && b[j] == cs2[j]); }
        assert forall|j: int| 0 <= j < a.len() implies e_vals(#[trigger] b[j]).len() == e_vals(a[j]).len() by { assert(a[j] == cs[j] && b[j] == cs2[j]); }
        assert forall|j: int, ii: int| 0 <= j < a.len() && 0 <= ii < e_vals(a[j]).len() implies
            (if a[j] is Prod && a[j]->Prod_0.source == ProdSource::EL_INSITU { rv(#[trigger] e_vals(b[j])[ii]) >= rv(e_vals(a[j])[ii]) } else { rv(e_vals(b[j])[ii]) == rv(e_vals(a[j])[ii]) }) by {
            assert(a[j] == cs[j] && b[j] == cs2[j]);
        }
        lemma_more_onsite_filter(a, b, c);
        assert(same_tags(cs[m], cs2[m]));
        lemma_same_tags_sel(cs[m], cs2[m], Sel::Epus);
        let fa = filter_carrier(a, c); let fb = filter_carrier(b, c);
        if e_has_carrier(cs.last(), c) {
            assert(e_has_carrier(cs2.last(), c));
            let ga = fa.push(cs.last()); let gb = fb.push(cs2.last());
            assert forall|j: int| 0 <= j < ga.len() implies same_tags(#[trigger] ga[j], gb[j]) by { if j < fa.len() { assert(ga[j] == fa[j] && gb[j] == fb[j]); } }
            assert forall|j: int| 0 <= j < ga.len() implies e_vals(#[trigger] gb[j]).len() == e_vals(ga[j]).len() by { if j < fa.len() { assert(ga[j] == fa[j] && gb[j] == fb[j]); } else { assert(ga[j] == cs[m] && gb[j] == cs2[m]); } }
            assert forall|j: int, ii: int| 0 <= j < ga.len() && 0 <= ii < e_vals(ga[j]).len() implies
                (if ga[j] is Prod && ga[j]->Prod_0.source == ProdSource::EL_INSITU { rv(#[trigger] e_vals(gb[j])[ii]) >= rv(e_vals(ga[j])[ii]) } else { rv(e_vals(gb[j])[ii]) == rv(e_vals(ga[j])[ii]) }) by {
                if j < fa.len() { assert(ga[j] == fa[j] && gb[j] == fb[j]); } else { assert(ga[j] == cs[m] && gb[j] == cs2[m]); }
            }
        } else { assert(!e_has_carrier(cs2.last(), c)); }
    }
}
pub open spec fn grid_le(bcr: Map<Carrier, BalanceCarrier>, bcr2: Map<Carrier, BalanceCarrier>) -> bool {
    bcr2.dom() =~= bcr.dom() && forall|c: Carrier| bcr.contains_key(c) ==> rv((#[trigger] bcr2[c]).del.grid_an) <= rv(bcr[c].del.grid_an)
}
#[verifier::spinoff_prover]
pub proof fn lemma_c14_carriers(comps: Components, comps2: Components, k_exp: f32, lm: bool, x: EnergyPerformance, y: EnergyPerformance)
    requires comps_wf(comps.data@), comps_wf(comps2.data@), nonneg_list(comps.data@), nonneg_list(comps2.data@), more_onsite_el(comps.data@, comps2.data@),
             ep_carriers_ok(comps, k_exp, lm, x), ep_carriers_ok(comps2, k_exp, lm, y),
    ensures grid_le(x.balance_cr@, y.balance_cr@),
{
    let cs = comps.data@; let cs2 = comps2.data@;
    let bcr = x.balance_cr@; let bcr2 = y.balance_cr@;
    let n = nsteps(cs);
    assert(nsteps(cs2) == n) by { if cs.len() > 0 { assert(e_vals(cs2[0]).len() == e_vals(cs[0]).len()); } }
    assert forall|c: Carrier| bcr.contains_key(c) == bcr2.contains_key(c) by { lemma_avail_tags(cs, cs2, c); }
    assert(bcr2.dom() =~= bcr.dom());
    assert forall|c: Carrier| bcr.contains_key(c) implies rv((#[trigger] bcr2[c]).del.grid_an) <= rv(bcr[c].del.grid_an) by {
        reveal(bfc_post);
        let bx = bcr[c]; let by = bcr2[c];
        assert(bcr2.contains_key(c));
        let fa = filter_carrier(cs, c); let fb = filter_carrier(cs2, c);
        let a = Run { cs: fa, used: bx.used, prod: bx.prod, fm: bx.f_match@, exp: bx.exp, del: bx.del };
        let b = Run { cs: fb, used: by.used, prod: by.prod, fm: by.f_match@, exp: by.exp, del: by.del };
        lemma_filter_carrier(cs, c, n); lemma_filter_carrier(cs2, c, n);
        lemma_nonneg_filter(cs, c); lemma_nonneg_filter(cs2, c);
        lemma_more_onsite_filter(cs, cs2, c);
        assert(e_has_carrier(fa[0], c) && e_has_carrier(fb[0], c));
        assert(run_n(a) == n && run_n(b) == n) by { assert(e_vals(fa[0]).len() == n && e_vals(fb[0]).len() == n); }
        assert forall|k: Sel| #[trigger] any_sel(fb, k) == any_sel(fa, k) by { lemma_any_sel_tags(fa, fb, k); }
        assert forall|i: int| 0 <= i < n implies #[trigger] acc(fb, Sel::Epus, i) == acc(fa, Sel::Epus, i) by { lemma_more_onsite_acc(fa, fb, Sel::Epus, i, n); }
        assert forall|s: ProdSource, i: int| 0 <= i < n implies #[trigger] acc(fb, Sel::Prod(s), i) >= acc(fa, Sel::Prod(s), i) by { lemma_more_onsite_acc(fa, fb, Sel::Prod(s), i, n); }
        thm_c14_grid_carrier(a, b, lm);
    }
}
pub proof fn lemma_c14_total(bcr: Map<Carrier, BalanceCarrier>, bcr2: Map<Carrier, BalanceCarrier>, comps: Components, comps2: Components, bx: Balance, by: Balance)
    requires grid_le(bcr, bcr2), ep_totals_ok(bcr, comps, bx), ep_totals_ok(bcr2, comps2, by),
    ensures rv(by.del.grid) <= rv(bx.del.grid),
{
    // both totals are sums over the carriers, whatever the two visiting orders
    let (ord, hist) = choose|ord: Seq<Carrier>, hist: Seq<Balance>| #[trigger] bal_chain(bcr, ord, hist) && bal_initial(hist[0], comps) && hist.last() == bx;
    let (ord2, hist2) = choose|ord2: Seq<Carrier>, hist2: Seq<Balance>| #[trigger] bal_chain(bcr2, ord2, hist2) && bal_initial(hist2[0], comps2) && hist2.last() == by;
    lemma_chain_scalars(bcr, ord, hist); lemma_chain_scalars(bcr2, ord2, hist2);
    let f = |q: BalanceCarrier| rv(q.del.grid_an);
    lemma_field_sum(bcr, ord, hist, |q: Balance| rv(q.del.grid), f);
    lemma_field_sum(bcr2, ord2, hist2, |q: Balance| rv(q.del.grid), f);
    assert forall|c: Carrier| bcr.dom().contains(c) implies #[trigger] gsel(bcr2, f)(c) <= gsel(bcr, f)(c) by { assert(rv(bcr2[c].del.grid_an) <= rv(bcr[c].del.grid_an)); }
    lemma_csum_le(bcr.dom(), gsel(bcr, f), gsel(bcr2, f), carriers12());
}
/// C14 (grid delivery) at the public entry point: the same building with more on-site electricity production at any steps: the energy
/// delivered by the grid does not increase - for any carrier over the year (at any step: thm_c14_grid_carrier), and for the whole building
pub proof fn thm_c14_grid(comps: Components, comps2: Components, w: Seq<Factor>, w2: Seq<Factor>, k_exp: f32, area: f32, lm: bool, r: Result<EnergyPerformance>, r2: Result<EnergyPerformance>)
    requires comps_wf(comps.data@), comps_wf(comps2.data@), nonneg_list(comps.data@), nonneg_list(comps2.data@), more_onsite_el(comps.data@, comps2.data@),
             ep_post(comps, w, k_exp, area, lm, r), ep_post(comps2, w2, k_exp, area, lm, r2), r is Ok, r2 is Ok,
    ensures grid_le(r->Ok_0.balance_cr@, r2->Ok_0.balance_cr@),
            rv(r2->Ok_0.balance.del.grid) <= rv(r->Ok_0.balance.del.grid),
{
    let x = r->Ok_0; let y = r2->Ok_0;
    lemma_c14_carriers(comps, comps2, k_exp, lm, x, y);
    lemma_c14_total(x.balance_cr@, y.balance_cr@, comps, comps2, x.balance, y.balance);
}
