// ---- C12 (comparison sentence) and C14 (grid-delivered energy): theorems over the proved contracts of the flow functions
pub proof fn lemma_sumf_le(v: Seq<f32>, v2: Seq<f32>)
    requires v.len() == v2.len(), forall|i: int| 0 <= i < v.len() ==> rv(#[trigger] v[i]) <= rv(v2[i]),
    ensures sumf(v) <= sumf(v2),
    decreases v.len(),
{
    if v.len() > 0 {
        assert forall|i: int| 0 <= i < v.drop_last().len() implies rv(#[trigger] v.drop_last()[i]) <= rv(v2.drop_last()[i]) by { assert(v.drop_last()[i] == v[i] && v2.drop_last()[i] == v2[i]); }
        lemma_sumf_le(v.drop_last(), v2.drop_last());
        assert(rv(v[v.len() - 1]) <= rv(v2[v.len() - 1]));
    }
}
/// min(pv, us) + min(chp, us - min(pv, us)) == min(us, pv + chp) for non-negative quantities: the two priority allocations together
/// are what a single source of size pv + chp would get
pub proof fn lemma_pri_total(pv: real, chp: real, us: real, f: real)
    requires pv >= 0real, chp >= 0real, us >= 0real,
    ensures pri_insitu(pv, us, f) + pri_cogen(pv, chp, us, f) == f * rmin(us, pv + chp),
{
    let a = rmin(pv, us); let b = rmin(chp, us - a);
    assert(a + b == rmin(us, pv + chp));
    assert(a * f + b * f == f * (a + b)) by(nonlinear_arith);
}
/// produced energy used on site at one step, as a function of total production, EPB use and load-matching mode - whatever the sources
pub open spec fn g_used(lm: bool, pt: real, us: real) -> real { fmatch(lm, pt, us) * rmin(us, pt) }
pub proof fn lemma_epus_is_g(a: Run, lm: bool, i: int)
    requires run_ok(a, lm), nonneg_list(a.cs), wf_list(a.cs, run_n(a) as nat), same_carrier(a.cs, e_carrier(a.cs[0])), 0 <= i < run_n(a),
    ensures rv(a.prod.epus_t@[i]) == g_used(lm, rv(a.prod.t@[i]), rv(a.used.epus_t@[i])), rv(a.prod.t@[i]) >= 0real, rv(a.used.epus_t@[i]) >= 0real,
            rv(a.del.grid_t@[i]) == rv(a.used.epus_t@[i]) - rv(a.prod.epus_t@[i]),
{
    let us = rv(a.used.epus_t@[i]); let pt = rv(a.prod.t@[i]); let f = rv(a.fm[i]);
    assert(f == fmatch(lm, pt, us));
    assert(us >= 0real && pt >= 0real);
    if pri(e_carrier(a.cs[0]), a.prod.by_src_t@) {
        let m = a.prod.by_src_t@;
        let pv = rv(m[ProdSource::EL_INSITU]@[i]); let chp = rv(m[ProdSource::EL_COGEN]@[i]);
        assert(pt == all_src_sum(m, i));
        // electricity: the only other sources belong to other carriers
        lemma_src_carrier_only(a, lm, ProdSource::TERMOSOLAR); lemma_src_carrier_only(a, lm, ProdSource::EAMBIENTE);
        assert(pt == pv + chp);
        assert(mv(m, ProdSource::EL_INSITU, i) >= 0real && mv(m, ProdSource::EL_COGEN, i) >= 0real);
        lemma_pri_total(pv, chp, us, f);
        assert(rv(a.prod.epus_by_src_t@[ProdSource::EL_INSITU]@[i]) == pri_insitu(pv, us, f));
        assert(rv(a.prod.epus_by_src_t@[ProdSource::EL_COGEN]@[i]) == pri_cogen(pv, chp, us, f));
        assert(rv(a.prod.epus_t@[i]) == pri_insitu(pv, us, f) + pri_cogen(pv, chp, us, f));
    } else {
        assert(rv(a.prod.epus_t@[i]) == f * rmin(us, pt));
    }
}
/// a production source of another carrier is absent from the balance of this one
pub proof fn lemma_src_carrier_only(a: Run, lm: bool, s: ProdSource)
    requires run_ok(a, lm), same_carrier(a.cs, e_carrier(a.cs[0])), ps_carrier(s) != e_carrier(a.cs[0]),
    ensures !a.prod.by_src_t@.contains_key(s),
{
    if a.prod.by_src_t@.contains_key(s) {
        assert(any_sel(a.cs, Sel::Prod(s)));
        lemma_has_prod_carrier(a.cs, e_carrier(a.cs[0]), s);
    }
}

/// load matching can only lower the produced energy used on site
pub proof fn lemma_g_lm(pt: real, us: real)
    requires pt >= 0real, us >= 0real,
    ensures g_used(true, pt, us) <= g_used(false, pt, us),
{
    lemma_c12_lm_lowers(pt, us);
}
// polynomial identities, proved by distributing one product at a time (the solver's non-linear mode does not finish on them as a whole)
pub proof fn lemma_pd32(a: real, b: real, c: real, d: real, e: real) ensures (a + b + c) * (d + e) == a * d + a * e + b * d + b * e + c * d + c * e
{ assert((a + b + c) * (d + e) == a * d + a * e + b * d + b * e + c * d + c * e) by(nonlinear_arith); }
pub proof fn lemma_pd2(a: real, b: real, s: real) ensures (a + b) * s == a * s + b * s { assert((a + b) * s == a * s + b * s) by(nonlinear_arith); }
pub proof fn lemma_pd3(a: real, c1: real, c2: real, c3: real) ensures a * (c1 + c2 + c3) == a * c1 + a * c2 + a * c3 { assert(a * (c1 + c2 + c3) == a * c1 + a * c2 + a * c3) by(nonlinear_arith); }
pub proof fn lemma_pd16(a: real, c1: real, c2: real, c3: real, c4: real, c5: real, c6: real)
    ensures a * (c1 + c2 + c3 + c4 + c5 + c6) == a * c1 + a * c2 + a * c3 + a * c4 + a * c5 + a * c6
{ lemma_pd3(a, c1, c2, c3); lemma_pd3(a, c4, c5, c6); lemma_pd3(a, c1 + c2 + c3, c4 + c5 + c6, 0real); assert(a * 0real == 0real) by(nonlinear_arith); }
pub proof fn lemma_pd26(a: real, b: real, c1: real, c2: real, c3: real, c4: real, c5: real, c6: real)
    ensures (a + b) * (c1 + c2 + c3 + c4 + c5 + c6) == a * c1 + a * c2 + a * c3 + a * c4 + a * c5 + a * c6 + b * c1 + b * c2 + b * c3 + b * c4 + b * c5 + b * c6
{ lemma_pd2(a, b, c1 + c2 + c3 + c4 + c5 + c6); lemma_pd16(a, c1, c2, c3, c4, c5, c6); lemma_pd16(b, c1, c2, c3, c4, c5, c6); }
pub proof fn lemma_pneg(a: real, b: real) ensures (0real - a) * b == 0real - a * b, a * (0real - b) == 0real - a * b, a * 1real == a, 1real * a == a, a * b == b * a
{ assert((0real - a) * b == 0real - a * b && a * (0real - b) == 0real - a * b && a * 1real == a && 1real * a == a && a * b == b * a) by(nonlinear_arith); }
pub proof fn lemma_passoc(a: real, b: real, c: real) ensures (a * b) * c == a * (b * c), (a * b) * c == a * (c * b)
{ assert((a * b) * c == a * (b * c) && (a * b) * c == a * (c * b)) by(nonlinear_arith); }
pub proof fn lemma_poly_quintic(x: real, y: real)
    ensures (y * y * y - y * y + y) * (x * x + 1real) - (x * x * x - x * x + x) * (y * y + 1real) == (y - x) * (x * x * y * y + x * x + y * y - x - y + 1real)
{
    let p = x * x; let q = y * y; let pq = p * q;
    // y*y*y == q*y == y*q ; x*x*x == p*x
    lemma_pneg(q, y); lemma_pneg(p, x);
    lemma_pd32(y * q, 0real - q, y, p, 1real);
    lemma_pd32(x * p, 0real - p, x, q, 1real);
    lemma_passoc(y, q, p); lemma_passoc(x, p, q);
    lemma_pneg(q, p); lemma_pneg(p, q); lemma_pneg(y * q, 1real); lemma_pneg(x * p, 1real); lemma_pneg(q, 1real); lemma_pneg(p, 1real); lemma_pneg(y, 1real); lemma_pneg(x, 1real); lemma_pneg(y, p); lemma_pneg(x, q);
    assert((y * y * y - y * y + y) * (x * x + 1real) == y * pq + y * q - pq - q + y * p + y);
    assert((x * x * x - x * x + x) * (y * y + 1real) == x * pq + x * p - pq - p + x * q + x);
    lemma_passoc(x, x, y); lemma_passoc(p, y, y);
    assert(x * x * y * y == pq);
    let u = y - x; let v = pq + p + q - x - y + 1real;
    lemma_pd26(y, 0real - x, pq, p, q, 0real - x, 0real - y, 1real);
    assert(u == y + (0real - x) && v == pq + p + q + (0real - x) + (0real - y) + 1real);
    assert(u * v == (y + (0real - x)) * (pq + p + q + (0real - x) + (0real - y) + 1real));
    lemma_pneg(x, pq); lemma_pneg(y, x); lemma_pneg(y, y); lemma_pneg(x, x); lemma_pneg(x, y); lemma_pneg(x, p); lemma_pneg(x, 0real - x); lemma_pneg(x, 0real - y); lemma_pneg(0real - x, 1real);
    assert(u * v == y * pq + y * p + y * q - y * x - q + y - x * pq - x * p - x * q + p + x * y - x);
}
pub proof fn lemma_pd22(a: real, b: real, d: real, e: real) ensures (a + b) * (d + e) == a * d + a * e + b * d + b * e
{ assert((a + b) * (d + e) == a * d + a * e + b * d + b * e) by(nonlinear_arith); }
pub proof fn lemma_passoc3(x: real, y: real) ensures y * (x * x) == x * (x * y), x * (y * y) == y * (x * y), (x * x) * (y * y) == (x * y) * (x * y)
{ assert(y * (x * x) == x * (x * y) && x * (y * y) == y * (x * y) && (x * x) * (y * y) == (x * y) * (x * y)) by(nonlinear_arith); }
pub proof fn lemma_poly_quartic(x: real, y: real) ensures (y * y - y + 1real) * (x * x + 1real) - (x * x - x + 1real) * (y * y + 1real) == (y - x) * (x * y - 1real)
{
    let p = x * x; let q = y * y; let r = x * y;
    lemma_pd32(q, 0real - y, 1real, p, 1real);
    lemma_pd32(p, 0real - x, 1real, q, 1real);
    lemma_pd22(y, 0real - x, r, 0real - 1real);
    lemma_passoc3(x, y);
    lemma_pneg(y, p); lemma_pneg(x, q); lemma_pneg(q, p); lemma_pneg(y, 1real); lemma_pneg(x, 1real); lemma_pneg(x, r); lemma_pneg(1real, 1real); lemma_pneg(y, r); lemma_pneg(p, q); lemma_pneg(q, 1real); lemma_pneg(p, 1real);
    lemma_pneg(1real, p); lemma_pneg(1real, q);
}
/// x -> (x^3 - x^2 + x) / (x^2 + 1) is non-decreasing on (0, 1]  and  x -> (x^2 - x + 1) / (x^2 + 1) on [1, oo): cross-multiplied and factored
pub proof fn lemma_h_mono(x: real, y: real)
    requires 0real < x <= y,
    ensures y <= 1real ==> (x * x * x - x * x + x) * (y * y + 1real) <= (y * y * y - y * y + y) * (x * x + 1real),
            x >= 1real ==> (x * x - x + 1real) * (y * y + 1real) <= (y * y - y + 1real) * (x * x + 1real),
{
    if y <= 1real {
        lemma_poly_quintic(x, y);
        assert(x * x - x + 1real / 2real >= 1real / 4real) by(nonlinear_arith);
        assert(y * y - y + 1real / 2real >= 1real / 4real) by(nonlinear_arith);
        assert(x * x * y * y >= 0real) by(nonlinear_arith);
        assert((y - x) * (x * x * y * y + x * x + y * y - x - y + 1real) >= 0real) by(nonlinear_arith)
            requires y - x >= 0real, x * x * y * y + x * x + y * y - x - y + 1real >= 0real;
    }
    if x >= 1real {
        lemma_poly_quartic(x, y);
        assert(x * y >= 1real) by(nonlinear_arith) requires x >= 1real, y >= x;
        assert((y - x) * (x * y - 1real) >= 0real) by(nonlinear_arith) requires y - x >= 0real, x * y - 1real >= 0real;
    }
}
/// the table B.32 factor in polynomial form
pub proof fn lemma_fm_poly(x: real)
    requires x > 0real,
    ensures fm_of_x(x) == (x * x - x + 1real) / (x * x + 1real), x * fm_of_x(x) == (x * x * x - x * x + x) / (x * x + 1real), x * x + 1real > 0real,
{
    assert(x * x + 1real > 0real) by(nonlinear_arith);
    let y = 1real / x;
    assert(x * y == 1real) by(nonlinear_arith) requires x > 0real, y == 1real / x;
    assert(x + y > 0real) by(nonlinear_arith) requires x > 0real, x * y == 1real;
    assert((x + y - 1real) / (x + y) == (x * x - x + 1real) / (x * x + 1real)) by(nonlinear_arith) requires x > 0real, x * y == 1real, x + y > 0real;
    assert(x * ((x * x - x + 1real) / (x * x + 1real)) == (x * x * x - x * x + x) / (x * x + 1real)) by(nonlinear_arith) requires x * x + 1real > 0real;
}
pub proof fn lemma_div_le(a: real, b: real, c: real, d: real)
    requires b > 0real, d > 0real, a * d <= c * b,
    ensures a / b <= c / d,
{
    assert(a / b <= c / d) by(nonlinear_arith) requires b > 0real, d > 0real, a * d <= c * b;
}
/// more production never lowers the produced energy used on site: pt -> fmatch(lm, pt, us) * min(us, pt) is non-decreasing
pub proof fn lemma_g_mono(lm: bool, pt: real, pt2: real, us: real)
    requires 0real <= pt <= pt2, us >= 0real,
    ensures g_used(lm, pt, us) <= g_used(lm, pt2, us),
{
    if !lm || us <= 0real {
        // factor 1 on both sides (or no use at all)
        assert(1real * rmin(us, pt) == rmin(us, pt) && 1real * rmin(us, pt2) == rmin(us, pt2)) by(nonlinear_arith);
        if lm && us <= 0real { assert(rmin(us, pt) == 0real && rmin(us, pt2) == 0real); lemma_mul0(fmatch(lm, pt, us)); lemma_mul0(fmatch(lm, pt2, us)); }
    } else if pt <= 0real {
        assert(1real * rmin(us, pt) == 0real) by(nonlinear_arith) requires rmin(us, pt) == 0real;
        lemma_fmatch_range(lm, pt2, us);
        lemma_scale01(rmin(us, pt2), fmatch(lm, pt2, us));
    } else {
        let x = pt / us; let y = pt2 / us;
        assert(0real < x <= y && x * us == pt && y * us == pt2) by(nonlinear_arith) requires 0real < pt <= pt2, us > 0real, x == pt / us, y == pt2 / us;
        lemma_fmatch_stages(pt, us); lemma_fmatch_stages(pt2, us);
        assert(fmatch(true, pt, us) == fm_of_x(x) && fmatch(true, pt2, us) == fm_of_x(y));
        lemma_fm_poly(x); lemma_fm_poly(y);
        lemma_h_mono(x, y);
        let dx = x * x + 1real; let dy = y * y + 1real;
        // g / us as a function of x: x f(x) below 1, f(x) from 1 on
        let hx = if x <= 1real { x * fm_of_x(x) } else { fm_of_x(x) };
        let hy = if y <= 1real { y * fm_of_x(y) } else { fm_of_x(y) };
        assert(g_used(true, pt, us) == us * hx) by {
            if x <= 1real { assert(pt <= us) by(nonlinear_arith) requires x <= 1real, x * us == pt, us > 0real; assert(fm_of_x(x) * (x * us) == us * (x * fm_of_x(x))) by(nonlinear_arith); }
            else { assert(pt > us) by(nonlinear_arith) requires x > 1real, x * us == pt, us > 0real; assert(fm_of_x(x) * us == us * fm_of_x(x)) by(nonlinear_arith); }
        }
        assert(g_used(true, pt2, us) == us * hy) by {
            if y <= 1real { assert(pt2 <= us) by(nonlinear_arith) requires y <= 1real, y * us == pt2, us > 0real; assert(fm_of_x(y) * (y * us) == us * (y * fm_of_x(y))) by(nonlinear_arith); }
            else { assert(pt2 > us) by(nonlinear_arith) requires y > 1real, y * us == pt2, us > 0real; assert(fm_of_x(y) * us == us * fm_of_x(y)) by(nonlinear_arith); }
        }
        assert(hx <= hy) by {
            if y <= 1real {
                lemma_div_le(x * x * x - x * x + x, dx, y * y * y - y * y + y, dy);
            } else if x >= 1real {
                if x == 1real && y > 1real { }
                lemma_div_le(x * x - x + 1real, dx, y * y - y + 1real, dy);
                if x <= 1real { assert(x * fm_of_x(x) == fm_of_x(x)) by(nonlinear_arith) requires x == 1real; }
            } else {
                // x < 1 < y: through the value at 1
                lemma_h_mono(x, 1real); lemma_h_mono(1real, y); lemma_fm_poly(1real);
                lemma_div_le(x * x * x - x * x + x, dx, 1real * 1real * 1real - 1real * 1real + 1real, 1real * 1real + 1real);
                lemma_div_le(1real * 1real - 1real + 1real, 1real * 1real + 1real, y * y - y + 1real, dy);
                assert(1real * fm_of_x(1real) == fm_of_x(1real)) by(nonlinear_arith);
            }
        }
        assert(us * hx <= us * hy) by(nonlinear_arith) requires us > 0real, hx <= hy;
    }
}
