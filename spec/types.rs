// ---- spec views of the basic types (ghost code only)
pub open spec fn ps_carrier(s: ProdSource) -> Carrier {
    match s {
        ProdSource::EL_INSITU => Carrier::ELECTRICIDAD,
        ProdSource::EL_COGEN => Carrier::ELECTRICIDAD,
        ProdSource::TERMOSOLAR => Carrier::TERMOSOLAR,
        ProdSource::EAMBIENTE => Carrier::EAMBIENTE,
    }
}
pub open spec fn ps_source(s: ProdSource) -> Source {
    match s {
        ProdSource::EL_COGEN => Source::COGEN,
        _ => Source::INSITU,
    }
}
pub open spec fn srv_is_epb(s: Service) -> bool { s != Service::NEPB && s != Service::COGEN }
pub open spec fn cr_is_nearby(c: Carrier) -> bool {
    c == Carrier::BIOMASA || c == Carrier::BIOMASADENSIFICADA || c == Carrier::RED1 || c == Carrier::RED2
        || c == Carrier::EAMBIENTE || c == Carrier::TERMOSOLAR
}
pub open spec fn cr_is_onsite(c: Carrier) -> bool { c == Carrier::EAMBIENTE || c == Carrier::TERMOSOLAR }

pub open spec fn e_vals(e: Energy) -> Seq<f32> {
    match e { Energy::Prod(x) => x.values@, Energy::Used(x) => x.values@, Energy::Aux(x) => x.values@, Energy::Out(x) => x.values@ }
}
pub open spec fn e_id(e: Energy) -> i32 {
    match e { Energy::Prod(x) => x.id, Energy::Used(x) => x.id, Energy::Aux(x) => x.id, Energy::Out(x) => x.id }
}
/// carrier of a component; `Out` components have none (the accessor must not be called on them)
pub open spec fn e_carrier(e: Energy) -> Carrier {
    match e { Energy::Prod(x) => ps_carrier(x.source), Energy::Used(x) => x.carrier, Energy::Aux(_) => Carrier::ELECTRICIDAD, Energy::Out(_) => arbitrary() }
}
pub open spec fn e_service(e: Energy) -> Service {
    match e { Energy::Prod(_) => arbitrary(), Energy::Used(x) => x.service, Energy::Aux(x) => x.service, Energy::Out(x) => x.service }
}
pub open spec fn e_has_carrier(e: Energy, c: Carrier) -> bool { !(e is Out) && e_carrier(e) == c }
pub open spec fn e_is_epb_use(e: Energy) -> bool {
    match e { Energy::Used(x) => srv_is_epb(x.service), Energy::Aux(x) => srv_is_epb(x.service), _ => false }
}
pub open spec fn e_is_nepb_use(e: Energy) -> bool {
    match e { Energy::Used(x) => x.service == Service::NEPB, Energy::Aux(x) => x.service == Service::NEPB, _ => false }
}
pub open spec fn e_is_cogen_use(e: Energy) -> bool {
    match e { Energy::Used(x) => x.service == Service::COGEN, _ => false }
}
pub open spec fn e_is_onsite_pr(e: Energy) -> bool { match e { Energy::Prod(x) => x.source != ProdSource::EL_COGEN, _ => false } }
pub open spec fn e_is_cogen_pr(e: Energy) -> bool { match e { Energy::Prod(x) => x.source == ProdSource::EL_COGEN, _ => false } }
pub open spec fn e_is_electricity(e: Energy) -> bool {
    match e { Energy::Aux(_) => true, Energy::Out(_) => false, _ => e_carrier(e) == Carrier::ELECTRICIDAD }
}
