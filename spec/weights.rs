// ---- spec layer for weighting (EN ISO 52000-1 (2), (20)-(28)); properties C02, C03
pub struct R3 { pub ren: real, pub nren: real, pub co2: real }
pub open spec fn r3v(x: RenNrenCo2) -> R3 { R3 { ren: rv(x.ren), nren: rv(x.nren), co2: rv(x.co2) } }
pub open spec fn r3z() -> R3 { R3 { ren: 0real, nren: 0real, co2: 0real } }
pub open spec fn r3a(a: R3, b: R3) -> R3 { R3 { ren: a.ren + b.ren, nren: a.nren + b.nren, co2: a.co2 + b.co2 } }
pub open spec fn r3d(a: R3, b: R3) -> R3 { R3 { ren: a.ren - b.ren, nren: a.nren - b.nren, co2: a.co2 - b.co2 } }
pub open spec fn r3s(k: real, a: R3) -> R3 { R3 { ren: k * a.ren, nren: k * a.nren, co2: k * a.co2 } }

/// weighting factor set as a lookup: the FIRST factor with the key (C07 / C08 rely on "first")
pub open spec fn fkey(f: Factor, c: Carrier, s: Source, d: Dest, st: Step) -> bool {
    f.carrier == c && f.source == s && f.dest == d && f.step == st
}
pub open spec fn fvals(f: Factor) -> RenNrenCo2 { RenNrenCo2 { ren: f.ren, nren: f.nren, co2: f.co2 } }
pub open spec fn find_spec(w: Seq<Factor>, c: Carrier, s: Source, d: Dest, st: Step) -> Option<RenNrenCo2> decreases w.len() {
    if w.len() == 0 { None } else if fkey(w[0], c, s, d, st) { Some(fvals(w[0])) } else { find_spec(w.drop_first(), c, s, d, st) }
}
pub proof fn lemma_find_first(w: Seq<Factor>, c: Carrier, s: Source, d: Dest, st: Step, n: int)
    requires 0 <= n < w.len(), fkey(w[n], c, s, d, st), forall|j: int| 0 <= j < n ==> !fkey(#[trigger] w[j], c, s, d, st),
    ensures find_spec(w, c, s, d, st) == Some(fvals(w[n])),
    decreases n,
{
    if n > 0 {
        assert(!fkey(w[0], c, s, d, st));
        assert forall|j: int| 0 <= j < n - 1 implies !fkey(#[trigger] w.drop_first()[j], c, s, d, st) by { assert(w.drop_first()[j] == w[j + 1]); }
        assert(w.drop_first()[n - 1] == w[n]);
        lemma_find_first(w.drop_first(), c, s, d, st, n - 1);
    }
}
pub proof fn lemma_find_none(w: Seq<Factor>, c: Carrier, s: Source, d: Dest, st: Step)
    requires forall|j: int| 0 <= j < w.len() ==> !fkey(#[trigger] w[j], c, s, d, st),
    ensures find_spec(w, c, s, d, st) is None,
    decreases w.len(),
{
    if w.len() > 0 {
        assert(!fkey(w[0], c, s, d, st));
        assert forall|j: int| 0 <= j < w.drop_first().len() implies !fkey(#[trigger] w.drop_first()[j], c, s, d, st) by { assert(w.drop_first()[j] == w[j + 1]); }
        lemma_find_none(w.drop_first(), c, s, d, st);
    }
}
/// factor as a real triple (zero when missing; every use is guarded by a presence test)
pub open spec fn fp(w: Seq<Factor>, c: Carrier, s: Source, d: Dest, st: Step) -> R3 {
    match find_spec(w, c, s, d, st) { Some(v) => r3v(v), None => r3z() }
}
pub open spec fn has_fp(w: Seq<Factor>, c: Carrier, s: Source, d: Dest, st: Step) -> bool { find_spec(w, c, s, d, st) is Some }

/// one term of the exported-energy average factor: f(src) * E_exp,src / E_exp   (formula (8)-style weighting by exported share)
pub open spec fn favg_term(w: Seq<Factor>, c: Carrier, m: Map<ProdSource, f32>, exp_an: real, d: Dest, st: Step, src: ProdSource) -> R3 {
    if m.contains_key(src) { r3s(rv(m[src]) / exp_an, fp(w, c, ps_source(src), d, st)) } else { r3z() }
}
pub open spec fn favg(w: Seq<Factor>, c: Carrier, m: Map<ProdSource, f32>, exp_an: real, d: Dest, st: Step) -> R3 {
    r3a(r3a(r3a(favg_term(w, c, m, exp_an, d, st, ProdSource::EL_INSITU), favg_term(w, c, m, exp_an, d, st, ProdSource::EL_COGEN)),
        favg_term(w, c, m, exp_an, d, st, ProdSource::TERMOSOLAR)), favg_term(w, c, m, exp_an, d, st, ProdSource::EAMBIENTE))
}
pub open spec fn favg_ok(w: Seq<Factor>, c: Carrier, m: Map<ProdSource, f32>, d: Dest, st: Step) -> bool {
    forall|src: ProdSource| m.contains_key(src) ==> #[trigger] has_fp(w, c, ps_source(src), d, st)
}
// partial versions over the first n items of an iteration
pub open spec fn pfavg_term(w: Seq<Factor>, c: Carrier, m: Map<ProdSource, f32>, rem: Seq<(&ProdSource, &f32)>, n: int, exp_an: real, d: Dest, st: Step, src: ProdSource) -> R3 {
    if visited(rem, n, src) { favg_term(w, c, m, exp_an, d, st, src) } else { r3z() }
}
pub open spec fn pfavg(w: Seq<Factor>, c: Carrier, m: Map<ProdSource, f32>, rem: Seq<(&ProdSource, &f32)>, n: int, exp_an: real, d: Dest, st: Step) -> R3 {
    r3a(r3a(r3a(pfavg_term(w, c, m, rem, n, exp_an, d, st, ProdSource::EL_INSITU), pfavg_term(w, c, m, rem, n, exp_an, d, st, ProdSource::EL_COGEN)),
        pfavg_term(w, c, m, rem, n, exp_an, d, st, ProdSource::TERMOSOLAR)), pfavg_term(w, c, m, rem, n, exp_an, d, st, ProdSource::EAMBIENTE))
}

// ---- the weighted energy of one carrier, formulas (2), (20)-(28); NOTE: only `we_exp`, `we_b` take k_exp (C03)
pub open spec fn fgrid(w: Seq<Factor>, c: Carrier) -> R3 { fp(w, c, Source::RED, Dest::SUMINISTRO, Step::A) }
pub open spec fn we_del_grid(w: Seq<Factor>, c: Carrier, del: DeliveredEnergy) -> R3 { r3s(rv(del.grid_an), fgrid(w, c)) }
pub open spec fn we_del_cgn(w: Seq<Factor>, c: Carrier, del: DeliveredEnergy) -> R3 { r3s(rv(del.cgn_an), fgrid(w, c)) }
pub open spec fn we_del_onst(w: Seq<Factor>, c: Carrier, del: DeliveredEnergy) -> R3 {
    if rv(del.onst_an) == 0real { r3z() } else { r3s(rv(del.onst_an), fp(w, c, Source::INSITU, Dest::SUMINISTRO, Step::A)) }
}
pub open spec fn we_del(w: Seq<Factor>, c: Carrier, del: DeliveredEnergy) -> R3 {
    r3a(r3a(we_del_grid(w, c, del), we_del_onst(w, c, del)), we_del_cgn(w, c, del))
}
pub open spec fn f_nepus(w: Seq<Factor>, c: Carrier, exp: ExportedEnergy, st: Step) -> R3 {
    if rv(exp.nepus_an) == 0real { r3z() } else { favg(w, c, exp.by_src_an@, rv(exp.an), Dest::A_NEPB, st) }
}
pub open spec fn f_grid(w: Seq<Factor>, c: Carrier, exp: ExportedEnergy, st: Step) -> R3 {
    if rv(exp.grid_an) == 0real { r3z() } else { favg(w, c, exp.by_src_an@, rv(exp.an), Dest::A_RED, st) }
}
pub open spec fn we_exp_nepus_a(w: Seq<Factor>, c: Carrier, exp: ExportedEnergy) -> R3 {
    if rv(exp.an) == 0real { r3z() } else { r3s(rv(exp.nepus_an), f_nepus(w, c, exp, Step::A)) }
}
pub open spec fn we_exp_grid_a(w: Seq<Factor>, c: Carrier, exp: ExportedEnergy) -> R3 {
    if rv(exp.an) == 0real { r3z() } else { r3s(rv(exp.grid_an), f_grid(w, c, exp, Step::A)) }
}
pub open spec fn we_exp_a(w: Seq<Factor>, c: Carrier, exp: ExportedEnergy) -> R3 { r3a(we_exp_nepus_a(w, c, exp), we_exp_grid_a(w, c, exp)) }
pub open spec fn we_exp_nepus_ab(w: Seq<Factor>, c: Carrier, exp: ExportedEnergy) -> R3 {
    if rv(exp.an) == 0real { r3z() } else { r3s(rv(exp.nepus_an), r3d(f_nepus(w, c, exp, Step::B), f_nepus(w, c, exp, Step::A))) }
}
pub open spec fn we_exp_grid_ab(w: Seq<Factor>, c: Carrier, exp: ExportedEnergy) -> R3 {
    if rv(exp.an) == 0real { r3z() } else { r3s(rv(exp.grid_an), r3d(f_grid(w, c, exp, Step::B), f_grid(w, c, exp, Step::A))) }
}
pub open spec fn we_exp_ab(w: Seq<Factor>, c: Carrier, exp: ExportedEnergy) -> R3 { r3a(we_exp_nepus_ab(w, c, exp), we_exp_grid_ab(w, c, exp)) }
/// formula (20)
pub open spec fn we_exp(w: Seq<Factor>, c: Carrier, exp: ExportedEnergy, k: real) -> R3 {
    if rv(exp.an) == 0real { r3z() } else { r3a(we_exp_a(w, c, exp), r3s(k, we_exp_ab(w, c, exp))) }
}
/// formula (2), step A and step B
pub open spec fn we_a(w: Seq<Factor>, c: Carrier, exp: ExportedEnergy, del: DeliveredEnergy) -> R3 { r3d(we_del(w, c, del), we_exp_a(w, c, exp)) }
pub open spec fn we_b(w: Seq<Factor>, c: Carrier, exp: ExportedEnergy, del: DeliveredEnergy, k: real) -> R3 { r3d(we_del(w, c, del), we_exp(w, c, exp, k)) }
/// every factor the evaluation looks up is present (the exact condition for an Ok result)
pub open spec fn we_factors_ok(w: Seq<Factor>, c: Carrier, exp: ExportedEnergy, del: DeliveredEnergy) -> bool {
    &&& has_fp(w, c, Source::RED, Dest::SUMINISTRO, Step::A)
    &&& (rv(del.onst_an) != 0real ==> has_fp(w, c, Source::INSITU, Dest::SUMINISTRO, Step::A))
    &&& (rv(exp.an) != 0real && rv(exp.nepus_an) != 0real ==> favg_ok(w, c, exp.by_src_an@, Dest::A_NEPB, Step::A) && favg_ok(w, c, exp.by_src_an@, Dest::A_NEPB, Step::B))
    &&& (rv(exp.an) != 0real && rv(exp.grid_an) != 0real ==> favg_ok(w, c, exp.by_src_an@, Dest::A_RED, Step::A) && favg_ok(w, c, exp.by_src_an@, Dest::A_RED, Step::B))
}
pub proof fn lemma_find_some(w: Seq<Factor>, c: Carrier, s: Source, d: Dest, st: Step, j: int)
    requires 0 <= j < w.len(), fkey(w[j], c, s, d, st),
    ensures find_spec(w, c, s, d, st) is Some,
    decreases j,
{
    if j > 0 && !fkey(w[0], c, s, d, st) { assert(w.drop_first()[j - 1] == w[j]); lemma_find_some(w.drop_first(), c, s, d, st, j - 1); }
}
/// everything a proof needs to connect `w.iter().find(|f| key(f))` / `.any(..)` (specified over `w.as_ref()`) with `find_spec`
pub proof fn lemma_find_bridge(w: Seq<Factor>, c: Carrier, s: Source, d: Dest, st: Step)
    ensures
        w.as_ref().len() == w.len(),
        forall|j: int| #![trigger w.as_ref()[j]] #![trigger w[j]] 0 <= j < w.len() ==> *w.as_ref()[j] == w[j],
        forall|n: int| 0 <= n < w.len() && fkey(#[trigger] w[n], c, s, d, st) && (forall|j: int| 0 <= j < n ==> !fkey(#[trigger] w[j], c, s, d, st))
            ==> find_spec(w, c, s, d, st) == Some(fvals(w[n])),
        forall|j: int| 0 <= j < w.len() && fkey(#[trigger] w[j], c, s, d, st) ==> find_spec(w, c, s, d, st) is Some,
        (forall|j: int| 0 <= j < w.len() ==> !fkey(#[trigger] w[j], c, s, d, st)) ==> find_spec(w, c, s, d, st) is None,
{
    let r_ = w.as_ref();
    assert(r_.len() == w.len());
    assert forall|j: int| #![trigger r_[j]] #![trigger w[j]] 0 <= j < w.len() implies *r_[j] == w[j] by {}
    assert forall|n: int| 0 <= n < w.len() && fkey(#[trigger] w[n], c, s, d, st) && (forall|j: int| 0 <= j < n ==> !fkey(#[trigger] w[j], c, s, d, st))
        implies find_spec(w, c, s, d, st) == Some(fvals(w[n])) by { lemma_find_first(w, c, s, d, st, n); }
    assert forall|j: int| 0 <= j < w.len() && fkey(#[trigger] w[j], c, s, d, st) implies find_spec(w, c, s, d, st) is Some by { lemma_find_some(w, c, s, d, st, j); }
    if forall|j: int| 0 <= j < w.len() ==> !fkey(#[trigger] w[j], c, s, d, st) { lemma_find_none(w, c, s, d, st); }
}

// ---- component-wise views of the RenNrenCo2 operators at f32 level (used by the operator contracts and by nba_ok)
// component-wise views
pub open spec fn r3_add(a: RenNrenCo2, b: RenNrenCo2) -> RenNrenCo2 {
    RenNrenCo2 { ren: AddSpec::add_spec(a.ren, b.ren), nren: AddSpec::add_spec(a.nren, b.nren), co2: AddSpec::add_spec(a.co2, b.co2) }
}
pub open spec fn r3_sub(a: RenNrenCo2, b: RenNrenCo2) -> RenNrenCo2 {
    RenNrenCo2 { ren: SubSpec::sub_spec(a.ren, b.ren), nren: SubSpec::sub_spec(a.nren, b.nren), co2: SubSpec::sub_spec(a.co2, b.co2) }
}
pub open spec fn r3_scale(a: RenNrenCo2, k: f32) -> RenNrenCo2 {
    RenNrenCo2 { ren: MulSpec::mul_spec(a.ren, k), nren: MulSpec::mul_spec(a.nren, k), co2: MulSpec::mul_spec(a.co2, k) }
}
pub open spec fn r3_lscale(k: f32, a: RenNrenCo2) -> RenNrenCo2 {
    RenNrenCo2 { ren: MulSpec::mul_spec(k, a.ren), nren: MulSpec::mul_spec(k, a.nren), co2: MulSpec::mul_spec(k, a.co2) }
}
