//! Kani kernels: bit-precise (IEEE-754) checks of loop-free / fixed-length kernels of the REAL crate.
//! They state the float-level form of the contracts that Verus proves in the real-number model (assumption A1).
#![allow(unused_imports)]
#[cfg(kani)]
mod kernels {
    use cteepbd::types::*;
    use cteepbd::verif_hooks::*;

    fn finite_nonneg() -> f32 {
        let x: f32 = kani::any();
        kani::assume(x.is_finite() && x >= 0.0);
        x
    }
    /// an energy value of the properties' domain: zero or in [0.01, 1e9]
    fn dom_value() -> f32 {
        let x: f32 = kani::any();
        kani::assume(x == 0.0 || (x >= 0.01 && x <= 1.0e9));
        x
    }

    /// C13: RER is a proper fraction for every finite non-negative (ren, nren), 0 when the total is 0. Loop-free, full domain.
    #[kani::proof]
    fn rer_is_a_fraction() {
        let r = RenNrenCo2::new(finite_nonneg(), finite_nonneg(), 0.0);
        kani::assume((r.ren + r.nren).is_finite());
        let rer = r.rer();
        assert!(rer >= 0.0 && rer <= 1.0);
        if r.ren + r.nren == 0.0 { assert!(rer == 0.0); }
    }

    /// C13: only renewable energy => RER is exactly 1 (x / x == 1 in IEEE arithmetic)
    #[kani::proof]
    fn rer_all_renewable_is_one() {
        let r = RenNrenCo2::new(finite_nonneg(), 0.0, 0.0);
        kani::assume(r.ren > 0.0);
        assert!(r.rer() == 1.0);
    }

    /// C12: the real compute_f_match at one step: f in [0.5, 1]; f == 1 without load matching or when production or use is 0
    #[kani::proof]
    fn f_match_range() {
        let p = dom_value();
        let u = dom_value();
        let lm: bool = kani::any();
        let f = compute_f_match(&[p], &[u], lm);
        assert!(f.len() == 1);
        assert!(f[0] >= 0.5 && f[0] <= 1.0);
        if !lm || p == 0.0 || u == 0.0 { assert!(f[0] == 1.0); }
    }

    /// C01 / C16: element-wise helpers at fixed length 2: bit-exact results, no panic when lengths agree
    #[kani::proof]
    fn vecops_elementwise() {
        let a = [finite_nonneg(), finite_nonneg()];
        let b = [finite_nonneg(), finite_nonneg()];
        let mn = vecvecmin(&a, &b);
        let sm = vecvecsum(&a, &b);
        let df = vecvecdif(&a, &b);
        let ml = vecvecmul(&a, &b);
        assert!(mn.len() == 2 && sm.len() == 2 && df.len() == 2 && ml.len() == 2);
        let mut i = 0;
        while i < 2 {
            assert!(mn[i] == a[i].min(b[i]) && mn[i] <= a[i] && mn[i] <= b[i]);
            assert!(sm[i].to_bits() == (a[i] + b[i]).to_bits());
            assert!(df[i].to_bits() == (a[i] - b[i]).to_bits());
            assert!(ml[i].to_bits() == (a[i] * b[i]).to_bits());
            // rounding is monotone: a - min(a, b) is never negative (non-negativity of the exported energy, C01)
            assert!(a[i] - mn[i] >= 0.0);
            i += 1;
        }
    }

    /// C12 / C01: one step of the priority allocation in IEEE arithmetic: used parts are non-negative and never exceed
    /// production or use (f in [0.5, 1])
    #[kani::proof]
    fn priority_step_bounds() {
        let pv = dom_value();
        let chp = dom_value();
        let us = dom_value();
        let f: f32 = kani::any();
        kani::assume(f >= 0.5 && f <= 1.0);
        let a = vecvecmin(&[pv], &[us]);
        let left = vecvecdif(&[us], &a);
        let b = vecvecmin(&[chp], &left);
        let ua = vecvecmul(&a, &[f]);
        let ub = vecvecmul(&b, &[f]);
        assert!(left[0] >= 0.0);
        assert!(ua[0] >= 0.0 && ua[0] <= pv && ua[0] <= us);
        assert!(ub[0] >= 0.0 && ub[0] <= chp);
        if ub[0] > 0.0 { assert!(a[0] == pv); }
    }

    /// C16: the Energy accessors never reach `unreachable!()` on the variants their contracts allow
    #[kani::proof]
    fn energy_accessors_total_on_allowed_variants() {
        let id: i32 = kani::any();
        let used = Energy::Used(EUsed { id, carrier: Carrier::GASNATURAL, service: Service::CAL, values: vec![], comment: String::new() });
        let prod = Energy::Prod(EProd { id, source: ProdSource::EL_INSITU, values: vec![], comment: String::new() });
        let aux = Energy::Aux(EAux { id, service: Service::ACS, values: vec![], comment: String::new() });
        let out = Energy::Out(EOut { id, service: Service::REF, values: vec![], comment: String::new() });
        assert!(used.carrier() == Carrier::GASNATURAL && prod.carrier() == Carrier::ELECTRICIDAD && aux.carrier() == Carrier::ELECTRICIDAD);
        assert!(!out.has_carrier(Carrier::ELECTRICIDAD) && !out.is_electricity() && aux.is_electricity() && prod.is_electricity() && !used.is_electricity());
        assert!(used.service() == Service::CAL && aux.service() == Service::ACS && out.service() == Service::REF);
        assert!(prod.prod_source() == ProdSource::EL_INSITU && prod.source() == Source::INSITU);
        assert!(aux.is_epb_use() && used.is_epb_use() && !out.is_epb_use() && !prod.is_epb_use());
    }
}
