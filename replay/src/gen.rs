//! Bounded input domain: small buildings over the electricity / gas / ambient-heat carriers.
#[derive(Clone, Copy, Debug, PartialEq)]
pub struct B {
    pub cal_el: f32,
    pub acs_el: f32,
    pub nepb_el: f32,
    pub pv: f32,
    pub chp: f32,
    pub gas: f32,
    pub amb: f32,
    /// declared EAMBIENTE production of the same system as `amb`
    pub amb_prod: f32,
}
pub const V: [f32; 5] = [0.0, 0.5, 1.0, 2.0, 3.0];

/// every single-step building of the domain (1800)
pub fn singles() -> Vec<B> {
    let mut v = vec![];
    for &cal_el in &V {
        for &nepb_el in &[0.0, 1.0, 3.0] {
            for &pv in &V {
                for &chp in &[0.0, 1.0, 3.0] {
                    for &acs_el in &[0.0, 1.0] {
                        for &gas in &[0.0, 2.0] {
                            for &amb in &[0.0, 2.0] {
                                v.push(B { cal_el, acs_el, nepb_el, pv, chp, gas, amb, amb_prod: 0.0 });
                            }
                        }
                    }
                }
            }
        }
    }
    v
}
fn line(tag: &str, vals: &[f32]) -> Option<String> {
    if vals.iter().all(|v| *v == 0.0) {
        return None;
    }
    Some(format!("{},{}", tag, vals.iter().map(|v| format!("{}", v)).collect::<Vec<_>>().join(",")))
}
/// components file of a building given step by step
pub fn text(steps: &[B]) -> String {
    let col = |f: fn(&B) -> f32| -> Vec<f32> { steps.iter().map(f).collect() };
    let mut l = vec![];
    l.extend(line("1,CONSUMO,CAL,ELECTRICIDAD", &col(|b| b.cal_el)));
    l.extend(line("1,CONSUMO,ACS,ELECTRICIDAD", &col(|b| b.acs_el)));
    l.extend(line("1,CONSUMO,NEPB,ELECTRICIDAD", &col(|b| b.nepb_el)));
    l.extend(line("2,PRODUCCION,EL_INSITU", &col(|b| b.pv)));
    l.extend(line("3,PRODUCCION,EL_COGEN", &col(|b| b.chp)));
    l.extend(line("3,CONSUMO,COGEN,GASNATURAL", &col(|b| 2.5 * b.chp)));
    l.extend(line("4,CONSUMO,CAL,GASNATURAL", &col(|b| b.gas)));
    l.extend(line("5,CONSUMO,ACS,EAMBIENTE", &col(|b| b.amb)));
    l.extend(line("5,PRODUCCION,EAMBIENTE", &col(|b| b.amb_prod)));
    l.join("\n")
}
/// tiny deterministic generator (xorshift) for the sampled part of the domain
pub struct Rng(pub u64);
impl Rng {
    pub fn next(&mut self) -> u64 {
        let mut x = self.0.wrapping_add(0x9E3779B97F4A7C15);
        self.0 = x;
        x = (x ^ (x >> 30)).wrapping_mul(0xBF58476D1CE4E5B9);
        x = (x ^ (x >> 27)).wrapping_mul(0x94D049BB133111EB);
        x ^ (x >> 31)
    }
    pub fn pick<'a, T>(&mut self, v: &'a [T]) -> &'a T {
        &v[(self.next() % v.len() as u64) as usize]
    }
}
/// multi-step buildings: fixed special cases + `n` sampled pairs / triples
pub fn multis(seed: u64, n: usize) -> Vec<Vec<B>> {
    let s = singles();
    let z = B { cal_el: 0.0, acs_el: 0.0, nepb_el: 0.0, pv: 0.0, chp: 0.0, gas: 0.0, amb: 0.0, amb_prod: 0.0 };
    let mut out = vec![
        vec![B { cal_el: 2.0, pv: 3.0, chp: 1.0, ..z }, B { cal_el: 1.0, pv: 0.0, chp: 3.0, nepb_el: 1.0, ..z }],
        vec![B { cal_el: 0.0, pv: 2.0, ..z }, B { cal_el: 3.0, pv: 0.5, acs_el: 1.0, ..z }],
        vec![B { cal_el: 1.0, chp: 3.0, gas: 2.0, ..z }, B { cal_el: 2.0, chp: 1.0, amb: 2.0, ..z }, B { cal_el: 0.5, pv: 2.0, nepb_el: 3.0, ..z }],
        // declared ambient production slightly below the use (small uncovered part), alone and with electricity
        vec![B { amb: 1.0, amb_prod: 0.982, cal_el: 1.0, ..z }, B { amb: 2.0, amb_prod: 1.0, cal_el: 0.5, pv: 1.0, ..z }],
        // production marginally above the EPB use (tiny export), one and two steps
        vec![B { cal_el: 1.0, pv: 1.0005, ..z }],
        vec![B { cal_el: 2.0, pv: 2.0004, nepb_el: 0.0, ..z }, B { cal_el: 1.0, pv: 0.5, ..z }],
        // twelve monthly steps with PV, cogeneration, non-EPB use and ambient heat
        (0..12).map(|m| { let w = 1.0 + ((m * 5) % 7) as f32; B { cal_el: w, acs_el: 1.0, nepb_el: if m % 3 == 0 { 1.5 } else { 0.0 }, pv: 0.5 + ((m * 3) % 5) as f32, chp: if m % 4 == 1 { 2.0 } else { 0.0 }, gas: 1.0, amb: w * 0.5, amb_prod: 0.0 } }).collect(),
    ];
    let mut r = Rng(seed ^ 0xC7EE9BD);
    for i in 0..n {
        let k = 2 + (i % 2);
        out.push((0..k).map(|_| *r.pick(&s)).collect());
    }
    out
}

/// hand-written special buildings (text) used by every predicate that takes whole files
pub fn extras() -> Vec<&'static str> {
    vec![
        // two cogeneration units with different fuels, exporting
        "1,CONSUMO,CAL,ELECTRICIDAD,5\n2,PRODUCCION,EL_COGEN,20\n2,CONSUMO,COGEN,GASNATURAL,50\n3,PRODUCCION,EL_COGEN,10\n3,CONSUMO,COGEN,BIOMASA,30\n4,CONSUMO,ACS,BIOMASA,12",
        "1,CONSUMO,CAL,ELECTRICIDAD,5,40\n2,PRODUCCION,EL_COGEN,20,10\n2,CONSUMO,COGEN,GASNATURAL,50,25\n3,PRODUCCION,EL_COGEN,10,10\n3,CONSUMO,COGEN,GASNATURAL,30,30\n4,PRODUCCION,EL_INSITU,3,0\n5,CONSUMO,ACS,EAMBIENTE,6,6",
        // one cogeneration input feeding two production components (most of the cogenerated electricity exported)
        "CONSUMO,ILU,ELECTRICIDAD,10,10\nCONSUMO,COGEN,BIOMASA,100,100\nPRODUCCION,EL_COGEN,20,20\nPRODUCCION,EL_COGEN,20,20\nCONSUMO,CAL,GASNATURAL,200,200",
        "CONSUMO,CAL,ELECTRICIDAD,10\nCONSUMO,CAL,EAMBIENTE,150\nCONSUMO,COGEN,GASNATURAL,100\nPRODUCCION,EL_COGEN,25\nPRODUCCION,EL_COGEN,15",
        // biomass cogeneration exporting most of its electricity, with a gas boiler
        "CONSUMO,ILU,ELECTRICIDAD,10\nCONSUMO,COGEN,BIOMASA,100\nPRODUCCION,EL_COGEN,40\nCONSUMO,CAL,GASNATURAL,200",
        // PV surplus consumed by non-EPB electricity and partly exported to the grid
        "1,CONSUMO,ILU,ELECTRICIDAD,10\n1,PRODUCCION,EL_INSITU,40\n1,CONSUMO,NEPB,ELECTRICIDAD,12\n2,CONSUMO,CAL,BIOMASA,30",
        "1,CONSUMO,ILU,ELECTRICIDAD,10,10\n1,PRODUCCION,EL_INSITU,15,40\n1,CONSUMO,NEPB,ELECTRICIDAD,20,5\n2,CONSUMO,CAL,RED1,30,30",
        // district networks and solar thermal with surplus
        "1,CONSUMO,CAL,RED1,40\n1,CONSUMO,REF,RED2,10\n2,CONSUMO,ACS,TERMOSOLAR,7\n2,PRODUCCION,TERMOSOLAR,12\n3,CONSUMO,VEN,ELECTRICIDAD,4",
        // metadata the library entry points must not act on (k_exp, area and location are arguments), with exports
        "#META CTE_KEXP: 1.0\n#META CTE_AREAREF: 50\n#META CTE_LOCALIZACION: CANARIAS\n1,CONSUMO,ILU,ELECTRICIDAD,10,10\n1,PRODUCCION,EL_INSITU,15,40\n1,CONSUMO,NEPB,ELECTRICIDAD,2,5\n2,CONSUMO,CAL,GASNATURAL,30,30",
        // cogeneration exporting in one step, on-site electricity used in another one
        "CONSUMO,ILU,ELECTRICIDAD,10,10,2\nCONSUMO,COGEN,GASNATURAL,0,0,80\nPRODUCCION,EL_COGEN,0,0,20\nPRODUCCION,EL_INSITU,2,0,0",
        "CONSUMO,ILU,ELECTRICIDAD,10,10,2\nCONSUMO,COGEN,GASNATURAL,0,40,80\nPRODUCCION,EL_COGEN,0,10,20\nPRODUCCION,EL_INSITU,6,1,0\nCONSUMO,NEPB,ELECTRICIDAD,1,1,1",
        // a fossil boiler next to grid electricity (renewable share driven by the other carrier)
        "0,CONSUMO,CAL,GASNATURAL,300,250,200,250\n0,CONSUMO,ILU,ELECTRICIDAD,25,25,25,25",
        "0,CONSUMO,CAL,GASOLEO,900\n0,CONSUMO,ILU,ELECTRICIDAD,20\n1,PRODUCCION,EL_INSITU,2",
        // inefficient cogeneration whose export is mostly absorbed by non-EPB uses, with a little PV
        "0,CONSUMO,ILU,ELECTRICIDAD,10\n0,CONSUMO,NEPB,ELECTRICIDAD,90\n1,CONSUMO,COGEN,GASNATURAL,500\n1,PRODUCCION,EL_COGEN,100\n2,PRODUCCION,EL_INSITU,10",
        "0,CONSUMO,ILU,ELECTRICIDAD,10,10\n0,CONSUMO,NEPB,ELECTRICIDAD,90,40\n1,CONSUMO,COGEN,GASNATURAL,500,300\n1,PRODUCCION,EL_COGEN,100,50\n2,PRODUCCION,EL_INSITU,10,20",
        // cogeneration units that burn fuel in steps in which they deliver no electricity (stand-by, heat-led operation), two fuels, exporting
        "0,CONSUMO,ILU,ELECTRICIDAD,10,10,10,10\n1,CONSUMO,COGEN,GASNATURAL,40,15,40,0\n1,PRODUCCION,EL_COGEN,20,0,20,0\n1,CONSUMO,COGEN,BIOMASA,10,0,10,5\n2,CONSUMO,CAL,GASNATURAL,30,30,30,30",
        "0,CONSUMO,ILU,ELECTRICIDAD,2,2,2\n1,CONSUMO,COGEN,GASOLEO,30,9,0\n1,PRODUCCION,EL_COGEN,10,0,0\n3,PRODUCCION,EL_INSITU,0,1,5\n0,CONSUMO,NEPB,ELECTRICIDAD,1,1,1",
        // generators that are declared and idle (lines of zeros): PV next to a used one, solar thermal, PV alone, a cogeneration unit
        "0,CONSUMO,CAL,ELECTRICIDAD,10,10,10\n0,PRODUCCION,EL_INSITU,0,0,0",
        "0,CONSUMO,ACS,TERMOSOLAR,0,0,0\n0,PRODUCCION,TERMOSOLAR,0,0,0\n1,CONSUMO,ACS,GASNATURAL,5,5,5\n2,CONSUMO,ILU,ELECTRICIDAD,1,1,1\n3,PRODUCCION,EL_COGEN,0,0,0\n3,CONSUMO,COGEN,GASNATURAL,0,0,0",
        "0,CONSUMO,ILU,ELECTRICIDAD,4,4,4\n1,PRODUCCION,EL_INSITU,10,10,10\n2,PRODUCCION,EL_COGEN,0,0,0\n2,CONSUMO,COGEN,GASNATURAL,0,0,0\n3,CONSUMO,CAL,GASNATURAL,20,20,20",
        // declared ambient production a few Wh short of the use (the missing part is added whatever its size)
        "1,CONSUMO,CAL,EAMBIENTE,0.019,0,0.05\n1,PRODUCCION,EAMBIENTE,0.012,0,0.05\n2,CONSUMO,ILU,ELECTRICIDAD,1,1,1",
        // declared ambient production 3 Wh short of the use at every step (values written with 3 and 2 decimals)
        "1,CONSUMO,CAL,EAMBIENTE,1.273,1.273\n1,PRODUCCION,EAMBIENTE,1.27,1.27\n1,CONSUMO,CAL,ELECTRICIDAD,0.5,0.5",
        // auxiliary energy as the only electricity component; a step with very little on-site production next to a large one
        "1,CONSUMO,CAL,GASNATURAL,190,150,100\n1,AUX,20,15,10",
        "CONSUMO,ILU,ELECTRICIDAD,5000,5000,5000\nPRODUCCION,EL_INSITU,20000,15,0",
        // on-site electricity declared under a negative (fictitious / reference) system id, next to cogeneration
        "0,CONSUMO,ILU,ELECTRICIDAD,10,10,10\n-1,PRODUCCION,EL_INSITU,4,12,0\n2,PRODUCCION,EL_COGEN,8,8,8\n2,CONSUMO,COGEN,GASNATURAL,20,20,20",
        // a reserve system: two services, outputs and auxiliaries declared and all zero
        "1,CONSUMO,CAL,GASNATURAL,0,0,0\n1,CONSUMO,ACS,GASNATURAL,0,0,0\n1,SALIDA,CAL,0,0,0\n1,SALIDA,ACS,0,0,0\n1,AUX,0,0,0\n2,CONSUMO,ILU,ELECTRICIDAD,33,32,31\n2,CONSUMO,CAL,GASNATURAL,50,40,30",
        // a pump group declared only through its output and its auxiliaries (no CONSUMO line), PV that matches the auxiliaries step by step
        "1,CONSUMO,CAL,GASNATURAL,100,80,60\n2,SALIDA,CAL,50,40,30\n2,AUX,4,3,2\n3,PRODUCCION,EL_INSITU,4,3,2",
        // two identical consecutive lines (two equal PV fields, two equal boilers) next to a cogenerator: both count
        "1,CONSUMO,ILU,ELECTRICIDAD,100,100,100\n2,PRODUCCION,EL_INSITU,40,60,10\n2,PRODUCCION,EL_INSITU,40,60,10\n3,PRODUCCION,EL_COGEN,50,50,50\n3,CONSUMO,COGEN,GASNATURAL,120,120,120\n4,CONSUMO,CAL,GASNATURAL,30,30,30\n4,CONSUMO,CAL,GASNATURAL,30,30,30",
        // a gas machine that heats and cools (cooling output declared negative) with auxiliaries, little lighting and PV
        "1,CONSUMO,CAL,GASNATURAL,100,30,0\n1,CONSUMO,REF,GASNATURAL,0,30,300\n1,SALIDA,CAL,90,30,0\n1,SALIDA,REF,0,-30,-270\n1,AUX,4,2,6\n2,CONSUMO,ILU,ELECTRICIDAD,5,5,2\n0,PRODUCCION,EL_INSITU,10,10,10",
        // a heat pump for two services that is idle in one step but keeps consuming auxiliary energy, a chiller, PV
        "1,CONSUMO,CAL,ELECTRICIDAD,40,30,0,20\n1,CONSUMO,ACS,ELECTRICIDAD,10,10,0,10\n1,SALIDA,CAL,120,90,0,60\n1,SALIDA,ACS,25,25,0,25\n1,AUX,3,3,3,3\n2,CONSUMO,REF,ELECTRICIDAD,0,5,30,0\n3,PRODUCCION,EL_INSITU,5,20,40,10\n4,CONSUMO,ILU,ELECTRICIDAD,6,6,6,6",
    ]
}

/// `n` seeded buildings as component files over the whole vocabulary of the format: 1-4 systems with ids from {-2..7} (ids may repeat),
/// each an electric system (1-2 services, optional outputs and auxiliaries), a boiler (9 fuels / district networks), a heat pump
/// (electricity + ambient heat, production declared in full, in part, in excess or not at all), a solar thermal system, a cogeneration
/// unit (fossil or biomass fuel, one or two production lines) or a non-EPB use; optional photovoltaic production, demand lines and a
/// general EPB electricity use; 1 to 30 time steps; values from {0, 0.01, 0.5, 1, 3.3, 10, 25.5} (kept small so that f32 rounding noise stays below the comparison tolerance)
pub fn random_texts(seed: u64, n: usize) -> Vec<String> {
    let mut r = Rng(seed ^ 0x7E47_5EED);
    let vals = [0.0f32, 0.0, 0.01, 0.5, 1.0, 3.3, 10.0, 25.5];
    let steps_opts = [1usize, 2, 3, 4, 12, 13, 25, 30];
    let fuels = ["GASNATURAL", "GASOLEO", "GLP", "BIOMASA", "BIOMASADENSIFICADA", "CARBON", "RED1", "RED2", "BIOCARBURANTE"];
    let cgn_fuels = ["GASNATURAL", "GASOLEO", "GLP", "BIOMASA", "BIOMASADENSIFICADA"];
    let epb = ["CAL", "ACS", "REF", "VEN", "ILU"];
    let ids = [-2i32, -1, 0, 1, 2, 3, 7];
    let mut out = vec![];
    for _ in 0..n {
        let ns = *r.pick(&steps_opts);
        let raw = |r: &mut Rng, scale: f32| -> Vec<f32> { (0..ns).map(|_| *r.pick(&vals) * scale).collect() };
        let fmt = |v: &[f32]| -> String { v.iter().map(|x| format!("{}", x)).collect::<Vec<_>>().join(",") };
        let mut l: Vec<String> = vec![];
        let nsys = 1 + r.next() % 4;
        for _ in 0..nsys {
            let id = *r.pick(&ids);
            match r.next() % 6 {
                0 => {
                    let s1 = *r.pick(&epb);
                    let s2 = *r.pick(&epb);
                    let two = s1 != s2 && r.next() % 2 == 0;
                    l.push(format!("{},CONSUMO,{},ELECTRICIDAD,{}", id, s1, fmt(&raw(&mut r, 1.0))));
                    if two { l.push(format!("{},CONSUMO,{},ELECTRICIDAD,{}", id, s2, fmt(&raw(&mut r, 0.5)))); }
                    let aux = r.next() % 2 == 0;
                    if aux || r.next() % 3 == 0 {
                        // outputs: positive, cooling negative; never zero in a step (that class is the known finding D8)
                        let o = |r: &mut Rng, s: &str| -> Vec<f32> { (0..ns).map(|_| (1.0 + (r.next() % 90) as f32) * if s == "REF" { -1.0 } else { 1.0 }).collect() };
                        l.push(format!("{},SALIDA,{},{}", id, s1, fmt(&o(&mut r, s1))));
                        if two { l.push(format!("{},SALIDA,{},{}", id, s2, fmt(&o(&mut r, s2)))); }
                    }
                    if aux { l.push(format!("{},AUX,{}", id, fmt(&raw(&mut r, 0.1)))); }
                }
                1 => {
                    let s = *r.pick(&epb[..3]);
                    l.push(format!("{},CONSUMO,{},{},{}", id, s, r.pick(&fuels), fmt(&raw(&mut r, 2.0))));
                    if r.next() % 3 == 0 { l.push(format!("{},AUX,{}", id, fmt(&raw(&mut r, 0.05)))); }
                }
                2 => {
                    let s = *r.pick(&epb[..3]);
                    let el = raw(&mut r, 1.0);
                    let amb: Vec<f32> = el.iter().map(|x| x * 2.0).collect();
                    l.push(format!("{},CONSUMO,{},ELECTRICIDAD,{}", id, s, fmt(&el)));
                    l.push(format!("{},CONSUMO,{},EAMBIENTE,{}", id, s, fmt(&amb)));
                    match r.next() % 4 {
                        0 => l.push(format!("{},PRODUCCION,EAMBIENTE,{}", id, fmt(&amb))),
                        1 => l.push(format!("{},PRODUCCION,EAMBIENTE,{}", id, fmt(&amb.iter().map(|x| x * 0.5).collect::<Vec<_>>()))),
                        2 => l.push(format!("{},PRODUCCION,EAMBIENTE,{}", id, fmt(&raw(&mut r, 3.0)))),
                        _ => {}
                    }
                }
                3 => {
                    l.push(format!("{},CONSUMO,ACS,TERMOSOLAR,{}", id, fmt(&raw(&mut r, 1.0))));
                    if r.next() % 2 == 0 { l.push(format!("{},PRODUCCION,TERMOSOLAR,{}", id, fmt(&raw(&mut r, 1.5)))); }
                }
                4 => {
                    let mut el = raw(&mut r, 1.0);
                    let ratio = 2.0 + (r.next() % 4) as f32;
                    let fuel_t: Vec<f32> = el.iter().map(|x| x * ratio).collect();
                    // one time in four the unit burns fuel in a step in which it delivers no electricity
                    if r.next() % 4 == 0 { let i = (r.next() % ns as u64) as usize; el[i] = 0.0; }
                    l.push(format!("{},CONSUMO,COGEN,{},{}", id, r.pick(&cgn_fuels), fmt(&fuel_t)));
                    if r.next() % 3 == 0 {
                        l.push(format!("{},PRODUCCION,EL_COGEN,{}", id, fmt(&el.iter().map(|x| x * 0.25).collect::<Vec<_>>())));
                        l.push(format!("{},PRODUCCION,EL_COGEN,{}", id, fmt(&el.iter().map(|x| x * 0.75).collect::<Vec<_>>())));
                    } else {
                        l.push(format!("{},PRODUCCION,EL_COGEN,{}", id, fmt(&el)));
                    }
                }
                _ => {
                    let cr = *r.pick(&["ELECTRICIDAD", "ELECTRICIDAD", "ELECTRICIDAD", "EAMBIENTE", "TERMOSOLAR", "GASNATURAL"]);
                    l.push(format!("{},CONSUMO,NEPB,{},{}", id, cr, fmt(&raw(&mut r, 1.0))));
                }
            }
        }
        if r.next() % 5 != 0 { l.push(format!("0,CONSUMO,{},ELECTRICIDAD,{}", r.pick(&epb), fmt(&raw(&mut r, 1.0)))); }
        if r.next() % 5 < 3 { l.push(format!("8,PRODUCCION,EL_INSITU,{}", fmt(&raw(&mut r, 1.0)))); }
        if r.next() % 3 == 0 { l.push(format!("DEMANDA,{},{}", r.pick(&epb[..3]), fmt(&raw(&mut r, 3.0)))); }
        // random line order (the result must not depend on it; the predicates do not either)
        for i in (1..l.len()).rev() { let j = (r.next() % (i as u64 + 1)) as usize; l.swap(i, j); }
        out.push(l.join("\n"));
    }
    out
}
