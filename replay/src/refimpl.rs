//! C02 bounded stand-in: the EN ISO 52000-1 balance written a second time, from the formulas of the standard and the documented
//! assumptions of the property statement, in f64 and with its own data model (only the public *data* of the crate is read: the fields
//! of the components and of the prepared weighting factors; none of its predicates, accessors, operators or balance functions).
//!
//! Assumptions of the property statement, as implemented here: constant factors; on-site electricity is allocated before cogenerated
//! electricity when both are declared; export factors are averaged by each source's share of the exported energy; the step A factor
//! of cogenerated electricity is the weighted cogeneration input divided by the cogenerated electricity (both over the period); service
//! shares by reverse calculation (E.3.6). Two conventions of the code are taken over because the statement is silent on them and they
//! do not change a result where production is above 1 Wh: a step's production counts as "none" below 1e-3 kWh when it is shared out
//! between sources; an auxiliary component whose service is not an EPB service is a non-EPB use (see known finding D11).
use cteepbd::types::{Carrier, Dest, Energy, EnergyPerformance, ProdSource, Service, Source, Step};
use cteepbd::{Components, Factors};
use std::collections::BTreeMap;

type R3 = [f64; 3];
fn add(a: R3, b: R3) -> R3 { [a[0] + b[0], a[1] + b[1], a[2] + b[2]] }
fn sub(a: R3, b: R3) -> R3 { [a[0] - b[0], a[1] - b[1], a[2] - b[2]] }
fn mul(a: R3, k: f64) -> R3 { [a[0] * k, a[1] * k, a[2] * k] }

fn epb(s: Service) -> bool { matches!(s, Service::ACS | Service::CAL | Service::REF | Service::VEN | Service::ILU) }
fn carrier_of(p: ProdSource) -> Carrier {
    match p { ProdSource::EL_INSITU | ProdSource::EL_COGEN => Carrier::ELECTRICIDAD, ProdSource::TERMOSOLAR => Carrier::TERMOSOLAR, ProdSource::EAMBIENTE => Carrier::EAMBIENTE }
}
fn source_of(p: ProdSource) -> Source { if p == ProdSource::EL_COGEN { Source::COGEN } else { Source::INSITU } }

#[derive(Default, Clone, Debug)]
pub struct RefCarrier {
    pub epus_t: Vec<f64>, pub epus_by_srv: BTreeMap<String, f64>, pub nepus_an: f64, pub cgnus_an: f64,
    pub prod_an: f64, pub prod_by_src: BTreeMap<String, f64>, pub used_t: Vec<f64>, pub used_by_src: BTreeMap<String, f64>, pub f_match: Vec<f64>,
    pub exp_an: f64, pub exp_grid: f64, pub exp_nepus: f64, pub del_grid_t: Vec<f64>, pub del_grid: f64, pub del_onst: f64, pub del_an: f64,
    pub we_del: R3, pub we_del_grid: R3, pub we_del_onst: R3, pub we_del_cgn: R3, pub we_exp_a: R3, pub we_exp_nepus_a: R3, pub we_exp_grid_a: R3, pub we_exp_ab: R3, pub we_exp_nepus_ab: R3, pub we_exp_grid_ab: R3, pub we_exp: R3, pub a: R3, pub b: R3, pub a_by_srv: BTreeMap<String, R3>, pub b_by_srv: BTreeMap<String, R3>,
}
#[derive(Default, Clone, Debug)]
pub struct RefResult { pub cr: BTreeMap<String, RefCarrier>, pub a: R3, pub b: R3, pub a_by_srv: BTreeMap<String, R3>, pub b_by_srv: BTreeMap<String, R3>, pub rer: f64,
    pub used_epus: f64, pub prod_an: f64, pub del_an: f64, pub del_grid: f64, pub exp_an: f64, pub exp_grid: f64, pub exp_nepus: f64 }

struct Fac { list: Vec<(Carrier, Source, Dest, Step, R3)> }
impl Fac {
    fn get(&self, c: Carrier, s: Source, d: Dest, st: Step) -> Result<R3, String> {
        self.list.iter().find(|f| f.0 == c && f.1 == s && f.2 == d && f.3 == st).map(|f| f.4).ok_or_else(|| format!("factor {:?} {:?} {:?} {:?} missing", c, s, d, st))
    }
}

pub fn evaluate(comps: &Components, w: &Factors, k_exp: f64, lm: bool) -> Result<RefResult, String> {
    let n = comps.data.iter().map(|e| match e { Energy::Used(x) => x.values.len(), Energy::Prod(x) => x.values.len(), Energy::Aux(x) => x.values.len(), Energy::Out(x) => x.values.len() }).next().unwrap_or(0);
    let mut fac = Fac { list: w.wdata.iter().map(|f| (f.carrier, f.source, f.dest, f.step, [f.ren as f64, f.nren as f64, f.co2 as f64])).collect() };
    // derived factors of cogenerated electricity
    let mut el_cgn = 0.0f64;
    let mut has_cgn = false;
    let mut fuel: BTreeMap<String, (Carrier, f64)> = BTreeMap::new();
    for e in &comps.data {
        match e {
            Energy::Prod(p) if p.source == ProdSource::EL_COGEN => { has_cgn = true; el_cgn += p.values.iter().map(|v| *v as f64).sum::<f64>(); }
            Energy::Used(u) if u.service == Service::COGEN => { fuel.entry(format!("{:?}", u.carrier)).or_insert((u.carrier, 0.0)).1 += u.values.iter().map(|v| *v as f64).sum::<f64>(); }
            _ => {}
        }
    }
    if has_cgn {
        if fuel.is_empty() { return Err("cogeneration without input".into()); }
        let mut f_a = [0.0; 3];
        for (c, q) in fuel.values() { f_a = add(f_a, mul(fac.get(*c, Source::RED, Dest::SUMINISTRO, Step::A)?, if el_cgn > 0.0 { q / el_cgn } else { 0.0 })); }
        let grid = fac.get(Carrier::ELECTRICIDAD, Source::RED, Dest::SUMINISTRO, Step::A)?;
        for (d, st, v) in [(Dest::SUMINISTRO, Step::A, f_a), (Dest::A_NEPB, Step::A, f_a), (Dest::A_RED, Step::A, f_a), (Dest::A_NEPB, Step::B, grid), (Dest::A_RED, Step::B, grid)] {
            fac.list.push((Carrier::ELECTRICIDAD, Source::COGEN, d, st, v));
        }
    }
    // carriers
    let mut carriers: Vec<Carrier> = vec![];
    for e in &comps.data {
        let c = match e { Energy::Used(u) => Some(u.carrier), Energy::Prod(p) => Some(carrier_of(p.source)), Energy::Aux(_) => Some(Carrier::ELECTRICIDAD), Energy::Out(_) => None };
        if let Some(c) = c { if !carriers.contains(&c) { carriers.push(c); } }
    }
    let mut out = RefResult::default();
    for cr in carriers {
        let mut r = RefCarrier { epus_t: vec![0.0; n], used_t: vec![0.0; n], ..Default::default() };
        let mut epus_srv_t: BTreeMap<String, Vec<f64>> = BTreeMap::new();
        let (mut nepus_t, mut cgnus_t) = (vec![0.0f64; n], vec![0.0f64; n]);
        let mut pr: Vec<(ProdSource, Vec<f64>)> = vec![];
        for e in &comps.data {
            let (c, srv, vals): (Carrier, Option<Service>, &Vec<f32>) = match e {
                Energy::Used(u) => (u.carrier, Some(u.service), &u.values),
                Energy::Aux(a) => (Carrier::ELECTRICIDAD, Some(a.service), &a.values),
                Energy::Prod(p) => (carrier_of(p.source), None, &p.values),
                Energy::Out(_) => continue,
            };
            if c != cr { continue; }
            let v: Vec<f64> = vals.iter().map(|x| *x as f64).collect();
            match (e, srv) {
                (Energy::Prod(p), _) => { if let Some(x) = pr.iter_mut().find(|x| x.0 == p.source) { for i in 0..n { x.1[i] += v[i]; } } else { pr.push((p.source, v)); } }
                (_, Some(s)) if epb(s) => { let t = epus_srv_t.entry(format!("{:?}", s)).or_insert_with(|| vec![0.0; n]); for i in 0..n { t[i] += v[i]; r.epus_t[i] += v[i]; } }
                (Energy::Used(_), Some(Service::COGEN)) => for i in 0..n { cgnus_t[i] += v[i]; },
                _ => for i in 0..n { nepus_t[i] += v[i]; },
            }
        }
        let pr_t: Vec<f64> = (0..n).map(|i| pr.iter().map(|p| p.1[i]).sum()).collect();
        r.f_match = (0..n).map(|i| {
            if !lm { return 1.0; }
            let x = if r.epus_t[i] > 0.0 { pr_t[i] / r.epus_t[i] } else { 0.0 };
            if x <= 0.0 { 1.0 } else { (x + 1.0 / x - 1.0) / (x + 1.0 / x) }
        }).collect();
        // allocation of the production to the EPB uses (9)-(14)
        let mut used_src_t: Vec<(ProdSource, Vec<f64>)> = vec![];
        let has = |s: ProdSource| pr.iter().any(|p| p.0 == s);
        if cr == Carrier::ELECTRICIDAD && has(ProdSource::EL_INSITU) && has(ProdSource::EL_COGEN) {
            let mut left = r.epus_t.clone();
            for s in [ProdSource::EL_INSITU, ProdSource::EL_COGEN] {
                let p = &pr.iter().find(|p| p.0 == s).unwrap().1;
                let mut u = vec![0.0; n];
                for i in 0..n { let m = p[i].min(left[i]); left[i] -= m; u[i] = m * r.f_match[i]; r.used_t[i] += u[i]; }
                used_src_t.push((s, u));
            }
        } else {
            for i in 0..n { r.used_t[i] = r.f_match[i] * r.epus_t[i].min(pr_t[i]); }
            for (s, p) in &pr { used_src_t.push((*s, (0..n).map(|i| if pr_t[i] > 1e-3 { r.used_t[i] * p[i] / pr_t[i] } else { 0.0 }).collect())); }
        }
        let sum = |v: &Vec<f64>| -> f64 { v.iter().sum() };
        for (s, t) in &epus_srv_t { r.epus_by_srv.insert(s.clone(), sum(t)); }
        let epus_an = sum(&r.epus_t);
        r.nepus_an = sum(&nepus_t); r.cgnus_an = sum(&cgnus_t); r.prod_an = sum(&pr_t);
        for (s, p) in &pr { r.prod_by_src.insert(format!("{:?}", s), sum(p)); }
        for (s, u) in &used_src_t { r.used_by_src.insert(format!("{:?}", s), sum(u)); }
        // exported and delivered energy (2)-(8)
        let exp_t: Vec<f64> = (0..n).map(|i| pr_t[i] - r.used_t[i]).collect();
        let exp_nepus_t: Vec<f64> = (0..n).map(|i| exp_t[i].min(nepus_t[i])).collect();
        r.exp_nepus = sum(&exp_nepus_t);
        r.exp_grid = (0..n).map(|i| exp_t[i] - exp_nepus_t[i]).sum();
        r.exp_an = r.exp_nepus + r.exp_grid;
        r.del_grid_t = (0..n).map(|i| r.epus_t[i] - r.used_t[i]).collect();
        r.del_grid = sum(&r.del_grid_t);
        r.del_onst = pr.iter().filter(|p| p.0 != ProdSource::EL_COGEN).map(|p| sum(&p.1)).sum();
        r.del_an = r.del_grid + r.del_onst + r.cgnus_an;
        // weighted energy (20)-(28)
        let grid_a = fac.get(cr, Source::RED, Dest::SUMINISTRO, Step::A)?;
        r.we_del_grid = mul(grid_a, r.del_grid);
        r.we_del_cgn = mul(grid_a, r.cgnus_an);
        if r.del_onst != 0.0 { r.we_del_onst = mul(fac.get(cr, Source::INSITU, Dest::SUMINISTRO, Step::A)?, r.del_onst); }
        r.we_del = add(add(r.we_del_grid, r.we_del_cgn), r.we_del_onst);
        if r.exp_an != 0.0 {
            let favg = |d: Dest, st: Step| -> Result<R3, String> {
                let mut f = [0.0; 3];
                for (s, p) in &pr {
                    let exp_s = sum(p) - sum(&used_src_t.iter().find(|u| u.0 == *s).unwrap().1);
                    f = add(f, mul(fac.get(cr, source_of(*s), d, st)?, exp_s / r.exp_an));
                }
                Ok(f)
            };
            let z = [0.0; 3];
            let (an, ag) = (if r.exp_nepus == 0.0 { z } else { favg(Dest::A_NEPB, Step::A)? }, if r.exp_grid == 0.0 { z } else { favg(Dest::A_RED, Step::A)? });
            let (bn, bg) = (if r.exp_nepus == 0.0 { z } else { favg(Dest::A_NEPB, Step::B)? }, if r.exp_grid == 0.0 { z } else { favg(Dest::A_RED, Step::B)? });
            r.we_exp_nepus_a = mul(an, r.exp_nepus);
            r.we_exp_grid_a = mul(ag, r.exp_grid);
            r.we_exp_a = add(r.we_exp_nepus_a, r.we_exp_grid_a);
            r.we_exp_nepus_ab = mul(sub(bn, an), r.exp_nepus);
            r.we_exp_grid_ab = mul(sub(bg, ag), r.exp_grid);
            r.we_exp_ab = add(r.we_exp_nepus_ab, r.we_exp_grid_ab);
            r.we_exp = add(r.we_exp_a, mul(r.we_exp_ab, k_exp));
        }
        r.a = sub(r.we_del, r.we_exp_a);
        r.b = sub(r.we_del, r.we_exp);
        for (s, q) in &r.epus_by_srv {
            let share = if epus_an > 0.0 { q / epus_an } else { 0.0 };
            r.a_by_srv.insert(s.clone(), mul(r.a, share));
            r.b_by_srv.insert(s.clone(), mul(r.b, share));
            let e = out.a_by_srv.entry(s.clone()).or_insert([0.0; 3]); *e = add(*e, mul(r.a, share));
            let e = out.b_by_srv.entry(s.clone()).or_insert([0.0; 3]); *e = add(*e, mul(r.b, share));
        }
        out.a = add(out.a, r.a); out.b = add(out.b, r.b);
        out.used_epus += epus_an; out.prod_an += r.prod_an; out.del_an += r.del_an; out.del_grid += r.del_grid; out.exp_an += r.exp_an; out.exp_grid += r.exp_grid; out.exp_nepus += r.exp_nepus;
        out.cr.insert(format!("{:?}", cr), r);
    }
    let tot = out.b[0] + out.b[1];
    out.rer = if tot > 0.0 { out.b[0] / tot } else { 0.0 };
    Ok(out)
}

/// first figure of the crate's result that differs from the reference evaluation (`noise`: absolute rounding allowance in kWh)
pub fn compare(ep: &EnergyPerformance, r: &RefResult, noise: f64) -> Option<String> {
    let close = |a: f64, b: f64| a.is_finite() && b.is_finite() && (a - b).abs() <= 3e-4 * a.abs().max(b.abs()).max(1.0) + noise;
    let c3 = |name: &str, x: cteepbd::types::RenNrenCo2, y: R3| -> Option<String> {
        if close(x.ren as f64, y[0]) && close(x.nren as f64, y[1]) && close(x.co2 as f64, y[2]) { None } else { Some(format!("{} = {{ ren {}, nren {}, co2 {} }}, the equations give {{ ren {:.4}, nren {:.4}, co2 {:.4} }}", name, x.ren, x.nren, x.co2, y[0], y[1], y[2])) }
    };
    let c1 = |name: &str, x: f32, y: f64| -> Option<String> { if close(x as f64, y) { None } else { Some(format!("{} = {}, the equations give {:.4}", name, x, y)) } };
    if ep.balance_cr.len() != r.cr.len() { return Some(format!("{} carriers in the result, {} in the declared components", ep.balance_cr.len(), r.cr.len())); }
    for (cr, b) in &ep.balance_cr {
        let name = format!("{:?}", cr);
        let rc = match r.cr.get(&name) { Some(x) => x, None => return Some(format!("carrier {} in the result but not in the components", name)) };
        let n = rc.epus_t.len();
        if b.used.epus_t.len() != n || b.prod.epus_t.len() != n || b.del.grid_t.len() != n || b.f_match.len() != n { return Some(format!("{}: per-step series of the wrong length", name)); }
        for i in 0..n {
            if let Some(w) = c1(&format!("{} step {}: EPB use", name, i), b.used.epus_t[i], rc.epus_t[i])
                .or_else(|| c1(&format!("{} step {}: produced energy used by EPB services", name, i), b.prod.epus_t[i], rc.used_t[i]))
                .or_else(|| c1(&format!("{} step {}: energy delivered by the grid", name, i), b.del.grid_t[i], rc.del_grid_t[i])) { return Some(w); }
            if !( (b.f_match[i] as f64 - rc.f_match[i]).abs() <= 1e-4 ) { return Some(format!("{} step {}: load matching factor {} , formula (32) gives {:.5}", name, i, b.f_match[i], rc.f_match[i])); }
        }
        let an = |v: &Vec<f64>| -> f64 { v.iter().sum() };
        for (what, x, y) in [("EPB use", b.used.epus_an, an(&rc.epus_t)), ("non-EPB use", b.used.nepus_an, rc.nepus_an), ("cogeneration input", b.used.cgnus_an, rc.cgnus_an), ("production", b.prod.an, rc.prod_an),
            ("produced and used", b.prod.epus_an, an(&rc.used_t)), ("exported", b.exp.an, rc.exp_an), ("exported to the grid", b.exp.grid_an, rc.exp_grid), ("exported to non-EPB uses", b.exp.nepus_an, rc.exp_nepus),
            ("delivered by the grid", b.del.grid_an, rc.del_grid), ("delivered on site", b.del.onst_an, rc.del_onst), ("delivered", b.del.an, rc.del_an)] {
            if let Some(w) = c1(&format!("{}: {}", name, what), x, y) { return Some(w); }
        }
        for (s, y) in &rc.prod_by_src { let x = b.prod.by_src_an.iter().find(|(k, _)| format!("{:?}", k) == *s).map(|(_, v)| *v); if x.map(|x| close(x as f64, *y)) != Some(true) { return Some(format!("{}: production of {} = {:?}, declared {:.4}", name, s, x, y)); } }
        for (s, y) in &rc.used_by_src { let x = b.prod.epus_by_src_an.iter().find(|(k, _)| format!("{:?}", k) == *s).map(|(_, v)| *v); if x.map(|x| close(x as f64, *y)) != Some(true) { return Some(format!("{}: production of {} used by EPB services = {:?}, the equations give {:.4}", name, s, x, y)); } }
        for (s, y) in &rc.epus_by_srv { let x = b.used.epus_by_srv_an.iter().find(|(k, _)| format!("{:?}", k) == *s).map(|(_, v)| *v); if x.map(|x| close(x as f64, *y)) != Some(true) { return Some(format!("{}: EPB use of service {} = {:?}, declared {:.4}", name, s, x, y)); } }
        if let Some(w) = c3(&format!("{}: weighted energy delivered by the grid", name), b.we.del_grid, rc.we_del_grid).or_else(|| c3(&format!("{}: weighted energy delivered on site", name), b.we.del_onst, rc.we_del_onst))
            .or_else(|| c3(&format!("{}: weighted cogeneration input", name), b.we.del_cgn, rc.we_del_cgn))
            .or_else(|| c3(&format!("{}: step A weighted energy exported to non-EPB uses (24)", name), b.we.exp_nepus_a, rc.we_exp_nepus_a)).or_else(|| c3(&format!("{}: step A weighted energy exported to the grid (25)", name), b.we.exp_grid_a, rc.we_exp_grid_a))
            .or_else(|| c3(&format!("{}: step A-to-B term of the energy exported to non-EPB uses (27)", name), b.we.exp_nepus_ab, rc.we_exp_nepus_ab)).or_else(|| c3(&format!("{}: step A-to-B term of the energy exported to the grid (28)", name), b.we.exp_grid_ab, rc.we_exp_grid_ab))
            .or_else(|| c3(&format!("{}: step A-to-B term of the exported energy (26)", name), b.we.exp_ab, rc.we_exp_ab)) { return Some(w); }
        if let Some(w) = c3(&format!("{}: weighted delivered energy", name), b.we.del, rc.we_del).or_else(|| c3(&format!("{}: weighted exported energy, step A", name), b.we.exp_a, rc.we_exp_a))
            .or_else(|| c3(&format!("{}: weighted exported energy", name), b.we.exp, rc.we_exp)).or_else(|| c3(&format!("{}: step A", name), b.we.a, rc.a)).or_else(|| c3(&format!("{}: step B", name), b.we.b, rc.b)) { return Some(w); }
        for (s, y) in &rc.a_by_srv { match b.we.a_by_srv.iter().find(|(k, _)| format!("{:?}", k) == *s) { Some((_, x)) => if let Some(w) = c3(&format!("{}: step A of service {}", name, s), *x, *y) { return Some(w); }, None => return Some(format!("{}: no step A for service {}", name, s)) } }
        for (s, y) in &rc.b_by_srv { match b.we.b_by_srv.iter().find(|(k, _)| format!("{:?}", k) == *s) { Some((_, x)) => if let Some(w) = c3(&format!("{}: step B of service {}", name, s), *x, *y) { return Some(w); }, None => return Some(format!("{}: no step B for service {}", name, s)) } }
    }
    let b = &ep.balance;
    for (what, x, y) in [("EPB use", b.used.epus, r.used_epus), ("production", b.prod.an, r.prod_an), ("delivered", b.del.an, r.del_an), ("delivered by the grid", b.del.grid, r.del_grid),
        ("exported", b.exp.an, r.exp_an), ("exported to the grid", b.exp.grid, r.exp_grid), ("exported to non-EPB uses", b.exp.nepus, r.exp_nepus)] {
        if let Some(w) = c1(&format!("building: {}", what), x, y) { return Some(w); }
    }
    if let Some(w) = c3("building: step A", b.we.a, r.a).or_else(|| c3("building: step B", b.we.b, r.b)) { return Some(w); }
    for (s, y) in &r.a_by_srv { match b.we.a_by_srv.iter().find(|(k, _)| format!("{:?}", k) == *s) { Some((_, x)) => if let Some(w) = c3(&format!("building: step A of service {}", s), *x, *y) { return Some(w); }, None => return Some(format!("building: no step A for service {}", s)) } }
    for (s, y) in &r.b_by_srv { match b.we.b_by_srv.iter().find(|(k, _)| format!("{:?}", k) == *s) { Some((_, x)) => if let Some(w) = c3(&format!("building: step B of service {}", s), *x, *y) { return Some(w); }, None => return Some(format!("building: no step B for service {}", s)) } }
    let k = 1.0 / ep.arearef as f64;
    if let Some(w) = c3("per m2: step A", ep.balance_m2.we.a, mul(r.a, k)).or_else(|| c3("per m2: step B", ep.balance_m2.we.b, mul(r.b, k))) { return Some(w); }
    let tot = r.b[0] + r.b[1];
    // the share is a ratio whose denominator may be a difference of large terms (exports at k_exp > 0): the allowance follows its conditioning
    let cond = (r.b[0].abs() + r.b[1].abs()) / tot.max(1e-9);
    if tot > 1e-2 && noise / tot < 1e-3 && !((ep.rer as f64 - r.rer).abs() <= (3e-4 + noise / tot) * cond.max(1.0) * r.rer.abs().max(1.0)) { return Some(format!("RER = {}, the equations give {:.5}", ep.rer, r.rer)); }
    None
}
