//! Bounded stand-ins for the functions outside the Verus front end (DESIGN 2.5): the SAME contracts, evaluated
//! exhaustively on the real functions over small stated domains. Labelled `bounded`, never counted as proof.
use crate::gen::Rng;
use cteepbd::{cte, energy_performance, types::*, Components, Factors, UserWF};
use serde_json::{json, Value};

fn eq(a: f32, b: f32) -> bool {
    (a - b).abs() <= 2e-4 * a.abs().max(b.abs()).max(1.0)
}
fn veq(a: &[f32], b: &[f32]) -> bool {
    a.len() == b.len() && a.iter().zip(b).all(|(x, y)| eq(*x, *y))
}
fn fmtv(v: &[f32]) -> String {
    v.iter().map(|x| format!("{}", x)).collect::<Vec<_>>().join(",")
}
pub struct Rep {
    pub evals: usize,
    pub nontrivial: usize,
    pub failures: Vec<Value>,
    pub samples: Vec<Value>,
}
impl Rep {
    fn fail(&mut self, clause: &str, input: &str, what: String) {
        if self.failures.iter().filter(|f| f["clause"] == clause).count() < 3 {
            self.failures.push(json!({"clause": clause, "components": input, "what": what}));
        }
    }
}

// ------------------------------------------------------------------------------------------------ C06
/// systems with auxiliaries: system 1 has the services in `srvs` (electric use + output per service), system 2 is a
/// single-service system with its own AUX (must stay untouched), 1 or 2 steps
pub fn c06(rep: &mut Rep) {
    let outs: [&[f32]; 6] = [&[30.0], &[10.0], &[-10.0], &[30.0, 0.0], &[10.0, 0.0], &[0.0, 20.0]];
    let auxs: [&[f32]; 3] = [&[4.0], &[4.0, 2.0], &[0.0, 3.0]];
    let srv_sets: [&[&str]; 4] = [&["CAL"], &["CAL", "ACS"], &["CAL", "REF"], &["CAL", "ACS", "REF"]];
    for srvs in srv_sets {
        for (oi, _) in outs.iter().enumerate() {
            for aux in auxs {
                for with_sys2 in [false, true] {
                    for only_elec_aux in [false, true] {
                        let n = aux.len();
                        let mut lines = vec![];
                        let mut q: Vec<(String, Vec<f32>)> = vec![];
                        for (si, s) in srvs.iter().enumerate() {
                            let o = outs[(oi + si) % outs.len()];
                            let mut ov: Vec<f32> = (0..n).map(|i| o[i % o.len()]).collect();
                            if *s == "REF" { ov = ov.iter().map(|v| -v.abs()).collect(); } else { ov = ov.iter().map(|v| v.abs()).collect(); }
                            let carrier = if only_elec_aux { "GASNATURAL" } else { "ELECTRICIDAD" };
                            let carrier = if *s == "REF" && only_elec_aux { "BIOMASA" } else { carrier };
                            lines.push(format!("1,CONSUMO,{},{},{}", s, carrier, fmtv(&vec![10.0; n])));
                            lines.push(format!("1,SALIDA,{},{}", s, fmtv(&ov)));
                            q.push((s.to_string(), ov));
                        }
                        lines.push(format!("1,AUX,{}", fmtv(aux)));
                        if with_sys2 {
                            lines.push(format!("2,CONSUMO,CAL,GASNATURAL,{}", fmtv(&vec![50.0; n])));
                            lines.push(format!("2,AUX,{}", fmtv(&vec![5.0; n])));
                        }
                        let text = lines.join("\n");
                        rep.evals += 1;
                        let comps: Components = match text.parse() {
                            Ok(c) => c,
                            Err(e) => {
                                // legitimate only when there is auxiliary energy and no output at all to share it by
                                let tot_out: f32 = q.iter().map(|(_, v)| v.iter().map(|x| x.abs()).sum::<f32>()).sum();
                                if !(srvs.len() > 1 && tot_out == 0.0) { rep.fail("C06.no_spurious_error", &text, format!("rejected: {}", e)); }
                                continue;
                            }
                        };
                        if srvs.len() > 1 { rep.nontrivial += 1; }
                        let aux_of = |id: i32| -> Vec<(Service, Vec<f32>)> {
                            comps.data.iter().filter_map(|c| if let Energy::Aux(e) = c { if e.id == id { Some((e.service, e.values.clone())) } else { None } } else { None }).collect()
                        };
                        let a1 = aux_of(1);
                        // conservation per step, non-negativity
                        for i in 0..n {
                            let s: f32 = a1.iter().map(|(_, v)| v[i]).sum();
                            let out_i: f32 = q.iter().map(|(_, v)| v[i].abs()).sum();
                            if !eq(s, aux[i]) {
                                // known finding D8 is precisely "nothing assigned" at such a step; any other value there (NaN included) is a new failure
                                if srvs.len() > 1 && out_i == 0.0 && aux[i] > 0.0 && s == 0.0 {
                                    rep.fail("C06.step_zero_output", &text, format!("step {}: auxiliary energy {} declared but {} assigned (the system has no output at that step)", i, aux[i], s));
                                } else {
                                    rep.fail("C06.conserved", &text, format!("step {}: auxiliary energy {} declared but {} assigned", i, aux[i], s));
                                }
                            }
                            if a1.iter().any(|(_, v)| !(v[i] >= -1e-6)) { rep.fail("C06.share_nonneg", &text, format!("step {}: negative auxiliary share", i)); }
                        }
                        if srvs.len() == 1 {
                            let want: Service = srvs[0].parse().unwrap();
                            if a1.iter().any(|(s, _)| *s != want) { rep.fail("C06.single_service", &text, "single-service system: auxiliary energy not all on its service".into()); }
                        } else {
                            for (s, ov) in &q {
                                let srv: Service = s.parse().unwrap();
                                for i in 0..n {
                                    let tot: f32 = q.iter().map(|(_, v)| v[i].abs()).sum();
                                    if tot == 0.0 { continue; }
                                    let want = aux[i] * ov[i].abs() / tot;
                                    let got: f32 = a1.iter().filter(|(x, _)| *x == srv).map(|(_, v)| v[i]).sum();
                                    if !eq(got, want) { rep.fail("C06.proportional", &text, format!("step {} service {}: share {} instead of {} (aux {} x |{}| / {})", i, s, got, want, aux[i], ov[i], tot)); }
                                }
                            }
                        }
                        if with_sys2 {
                            let a2 = aux_of(2);
                            if !(a2.len() == 1 && a2[0].0 == Service::CAL && veq(&a2[0].1, &vec![5.0; n])) { rep.fail("C06.other_ids_unchanged", &text, format!("auxiliaries of system 2 changed: {:?}", a2)); }
                        }
                        // counted in the balance as EPB electricity use
                        let w = crate::factors("PENINSULA");
                        if let Ok(ep) = energy_performance(&comps, &w, 0.0, 1.0, false) {
                            let el_use: f32 = comps.data.iter().filter_map(|c| match c { Energy::Used(e) if e.carrier == Carrier::ELECTRICIDAD && e.service.is_epb() => Some(e.values.iter().sum::<f32>()), Energy::Aux(e) if e.service.is_epb() => Some(e.values.iter().sum::<f32>()), _ => None }).sum();
                            let got = ep.balance_cr.get(&Carrier::ELECTRICIDAD).map(|b| b.used.epus_an).unwrap_or(0.0);
                            if !eq(got, el_use) { rep.fail("C06.counted_in_balance", &text, format!("EPB electricity use {} in the balance, {} declared (incl. auxiliaries)", got, el_use)); }
                        } else {
                            rep.fail("C06.counted_in_balance", &text, "evaluation failed".into());
                        }
                        if rep.evals % 97 == 5 && rep.samples.len() < 4 { rep.samples.push(json!({"components": text})); }
                    }
                }
            }
        }
    }
}

/// hand-written files (C05): interleaved systems, several demand lines per service
pub fn c05_special(rep: &mut Rep) {
    for text in [
        "1,CONSUMO,CAL,EAMBIENTE,9,12\n2,CONSUMO,CAL,EAMBIENTE,5,5\n1,CONSUMO,ACS,EAMBIENTE,4,12\n1,PRODUCCION,EAMBIENTE,4,30\n2,PRODUCCION,EAMBIENTE,1,9\n3,CONSUMO,ILU,ELECTRICIDAD,1,1",
        "-1,CONSUMO,ACS,TERMOSOLAR,30\n0,CONSUMO,ACS,TERMOSOLAR,10\n-1,CONSUMO,CAL,TERMOSOLAR,30\n-1,PRODUCCION,TERMOSOLAR,25\n0,CONSUMO,CAL,TERMOSOLAR,2\n1,CONSUMO,ILU,ELECTRICIDAD,1",
        "DEMANDA,CAL,100,50,0\nDEMANDA,ACS,20,20,20\nDEMANDA,CAL,30,10,5\nDEMANDA,ACS,10,10,10\nDEMANDA,REF,0,0,7\n1,CONSUMO,CAL,GASNATURAL,150,70,6\n1,CONSUMO,ACS,GASNATURAL,35,35,35",
        // a demand declared as zero in every step
        "DEMANDA,CAL,0,0\nDEMANDA,ACS,5,5\n1,CONSUMO,ACS,GASNATURAL,6,6",
        // demand lines that repeat: two identical zones, a third line equal to the running total of the first two
        "DEMANDA,CAL,100,50\nDEMANDA,CAL,100,50\nDEMANDA,REF,50,10\nDEMANDA,REF,100,30\nDEMANDA,REF,150,40\nDEMANDA,ACS,10,20\nDEMANDA,ACS,10,20\nDEMANDA,ACS,10,20\n1,CONSUMO,CAL,GASNATURAL,150,70",
        // free-text comments that contain words of the format itself (header words, tags, the metadata marker)
        "1,CONSUMO,CAL,EAMBIENTE,9,12 # vector ambiente captado por la BdC\n1,CONSUMO,CAL,ELECTRICIDAD,3,4 # CONSUMO de la bomba, vector electricidad\n2,CONSUMO,ACS,TERMOSOLAR,5,0 # PRODUCCION solar, tipo vector\nDEMANDA,ACS,12,13 # demanda del vector ACS, #META no\n2,PRODUCCION,TERMOSOLAR,1,0 # vector,tipo,src_dst\n3,CONSUMO,ILU,ELECTRICIDAD,1,1 # DEMANDA, AUX, SALIDA",
        // declared production that carries the comment of the automatic completion (e.g. a file written out by the program and edited): surplus, no use, second line
        "1,CONSUMO,CAL,EAMBIENTE,100,50\n1,PRODUCCION,EAMBIENTE,120,80 # Equilibrado de consumo sin producción declarada\n2,PRODUCCION,EAMBIENTE,7,7 # Equilibrado de consumo sin producción declarada\n3,CONSUMO,ACS,TERMOSOLAR,10,10\n3,PRODUCCION,TERMOSOLAR,4,4 # Equilibrado de consumo sin producción declarada\n3,PRODUCCION,TERMOSOLAR,1,1\n4,CONSUMO,ILU,ELECTRICIDAD,1,1",
    ] {
        rep.evals += 1;
        rep.nontrivial += 1;
        let comps: Components = match text.parse() { Ok(c) => c, Err(e) => { rep.fail("C05.special", text, format!("rejected: {}", e)); continue } };
        // declared lines, parsed independently
        let mut decl: Vec<(i32, String, bool, Vec<f32>)> = vec![]; // id, carrier, is_prod, values
        let mut needs: std::collections::HashMap<String, Vec<f32>> = Default::default();
        for l in text.lines() {
            let f: Vec<&str> = l.split('#').next().unwrap_or("").split(',').map(|x| x.trim()).collect();
            let vals = |from: usize| -> Vec<f32> { f[from..].iter().filter_map(|x| x.parse().ok()).collect() };
            if f[0] == "DEMANDA" { let e = needs.entry(f[1].to_string()).or_insert_with(|| vec![0.0; vals(2).len()]); for (a, b) in e.iter_mut().zip(vals(2)) { *a += b; } continue; }
            let id: i32 = f[0].parse().unwrap_or(0);
            if f[1] == "CONSUMO" && (f[3] == "EAMBIENTE" || f[3] == "TERMOSOLAR") { decl.push((id, f[3].to_string(), false, vals(4))); }
            if f[1] == "PRODUCCION" && (f[2] == "EAMBIENTE" || f[2] == "TERMOSOLAR") { decl.push((id, f[2].to_string(), true, vals(3))); }
        }
        for (srv, want) in &needs {
            let got = match srv.as_str() { "CAL" => comps.needs.CAL.clone(), "ACS" => comps.needs.ACS.clone(), _ => comps.needs.REF.clone() };
            if got.as_ref().map(|g| veq(g, want)) != Some(true) { rep.fail("C05.demand_kept", text, format!("demand of {}: {:?} stored, {:?} declared in total", srv, got, want)); }
        }
        let keys: std::collections::BTreeSet<(i32, String)> = decl.iter().map(|d| (d.0, d.1.clone())).collect();
        for (id, cr) in keys {
            let n = decl[0].3.len();
            let sum = |prod: bool| -> Vec<f32> { let mut v = vec![0.0f32; n]; for d in decl.iter().filter(|d| d.0 == id && d.1 == cr && d.2 == prod) { for (a, b) in v.iter_mut().zip(&d.3) { *a += b; } } v };
            let (u, p) = (sum(false), sum(true));
            let want_total: Vec<f32> = u.iter().zip(&p).map(|(u, p)| p + (u - p).max(0.0)).collect();
            let carrier: Carrier = cr.parse().unwrap();
            let prods: Vec<&Vec<f32>> = comps.data.iter().filter_map(|c| match c { Energy::Prod(e) if e.id == id && Carrier::from(e.source) == carrier => Some(&e.values), _ => None }).collect();
            let mut got = vec![0.0f32; n];
            for v in &prods { for (a, b) in got.iter_mut().zip(v.iter()) { *a += b; } }
            if !veq(&got, &want_total) { rep.fail("C05.exact_completion", text, format!("system {} {}: production after completion {:?}, expected declared + max(0, use - declared) = {:?}", id, cr, got, want_total)); }
            let declared_lines = decl.iter().filter(|d| d.0 == id && d.1 == cr && d.2).count();
            let uncovered = u.iter().zip(&p).any(|(u, p)| u - p > 0.0);
            if prods.len() != declared_lines + uncovered as usize { rep.fail("C05.nothing_else", text, format!("system {} {}: {} production components after completion, {} declared{}", id, cr, prods.len(), declared_lines, if uncovered { " + 1 completing" } else { "" })); }
        }
    }
}

/// normalizing an already normalized set changes nothing: the hand-written buildings of the other predicates and the seeded buildings
/// (multi-service systems with outputs and auxiliaries, cogeneration, several systems per carrier); components compared as a multiset
/// of printed lines (the order of reassigned auxiliary components follows a hash map)
pub fn c05_idempotent(rep: &mut Rep, seed: u64) {
    let mut texts: Vec<String> = crate::gen::extras().iter().map(|s| s.to_string()).collect();
    texts.extend(crate::gen::random_texts(seed, crate::preds::scale()));
    texts.push("1,CONSUMO,CAL,ELECTRICIDAD,10,20\n1,CONSUMO,ACS,ELECTRICIDAD,5,5\n1,SALIDA,CAL,3,6\n1,SALIDA,ACS,1,2\n1,AUX,4,8\n2,CONSUMO,REF,ELECTRICIDAD,1,1\n2,AUX,1,1".to_string());
    // replay/inputs/d12_second_normalization.csv (known finding D12)
    texts.push("1,CONSUMO,CAL,EAMBIENTE,0.03\n1,CONSUMO,ACS,EAMBIENTE,0.03\n1,PRODUCCION,EAMBIENTE,0.01\n2,CONSUMO,ILU,ELECTRICIDAD,1".to_string());
    for t in &texts {
        let c1: Components = match t.parse() { Ok(c) => c, Err(_) => continue };
        rep.evals += 1;
        // (kind, system, service / carrier / source) -> values, in a stable order; values compared numerically (the printed form has two decimals)
        let items = |c: &Components| -> Vec<(String, Vec<f32>)> {
            let mut v: Vec<(String, Vec<f32>)> = c.data.iter().map(|e| match e {
                Energy::Used(u) => (format!("U {} {:?} {:?}", u.id, u.service, u.carrier), u.values.clone()),
                Energy::Prod(p) => (format!("P {} {:?}", p.id, p.source), p.values.clone()),
                Energy::Aux(a) => (format!("A {} {:?}", a.id, a.service), a.values.clone()),
                Energy::Out(o) => (format!("O {} {:?}", o.id, o.service), o.values.clone()),
            }).collect();
            v.sort_by(|a, b| a.0.cmp(&b.0));
            v
        };
        match c1.clone().normalize() {
            Ok(mut c2) => {
                // known finding D12: the second pass may append a production of rounding-noise size (declared + completion != use in f32);
                // such a component (every value below 1e-6 kWh, comment of the automatic completion) is reported under its own clause
                let before = c2.data.len();
                c2.data.retain(|e| !matches!(e, Energy::Prod(p) if p.comment.starts_with("Equilibrado de consumo") && p.values.iter().all(|v| v.abs() < 1e-6) && p.values.iter().any(|v| *v != 0.0)));
                if c2.data.len() != before { rep.fail("C05.idempotent.rounding_noise", t, format!("the second normalization appends {} production component(s) whose values are all below 1e-6 kWh", before - c2.data.len())); }
                let (a, b) = (items(&c1), items(&c2));
                let same = a.len() == b.len() && a.iter().zip(&b).all(|(x, y)| x.0 == y.0 && veq(&x.1, &y.1));
                if !same { let d = a.iter().zip(&b).find(|(x, y)| !(x.0 == y.0 && veq(&x.1, &y.1))).map(|(x, y)| format!("{} {:?} -> {} {:?}", x.0, x.1, y.0, y.1)).unwrap_or_default(); rep.fail("C05.idempotent", t, format!("normalizing the normalized set changes it ({} components before, {} after; first difference: {})", a.len(), b.len(), d)); }
            }
            Err(e) => rep.fail("C05.idempotent", t, format!("second normalization fails: {}", e)),
        }
    }
}

/// declared SALIDA / AUX lines are read as written (sign included); lines whose values are all zero (or add up to zero) are declared lines too
pub fn c05_outputs(rep: &mut Rep) {
    {
        let text = "1,CONSUMO,CAL,ELECTRICIDAD,10,10,10\n1,CONSUMO,REF,ELECTRICIDAD,0,0,0\n1,SALIDA,REF,0,0,0\n5,SALIDA,CAL,6,0,-6\n2,CONSUMO,ACS,TERMOSOLAR,0,0,0\n2,PRODUCCION,TERMOSOLAR,0,0,0\n3,PRODUCCION,EL_INSITU,0,0,0\n4,CONSUMO,NEPB,RED1,0,0,0\n1,AUX,0,0,0";
        rep.evals += 1;
        match text.parse::<Components>() {
            Ok(c) => {
                let n = |f: &dyn Fn(&Energy) -> bool| c.data.iter().filter(|e| f(e)).count();
                let (u, p, o, a) = (n(&|e| matches!(e, Energy::Used(_))), n(&|e| matches!(e, Energy::Prod(_))), n(&|e| matches!(e, Energy::Out(_))), n(&|e| matches!(e, Energy::Aux(_))));
                if (u, p, o, a) != (4, 2, 2, 1) { rep.fail("C05.zero_lines_kept", text, format!("{} uses, {} productions, {} outputs, {} auxiliaries after reading; 4, 2, 2, 1 declared (lines of zeros are declared lines)", u, p, o, a)); }
                if c.num_steps() != 3 { rep.fail("C05.zero_lines_kept", text, format!("{} steps after reading, 3 declared", c.num_steps())); }
            }
            Err(e) => rep.fail("C05.zero_lines_kept", text, format!("rejected: {}", e)),
        }
        let lone = "0,CONSUMO,ILU,ELECTRICIDAD,0,0,0,0";
        rep.evals += 1;
        match lone.parse::<Components>() { Ok(c) => if c.data.len() != 1 || c.num_steps() != 4 { rep.fail("C05.zero_lines_kept", lone, format!("{} components, {} steps after reading a single line of four zeros", c.data.len(), c.num_steps())); }, Err(e) => rep.fail("C05.zero_lines_kept", lone, format!("rejected: {}", e)) }
    }
    let text = "1,CONSUMO,CAL,ELECTRICIDAD,10,10,10\n1,SALIDA,CAL,30,0,-1.5\n2,CONSUMO,REF,ELECTRICIDAD,10,10,10\n2,SALIDA,REF,3.0,0.0,-1.5\n-3,CONSUMO,REF,ELECTRICIDAD,1,1,1\n-3,SALIDA,REF,6,3,3\n2,AUX,1,0,2";
    rep.evals += 1;
    match text.parse::<Components>() {
        Ok(c) => {
            for (id, srv, want) in [(1, Service::CAL, vec![30.0f32, 0.0, -1.5]), (2, Service::REF, vec![3.0, 0.0, -1.5]), (-3, Service::REF, vec![6.0, 3.0, 3.0])] {
                let got: Vec<&Vec<f32>> = c.data.iter().filter_map(|e| if let Energy::Out(o) = e { if o.id == id && o.service == srv { Some(&o.values) } else { None } } else { None }).collect();
                if !(got.len() == 1 && veq(got[0], &want)) { rep.fail("C05.output_kept", text, format!("SALIDA of system {} service {:?}: {:?} read, {:?} declared", id, srv, got, want)); }
            }
        }
        Err(e) => rep.fail("C05.output_kept", text, format!("rejected: {}", e)),
    }
}

/// hand-written systems (clause id per class): auxiliaries of a system whose only use is the fuel of a cogenerator
pub fn c06_special(rep: &mut Rep) {
    // the output of one service declared in several lines: the shares follow the summed outputs
    {
        let text = "1,CONSUMO,CAL,ELECTRICIDAD,10,10\n1,CONSUMO,ACS,ELECTRICIDAD,5,5\n1,SALIDA,CAL,100,100\n1,SALIDA,CAL,200,0\n1,SALIDA,ACS,100,0\n1,AUX,8,6";
        rep.evals += 1;
        match text.parse::<Components>() {
            Ok(c) => {
                let of = |srv: Service| -> Vec<f32> { let mut v = vec![0.0f32; 2]; for e in &c.data { if let Energy::Aux(a) = e { if a.id == 1 && a.service == srv { for i in 0..2 { v[i] += a.values[i]; } } } } v };
                let (cal, acs) = (of(Service::CAL), of(Service::ACS));
                if !(veq(&cal, &[6.0, 6.0]) && veq(&acs, &[2.0, 0.0])) { rep.fail("C06.proportional", text, format!("auxiliary energy [8, 6] of a system with outputs CAL [100+200, 100+0] and ACS [100, 0]: CAL gets {:?}, ACS gets {:?} (expected [6, 6] and [2, 0])", cal, acs)); }
            }
            Err(e) => rep.fail("C06.proportional", text, format!("rejected: {}", e)),
        }
    }
    // the AUX lines of a multi-service system interleaved with those of another system (1, 2, 1 and 2, 1, 1, 2): per system and step the
    // assigned auxiliary energy adds up to what was declared, once
    for text in ["1,CONSUMO,CAL,GASNATURAL,100,80,60\n1,CONSUMO,ACS,GASNATURAL,40,40,40\n1,SALIDA,CAL,90,72,54\n1,SALIDA,ACS,30,30,30\n1,AUX,3,2,1\n2,CONSUMO,REF,ELECTRICIDAD,10,20,30\n2,SALIDA,REF,-30,-60,-90\n2,AUX,1,2,3\n1,AUX,1,1,1",
                 "2,AUX,1,0,1\n1,AUX,2,2,2\n1,CONSUMO,CAL,ELECTRICIDAD,10,10,10\n1,CONSUMO,ACS,ELECTRICIDAD,5,5,5\n1,SALIDA,CAL,30,30,10\n1,SALIDA,ACS,10,30,30\n1,AUX,2,0,2\n2,CONSUMO,CAL,GASNATURAL,50,50,50\n2,CONSUMO,REF,GASNATURAL,5,5,5\n2,SALIDA,CAL,40,40,40\n2,SALIDA,REF,-10,-10,-40\n2,AUX,0,3,0\n3,CONSUMO,VEN,ELECTRICIDAD,7,7,7\n3,AUX,1,1,1\n1,AUX,0,1,0"] {
        rep.evals += 1;
        let declared = |id: i32| -> Vec<f32> { let mut v = vec![0.0f32; 3]; for l in text.lines() { let f: Vec<&str> = l.split(',').collect(); if f[1] == "AUX" && f[0].parse::<i32>() == Ok(id) { for i in 0..3 { v[i] += f[2 + i].parse::<f32>().unwrap_or(0.0); } } } v };
        match text.parse::<Components>() {
            Ok(c) => for id in [1, 2, 3] {
                let mut got = vec![0.0f32; 3];
                for e in &c.data { if let Energy::Aux(a) = e { if a.id == id { for i in 0..3.min(a.values.len()) { got[i] += a.values[i]; } } } }
                if !veq(&got, &declared(id)) { rep.fail("C06.conserved", text, format!("system {}: auxiliary energy {:?} declared (in lines that alternate with another system's), {:?} after service assignment", id, declared(id), got)); }
            },
            Err(e) => rep.fail("C06.conserved", text, format!("rejected: {}", e)),
        }
    }
    // a system with a negative id (fictitious / reference systems are numbered that way): its auxiliaries are counted like any other
    {
        let text = "1,CONSUMO,CAL,ELECTRICIDAD,100,40\n-1,CONSUMO,VEN,ELECTRICIDAD,40,40\n-1,AUX,4,4\n-2,CONSUMO,ACS,GASNATURAL,9,9\n-2,AUX,1,2";
        rep.evals += 1;
        match text.parse::<Components>() {
            Ok(c) => match std::panic::catch_unwind(move || energy_performance(&c, &crate::factors("PENINSULA"), 0.0, 1.0, false)) {
                Ok(Ok(ep)) => { let got = ep.balance_cr.get(&Carrier::ELECTRICIDAD).map(|b| b.used.epus_t.clone()).unwrap_or_default(); if !veq(&got, &[145.0, 86.0]) { rep.fail("C06.counted_in_balance", text, format!("EPB electricity use per step {:?}, declared uses + auxiliaries [145, 86]", got)); } }
                Ok(Err(e)) => rep.fail("C06.counted_in_balance", text, format!("evaluation failed: {}", e)),
                Err(_) => rep.fail("C06.counted_in_balance", text, "the evaluation panics: the auxiliaries of systems -1 and -2 are in no balance".into()),
            },
            Err(e) => rep.fail("C06.counted_in_balance", text, format!("rejected: {}", e)),
        }
    }
    // a single-service system with several AUX lines: every one of them gets the service
    for (text, srv) in [("1,CONSUMO,REF,ELECTRICIDAD,0,50,100\n1,AUX,0,3,6\n1,AUX,0,4,8\n2,CONSUMO,CAL,ELECTRICIDAD,50,20,0\n2,CONSUMO,ACS,ELECTRICIDAD,5,5,5\n2,SALIDA,CAL,200,50,0\n2,SALIDA,ACS,50,50,50\n2,AUX,5,2,1\n3,PRODUCCION,EL_INSITU,10,10,10", Service::REF),
                        ("4,CONSUMO,ACS,GASNATURAL,10,10\n4,AUX,1,1\n4,AUX,2,0\n4,AUX,0,0.5", Service::ACS)] {
        rep.evals += 1;
        match text.parse::<Components>() {
            Ok(c) => {
                let id = if srv == Service::REF { 1 } else { 4 };
                let auxs: Vec<&cteepbd::types::EAux> = c.data.iter().filter_map(|e| if let Energy::Aux(a) = e { if a.id == id { Some(a) } else { None } } else { None }).collect();
                if auxs.iter().any(|a| a.service != srv) { rep.fail("C06.single_service", text, format!("single-service system {}: auxiliary components with services {:?}", id, auxs.iter().map(|a| a.service).collect::<Vec<_>>())); }
            }
            Err(e) => rep.fail("C06.single_service", text, format!("rejected: {}", e)),
        }
    }
    for (clause, text, aux_total) in [
        ("C06.aux_of_cogeneration_only_system", "1,CONSUMO,COGEN,GASNATURAL,100\n1,PRODUCCION,EL_COGEN,30\n1,AUX,5\n3,CONSUMO,ILU,ELECTRICIDAD,10", 5.0f32),
        ("C06.special", "1,CONSUMO,COGEN,GASNATURAL,100\n1,CONSUMO,CAL,GASNATURAL,40\n1,SALIDA,CAL,30\n1,PRODUCCION,EL_COGEN,30\n1,AUX,5\n3,CONSUMO,ILU,ELECTRICIDAD,10", 5.0),
        ("C06.special", "1,CONSUMO,CAL,BIOMASA,100\n1,AUX,5\n2,CONSUMO,ACS,GASNATURAL,100\n2,AUX,3", 8.0),
        // a system declared only through its outputs and its auxiliaries (a pump group, no CONSUMO line), one and two services
        ("C06.counted_in_balance", "1,CONSUMO,CAL,GASNATURAL,100,80\n1,SALIDA,CAL,90,72\n2,AUX,6,4\n2,SALIDA,CAL,50,40", 10.0),
        // a single-service system whose own consumption is declared and zero (fans declared only through their auxiliaries), next to a boiler with a pump
        ("C06.counted_in_balance", "2,CONSUMO,VEN,ELECTRICIDAD,0,0,0\n2,AUX,10,12,8\n1,CONSUMO,CAL,GASNATURAL,50,50,50\n1,AUX,2,2,2", 36.0),
        ("C06.counted_in_balance", "1,CONSUMO,CAL,GASNATURAL,100,80\n2,AUX,6,4\n2,SALIDA,CAL,50,40\n2,SALIDA,ACS,10,10\n3,PRODUCCION,EL_INSITU,1,1", 10.0),
    ] {
        rep.evals += 1;
        let comps: Components = match text.parse() { Ok(c) => c, Err(e) => { rep.fail(clause, text, format!("rejected: {}", e)); continue } };
        let w = crate::factors("PENINSULA");
        // the same with the factor set simplified for this building (the sequence the command line tool follows)
        if clause == "C06.counted_in_balance" {
            let ws = w.clone().strip(&comps);
            match energy_performance(&comps, &ws, 0.0, 1.0, false) {
                Ok(ep) => { let got = ep.balance_cr.get(&Carrier::ELECTRICIDAD).map(|b| b.used.epus_an).unwrap_or(0.0); let declared_el: f32 = comps.data.iter().filter_map(|c| match c { Energy::Used(e) if e.carrier == Carrier::ELECTRICIDAD && e.service.is_epb() => Some(e.values.iter().sum::<f32>()), _ => None }).sum();
                    if !eq(got, declared_el + aux_total) { rep.fail(clause, text, format!("with the simplified factor set: EPB electricity use in the balance is {}, declared {} + auxiliaries {}", got, declared_el, aux_total)); } }
                Err(e) => rep.fail(clause, text, format!("evaluation with the simplified factor set failed: {}", e)),
            }
        }
        match energy_performance(&comps, &w, 0.0, 1.0, false) {
            Ok(ep) => {
                let declared_el: f32 = comps.data.iter().filter_map(|c| match c { Energy::Used(e) if e.carrier == Carrier::ELECTRICIDAD && e.service.is_epb() => Some(e.values.iter().sum::<f32>()), _ => None }).sum();
                let got = ep.balance_cr.get(&Carrier::ELECTRICIDAD).map(|b| b.used.epus_an).unwrap_or(0.0);
                if !eq(got, declared_el + aux_total) { rep.fail(clause, text, format!("EPB electricity use in the balance is {}, declared {} + auxiliaries {}", got, declared_el, aux_total)); }
            }
            Err(e) => rep.fail(clause, text, format!("evaluation failed: {}", e)),
        }
    }
}

/// inputs that the parser may refuse (a multi-service system with auxiliaries and no output lines): refused, or every declared kWh is EPB electricity use
pub fn c06_refused_or_counted(rep: &mut Rep) {
    for (text, aux_total) in [("1,CONSUMO,CAL,ELECTRICIDAD,10,10\n1,CONSUMO,ACS,ELECTRICIDAD,5,5\n1,AUX,2,2\n2,PRODUCCION,EL_INSITU,16,16", 4.0f32),
                              ("1,CONSUMO,CAL,GASNATURAL,10,10\n1,CONSUMO,REF,ELECTRICIDAD,5,5\n1,AUX,1,3\n3,CONSUMO,NEPB,ELECTRICIDAD,1,1", 4.0)] {
        rep.evals += 1;
        let comps: Components = match text.parse() { Ok(c) => c, Err(_) => continue };
        let w = crate::factors("PENINSULA");
        if let Ok(ep) = energy_performance(&comps, &w, 0.0, 1.0, false) {
            let declared_el: f32 = text.lines().filter_map(|l| { let f: Vec<&str> = l.split(',').collect(); if f[1] == "CONSUMO" && f[3] == "ELECTRICIDAD" && f[2] != "NEPB" && f[2] != "COGEN" { Some(f[4..].iter().filter_map(|x| x.trim().parse::<f32>().ok()).sum::<f32>()) } else { None } }).sum();
            let got = ep.balance_cr.get(&Carrier::ELECTRICIDAD).map(|b| b.used.epus_an).unwrap_or(0.0);
            if !eq(got, declared_el + aux_total) { rep.fail("C06.counted_in_balance", text, format!("the file is accepted and the EPB electricity use in the balance is {}, declared {} + auxiliaries {}", got, declared_el, aux_total)); }
        }
    }
}
// ------------------------------------------------------------------------------------------------ C05
pub fn c05(rep: &mut Rep) {
    let ids = [-1, 0, 1];
    let uses: [&[f32]; 3] = [&[0.0], &[2.0], &[3.0, 1.0]];
    let prods: [Option<&[f32]>; 4] = [None, Some(&[1.0]), Some(&[5.0]), Some(&[0.0, 4.0])];
    for carrier in ["EAMBIENTE", "TERMOSOLAR"] {
        for (ui, u0) in uses.iter().enumerate() {
            for (pi, p0) in prods.iter().enumerate() {
                for (uj, u1) in uses.iter().enumerate() {
                    for (pj, p1) in prods.iter().enumerate() {
                        for dup in [0u8, 1, 2] {
                            let n = 2;
                            let ext = |v: &[f32]| -> Vec<f32> { (0..n).map(|i| v[i % v.len()]).collect() };
                            let mut lines = vec![];
                            let mut decl: Vec<(i32, bool, Vec<f32>)> = vec![]; // (id, is_prod, values)
                            for (id, u, p) in [(ids[(ui + pi) % 3], u0, p0), (ids[(uj + pj + 1) % 3], u1, p1)] {
                                let uv = ext(u);
                                if uv.iter().any(|v| *v > 0.0) { lines.push(format!("{},CONSUMO,ACS,{},{}", id, carrier, fmtv(&uv))); decl.push((id, false, uv.clone())); }
                                if dup > 0 && uv.iter().any(|v| *v > 0.0) { lines.push(format!("{},CONSUMO,{},{},{}", id, if dup == 1 { "CAL" } else { "NEPB" }, carrier, fmtv(&uv))); decl.push((id, false, uv)); }
                                if let Some(p) = p { let pv = ext(p); lines.push(format!("{},PRODUCCION,{},{}", id, carrier, fmtv(&pv))); decl.push((id, true, pv)); }
                            }
                            lines.push(format!("7,CONSUMO,CAL,GASNATURAL,{}", fmtv(&vec![9.0; n])));
                            let text = lines.join("\n");
                            rep.evals += 1;
                            let comps: Components = match text.parse() { Ok(c) => c, Err(e) => { rep.fail("C05.parse", &text, format!("{}", e)); continue; } };
                            rep.nontrivial += 1;
                            let cr: Carrier = carrier.parse().unwrap();
                            let of = |is_prod: bool| -> Vec<(i32, Vec<f32>, String)> {
                                comps.data.iter().filter_map(|c| match c {
                                    Energy::Prod(e) if is_prod && Carrier::from(e.source) == cr => Some((e.id, e.values.clone(), e.comment.clone())),
                                    Energy::Used(e) if !is_prod && e.carrier == cr => Some((e.id, e.values.clone(), e.comment.clone())),
                                    _ => None }).collect()
                            };
                            let (us, ps) = (of(false), of(true));
                            // declared lines kept
                            for (id, is_prod, v) in &decl {
                                let pool = if *is_prod { &ps } else { &us };
                                let have = pool.iter().filter(|(i, x, _)| i == id && veq(x, v)).count();
                                let want = decl.iter().filter(|(i, p, x)| i == id && p == is_prod && veq(x, v)).count();
                                if have < want { rep.fail("C05.declared_kept", &text, format!("declared {} of system {} with values {:?} lost or altered", if *is_prod { "production" } else { "use" }, id, v)); }
                            }
                            // exact completion per id and step
                            let mut idset: Vec<i32> = decl.iter().map(|d| d.0).collect(); idset.sort(); idset.dedup();
                            let declared_n = decl.iter().filter(|d| d.1).count();
                            let mut expect_added = 0;
                            for id in idset {
                                let use_t: Vec<f32> = (0..n).map(|i| decl.iter().filter(|d| d.0 == id && !d.1).map(|d| d.2[i]).sum()).collect();
                                let dec_t: Vec<f32> = (0..n).map(|i| decl.iter().filter(|d| d.0 == id && d.1).map(|d| d.2[i]).sum()).collect();
                                let has_use = decl.iter().any(|d| d.0 == id && !d.1);
                                let need: Vec<f32> = (0..n).map(|i| if has_use { (use_t[i] - dec_t[i]).max(0.0) } else { 0.0 }).collect();
                                let tot_t: Vec<f32> = (0..n).map(|i| ps.iter().filter(|p| p.0 == id).map(|p| p.1[i]).sum()).collect();
                                for i in 0..n {
                                    if !eq(tot_t[i], dec_t[i] + need[i]) { rep.fail("C05.exact_completion", &text, format!("system {} step {}: production {} after parsing, expected declared {} + completion {}", id, i, tot_t[i], dec_t[i], need[i])); }
                                }
                                if need.iter().sum::<f32>() > 0.0 { expect_added += 1; }
                            }
                            if ps.len() != declared_n + expect_added { rep.fail("C05.nothing_else", &text, format!("{} production components after parsing, expected {} declared + {} added", ps.len(), declared_n, expect_added)); }
                            // idempotence
                            match comps.clone().normalize() {
                                Ok(c2) => if c2.to_string() != comps.to_string() || c2.data.len() != comps.data.len() { rep.fail("C05.idempotent", &text, "normalizing the normalized set changes it".into()); },
                                Err(e) => rep.fail("C05.idempotent", &text, format!("second normalization fails: {}", e)),
                            }
                            if rep.evals % 131 == 3 && rep.samples.len() < 4 { rep.samples.push(json!({"components": text})); }
                        }
                    }
                }
            }
        }
    }
}

// ------------------------------------------------------------------------------------------------ C07 / C08
const CARRIERS: [&str; 5] = ["ELECTRICIDAD", "GASNATURAL", "BIOMASA", "EAMBIENTE", "RED1"];
fn factor_file(mask: u32, with_exports: u32, rng: &mut Rng) -> (String, Vec<(String, [f32; 3])>) {
    let mut lines = vec![];
    let mut user: Vec<(String, [f32; 3])> = vec![];
    // marker values with four decimals (a factor is not a three-decimal quantity: copies of it must be exact)
    let mut marker = 0.0113f32;
    let mut add = |key: String, lines: &mut Vec<String>, user: &mut Vec<(String, [f32; 3])>| {
        marker += 0.0131;
        let v = [marker, marker * 2.0, marker * 3.0];
        let line = format!("{}, {:.4}, {:.4}, {:.4}", key, v[0], v[1], v[2]);
        let p: Vec<f32> = line.rsplit(',').take(3).map(|x| x.trim().parse().unwrap()).collect();
        lines.push(line);
        user.push((key, [p[2], p[1], p[0]]));
    };
    for (i, c) in CARRIERS.iter().enumerate() {
        if mask & (1 << i) == 0 { continue; }
        add(format!("{}, RED, SUMINISTRO, A", c), &mut lines, &mut user);
    }
    if mask & 1 != 0 {
        if with_exports & 1 != 0 { add("ELECTRICIDAD, INSITU, A_RED, A".into(), &mut lines, &mut user); }
        if with_exports & 2 != 0 { add("ELECTRICIDAD, INSITU, A_RED, B".into(), &mut lines, &mut user); }
        if with_exports & 4 != 0 { add("ELECTRICIDAD, INSITU, A_NEPB, B".into(), &mut lines, &mut user); }
        if with_exports & 8 != 0 { add("ELECTRICIDAD, COGEN, A_RED, A".into(), &mut lines, &mut user); }
        if with_exports & 16 != 0 { add("ELECTRICIDAD, INSITU, SUMINISTRO, A".into(), &mut lines, &mut user); }
    }
    if rng.next() % 2 == 0 { lines.reverse(); }
    (lines.join("\n"), user)
}
fn lookup(w: &Factors, key: &str) -> Option<[f32; 3]> {
    let p: Vec<&str> = key.split(',').map(|s| s.trim()).collect();
    w.find(p[0].parse().ok()?, p[1].parse().ok()?, p[2].parse().ok()?, p[3].parse().ok()?).ok().map(|r| [r.ren, r.nren, r.co2])
}
/// factors are copied, never computed, by the preparation: compared to f32 precision
fn feq(a: [f32; 3], b: [f32; 3]) -> bool {
    (0..3).all(|i| (a[i] - b[i]).abs() <= 1e-6 * a[i].abs().max(1.0))
}
pub fn c07(rep: &mut Rep, seed: u64) {
    let mut rng = Rng(seed ^ 0xFAC7);
    let forced = ["EAMBIENTE, INSITU, SUMINISTRO, A", "EAMBIENTE, RED, SUMINISTRO, A", "TERMOSOLAR, INSITU, SUMINISTRO, A", "TERMOSOLAR, RED, SUMINISTRO, A", "ELECTRICIDAD, INSITU, SUMINISTRO, A"];
    for mask in 1u32..32 {
        for exports in [0u32, 1, 2, 4, 8, 16, 7, 31] {
            for (u1, u2) in [(false, false), (true, false), (true, true)] {
                let (text, user) = factor_file(mask, exports, &mut rng);
                let uv = UserWF { red1: if u1 { Some(RenNrenCo2::new(0.5004, 0.6003, 0.7002)) } else { None }, red2: if u2 { Some(RenNrenCo2::new(0.2004, 0.3003, 0.0004)) } else { None } };
                rep.evals += 1;
                let w = match cte::wfactors_from_str(&text, uv, cte::CTE_USERWF) {
                    Ok(w) => w,
                    Err(e) => {
                        // the preparation always needs the grid factor of ELECTRICIDAD (it generates the on-site export factors):
                        // a set without it is rejected; the property only promises that unusable sets are not ACCEPTED
                        if mask & 1 != 0 { rep.fail("C07.no_spurious_error", &text, format!("usable set rejected: {}", e)); }
                        continue;
                    }
                };
                rep.nontrivial += 1;
                for (key, v) in &user {
                    let is_forced = forced.contains(&key.as_str());
                    let is_red = key.starts_with("RED1") && u1 || key.starts_with("RED2") && u2;
                    match lookup(&w, key) {
                        Some(got) => if !is_forced && !is_red && !feq(got, *v) { rep.fail("C07.user_values_kept", &text, format!("factor '{}' supplied as {:?} reads {:?} after preparation", key, v, got)); },
                        None => rep.fail("C07.user_values_kept", &text, format!("supplied factor '{}' vanished", key)),
                    }
                }
                for k in &forced[..4] { if lookup(&w, k).map(|v| !feq(v, [1.0, 0.0, 0.0])).unwrap_or(true) { rep.fail("C07.forced", &text, format!("'{}' is not (1, 0, 0)", k)); } }
                if mask & 1 != 0 && lookup(&w, forced[4]).map(|v| !feq(v, [1.0, 0.0, 0.0])).unwrap_or(true) { rep.fail("C07.forced", &text, "on-site electricity supply factor is not (1, 0, 0)".into()); }
                // RED1 / RED2: user > file > default
                let file_red1 = user.iter().find(|(k, _)| k.starts_with("RED1")).map(|x| x.1);
                let want1 = if u1 { [0.5004, 0.6003, 0.7002] } else if let Some(v) = file_red1 { v } else { [cte::CTE_USERWF.red1.ren, cte::CTE_USERWF.red1.nren, cte::CTE_USERWF.red1.co2] };
                if lookup(&w, "RED1, RED, SUMINISTRO, A").map(|v| !feq(v, want1)).unwrap_or(true) { rep.fail("C07.red_precedence", &text, format!("RED1 reads {:?}, expected {:?} (user > file > default)", lookup(&w, "RED1, RED, SUMINISTRO, A"), want1)); }
                let want2 = if u2 { [0.2004, 0.3003, 0.0004] } else { [cte::CTE_USERWF.red2.ren, cte::CTE_USERWF.red2.nren, cte::CTE_USERWF.red2.co2] };
                if lookup(&w, "RED2, RED, SUMINISTRO, A").map(|v| !feq(v, want2)).unwrap_or(true) { rep.fail("C07.red_precedence", &text, "RED2 does not follow user > file > default".into()); }
                // export defaults
                if mask & 1 != 0 {
                    let sup = lookup(&w, "ELECTRICIDAD, INSITU, SUMINISTRO, A");
                    let grid = lookup(&w, "ELECTRICIDAD, RED, SUMINISTRO, A");
                    for (key, def, given) in [("ELECTRICIDAD, INSITU, A_RED, A", sup, exports & 1 != 0), ("ELECTRICIDAD, INSITU, A_NEPB, A", sup, false), ("ELECTRICIDAD, INSITU, A_RED, B", grid, exports & 2 != 0), ("ELECTRICIDAD, INSITU, A_NEPB, B", grid, exports & 4 != 0)] {
                        match (lookup(&w, key), def) {
                            (Some(g), Some(d)) => if !given && !feq(g, d) { rep.fail("C07.export_defaults", &text, format!("default of '{}' is {:?}, expected {:?}", key, g, d)); },
                            _ => rep.fail("C07.export_defaults", &text, format!("'{}' missing", key)),
                        }
                    }
                }
                // idempotent
                match w.clone().normalize(&cte::CTE_USERWF) {
                    Ok(w2) => if w2.to_string() != w.to_string() { rep.fail("C07.idempotent", &text, "preparing the prepared set changes it".into()); },
                    Err(e) => rep.fail("C07.idempotent", &text, format!("second preparation fails: {}", e)),
                }
                // complete: buildings over the carriers of the set evaluate without a missing factor; and C08: strip is invisible
                for b in buildings(mask) {
                    rep.evals += 1;
                    let comps: Components = match b.parse() { Ok(c) => c, Err(_) => continue };
                    for (k, lm) in [(0.0f32, false), (0.5, true)] {
                        let full = energy_performance(&comps, &w, k, 1.0, lm);
                        match &full { Err(e) => rep.fail("C07.complete", &format!("{}\n---\n{}", text, b), format!("evaluation over carriers of the set fails: {}", e)), Ok(_) => {} }
                        let stripped = w.clone().strip(&comps);
                        let st = energy_performance(&comps, &stripped, k, 1.0, lm);
                        match (&full, &st) {
                            (Ok(a), Ok(c)) => {
                                let (x, y) = (a.balance.we.b, c.balance.we.b);
                                let (x2, y2) = (a.balance.we.a, c.balance.we.a);
                                if !(eq(x.ren, y.ren) && eq(x.nren, y.nren) && eq(x.co2, y.co2) && eq(x2.nren, y2.nren) && eq(a.rer, c.rer) && eq(a.rer_nrb, c.rer_nrb)) {
                                    rep.fail("C08.same_result", &format!("{}\n---\n{}", text, b), format!("stripped factors give B {} instead of {}", y, x));
                                }
                            }
                            (Ok(_), Err(e)) => rep.fail("C08.no_new_error", &format!("{}\n---\n{}", text, b), format!("evaluation fails only with the stripped set: {}", e)),
                            _ => {}
                        }
                    }
                }
                if rep.evals % 211 == 1 && rep.samples.len() < 4 { rep.samples.push(json!({"factors": text})); }
            }
        }
    }
    // hand-written buildings with the regulatory factor sets (clause id per building class)
    for (clause, b) in [
        ("C08.aux_of_cogeneration_only_system", "1,CONSUMO,COGEN,GASNATURAL,100\n1,PRODUCCION,EL_COGEN,30\n1,AUX,5\n2,PRODUCCION,EL_INSITU,50\n3,CONSUMO,ILU,ELECTRICIDAD,10"),
        ("C08.special", "1,CONSUMO,COGEN,GASNATURAL,100\n1,CONSUMO,CAL,GASNATURAL,40\n1,SALIDA,CAL,30\n1,PRODUCCION,EL_COGEN,30\n1,AUX,5\n2,PRODUCCION,EL_INSITU,50\n3,CONSUMO,ILU,ELECTRICIDAD,10"),
        // a cogeneration unit that also heats, its heating use declared as a line of zeros (only the output is known), auxiliaries, PV surplus
        ("C08.special", "0,CONSUMO,ILU,ELECTRICIDAD,20\n1,CONSUMO,COGEN,GASNATURAL,100\n1,CONSUMO,CAL,GASNATURAL,0\n1,SALIDA,CAL,50\n1,AUX,5\n1,PRODUCCION,EL_COGEN,30\n2,PRODUCCION,EL_INSITU,100"),
        // a declared but idle PV field next to a cogenerator that exports, and next to non-EPB uses
        ("C08.special", "0,CONSUMO,ILU,ELECTRICIDAD,20\n1,PRODUCCION,EL_INSITU,0\n2,CONSUMO,COGEN,GASNATURAL,108\n2,PRODUCCION,EL_COGEN,48\n3,CONSUMO,CAL,GASNATURAL,150"),
        ("C08.special", "0,CONSUMO,ILU,ELECTRICIDAD,20,20\n0,CONSUMO,NEPB,ELECTRICIDAD,5,5\n1,PRODUCCION,EL_INSITU,0,0\n2,CONSUMO,COGEN,GASNATURAL,108,108\n2,PRODUCCION,EL_COGEN,48,48"),
        ("C08.special", "1,CONSUMO,ACS,TERMOSOLAR,20\n1,CONSUMO,NEPB,TERMOSOLAR,10\n1,PRODUCCION,TERMOSOLAR,50\n2,CONSUMO,ILU,ELECTRICIDAD,10"),
        ("C08.special", "1,CONSUMO,NEPB,EAMBIENTE,10\n1,CONSUMO,CAL,EAMBIENTE,10\n1,CONSUMO,CAL,ELECTRICIDAD,5\n2,PRODUCCION,EAMBIENTE,40"),
        ("C08.special", "1,CONSUMO,CAL,ELECTRICIDAD,5\n1,PRODUCCION,EL_INSITU,50\n2,PRODUCCION,EL_COGEN,20\n2,CONSUMO,COGEN,BIOMASA,60"),
        // a cogeneration unit with a second fuel that is declared and idle (a line of zeros)
        ("C08.special", "1,CONSUMO,COGEN,BIOMASA,100,100,100\n1,CONSUMO,COGEN,GASNATURAL,0,0,0\n1,PRODUCCION,EL_COGEN,30,30,30\n2,CONSUMO,ILU,ELECTRICIDAD,10,10,10"),
    ] {
        for loc in ["PENINSULA", "CANARIAS"] {
            let w = crate::factors(loc);
            let comps: Components = match b.parse() { Ok(c) => c, Err(_) => continue };
            for (k, lm) in [(0.0f32, false), (0.5, true), (1.0, false)] {
                rep.evals += 1;
                let full = energy_performance(&comps, &w, k, 1.0, lm);
                let st = energy_performance(&comps, &w.clone().strip(&comps), k, 1.0, lm);
                match (&full, &st) {
                    (Ok(a), Ok(c)) => {
                        let (x, y) = (a.balance.we.b, c.balance.we.b);
                        if !(eq(x.ren, y.ren) && eq(x.nren, y.nren) && eq(x.co2, y.co2) && eq(a.balance.we.a.nren, c.balance.we.a.nren) && eq(a.rer, c.rer)) {
                            rep.fail(clause, b, format!("{}: stripped factors give B {} instead of {}", loc, y, x));
                        }
                    }
                    (Ok(_), Err(e)) => rep.fail(clause, b, format!("{}: evaluation succeeds with the full set and fails with the simplified set: {}", loc, e)),
                    _ => {}
                }
            }
        }
    }
    // component sets built in code (not through the text parser): an auxiliary component that still has the service it is loaded with (NEPB)
    for b in ["1,CONSUMO,ILU,ELECTRICIDAD,10,10\n1,PRODUCCION,EL_INSITU,40,5", "1,CONSUMO,CAL,GASNATURAL,50\n2,PRODUCCION,EL_INSITU,8", "1,CONSUMO,CAL,ELECTRICIDAD,5\n2,PRODUCCION,EL_COGEN,30\n2,CONSUMO,COGEN,GASNATURAL,80"] {
        let mut comps: Components = match b.parse() { Ok(c) => c, Err(_) => continue };
        let n = comps.num_steps();
        comps.data.push(Energy::Aux(EAux { id: 9, service: Service::NEPB, values: vec![3.0; n], comment: String::new() }));
        for loc in ["PENINSULA", "CANARIAS"] {
            let w = crate::factors(loc);
            for (k, lm) in [(0.0f32, false), (1.0, true)] {
                rep.evals += 1;
                let (c1, c2, w1, w2) = (comps.clone(), comps.clone(), w.clone(), w.clone());
                let full = std::panic::catch_unwind(move || energy_performance(&c1, &w1, k, 1.0, lm));
                let st = std::panic::catch_unwind(move || energy_performance(&c2, &w2.clone().strip(&c2), k, 1.0, lm));
                let text = format!("{}\n+ Energy::Aux {{ id: 9, service: NEPB, values: [3; {}] }} pushed in code", b, n);
                match (full, st) {
                    (Ok(Ok(a)), Ok(Ok(c))) => { let (x, y) = (a.balance.we.b, c.balance.we.b); if !(eq(x.ren, y.ren) && eq(x.nren, y.nren) && eq(x.co2, y.co2) && eq(a.rer, c.rer)) { rep.fail("C08.built_in_code", &text, format!("{}: stripped factors give B {} instead of {}", loc, y, x)); } }
                    (Ok(Ok(_)), Ok(Err(e))) => rep.fail("C08.built_in_code", &text, format!("{}: evaluation succeeds with the full set and fails with the simplified set: {}", loc, e)),
                    (Ok(_), Err(_)) => rep.fail("C08.built_in_code", &text, format!("{}: evaluation with the simplified set panics", loc)),
                    _ => {}
                }
            }
        }
    }
    // unusable sets are rejected: a carrier that has factors but no grid supply factor
    for bad in ["GASNATURAL, INSITU, A_RED, A, 1.0, 0.0, 0.0", "ELECTRICIDAD, INSITU, A_RED, A, 1.0, 0.0, 0.0\nGASNATURAL, RED, SUMINISTRO, A, 0.0, 1.2, 0.25",
        // a carrier without its grid supply factor next to complete ones, with / without the ambient and solar lines
        "ELECTRICIDAD, RED, SUMINISTRO, A, 0.4, 2.0, 0.3\nGASNATURAL, INSITU, SUMINISTRO, A, 1.0, 0.0, 0.0",
        "ELECTRICIDAD, RED, SUMINISTRO, A, 0.4, 2.0, 0.3\nEAMBIENTE, RED, SUMINISTRO, A, 1.0, 0.0, 0.0\nBIOMASA, INSITU, A_RED, A, 1.0, 0.0, 0.0",
        "ELECTRICIDAD, RED, SUMINISTRO, A, 0.4, 2.0, 0.3\nEAMBIENTE, RED, SUMINISTRO, A, 1.0, 0.0, 0.0\nTERMOSOLAR, RED, SUMINISTRO, A, 1.0, 0.0, 0.0\nGASNATURAL, RED, A_RED, A, 0.0, 1.2, 0.25",
        "ELECTRICIDAD, RED, SUMINISTRO, A, 0.4, 2.0, 0.3\nGASNATURAL, RED, SUMINISTRO, A, 0.0, 1.2, 0.25\nBIOMASA, RED, SUMINISTRO, B, 1.0, 0.1, 0.02\nRED1, INSITU, SUMINISTRO, A, 0.0, 1.3, 0.3"] {
        rep.evals += 1;
        if cte::wfactors_from_str(bad, UserWF { red1: None, red2: None }, cte::CTE_USERWF).is_ok() { rep.fail("C07.unusable_rejected", bad, "set with a carrier lacking its grid supply factor accepted".into()); }
    }
    // ---- factors whose three values are zero are factors like any other (a user who prices exported electricity at nothing, a carrier without emissions)
    {
        let text = "ELECTRICIDAD, RED, SUMINISTRO, A, 0.5, 2.0, 0.25\nELECTRICIDAD, INSITU, A_RED, B, 0, 0, 0\nELECTRICIDAD, INSITU, A_NEPB, A, 0.0, 0.0, 0.0\nGASNATURAL, RED, SUMINISTRO, A, 0, 1.25, 0.5\nBIOMASA, RED, SUMINISTRO, A, 0.000, 0.000, 0.000\nRED1, RED, SUMINISTRO, A, 0, 0, 0";
        rep.evals += 1;
        match cte::wfactors_from_str(text, UserWF { red1: None, red2: None }, cte::CTE_USERWF) {
            Ok(w) => {
                rep.nontrivial += 1;
                for (key, want) in [("ELECTRICIDAD, INSITU, A_RED, B", [0.0f32, 0.0, 0.0]), ("ELECTRICIDAD, INSITU, A_NEPB, A", [0.0, 0.0, 0.0]), ("BIOMASA, RED, SUMINISTRO, A", [0.0, 0.0, 0.0]),
                                    ("RED1, RED, SUMINISTRO, A", [0.0, 0.0, 0.0]), ("GASNATURAL, RED, SUMINISTRO, A", [0.0, 1.25, 0.5])] {
                    match lookup(&w, key) {
                        Some(got) => if !feq(got, want) { rep.fail("C07.user_values_kept", text, format!("factor '{}' supplied as {:?} reads {:?} after preparation", key, want, got)); },
                        None => rep.fail("C07.user_values_kept", text, format!("supplied factor '{}' vanished", key)),
                    }
                }
            }
            Err(e) => rep.fail("C07.no_spurious_error", text, format!("usable set rejected: {}", e)),
        }
    }
    // ---- the location pipeline, called several times in one process with different user values, defaults and tables:
    // every call answers for its own arguments (user value > table value > default for RED1 / RED2; the factors of the table it was given)
    {
        let u = |a: f32| RenNrenCo2::new(a, a + 0.25, a / 4.0);
        let r3 = |v: RenNrenCo2| [v.ren, v.nren, v.co2];
        for loc in ["PENINSULA", "BALEARES", "CANARIAS", "CEUTAMELILLA"] {
            let base = match cte::CTE_LOCWF_RITE2014.get(loc) { Some(b) => b.clone(), None => { rep.fail("C07.pipeline_loc", loc, "no regulatory table for this location".into()); continue } };
            // a user table: the regulatory one with other grid factors for electricity and natural gas, and its own RED2 line
            let mut own = base.clone();
            for f in own.wdata.iter_mut() {
                if f.source == Source::RED && f.dest == Dest::SUMINISTRO && f.step == Step::A {
                    if f.carrier == Carrier::ELECTRICIDAD { f.ren = 0.5; f.nren = 1.5; f.co2 = 0.25; }
                    if f.carrier == Carrier::GASNATURAL { f.ren = 0.0; f.nren = 1.25; f.co2 = 0.5; }
                }
            }
            own.wdata.push(Factor::new(Carrier::RED2, Source::RED, Dest::SUMINISTRO, Step::A, RenNrenCo2::new(0.125, 0.875, 0.0625), "user table"));
            let mut ownmap = std::collections::HashMap::new();
            ownmap.insert(loc, own.clone());
            let calls: Vec<(&str, bool, UserWF<Option<RenNrenCo2>>, UserWF<RenNrenCo2>)> = vec![
                ("regulatory table, no user values, regulatory defaults", false, UserWF { red1: None, red2: None }, cte::CTE_USERWF),
                ("regulatory table, user RED1 and RED2", false, UserWF { red1: Some(u(0.5)), red2: Some(u(0.25)) }, cte::CTE_USERWF),
                ("regulatory table, no user values, other defaults", false, UserWF { red1: None, red2: None }, UserWF { red1: u(0.75), red2: u(1.0) }),
                ("user table, no user values, other defaults", true, UserWF { red1: None, red2: None }, UserWF { red1: u(0.75), red2: u(1.0) }),
                ("regulatory table, user RED2 only", false, UserWF { red1: None, red2: Some(u(2.0)) }, cte::CTE_USERWF),
                ("user table, user RED1 only", true, UserWF { red1: Some(u(3.0)), red2: None }, cte::CTE_USERWF),
                ("regulatory table, no user values, regulatory defaults (again)", false, UserWF { red1: None, red2: None }, cte::CTE_USERWF),
            ];
            for (what, use_own, user, defaults) in calls {
                rep.evals += 1;
                let res = if use_own { cte::wfactors_from_loc(loc, &ownmap, user, defaults) } else { cte::wfactors_from_loc(loc, &cte::CTE_LOCWF_RITE2014, user, defaults) };
                let w = match res { Ok(w) => w, Err(e) => { rep.fail("C07.pipeline_loc", loc, format!("{}: rejected: {}", what, e)); continue } };
                rep.nontrivial += 1;
                let table = if use_own { &own } else { &base };
                let in_table = |c: Carrier| table.wdata.iter().find(|f| f.carrier == c && f.source == Source::RED && f.dest == Dest::SUMINISTRO && f.step == Step::A).map(|f| [f.ren, f.nren, f.co2]);
                let want1 = user.red1.map(r3).or(in_table(Carrier::RED1)).unwrap_or(r3(defaults.red1));
                let want2 = user.red2.map(r3).or(in_table(Carrier::RED2)).unwrap_or(r3(defaults.red2));
                for (key, want) in [("RED1, RED, SUMINISTRO, A", want1), ("RED2, RED, SUMINISTRO, A", want2)] {
                    match lookup(&w, key) {
                        Some(got) => if !feq(got, want) { rep.fail("C07.red_precedence", loc, format!("{} ({}): '{}' reads {:?}, expected {:?} (user value > table value > default of THIS call)", loc, what, key, got, want)); },
                        None => rep.fail("C07.red_precedence", loc, format!("{} ({}): '{}' is missing", loc, what, key)),
                    }
                }
                // the grid supply factors of the table this call was given, and the step B export default of electricity that follows from them
                for c in [Carrier::ELECTRICIDAD, Carrier::GASNATURAL, Carrier::BIOMASA] {
                    if let Some(want) = in_table(c) {
                        let key = format!("{}, RED, SUMINISTRO, A", c);
                        if lookup(&w, &key).map(|g| !feq(g, want)).unwrap_or(true) { rep.fail("C07.user_values_kept", loc, format!("{} ({}): '{}' reads {:?}, the table given to this call says {:?}", loc, what, key, lookup(&w, &key), want)); }
                    }
                }
                if let Some(grid) = in_table(Carrier::ELECTRICIDAD) {
                    let explicit = table.wdata.iter().any(|f| f.carrier == Carrier::ELECTRICIDAD && f.source == Source::INSITU && f.dest == Dest::A_RED && f.step == Step::B);
                    if !explicit && lookup(&w, "ELECTRICIDAD, INSITU, A_RED, B").map(|g| !feq(g, grid)).unwrap_or(true) {
                        rep.fail("C07.export_defaults", loc, format!("{} ({}): step B export factor of on-site electricity reads {:?}, the grid supply factor of the table given to this call is {:?}", loc, what, lookup(&w, "ELECTRICIDAD, INSITU, A_RED, B"), grid));
                    }
                }
            }
        }
    }
}
fn buildings(mask: u32) -> Vec<String> {
    let mut v = vec![];
    let has = |i: usize| mask & (1 << i) != 0;
    if has(0) {
        v.push("1,CONSUMO,CAL,ELECTRICIDAD,10\n1,PRODUCCION,EL_INSITU,30\n1,CONSUMO,NEPB,ELECTRICIDAD,5".to_string());
        v.push("1,CONSUMO,ACS,ELECTRICIDAD,10,20\n1,SALIDA,ACS,30,60\n1,AUX,1,1".to_string());
        if has(1) { v.push("1,CONSUMO,CAL,ELECTRICIDAD,10\n2,PRODUCCION,EL_COGEN,30\n2,CONSUMO,COGEN,GASNATURAL,80\n3,PRODUCCION,EL_INSITU,5".to_string()); }
        if has(3) { v.push("1,CONSUMO,CAL,ELECTRICIDAD,10\n1,CONSUMO,CAL,EAMBIENTE,20\n1,PRODUCCION,EAMBIENTE,50".to_string()); }
    }
    if has(1) { v.push("1,CONSUMO,CAL,GASNATURAL,100\n1,SALIDA,CAL,90\n1,AUX,2".to_string()); }
    if has(0) && has(3) {
        // non-EPB use of ambient heat only (no non-EPB electricity), surplus ambient production exported to it
        v.push("1,CONSUMO,CAL,ELECTRICIDAD,10\n1,CONSUMO,NEPB,EAMBIENTE,20\n1,CONSUMO,CAL,EAMBIENTE,5\n1,PRODUCCION,EAMBIENTE,40".to_string());
        v.push("2,SALIDA,ACS,30\n2,CONSUMO,ACS,EAMBIENTE,20\n2,CONSUMO,ACS,ELECTRICIDAD,10\n5,PRODUCCION,EL_INSITU,30".to_string());
    }
    if has(0) {
        v.push("1,CONSUMO,CAL,ELECTRICIDAD,10\n1,CONSUMO,NEPB,TERMOSOLAR,8\n1,PRODUCCION,TERMOSOLAR,20\n1,CONSUMO,ACS,TERMOSOLAR,4".to_string());
        v.push("1,CONSUMO,ILU,ELECTRICIDAD,10,0\n1,PRODUCCION,EL_INSITU,0,30\n1,CONSUMO,NEPB,ELECTRICIDAD,0,12".to_string());
    }
    if has(0) && has(1) && has(2) { v.push("1,CONSUMO,CAL,ELECTRICIDAD,5\n2,PRODUCCION,EL_COGEN,30\n2,CONSUMO,COGEN,GASNATURAL,50\n2,CONSUMO,COGEN,BIOMASA,30\n1,CONSUMO,NEPB,ELECTRICIDAD,8".to_string()); }
    if has(2) { v.push("1,CONSUMO,ACS,BIOMASA,40".to_string()); }
    if has(4) { v.push("1,CONSUMO,CAL,RED1,40\n1,CONSUMO,REF,RED2,10".to_string()); }
    v
}

// ------------------------------------------------------------------------------------------------ C10
pub fn c10(rep: &mut Rep, seed: u64) {
    let mut rng = Rng(seed ^ 0x10);
    let bases = [
        "1,CONSUMO,CAL,ELECTRICIDAD,10,20\n1,CONSUMO,ACS,ELECTRICIDAD,5,5\n1,SALIDA,CAL,30,60\n1,SALIDA,ACS,10,10\n1,AUX,4,2\n2,PRODUCCION,EL_INSITU,12,3\n3,CONSUMO,CAL,EAMBIENTE,20,10\n0,CONSUMO,NEPB,ELECTRICIDAD,1,6",
        "0,CONSUMO,CAL,GASNATURAL,100\n4,PRODUCCION,EL_COGEN,30\n4,CONSUMO,COGEN,GASNATURAL,80\n2,CONSUMO,ILU,ELECTRICIDAD,12\n2,PRODUCCION,EL_INSITU,20\n5,CONSUMO,ACS,TERMOSOLAR,7\n5,PRODUCCION,TERMOSOLAR,3",
        "1,CONSUMO,CAL,GASNATURAL,50\n1,AUX,5\n2,CONSUMO,CAL,ELECTRICIDAD,20\n2,CONSUMO,REF,ELECTRICIDAD,10\n2,SALIDA,CAL,30\n2,SALIDA,REF,-10\n2,AUX,4",
        // a multi-service system with a step without any output (its auxiliary energy of that step must not depend on the run)
        "1,CONSUMO,CAL,ELECTRICIDAD,10,20,5\n1,CONSUMO,ACS,ELECTRICIDAD,5,5,5\n1,CONSUMO,REF,ELECTRICIDAD,1,1,1\n1,SALIDA,CAL,30,60,0\n1,SALIDA,ACS,10,10,0\n1,SALIDA,REF,-5,-5,0\n1,AUX,4,2,3\n2,CONSUMO,ILU,ELECTRICIDAD,3,3,3",
        // several systems using the same on-site carrier, some with their production declared in full, some without
        "1,CONSUMO,CAL,EAMBIENTE,100,100\n1,PRODUCCION,EAMBIENTE,100,100\n2,CONSUMO,ACS,EAMBIENTE,50,50\n3,CONSUMO,CAL,EAMBIENTE,30,0\n3,PRODUCCION,EAMBIENTE,30,0\n4,CONSUMO,ACS,EAMBIENTE,7,9\n1,CONSUMO,CAL,ELECTRICIDAD,40,40\n2,CONSUMO,ACS,ELECTRICIDAD,20,20\n5,CONSUMO,ACS,TERMOSOLAR,5,5\n5,PRODUCCION,TERMOSOLAR,5,5\n6,CONSUMO,ACS,TERMOSOLAR,5,5",
        // one service's output declared in several lines
        "1,CONSUMO,CAL,ELECTRICIDAD,100,50\n1,CONSUMO,ACS,ELECTRICIDAD,20,20\n1,SALIDA,CAL,450,200\n1,SALIDA,ACS,80,80\n1,SALIDA,CAL,150,100\n1,AUX,40,20",
        "1,CONSUMO,ACS,ELECTRICIDAD,100\n1,CONSUMO,ACS,EAMBIENTE,150\n2,CONSUMO,ACS,TERMOSOLAR,60",
        // a multi-service system whose auxiliary energy is zero next to systems that have some (ids chosen to spread over a hash set)
        "1,CONSUMO,CAL,GASNATURAL,100,50\n1,CONSUMO,ACS,GASNATURAL,20,20\n1,SALIDA,CAL,90,45\n1,SALIDA,ACS,18,18\n1,AUX,0,0\n2,CONSUMO,CAL,GASNATURAL,10,10\n2,CONSUMO,ACS,GASNATURAL,5,5\n2,SALIDA,CAL,9,9\n2,SALIDA,ACS,4,4\n2,AUX,3,3\n3,CONSUMO,REF,ELECTRICIDAD,8,8\n3,CONSUMO,VEN,ELECTRICIDAD,2,2\n3,SALIDA,REF,-20,-20\n3,SALIDA,VEN,1,1\n3,AUX,2,1\n17,CONSUMO,CAL,GASOLEO,30,30\n17,CONSUMO,ACS,GASOLEO,3,3\n17,SALIDA,CAL,25,25\n17,SALIDA,ACS,2,2\n17,AUX,1,1",
    ];
    // every figure of the serialized result (per-step series included), by path
    let all = |t: &str| -> Option<crate::leaf::Leaves> {
        let c: Components = t.parse().ok()?;
        energy_performance(&c, &crate::factors("PENINSULA"), 0.5, 2.0, true).ok().map(|ep| crate::leaf::results(&ep, false))
    };
    let sig = |t: &str| -> Result<Vec<f32>, String> {
        let c: Components = t.parse().map_err(|e| format!("{}", e))?;
        let w = crate::factors("PENINSULA");
        let ep = energy_performance(&c, &w, 0.5, 2.0, true).map_err(|e| format!("{}", e))?;
        let b = &ep.balance;
        let mut v = vec![b.used.epus, b.used.nepus, b.prod.an, b.del.an, b.exp.an, b.we.a.ren, b.we.a.nren, b.we.b.ren, b.we.b.nren, b.we.b.co2, ep.rer, ep.rer_nrb, ep.rer_onst];
        for s in Service::SERVICES_ALL {
            v.push(b.used.epus_by_srv.get(&s).copied().unwrap_or(0.0));
            v.push(b.we.b_by_srv.get(&s).map(|r| r.nren).unwrap_or(0.0));
            v.push(b.we.a_by_srv.get(&s).map(|r| r.ren).unwrap_or(0.0));
        }
        Ok(v)
    };
    for base in bases {
        let want = match sig(base) { Ok(s) => s, Err(e) => { rep.fail("C10.base", base, e); continue; } };
        let want_all = all(base);
        let lines: Vec<&str> = base.lines().collect();
        let mut variants: Vec<(String, String)> = vec![];
        for _ in 0..6 { let mut l = lines.clone(); for i in (1..l.len()).rev() { let j = (rng.next() % (i as u64 + 1)) as usize; l.swap(i, j); } variants.push(("reordered lines".into(), l.join("\n"))); }
        variants.push(("comments, blank lines, header, BOM, whitespace".into(), format!("\u{feff}# comment\nvector, tipo, src_dst\n\n{}\n  \n# end", lines.iter().map(|l| format!("  {} # c", l.replace(',', " , "))).collect::<Vec<_>>().join("\n\n"))));
        variants.push(("BOM + indented meta line + indented lines".into(), format!("\u{feff}    #META CTE_AREAREF: 100\n{}", lines.iter().map(|l| format!("    {}", l)).collect::<Vec<_>>().join("\n"))));
        variants.push(("BOM + indented comment first".into(), format!("\u{feff}  # comment\n{}", lines.join("\n"))));
        variants.push(("BOM + indented header first".into(), format!("\u{feff} \tvector, tipo, src_dst\n{}", lines.join("\n"))));
        variants.push(("BOM only".into(), format!("\u{feff}{}", lines.join("\n"))));
        variants.push(("indentation only".into(), lines.iter().map(|l| format!("\t  {}  ", l)).collect::<Vec<_>>().join("\n")));
        variants.push(("ids renumbered".into(), lines.iter().map(|l| { let (id, rest) = l.split_once(',').unwrap(); format!("{},{}", id.parse::<i32>().unwrap() * 7 + 100, rest) }).collect::<Vec<_>>().join("\n")));
        variants.push(("id 0 omitted".into(), lines.iter().map(|l| if l.starts_with("0,") { l[2..].to_string() } else { l.to_string() }).collect::<Vec<_>>().join("\n")));
        // split each line in turn in two lines with the same tags whose values add up
        for p in 0..lines.len() {
            let parts: Vec<&str> = lines[p].split(',').collect();
            let first_val = parts.iter().enumerate().position(|(i, x)| i >= 2 && x.trim().parse::<f32>().is_ok()).unwrap_or(parts.len());
            if first_val >= parts.len() { continue; }
            let head = parts[..first_val].join(",");
            let vals: Vec<f32> = parts[first_val..].iter().map(|x| x.trim().parse().unwrap()).collect();
            let a: Vec<String> = vals.iter().map(|v| format!("{}", v * 0.25)).collect();
            let b: Vec<String> = vals.iter().map(|v| format!("{}", v * 0.75)).collect();
            let mut l: Vec<String> = lines.iter().map(|s| s.to_string()).collect();
            l[p] = format!("{},{}", head, a.join(","));
            l.insert(if p % 2 == 0 { 0 } else { lines.len() }, format!("{},{}", head, b.join(",")));
            variants.push((format!("line {} split in two lines", p + 1), l.join("\n")));
        }
        for (name, t) in variants {
            rep.evals += 1;
            rep.nontrivial += 1;
            match sig(&t) {
                Ok(s) => if let Some(p) = s.iter().zip(&want).position(|(x, y)| !eq(*x, *y)) { rep.fail("C10.layout", &t, format!("{}: result #{} = {} instead of {}", name, p, s[p], want[p])); }
                    else if let (Some(a), Some(b)) = (&want_all, all(&t)) { if let Some(d) = crate::leaf::diff(a, &b, 1.0) { rep.fail("C10.layout", &t, format!("{}: a figure of the result differs: {}", name, d)); } },
                Err(e) => rep.fail("C10.layout", &t, format!("{}: {}", name, e)),
            }
        }
        for _ in 0..60 {
            rep.evals += 1;
            match sig(base) { Ok(s) => if s.iter().zip(&want).any(|(x, y)| !eq(*x, *y)) { rep.fail("C10.repeatable", base, "repeating the evaluation gives another result".into()); }
                else if let (Some(a), Some(b)) = (&want_all, all(base)) { if let Some(d) = crate::leaf::diff(a, &b, 1.0) { rep.fail("C10.repeatable", base, format!("repeating the evaluation gives another result: {}", d)); } }, Err(e) => rep.fail("C10.repeatable", base, e) }
        }
        if rep.samples.len() < 3 { rep.samples.push(json!({"components": base})); }
    }
    // a demand line split in two lines with the same tags whose values add up (demand lines carry no system id), in both orders and interleaved
    {
        let one = "DEMANDA,ACS,100,40\nDEMANDA,CAL,10,0\n1,CONSUMO,ACS,ELECTRICIDAD,30,12\n1,CONSUMO,ACS,EAMBIENTE,70,28\n2,CONSUMO,CAL,GASNATURAL,12,0";
        let want_needs = one.parse::<Components>().ok().map(|c| (c.needs.ACS.clone(), c.needs.CAL.clone()));
        let want_all = all(one);
        for (name, t) in [("demand line split in two (70 % + 30 %)", "DEMANDA,ACS,70,28\nDEMANDA,ACS,30,12\nDEMANDA,CAL,10,0\n1,CONSUMO,ACS,ELECTRICIDAD,30,12\n1,CONSUMO,ACS,EAMBIENTE,70,28\n2,CONSUMO,CAL,GASNATURAL,12,0"),
                          ("demand line split in two, parts apart and in the other order", "DEMANDA,ACS,30,12\n1,CONSUMO,ACS,ELECTRICIDAD,30,12\nDEMANDA,CAL,2.5,0\n1,CONSUMO,ACS,EAMBIENTE,70,28\nDEMANDA,ACS,70,28\n2,CONSUMO,CAL,GASNATURAL,12,0\nDEMANDA,CAL,7.5,0")] {
            rep.evals += 1;
            match t.parse::<Components>() {
                Ok(c) => {
                    let got = Some((c.needs.ACS.clone(), c.needs.CAL.clone()));
                    let same = match (&want_needs, &got) { (Some((a1, c1)), Some((a2, c2))) => { let veqo = |x: &Option<Vec<f32>>, y: &Option<Vec<f32>>| match (x, y) { (Some(x), Some(y)) => x.len() == y.len() && x.iter().zip(y).all(|(p, q)| eq(*p, *q)), (None, None) => true, _ => false }; veqo(a1, a2) && veqo(c1, c2) }, _ => false };
                    if !same { rep.fail("C10.layout", t, format!("{}: building needs {:?} instead of {:?}", name, got, want_needs)); }
                    else if let (Some(a), Some(b)) = (&want_all, all(t)) { if let Some(d) = crate::leaf::diff(a, &b, 1.0) { rep.fail("C10.layout", t, format!("{}: a figure of the result differs: {}", name, d)); } }
                }
                Err(e) => rep.fail("C10.layout", t, format!("{}: {}", name, e)),
            }
        }
    }
}

// ------------------------------------------------------------------------------------------------ C16
/// bounded no-panic check of the library on valid files, systematic token-level corruptions of them and special shapes:
/// parse -> prepare factors -> strip -> energy_performance (both modes) -> DHW renewable fraction
pub fn c16(rep: &mut Rep, seed: u64) {
    use std::panic;
    let mut rng = Rng(seed ^ 0x16);
    let prev = panic::take_hook();
    panic::set_hook(Box::new(|_| {}));
    let mut corpus: Vec<String> = vec![];
    if let Ok(rd) = std::fs::read_dir("/repo/test_data") {
        let mut names: Vec<_> = rd.filter_map(|e| e.ok()).map(|e| e.path()).filter(|p| p.extension().map(|x| x == "csv").unwrap_or(false)).collect();
        names.sort();
        for p in names { if let Ok(s) = std::fs::read_to_string(&p) { if !p.to_string_lossy().contains("factores") { corpus.push(s); } } }
    }
    for t in crate::gen::extras() { corpus.push(t.to_string()); }
    let specials = [
        // auxiliary energy of a system without any consumption, with and without outputs
        "1,CONSUMO,CAL,GASNATURAL,100\n2,AUX,5", "2,AUX,0\n1,CONSUMO,CAL,GASNATURAL,100", "1,PRODUCCION,EL_INSITU,10\n1,AUX,3", "3,SALIDA,CAL,30\n3,SALIDA,ACS,10\n3,AUX,4",
        // DHW demand with biomass + gas, PV of the same system before / without the output line
        "DEMANDA,ACS,100\n1,PRODUCCION,EL_INSITU,10\n1,CONSUMO,ACS,BIOMASA,80\n1,CONSUMO,ACS,GASNATURAL,40\n1,SALIDA,ACS,100",
        "DEMANDA,ACS,100\n1,CONSUMO,ACS,BIOMASA,80\n1,CONSUMO,ACS,GASNATURAL,40\n1,CONSUMO,ACS,TERMOSOLAR,10",
        "DEMANDA,ACS,100\n1,CONSUMO,ACS,BIOMASA,80\n1,CONSUMO,ACS,GASNATURAL,40\n1,CONSUMO,ACS,EAMBIENTE,10\n2,SALIDA,ACS,20",
        "DEMANDA,ACS,0\n1,CONSUMO,ACS,ELECTRICIDAD,10", "DEMANDA,ACS,50,50\nDEMANDA,ACS,1\n1,CONSUMO,ACS,GASNATURAL,1,1", "DEMANDA,VEN,5\n1,CONSUMO,ACS,GASNATURAL,1",
        // different lengths in lines that the normalization combines (ambient use / production of one system; outputs / auxiliaries of a multi-service system)
        "1,CONSUMO,CAL,EAMBIENTE,1,2,3\n1,PRODUCCION,EAMBIENTE,1,2", "1,CONSUMO,ACS,TERMOSOLAR,1,2\n1,PRODUCCION,TERMOSOLAR,1,2,3\n2,CONSUMO,ILU,ELECTRICIDAD,1,1",
        "1,CONSUMO,CAL,ELECTRICIDAD,1,2\n1,CONSUMO,ACS,ELECTRICIDAD,1,2\n1,SALIDA,CAL,3,3,3\n1,SALIDA,ACS,1,1\n1,AUX,1,1", "1,CONSUMO,CAL,ELECTRICIDAD,1,2\n1,CONSUMO,ACS,ELECTRICIDAD,1,2\n1,SALIDA,CAL,3,3\n1,SALIDA,ACS,1,1\n1,AUX,1,1,1",
        // the comment tags the documentation mentions, on every kind of line, with a DHW demand
        "DEMANDA,ACS,100\n1,CONSUMO,ACS,ELECTRICIDAD,30 # CTEEPBD_EXCLUYE_SCOP_ACS\n1,CONSUMO,ACS,EAMBIENTE,70 # CTEEPBD_AUX\n1,PRODUCCION,EAMBIENTE,70 # CTEEPBD_AUX\n2,PRODUCCION,EL_INSITU,10 # CTEEPBD_AUX CTEEPBD_EXCLUYE_AUX_ACS\n1,AUX,2 # CTEEPBD_AUX\n1,SALIDA,ACS,100 # CTEEPBD_AUX CTEEPBD_EXCLUYE_SCOP_ACS",
        "DEMANDA,ACS,50 # CTEEPBD_AUX\n1,CONSUMO,ACS,GASNATURAL,60 # CTEEPBD_EXCLUYE_AUX_ACS\n2,PRODUCCION,EL_COGEN,5 # CTEEPBD_AUX\n2,CONSUMO,COGEN,GASNATURAL,15 # CTEEPBD_AUX\n3,CONSUMO,NEPB,ELECTRICIDAD,1 # CTEEPBD_AUX",
        // only outputs / only production / empty / different lengths / odd numbers
        "1,SALIDA,CAL,30", "1,PRODUCCION,EL_COGEN,10", "", "#META CTE_AREAREF: x", "1,CONSUMO,CAL,GASNATURAL,1,2\n1,CONSUMO,ACS,GASNATURAL,1", "1,CONSUMO,CAL,GASNATURAL,NaN,inf,-1e40,1e39",
        "CONSUMO,CAL", ",,,,", "1,CONSUMO,CAL,GASNATURAL", "ñ,CONSUMO,CAL,GASNATURAL,1", "1,CONSUMO,CAL,ELECTRICIDAD,1 # com # ment\n\u{feff}",
    ];
    for s in specials { corpus.push(s.to_string()); }
    // systematic corruptions of the valid files: drop / duplicate / replace one token or one line
    let base: Vec<String> = corpus.iter().take(20).cloned().collect();
    let repl = ["", "AUX", "SALIDA", "COGEN", "NEPB", "EL_COGEN", "-1", "x", "1e40", "NaN", "0"];
    for t in &base {
        let lines: Vec<&str> = t.lines().filter(|l| !l.trim().is_empty()).collect();
        if lines.is_empty() { continue; }
        for _ in 0..crate::preds::scale() {
            let mut l: Vec<String> = lines.iter().map(|s| s.to_string()).collect();
            let i = (rng.next() % l.len() as u64) as usize;
            match rng.next() % 6 {
                0 => { l.remove(i); }
                1 => { let x = l[i].clone(); l.insert(i, x); }
                2 => { let j = (rng.next() % l.len() as u64) as usize; l.swap(i, j); }
                _ => {
                    let mut toks: Vec<String> = l[i].split(',').map(|s| s.to_string()).collect();
                    let j = (rng.next() % toks.len() as u64) as usize;
                    match rng.next() % 3 { 0 => { toks.remove(j); } 1 => { let x = toks[j].clone(); toks.insert(j, x); } _ => { toks[j] = rng.pick(&repl).to_string(); } }
                    l[i] = toks.join(",");
                }
            }
            corpus.push(l.join("\n"));
        }
    }
    // systematic truncations: every line of the valid files cut after each of its fields, with and without the comma that follows (alone and inside the file)
    {
        let mut seen: std::collections::HashSet<String> = Default::default();
        for t in base.iter().take(12).chain(specials.iter().map(|s| s.to_string()).collect::<Vec<String>>().iter()) {
            let lines: Vec<&str> = t.lines().collect();
            for (i, l) in lines.iter().enumerate() {
                let toks: Vec<&str> = l.split(',').collect();
                if toks.len() < 2 || l.trim_start().starts_with('#') { continue; }
                for k in 1..toks.len().min(7) {
                    for tail in ["", ",", ", "] {
                        let cut = format!("{}{}", toks[..k].join(","), tail);
                        if !seen.insert(cut.clone()) { continue; }
                        corpus.push(cut.clone());
                        let mut whole: Vec<String> = lines.iter().map(|x| x.to_string()).collect();
                        whole[i] = cut;
                        corpus.push(whole.join("\n"));
                    }
                }
            }
        }
    }
    for text in &corpus {
        rep.evals += 1;
        let t2 = text.clone();
        let r = panic::catch_unwind(move || {
            let comps: Components = match t2.parse() { Ok(c) => c, Err(_) => return 0 };
            let w = crate::factors("PENINSULA");
            let ws = w.clone().strip(&comps);
            let mut n = 1;
            for (wf, k, lm) in [(&w, 0.0f32, false), (&ws, 0.7, true)] {
                if let Ok(ep) = energy_performance(&comps, wf, k, 1.0, lm) {
                    let _ = cte::incorpora_demanda_renovable_acs_nrb(ep);
                    n += 1;
                }
            }
            n
        });
        match r {
            Ok(n) => if n > 1 { rep.nontrivial += 1; },
            Err(e) => {
                let msg = e.downcast_ref::<String>().cloned().or_else(|| e.downcast_ref::<&str>().map(|s| s.to_string())).unwrap_or_else(|| "panic".into());
                rep.fail("C16.no_panic", text, format!("the library panicked: {}", msg));
            }
        }
        if rep.evals % 301 == 2 && rep.samples.len() < 4 { rep.samples.push(json!({"components": text})); }
    }
    // ---- long lines of an unknown kind with non-ASCII text (error paths that quote the line)
    for pad in 0..70usize {
        for tail in ["calefacci\u{f3}n (COP 3) \u{e1}\u{e9}\u{ed}\u{f3}\u{fa} \u{f1}\u{f1}\u{f1}\u{f1}\u{f1}\u{f1}\u{f1}\u{f1}", "\u{4e2d}\u{6587}\u{4e2d}\u{6587}\u{4e2d}\u{6587}\u{4e2d}\u{6587}\u{4e2d}\u{6587}\u{4e2d}\u{6587}\u{4e2d}\u{6587}"] {
            rep.evals += 1;
            let text = format!("2, CONSUM0, CAL, ELECTRICIDAD, 16.39, 13.11 #{}{}\n1,CONSUMO,CAL,ELECTRICIDAD,1,1", "x".repeat(pad), tail);
            let t2 = text.clone();
            if panic::catch_unwind(move || { let _ = t2.parse::<Components>(); }).is_err() { rep.fail("C16.no_panic", &text, "the components parser panicked on a long line of unknown kind with non-ASCII text".into()); }
            let ftext = format!("ELECTRICIDAD, REDD, SUMINISTRO, A, 0.4, 2.0, 0.3 #{}{}", "x".repeat(pad), tail);
            let t3 = ftext.clone();
            if panic::catch_unwind(move || { let _ = t3.parse::<Factors>(); let _ = cte::wfactors_from_str(&t3, UserWF { red1: None, red2: None }, cte::CTE_USERWF); }).is_err() { rep.fail("C16.no_panic", &ftext, "the factors parser panicked on a long malformed line with non-ASCII text".into()); }
        }
    }
    // ---- metadata accessors, factor files and the small value parsers
    let metas = ["#META CTE_RED1: 0.5", "#META CTE_RED1: NaN", "#META CTE_RED1: 0.1, 0.2", "#META CTE_RED1: 0.1, 0.2, 0.3, 0.4", "#META CTE_RED2: ", "#META CTE_RED2: a, b, c", "#META CTE_RED1: { ren: 1 }",
        "#META CTE_AREAREF: ", "#META CTE_AREAREF: -0", "#META CTE_KEXP: 1e400", "#META CTE_LOCALIZACION: ", "#META : x", "#META", "#CTE_RED1 0.5"];
    for m in metas {
        rep.evals += 1;
        let text = format!("{}\n1,CONSUMO,CAL,RED1,10\n1,CONSUMO,ACS,RED2,5", m);
        let t2 = text.clone();
        let r = panic::catch_unwind(move || {
            if let Ok(c) = t2.parse::<Components>() {
                let _ = (c.get_meta_rennren("CTE_RED1"), c.get_meta_rennren("CTE_RED2"), c.get_meta_f32("CTE_AREAREF"), c.get_meta_f32("CTE_KEXP"), c.get_meta("CTE_LOCALIZACION"), c.has_meta_value("CTE_LOCALIZACION", "PENINSULA"));
                let user = UserWF { red1: c.get_meta_rennren("CTE_RED1"), red2: c.get_meta_rennren("CTE_RED2") };
                if let Ok(w) = cte::wfactors_from_loc("PENINSULA", &cte::CTE_LOCWF_RITE2014, user, cte::CTE_USERWF) { let _ = energy_performance(&c, &w, 0.3, 1.0, true); }
            }
        });
        if let Err(e) = r {
            let msg = e.downcast_ref::<String>().cloned().or_else(|| e.downcast_ref::<&str>().map(|s| s.to_string())).unwrap_or_else(|| "panic".into());
            rep.fail("C16.no_panic", &text, format!("the library panicked on a metadata line: {}", msg));
        }
    }
    // location names as a caller (or the CTE_LOCALIZACION metadata of a file) may spell them, with the regulatory table and with a table of the caller's
    // that lacks some of the regulatory locations: a result or an error, never a panic
    {
        let mut partial: std::collections::HashMap<&'static str, Factors> = Default::default();
        if let Ok(f) = cte::wfactors_from_loc("PENINSULA", &cte::CTE_LOCWF_RITE2014, UserWF { red1: None, red2: None }, cte::CTE_USERWF) { partial.insert("PENINSULA", f); }
        for loc in ["PENINSULA", "Peninsula", "peninsula", " PENINSULA", "PENINSULA ", "canarias", "Canarias", "BALEARES", "baleares", "CEUTAMELILLA", "CeutaMelilla", "CEUTA", "MADRID", "", " ", "PENÍNSULA", "peninsula\n", "\u{feff}PENINSULA"] {
            rep.evals += 1;
            let l2 = loc.to_string(); let p2 = partial.clone();
            let r = panic::catch_unwind(move || {
                let _ = cte::wfactors_from_loc(&l2, &cte::CTE_LOCWF_RITE2014, UserWF { red1: None, red2: None }, cte::CTE_USERWF);
                let _ = cte::wfactors_from_loc(&l2, &p2, UserWF { red1: None, red2: None }, cte::CTE_USERWF);
            });
            if r.is_err() { rep.fail("C16.no_panic", loc, format!("wfactors_from_loc panicked on the location name {:?}", loc)); }
        }
    }
    let soups = ["", "0.5", "NaN", "1,2", "1,2,3", "1,2,3,4", " , , ", "a,b,c", "1e400,0,0", "-1,-2,-3", "{ ren: 1.0, nren: 2.0, co2: 3.0 }", "{ ren: x }", "ñ", "\u{feff}1,2,3", "ELECTRICIDAD", "electricidad", "EL_INSITU", "A_RED", "B", "CAL", "COGEN", "#"];
    for t in soups {
        rep.evals += 1;
        let t2 = t.to_string();
        let r = panic::catch_unwind(move || {
            let _ = t2.parse::<RenNrenCo2>(); let _ = t2.parse::<Carrier>(); let _ = t2.parse::<Service>(); let _ = t2.parse::<ProdSource>(); let _ = t2.parse::<Source>(); let _ = t2.parse::<Dest>(); let _ = t2.parse::<Step>();
            let _ = t2.parse::<Factor>(); let _ = t2.parse::<EUsed>(); let _ = t2.parse::<EProd>(); let _ = t2.parse::<EAux>(); let _ = t2.parse::<EOut>();
        });
        if r.is_err() { rep.fail("C16.no_panic", t, "a value parser (FromStr) panicked".into()); }
        // metadata lines as the file parsers hand them to Meta::from_str (always with the `#META` / `#CTE_` prefix; the bare
        // `Meta::from_str` slices off five bytes unconditionally and is not a text "given as components or factors file")
        for prefix in ["#META", "#META ", "#CTE_", "#META\u{f1}"] {
            let t3 = format!("{}{}", prefix, t);
            if panic::catch_unwind(move || { let _ = t3.parse::<Meta>(); }).is_err() { rep.fail("C16.no_panic", t, format!("Meta::from_str panicked on a line starting with {}", prefix)); }
        }
    }
    let mut fcorpus: Vec<String> = vec![];
    for f in ["factores_paso_PENINSULA_20140203.csv", "factores_paso_test.csv"] { if let Ok(t) = std::fs::read_to_string(format!("/repo/test_data/{}", f)) { fcorpus.push(t); } }
    fcorpus.push("ELECTRICIDAD, RED, SUMINISTRO, A, 0.414, 1.954, 0.331\nGASNATURAL, RED, SUMINISTRO, A, 0.005, 1.190, 0.252\nELECTRICIDAD, COGEN, A_RED, A, 0.0, 2.5, 0.3\n#META CTE_FUENTE: x".into());
    let fbase = fcorpus.clone();
    let frepl = ["", "RED", "INSITU", "COGEN", "A_NEPB", "B", "x", "NaN", "1e40", "-1", "ELECTRICIDAD", "RED1"];
    for t in &fbase {
        let lines: Vec<&str> = t.lines().filter(|l| !l.trim().is_empty()).collect();
        for _ in 0..crate::preds::scale() {
            let mut l: Vec<String> = lines.iter().map(|s| s.to_string()).collect();
            let i = (rng.next() % l.len() as u64) as usize;
            match rng.next() % 5 {
                0 => { l.remove(i); }
                1 => { let x = l[i].clone(); l.insert(i, x); }
                _ => {
                    let mut toks: Vec<String> = l[i].split(',').map(|s| s.to_string()).collect();
                    let j = (rng.next() % toks.len() as u64) as usize;
                    match rng.next() % 3 { 0 => { toks.remove(j); } 1 => { let x = toks[j].clone(); toks.insert(j, x); } _ => { toks[j] = rng.pick(&frepl).to_string(); } }
                    l[i] = toks.join(",");
                }
            }
            fcorpus.push(l.join("\n"));
        }
    }
    let probe: Components = "1,CONSUMO,CAL,ELECTRICIDAD,10,5\n1,PRODUCCION,EL_INSITU,20,0\n2,CONSUMO,ACS,GASNATURAL,5,5\n3,CONSUMO,COGEN,GASNATURAL,9,9\n3,PRODUCCION,EL_COGEN,3,3\n4,CONSUMO,NEPB,ELECTRICIDAD,1,1".parse().expect("probe building");
    for text in &fcorpus {
        rep.evals += 1;
        let (t2, c2) = (text.clone(), probe.clone());
        let r = panic::catch_unwind(move || {
            let _ = t2.parse::<Factors>();
            for user in [UserWF { red1: None, red2: None }, UserWF { red1: Some(RenNrenCo2::new(0.1, 0.9, 0.2)), red2: Some(RenNrenCo2::new(0.0, 1.3, 0.3)) }] {
                if let Ok(w) = cte::wfactors_from_str(&t2, user, cte::CTE_USERWF) {
                    let _ = energy_performance(&c2, &w, 0.5, 1.0, true);
                    let _ = energy_performance(&c2, &w.clone().strip(&c2), 1.0, 1.0, false);
                    let _ = w.to_string();
                }
            }
        });
        if let Err(e) = r {
            let msg = e.downcast_ref::<String>().cloned().or_else(|| e.downcast_ref::<&str>().map(|s| s.to_string())).unwrap_or_else(|| "panic".into());
            rep.fail("C16.no_panic", text, format!("the library panicked on a factors file: {}", msg));
        }
    }
    panic::set_hook(prev);
}

// ------------------------------------------------------------------------------------------------ C02
/// the crate's result against the reference evaluation of the equations (refimpl.rs), over the text cases, the seeded buildings and a
/// stride of the enumerated small buildings x the four regulatory factor sets and two user files with pairwise different factors
/// x k_exp in {0, 0.3, 1} x both load-matching modes
pub fn c02(rep: &mut Rep, seed: u64) {
    let user_files = [
        "ELECTRICIDAD, RED, SUMINISTRO, A, 0.41, 1.95, 0.33\nELECTRICIDAD, INSITU, SUMINISTRO, A, 1.0, 0.0, 0.0\nELECTRICIDAD, INSITU, A_RED, A, 0.9, 0.1, 0.01\nELECTRICIDAD, INSITU, A_NEPB, A, 0.8, 0.2, 0.02\nELECTRICIDAD, INSITU, A_RED, B, 0.5, 2.1, 0.4\nELECTRICIDAD, INSITU, A_NEPB, B, 0.45, 2.2, 0.43\n\
         GASNATURAL, RED, SUMINISTRO, A, 0.005, 1.19, 0.25\nGASOLEO, RED, SUMINISTRO, A, 0.003, 1.18, 0.31\nGLP, RED, SUMINISTRO, A, 0.03, 1.2, 0.254\nCARBON, RED, SUMINISTRO, A, 0.002, 1.08, 0.47\nBIOMASA, RED, SUMINISTRO, A, 1.03, 0.034, 0.018\nBIOMASADENSIFICADA, RED, SUMINISTRO, A, 1.028, 0.085, 0.018\nBIOCARBURANTE, RED, SUMINISTRO, A, 1.028, 0.085, 0.018\n\
         RED1, RED, SUMINISTRO, A, 0.2, 1.1, 0.21\nRED2, RED, SUMINISTRO, A, 0.6, 0.7, 0.11\n\
         EAMBIENTE, RED, SUMINISTRO, A, 1.0, 0.0, 0.0\nEAMBIENTE, INSITU, SUMINISTRO, A, 1.0, 0.0, 0.0\nEAMBIENTE, INSITU, A_RED, A, 0.95, 0.05, 0.004\nEAMBIENTE, INSITU, A_NEPB, A, 0.85, 0.15, 0.006\nEAMBIENTE, INSITU, A_RED, B, 0.3, 0.9, 0.2\nEAMBIENTE, INSITU, A_NEPB, B, 0.25, 0.8, 0.19\n\
         TERMOSOLAR, RED, SUMINISTRO, A, 1.0, 0.0, 0.0\nTERMOSOLAR, INSITU, SUMINISTRO, A, 1.0, 0.0, 0.0\nTERMOSOLAR, INSITU, A_RED, A, 0.97, 0.03, 0.003\nTERMOSOLAR, INSITU, A_NEPB, A, 0.87, 0.13, 0.005\nTERMOSOLAR, INSITU, A_RED, B, 0.33, 0.93, 0.23\nTERMOSOLAR, INSITU, A_NEPB, B, 0.28, 0.83, 0.22",
        "ELECTRICIDAD, RED, SUMINISTRO, A, 0.5, 2.0, 0.42\nELECTRICIDAD, INSITU, A_RED, B, 0.1, 2.5, 0.5\nELECTRICIDAD, INSITU, A_NEPB, B, 0.7, 1.5, 0.1\nGASNATURAL, RED, SUMINISTRO, A, 0.0, 1.1, 0.22\nGASOLEO, RED, SUMINISTRO, A, 0.0, 1.3, 0.3\nGLP, RED, SUMINISTRO, A, 0.0, 1.25, 0.26\nCARBON, RED, SUMINISTRO, A, 0.0, 1.1, 0.5\nBIOMASA, RED, SUMINISTRO, A, 1.0, 0.1, 0.07\nBIOMASADENSIFICADA, RED, SUMINISTRO, A, 1.0, 0.2, 0.08\nBIOCARBURANTE, RED, SUMINISTRO, A, 1.0, 0.3, 0.09\nEAMBIENTE, RED, SUMINISTRO, A, 1.0, 0.0, 0.0\nTERMOSOLAR, RED, SUMINISTRO, A, 1.0, 0.0, 0.0",
    ];
    let mut sets: Vec<(String, Factors)> = ["PENINSULA", "BALEARES", "CANARIAS", "CEUTAMELILLA"].iter().map(|l| (l.to_string(), crate::factors(l))).collect();
    for (i, u) in user_files.iter().enumerate() {
        match cte::wfactors_from_str(u, UserWF { red1: Some(RenNrenCo2::new(0.3, 0.9, 0.2)), red2: None }, cte::CTE_USERWF) {
            Ok(w) => sets.push((format!("user file {}", i + 1), w)),
            Err(e) => rep.fail("C02.factor_file", u, format!("user factor file rejected: {}", e)),
        }
    }
    let mut texts: Vec<String> = crate::gen::extras().iter().map(|s| s.to_string()).collect();
    texts.extend(crate::gen::random_texts(seed, crate::preds::scale()));
    for (i, b) in crate::gen::singles().iter().enumerate() { if i % 7 == 3 { let t = crate::gen::text(&[*b]); if !t.is_empty() { texts.push(t); } } }
    for m in crate::gen::multis(seed, crate::preds::scale() / 3) { texts.push(crate::gen::text(&m)); }
    for (ti, t) in texts.iter().enumerate() {
        let comps: Components = match t.parse() { Ok(c) => c, Err(_) => continue };
        for (si, (sname, w)) in sets.iter().enumerate() {
            // every building with two of the six sets in turn (all six for the hand-written ones), every k_exp and mode
            if ti >= 20 && (ti + si) % 3 != 0 { continue; }
            for k in [0.0f32, 0.3, 1.0] {
                for lm in [false, true] {
                    let area = if (ti + si) % 2 == 0 { 1.0 } else { 37.5 };
                    rep.evals += 1;
                    let ep = match energy_performance(&comps, w, k, area, lm) { Ok(e) => e, Err(_) => continue };
                    let r = match crate::refimpl::evaluate(&comps, w, k as f64, lm) { Ok(r) => r, Err(e) => { rep.fail("C02.reference", t, format!("{}: the crate returns a result where the equations cannot be evaluated: {}", sname, e)); continue } };
                    // non-trivial: something is exported (the step A / step B weighting of exports, the averaging by source and k_exp are exercised)
                    if ep.balance.exp.an > 0.0 { rep.nontrivial += 1; }
                    let mag: f64 = ep.balance_cr.values().map(|b| (b.used.epus_an + b.used.nepus_an + b.used.cgnus_an + b.prod.an) as f64).sum();
                    if let Some(what) = crate::refimpl::compare(&ep, &r, 3e-6 * mag) {
                        rep.fail("C02.equations", t, format!("{}, k_exp {}, area {}, load matching {}: {}", sname, k, area, lm, what));
                    }
                }
            }
        }
        if ti % 97 == 5 && rep.samples.len() < 4 { rep.samples.push(json!({"components": t})); }
    }
}
