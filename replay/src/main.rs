//! vreplay: runs concrete inputs against the REAL cteepbd crate (path dependency on /repo).
//!   vreplay eval <components-file> <loc> <k_exp> <area> <lm:0|1>   -> prints key results as JSON
use cteepbd::{cte, energy_performance, types::*, Components};

fn eval(comps: &str, loc: &str, k_exp: f32, area: f32, lm: bool) -> Result<serde_json::Value, String> {
    let c: Components = comps.parse().map_err(|e| format!("{}", e))?;
    let w = cte::wfactors_from_loc(loc, &cte::CTE_LOCWF_RITE2014, cteepbd::UserWF { red1: None, red2: None }, cte::CTE_USERWF).map_err(|e| format!("{}", e))?;
    let ep = energy_performance(&c, &w, k_exp, area, lm).map_err(|e| format!("{}", e))?;
    Ok(serde_json::json!({
        "a": [ep.balance.we.a.ren, ep.balance.we.a.nren, ep.balance.we.a.co2],
        "b": [ep.balance.we.b.ren, ep.balance.we.b.nren, ep.balance.we.b.co2],
        "rer": ep.rer, "rer_nrb": ep.rer_nrb, "rer_onst": ep.rer_onst,
        "used_epus": ep.balance.used.epus, "prod_an": ep.balance.prod.an, "del_grid": ep.balance.del.grid,
    }))
}

fn main() {
    let a: Vec<String> = std::env::args().collect();
    if a.len() >= 7 && a[1] == "eval" {
        let s = std::fs::read_to_string(&a[2]).expect("components file");
        match eval(&s, &a[3], a[4].parse().unwrap(), a[5].parse().unwrap(), a[6] == "1") {
            Ok(v) => println!("{}", v),
            Err(e) => println!("{{\"error\": {:?}}}", e),
        }
        return;
    }
    eprintln!("usage: vreplay eval <file> <loc> <k_exp> <area> <lm>");
    std::process::exit(2);
}
