//! vreplay: runs concrete inputs against the REAL cteepbd crate (path dependency on /repo).
//!
//!   vreplay eval <components-file> <loc> <k_exp> <area> <lm:0|1>    print key results of one evaluation
//!   vreplay check <Cxx> [seed]                                      bounded, exhaustive evaluation of the property's own
//!                                                                   predicate over a small stated domain (JSON report)
//! The bounded search is the stand-in / counterexample finder of DESIGN.md 2.5-2.6: it is labelled `bounded`,
//! never counted as proof.
use cteepbd::{cte, energy_performance, types::*, Components, Factors, UserWF};
use serde_json::{json, Value};

mod gen;
mod leaf;
mod refimpl;
mod preds;
mod preds2;

pub struct Case {
    pub text: String,
    pub loc: &'static str,
    pub k_exp: f32,
    pub area: f32,
    pub lm: bool,
}

pub fn factors(loc: &str) -> Factors {
    cte::wfactors_from_loc(loc, &cte::CTE_LOCWF_RITE2014, UserWF { red1: None, red2: None }, cte::CTE_USERWF).expect("regulatory factors")
}

pub fn run(c: &Case) -> Result<EnergyPerformance, String> {
    let comps: Components = c.text.parse().map_err(|e| format!("{}", e))?;
    let w = factors(c.loc);
    let r = energy_performance(&comps, &w, c.k_exp, c.area, c.lm).map_err(|e| format!("{}", e));
    if let Ok(ep) = &r { leaf::note_magnitude(ep); }
    r
}

/// the same building as a component set built in code: the productions added by the automatic completion are taken out again, so
/// the set is what a caller who fills `Components` through the public types (and does not normalize) would pass
pub fn run_uncompleted(c: &Case) -> Result<EnergyPerformance, String> {
    let mut comps: Components = c.text.parse().map_err(|e| format!("{}", e))?;
    let before = comps.data.len();
    comps.data.retain(|e| !matches!(e, cteepbd::types::Energy::Prod(p) if p.comment.starts_with("Equilibrado de consumo")));
    if comps.data.len() == before { return Err("nothing was completed".into()); }
    let w = factors(c.loc);
    let r = std::panic::catch_unwind(move || energy_performance(&comps, &w, c.k_exp, c.area, c.lm)).map_err(|_| "panic".to_string())?.map_err(|e| format!("{}", e));
    if let Ok(ep) = &r { leaf::note_magnitude(ep); }
    r
}

fn eval(comps: &str, loc: &str, k_exp: f32, area: f32, lm: bool) -> Result<Value, String> {
    let c: Components = comps.parse().map_err(|e| format!("{}", e))?;
    let w = cte::wfactors_from_loc(loc, &cte::CTE_LOCWF_RITE2014, UserWF { red1: None, red2: None }, cte::CTE_USERWF).map_err(|e| format!("{}", e))?;
    let ep = energy_performance(&c, &w, k_exp, area, lm).map_err(|e| format!("{}", e))?;
    Ok(json!({
        "a": [ep.balance.we.a.ren, ep.balance.we.a.nren, ep.balance.we.a.co2],
        "b": [ep.balance.we.b.ren, ep.balance.we.b.nren, ep.balance.we.b.co2],
        "rer": ep.rer, "rer_nrb": ep.rer_nrb, "rer_onst": ep.rer_onst,
        "used_epus": ep.balance.used.epus, "prod_an": ep.balance.prod.an, "del_grid": ep.balance.del.grid,
    }))
}

fn main() {
    let a: Vec<String> = std::env::args().collect();
    if a.len() >= 7 && a[1] == "eval" {
        let s = std::fs::read_to_string(&a[2]).expect("components file");
        match eval(&s, &a[3], a[4].parse().unwrap(), a[5].parse().unwrap(), a[6] == "1") {
            Ok(v) => println!("{}", v),
            Err(e) => println!("{{\"error\": {:?}}}", e),
        }
        return;
    }
    if a.len() >= 3 && a[1] == "parse" {
        // print the components after parsing + normalization (one per line)
        let s = std::fs::read_to_string(&a[2]).expect("components file");
        match s.parse::<Components>() {
            Ok(c) => { for e in &c.data { println!("{}", e); } let cs = c.available_carriers(); let mut v: Vec<String> = cs.iter().map(|c| c.to_string()).collect(); v.sort(); println!("carriers: {}", v.join(",")); }
            Err(e) => println!("error: {}", e),
        }
        return;
    }
    if a.len() >= 3 && a[1] == "check" {
        let seed: u64 = a.get(3).and_then(|s| s.parse().ok()).unwrap_or(0);
        // 4th argument: how many seeded multi-step buildings / corruption rounds (quick 60, thorough 600)
        let n: usize = a.get(4).and_then(|s| s.parse().ok()).unwrap_or(60);
        preds::set_scale(n);
        // a panic of the crate under test outside the places where a predicate expects one: reported as such (the driver answers "undecided")
        let pid = a[2].clone();
        match std::panic::catch_unwind(move || preds::check(&pid, seed)) {
            Ok(rep) => println!("{}", rep),
            Err(e) => {
                let msg = e.downcast_ref::<String>().cloned().or_else(|| e.downcast_ref::<&str>().map(|s| s.to_string())).unwrap_or_else(|| "panic".into());
                println!("{}", serde_json::json!({"property": a[2], "harness_panic": msg}));
            }
        }
        return;
    }
    eprintln!("usage: vreplay eval <file> <loc> <k_exp> <area> <lm> | vreplay check <Cxx> [seed]");
    std::process::exit(2);
}
